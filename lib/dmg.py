"""C14: a damaged record is never returned as data.  Multi-segment V2 logs built by the Coq encoder; one log
file damaged in place (bit flips, 1-8 byte overwrites, truncation, zero-filled tail); index files intact;
observed through Consume (all offsets), Get, GetByKey, GetByTime, ConsumeByKey after Open with default options."""
import random
import re

import codec
import kv
import recov

KEYS = ['61', '62', '-', '6364']


def build_logs(rng, n):
    """each log: list of segments dict(base, msgs, log, idx, positions, sizes) with keys+times"""
    logs = []
    for li in range(n):
        nseg = rng.choice([2, 3])
        off, t = rng.choice([0, 5]), 100
        segs, lines = [], []
        for si in range(nseg):
            cnt = rng.choice([1, 2, 3]) if si < nseg - 1 else rng.choice([0, 1, 2, 3])
            base = off
            msgs = []
            for j in range(cnt):
                t += rng.choice([0, 1, 2])
                msgs.append('%d|%d|%s|%s' % (off, t, rng.choice(KEYS), codec.rnd_bytes(rng, rng.choice([0, 1, 4, 9]))))
                off += rng.choice([1, 1, 2])
            segs.append(dict(base=base, msgs=msgs))
            lines.append('mkseg 2 2 1 1 %d %s' % (base, ' '.join(msgs)))
            if cnt == 0:
                off = base
        outs = recov.model_lines([l.strip() for l in lines], 'c14heads')
        for s, o in zip(segs, outs):
            s['log'], s['idx'] = o.split()
            pos, p = [], 8
            for m in s['msgs']:
                pos.append(p)
                p += 36 + recov.hexlen(m.split('|')[2]) + recov.hexlen(m.split('|')[3])
            s['positions'], s['end'] = pos, p
        logs.append(segs)
    return logs


def queries_for(segs, rng):
    offs = [int(m.split('|')[0]) for s in segs for m in s['msgs']]
    times = [int(m.split('|')[1]) for s in segs for m in s['msgs']]
    nxt = (max(offs) + 1) if offs else segs[-1]['base']
    q = []
    for off in range(-2, nxt + 2):
        for mx in (1, 2, 40):
            q.append('cons:%d:%d' % (off, mx))
        q.append('get:%d' % off)
    for k in KEYS + ['7a']:
        q.append('getk:%s' % k)
        for off in (-2, 0, nxt // 2):
            q.append('consk:%s:%d:%d' % (k, off, 40))
    if times:
        for t in range(min(times) - 1, max(times) + 2):
            q.append('gett:%d' % t)
    return q


def damage_list(rng, seg, tier):
    """-> list of (kind, newloghex, damaged_record_indexes or None for truncation)"""
    L = seg['log']
    ln = recov.hexlen(L)
    out = []

    def hit(lo, hi):
        return [i for i, p in enumerate(seg['positions'])
                if lo < (seg['positions'][i + 1] if i + 1 < len(seg['positions']) else seg['end']) and hi > p]

    step = 1 if tier == 'thorough' else 3
    for pos in range(0, ln, step):
        bit = rng.randrange(8)
        orig = int(L[2 * pos:2 * pos + 2], 16)
        out.append(('flip@%d.%d' % (pos, bit), recov.hx_set(L, pos, orig ^ (1 << bit)), hit(pos, pos + 1)))
    for pos in range(8, ln, 2 * step):
        k = rng.randrange(1, 9)
        k = min(k, ln - pos)
        new = L[:2 * pos] + codec.rnd_bytes(rng, k) + L[2 * pos + 2 * k:]
        if new != L:
            out.append(('over@%d+%d' % (pos, k), new, hit(pos, pos + k)))
    # the two length fields of every record overwritten with boundary values (an 8-byte overwrite): both large and
    # positive (their sum passes 2^31), one or both negative, just above the 64 MiB guard
    LENS = ['4000000040000000', '7fffffff00000001', '7fffffff7fffffff', '8000000000000000', '0000000080000000',
            'ffffffffffffffff', '0400000100000000', '0200000002000001', '7fffffff80000001']
    for i, rp in enumerate(seg['positions']):
        for lv in (LENS if tier == 'thorough' else rng.sample(LENS, 3)):
            new = L[:2 * (rp + 20)] + lv + L[2 * (rp + 28):]
            if new != L and recov.hexlen(new) == ln:
                out.append(('lens@%d:%s' % (rp + 20, lv), new, hit(rp + 20, rp + 28)))
    for n in range(0, ln, step):
        out.append(('trunc@%d' % n, recov.hx_cut(L, n), None))
    for n in range(8, ln, 2 * step):
        out.append(('zerotail@%d' % n, L[:2 * n] + '00' * (ln - n), hit(n, ln)))
    return out


def dirq_line(segs, ro, queries, override=None):
    parts = []
    for i, s in enumerate(segs):
        lg = s['log'] if not override or override[0] != i else override[1]
        parts.append('%d %s %s' % (s['base'], lg, s['idx']))
    return 'dirq 1 1 %d %d %s -- %s' % (ro, len(segs), ' '.join(parts), ' '.join(queries))


MSG = re.compile(r'(-?\d+)\|(-?\d+)\|([0-9a-f-]+)\|([0-9a-f-]+)')


def c14_extra(pid, tier, seed):
    rng = random.Random(codec.kv_seed(seed, 'c14'))
    logs = build_logs(rng, 2 if tier == 'quick' else 12)
    lines, meta = [], []
    for segs in logs:
        qs = queries_for(segs, rng)
        published = {int(m.split('|')[0]): m for s in segs for m in s['msgs']}
        for si, s in enumerate(segs):
            if not s['msgs']:
                continue
            zeroed = '00' * recov.hexlen(s['log'])
            for ro in (0, 1):
                if ro == 1 and rng.random() < 0.5 and tier == 'quick':
                    continue
                for kind, newlog, dmg in damage_list(rng, s, tier):
                    lines.append(dirq_line(segs, ro, qs, (si, newlog)))
                    meta.append(dict(kind=kind, seg=si, ro=ro, qs=qs, published=published, segs=segs,
                                     dmg_offs=None if dmg is None else [int(s['msgs'][i].split('|')[0]) for i in dmg]))
    # reference answers: undamaged, and with the damaged file zero-filled and 0xAA-filled (independence test: a call is
    # answered entirely from other files when neither replacement changes its answer)
    ref_lines, ref_idx = [], {}
    for segs in logs:
        qs = queries_for(segs, rng)
        for ro in (0, 1):
            ref_idx[(id(segs), ro, 'orig')] = len(ref_lines)
            ref_lines.append(dirq_line(segs, ro, qs))
            for si, s in enumerate(segs):
                ref_idx[(id(segs), ro, si)] = len(ref_lines)
                ref_lines.append(dirq_line(segs, ro, qs, (si, '00' * recov.hexlen(s['log']))))
                # a zero-filled file is a well-formed V1 log of all-zero records, so a call that reads it may still
                # answer as before; a file of 0xAA bytes cannot even be opened
                ref_idx[(id(segs), ro, si, 'aa')] = len(ref_lines)
                ref_lines.append(dirq_line(segs, ro, qs, (si, 'aa' * recov.hexlen(s['log']))))
    ref = recov.model_lines(ref_lines, 'c14ref')
    res = codec.run_codec(lines, 'c14-' + pid)
    byop = {op: (impl, model) for op, impl, model in res}
    viol, mism, npanic, nq, nmust_err, nindep = [], [], 0, 0, 0, 0
    for line, m in zip(lines, meta):
        impl, model = byop[line]
        if impl != model:
            mism.append((line, impl, model, m))
        orig = ref[ref_idx[(id(m['segs']), m['ro'], 'orig')]].split(' ; ')
        zero = ref[ref_idx[(id(m['segs']), m['ro'], m['seg'])]].split(' ; ')
        junk = ref[ref_idx[(id(m['segs']), m['ro'], m['seg'], 'aa')]].split(' ; ')
        if impl.startswith('openerr'):
            continue
        got = impl.split(' ; ')
        for q, g, o, z, a in zip(m['qs'], got, orig, zero, junk):
            nq += 1
            bad = None
            if g == 'err Panic':
                bad = 'no_panic'
            else:
                for mm in MSG.finditer(g if g.startswith('ok') else ''):
                    off = int(mm.group(1))
                    if m['published'].get(off) != mm.group(0):
                        bad = 'returned_message_differs_from_published'
                if not bad and m['dmg_offs'] is not None and o.startswith('ok'):
                    need = {int(x.group(1)) for x in MSG.finditer(o)}
                    if need & set(m['dmg_offs']):
                        nmust_err += 1
                        if not g.startswith('err'):
                            bad = 'answer_includes_overwritten_record_but_no_error'
                if not bad and o == z and o == a and o.startswith('ok'):
                    nindep += 1
                    if g != o:
                        bad = 'call_answered_from_other_files_changed'
            if bad:
                viol.append(('P', '# C14 violated: clause %s\n# damage %s in segment %d (read-only=%d); query %s\n'
                                  '# implementation: %s\n# before the damage: %s\n# replay line (codec language):\n%s\n' % (
                                      bad, m['kind'], m['seg'], m['ro'], q, g, o, line)))
                break
        if len(viol) > 20:
            break
    if not viol and mism:
        line, impl, model, m = mism[0]
        gi, gm = impl.split(' ; '), model.split(' ; ')
        d = [(q, a, b) for q, a, b in zip(m['qs'], gi, gm) if a != b][:3]
        viol.append(('corr', '# correspondence corr:C14 no longer checks (damage %s seg %d ro=%d)\n# first differing queries: %s\n%s\n' % (
            m['kind'], m['seg'], m['ro'], d, line)))
    dist = {}
    for m in meta:
        k = re.sub(r'@.*', '', m['kind'])
        dist[k] = dist.get(k, 0) + 1
    cov = dict(damage=dict(logs=len(logs), damaged_directories=len(lines), queries_evaluated=nq,
                           queries_that_must_fail=nmust_err, queries_independent_of_damaged_file=nindep,
                           correspondence_mismatches=len(mism), damage_distribution=dist,
                           rule='2-3 segment V2 logs with key and time index; one log file damaged: a bit flip at every (3rd in quick) '
                                'position, 1-8 byte overwrites, every truncation length, zero-filled tails; read-write and read-only '
                                'open with default options; Consume for all offsets x max {1,2,40}, Get, GetByKey, ConsumeByKey, GetByTime'))
    return viol, cov
