"""C18: blocking consume.  Deterministic: schedules of Wait/Set/Close threads stepped through the pause points
of pkg/notify, compared with the transition system of Notify.v; the schedules contain only steps the model
enables (generated with a Python replica of the enabledness rule), plus a final quiescence observation."""
import concurrent.futures as cf
import os
import random
import shutil
import subprocess

import codec
import kv


class Sim:
    """enabledness only (the Coq model computes the results)"""

    def __init__(self, nxt, specs):
        self.nxt, self.tok, self.closed, self.fresh = nxt, ('in', 0), set(), 1
        self.canc, self.must_run = set(), None     # waiters whose context ended before they parked (Notify.xstep)
        self.pc = []
        for sp in specs:
            k = sp[0]
            arg = int(sp[2:]) if len(sp) > 2 else 0
            self.pc.append([{'w': 'W0', 's': 'S0', 'c': 'C0'}[k], arg, None, None])

    def enabled(self, i):
        p = self.pc[i]
        if p[0] in ('W1', 'S0', 'C0'):
            return self.tok[0] != 'held'
        if p[0] == 'W4':
            return p[2] in self.closed or i in self.canc
        return p[0] in ('W0', 'W2', 'W3', 'S1', 'S2', 'S3', 'C1', 'C2')

    def step(self, i):
        p = self.pc[i]
        k = p[0]
        if k == 'W0':
            p[0] = 'WOk' if p[1] < self.nxt else 'W1'
        elif k in ('W1', 'S0', 'C0'):
            if self.tok[0] == 'in':
                p[2] = self.tok[1]
                self.tok = ('held', i)
                p[0] = {'W1': 'W2', 'S0': 'S1', 'C0': 'C1'}[k]
            else:
                p[0] = {'W1': 'WClosed', 'S0': 'SDone', 'C0': 'CErr'}[k]
        elif k == 'W2':
            p[3] = p[1] < self.nxt
            p[0] = 'W3'
        elif k == 'W3':
            self.tok = ('in', p[2])
            p[0] = 'WOk' if p[3] else 'W4'
            if p[0] == 'W4' and i in self.canc:
                # its select must run before anybody can close the channel: with the context over AND the channel
                # closed Go's select may return either way
                self.must_run = i
        elif k == 'W4':
            p[0] = 'WCanceled' if (i in self.canc and p[2] not in self.closed) else 'WOk'
            self.must_run = None
        elif k == 'S1':
            self.nxt = max(self.nxt, p[1])
            p[0] = 'S2'
        elif k in ('S2', 'C1'):
            self.closed.add(p[2])
            p[0] = 'S3' if k == 'S2' else 'C2'
        elif k == 'S3':
            self.tok = ('in', self.fresh)
            self.fresh += 1
            p[0] = 'SDone'
        elif k == 'C2':
            self.tok = ('gone', None)
            p[0] = 'CDone'

    def cancel_ok(self, i):
        # a waiter whose channel is already closed wakes by itself: cancelling it would race with that
        return self.pc[i][0] == 'W4' and self.pc[i][2] not in self.closed

    def early_cancel_ok(self, i):
        return self.pc[i][0] in ('W0', 'W1', 'W2', 'W3') and i not in self.canc

    def cancel(self, i):
        if self.pc[i][0] == 'W4':
            self.pc[i][0] = 'WCanceled'
        else:
            self.canc.add(i)


def gen_case(rng, tier):
    nxt = rng.choice([0, 5, 5, 9])
    nw = rng.randrange(1, 4)
    specs = ['w:%d' % rng.choice([nxt - 1, nxt, nxt, nxt + 1, nxt + 2, -1, -2]) for _ in range(nw)]
    for _ in range(rng.randrange(0, 3)):
        specs.append('s:%d' % rng.choice([nxt, nxt + 1, nxt + 2, nxt + 3]))
    if rng.random() < 0.4:
        specs.append('c')
    if rng.random() < 0.1:
        specs.append('c')
    rng.shuffle(specs)
    sim = Sim(nxt, specs)
    sched = []
    for _ in range(rng.randrange(3, 40)):
        if sim.must_run is not None:
            i = sim.must_run
            sim.step(i)
            sched.append(str(i))
            continue
        if rng.random() < 0.06:
            c = [i for i in range(len(specs)) if sim.cancel_ok(i) or sim.early_cancel_ok(i)]
            if c:
                i = rng.choice(c)
                sim.cancel(i)
                sched.append('x%d' % i)
                continue
        en = [i for i in range(len(specs)) if sim.enabled(i)]
        if not en:
            break
        # bias: sometimes run one thread several steps in a row (placing it inside another's windows)
        i = rng.choice(en)
        sim.step(i)
        sched.append(str(i))
    if sim.must_run is not None:
        sched.append(str(sim.must_run))
    if not sched:
        sched = ['0']
    return 'nrun %d %s %s' % (nxt, ','.join(specs), ','.join(sched))


def c18_extra(pid, tier, seed):
    rng = random.Random(codec.kv_seed(seed, 'c18'))
    n = 3000 if tier == 'quick' else 60000
    lines = list(dict.fromkeys(gen_case(rng, tier) for _ in range(n)))
    d = kv.workdir('notify-' + pid)
    try:
        k = kv.NCPU
        paths = []
        for i in range(k):
            p = os.path.join(d, 'n%02d.txt' % i)
            open(p, 'w').write('\n'.join(lines[i::k]) + '\n')
            paths.append(p)

        def one(p):
            with open(p + '.impl', 'w') as fh:
                r = subprocess.run([kv.KVRUN, 'notify', p], stdout=fh, stderr=subprocess.PIPE, text=True, timeout=3600)
            if r.returncode != 0:
                raise kv.Broken('kvrun notify failed: ' + r.stderr[-1500:])
            with open(p + '.model', 'w') as fh:
                subprocess.run([kv.KVMODEL, 'notify', p], stdout=fh, stderr=subprocess.PIPE, text=True, timeout=3600)
        with cf.ThreadPoolExecutor(k) as ex:
            list(ex.map(one, paths))
        viol, mism, nblocked, nwoken = [], [], 0, 0
        for p in paths:
            a = [l.rstrip('\n') for l in open(p + '.impl')]
            b = [l.rstrip('\n') for l in open(p + '.model')]
            for j in range(0, len(a) - 1, 2):
                op, ra, rb = a[j], a[j + 1], b[j + 1]
                nblocked += ra.count('at:park')
                nwoken += ra.count('=ok')
                if ra != rb:
                    mism.append((op, ra, rb))
        # a disagreement here is itself a failing schedule of the property: the model's outcome is what the
        # theorems (no lost wake-up, never for nothing, channel safety) allow for this schedule
        for op, ra, rb in mism[:3]:
            viol.append(('P', '# C18 violated: under this schedule the notifier ends in a state the proved model excludes\n'
                              '# (threads: w:<offset> waiter, s:<v> Set(v), c Close; schedule: thread to step, xN = cancel N)\n'
                              '%s\n# implementation: %s\n# model:          %s\n' % (op, ra, rb)))
        cov = dict(notify=dict(schedules=len(lines), mismatches=len(mism), waiters_left_parked=nblocked, waiters_returned=nwoken,
                               rule='1-3 waiters (offsets below/at/above NextOffset and relative), 0-2 Set, 0-2 Close; random interleavings '
                                    'of the pause-delimited steps incl. cancellations; after the schedule the status of every thread '
                                    '(returned value / still parked / pause point) must equal the model'))
        import blk
        bviol, bcov = blk.run(pid, tier, seed)
        cov.update(bcov)
        # the transcription of Notify.v: the channel and atomic operations of Wait / Set / Close, read off the source
        ps = os.path.join(kv.HARNESS, 'bin', 'protoscan')
        kv.sh(['go', 'build', '-o', ps, './cmd/protoscan'], cwd=kv.HARNESS, env=kv.GOENV, timeout=600)
        r = subprocess.run([ps, 'chans', os.path.join(kv.REPO, 'pkg', 'notify', 'notify.go'), 'Offset'],
                           stdout=subprocess.PIPE, stderr=subprocess.PIPE, text=True, timeout=120)
        want = [l.rstrip('\n') for l in open(os.path.join(kv.VERIF, 'lib', 'notify_protocol.txt')) if l.strip() and not l.startswith('#')]
        got = [l for l in r.stdout.split('\n') if l.strip()]
        cov['notify']['methods_compared_with_the_transcription_of_Notify'] = len(got)
        pviol = []
        if r.returncode != 0 or got != want:
            diff = [g for g in got if g not in want] + ['(missing) ' + w for w in want if w not in got]
            pviol.append(('corr', '# correspondence corr:C18/notify-protocol no longer checks: the channel and atomic operations of Wait / Set / Close in '
                                  '/repo/pkg/notify/notify.go are not those coq/Notify.v was transcribed from (theorems C18_invariant / '
                                  'C18_no_lost_wakeup ...); the schedules of this check found no state the model excludes\n# differing methods:\n# %s\n'
                          % '\n# '.join(diff[:6] or [r.stderr[-400:]])))
        return viol + bviol + pviol, cov
    finally:
        if not os.environ.get('KV_KEEP'):
            shutil.rmtree(d, ignore_errors=True)
