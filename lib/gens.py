"""History generators.  Every random choice comes from one random.Random seeded
from (VERIF_SEED, property id, case number), so a disagreement replays exactly."""
import random

# three real FNV-1a-64 collision pairs on 8-byte keys (verified by kvrun and by vm_compute)
COLLISIONS = [('dc624fd8394d8c42', 'acef63b1d3c2efd2'),
              ('beb04685fc5d09d1', '847b0733e4cc7a31'),
              ('9b11a512e6042a29', 'a2aab0acbdbc4443')]
KEYS_PLAIN = ['-', '=', '61', '6100', '00', '0000', '62', '6162']     # '-' nil, '=' empty but not nil: the same key
KEYS_ALL = KEYS_PLAIN + [k for p in COLLISIONS for k in p]
ABSENT_KEY = '7a7a7a'

ROLLOVERS = [1, 5, 8, 60, 100, 100, 150, 150, 250, 400, 100000]


class Shadow:
    """what the generator believes about the log (approximate: Delete may delete less)"""

    def __init__(self):
        self.next = 0
        self.live = []          # offsets
        self.times = {}         # offset -> time
        self.tcur = 100
        self.open = False
        self.ro = False
        self.bk = {}            # backup name -> True while the source was only appended to since
        self.bkn = 0


def hexbytes(rng, n):
    return ''.join('%02x' % rng.randrange(256) for _ in range(n)) if n else '-'


def draw_open(rng, prof, sh, first=False, ro=False):
    keys, times = prof['keys'], prof['times']
    roll = rng.choice(prof.get('rollovers', ROLLOVERS))
    mono = prof.get('time_mode', 'mono') != 'rand'
    chk = rec = 0
    if not first and rng.random() < prof.get('p_checkrecover', 0.4) and (mono or not times):
        chk, rec = rng.choice([(1, 0), (0, 1), (1, 1)])
    if getattr(sh, 'force_recover', False):
        ro, chk, rec = False, 0, 1
        sh.force_recover = False
    ver = rng.choice(prof.get('versions', [2]))
    keeprw = rng.choice([0, 1]) if len(prof.get('versions', [2])) > 1 else 0
    eager = 1 if (len(prof.get('versions', [2])) > 1 and rng.random() < 0.25) else 0
    autosync = 1 if rng.random() < 0.15 else 0
    sh.open, sh.ro = True, ro
    return 'open %d %d %d %d %d %d %d %d %d %d' % (1 if ro else 0, keys, times, autosync, roll, chk, rec,
                                                    ver, keeprw, eager)


def draw_msg(rng, prof, sh):
    mode = prof.get('time_mode', 'mono')
    if mode == 'mono':
        sh.tcur += rng.choice([0, 0, 0, 1, 1, 2])
        t = sh.tcur
    elif mode == 'neg':
        sh.tcur += rng.choice([0, 1, 2, 3])
        t = sh.tcur - 110
    else:
        t = rng.randrange(90, 130)
    k = rng.choice(prof.get('keyset', KEYS_ALL))
    r = rng.random()
    if r < prof.get('p_tomb', 0.15):
        v = '-'
    elif prof.get('p_bigval') and rng.random() < prof['p_bigval']:
        # large messages (read paths that treat bodies of a page or more differently)
        v = hexbytes(rng, rng.choice([4060, 4096, 4200, 9000]))
    else:
        v = hexbytes(rng, rng.choice([1, 2, 3, 8, 20, 40]))
    return '%d|%s|%s' % (t, k, v), t


def draw_pub(rng, prof, sh):
    n = rng.choice([0, 1, 1, 1, 2, 2, 3, 5]) if not prof.get('big_batches') else rng.choice([1, 2, 3, 8, 35])
    toks = []
    for _ in range(n):
        m, t = draw_msg(rng, prof, sh)
        toks.append(m)
        sh.live.append(sh.next)
        sh.times[sh.next] = t
        sh.next += 1
    return 'pub' + ''.join(' ' + t for t in toks)


DELETE_CLASSES = ['first', 'last', 'single', 'subset', 'range', 'all', 'tail', 'head', 'dead', 'unassigned',
                  'mixed', 'lasttwo']


def draw_offsets(rng, sh, cls=None):
    cls = cls or rng.choice(DELETE_CLASSES)
    live = sh.live
    if cls == 'unassigned':
        return [sh.next + rng.randrange(0, 3)], cls
    if cls == 'dead':
        dead = [o for o in range(sh.next) if o not in set(live)]
        if dead:
            return [rng.choice(dead)], cls
        cls = 'single'
    if not live:
        return [sh.next], 'unassigned'
    if cls == 'first':
        return [live[0]], cls
    if cls == 'last':
        return [live[-1]], cls
    if cls == 'lasttwo':
        return live[-2:], cls
    if cls == 'single':
        return [rng.choice(live)], cls
    if cls == 'subset':
        return sorted(rng.sample(live, min(len(live), rng.randrange(2, 5)))), cls
    if cls == 'range':
        i = rng.randrange(len(live))
        return live[i:i + rng.randrange(2, 6)], cls
    if cls == 'all':
        return list(live), cls
    if cls == 'tail':
        i = rng.randrange(len(live))
        return live[i:], cls
    if cls == 'head':
        i = rng.randrange(1, len(live) + 1)
        return live[:i], cls
    if cls == 'mixed':
        s = set(rng.sample(live, min(len(live), 2)))
        s.add(sh.next + 1)
        if sh.next > 0:
            s.add(rng.randrange(sh.next))
        return sorted(s), cls
    return [live[0]], 'first'


def offs_tok(offs):
    return ','.join(str(o) for o in offs) if offs else '-'


def apply_delete(sh, offs):
    s = set(offs)
    sh.live = [o for o in sh.live if o not in s]


def touch(sh, rng):
    """a Consume at a random absolute offset not beyond NextOffset: it always succeeds.  (A read that FAILS after it
    lazily rebuilt an index file leaves that file rebuilt in the implementation, while the model's failing calls leave
    the state as it was - see DESIGN 12.7; the probes therefore never end on a failing read of a segment.)"""
    if rng.random() < 0.5:
        return []
    cur = getattr(sh, 'cursor', None)
    if cur is not None and rng.random() < 0.6:
        x = min(cur + rng.choice([0, 1, 2]), sh.next)      # a consumer resuming near where it left off
    else:
        x = rng.randrange(0, sh.next + 1)
    sh.cursor = x
    return ['cons %d %d' % (x, rng.choice([1, 3, 40]))]


def gen_history(rng, prof, probes):
    """probes: function(sh, rng) -> list of probe lines inserted after every state change"""
    sh = Shadow()
    ops = [draw_open(rng, prof, sh, first=True)]
    stats = {}

    def note(k):
        stats[k] = stats.get(k, 0) + 1

    nops = rng.randrange(prof.get('min_ops', 10), prof.get('max_ops', 28))
    weights = prof['weights']
    kinds = list(weights.keys())
    for _ in range(nops):
        kind = rng.choices(kinds, [weights[k] for k in kinds])[0]
        if not sh.open:
            kind = 'reopen'
        if sh.ro and kind in ('pub', 'del', 'delm', 'trim', 'compact'):
            kind = rng.choice(['reopen', 'probe'])
        if kind == 'pub':
            if rng.random() < prof.get('p_big', 0.01):
                # a batch refused for an oversized message: nothing is published (F12), a due rollover still happens
                ops.append('pubbig %d' % rng.choice([0, 1, 2]))
                note('pubbig')
            else:
                ops.append(draw_pub(rng, prof, sh))
                note('pub')
        elif kind in ('del', 'delm'):
            sh.bk = {n: False for n in sh.bk}
            offs, cls = draw_offsets(rng, sh, prof.get('delete_class'))
            if rng.random() < 0.05:
                offs = []
            if rng.random() < 0.04:
                # a relative offset in the set (OffsetNewest -1, OffsetOldest -2, OffsetInvalid -3 - the value failed
                # lookups return): the whole call must be rejected
                offs = [rng.choice([-1, -2, -3, -3])] + offs
            if kind == 'delm' and rng.random() < 0.25 and all(o >= 0 for o in offs):
                # the backoff function fails at its (bk+1)-th call: the helper stops after that pass
                ops.append('delmb %d %s' % (rng.choice([0, 0, 1, 2]), offs_tok(offs)))
                sh.live = None or sh.live
                note('delmb')
                offs = None
            else:
                ops.append('%s %s' % (kind, offs_tok(offs)))
            if offs is not None and all(o >= 0 for o in offs):
                apply_delete(sh, offs)
            note('%s:%s' % (kind, cls))
        elif kind == 'trim':
            sh.bk = {n: False for n in sh.bk}
            which = rng.choice(prof.get('trims', ['trimo', 'trimc', 'trims', 'trima']))
            if which == 'trimo' and rng.random() < 0.2 and sh.next > 0:
                ops.append('trimob %d %d' % (rng.choice([0, 0, 1]), rng.randrange(0, sh.next + 1)))
                which = 'trimob'
            else:
                ops.extend(draw_trim(rng, sh, which))
            note(which)
        elif kind == 'compact':
            sh.bk = {n: False for n in sh.bk}
            which = rng.choice(['cupd', 'cdel', 'cupd', 'cdel', 'c1upd', 'c1del', 'compact'])
            if which == 'compact':
                # compact.go Compact (CompactUpdates, CompactDeletes, GC) with cut-offs later than every message
                ops.append('compact')
            else:
                t = rng.randrange(sh.tcur - 12, sh.tcur + 3)
                ops.append('fupd %d' % t if 'upd' in which else 'fdel %d' % t)
                ops.append('%s %d' % (which, t))
            sh.live = None or sh.live   # shadow not updated: compaction results depend on content
            note(which)
        elif kind == 'backup':
            clean = [n for n, ok in sh.bk.items() if ok]
            if clean and rng.random() < 0.6:
                name = rng.choice(clean)
                note('backup_repeat')
            else:
                sh.bkn += 1
                name = 'b%d' % sh.bkn
                note('backup_fresh')
            if rng.random() < prof.get('p_bkhalf', 0.0):
                # an earlier Backup into this directory was interrupted after the log files: this one must finish the job
                ops.append('bkhalf ' + name)
                note('backup_after_interrupted')
                if rng.random() < 0.5:
                    # killed in the middle of a file: the newest log file of the target is short and newer than its source
                    ops[-1] += ' cut'
                    note('backup_after_killed_copy')
            ops.append('backup ' + name)
            sh.bk[name] = True
            ops.append('bkobs %s %d' % (name, rng.choice([0, 0, 1])))
        elif kind == 'gc':
            ops.append('gc')
            note('gc')
        elif kind == 'sync':
            ops.append(rng.choice(['sync', 'next', 'stat']))
        elif kind == 'probe':
            pass
        elif kind == 'reopen':
            # a backup directory is reused after a reopen only in the C20 profile: between the two Backup calls the source
            # may then have been migrated to the other format (every file rewritten under its old name, no message
            # touched) or have had index files rebuilt
            if not prof.get('bk_over_reopen'):
                sh.bk = {n: False for n in sh.bk}
            if sh.open:
                ops.append('close')
                sh.open = False
            ops.extend(between_sessions(rng, prof, sh, note))
            ro = rng.random() < prof.get('p_ro', 0.12)
            ops.append(draw_open(rng, prof, sh, ro=ro))
            note('reopen_ro' if ro else 'reopen')
        if sh.open:
            # the first and the last read around every step hit a random absolute offset: state carried from one call to
            # the next (a remembered segment, a reader kept open) is only visible when the reads do not always start
            # from the oldest offset
            # ... and now and then nothing is read at all, so that the next change meets segments nobody has loaded
            # since the last reopen (more often right after a reopen)
            if rng.random() >= (0.3 if kind == 'reopen' else 0.1):
                ops.extend(touch(sh, rng) + probes(sh, rng) + touch(sh, rng))
    if sh.open and rng.random() < 0.5:
        ops.append('close')
        ops.extend(prof.get('after_close', []))
    return ops, stats


def between_sessions(rng, prof, sh, note):
    ops = list(prof.get('after_close', []))
    if rng.random() < prof.get('p_rmindex', 0.3):
        r = rng.random()
        if r < 0.4:
            ops.append('rmindex all')
            note('rmindex_all')
        else:
            k = rng.randrange(1, 4)
            ops.append('rmindex ' + ','.join(str(rng.randrange(0, 6)) for _ in range(k)))
            note('rmindex_some')
        if rng.random() < 0.5:
            # a process that died inside index.Write left a temporary file beside the (now missing) index
            ops[-1] += ' stale'
            note('rmindex_with_stale_tmp')
    if len(prof.get('versions', [2])) > 1 and rng.random() < 0.3:
        ops.append('migrate %d' % rng.choice([1, 2]))
        ops.append('files')
        note('migrate')
        if rng.random() < 0.3:
            ops.append(ops[-2])
            ops.append('files')
            note('migrate_twice')
    if rng.random() < prof.get('p_recoverdir', 0.1) and (prof.get('time_mode', 'mono') != 'rand' or not prof['times']):
        ops.append('recoverdir')
    if rng.random() < prof.get('p_idxcut', 0.0):
        # what a crash that loses the tail of the newest index file at an item boundary leaves; the next Open is a
        # read-write Open with Recover, which must bring the index back to what the log file says
        ops.append('idxcut %d' % rng.choice([1, 1, 2, 5]))
        sh.force_recover = True
        note('idxcut')
    return ops


def draw_trim(rng, sh, which):
    multi = rng.random() < 0.8
    name = which if multi else which.replace('trim', 'trim1')
    if which == 'trimo':
        b = rng.choice([-2, -1, 0, sh.next, sh.next + 2] + [rng.randrange(0, sh.next + 1)] * 4)
        ops = ['findo %d' % b, '%s %d' % (name, b)]
        if multi and b >= 0:
            sh.live = [o for o in sh.live if o >= b]
        elif multi and b == -1:
            sh.live = []
        return ops
    if which == 'trimc':
        n = rng.choice([0, 1, 2, 3, 5, 8, 100])
        ops = ['findc %d' % n, '%s %d' % (name, n)]
        if multi and len(sh.live) > n:
            sh.live = sh.live[len(sh.live) - n:] if n > 0 else []
        return ops
    if which == 'trims':
        sz = rng.choice([0, 1, 50, 100, 200, 300, 500, 800, 1500, 100000])
        if multi and rng.random() < 0.4:
            # a target on a boundary: the Stat size minus Size(m) of the first k live messages, give or take one
            # (k = 0: the current size itself), resolved by the harness and by the model each from its own numbers
            sz = 'S%dd%d' % (rng.choice([0, 0, 1, 2, 3, 4, 5, 8]), rng.choice([-1, 0, 0, 0, 1]))
            return ['stat', 'finds %s' % sz, 'stat', '%s %s' % (name, sz), 'stat', 'disksize']
        return ['stat', 'finds %d' % sz, '%s %d' % (name, sz), 'stat', 'disksize']
    if which == 'trima':
        t = rng.randrange(sh.tcur - 15, sh.tcur + 3)
        return ['finda %d' % t, '%s %d' % (name, t)]
    return []
