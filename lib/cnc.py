"""C08: concurrent use is race-free and linearizable.
 - free-running seeded mixes on small-rollover logs under the race detector, each recorded history checked for
   linearizability against the sequential specification (porcupine);
 - deterministic placements: up to two complete calls inside each pause window of a third call."""
import concurrent.futures as cf
import itertools
import os
import random
import shutil
import subprocess

import codec
import kv

POINTS = {
    'publish.written': ['pub:x,y', 'pub:x'],
    'publish.message': ['pub:x,y', 'pub:x,y,z'],
    'publish.rolled': ['pub:x,y'],
    'delete.found': ['del:1', 'del:0', 'del:3', 'del:0,1,2,3'],
    'delete.synced': ['del:1', 'del:3', 'del:0,1,2,3'],
    'delete.rewritten': ['del:1', 'del:0', 'del:3', 'del:2,3', 'del:0,1,2,3'],
    'consume.indexed': ['cons:0:3', 'cons:1:2', 'cons:-2:5'],
    'gc.unload': ['gc'],
}
OTHERS = ['pub:p', 'pub:p,q', 'cons:0:5', 'cons:2:2', 'cons:-2:9', 'get:1', 'get:3', 'get:4', 'get:5', 'del:1', 'del:3', 'del:0,1', 'next',
          'sync', 'gc', 'stat', 'gett:50', 'gett:100', 'gett:200', 'getk:a', 'getk:d', 'getk:x', 'consk:b:0:5', 'consk:c:-2:2']
SETUPS = [('100000', 'pub:a,b;pub:c,d'), ('60', 'pub:a,b;pub:c,d'), ('60k', 'pub:a;pub:b;pub:c;pub:d'), ('60', 'pub:a,b,c,d')]
POST = '-- cons:-2:9 cons:1:9 cons:2:9 cons:3:9 cons:4:9 get:1 get:3 next'

# placements whose calls are functions of the abstract state (Consume with maxCount 1, Get, Publish, Delete): the
# outcome is compared with the set of outcomes the protocol model of Conc.v allows for that placement
MPOINTS = {
    'publish.written': ['pub:x,y', 'pub:x'],
    'publish.message': ['pub:x,y', 'pub:x,y,z'],
    'publish.rolled': ['pub:x,y'],
    'delete.found': ['del:1', 'del:0', 'del:3', 'del:0,1,2,3', 'del:2,3'],
    'delete.synced': ['del:1', 'del:3', 'del:0,1,2,3', 'del:2,3'],
    'delete.rewritten': ['del:1', 'del:0', 'del:3', 'del:2,3', 'del:0,1,2,3'],
}
MOTHERS = ['pub:p', 'pub:p,q', 'cons:0:1', 'cons:2:1', 'cons:-2:1', 'cons:4:1', 'cons:3:1', 'cons:5:1', 'get:1', 'get:3', 'get:4', 'get:5', 'del:1', 'del:3',
           'del:0,1', 'del:2,3', 'del:0,1,2,3']


def model_placements(rng, tier):
    lines = []
    for point, aops in MPOINTS.items():
        for roll, setup in SETUPS:
            for a in aops:
                for b in MOTHERS:
                    lines.append('cpause %s %s %s %s %s -- get:1' % (roll, setup, point, a, b))
                pairs = list(itertools.permutations(MOTHERS, 2))
                k = 8 if tier == 'quick' else 120
                for b, c in rng.sample(pairs, min(k, len(pairs))):
                    lines.append('cpause %s %s %s %s %s %s -- get:1' % (roll, setup, point, a, b, c))
    return lines


def norm_outcome(line, detail):
    """canonical outcome of an implementation run: a Delete refused with NotFound deleted nothing"""
    f = line.split()
    inside = f[4:f.index('--')] if '--' in f else f[4:]
    toks = []
    for t in detail.split():
        k, _, v = t.partition('=')
        if k.startswith('c') and k[1:].isdigit():
            op = inside[int(k[1:]) - 1]
            if op.startswith('del:') and v == 'err:NotFound':
                v = 'm:'
        toks.append(k + '=' + v)
    return ' '.join(toks)


def placements(rng, tier):
    lines = []
    for point, aops in POINTS.items():
        for roll, setup in SETUPS:
            for a in aops:
                for b in OTHERS:
                    lines.append('cpause %s %s %s %s %s %s' % (roll, setup, point, a, b, POST))
                pairs = list(itertools.permutations(OTHERS, 2))
                k = 6 if tier == 'quick' else 60
                for b, c in rng.sample(pairs, min(k, len(pairs))):
                    lines.append('cpause %s %s %s %s %s %s %s' % (roll, setup, point, a, b, c, POST))
    return lines


def c08_extra(pid, tier, seed):
    rng = random.Random(codec.kv_seed(seed, 'c08'))
    race = kv.build_impl(race=True)
    lines = placements(rng, tier)
    mlines = model_placements(rng, tier)
    mset = set(mlines)
    lines = mlines + lines
    cdir = os.path.join(kv.VERIF, 'corpus', pid)
    if os.path.isdir(cdir):
        for f in sorted(os.listdir(cdir)):
            lines = [l.strip() for l in open(os.path.join(cdir, f)) if l.strip() and not l.startswith('#')] + lines
    nfree = 120 if tier == 'quick' else 3000
    for i in range(nfree):
        lines.append('crun %d %d %d %s' % (rng.randrange(1 << 30), rng.choice([2, 3, 4, 6, 8]), rng.choice([15, 30, 60]),
                                           rng.choice(['60', '100', '200', '400', '60k', '100k', '100v1', '200v1'])))
    # the start of a log's life under load (fresh directory, publisher + cursor + deleter of the oldest): no call may fail
    stress_iters = 150 if tier == 'quick' else 3000
    d = kv.workdir('conc-' + pid)
    try:
        k = kv.NCPU
        paths = []
        for i in range(k):
            p = os.path.join(d, 'c%02d.txt' % i)
            open(p, 'w').write('\n'.join(lines[i::k]) + '\n')
            paths.append(p)
        env = dict(os.environ, KV_WORK=os.path.join(d, 'dirs'), GORACE='halt_on_error=0 exitcode=0 log_path=' + os.path.join(d, 'race'))
        os.makedirs(env['KV_WORK'], exist_ok=True)

        def one(p):
            with open(p + '.impl', 'w') as fh:
                r = subprocess.run([race, 'conc', p], stdout=fh, stderr=subprocess.PIPE, text=True, env=env, timeout=3600)
            if r.returncode != 0:
                raise kv.Broken('kvrun conc failed: ' + r.stderr[-1500:])
        with cf.ThreadPoolExecutor(k) as ex:
            list(ex.map(one, paths))
        # afterwards, with the machine otherwise quiet (the window is a record half-way through its write): four processes
        spaths = []
        for i in range(4):
            p = os.path.join(d, 's%02d.txt' % i)
            open(p, 'w').write('cstress %d 60\n' % stress_iters)
            spaths.append(p)
        with cf.ThreadPoolExecutor(4) as ex:
            list(ex.map(one, spaths))
        # readers against GC (lazy load of a segment by several readers at once, unload under them)
        gpaths = []
        for i in range(2):
            p = os.path.join(d, 'g%02d.txt' % i)
            open(p, 'w').write('cgcstress %d %d\n' % ((6, 250) if tier == 'quick' else (60, 400)))
            gpaths.append(p)
        with cf.ThreadPoolExecutor(2) as ex:
            list(ex.map(one, gpaths))
        # the lookups (by time, by key, oldest/newest, Stat) against a publisher and a deleter on small segments
        qpaths = []
        for i in range(2):
            p = os.path.join(d, 'q%02d.txt' % i)
            open(p, 'w').write('cquerystress %d %d\n' % ((6, 250) if tier == 'quick' else (60, 400)))
            qpaths.append(p)
        with cf.ThreadPoolExecutor(2) as ex:
            list(ex.map(one, qpaths))
        # first use of segments without index files by several goroutines at once
        rpaths = []
        for i in range(2):
            p = os.path.join(d, 'r%02d.txt' % i)
            open(p, 'w').write('creindex %d\n' % (40 if tier == 'quick' else 800))
            rpaths.append(p)
        with cf.ThreadPoolExecutor(2) as ex:
            list(ex.map(one, rpaths))
        # tailing consumers against a publisher: no gap although nothing is deleted
        ppaths = []
        for i in range(2):
            p = os.path.join(d, 'p%02d.txt' % i)
            open(p, 'w').write('cpollstress %d %d\n' % ((4, 300) if tier == 'quick' else (40, 500)))
            ppaths.append(p)
        with cf.ThreadPoolExecutor(2) as ex:
            list(ex.map(one, ppaths))
        paths = paths + spaths + gpaths + qpaths + rpaths + ppaths
        # the protocol model on the same placements
        mp = os.path.join(d, 'model-placements.txt')
        open(mp, 'w').write('\n'.join(mlines) + '\n')
        kv.build_model()
        model = kv.KVMODEL
        with open(mp + '.model', 'w') as fh:
            r = subprocess.run([model, 'cconc', mp], stdout=fh, stderr=subprocess.PIPE, text=True, timeout=1800)
        if r.returncode != 0:
            raise kv.Broken('kvmodel cconc failed: ' + r.stderr[-1500:])
        ml = [l.rstrip('\n') for l in open(mp + '.model')]
        allowed = {}
        for j in range(0, len(ml) - 1, 2):
            allowed[ml[j]] = set(x.strip() for x in ml[j + 1][2:].split('||'))
        viol, nlin, nhit, nto = [], 0, 0, 0
        ncmp, nsingle = 0, 0
        for p in paths:
            a = [l.rstrip('\n') for l in open(p + '.impl')]
            for j in range(0, len(a) - 1, 2):
                op, r = a[j], a[j + 1]
                if r.startswith('= ok') and op in mset and ' | ' in r:
                    got = norm_outcome(op, r.split(' | ', 1)[1])
                    al = allowed.get(op)
                    if al is not None and al != {'skip'}:
                        ncmp += 1
                        nsingle += 1 if len(al) == 1 else 0
                        if got not in al:
                            viol.append(('M', '# correspondence C08: the outcome of this placement is not among those the protocol model '
                                              '(coq/Conc.v, theorem C08_linearizable) allows\n# placement: %s\n# implementation: %s\n'
                                              '# model allows: %s\n' % (op, got, ' || '.join(sorted(al)))))
                if r.startswith('= ok'):
                    nlin += 1
                    nhit += 0 if 'point-not-hit' in r else 1
                    nto += 1 if 'search-timeout' in r else 0
                else:
                    viol.append(('P', '# C08 violated: %s\n# workload (conc language; crun <seed> <threads> <ops> <rollover> | cpause <rollover> '
                                      '<setup> <pause point> <held call> <calls placed inside>):\n%s\n# recorded history / failure:\n%s\n' % (
                                          r.split()[2] if len(r.split()) > 2 else r, op, r[:6000].replace(' || ', '\n#   '))))
        # the reader's lazy load / unload protocol (coq/ReaderGC.v): the operations on messagesMu / messagesInuse / r.messages of
        # every method of *reader, read off /repo/log_reader.go by harness/cmd/protoscan, against what the model was transcribed from
        nproto = 0
        ps = os.path.join(kv.HARNESS, 'bin', 'protoscan')
        kv.sh(['go', 'build', '-o', ps, './cmd/protoscan'], cwd=kv.HARNESS, env=kv.GOENV, timeout=600)
        r = subprocess.run([ps, os.path.join(kv.REPO, 'log_reader.go')], stdout=subprocess.PIPE, stderr=subprocess.PIPE, text=True, timeout=120)
        want = [l.rstrip('\n') for l in open(os.path.join(kv.VERIF, 'lib', 'readergc_protocol.txt')) if l.strip() and not l.startswith('#')]
        got = [l for l in r.stdout.split('\n') if l.strip()]
        nproto = len(got)
        if r.returncode != 0 or got != want:
            diff = [g for g in got if g not in want] + ['(missing) ' + w for w in want if w not in got]
            viol.append(('corr', '# correspondence corr:C08/reader-protocol no longer checks: the operations on messagesMu / messagesInuse / '
                                 'r.messages in /repo/log_reader.go are not those coq/ReaderGC.v was transcribed from (theorems '
                                 'C08_reads_never_see_a_closed_mapping / C08_reading_means_loaded); the concurrent runs of this check (readers '
                                 'against GC included) found no failing history\n# differing methods:\n# %s\n' % '\n# '.join(diff[:8] or [r.stderr[-400:]])))
        # the same for the lock protocol of log.go (coq/Conc.v): lock operations of every method of *log
        LOCKARGS = ['locks', os.path.join(kv.REPO, 'log.go'), 'log', 'writerMu,readersMu,deleteMu',
                    'findDeleteReader,Rewrite,Delete,Publish,NeedsRollover,ReopenReader,Sync,append,openWriter,Consume,Get,GetByKey,'
                    'GetByTime,ConsumeByKey,Stat,GC,GetNextOffset,Remove']
        r = subprocess.run([ps] + LOCKARGS, stdout=subprocess.PIPE, stderr=subprocess.PIPE, text=True, timeout=120)
        want = [l.rstrip('\n') for l in open(os.path.join(kv.VERIF, 'lib', 'log_lock_protocol.txt')) if l.strip() and not l.startswith('#')]
        got = [l for l in r.stdout.split('\n') if l.strip()]
        nlockm = len(got)
        if r.returncode != 0 or got != want:
            diff = [g for g in got if g not in want] + ['(missing) ' + w for w in want if w not in got]
            viol.append(('corr', '# correspondence corr:C08/lock-protocol no longer checks: the operations on writerMu / readersMu / deleteMu in '
                                 '/repo/log.go are not those coq/Conc.v was transcribed from (theorems C08_invariant / C08_linearizable); the '
                                 'placements and the concurrent runs of this check found no failing history\n# differing methods:\n# %s\n'
                         % '\n# '.join(diff[:8] or [r.stderr[-400:]])))
        races = [f for f in os.listdir(d) if f.startswith('race')]
        for f in races[:2]:
            txt = open(os.path.join(d, f)).read()
            if 'DATA RACE' in txt:
                viol.insert(0, ('P', '# C08 violated: the race detector reports a data race during the concurrent runs\n' + txt[:5000]))
        cov = dict(conc=dict(deterministic_placements=len([l for l in lines if l.startswith('cpause')]),
                             placements_compared_with_protocol_model=ncmp, of_which_model_outcome_unique=nsingle,
                             free_running_histories=nfree, start_of_life_stress_iterations=4 * stress_iters, histories_linearizable=nlin, placements_with_point_hit=nhit,
                             linearizability_search_timeouts=nto, race_reports=len(races),
                             reader_protocol_methods_compared_with_ReaderGC=nproto, log_methods_lock_sequence_compared_with_Conc=nlockm,
                             rule='placements: every call of a small alphabet - Publish, Consume, Get, Delete, NextOffset, Sync, GC, Stat, GetByTime, GetByKey, ConsumeByKey - (and sampled pairs) inside the windows publish.written, '
                                  'publish.rolled, delete.found/synced/rewritten, consume.indexed, gc.unload of a held call, on 1-4 segment '
                                  'logs; free-running: 2-8 goroutines x 15-60 random calls, rollover 60-400; all under -race; every recorded '
                                  'history must be linearizable w.r.t. the sequential log specification and no call may fail'))
        return viol, cov
    finally:
        if not os.environ.get('KV_KEEP'):
            shutil.rmtree(d, ignore_errors=True)


def c11_extra(pid, tier, seed):
    """C11 under concurrency: index files removed, reopen, the first queries of eight goroutines at once (each finds the
    index unloaded and the file missing); every query must succeed and after Close every segment must pass Check"""
    d = kv.workdir('reindex-' + pid)
    try:
        p = os.path.join(d, 'r.txt')
        n = 60 if tier == 'quick' else 1500
        open(p, 'w').write('creindex %d\n' % n)
        env = dict(os.environ, KV_WORK=os.path.join(d, 'dirs'))
        os.makedirs(env['KV_WORK'], exist_ok=True)
        r = subprocess.run([kv.KVRUN, 'conc', p], stdout=subprocess.PIPE, stderr=subprocess.PIPE, text=True, env=env, timeout=1800)
        res = [l for l in r.stdout.split('\n') if l.startswith('= ')]
        viol = []
        if r.returncode != 0 or not res or not res[0].startswith('= ok'):
            viol.append(('P', '# C11 violated: removing the index files and reopening does not yield a log that answers every query '
                              '(or leaves index files that are not the derived ones) when the first queries come from several goroutines\n'
                              '# workload: kvrun conc: creindex %d\n# %s\n' % (n, res[0] if res else r.stderr[-800:])))
        return viol, dict(concurrent_first_use=dict(iterations=n, rule='48 messages over ~12 segments, all index files removed, reopen '
                                                                       'read-write / read-only, 8 goroutines x (3 Consume, Get, GetByKey, GetByTime, Stat) started together, Check of every segment after Close'))
    finally:
        shutil.rmtree(d, ignore_errors=True)
