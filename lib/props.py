"""Per-property check definitions."""
import glob
import hashlib
import json
import os
import random
import shutil
import time

import cnc
import codec
import crash
import dmg
import flk
import ntf
import gens
import kv
import recov

TRUSTED = [
    'Coq 8.16.1 kernel (coqc); vm_compute used for finite sweeps and the in-kernel slice; native_compute not used',
    'axioms: none declared; Print Assumptions of every property theorem is parsed on each run',
    'extraction: Require Extraction + ExtrOcamlBasic only (no Extract Constant / Extract Inductive of ours); OCaml 4.13.1; hand-written driver model/driver.ml (parsing/printing)',
    'correspondence check: harness/cmd/kvrun (Go, built from /repo working tree with -tags verif), lib/gens.py generators, lib/kv.py differ',
    'modelled not verified: Go runtime, os file semantics, ART library (as association list), flock(2), goroutine scheduling',
]


def case_seed(seed, pid, i):
    return int(hashlib.sha1(('%d/%s/%d' % (seed, pid, i)).encode()).hexdigest()[:12], 16)


def load_corpus(pid):
    cases = []
    for path in sorted(glob.glob(os.path.join(kv.VERIF, 'corpus', pid, '*.hist'))):
        name, ops = None, []
        for line in open(path):
            line = line.rstrip('\n')
            if not line or line.startswith('#'):
                continue
            if line.startswith('case '):
                if name:
                    cases.append((name, ops))
                name, ops = 'corpus/' + os.path.basename(path) + '/' + line[5:], []
            else:
                ops.append(line)
        if name:
            cases.append((name, ops))
    return cases


class HistProp:
    """property decided by: theorems in coq/Properties/<pid>.v  +  correspondence of the model with the
    implementation on generated histories  +  the Spec.v checkers evaluated on the implementation output"""

    def __init__(self, pid, profile, probes, quick=300, thorough=6000, rule='', nontrivial=None,
                 assumptions=None, extra_cases=None, final_ops=('stat',), extra=None, also=()):
        self.extra = extra
        self.also = also      # P failures of these properties' clauses also count (same claim on this property's states)
        self.pid, self.profile, self.probes = pid, profile, probes
        self.nq, self.nt = quick, thorough
        self.rule, self.nontrivial = rule, nontrivial
        self.assumptions = assumptions or []
        self.extra_cases = extra_cases
        self.final_ops = list(final_ops)

    def gen_cases(self, seed, n, tag=''):
        cases, stats = [], {}
        for i in range(n):
            rng = random.Random(case_seed(seed, self.pid + tag, i))
            prof = self.profile(rng)
            ops, st = gens.gen_history(rng, prof, self.probes)
            if not ops[-1].startswith('close') and 'close' not in ops[-1:]:
                ops = ops + self.final_ops
            for k, v in st.items():
                stats[k] = stats.get(k, 0) + v
            cases.append(('g%s%d' % (tag, i), ops))
        return cases, stats

    def still_fails(self, kind, key):
        def pred(ops):
            mism, pf, _, _ = kv.run_cases([('shrink', ops)], 'shrink-' + self.pid)
            if kind == 'p':
                return any((f['prop'] == self.pid or f['prop'] in self.also) and f['clause'] == key for f in pf)
            return bool(mism)
        return pred

    def run(self, pid, tier, seed, args, t0):
        kv.build_impl()
        kv.build_model()
        forb = kv.grep_forbidden()
        if forb:
            raise kv.Broken('forbidden vernacular in the development: ' + '; '.join(forb[:5]))
        known = kv.load_known()
        if args.replay:
            cases = load_replay(args.replay)
            stats = {}
        else:
            n = args.cases or (self.nq if tier == 'quick' else self.nt)
            cases = load_corpus(pid)
            if self.extra_cases:
                cases += self.extra_cases(tier)
            g, stats = self.gen_cases(seed, n)
            cases += g
        mism, pfails, nlines, nchecked = kv.run_cases(cases, 'run-' + pid, kslice_pid=None if args.replay else pid)
        kslice_res = kv.LAST_KSLICE if not args.replay else None
        byname = dict(cases)
        mine = [f for f in pfails if f['prop'] == pid or f['prop'] in self.also]
        # The histories are sequential and deterministic: a genuine failure shows again when its case is run alone.
        # One that does not (a watchdog that fired on an overloaded machine) is not reported; it is counted in the evidence.
        unconfirmed = 0
        suspects = sorted({f['case'] for f in mine} | {m['case'] for m in mism})
        if suspects:
            mism2, pf2, _, _ = kv.run_cases([(n, byname[n]) for n in suspects if n in byname], 'confirm-' + pid)
            again_p = {(f['case'], f['prop'], f['clause']) for f in pf2}
            again_m = {m['case'] for m in mism2}
            keep_p = [f for f in mine if (f['case'], f['prop'], f['clause']) in again_p]
            keep_m = [m for m in mism if m['case'] in again_m]
            unconfirmed = (len(mine) - len(keep_p)) + (len(mism) - len(keep_m))
            mine, mism = keep_p, keep_m
        known_hits, unknown = [], []
        for f in mine:
            e = kv.match_known(known, pid, f['clause'], byname.get(f['case']))
            (known_hits if e else unknown).append((f, e))
        for e in {e['id']: e for _, e in known_hits}.values():
            print('KNOWN-FINDING: property=%s %s' % (pid, e['what_fails']))
        # correspondence mismatches inside a known finding's region do not count twice
        known_cases = {f['case'] for f, _ in known_hits}
        nob, ndis, axioms, thlog = kv.check_theorems(pid)
        chk_note = 'coqchk: thorough tier only'
        if tier == 'thorough' and nob and ndis == nob:
            okc, chk_note = kv.coqchk(pid)
            if not okc:
                ndis, thlog = 0, thlog + '\n' + chk_note
        violations = 0
        verdict_lines = []
        extra_cov = {}
        if self.extra and not args.replay:
            xv, extra_cov = self.extra(pid, tier, seed)
            # a failing input (P) is reported in preference to a correspondence that no longer checks
            xv = sorted(xv, key=lambda x: x[0] != 'P')
            if xv and needs_confirmation(xv[0][1]):
                # harnesses that decide by waiting (a watchdog, "still blocked after 30 ms"): the failure must show again
                xv2, _ = self.extra(pid, tier, seed)
                if not xv2:
                    unconfirmed += len(xv)
                    xv = []
            for kind, content in xv[:1]:
                path = kv.write_replay(pid, kind, content)
                verdict_lines.append('VIOLATION property=%s replay=%s%s' % (
                    pid, path, '' if kind == 'P' else ' no-failing-input-found'))
            violations += len(xv)
        if verdict_lines:
            pass
        elif unknown:
            f = unknown[0][0]
            ops = byname[f['case']]
            small = kv.shrink(ops, self.still_fails('p', f['clause'])) if len(ops) > 3 else ops
            content = ('# property %s violated: clause %s\n# failing call: %s -> %s\n# seed=%d case=%s\n'
                       '# replay: ./check %s --replay <this file>\n' % (pid, f['clause'], f['op'], f['got'], seed,
                                                                          f['case'], pid))
            content += 'case replay\n' + '\n'.join(small) + '\n'
            path = kv.write_replay(pid, 'P', content)
            verdict_lines.append('VIOLATION property=%s replay=%s' % (pid, path))
            violations = len({x[0]['case'] for x in unknown})
        elif [m for m in mism if m['case'] not in known_cases]:
            m = [m for m in mism if m['case'] not in known_cases][0]
            ops = byname[m['case']]
            small = kv.shrink(ops, self.still_fails('m', None)) if len(ops) > 3 else ops
            # search for a failing input near the mismatch: more histories, P only
            g, _ = self.gen_cases(seed + 7919, max(200, self.nq), tag='s')
            _, pf2, _, _ = kv.run_cases(g + [('shrunk', small)], 'search-' + pid)
            pf2 = [f for f in pf2 if (f['prop'] == pid or f['prop'] in self.also) and not kv.match_known(known, pid, f['clause'])]
            if pf2:
                f = pf2[0]
                ops2 = dict(g + [('shrunk', small)])[f['case']]
                small2 = kv.shrink(ops2, self.still_fails('p', f['clause']))
                content = ('# property %s violated: clause %s\n# failing call: %s -> %s\n'
                           '# found by the search that follows a correspondence mismatch\n' % (
                               pid, f['clause'], f['op'], f['got']))
                content += 'case replay\n' + '\n'.join(small2) + '\n'
                path = kv.write_replay(pid, 'P', content)
                verdict_lines.append('VIOLATION property=%s replay=%s' % (pid, path))
            else:
                content = ('# correspondence corr:%s no longer checks: model and implementation disagree\n'
                           '# op: %s\n# implementation: %s\n# model:          %s\n'
                           '# the property checkers found no failing input in %d further histories\n' % (
                               pid, m['op'], m['impl'], m['model'], len(g)))
                content += 'case replay\n' + '\n'.join(small) + '\n'
                path = kv.write_replay(pid, 'corr', content)
                verdict_lines.append('VIOLATION property=%s replay=%s no-failing-input-found' % (pid, path))
            violations = len(mism)
        elif kslice_res and [c for c in kslice_res['disagreeing'] if c not in known_cases and c not in {m['case'] for m in mism}]:
            bad = [c for c in kslice_res['disagreeing'] if c not in known_cases]
            content = ('# correspondence corr:%s/in-kernel no longer checks: the Coq kernel, evaluating History.hrun by vm_compute on histories '
                       'of this run, ends with another abstract log than the implementation\'s last scan, although the extracted model '
                       'agreed with the implementation on every result line\n# cases: %s\n%s\n' % (pid, bad[:5], kslice_res.get('log', '')))
            if bad[0] in byname:
                content += 'case replay\n' + '\n'.join(byname[bad[0]]) + '\n'
            path = kv.write_replay(pid, 'corr', content)
            verdict_lines.append('VIOLATION property=%s replay=%s no-failing-input-found' % (pid, path))
            violations = len(bad)
        elif nob == 0 or ndis < nob or any(not ok_axiom(x) for x in axioms):
            content = ('# theorem file coq/Properties/%s.v no longer checks (obligations=%d discharged=%d axioms=%s)\n%s\n'
                       % (pid, nob, ndis, axioms, thlog))
            path = kv.write_replay(pid, 'thm', content)
            verdict_lines.append('VIOLATION property=%s replay=%s no-failing-input-found' % (pid, path))
            violations = 1
        # evidence
        nontriv = set()
        if self.nontrivial:
            for name, ops in cases:
                if self.nontrivial(ops):
                    nontriv.add(hashlib.sha1('\n'.join(ops).encode()).hexdigest())
        cov = dict(
            obligations=nob, discharged=ndis,
            checker_cmd='coqc -Q . KV Properties/%s.v  (after make of the whole tree; cwd /verif/coq)' % pid,
            trusted_base=TRUSTED + ['axioms reported by Print Assumptions: %s' % (axioms or 'none (closed under the global context)'), chk_note],
            evaluations=len(cases), distinct_nontrivial=len(nontriv),
            rule=self.rule, samples=[dict(name=n, ops=o) for n, o in cases[:2]],
            correspondence_result_lines_compared=nlines, correspondence_mismatches=len(mism),
            property_checker_evaluations_on_impl_output=nchecked,
            property_checker_failures=len(mine), known_finding_hits=len(known_hits),
            failures_not_reproduced_when_run_again=unconfirmed,
            input_distribution=stats, corpus_cases=len(load_corpus(pid)))
        if kslice_res:
            cov['in_kernel_slice'] = dict(histories_evaluated_by_vm_compute=kslice_res['cases'],
                                          disagreeing=len(kslice_res['disagreeing']), seconds=round(kslice_res['seconds'], 1),
                                          rule='histories of this run - their part made of open / close / publish / delete / index removal / DeleteMulti / '
                                               'TrimByOffset, Count, Age / CompactUpdates, Deletes / Migrate / Recover and reads - cut at their last full scan (or '
                                               'NextOffset call): abs of the fold of XHistory.xh_step fnv64a from init_state, evaluated by coqc (vm_compute), '
                                               'must be the implementation\'s scan and NextOffset')
        cov.update(extra_cov)
        kv.write_evidence(pid, tier, seed, cov, self.assumptions, time.time() - t0, violations)
        for l in verdict_lines:
            print(l)
        if verdict_lines:
            return 1
        print('OK property=%s cases=%d compared_lines=%d p_evals=%d theorems=%d/%d wall=%.1fs' % (
            pid, len(cases), nlines, nchecked, ndis, nob, time.time() - t0))
        return 0


STDLIB_AXIOMS = ('functional_extensionality_dep', 'proof_irrelevance', 'classic', 'JMeq_eq', 'eq_rect_eq',
                 'propositional_extensionality', 'constructive_indefinite_description')


def ok_axiom(name):
    return any(name.endswith(a) for a in STDLIB_AXIOMS)


def load_replay(path):
    cases, name, ops = [], None, []
    for line in open(path):
        line = line.rstrip('\n')
        if not line or line.startswith('#'):
            continue
        if line.startswith('case '):
            if name:
                cases.append((name, ops))
            name, ops = line[5:], []
        else:
            ops.append(line)
    if name:
        cases.append((name, ops))
    return cases


# --------------------------------------------------------------------------
# profiles

BASE_W = dict(pub=40, delm=6, gc=3, sync=3, reopen=12, probe=2)
BASE_W['del'] = 18


def prof_base(rng, **kw):
    p = dict(keys=rng.choice([0, 1]), times=rng.choice([0, 1]), weights=dict(BASE_W),
             time_mode=rng.choice(['mono', 'mono', 'rand']),
             # both formats are live code: a fifth of the profiles mix them, a fifth write V1 only (no file headers:
             # an empty segment is a pair of zero-length files)
             versions=rng.choice([[2], [2], [2], [1, 2], [1]]))
    p.update(kw)
    return p


def has_multi_layout(ops):
    """non-trivial: at least one delete, one reopen and a rollover small enough to make several segments"""
    roll = int(ops[0].split()[5])
    npub = sum(len(o.split()) - 1 for o in ops if o.startswith('pub'))
    return (0 < roll <= 400 and npub >= 4 and any(o.startswith('del') or o.startswith('trim') for o in ops)
            and sum(1 for o in ops if o.startswith('open')) >= 2)


def probes_scan(sh, rng):
    return ['probe scan']


def probes_c02(sh, rng):
    return ['next'] + (['sync'] if rng.random() < 0.2 else [])


def probes_c03(sh, rng):
    return ['probe cons -5 2 1,2,3,7,40', 'probe scan']


def probes_c04(sh, rng):
    return ['probe get 2', 'probe cons 0 0 1']


KEYLIST = ','.join(gens.KEYS_ALL + [gens.ABSENT_KEY])


def probes_c09(sh, rng):
    # the first and the last lookup around every step ask for the same key (redrawn now and then): an answer remembered
    # from before the step - a cached position, a memoized hit - shows only when the very same question is asked again
    if not getattr(sh, 'sticky_key', None) or rng.random() < 0.3:
        sh.sticky_key = rng.choice(gens.KEYS_ALL)
    return ['getk ' + sh.sticky_key, 'probe keys ' + KEYLIST, 'probe consk 1,3,40 ' + KEYLIST] + \
           (['offk ' + rng.choice(gens.KEYS_ALL)] if rng.random() < 0.3 else []) + ['getk ' + sh.sticky_key]


def probes_c10(sh, rng):
    lo = min(sh.times.values()) - 2 if sh.times else 98
    hi = max(sh.times.values()) + 2 if sh.times else 102
    # same question before and after every step (see probes_c09)
    if getattr(sh, 'sticky_time', None) is None or rng.random() < 0.3:
        sh.sticky_time = rng.randrange(lo, hi + 1)
    return ['gett %d' % sh.sticky_time, 'probe times %d %d' % (lo, hi)] + \
           (['offt %d' % rng.randrange(lo, hi + 1)] if rng.random() < 0.3 else []) + ['gett %d' % sh.sticky_time]


def probes_c12(sh, rng):
    return ['probe scan']


def probes_c13(sh, rng):
    m, _ = gens.draw_msg(rng, dict(time_mode='rand'), gens.Shadow())
    return ['stat', 'disksize', 'size ' + m]


def w(**kw):
    d = dict(BASE_W)
    d.update(kw)
    return d


def cfg_c01(rng):
    return prof_base(rng, versions=rng.choice([[2], [2], [1, 2]]),
                     weights=w(trim=5, compact=4))


def cfg_c02(rng):
    p = prof_base(rng)
    if rng.random() < 0.4:
        p['delete_class'] = rng.choice(['last', 'lasttwo', 'all', 'tail'])
        p['weights'] = w(reopen=25)
    return p


def cfg_c09(rng):
    return prof_base(rng, keys=1 if rng.random() < 0.9 else 0, max_ops=20)


def cfg_c10(rng):
    p = prof_base(rng, times=1 if rng.random() < 0.9 else 0, time_mode='mono', max_ops=22,
                  rollovers=[60, 100, 100, 150, 150, 250, 400, 8, 100000])
    p['weights'] = w(reopen=10)
    p['weights']['del'] = 22
    if rng.random() < 0.25:
        p['delete_class'] = rng.choice(['last', 'lasttwo', 'tail'])
    return p


def cfg_c10neg(rng):
    p = cfg_c10(rng)
    p['time_mode'] = 'neg'
    p['times'] = 1
    return p


def cfg_c12(rng):
    p = prof_base(rng, versions=rng.choice([[2], [2], [1, 2]]))
    p['weights'] = w(delm=18)
    p['weights']['del'] = 40
    if rng.random() < 0.15:
        # a few profiles with messages of a page or more, in segments large enough to hold several of them
        p['p_bigval'] = 0.5
        p['rollovers'] = [30000, 100000]
    return p


def cfg_c15(rng):
    p = prof_base(rng, time_mode=rng.choice(['mono', 'mono', 'mono', 'rand']), versions=rng.choice([[2], [2], [1], [1, 2]]),
                  p_rmindex=0.15)
    p['weights'] = w(trim=30, reopen=8)
    return p


def cfg_c16(rng):
    # half of the cases add a pair of distinct keys with the same FNV-1a-64 hash (the hash of the key index)
    p = prof_base(rng, time_mode=rng.choice(['mono', 'mono', 'rand']),
                  keyset=['-', '=', '61', '62', '6100', '00'] + (list(rng.choice(gens.COLLISIONS)) if rng.random() < 0.5 else []),
                  p_tomb=0.35)
    p['weights'] = w(compact=30, reopen=6)
    p['weights']['del'] = 6
    return p


def cfg_c17(rng):
    p = prof_base(rng, versions=[1, 2], p_checkrecover=0.2)
    p['weights'] = w(reopen=28)
    p['after_close'] = ['files', 'checkall'] if p['time_mode'] != 'rand' or not p['times'] else ['files']
    return p


def cfg_c11(rng):
    p = prof_base(rng, versions=rng.choice([[2], [1, 2]]), time_mode='mono', p_rmindex=0.7, p_ro=0.3)
    p['weights'] = w(reopen=30)
    p['after_close'] = ['checkall', 'files']
    p['p_idxcut'] = 0.12
    return p


def probes_c11(sh, rng):
    return ['stat', 'probe scan', 'probe get 1'] + \
           (['probe keys ' + KEYLIST] if rng.random() < 0.5 else []) + \
           (['probe times 98 %d' % (sh.tcur + 2)] if rng.random() < 0.5 else [])


def probes_c17(sh, rng):
    return ['probe scan', 'next', 'stat', 'disksize', 'probe get 1'] + \
           (['probe times %d %d' % (min(sh.times.values()) - 1, max(sh.times.values()) + 1)] if sh.times else []) + \
           (['probe keys -,=,61,62,6100'] if rng.random() < 0.4 else [])


def probes_c15(sh, rng):
    # Size(m) is what FindBySize subtracts per message: it must be the bytes the message occupies in this log's format
    m, _ = gens.draw_msg(rng, dict(time_mode='rand'), gens.Shadow())
    return ['probe scan'] + (['size ' + m] if rng.random() < 0.3 else [])


def probes_c16(sh, rng):
    return ['probe scan', 'probe keys -,=,61,62,6100,00,' + ','.join(k for pr in gens.COLLISIONS for k in pr)]


def cfg_c20(rng):
    p = prof_base(rng, versions=rng.choice([[2], [2], [1, 2]]), p_rmindex=0.1)
    if p['times']:
        p['time_mode'] = 'mono'     # Check (which a backup must pass) is only claimed for non-decreasing times
    p['weights'] = w(backup=25, pub=45, reopen=9)
    p['weights']['del'] = 8
    p['bk_over_reopen'] = True
    p['p_bkhalf'] = 0.2
    return p


def probes_c20(sh, rng):
    return []


# ---- C17: "logs whose segments use different format versions behave exactly like single-version logs":
# every case is also run, on the implementation only, as its single-version twin and the answers compared
SKIP_TWIN = ('files', 'disksize', 'stat', 'size', 'migrate', 'checkall', 'checkdir', 'statdir')


def twin_of(ops):
    out = []
    for o in ops:
        f = o.split()
        if f[0] == 'open':
            f[8], f[9], f[10] = '2', '0', '0'
            out.append(' '.join(f))
        elif f[0] in SKIP_TWIN:
            continue
        else:
            out.append(o)
    return out


def norm_twin(op, res):
    k = op.split()[0]
    if k in ('del', 'delm', 'delmb') or k.startswith('trim') or k in ('cupd', 'cdel', 'c1upd', 'c1del', 'compact'):
        out = []
        for r in res:
            t = r.split()
            if t and t[0] == 'ok':
                out.append(' '.join(t[:1] + t[3:]))
            elif t and t[0] == 'err':
                out.append(' '.join(t[:2] + t[4:]))
            else:
                out.append(r)
        return out
    return res


def c17_extra_factory(prop):
    def extra(pid, tier, seed):
        n = 150 if tier == 'quick' else 4000
        cases, _ = prop.gen_cases(seed + 31, n, tag='t')
        d = kv.workdir('twin-' + pid)
        import shutil
        try:
            a = kv.write_shards([(nm, [o for o in ops if o.split()[0] not in SKIP_TWIN]) for nm, ops in cases], d)
            os.makedirs(os.path.join(d, 'tw'), exist_ok=True)
            b = kv.write_shards([(nm, twin_of(ops)) for nm, ops in cases], os.path.join(d, 'tw'))
            kv.run_impl_only(a + b, d)
            viol, compared = [], 0
            for pa, pb in zip(a, b):
                ra, rb = kv.parse_out(pa + '.impl'), kv.parse_out(pb + '.impl')
                for case, opsa in ra.items():
                    opsb = rb.get(case, [])
                    for i, (op, res) in enumerate(opsa):
                        if op.startswith('open'):
                            continue
                        compared += len(res)
                        if i < len(opsb) and norm_twin(op, res) != norm_twin(op, opsb[i][1]):
                            src = dict(cases)[case]
                            viol.append(('P', '# C17 violated: a mixed-version / migrated log answers differently from its '
                                              'single-version twin (same calls, NewSegmentsVersion V2, no migration)\n'
                                              '# first differing call: %s\n# mixed:  %s\n# single: %s\n'
                                              'case replay\n%s\n' % (op, res[:3], opsb[i][1][:3], '\n'.join(src))))
                            break
            return viol, dict(twin=dict(cases=len(cases), result_lines_compared=compared,
                                        rule='each generated history also runs as its single-version twin on the '
                                             'implementation; all query answers, deleted message lists and NextOffset must agree'))
        finally:
            if not os.environ.get('KV_KEEP'):
                shutil.rmtree(d, ignore_errors=True)
    return extra


def any_reopen_delete(ops):
    return has_multi_layout(ops)


REG = {}


def needs_confirmation(content):
    """a failure of a harness that decides by the clock (a watchdog that fired; the C18 harnesses, which call a waiter
    blocked when it has not returned within some milliseconds) is run again before it is reported; everything else - a
    call that failed, a history that is not linearizable, a race report - is a fact of the run that produced it"""
    if 'DATA RACE' in content:
        return False
    return 'Hang' in content or '# C18 violated' in content


def reg(p):
    REG[p.pid] = p


def c02_extra(pid, tier, seed):
    """batches whose last message sits at the 64 MiB body limit: all three messages get consecutive offsets or none does
    (the model cannot hold a 64 MiB message; the property is judged on the implementation's answers alone)"""
    import subprocess
    d = kv.workdir('edge-' + pid)
    try:
        p = os.path.join(d, 'e.txt')
        open(p, 'w').write('cedge\n')
        env = dict(os.environ, KV_WORK=os.path.join(d, 'dirs'))
        os.makedirs(env['KV_WORK'], exist_ok=True)
        r = subprocess.run([kv.KVRUN, 'conc', p], stdout=subprocess.PIPE, stderr=subprocess.PIPE, text=True, env=env, timeout=900)
        res = [l for l in r.stdout.split('\n') if l.startswith('= ')]
        viol = []
        mine = 'ContentLost' if pid == 'C01' else 'OffsetReused'
        if r.returncode != 0 or not res or 'Hang' in res[0] or 'Panic' in res[0].split()[:3] or \
                not (res[0].startswith('= ok') or (res[0].startswith('= err') and mine not in res[0] and 'open' not in res[0].split()[:3]
                                                   # an offset that reads back another message than the one published at it was assigned twice
                                                   and not (pid == 'C02' and 'ContentLost' in res[0] and 'published key' in res[0]))):
            viol.append(('P', '# %s violated: ' % pid + ('a message at the 64 MiB body limit is not read back as published\n' if pid == 'C01' else
                              'a batch refused (or accepted) at the 64 MiB body limit left offsets assigned twice\n') +
                              '# workload (kvrun conc: cedge): on an empty log Publish [a, b, BIG] with key+value of BIG = 64 MiB - d, then Publish [c], '
                              'scan, reopen, scan; formats V2 and V1\n# %s\n' % (res[0] if res else r.stderr[-800:])))
        return viol, dict(size_limit_batches=dict(cases=12, rule='d in {0, 1, 28, 35, 36, -1} x {V2, V1}'))
    finally:
        shutil.rmtree(d, ignore_errors=True)



reg(HistProp('C01', cfg_c01, probes_scan, quick=500, thorough=20000, extra=c02_extra,
             rule='seeded histories (12-28 ops: publish batches 0-5, delete by class, trims, compaction, GC, close/reopen '
                  'with redrawn Rollover/Check/Recover/version options, index files removed, Migrate); after every op the '
                  'full feed-back scan; non-trivial = rollover <= 400 with >= 4 messages, >= 1 delete/trim and >= 1 reopen; '
                  'distinct by SHA1 of the op list',
             nontrivial=has_multi_layout))
def c02_both(pid, tier, seed):
    v1, c1 = c02_extra(pid, tier, seed)
    v2, c2 = crash.crash_lite(pid, tier, seed)
    c1.update(c2)
    return v1 + v2, c1


reg(HistProp('C02', cfg_c02, probes_c02, quick=500, thorough=20000, extra=c02_both,
             rule='C01-style histories biased (40%) to delete-last/delete-all/tail then reopen then publish; Publish return '
                  'values and the offsets written back into the caller slice (harness passes offset -77 in), NextOffset, Sync; '
                  'non-trivial as C01', nontrivial=has_multi_layout))
reg(HistProp('C03', cfg_c01, probes_c03, quick=250, thorough=8000,
             rule='after every op: Consume(off,max) for every off in [-5,next+2] x max in {1,2,3,7,40} plus the feed-back scan; '
                  'before and after them a Consume at a random or resumed absolute offset; plus "resume" cases (a cursor kept '
                  'across the removal of whole earlier segments); non-trivial as C01', nontrivial=has_multi_layout,
             extra_cases=lambda tier: resume_cases(tier) + big_segment_cases(tier)))
reg(HistProp('C04', cfg_c01, probes_c04, quick=400, thorough=12000,
             rule='after every op: Get(off) for off in {-2,-1} and [0,next+2], Consume(off,1) for agreement; non-trivial as C01',
             nontrivial=has_multi_layout))
reg(HistProp('C09', cfg_c09, probes_c09, quick=200, thorough=6000,
             rule='key set with nil/empty, prefix keys, 3 real FNV-1a-64 collision pairs, one absent key; after every op '
                  'GetByKey for all keys and ConsumeByKey for all keys x offsets [-2,next+1] x max {1,3,40}; non-trivial = '
                  'multi-segment layout with deletes (as C01)', nontrivial=has_multi_layout))
reg(HistProp('C10', cfg_c10, probes_c10, quick=400, thorough=12000,
             rule='monotone times with runs of equal timestamps straddling rollovers, tail deletes; after every op GetByTime '
                  'for every t in [first-2,last+2]; non-trivial as C01', nontrivial=has_multi_layout,
             extra_cases=lambda tier: neg_cases(tier)))
reg(HistProp('C12', cfg_c12, probes_c12, quick=500, thorough=15000,
             rule='offset sets drawn by class (first/last/single/subset/range/all/tail/head/dead/unassigned/mixed), Delete and '
                  'DeleteMulti, scan after each; non-trivial as C01', nontrivial=has_multi_layout, extra=crash.crash_lite))
reg(HistProp('C13', cfg_c01, probes_c13, quick=300, thorough=8000,
             rule='log-level half of C13: after every op Stat vs live count, Stat size vs sum of file sizes on disk, Size(m); '
                  'the codec half is the byte-level run (see coverage.codec)', nontrivial=has_multi_layout,
             extra=codec.c13_both))
reg(HistProp('C15', cfg_c15, probes_c15, quick=400, thorough=12000,
             rule='Find*/Trim*Multi (and single-segment Trim*) with bounds below/inside/above the live range; scan after each; '
                  'non-trivial as C01', nontrivial=has_multi_layout, extra=crash.crash_lite))
reg(HistProp('C16', cfg_c16, probes_c16, quick=400, thorough=12000,
             rule='small key set with repeats, 35% tombstones, nil key; FindUpdates/FindDeletes and Compact*(Multi) at cut-offs '
                  'around the current time; latest-value map checked before/after; non-trivial = at least 2 compactions',
             nontrivial=lambda ops: sum(1 for o in ops if o.startswith('cupd') or o.startswith('cdel') or o.startswith('compact')) >= 2))
def cfg_c07(rng):
    p = prof_base(rng, time_mode='mono', versions=rng.choice([[2], [1, 2]]), p_checkrecover=0.9, p_recoverdir=0.5)
    p['weights'] = w(reopen=30)
    p['after_close'] = ['checkall']
    return p


reg(HistProp('C07', cfg_c07, probes_scan, quick=150, thorough=3000,
             rule='log-level half: histories whose reopens use Check/Recover (90%) and RecoverDir, Check of every segment at every '
                  'close; byte-level half: see coverage.recover', nontrivial=has_multi_layout, extra=recov.c07_extra))
reg(HistProp('C14', cfg_c01, probes_scan, quick=60, thorough=1000,
             rule='the damage sweep is the byte-level run (coverage.damage); the history part only keeps the log-level model tied',
             nontrivial=has_multi_layout, extra=dmg.c14_extra))
reg(HistProp('C05', cfg_c07, probes_scan, quick=40, thorough=600,
             rule='the crash images are the run described in coverage.crash; the history part keeps the Check/Recover reopen '
                  'model tied', nontrivial=has_multi_layout, extra=crash.c05_extra))
reg(HistProp('C06', cfg_c07, probes_c02, quick=40, thorough=600,
             rule='power-loss images: coverage.crash; the history part keeps Sync/NextOffset of the model tied',
             nontrivial=has_multi_layout, extra=crash.c06_extra))
def cfg_c19(rng):
    p = prof_base(rng, p_ro=0.6, p_rmindex=0.3)
    p['weights'] = w(reopen=35)
    return p


def probes_c19(sh, rng):
    return ['probe scan', 'probe get 1', 'stat'] + (['probe keys ' + KEYLIST] if rng.random() < 0.4 else []) + \
           (['pub 100|61|01'] if sh.ro and rng.random() < 0.3 else []) + (['del 0'] if sh.ro and rng.random() < 0.2 else [])


reg(HistProp('C19', cfg_c19, probes_c19, quick=250, thorough=6000,
             rule='history half: 60% of reopens are read-only (with and without index files, empty / single / multi-segment), all '
                  'queries checked by the same L0 checkers as on read-write handles, Publish/Delete on read-only handles must be '
                  'ErrReadonly; lock half: coverage.flock', nontrivial=has_multi_layout,
             also=('C01', 'C03', 'C04', 'C09'), extra=flk.c19_extra))
reg(HistProp('C18', cfg_c01, probes_c03, quick=40, thorough=600,
             rule='deterministic schedules: coverage.notify; the history part keeps Consume (what a woken waiter returns) tied',
             nontrivial=has_multi_layout, extra=ntf.c18_extra))
reg(HistProp('C08', cfg_c01, probes_c03, quick=40, thorough=600,
             rule='concurrent runs: coverage.conc; the sequential history part keeps the model of the single calls tied',
             nontrivial=has_multi_layout, extra=cnc.c08_extra))
reg(HistProp('C20', cfg_c20, probes_c20, quick=400, thorough=12000,
             rule='Log.Backup into fresh directories and repeated into the same directory after publish-only steps; each backup is '
                  'checked (Segment.Check of every file), opened read-write or read-only and fully observed (scan, Get of every '
                  'offset, Stat) against the source state at the time of the call; non-trivial = at least one repeated backup',
             nontrivial=lambda ops: len([o for o in ops if o.startswith('backup')]) >
             len({o for o in ops if o.startswith('backup')}), extra=codec.c20_extra))
reg(HistProp('C17', cfg_c17, probes_c17, quick=400, thorough=12000,
             rule='every reopen redraws NewSegmentsVersion/KeepRewriteVersion/EagerVersionMigrate and may Migrate to V1 or V2; '
                  'scan/next/stat after each op, file versions and sizes at every close; non-trivial = >= 2 reopens with deletes',
             nontrivial=has_multi_layout, extra=codec.c17_extra))
reg(HistProp('C11', cfg_c11, probes_c11, quick=300, thorough=9000,
             rule='at every close: Check of every segment + directory listing; 70% of reopens remove all/some index files; 30% '
                  'read-only reopens; stat/scan/get/key/time queries after each op; non-trivial as C01',
             nontrivial=has_multi_layout, extra=cnc.c11_extra))


def resume_cases(tier):
    """a consumer that keeps its cursor across changes of the segment list: many small segments, a Consume in a middle
    segment, then the removal of whole earlier segments (trim by offset to a segment base, or a Delete of every message
    of one segment), then a Consume at the same cursor - with no read from the oldest offset in between"""
    out = []
    for i in range(40 if tier == 'quick' else 600):
        rng = random.Random(case_seed(0, 'resume', i))
        keys, times = rng.choice([(0, 0), (1, 1), (1, 0), (0, 1)])
        ops = ['open 0 %d %d 0 1 0 0 2 0 0' % (keys, times)]     # Rollover 1: every batch gets a segment of its own
        t, nxt, segs = 100, 0, []
        for _ in range(rng.randrange(5, 10)):
            n = rng.choice([1, 2, 3])
            ms = []
            for _ in range(n):
                t += rng.choice([0, 1])
                ms.append('%d|%s|%s' % (t, rng.choice(['61', '62', '-']), gens.hexbytes(rng, rng.choice([1, 3, 8]))))
            ops.append('pub ' + ' '.join(ms))
            segs.append(list(range(nxt, nxt + n)))
            nxt += n
        for _ in range(rng.randrange(1, 4)):
            if len(segs) < 4:
                break
            k = rng.randrange(1, len(segs) - 2)          # the segment the consumer is in: not the first, two more after it
            x = rng.choice(segs[k])
            ops.append('cons %d %d' % (x, rng.choice([1, 2, 40])))
            if rng.random() < 0.5:
                j = rng.randrange(1, k + 1)               # trim everything below the base of segment j <= k
                ops.append('trimo %d' % segs[j][0])
                segs = segs[j:]
            else:
                j = rng.randrange(0, k)                   # delete every message of an earlier segment
                ops.append('del ' + ','.join(str(o) for o in segs[j]))
                segs = segs[:j] + segs[j + 1:]
            ops.append('cons %d %d' % (min(x + rng.choice([0, 0, 1]), nxt), rng.choice([1, 2, 40])))
            ops.append('probe scan')
        ops += ['stat', 'close']
        out.append(('resume%d' % i, ops))
    return out


def big_segment_cases(tier):
    """segments of well over a hundred messages (index files larger than any read or write buffer), in each index
    layout, read before and after the index is loaded back from its file (reopen read-write and read-only, GC)"""
    out = []
    for i in range(8 if tier == 'quick' else 80):
        rng = random.Random(case_seed(0, 'bigseg', i))
        keys, times = [(1, 0), (0, 1), (1, 1), (0, 0)][i % 4]
        roll = rng.choice([100000, 3000])
        ver = rng.choice([2, 2, 1])
        ops = ['open 0 %d %d 0 %d 0 0 %d 0 0' % (keys, times, roll, ver)]
        t, nxt = 100, 0
        for _ in range(rng.randrange(4, 7)):
            ms = []
            for _ in range(35):
                t += rng.choice([0, 1])
                ms.append('%d|%s|%s' % (t, rng.choice(['61', '62', '-', '6100']), gens.hexbytes(rng, rng.choice([1, 3]))))
            ops.append('pub ' + ' '.join(ms))
            nxt += 35
        ops += ['probe scan', 'del %d' % rng.randrange(1, nxt - 1), 'probe scan', 'gc', 'probe scan', 'close',
                'open 0 %d %d 0 %d 0 0 %d 0 0' % (keys, times, roll, ver), 'probe scan', 'cons %d 40' % rng.randrange(0, nxt), 'stat', 'close',
                'open 1 %d %d 0 %d 0 0 %d 0 0' % (keys, times, roll, ver), 'probe scan', 'get %d' % rng.randrange(0, nxt), 'close']
        out.append(('bigseg%d' % i, ops))
    return out


def neg_cases(tier):
    out = []
    for i in range(20 if tier == 'quick' else 300):
        rng = random.Random(case_seed(0, 'C10neg', i))
        ops, _ = gens.gen_history(rng, cfg_c10neg(rng), probes_c10)
        out.append(('neg%d' % i, ops))
    return out


REG['C17'].also = ('C01', 'C02', 'C03', 'C04', 'C09', 'C10', 'C12')
# C12: "every other message keeps its offset and content" - the scans after a Delete are judged for C12 as well
REG['C12'].also = ('C01', 'C03')
# C15: the count and size bounds are stated in Stat numbers and Size(m): their clauses count for C15 as well
REG['C15'].also = ('C13',)
# C11: "removing any subset of index files and reopening yields a log that answers every query identically" - Stat is such a
# query, and every query is judged by its own property's clause on those sessions
REG['C11'].also = ('C13', 'C01', 'C03', 'C04', 'C09')


def get(pid):
    if pid not in REG:
        raise kv.Broken('no check registered for ' + pid)
    return REG[pid]
