"""C18, the wrappers of log_blocking.go on a real log: ConsumeBlocking / ConsumeByKeyBlocking return at once below
NextOffset and for relative offsets, stay blocked at or beyond it until a Publish, Close or context end, return what
Consume returns at that moment, yield the context's error, and fail at or beyond NextOffset after Close."""
import concurrent.futures as cf
import os
import random
import shutil
import subprocess

import codec
import kv


def gen_case(rng, i):
    ops = ['case b%d' % i, 'bopen %d %d' % (rng.choice([100000, 120]), rng.choice([0, 1]))]
    n, closed = 0, False
    for _ in range(rng.randrange(5, 11)):
        offs = [-2, -1, 0, max(0, n - 1), n, n, n + 1, n + 3]
        r = rng.random()
        if closed:
            ops.append('bcons %d %d' % (rng.choice(offs), rng.choice([1, 4])))
        elif r < 0.25:
            k = rng.choice([1, 1, 2, 3])
            ops.append('bpub %d' % k)
            n += k
        elif r < 0.5:
            ops.append('bcons %d %d' % (rng.choice(offs), rng.choice([1, 4])))
        elif r < 0.6:
            ops.append('bconsk %s %d %d' % (rng.choice(['6b30', '6b31', '7a']), rng.choice(offs), 4))
        elif r < 0.78:
            ops.append('bwake %d %d' % (rng.choice([n, n, n, n + 1, n + 2]), rng.choice([1, 4])))
            n += 1
        elif r < 0.88:
            ops.append('bcancel %d' % rng.choice([n, n, n + 2]))
        elif r < 0.94:
            ops.append('bclosewake %d' % rng.choice([n, n + 1]))
            closed = True
        else:
            ops.append('bclose')
            closed = True
    return ops


def judge(ops_results):
    """-> first failure text or None"""
    n, closed = 0, False
    for op, res in ops_results:
        f = op.split()
        if f[0] == 'bopen':
            if res != 'ok':
                return '%s -> %s' % (op, res)
        elif f[0] == 'bpub':
            n += int(f[1])
            if res != 'ok %d' % n:
                return '%s -> %s (expected ok %d)' % (op, res, n)
        elif f[0] in ('bcons', 'bconsk'):
            off = int(f[1] if f[0] == 'bcons' else f[2])
            immediate = off < 0 or off < n
            if res == 'stuck' or res == 'skip':
                return '%s -> %s' % (op, res)
            if immediate:
                if res.startswith('err Deadline') or res.startswith('err Canceled') or res.startswith('err NotifyClosed'):
                    return '%s with NextOffset %d must return at once, got: %s' % (op, n, res)
                if f[0] == 'bcons' and off >= 0 and not closed:
                    mx = int(f[2])
                    want = min(mx, n - off)
                    toks = res.split()
                    if toks[0] != 'ok' or int(toks[1]) != off + want or len(toks) - 2 != want or \
                            [int(t.split('|')[0]) for t in toks[2:]] != list(range(off, off + want)):
                        return '%s with NextOffset %d: expected the %d messages from %d and next %d, got: %s' % (op, n, want, off, off + want, res)
            elif closed:
                if not res.startswith('err'):
                    return '%s after Close, at or beyond NextOffset %d, must fail; got: %s' % (op, n, res)
            elif res != 'err Deadline':
                return '%s at or beyond NextOffset %d must stay blocked until the context ends, got: %s' % (op, n, res)
        elif f[0] == 'bwake':
            off = int(f[1])
            if off < n:
                n += 0
                continue
            if not res.startswith('woken '):
                return '%s (NextOffset %d): the waiter was not woken by the Publish: %s' % (op, n, res)
            got, now = res[6:].split(' | now ')
            n += 1
            if got.startswith('ok') and got != now:
                return '%s: the waiter returned %s but Consume at that moment returns %s' % (op, got, now)
            if off < n and not got.startswith('ok %d %d|' % (off + 1, off)):
                return '%s: the Publish moved NextOffset to %d, past the offset; the waiter returned %s' % (op, n, got)
        elif f[0] == 'bcancel':
            off = int(f[1])
            if off >= n and res != 'woken err Canceled':
                return '%s (NextOffset %d): a cancelled context must yield its error, got: %s' % (op, n, res)
        elif f[0] == 'bclosewake':
            closed = True
            if int(f[1]) >= n and not res.startswith('woken'):
                return '%s (NextOffset %d): Close must release the waiter, got: %s' % (op, n, res)
        elif f[0] == 'bclose':
            closed = True
            if res != 'ok':
                return '%s -> %s' % (op, res)
    return None


def run(pid, tier, seed):
    rng = random.Random(codec.kv_seed(seed, 'c18-blocking'))
    ncase = 64 if tier == 'quick' else 1600
    cases = [gen_case(rng, i) for i in range(ncase)]
    d = kv.workdir('blocking-' + pid)
    try:
        k = kv.NCPU
        paths = []
        for i in range(k):
            p = os.path.join(d, 'b%02d.txt' % i)
            with open(p, 'w') as fh:
                for c in cases[i::k]:
                    fh.write('\n'.join(c) + '\n')
            paths.append(p)
        env = dict(os.environ, KV_WORK=os.path.join(d, 'dirs'))
        os.makedirs(env['KV_WORK'], exist_ok=True)

        def one(p):
            with open(p + '.impl', 'w') as fh:
                r = subprocess.run([kv.KVRUN, 'blocking', p], stdout=fh, stderr=subprocess.PIPE, text=True, env=env, timeout=3600)
            if r.returncode != 0:
                raise kv.Broken('kvrun blocking failed: ' + r.stderr[-1000:])
        with cf.ThreadPoolExecutor(k) as ex:
            list(ex.map(one, paths))
        viol, nops = [], 0
        for p in paths:
            cur = None
            for line in open(p + '.impl'):
                line = line.rstrip('\n')
                if line.startswith('case '):
                    if cur:
                        bad = judge(cur[1])
                        if bad:
                            viol.append((cur[0], cur[1], bad))
                    cur = (line, [])
                elif line.startswith('= '):
                    cur[1][-1] = (cur[1][-1][0], line[2:])
                    nops += 1
                elif line:
                    cur[1].append((line, ''))
            if cur:
                bad = judge(cur[1])
                if bad:
                    viol.append((cur[0], cur[1], bad))
        out = []
        for name, opsr, bad in viol[:2]:
            out.append(('P', '# C18 violated (blocking wrappers on a real log): %s\n# scenario (kvrun blocking; 60 ms deadline on bcons/bconsk):\n%s\n%s\n'
                             % (bad, name, '\n'.join('%s\n# = %s' % (o, r) for o, r in opsr))))
        return out, dict(blocking_wrappers=dict(scenarios=ncase, calls=nops, failures=len(viol),
                                                rule='OpenBlocking on a fresh log; Publish, ConsumeBlocking / ConsumeByKeyBlocking at relative '
                                                     'offsets, below, at and beyond NextOffset, a waiter woken by a Publish / cancelled / '
                                                     'released by Close, waits after Close'))
    finally:
        if not os.environ.get('KV_KEEP'):
            shutil.rmtree(d, ignore_errors=True)
