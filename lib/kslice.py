"""The in-kernel slice of the correspondence: a few of the histories the implementation has just run are evaluated by the
Coq kernel itself - `vm_compute` of History.hrun / XHistory.xh_step, the very definitions the theorems are about, with the real FNV-1a hash -
and the abstract log of the final state is compared with the implementation's last observed scan.  This keeps the
extraction honest: the extracted OCaml model and the kernel's evaluation of the same definitions must agree with the
implementation on the same inputs."""
import os
import re
import subprocess
import time

SUPPORTED_MUT = ('open', 'close', 'pub', 'del', 'rmindex', 'delm', 'trimo', 'trimc', 'trima', 'cupd', 'cdel', 'migrate', 'recoverdir')
IGNORED = ('probe', 'next', 'sync', 'stat', 'gc', 'get', 'getk', 'offk', 'gett', 'offt', 'cons', 'consk', 'size', 'files',
           'disksize', 'sleepms', 'findo', 'findc', 'finds', 'finda', 'fupd', 'fdel')
MSG = re.compile(r'^(-?\d+)\|(-?\d+)\|([0-9a-f=-]+)\|([0-9a-f=-]+)$')


def coq_bytes(tok):
    if tok in ('-', '='):
        return '[]'
    return '[' + '; '.join('%d%%N' % int(tok[i:i + 2], 16) for i in range(0, len(tok), 2)) + ']'


def coq_z(n):
    n = int(n)
    return '(%d)' % n if n < 0 else '%d' % n


def coq_bool(x):
    return 'true' if x == '1' else 'false'


def to_hops(ops):
    """ops up to the last 'probe scan' as steps of XHistory.xh_step; None when an operation is outside the slice"""
    hops = []
    params = 'mkParams false false'
    for op in ops:
        f = op.split()
        k = f[0]
        if k == 'open':
            params = 'mkParams %s %s' % (coq_bool(f[3]), coq_bool(f[2]))
            ro, keys, times, autosync, roll, chk, rec, ver, keeprw, eager = f[1:11]
            hops.append('XBase (HOpen (mkCfg %s %s %s %s %s %s %s %s %s %s))' % (
                coq_bool(ro), coq_bool(keys), coq_bool(times), coq_bool(autosync), coq_z(roll), coq_bool(chk), coq_bool(rec),
                'V1' if ver == '1' else 'V2', coq_bool(keeprw), coq_bool(eager)))
        elif k == 'close':
            hops.append('XBase HClose')
        elif k == 'pub':
            ms = []
            for t in f[1:]:
                tm, key, val = t.split('|')
                ms.append('mkMsg 0 %s %s %s' % (coq_z(tm), coq_bytes(key), coq_bytes(val)))
            hops.append('XBase (HPub [%s])' % '; '.join(ms))
        elif k == 'del':
            offs = [] if len(f) < 2 or f[1] in ('-', '') else f[1].split(',')
            hops.append('XBase (HDel [%s])' % '; '.join(coq_z(o) for o in offs))
        elif k == 'rmindex':
            if f[1] == 'all':
                hops.append('XBase (HRmIndex [] true)')
            else:
                hops.append('XBase (HRmIndex [%s] false)' % '; '.join(coq_z(o) for o in f[1].split(',')))
        elif k == 'delm':
            offs = [] if len(f) < 2 or f[1] in ('-', '') else f[1].split(',')
            hops.append('XDeleteMulti [%s]' % '; '.join(coq_z(o) for o in offs))
        elif k in ('trimo', 'trimc', 'trima', 'cupd', 'cdel'):
            if len(f) != 2 or not re.match(r'^-?\d+$', f[1]):
                return None
            hops.append('%s %s' % (dict(trimo='XTrimByOffset', trimc='XTrimByCount', trima='XTrimByAge', cupd='XCompactUpdates',
                                        cdel='XCompactDeletes')[k], coq_z(f[1])))
        elif k == 'migrate':
            hops.append('XBase (HMigrate (%s) %s)' % (params, 'V1' if f[1] == '1' else 'V2'))
        elif k == 'recoverdir':
            hops.append('XBase (HRecoverDir (%s))' % params)
        elif k in IGNORED:
            continue
        else:
            return None
    return hops


def pick(parsed, limit):
    """parsed: {case: [(op, [results])]} -> list of (case, hops, live or None, next): the history cut at its last full scan
    ('probe scan'), or - when it has none - at its last NextOffset call"""
    out = []
    for case, ops in parsed.items():
        # only the part of the history before the first operation outside the slice
        for j, (op, _) in enumerate(ops):
            k0 = op.split()[0]
            if k0 not in SUPPORTED_MUT and k0 not in IGNORED:
                ops = ops[:j]
                break
        last, kind = None, None
        for i, (op, res) in enumerate(ops):
            if op == 'probe scan' and len(res) >= 2 and res[0].startswith('next => ok') and res[1].startswith('scan -2 => ok'):
                last, kind = i, 'scan'
        if last is None:
            for i, (op, res) in enumerate(ops):
                if op == 'next' and len(res) == 1 and res[0].startswith('ok '):
                    last, kind = i, 'next'
        if last is None:
            continue
        hops = to_hops([o for o, _ in ops[:last]])
        if hops is None or len(hops) > 40 or not any(h.startswith('XBase (HPub') for h in hops):
            continue
        res = ops[last][1]
        if kind == 'next':
            out.append((case, hops, None, res[0].split()[-1]))
        else:
            nxt = res[0].split()[-1]
            # the scan feeds the returned offset back: one result line per Consume call
            toks = [t for r in res[1:] if r.startswith('scan ') and ' => ok ' in r for t in r.split()[5:]]
            if any(r.startswith('scan ') and ' => ok ' not in r for r in res[1:]):
                continue
            live = []
            bad = False
            for t in toks:
                m = MSG.match(t)
                if not m:
                    bad = True
                    break
                live.append('mkMsg %s %s %s %s' % (coq_z(m.group(1)), coq_z(m.group(2)), coq_bytes(m.group(3)), coq_bytes(m.group(4))))
            if bad or sum(len(x) for x in live) > 20000:
                continue
            out.append((case, hops, live, nxt))
        if len(out) >= limit:
            break
    return out


def run(coqdir, parsed, pid, limit=24):
    """-> dict(cases=n, disagreeing=[case names], seconds=s, log=text)"""
    chosen = pick(parsed, limit)
    if not chosen:
        return dict(cases=0, disagreeing=[], seconds=0.0, log='no history of this run lies inside the slice')
    d = os.path.join(coqdir, 'Cases')
    os.makedirs(d, exist_ok=True)
    path = os.path.join(d, 'cases_%s_%d.v' % (pid, os.getpid()))
    with open(path, 'w') as fh:
        fh.write('From KV Require Import Base Hash Model Spec SpecFacts LogInv History XHistory.\n')
        fh.write('Definition cases : list (nat * list xop * (option (list msg) * Z)) := [\n')
        fh.write(';\n'.join('  (%d%%nat, [%s], (%s, %s))' % (i, '; '.join(h), 'None' if l is None else 'Some [%s]' % '; '.join(l), coq_z(n))
                            for i, (_, h, l, n) in enumerate(chosen)))
        fh.write('].\n')
        fh.write('Definition agrees (c : nat * list xop * (option (list msg) * Z)) : bool :=\n'
                 '  let a := abs (fold_left (fun s o => fst (xh_step fnv64a s o)) (snd (fst c)) init_state) in\n'
                 '  match fst (snd c) with Some l => list_eqb msg_eqb (live a) l | None => true end && (anext a =? snd (snd c)).\n')
        fh.write('Definition disagreeing : list nat := map (fun c => fst (fst c)) (filter (fun c => negb (agrees c)) cases).\n')
        fh.write('Eval vm_compute in disagreeing.\n')
    t0 = time.time()
    p = subprocess.run('timeout 600 coqc -Q . KV Cases/%s' % os.path.basename(path), cwd=coqdir, shell=True,
                       stdout=subprocess.PIPE, stderr=subprocess.STDOUT, text=True)
    dt = time.time() - t0
    out = p.stdout
    for ext in ('.v', '.vo', '.vok', '.vos', '.glob'):
        try:
            os.remove(path[:-2] + ext)
        except OSError:
            pass
    try:
        os.remove(os.path.join(d, '.' + os.path.basename(path)[:-2] + '.aux'))
    except OSError:
        pass
    m = re.search(r'=\s*\[(.*?)\]\s*:\s*list nat', out, flags=re.S)
    if p.returncode != 0 or not m:
        return dict(cases=len(chosen), disagreeing=['<coqc failed>'], seconds=dt, log=out[-1500:])
    idx = [int(x.replace('%nat', '')) for x in re.findall(r'\d+(?:%nat)?', m.group(1))]
    return dict(cases=len(chosen), disagreeing=[chosen[i][0] for i in idx if i < len(chosen)], seconds=dt, log='')
