"""C07: Recover keeps exactly the valid prefix; Check accepts exactly the clean segments.
Byte-level: heads built by the Coq encoder, damaged in every enumerated way, given to the real
Segment.Check / Segment.Recover and to the model (Codec.check_bytes / recover_bytes); the implementation's
answers are evaluated by the encoder-based checkers of RecoverSpec.v."""
import os
import random
import re
import shutil
import subprocess

import codec
import kv


def model_lines(lines, tag):
    """run kvmodel codec on lines, return results in order"""
    d = kv.workdir(tag)
    try:
        p = os.path.join(d, 'm.codec')
        open(p, 'w').write('\n'.join(lines) + '\n')
        r = subprocess.run([kv.KVMODEL, 'codec', p], stdout=subprocess.PIPE, text=True, timeout=3600)
        out = [l[2:] for l in r.stdout.split('\n') if l.startswith('= ')]
        if len(out) != len(lines):
            raise kv.Broken('kvmodel codec produced %d results for %d lines' % (len(out), len(lines)))
        return out
    finally:
        shutil.rmtree(d, ignore_errors=True)


def build_heads(rng, n):
    """-> list of dict(v, iv, t, k, base, msgs, log, idx, recsizes)"""
    specs, lines = [], []
    for i in range(n):
        v = 2 if i % 3 != 2 else 1
        iv = v if rng.random() < 0.8 else 3 - v
        t, k = [(1, 1), (0, 0), (1, 0), (0, 1)][i % 4]
        base = rng.choice([0, 0, 7, 1000])
        # every fifth head has times that go back and forth (the index timestamp is the running maximum)
        nonmono = i % 4 == 2 or i % 5 == 1
        cnt = rng.choice([3, 4, 5]) if nonmono else rng.choice([1, 2, 3, 4])
        tcur = rng.randrange(0, 1000)
        msgs = []
        for j in range(cnt):
            tcur = max(0, tcur + (rng.choice([-9, -4, -2, 3, 6]) if nonmono else rng.choice([0, 1, 5])))
            msgs.append('%d|%d|%s|%s' % (base + j * rng.choice([1, 1, 2]) if j else base, tcur,
                                         codec.rnd_bytes(rng, rng.choice([0, 1, 3, 8])),
                                         codec.rnd_bytes(rng, rng.choice([0, 2, 5, 12, 30]))))
        # offsets must increase
        fixed, last = [], None
        for m in msgs:
            o, rest = m.split('|', 1)
            o = int(o)
            if last is not None and o <= last:
                o = last + 1
            last = o
            fixed.append('%d|%s' % (o, rest))
        specs.append(dict(v=v, iv=iv, t=t, k=k, base=base, msgs=fixed))
        lines.append('mkseg %d %d %d %d %d %s' % (v, iv, t, k, base, ' '.join(fixed)))
    outs = model_lines(lines, 'heads')
    for s, o in zip(specs, outs):
        s['log'], s['idx'] = o.split()
        ov = 36 if s['v'] == 2 else 28
        s['recsizes'] = [ov + hexlen(m.split('|')[2]) + hexlen(m.split('|')[3]) for m in s['msgs']]
    return specs


def hexlen(h):
    return 0 if h == '-' else len(h) // 2


def hx_cut(h, n):
    return h[:2 * n] if n > 0 else '-'


def hx_set(h, pos, val):
    return h[:2 * pos] + '%02x' % val + h[2 * pos + 2:]


def damages(rng, s, tier):
    """-> list of (kind, loghex, idxhex)"""
    L, I = s['log'], s['idx']
    ln, il = hexlen(L), hexlen(I)
    hdr = 8 if s['v'] == 2 else 0
    out = [('clean', L, I), ('clean-noindex', L, 'none')]
    # truncation at every length (0, or at/after the file header)
    for n in [0] + list(range(hdr, ln)):
        if s['v'] == 1 and n == 0:
            pass
        out.append(('trunc@%d' % n, hx_cut(L, n), I))
        if n % 7 == 0:
            out.append(('trunc-noidx@%d' % n, hx_cut(L, n), 'none'))
    if s['v'] == 2:
        # single-byte corruption at every position after the file header
        for pos in range(hdr, ln):
            orig = int(L[2 * pos:2 * pos + 2], 16)
            vals = {orig ^ 0x01, orig ^ 0x80, (orig + 1 + rng.randrange(254)) % 256}
            if tier == 'thorough' and pos % 5 == 0:
                vals = set(range(256))
            vals.discard(orig)
            for v in vals:
                out.append(('flip@%d' % pos, hx_set(L, pos, v), I))
        # tails of every length up to two records
        two = sum(s['recsizes'][:2]) if len(s['recsizes']) >= 2 else 2 * s['recsizes'][0]
        for n in range(1, two + 1):
            if n > 45 and n % 3 and tier == 'quick':
                continue
            for kind, fill in (('zero', '00' * n), ('ff', 'ff' * n), ('rnd', codec.rnd_bytes(rng, n))):
                out.append(('tail-%s+%d' % (kind, n), (L if L != '-' else '') + fill, I))
    # index damage
    if I not in ('-', 'none'):
        for n in range(0, il):
            out.append(('idx-trunc@%d' % n, L, hx_cut(I, n)))
        for pos in range(0, il):
            orig = int(I[2 * pos:2 * pos + 2], 16)
            out.append(('idx-flip@%d' % pos, L, hx_set(I, pos, orig ^ (1 << rng.randrange(8)))))
        isz = 16 + 8 * s['t'] + 8 * s['k']
        out.append(('idx-extra-item', L, I + I[-2 * isz:]))
        out.append(('idx-extra-zero', L, I + '00' * isz))
        # a complete index followed by part of one more item (what a torn index append leaves)
        for r in (range(1, isz) if tier == 'thorough' else (1, isz // 2, isz - 1)):
            out.append(('idx-extra-bytes+%d' % r, L, I + (I[-2 * isz:] if rng.random() < 0.5 else codec.rnd_bytes(rng, isz))[:2 * r]))
    return out


def c07_extra(pid, tier, seed):
    rng = random.Random(codec.kv_seed(seed, 'c07'))
    heads = build_heads(rng, 6 if tier == 'quick' else 60)
    lines, kinds = [], {}
    for s in heads:
        for kind, L, I in damages(rng, s, tier):
            for op in ('check', 'recover'):
                line = '%s %d %d %d %s %s' % (op, s['t'], s['k'], s['base'], L, I)
                if line not in kinds:
                    kinds[line] = kind
                    lines.append(line)
    res = codec.run_codec(lines, 'c07-' + pid)
    viol = []
    # correspondence
    mism = [(op, impl, model) for op, impl, model in res if impl != model]
    # P on the implementation output
    pf = pcheck_codec(res, 'c07p-' + pid)
    # phase 2: after Recover, Check succeeds and keeps succeeding after further appends
    lines2 = []
    for op, impl, model in res:
        f = op.split()
        if f[0] == 'recover' and impl.startswith('ok '):
            t = [x for x in impl.split() if not x.startswith('steps=')]
            if len(t) == 3:
                lines2.append('check %s %s %s %s %s' % (f[1], f[2], f[3], t[1], t[2]))
                if len(lines2) % 5 == 0:
                    m1 = '%d|%s|%s' % (rng.randrange(2000, 3000), codec.rnd_bytes(rng, 3), codec.rnd_bytes(rng, 6))
                    lines2.append('pubseg %s %s %s %s %s %s' % (f[1], f[2], f[3], t[1], t[2], m1))
    lines2 = list(dict.fromkeys(lines2))
    res2 = codec.run_codec(lines2, 'c07b-' + pid) if lines2 else []
    mism += [(op, impl, model) for op, impl, model in res2 if impl != model]
    after = []
    lines3 = []
    for op, impl, model in res2:
        f = op.split()
        if f[0] == 'check' and impl != 'ok':
            after.append(('P', '# C07 violated: Check fails on the result of Recover\n# %s\n# -> %s\n' % (op[:400], impl)))
        if f[0] == 'pubseg':
            if not impl.startswith('ok '):
                after.append(('P', '# C07 violated: the recovered segment cannot be opened and appended to\n# %s\n# -> %s\n' % (op[:400], impl)))
            else:
                t = impl.split()
                lines3.append('check %s %s %s %s %s' % (f[1], f[2], f[3], t[1], t[2]))
    res3 = codec.run_codec(lines3, 'c07c-' + pid) if lines3 else []
    for op, impl, model in res3:
        if impl != 'ok':
            after.append(('P', '# C07 violated: Check fails after appending to a recovered segment\n# %s\n# -> %s\n' % (op[:400], impl)))
    for f in pf:
        viol.append(('P', '# C07 violated: clause %s (damage: %s)\n# failing call and result:\n%s\n' % (
            f['clause'], kinds.get(f['opline'], '?'), f['detail'])))
    viol += after
    if not viol and mism:
        op, impl, model = mism[0]
        viol.append(('corr', '# correspondence corr:C07 no longer checks (damage: %s)\n# op: %s\n# implementation: %s\n# model: %s\n' % (
            kinds.get(op, '?'), op[:600], impl[:300], model[:300])))
    dist = {}
    for l in lines:
        k = re.sub(r'[@+].*', '', kinds[l])
        dist[k] = dist.get(k, 0) + 1
    cov = dict(recover=dict(heads=len(heads), damaged_inputs=len(lines), recheck_after_recover=len(lines2),
                            check_after_append=len(lines3), correspondence_mismatches=len(mism),
                            checker_failures=len(pf) + len(after), damage_distribution=dist,
                            rule='heads of 1-4 random messages x 4 index configs (V2; V1 for truncation only); every truncation '
                                 'length, every single-byte corruption position after the header (3 values; all 255 on a subset in '
                                 'thorough), zero/0xFF/random tails up to two records, index missing / every truncation / a flipped '
                                 'bit in every byte / extra items'))
    return viol, cov


def pcheck_codec(res, tag):
    """evaluate the RecoverSpec checkers on the implementation's outputs"""
    d = kv.workdir(tag)
    try:
        p = os.path.join(d, 'impl.out')
        with open(p, 'w') as fh:
            for op, impl, model in res:
                fh.write(op + '\n= ' + impl + '\n')
        r = subprocess.run([kv.KVMODEL, 'ccheck', p], stdout=subprocess.PIPE, text=True, timeout=3600)
        fails = []
        ops = [op for op, _, _ in res]
        impls = [i for _, i, _ in res]
        for line in r.stdout.split('\n'):
            m = re.match(r'^PFAIL case=codec line=(\d+) prop=C07 clause=(\S+)', line)
            if m:
                idx = (int(m.group(1)) - 2) // 2
                fails.append(dict(clause=m.group(2), opline=ops[idx], detail='%s\n= %s' % (ops[idx], impls[idx])))
        return fails
    finally:
        shutil.rmtree(d, ignore_errors=True)
