"""Byte-level correspondence: the implementation's writers/readers against the Coq encoders/decoders."""
import concurrent.futures as cf
import os
import random
import shutil
import subprocess

import kv

I64MIN, I64MAX = -(1 << 63), (1 << 63) - 1


def rnd_bytes(rng, n):
    return ''.join('%02x' % rng.randrange(256) for _ in range(n)) if n else '-'


def rnd_len(rng):
    return rng.choice([0, 0, 1, 2, 3, 7, 8, 9, 31, 32, 33, 100, 255, 256, 300])


def rnd_i64(rng):
    return rng.choice([0, 1, -1, 100, I64MIN, I64MAX, I64MIN + 1, I64MAX - 1, 1 << 31, (1 << 32) + 5, -(1 << 40),
                       rng.randrange(I64MIN, I64MAX), rng.randrange(-10**6, 10**6), rng.randrange(0, 2 * 10**15)])


def rnd_msg(rng, off=None):
    return '%d|%d|%s|%s' % (rnd_i64(rng) if off is None else off, rnd_i64(rng), rnd_bytes(rng, rnd_len(rng)),
                            rnd_bytes(rng, rnd_len(rng)))


def run_codec(lines, tag, kvrun=kv.KVRUN):
    """runs the same codec file on both sides; returns list of (op, impl, model)"""
    d = kv.workdir(tag)
    try:
        n = max(1, min(kv.NCPU, len(lines) // 20 + 1))
        paths = []
        for i in range(n):
            p = os.path.join(d, 'c%02d.codec' % i)
            with open(p, 'w') as fh:
                fh.write('\n'.join(lines[i::n]) + '\n')
            paths.append(p)
        env = dict(os.environ, KV_WORK=os.path.join(d, 'dirs'))
        os.makedirs(env['KV_WORK'], exist_ok=True)

        def one(args):
            exe, p, outp, e = args
            with open(outp, 'w') as fh:
                r = subprocess.run([exe, 'codec', p], stdout=fh, stderr=subprocess.PIPE, text=True, env=e,
                                   timeout=3600)
            if r.returncode != 0:
                raise kv.Broken('%s codec failed: %s' % (exe, r.stderr[-1500:]))

        jobs = [(kvrun, p, p + '.impl', env) for p in paths] + [(kv.KVMODEL, p, p + '.model', None) for p in paths]
        with cf.ThreadPoolExecutor(kv.NCPU) as ex:
            list(ex.map(one, jobs))
        out = []
        for p in paths:
            a = [l.rstrip('\n') for l in open(p + '.impl')]
            b = [l.rstrip('\n') for l in open(p + '.model')]
            if len(a) != len(b):
                raise kv.Broken('codec outputs differ in length')
            for i in range(0, len(a) - 1):
                if a[i + 1].startswith('= ') and not a[i].startswith('= '):
                    out.append((a[i], a[i + 1][2:], b[i + 1][2:]))
        return out
    finally:
        if not os.environ.get('KV_KEEP'):
            shutil.rmtree(d, ignore_errors=True)


def c13_extra(pid, tier, seed):
    """(a) bytes written by the implementation == documented layout (Coq encoder);
       (b) bytes of the Coq encoder are read back identically by both reader kinds; index files likewise"""
    rng = random.Random(kv_seed(seed, 'c13codec'))
    n = 500 if tier == 'quick' else 12000
    enc_lines, meta = [], []
    for i in range(n):
        v = rng.choice([1, 2])
        k = rng.choice([0, 1, 1, 2, 3, 5])
        base = rng.choice([0, 0, 5, 1000, rnd_i64(rng)])
        msgs = []
        for j in range(k):
            # V1 files are recognised by first offset == base
            off = base if (j == 0 and v == 1) else (rnd_i64(rng) if (rng.random() < 0.5 or base + j > I64MAX) else base + j)
            msgs.append(rnd_msg(rng, off))
        enc_lines.append(('enc %d %d %s' % (v, base, ' '.join(msgs))).strip())
        meta.append((v, base, msgs))
    res = run_codec(enc_lines, 'codec-' + pid)
    viol = []
    dec_lines, expect = [], []
    byop = {op: (impl, model) for op, impl, model in res}
    nbytes = 0
    for line, (v, base, msgs) in zip(enc_lines, meta):
        impl, model = byop[line]
        nbytes += len(model) // 2
        if impl != model:
            viol.append(('P', '# C13 violated: the bytes written by message.Writer differ from the documented layout\n'
                              '# op: %s\n# implementation: %s\n# documented layout (Codec.enc_log): %s\n' % (line, impl, model)))
            continue
        hx = model.split()[0]
        if hx != '-' and len(msgs) > 0:
            for kind in ('file', 'mem'):
                dec_lines.append('dec %d %s %s' % (base, hx, kind))
                pos = model.split()[1].split(',')
                want = 'v%d eof@%d' % (v, len(hx) // 2) + ''.join(' %s:%s' % (p, canon(m)) for p, m in zip(pos, msgs))
                expect.append(want)
    res2 = run_codec(dec_lines, 'codec2-' + pid) if dec_lines else []
    byop2 = {op: (impl, model) for op, impl, model in res2}
    for line, want in zip(dec_lines, expect):
        impl, model = byop2[line]
        if impl != want:
            viol.append(('P', '# C13 violated: a file written by an independent encoder of the documented layout is not read back '
                              'identically\n# op: %s\n# implementation read: %s\n# written messages:    %s\n' % (line, impl, want)))
        elif impl != model:
            viol.append(('corr', '# correspondence corr:C13/dec: decoder model and implementation disagree\n# op: %s\n# impl: %s\n# model: %s\n'
                         % (line, impl, model)))
    # index files
    ilines = []
    for i in range(n // 2):
        v = rng.choice([1, 2])
        t, k = rng.choice([0, 1]), rng.choice([0, 1])
        base = rng.choice([0, 7, rnd_i64(rng)])
        cnt = rng.choice([0, 1, 2, 3, 6])
        items = []
        for j in range(cnt):
            off = base if (j == 0 and v == 1) else rnd_i64(rng)
            items.append('%d|%d|%d|%d' % (off, rnd_i64(rng), rnd_i64(rng) if t else 0,
                                          rng.randrange(0, 1 << 64) if k else 0))
        ilines.append(('ienc %d %d %d %d %s' % (v, t, k, base, ' '.join(items))).strip())
    # a few large index files, in each of the four layouts: more items than fit any internal buffer of the writer
    for t, k in ((0, 0), (1, 0), (0, 1), (1, 1)):
        for cnt in ((3000,) if tier == 'quick' else (3000, 8200)):
            v = rng.choice([1, 2])
            items = ['%d|%d|%d|%d' % (j, 8 + 40 * j, 1000 + j if t else 0, rng.randrange(0, 1 << 64) if k else 0)
                     for j in range(cnt)]
            ilines.append('ienc %d %d %d 0 %s' % (v, t, k, ' '.join(items)))
    res3 = run_codec(ilines, 'codec3-' + pid)
    idec, iexp = [], []
    for op, impl, model in res3:
        if impl != model:
            viol.append(('P', '# C13 violated: index bytes written differ from the documented layout\n# op: %s\n# implementation: %s\n# documented: %s\n'
                         % (op, impl, model)))
        else:
            f = op.split()
            if model != '-' and len(f) > 5:
                idec.append('idec %s %s %s %s' % (f[2], f[3], f[4], model))
                iexp.append('ok ' + ' '.join(f[5:]))
    res4 = run_codec(idec, 'codec4-' + pid) if idec else []
    byop4 = {op: (impl, model) for op, impl, model in res4}
    for line, want in zip(idec, iexp):
        impl, model = byop4[line]
        if impl != want:
            viol.append(('P', '# C13 violated: index file of the documented layout not read back identically\n# op: %s\n# impl: %s\n# want: %s\n'
                         % (line, impl, want)))
    # whole segments written by the independent encoder - the log file and the index DERIVED from it (offset, position,
    # running-maximum timestamp, FNV-1a-64 of the key; the empty key included) - must pass Segment.Check, and Recover
    # must leave them byte for byte as they are
    import recov
    seg_lines, seg_meta = [], []
    for i in range(n // 5):
        v = rng.choice([1, 2])
        iv = rng.choice([1, 2])
        t, k = rng.choice([0, 1]), rng.choice([0, 1, 1])
        base = rng.choice([0, 0, 9, 100000])
        cnt = rng.choice([1, 2, 3, 5])
        off, tcur, msgs = base, rng.randrange(0, 5000), []
        for j in range(cnt):
            tcur += rng.choice([0, 0, 1, 7])
            key = '-' if rng.random() < 0.35 else rnd_bytes(rng, rng.choice([1, 2, 8, 20]))
            msgs.append('%d|%d|%s|%s' % (off, tcur, key, rnd_bytes(rng, rng.choice([0, 1, 9, 40]))))
            off += rng.choice([1, 1, 1, 3])
        seg_lines.append('mkseg %d %d %d %d %d %s' % (v, iv, t, k, base, ' '.join(msgs)))
        seg_meta.append((t, k, base))
    seg_out = recov.model_lines(seg_lines, 'c13seg-' + pid) if seg_lines else []
    chk_lines = []
    for (t, k, base), o in zip(seg_meta, seg_out):
        L, I = o.split()
        chk_lines.append('check %d %d %d %s %s' % (t, k, base, L, I))
        chk_lines.append('recover %d %d %d %s %s' % (t, k, base, L, I))
    chk_lines = list(dict.fromkeys(chk_lines))
    res5 = run_codec(chk_lines, 'codec5-' + pid) if chk_lines else []
    for op, impl, model in res5:
        f = op.split()
        if f[0] == 'check' and impl != 'ok':
            viol.append(('P', '# C13 violated: a segment written by an independent encoder of the documented layout (log file and the '
                              'index derived from it) does not pass Check\n# op: %s\n# implementation: %s\n' % (op[:600], impl)))
        elif f[0] == 'recover' and impl.split()[:3] != ['ok', f[4], f[5]]:
            viol.append(('P', '# C13 violated: Recover changes a segment written by an independent encoder of the documented layout\n'
                              '# op: %s\n# implementation: %s\n' % (op[:600], impl[:600])))
        elif impl != model:
            viol.append(('corr', '# correspondence corr:C13/segment: model and implementation disagree\n# op: %s\n# impl: %s\n# model: %s\n'
                         % (op[:600], impl[:300], model[:300])))
    cov = dict(codec=dict(record_files_encoded=len(enc_lines), bytes_compared=nbytes, files_decoded=len(dec_lines),
                          encoder_written_segments_checked=len(seg_lines),
                          index_files_encoded=len(ilines), index_files_decoded=len(idec),
                          rule='messages with key/value lengths 0..300, times and offsets over the int64 range incl. '
                               'negative and extremes, V1 and V2, file and mmap readers, four index layouts x two versions'))
    return viol, cov


def c17_extra(pid, tier, seed):
    """Segment.Migrate on encoder-written segments: the migrated files must be exactly what the independent encoder writes
    for the same messages in the target version (every message kept, the index derived from the new positions), a second
    Migrate to the same version must do nothing; bytes and file-system steps are compared with RecoverCrash.migrate_prog."""
    import recov
    rng = random.Random(kv_seed(seed, 'c17mig'))
    n = 120 if tier == 'quick' else 3000
    seg_lines, tgt_lines, meta = [], [], []
    for i in range(n):
        v = rng.choice([1, 2])
        mv = 3 - v if rng.random() < 0.85 else v
        iv, iv2 = rng.choice([1, 2]), rng.choice([1, 2])
        t, k = rng.choice([0, 1]), rng.choice([0, 1])
        base = rng.choice([0, 0, 9, 100000])
        cnt = rng.choice([0, 1, 2, 3, 5]) if v == 2 else rng.choice([1, 2, 3, 5])
        off, tcur, msgs = base, rng.randrange(0, 5000), []
        for j in range(cnt):
            tcur += rng.choice([0, 0, 1, 7])
            key = '-' if rng.random() < 0.3 else rnd_bytes(rng, rng.choice([1, 2, 8, 20]))
            msgs.append('%d|%d|%s|%s' % (off, tcur, key, rnd_bytes(rng, rng.choice([0, 1, 9, 40]))))
            off += rng.choice([1, 1, 1, 3])
        seg_lines.append(('mkseg %d %d %d %d %d %s' % (v, iv, t, k, base, ' '.join(msgs))).strip())
        tgt_lines.append(('mkseg %d %d %d %d %d %s' % (mv, iv2, t, k, base, ' '.join(msgs))).strip())
        meta.append((v, mv, iv2, t, k, base, cnt))
    src = recov.model_lines(seg_lines, 'c17seg-' + pid)
    tgt = recov.model_lines(tgt_lines, 'c17tgt-' + pid)
    lines, want = [], {}
    for (v, mv, iv2, t, k, base, cnt), so, to in zip(meta, src, tgt):
        L, I = so.split()
        if L == '-' and v == 2:
            continue
        withidx = I if cnt % 2 == 0 else 'none'
        line = 'migrate %d %d %d %d %d %s %s' % (mv, iv2, t, k, base, L, withidx)
        TLh = to.split()[0]
        if v != mv and TLh != '-' and rng.random() < 0.4:
            # an earlier migration died half-way: its temporary file holds a prefix of the migrated log
            line += ' stale:' + TLh[:2 * max(1, rng.randrange(0, len(TLh) // 2 + 1))]
        lines.append(line)
        want[line] = (v, mv, to.split(), L, withidx)
    lines = list(dict.fromkeys(lines))
    res = run_codec(lines, 'codec17-' + pid) if lines else []
    viol, again = [], []
    for op, impl, model in res:
        v, mv, (TL, TI), L, I0 = want[op]
        t = impl.split()
        if t[:1] != ['ok'] or len(t) < 3:
            viol.append(('P', '# ' + pid + ' violated: Migrate of a clean segment fails\n# op: %s\n# implementation: %s\n' % (op[:600], impl[:300])))
            continue
        if v == mv:
            if t[1] != L or [x for x in t[3:] if x.startswith('steps=')] != ['steps=']:
                viol.append(('P', '# ' + pid + ' violated: Migrate to the version the segment already has changes it\n# op: %s\n# implementation: %s\n' % (op[:600], impl[:600])))
        elif t[1] != TL or t[2] != TI or any(x.startswith('extra:') for x in t[3:]):
            viol.append(('P', '# ' + pid + ' violated: the migrated segment is not what an independent encoder of the documented layout writes for '
                              'the same messages in the target version (log, derived index, nothing else left behind)\n# op: %s\n# implementation: %s\n'
                              '# encoder: %s %s\n' % (op[:600], impl[:600], TL[:300], TI[:300])))
        elif impl != model:
            viol.append(('corr', '# correspondence corr:C17/migrate-program: bytes or file-system steps of Segment.Migrate differ from '
                                 'RecoverCrash.migrate_prog (theorem C17_migrate_crash_safe)\n# op: %s\n# impl: %s\n# model: %s\n'
                         % (op[:600], impl[-400:], model[-400:])))
        else:
            f = op.split()
            again.append('migrate %s %s %s %s %s %s %s' % (f[1], f[2], f[3], f[4], f[5], t[1], t[2]))
    res2 = run_codec(list(dict.fromkeys(again)), 'codec17b-' + pid) if again else []
    for op, impl, model in res2:
        f = op.split()
        t = impl.split()
        if t[:3] != ['ok', f[6], f[7]] or 'steps=' not in t:
            viol.append(('P', '# ' + pid + ' violated: migrating twice is not the same as once\n# op: %s\n# implementation: %s\n' % (op[:600], impl[:600])))
    cov = dict(segment_migrations=dict(segments=len(lines), migrated_again=len(res2),
                                       rule='encoder-written segments (0-5 messages, both versions, four index layouts, with and '
                                            'without index file) migrated to the other (15%: the same) version with either index '
                                            'version; result compared with the encoder\'s own files for the target version and, '
                                            'bytes and FS steps, with RecoverCrash.migrate_prog'))
    return viol, cov


def c13_both(pid, tier, seed):
    """the codec runs of C13, and the migration of encoder-written segments (a migrated message must read back identical
    and the migrated files must be exactly the documented layout of the target version)"""
    v1, c1 = c13_extra(pid, tier, seed)
    v2, c2 = c17_extra(pid, tier, seed)
    c1.update(c2)
    return v1 + v2, c1


def canon(m):
    o, t, k, v = m.split('|')
    return '%s|%s|%s|%s' % (o, t, k, v)


def kv_seed(seed, tag):
    import hashlib
    return int(hashlib.sha1(('%d/%s' % (seed, tag)).encode()).hexdigest()[:12], 16)


def c20_extra(pid, tier, seed):
    """Segment.Backup of one segment into a target that already holds files under the segment's names, with chosen sizes
    and modification times: the result is compared with BackupFiles.copy_file; and whenever the target's file is a
    prefix of the source's (an empty target, an earlier copy of a file that has since only been appended to, a copy
    that was killed part-way: theorem C20_backup_gives_source) the target must end up with exactly the source's bytes
    and time"""
    rng = random.Random(kv_seed(seed, 'c20bk'))
    n = 300 if tier == 'quick' else 6000
    lines, meta = [], {}

    def tgt_for(src, mt):
        r = rng.random()
        nb = 0 if src == '-' else len(src) // 2
        if r < 0.2:
            return 'none', 0, True
        if r < 0.55:
            k = rng.choice([0, nb // 2, max(0, nb - 1), nb, nb])
            d = src[:2 * k] if k else '-'
            return d, rng.choice([mt, mt, mt + 1, mt - 1, 5000]), True
        if r < 0.8 and nb:
            # same size, other content: not a prefix (only a copy of another file could look like this)
            d = rnd_bytes(rng, nb)
            return d, rng.choice([mt, mt, mt + 1]), d == src
        d = rnd_bytes(rng, rng.choice([1, 5, 30]))
        return d, rng.choice([mt, mt + 1]), (src != '-' and src.startswith(d))
    for i in range(n):
        base = rng.choice([0, 7, 100000])
        sl = rnd_bytes(rng, rng.choice([0, 1, 8, 30, 60])) if rng.random() < 0.9 else '-'
        si = rnd_bytes(rng, rng.choice([0, 8, 24, 40])) if rng.random() < 0.9 else '-'
        sl, si = sl or '-', si or '-'
        mtl, mti = rng.choice([1000, 1001, 2000]), rng.choice([1000, 1001, 2000])
        tl, tmtl, covl = tgt_for(sl, mtl)
        ti, tmti, covi = tgt_for(si, mti)
        line = 'segbk %d %s %s %d %d %s %d %s %d' % (base, sl, si, mtl, mti, tl, tmtl, ti, tmti)
        lines.append(line)
        meta[line] = (sl, mtl, covl, si, mti, covi)
    lines = list(dict.fromkeys(lines))
    res = run_codec(lines, 'codec20-' + pid)
    viol, ncov, nskip = [], 0, 0
    for op, impl, model in res:
        sl, mtl, covl, si, mti, covi = meta[op]
        t = impl.split()
        if t[:1] != ['ok'] or len(t) != 5:
            viol.append(('P', '# ' + pid + ' violated: Backup of a segment fails\n# op: %s\n# implementation: %s\n' % (op[:600], impl[:300])))
            continue
        for what, cov, src, mt, got, gmt in (('log', covl, sl, mtl, t[1], t[2]), ('index', covi, si, mti, t[3], t[4])):
            if cov:
                ncov += 1
                if got != src or int(gmt) != mt:
                    viol.append(('P', '# ' + pid + ' violated: the target held a prefix of the source\'s %s file (or nothing), but after Backup it '
                                      'does not hold the source\'s bytes and time\n# op (codec language: segbk base srclog srcidx mtime mtime '
                                      'tgtlog mtime tgtidx mtime): %s\n# implementation: %s\n# source: %s %d\n' % (what, op[:800], impl[:600], src[:300], mt)))
                    break
        else:
            if impl != model:
                viol.append(('corr', '# correspondence corr:C20/copy no longer checks: Segment.Backup differs from BackupFiles.copy_file '
                                     '(theorems C20_backup_gives_source / C20_backup_after_killed_backup)\n# op: %s\n# impl: %s\n# model: %s\n'
                             % (op[:600], impl[:400], model[:400])))
    cov = dict(segment_backups=dict(segments=len(lines), files_whose_target_was_a_prefix=ncov,
                                    rule='one segment (random bytes, three modification times) backed up into a directory that holds '
                                         'nothing / a prefix of the file (any length, same or other mtime) / a file of the same size with '
                                         'other content / something else under its names; result bytes and mtimes compared with '
                                         'BackupFiles.copy_file; prefix targets must end as the source'))
    return viol, cov
