"""C05 / C06: every crash image (directory after each FS mutation, torn variants of appends) of a workload is
recovered on the implementation; the recovered log is (P) checked against what had been acknowledged, and
(correspondence) compared with the model's recovery of the same image bytes."""
import concurrent.futures as cf
import os
import random
import re
import shutil
import subprocess

import codec
import kv


def rnd_val(rng):
    return codec.rnd_bytes(rng, rng.choice([1, 2, 5, 12]))


def workloads(rng, tier):
    """-> list of (name, ops).  Index configuration / version redrawn per workload."""
    wl = []
    n = 1 if tier == 'quick' else 12
    for rep in range(n):
        for keys, times, back in ((1, 1, 0), (0, 0, 0), (0, 1, 1)) if tier == 'quick' else \
                ((1, 1, 0), (0, 0, 0), (1, 0, 0), (0, 1, 0), (1, 1, 1), (0, 1, 1)):
            ver = rng.choice([2, 2, 1]) if tier != 'quick' else 2

            def op_open(roll, rec=0, v=ver, keep=0, eager=0, autosync=0):
                return 'open 0 %d %d %d %d 0 %d %d %d %d' % (keys, times, autosync, roll, rec, v, keep, eager)
            t = [100]
            # the 'b' profiles publish times that go back and forth (the index timestamp is the running maximum,
            # whoever writes the index: Publish, Recover, the rewrite of a Delete, Migrate)
            steps = [-3, 0, 2, 5] if back else [0, 1]

            def m(k=None):
                t[0] = max(1, t[0] + rng.choice(steps))
                return '%d|%s|%s' % (t[0], k or rng.choice(['61', '62', '-', '6100', '=']), rnd_val(rng))
            tag = 'k%dt%d%sv%d.%d' % (keys, times, 'b' if back else '', ver, rep)
            # publish with rollover
            wl.append(('pub-' + tag, [op_open(90), 'pub ' + m() + ' ' + m(), 'pub ' + m(), 'pub ' + m() + ' ' + m() + ' ' + m(),
                                       'sync', 'pub ' + m(), 'close']))
            # delete in a reader segment: same base / rebase / empty
            base = [op_open(90), 'pub ' + m() + ' ' + m() + ' ' + m(), 'pub ' + m() + ' ' + m(), 'pub ' + m()]
            wl.append(('delr-mid-' + tag, base + ['del 1', 'close']))
            wl.append(('delr-first-' + tag, base + ['del 0', 'close']))
            wl.append(('delr-first2-' + tag, base + ['del 0,2', 'close']))
            wl.append(('delr-all-' + tag, base + ['del 0,1,2', 'close']))
            # delete in the head: middle / first / tail / all
            hbase = [op_open(100000), 'pub ' + m() + ' ' + m() + ' ' + m() + ' ' + m()]
            wl.append(('delh-mid-' + tag, hbase + ['del 1', 'pub ' + m(), 'close']))
            wl.append(('delh-first-' + tag, hbase + ['del 0', 'pub ' + m(), 'close']))
            wl.append(('delh-first2-' + tag, hbase + ['del 0,2', 'pub ' + m(), 'close']))
            wl.append(('delh-tail-' + tag, hbase + ['del 3', 'pub ' + m(), 'close']))
            wl.append(('delh-all-' + tag, hbase + ['del 0,1,2,3', 'pub ' + m(), 'close']))
            # the newest message deleted after a Sync, with sealed segments behind the head: the empty head created at
            # NextOffset is then the only record of it (in format V1 an empty file: no header to fsync)
            for v2 in sorted({ver, 1}):
                wl.append(('delt-synced-v%d-' % v2 + tag, [op_open(90, v=v2), 'pub ' + m() + ' ' + m(), 'pub ' + m() + ' ' + m(), 'pub ' + m(),
                                                          'sync', 'del 4', 'close']))
            # trims: a bound inside a sealed segment (the survivors get a new base), a count that spans segments
            wl.append(('trimo-mid-' + tag, base + ['trimo 1', 'close']))
            wl.append(('trimc-' + tag, base + ['trimc 2', 'close']))
            # reopen with eager migration, and Migrate
            # (three publishes: the first segment is sealed, its migration is not repaired by the recovery of the head)
            wl.append(('migrate-' + tag, [op_open(90, v=1), 'pub ' + m() + ' ' + m(), 'pub ' + m() + ' ' + m(), 'pub ' + m(), 'close',
                                          op_open(90, v=2, eager=1), 'pub ' + m(), 'close']))
            # klevdb.Migrate on the closed directory, in either direction
            mv = rng.choice([1, 2])
            wl.append(('migratedir-' + tag, [op_open(90, v=3 - mv), 'pub ' + m() + ' ' + m(), 'pub ' + m() + ' ' + m(), 'pub ' + m(), 'close',
                                             'migrate %d' % mv, op_open(90, v=mv), 'pub ' + m(), 'close']))
            # lazy reindex after removing index files
            wl.append(('reindex-' + tag, base + ['close', 'rmindex all', op_open(90), 'probe scan', 'close']))
            # Recover itself (depth 2): a torn tail, then Open(Recover) whose own steps are crash points
            wl.append(('d2-recover-' + tag, [op_open(100000), 'pub ' + m() + ' ' + m(), 'pub ' + m(), 'close', 'tear 5',
                                             op_open(100000, rec=1), 'pub ' + m(), 'close']))
            # AutoSync publish
            wl.append(('autosync-' + tag, [op_open(90, autosync=1), 'pub ' + m() + ' ' + m(), 'pub ' + m(), 'del 0', 'close']))
            if back and tier == 'quick':
                # the every-change tier keeps a few of them
                keep = ('pub-', 'delh-mid-', 'delh-tail-', 'delr-mid-', 'd2-recover-')
                wl = [x for x in wl if not x[0].endswith(tag) or x[0].startswith(keep)]
    return wl


def run_crash(cases, tag):
    d = kv.workdir(tag)
    paths = kv.write_shards(cases, d)
    env = dict(os.environ, KV_WORK=os.path.join(d, 'dirs'))
    os.makedirs(env['KV_WORK'], exist_ok=True)

    def one(p):
        with open(p + '.impl', 'w') as fh:
            r = subprocess.run([kv.KVRUN, 'crash', p], stdout=fh, stderr=subprocess.PIPE, text=True, env=env, timeout=3600)
        if r.returncode != 0:
            raise kv.Broken('kvrun crash failed: ' + r.stderr[-1500:])
        # the ops alone, for the model
        with open(p + '.ops', 'w') as fo:
            for line in open(p + '.impl'):
                if not line.startswith('= ') and not line.startswith('#'):
                    fo.write(line)
        with open(p + '.model', 'w') as fh:
            r = subprocess.run([kv.KVMODEL, 'hist', p + '.ops'], stdout=fh, stderr=subprocess.PIPE, text=True, timeout=3600)
        if r.returncode != 0:
            raise kv.Broken('kvmodel hist failed: ' + r.stderr[-1500:])
        with open(p + '.pcheck', 'w') as fh:
            subprocess.run([kv.KVMODEL, 'check', p + '.impl'], stdout=fh, stderr=subprocess.PIPE, text=True, timeout=3600)
        # the file-system program of every Delete according to CrashDir.v (the workloads themselves, not the images)
        with open(p + '.delprog', 'w') as fh:
            subprocess.run([kv.KVMODEL, 'delprog', p], stdout=fh, stderr=subprocess.PIPE, text=True, timeout=3600)
    with cf.ThreadPoolExecutor(kv.NCPU) as ex:
        list(ex.map(one, paths))
    return d, paths


MSGRE = re.compile(r'(-?\d+)\|(-?\d+)\|([0-9a-f-]+)\|([0-9a-f-]+)')


def parse_impl(path):
    """-> {case: dict(header, ops=[(op,[res])])}"""
    cases, cur = {}, None
    for line in open(path):
        line = line.rstrip('\n')
        if line.startswith('case '):
            cur = dict(header='', ops=[])
            cases[line[5:]] = cur
        elif line.startswith('#'):
            cur['header'] = line[1:]
        elif line.startswith('= '):
            cur['ops'][-1][1].append(line[2:])
        elif line:
            cur['ops'].append((line, []))
    return cases


def acked_states(run_ops):
    """abstract log after each op of the original run, from the implementation's own reports:
    list of (live: {off: msgstr}, next)"""
    live, nxt = {}, 0
    states = [(dict(live), nxt)]
    for op, res in run_ops:
        f = op.split()
        r = res[0].split() if res else []
        if f[0] == 'pub' and r[:1] == ['ok']:
            offs = [int(x) for x in r[2:]]
            for o, mtok in zip(offs, f[1:]):
                t, k, v = mtok.split('|')
                # '=' (empty but not nil) is the same key or value as '-' (nil) and reads back as '-'
                live[o] = '%d|%s|%s|%s' % (o, t, '-' if k == '=' else k, '-' if v == '=' else v)
            nxt = int(r[1])
        elif f[0] in ('del', 'delm') or f[0].startswith('trim') or f[0] in ('cupd', 'cdel', 'compact'):
            for mm in MSGRE.finditer(res[0] if res else ''):
                live.pop(int(mm.group(1)), None)
        elif f[0] == 'tear' and live:
            # a simulated torn write: the newest record is destroyed
            live.pop(max(live))
            nxt = (max(live) + 1) if live else 0
        states.append((dict(live), nxt))
    return states


def scan_of(ops, which=0):
    """the which-th 'probe scan' of an image transcript -> (list of msg strings, next) or None"""
    n = -1
    for op, res in ops:
        if op == 'probe scan':
            n += 1
            if n == which:
                msgs, nxt = [], None
                for r in res:
                    if r.startswith('next => ok'):
                        nxt = int(r.split()[3])
                    elif r.startswith('scan') and ' => ok' in r:
                        msgs += [m.group(0) for m in MSGRE.finditer(r)]
                    elif ' => err' in r:
                        return None
                return msgs, nxt
    return None


def files_of(ops, which):
    n = -1
    for op, res in ops:
        if op == 'files':
            n += 1
            if n == which:
                return res
    return None


def p_image(name, img, states, run_ops):
    """the C05 sentence on one recovered image; returns list of (clause, detail)"""
    hdr = dict(kv_.split('=', 1) for kv_ in img['header'].split()[1:] if '=' in kv_)
    i = int(hdr['inflight'])
    A_live, A_next = states[i]
    B_live, B_next = states[i + 1]
    fails = []
    ops = img['ops']
    opens = [r for o, r in ops if o.startswith('open')]
    if not opens or opens[0] != ['ok']:
        return [('recover_open_succeeds', 'Open(Recover) -> %s' % (opens[0] if opens else None))]
    sc = scan_of(ops, 0)
    if sc is None:
        return [('recovered_log_readable', 'scan failed')]
    msgs, nxt = sc
    got = {int(m.split('|')[0]): m for m in msgs}
    opk = run_ops[i][0].split()[0]
    a_list = [A_live[o] for o in sorted(A_live)]
    b_list = [B_live[o] for o in sorted(B_live)]
    if opk == 'pub':
        batch = [B_live[o] for o in sorted(B_live) if o not in A_live]
        ok = msgs[:len(a_list)] == a_list and msgs[len(a_list):] == batch[:len(msgs) - len(a_list)] and len(msgs) >= len(a_list)
        if not ok:
            fails.append(('acked_then_batch_prefix', 'recovered %s; acknowledged %s; batch %s' % (sorted(got), sorted(A_live), [b.split('|')[0] for b in batch])))
    elif opk in ('delm', 'cupd', 'cdel', 'compact') or (opk.startswith('trim') and not opk.startswith('trim1')):
        # a multi-pass helper is a sequence of Deletes, one per segment: some of its passes may be applied - each wholly:
        # whatever is gone was to be removed, whatever was to stay is there, unaltered
        if not (set(b_list) <= set(msgs) <= set(a_list)) or msgs != [m for m in a_list if m in set(msgs)]:
            fails.append(('delete_all_or_nothing', 'recovered %s; before %s; after %s (multi-pass)' % (sorted(got), sorted(A_live), sorted(B_live))))
    elif opk == 'del' or opk.startswith('trim'):
        if msgs != a_list and msgs != b_list:
            fails.append(('delete_all_or_nothing', 'recovered %s; before %s; after %s' % (sorted(got), sorted(A_live), sorted(B_live))))
    else:
        if msgs != a_list and msgs != b_list:
            fails.append(('nothing_else', 'recovered %s; acknowledged %s (in flight: %s)' % (sorted(got), sorted(A_live), run_ops[i][0][:40])))
    if nxt is None or nxt < A_next:
        fails.append(('next_offset_not_backwards', 'recovered NextOffset %s < acknowledged %s' % (nxt, A_next)))
    # recovering again changes nothing
    sc2 = scan_of(ops, 1)
    if sc2 != sc:
        fails.append(('recover_again_same_log', 'second recovery shows %s' % (sc2,)))
    f1, f2 = files_of(ops, 0), files_of(ops, 1)
    if f1 != f2:
        fails.append(('recover_again_same_files', '%s -> %s' % (f1, f2)))
    # can be appended to and still passes Check
    pubs = [r for o, r in ops if o.startswith('pub ')]
    if not pubs or not pubs[-1] or not pubs[-1][0].startswith('ok'):
        fails.append(('appendable_after_recovery', 'publish -> %s' % (pubs[-1] if pubs else None)))
    chk = [r for o, r in ops if o == 'checkall']
    # Check compares index timestamps with the running maximum recomputed from 0; with a time index and times that go
    # back (the 'b' profiles) the writer's carried time makes a clean tree fail it too (DESIGN 12.4): not claimed there
    back_times = re.search(r'k\dt1bv', name) is not None
    if chk and chk[-1] != ['ok'] and not back_times:
        fails.append(('check_after_append', 'Check -> %s' % chk[-1]))
    fails += p_after_append(ops)
    return fails


def p_after_append(ops):
    """what was appended (and closed) after the recovery is still there after the next recovery"""
    sc3, sc4 = scan_of(ops, 2), scan_of(ops, 3)
    if sc3 is not None and sc4 != sc3:
        return [('append_survives_next_recovery', 'after append %s; after the next Recover %s' % (sc3, sc4))]
    return []


def canon_fs_event(hdr):
    """an FS-tap event of a Delete in the language of CrashDir.v, or None for steps that are not part of the swap"""
    kind, path = hdr.get('kind'), hdr.get('path', '')
    if hdr.get('tmp') == '1' or kind not in ('create', 'rename', 'remove'):
        return None

    def nm(x):
        if x.endswith('.log.rewrite.X'):
            return 'T.log'
        if x.endswith('.index.rewrite.X'):
            return 'T.index'
        return x
    if kind == 'rename':
        to = hdr.get('to', '')
        if '.rewrite.' in to or not to:
            return None          # the rewrite's own index written through a temporary file
        return 'rename %s %s' % (nm(path.split(',')[0]), to)
    if kind == 'create' and '.rewrite.' in path:
        return None
    return '%s %s' % (kind, nm(path))


def delete_programs(p, impl):
    """-> (number compared, list of mismatch texts): observed FS steps of each Delete / Publish vs delete_prog / publish_prog of CrashDir.v"""
    model, case = {}, None
    for line in open(p + '.delprog'):
        line = line.rstrip('\n')
        if line.startswith('case '):
            case = line[5:]
        elif line.startswith('delprog '):
            f = line.split(' ', 2)
            model[(case, int(f[1]))] = [x.strip() for x in (f[2] if len(f) > 2 else '').split(';') if x.strip()]
    seen = {}
    for name, img in impl.items():
        if name.endswith('@run') or 'powerloss=' in img['header'] or 'torn' in img['header']:
            continue
        hdr = dict(kv_.split('=', 1) for kv_ in img['header'].split()[1:] if '=' in kv_)
        ev = canon_fs_event(hdr)
        if ev:
            seen.setdefault((name.split('@')[0], int(hdr['inflight'])), []).append((int(hdr['k']), ev))
    n, bad = 0, []
    for key, prog in model.items():
        obs = [e for _, e in sorted(seen.get(key, []))]
        n += 1
        if obs != prog:
            bad.append('workload %s, op %d: implementation performs %s; CrashDir.delete_prog says %s' % (key[0], key[1], obs, prog))
    return n, bad


def durable_programs(p, impl):
    """-> (number compared, mismatch texts): the create / write / fsync steps of every Publish, Sync and Close seen by the
    FS tap vs the steps Durable.v (publish_kinds / sync_kinds) computes for the call"""
    model, case = {}, None
    for line in open(p + '.delprog'):
        line = line.rstrip('\n')
        if line.startswith('case '):
            case = line[5:]
        elif line.startswith('dprog '):
            f = line.split(' ', 2)
            model[(case, int(f[1]))] = [x.strip() for x in (f[2] if len(f) > 2 else '').split(';') if x.strip()]
    seen = {}
    for name, img in impl.items():
        if name.endswith('@run') or 'powerloss=' in img['header'] or 'torn' in img['header']:
            continue
        hdr = dict(kv_.split('=', 1) for kv_ in img['header'].split()[1:] if '=' in kv_)
        kind, path = hdr.get('kind'), hdr.get('path', '')
        if hdr.get('tmp') == '1' or '.rewrite.' in path or kind not in ('create', 'write', 'fsync'):
            continue
        ev = '%s %s' % (kind, path) if kind == 'fsync' else '%s %s %s' % (kind, path, hdr.get('n'))
        seen.setdefault((name.split('@')[0], int(hdr['inflight'])), []).append((int(hdr['k']), ev))
    n, bad = 0, []
    for key, prog in model.items():
        obs = [e for _, e in sorted(seen.get(key, []))]
        n += 1
        if obs != prog:
            bad.append('workload %s, op %d: implementation performs %s; Durable.v says %s' % (key[0], key[1], obs, prog))
    return n, bad


def full_delete_programs(p, impl):
    """-> (number compared, mismatch texts): every file-system step of each Delete seen by the FS tap - the syncs of the
    writing segment, the rewrite with its fsyncs, the swap - vs DurableDelete.delete_full"""
    model, case = {}, None
    for line in open(p + '.delprog'):
        line = line.rstrip('\n')
        if line.startswith('case '):
            case = line[5:]
        elif line.startswith('xprog '):
            f = line.split(' ', 2)
            model[(case, int(f[1]))] = [x.strip() for x in (f[2] if len(f) > 2 else '').split(';') if x.strip()]

    def nm(x):
        if x.endswith('.log.rewrite.X'):
            return 'T.log'
        if x.endswith('.index.rewrite.X'):
            return 'T.index'
        return x
    seen, skip = {}, set()
    for name, img in impl.items():
        if name.endswith('@run') or 'powerloss=' in img['header'] or 'torn' in img['header']:
            continue
        hdr = dict(kv_.split('=', 1) for kv_ in img['header'].split()[1:] if '=' in kv_)
        kind, path = hdr.get('kind'), hdr.get('path', '').split(',')[0]
        key = (name.split('@')[0], int(hdr['inflight']))
        if kind not in ('create', 'write', 'fsync', 'rename', 'remove'):
            continue
        if hdr.get('tmp') == '1':
            # index.Write goes through <file>.tmp: the tap reports its steps under the name of the file it becomes
            if '.rewrite.' not in path:
                skip.add(key)        # the lazy rebuild of a missing segment index inside the call: not part of delete_full
                continue
            if kind in ('remove', 'rename'):
                continue
        if kind == 'fsync':
            ev = 'fsync %s' % nm(path)
        elif kind in ('create', 'write'):
            ev = '%s %s %s' % (kind, nm(path), hdr.get('n'))
        elif kind == 'rename':
            ev = 'rename %s %s' % (nm(path), nm(hdr.get('to', '')))
        else:
            ev = 'remove %s' % nm(path)
        seen.setdefault(key, []).append((int(hdr['k']), ev))
    n, bad = 0, []
    for key, prog in model.items():
        if key in skip:
            continue
        obs = [e for _, e in sorted(seen.get(key, []))]
        n += 1
        if obs != prog:
            bad.append('workload %s, op %d: implementation performs %s; DurableDelete.delete_full says %s' % (key[0], key[1], obs, prog))
    return n, bad


def durable_acks(run_ops):
    """w after each op: the largest offset bound acknowledged as durable (Sync, AutoSync publish, Close)"""
    ws, w, nxt, autosync = [], 0, 0, False
    for op, res in run_ops:
        f = op.split()
        r = res[0].split() if res else []
        if f[0] == 'open' and r[:1] == ['ok']:
            autosync = f[4] == '1'
        elif f[0] == 'pub' and r[:1] == ['ok']:
            nxt = int(r[1])
            if autosync:
                w = max(w, nxt)
        elif f[0] == 'sync' and r[:1] == ['ok']:
            w = max(w, int(r[1]))
        elif f[0] == 'close' and r[:1] == ['ok']:
            w = max(w, nxt)
        elif f[0] == 'tear':
            w = 0
        ws.append(w)
    return ws


def p_image_pl(name, img, states, run_ops):
    """the C06 sentence on one power-loss image"""
    hdr = dict(kv_.split('=', 1) for kv_ in img['header'].split()[1:] if '=' in kv_)
    i = int(hdr['inflight'])
    w = durable_acks(run_ops)[i]
    B_live, B_next = states[i + 1]
    ops = img['ops']
    opens = [r for o, r in ops if o.startswith('open')]
    if not opens or opens[0] != ['ok']:
        return [('recover_open_succeeds', 'Open(Recover) -> %s' % (opens[0] if opens else None))]
    sc = scan_of(ops, 0)
    if sc is None:
        return [('recovered_log_readable', 'scan failed')]
    msgs, nxt = sc
    fails = []
    b_list = [B_live[o] for o in sorted(B_live)]
    must = [B_live[o] for o in sorted(B_live) if o < w]
    if msgs[:len(must)] != must:
        fails.append(('synced_messages_survive', 'w=%d: recovered %s; live below w %s' % (
            w, [m.split('|')[0] for m in msgs], [m.split('|')[0] for m in must])))
    if msgs != b_list[:len(msgs)]:
        fails.append(('survivors_are_a_prefix', 'recovered %s; acknowledged %s' % (
            [m.split('|')[0] for m in msgs], [m.split('|')[0] for m in b_list])))
    if nxt is None or nxt < w:
        fails.append(('next_offset_at_least_synced', 'NextOffset %s < w=%d' % (nxt, w)))
    # Close has returned after the append that followed the recovery: nothing of it may be lost either
    fails += p_after_append(ops)
    return fails


def p_image_mid(name, img, states, run_ops):
    """C06 on a plain crash image (a power loss that happened to lose nothing that was written): whatever was acknowledged
    as durable before the call in flight, and is live both before and after that call, is there after Recover"""
    hdr = dict(kv_.split('=', 1) for kv_ in img['header'].split()[1:] if '=' in kv_)
    i = int(hdr['inflight'])
    acks = durable_acks(run_ops)
    w = acks[i - 1] if i > 0 else 0
    before, after = states[i][0], states[i + 1][0]
    ops = img['ops']
    opens = [r for o, r in ops if o.startswith('open')]
    if not opens or opens[0] != ['ok']:
        return [('recover_open_succeeds', 'Open(Recover) -> %s' % (opens[0] if opens else None))]
    sc = scan_of(ops, 0)
    if sc is None:
        return [('recovered_log_readable', 'scan failed')]
    msgs, nxt = sc
    fails = []
    must = [after[o] for o in sorted(after) if o < w and before.get(o) == after[o]]
    missing = [m for m in must if m not in msgs]
    if missing:
        fails.append(('synced_messages_survive', 'w=%d: recovered %s; acknowledged as durable, live before and after the call in flight, '
                      'but missing: %s' % (w, [m.split('|')[0] for m in msgs], [m.split('|')[0] for m in missing])))
    if nxt is None or nxt < w:
        fails.append(('next_offset_at_least_synced', 'NextOffset %s < w=%d' % (nxt, w)))
    return fails


def c06_extra(pid, tier, seed):
    return crash_extra(pid, tier, seed, powerloss=True)


def c05_extra(pid, tier, seed):
    return crash_extra(pid, tier, seed, powerloss=False)


def crash_extra(pid, tier, seed, powerloss):
    rng = random.Random(codec.kv_seed(seed, 'c05'))
    wl = workloads(rng, tier)
    d, paths = run_crash(wl, 'crash-' + pid)
    known = kv.load_known()
    try:
        viol, nimg, ntorn, mism, nview = [], 0, 0, [], 0
        nprog, progbad = 0, []
        ndur, durbad, nfull = 0, [], 0
        known_hits = {}
        dist = {}
        for p in paths:
            impl = parse_impl(p + '.impl')
            model = kv.parse_out(p + '.model')
            if not powerloss:
                a, b = delete_programs(p, impl)
                nprog += a
                progbad += b
            else:
                a, b = durable_programs(p, impl)
                ndur += a
                durbad += b
                a, b = full_delete_programs(p, impl)
                nfull += a
                durbad += b
            pchk = [l for l in open(p + '.pcheck') if l.startswith('PFAIL')]
            viewfails = {}
            for l in pchk:
                m = kv.PFAIL.match(l.rstrip('\n'))
                if m:
                    viewfails.setdefault(m.group(1), []).append((m.group(4), m.group(5), m.group(6)))
            runs = {n[:-4]: c for n, c in impl.items() if n.endswith('@run')}
            for name, img in impl.items():
                if name.endswith('@run'):
                    continue
                is_pl = 'powerloss=' in img['header']
                if is_pl and not powerloss:
                    continue
                mid = powerloss and not is_pl      # C06 also judges the plain crash images: a power loss may lose nothing
                wname = name.split('@')[0]
                run_ops = runs[wname]['ops']
                states = acked_states(run_ops)
                nimg += 1
                ntorn += 1 if 'torn=' in img['header'] else 0
                dist[wname.split('-k')[0]] = dist.get(wname.split('-k')[0], 0) + 1
                fails = (p_image_mid if mid else p_image_pl if powerloss else p_image)(name, img, states, run_ops)
                # time lookups and Check are claimed only for directories whose publish times never went back over
                # their whole life - deleted messages included, which the recovered log no longer shows; the 'b'
                # workloads publish such times (the writer's carried timestamp, DESIGN 12.4)
                back_times = re.search(r'k\dt1bv', name) is not None
                for cl, op, got in ([] if mid else viewfails.get(name, [])):
                    if back_times and cl in ('get_by_time', 'closed_segments_check', 'offset_by_time'):
                        continue
                    fails.append(('views_agree:' + cl, '%s -> %s' % (op, got)))
                nview += 1
                sig = crash_signature(img, run_ops)
                if fails:
                    e = match_known_crash(known, pid, sig, fails)
                    if e:
                        known_hits[e['id']] = e
                    else:
                        viol.append(('P', '# %s violated on crash image %s\n# %s\n# signature: %s\n# failing clauses:\n%s\n'
                                          '# workload:\n%s\n# recovered transcript:\n%s\n' % (
                                              pid, name, img['header'], sig,
                                              '\n'.join('#   %s: %s' % f for f in fails),
                                              '\n'.join('#   ' + o for o, _ in run_ops),
                                              '\n'.join('%s\n%s' % (o, '\n'.join('= ' + r for r in rs)) for o, rs in img['ops'])[:6000])))
                elif not mid:
                    # correspondence of the recovery itself (only for images the property accepts)
                    mops = model.get(name, [])
                    for k, (op, res) in enumerate(img['ops']):
                        mres = mops[k][1] if k < len(mops) else None
                        if mres != res:
                            mism.append((name, op, res[:2], (mres or [])[:2], img['header']))
                            break
        for e in known_hits.values():
            print('KNOWN-FINDING: property=%s %s' % (pid, e['what_fails']))
        if not viol and mism:
            name, op, res, mres, hdr = mism[0]
            viol.append(('corr', '# correspondence corr:%s/recovery no longer checks: the model recovers image %s differently\n# %s\n'
                                 '# op: %s\n# implementation: %s\n# model: %s\n' % (pid, name, hdr, op[:300], res, mres)))
        if not viol and progbad:
            viol.append(('corr', '# correspondence corr:%s/delete-programs no longer checks: the file-system steps of a Delete or Publish differ from the '
                                 'program of coq/CrashDir.v (delete_prog / publish_prog; theorems C05_override_crash_safe / C05_drop_crash_safe / '
                                 'C05_rebase_overlap / C05_create_head_crash_safe / C05_head_all_crash_safe / C05_head_tail_override_crash_safe)\n# %s\n'
                                 % (pid, '\n# '.join(progbad[:5]))))
        nsyncack = 0
        if powerloss:
            # Sync under load: what Sync returns must be covered by the fsync it performed (a Sync that reads the offset
            # after letting publishers in acknowledges messages that are not on stable storage yet)
            sp = os.path.join(d, 'syncack.txt')
            rounds = 300 if tier == 'quick' else 5000
            open(sp, 'w').write('csyncack %d\n' % rounds)
            env2 = dict(os.environ, KV_WORK=os.path.join(d, 'dirs-sync'))
            os.makedirs(env2['KV_WORK'], exist_ok=True)
            r = subprocess.run([kv.KVRUN, 'conc', sp], stdout=subprocess.PIPE, stderr=subprocess.PIPE, text=True, env=env2, timeout=1800)
            res = [l for l in r.stdout.split('\n') if l.startswith('= ')]
            nsyncack = rounds
            if r.returncode != 0 or not res or not res[0].startswith('= ok'):
                viol.append(('P', '# C06 violated: Sync under load acknowledged an offset its fsync did not cover\n# workload: four publishers '
                                  'of fixed-size messages into one segment, one goroutine calling Sync (kvrun conc: csyncack %d)\n# %s\n'
                                  % (rounds, (res[0] if res else r.stderr[-500:]))))
        if not viol and durbad:
            viol.append(('corr', '# correspondence corr:%s/durable-programs no longer checks: the write / fsync / create steps of a Publish, '
                                 'Sync, Close or Delete differ from the steps of coq/Durable.v (publish_kinds / sync_kinds; theorems '
                                 'C06_sealed_segments_stay_durable / C06_sync_makes_everything_durable / C06_acked_lengths_survive) or of '
                                 'coq/DurableDelete.v (delete_full; theorems C06_delete_steps_keep_durable / C06_delete_end_durable)\n# %s\n'
                                 % (pid, '\n# '.join(durbad[:5]))))
        cov = dict(crash=dict(workloads=len(wl), images=nimg, torn_images=ntorn, recoveries_compared_with_model=nimg - len(viol),
                              durable_programs_compared_with_Durable=ndur, durable_program_mismatches=len(durbad),
                              complete_delete_programs_compared_with_DurableDelete=nfull,
                              syncs_under_load_checked_against_their_fsync=nsyncack,
                              delete_programs_compared_with_CrashDir=nprog, delete_program_mismatches=len(progbad),
                              correspondence_mismatches=len(mism), property_failures=len(viol),
                              known_finding_hits=sorted(known_hits), image_distribution=dist,
                              rule='workloads: publish with rollover, delete in a reader segment (same base / rebase / emptied), '
                                   'delete in the head (middle / first / tail / all), eager migration on reopen, lazy reindex, '
                                   'AutoSync; one image after every FS mutation plus torn variants of every append; each image: '
                                   'Open(Recover), scan, all Get, key and time lookups, Stat, second recovery, publish, Check'))
        return viol, cov
    finally:
        if not os.environ.get('KV_KEEP'):
            shutil.rmtree(d, ignore_errors=True)


LITE = {
    # property -> (workload name prefixes, clauses of p_image that are this property's own sentence)
    'C02': (('delh-tail-', 'delh-all-', 'delr-all-', 'pub-'), ('next_offset_not_backwards',)),
    'C12': (('delr-', 'delh-'), ('delete_all_or_nothing', 'nothing_else', 'acked_then_batch_prefix')),
    'C15': (('trimo-', 'trimc-'), ('delete_all_or_nothing', 'nothing_else', 'acked_then_batch_prefix')),
}


def crash_lite(pid, tier, seed):
    """C02 / C12 / C15 say what a call may do to the log 'in the life of a log directory': also when the call is cut
    short (a crash, or an I/O error half-way - the directory is then what a crash at that step leaves).  The delete /
    trim / emptying workloads of the C05 harness, one index configuration, judged only by the clauses that are this
    property's own sentence; the views-agree clauses, the recovery correspondence and the known findings of C05 stay
    with C05."""
    prefixes, clauses = LITE[pid]
    rng = random.Random(codec.kv_seed(seed, 'c05'))
    wl = [w for w in workloads(rng, tier) if w[0].startswith(prefixes) and ('-k1t1v' in w[0] or tier != 'quick')]
    d, paths = run_crash(wl, 'crashlite-' + pid)
    try:
        viol, nimg = [], 0
        for p in paths:
            impl = parse_impl(p + '.impl')
            runs = {n[:-4]: c for n, c in impl.items() if n.endswith('@run')}
            for name, img in impl.items():
                if name.endswith('@run') or 'powerloss=' in img['header']:
                    continue
                run_ops = runs[name.split('@')[0]]['ops']
                nimg += 1
                fails = [f for f in p_image(name, img, acked_states(run_ops), run_ops) if f[0] in clauses]
                if fails:
                    viol.append(('P', '# %s violated on crash image %s (the directory as it is if the call stops at this file-system step)\n# %s\n'
                                      '# failing clauses:\n%s\n# workload:\n%s\n# recovered transcript:\n%s\n' % (
                                          pid, name, img['header'], '\n'.join('#   %s: %s' % f for f in fails),
                                          '\n'.join('#   ' + o for o, _ in run_ops),
                                          '\n'.join('%s\n%s' % (o, '\n'.join('= ' + r for r in rs)) for o, rs in img['ops'])[:4000])))
        return viol, dict(interrupted_calls=dict(workloads=len(wl), images=nimg, clauses=list(clauses),
                                                 rule='every file-system step of the delete / trim / emptying workloads of the C05 '
                                                      'harness as the point where the call stops; Open(Recover) and a full scan of '
                                                      'each image, judged by this property\'s own clauses'))
    finally:
        if not os.environ.get('KV_KEEP'):
            shutil.rmtree(d, ignore_errors=True)


def crash_signature(img, run_ops):
    hdr = dict(kv_.split('=', 1) for kv_ in img['header'].split()[1:] if '=' in kv_)
    i = int(hdr['inflight'])
    op = run_ops[i][0].split()[0]
    path = re.sub(r'\d+', 'N', hdr.get('path', ''))
    ver = 2
    for o, _ in run_ops[:i + 1]:
        if o.startswith('open'):
            ver = int(o.split()[8])
    # does the image hold a log file of 1..7 bytes (a first record or a file header cut inside its first 8 bytes)?
    short = False
    for o, _ in img.get('ops', []):
        if o.startswith('loaddir'):
            for tok in o.split()[1:]:
                n, _, hx = tok.partition(':')
                if n.endswith('.log') and hx != '-' and 0 < len(hx) // 2 < 8:
                    short = True
    return dict(inflight=op, event=hdr.get('kind'), path=path, torn='torn' in hdr, newver=ver, short_log=short)


def match_known_crash(known, pid, sig, fails):
    for e in known:
        if e['property'] != pid:
            continue
        s = e.get('signature', {})
        if 'crash' not in s:
            continue

        def ok(k, v):
            return sig.get(k) in v if isinstance(v, list) else sig.get(k) == v
        if all(ok(k, v) for k, v in s['crash'].items()) and \
           all(any(f[0].startswith(c) for c in s.get('clauses', [''])) for f in fails):
            return e
    return None
