"""Orchestration helpers: build, run implementation and model on histories,
diff (correspondence), property evaluation on the implementation output (P),
shrinking, known-finding classification, evidence."""
import concurrent.futures as cf
import hashlib
import json
import os
import re
import shutil
import subprocess
import sys
import time

VERIF = os.path.dirname(os.path.dirname(os.path.abspath(__file__)))
# The registered checks always run against /repo itself.  The KV_ISO_* variables exist only for tools/try_mutant_iso.sh,
# which tries a seeded change in a scratch worktree (its own copy of the harness module, its own output directory)
# so that several can be tried at once without touching /repo or the committed evidence.
REPO = os.environ.get('KV_ISO_REPO', '/repo')
HARNESS = os.environ.get('KV_ISO_HARNESS', os.path.join(VERIF, 'harness'))
OUT = os.environ.get('KV_ISO_OUT', VERIF)
WORK = os.path.join(OUT, '.work')
KVRUN = os.path.join(HARNESS, 'bin', 'kvrun')
KVMODEL = os.path.join(VERIF, 'model', 'kvmodel')
COQ = os.path.join(VERIF, 'coq')
NCPU = min(16, os.cpu_count() or 4)

GOENV = dict(os.environ, GOFLAGS='-mod=mod', GOPROXY='off')
GOENV.pop('GOTOOLCHAIN', None)   # the repo pins go1.26.1, selected by the default 'auto'
GOENV.pop('GOSUMDB', None)


class Broken(Exception):
    """the check itself cannot run (build failure etc.)"""


def sh(cmd, cwd=None, env=None, timeout=1800, check=True):
    p = subprocess.run(cmd, cwd=cwd, env=env, timeout=timeout, stdout=subprocess.PIPE,
                       stderr=subprocess.STDOUT, text=True, shell=isinstance(cmd, str))
    if check and p.returncode != 0:
        raise Broken('command failed: %s\n%s' % (cmd, p.stdout[-4000:]))
    return p


def workdir(tag):
    d = os.path.join(WORK, '%s-%d' % (tag, os.getpid()))
    shutil.rmtree(d, ignore_errors=True)
    os.makedirs(d, exist_ok=True)
    return d


# --------------------------------------------------------------------------
# builds

def build_impl(race=False):
    """go build of the harness against /repo's current working tree (tag verif)"""
    h = HARNESS
    shutil.copyfile(os.path.join(REPO, 'go.sum'), os.path.join(h, 'go.sum'))
    out = KVRUN + ('-race' if race else '')
    cmd = ['go', 'build', '-tags', 'verif'] + (['-race'] if race else []) + ['-o', out, './cmd/kvrun']
    p = sh(cmd, cwd=h, env=GOENV, check=False, timeout=900)
    if p.returncode != 0:
        raise Broken('go build of /repo working tree failed:\n' + p.stdout[-3000:])
    return out


def build_model():
    """make (no-op when up to date) + extraction + ocaml build"""
    if os.environ.get('KV_ISO_REPO'):
        return          # scratch runs use the model as built
    if not os.path.exists(os.path.join(COQ, 'Makefile')):
        sh('coq_makefile -f _CoqProject -o Makefile', cwd=COQ)
    p = sh('timeout 3000 make -j%d' % NCPU, cwd=COQ, check=False, timeout=3100)
    if p.returncode != 0:
        raise Broken('Coq tree does not build:\n' + p.stdout[-3000:])
    m = os.path.join(VERIF, 'model')
    need = not os.path.exists(KVMODEL)
    if not need:
        t = os.path.getmtime(KVMODEL)
        for f in os.listdir(COQ):
            if f.endswith('.vo') and os.path.getmtime(os.path.join(COQ, f)) > t:
                need = True
        for f in ('driver.ml', 'Extract.v'):
            if os.path.getmtime(os.path.join(m, f)) > t:
                need = True
    if need:
        sh('./build.sh', cwd=m)


FORBIDDEN = re.compile(r'\b(Admitted|admit|Axiom|Parameter|Conjecture|Admit Obligations|Unset Guard Checking|'
                       r'Unset Positivity Checking|Unset Universe Checking|bypass_check|type-in-type|impredicative-set)\b')


def grep_forbidden():
    hits = []
    for root in (COQ, os.path.join(VERIF, 'model')):
        for dp, _, fs in os.walk(root):
            for f in fs:
                if f.endswith('.v'):
                    path = os.path.join(dp, f)
                    txt = open(path).read()
                    txt = re.sub(r'\(\*.*?\*\)', '', txt, flags=re.S)
                    for ln, line in enumerate(txt.split('\n'), 1):
                        if FORBIDDEN.search(line):
                            hits.append('%s:%d: %s' % (path, ln, line.strip()))
    return hits


def check_theorems(pid):
    """compile Properties/<pid>.v against the built tree; returns (obligations, discharged, axioms, log)"""
    f = os.path.join(COQ, 'Properties', pid + '.v')
    if not os.path.exists(f):
        return 0, 0, [], 'no theorem file'
    p = sh('timeout 900 coqc -Q . KV Properties/%s.v' % pid, cwd=COQ, check=False, timeout=1000)
    src = re.sub(r'\(\*.*?\*\)', '', open(f).read(), flags=re.S)
    thms = re.findall(r'^\s*(?:Theorem|Corollary)\s+(\w+)', src, flags=re.M)
    if p.returncode != 0:
        return len(thms), 0, [], p.stdout[-3000:]
    # Print Assumptions output: "Closed under the global context" or "Axioms:\n name : type"
    axioms = []
    closed = p.stdout.count('Closed under the global context')
    for m in re.finditer(r'^Axioms:\n((?:.+\n?)+?)(?=^\S|\Z)', p.stdout, flags=re.M):
        for line in m.group(1).split('\n'):
            mm = re.match(r'^(\S+)\s*:', line)
            if mm:
                axioms.append(mm.group(1))
    nprint = len(re.findall(r'^\s*Print Assumptions', src, flags=re.M))
    discharged = len(thms) if nprint >= len(thms) else nprint
    return len(thms), discharged, sorted(set(axioms)), p.stdout[-2000:]


def coqchk(pid):
    """thorough tier: re-check Properties/<pid>.vo and everything it depends on with the independent checker;
    returns (ok, summary)"""
    p = sh('timeout 3000 coqchk -silent -o -Q . KV KV.Properties.%s' % pid, cwd=COQ, check=False, timeout=3100)
    out = p.stdout
    m = re.search(r'\* Axioms:\s*(.*?)\n\s*\n', out, flags=re.S)
    ax = m.group(1).strip() if m else '?'
    bad = [k for k in ('type-in-type', 'unsafe (co)fixpoints', 'positivity is assumed')
           if not re.search(re.escape(k) + r':\s*<none>', out)]
    ok = p.returncode == 0 and ax == '<none>' and not bad
    return ok, 'coqchk -silent -o KV.Properties.%s: rc=%d axioms=%s%s' % (pid, p.returncode, ax, (' NOT-NONE: ' + ','.join(bad)) if bad else '')


# --------------------------------------------------------------------------
# running histories

def write_shards(cases, d, n=NCPU):
    """cases: list of (name, [op lines]); returns shard paths"""
    n = max(1, min(n, len(cases)))
    paths = []
    for i in range(n):
        path = os.path.join(d, 'shard%02d.hist' % i)
        with open(path, 'w') as fh:
            for name, ops in cases[i::n]:
                fh.write('case %s\n' % name)
                for o in ops:
                    fh.write(o + '\n')
        paths.append(path)
    return paths


def _run_one(args):
    exe, sub, path, outp, env = args
    with open(outp, 'w') as fh:
        p = subprocess.run([exe, sub, path], stdout=fh, stderr=subprocess.PIPE, text=True, env=env,
                           timeout=3600)
    return p.returncode, p.stderr[-2000:]


def run_sides(paths, d, kvrun=KVRUN, impl_env=None):
    env = dict(os.environ, KV_WORK=os.path.join(d, 'dirs'))
    if impl_env:
        env.update(impl_env)
    os.makedirs(env['KV_WORK'], exist_ok=True)
    jobs = []
    for p in paths:
        jobs.append((kvrun, 'hist', p, p + '.impl', env))
        jobs.append((KVMODEL, 'hist', p, p + '.model', None))
    with cf.ThreadPoolExecutor(NCPU) as ex:
        res = list(ex.map(_run_one, jobs))
    for (rc, err), j in zip(res, jobs):
        if rc != 0:
            raise Broken('%s exited %d on %s: %s' % (j[0], rc, j[2], err))
    # P on the implementation output
    pj = [(KVMODEL, 'check', p + '.impl', p + '.pcheck', None) for p in paths]
    with cf.ThreadPoolExecutor(NCPU) as ex:
        res = list(ex.map(_run_one, pj))
    for (rc, err), j in zip(res, pj):
        if rc != 0:
            raise Broken('kvmodel check exited %d on %s: %s' % (rc, j[2], err))


def run_impl_only(paths, d, kvrun=KVRUN):
    env = dict(os.environ, KV_WORK=os.path.join(d, 'dirs'))
    os.makedirs(env['KV_WORK'], exist_ok=True)
    jobs = [(kvrun, 'hist', p, p + '.impl', env) for p in paths]
    with cf.ThreadPoolExecutor(NCPU) as ex:
        res = list(ex.map(_run_one, jobs))
    for (rc, err), j in zip(res, jobs):
        if rc != 0:
            raise Broken('%s exited %d on %s: %s' % (j[0], rc, j[2], err))


def parse_out(path):
    """-> {case: [(op, [results])]}"""
    cases = {}
    cur = None
    with open(path) as fh:
        for line in fh:
            line = line.rstrip('\n')
            if line.startswith('case '):
                cur = []
                cases[line[5:]] = cur
            elif line.startswith('= '):
                if cur:
                    cur[-1][1].append(line[2:])
            elif line:
                cur.append((line, []))
    return cases


def diff_outputs(paths):
    """first divergence per case: list of dict(case, opidx, op, impl, model)"""
    mism = []
    nlines = 0
    for p in paths:
        a, b = parse_out(p + '.impl'), parse_out(p + '.model')
        for case, ops in a.items():
            mops = b.get(case, [])
            for i, (op, res) in enumerate(ops):
                nlines += len(res)
                mres = mops[i][1] if i < len(mops) else None
                if mres != res:
                    # locate the first differing result line
                    k = 0
                    while mres is not None and k < len(res) and k < len(mres) and res[k] == mres[k]:
                        k += 1
                    mism.append(dict(case=case, opidx=i, op=op,
                                     impl=res[k] if k < len(res) else '<missing>',
                                     model=(mres[k] if mres is not None and k < len(mres) else '<missing>')))
                    break
    return mism, nlines


PFAIL = re.compile(r'^PFAIL case=(\S+) line=(\d+) prop=(\S+) clause=(\S+) op=(\S+) got=(.*)$')


def collect_pfails(paths):
    fails, checked = [], 0
    for p in paths:
        with open(p + '.pcheck') as fh:
            for line in fh:
                m = PFAIL.match(line.rstrip('\n'))
                if m:
                    fails.append(dict(case=m.group(1), line=int(m.group(2)), prop=m.group(3),
                                      clause=m.group(4), op=m.group(5), got=m.group(6)))
                elif line.startswith('PSUMMARY'):
                    checked += int(re.search(r'checked=(\d+)', line).group(1))
    return fails, checked


LAST_KSLICE = None


def run_cases(cases, tag, kvrun=KVRUN, impl_env=None, keep=False, kslice_pid=None):
    """returns (mismatches, pfails, result-lines, p-evaluations); with kslice_pid, some of the histories are also
    evaluated inside Coq (lib/kslice.py) and the outcome is left in LAST_KSLICE"""
    global LAST_KSLICE
    d = workdir(tag)
    try:
        paths = write_shards(cases, d)
        run_sides(paths, d, kvrun=kvrun, impl_env=impl_env)
        mism, nlines = diff_outputs(paths)
        pf, checked = collect_pfails(paths)
        if kslice_pid:
            import kslice
            parsed = {}
            for p in paths:
                parsed.update(parse_out(p + '.impl'))
            LAST_KSLICE = kslice.run(COQ, parsed, kslice_pid)
        return mism, pf, nlines, checked
    finally:
        if not keep and not os.environ.get("KV_KEEP"):
            shutil.rmtree(d, ignore_errors=True)


# --------------------------------------------------------------------------
# shrinking (delta debugging on the op list)

DIR_OPS = ('rmindex', 'idxcut', 'migrate', 'recoverdir', 'checkdir', 'checkall', 'statdir', 'backupdir', 'damage', 'files')


def wellformed(ops):
    """directory-level actions only while the log is closed, log calls only while it is open"""
    is_open = False
    for o in ops:
        k = o.split()[0]
        if k == 'open':
            if is_open:
                return False
            is_open = True
        elif k == 'close':
            if not is_open:
                return False
            is_open = False
        elif k in ('files', 'bkobs', 'bkclean', 'disksize', 'sleepms'):
            pass
        elif k in DIR_OPS:
            if is_open:
                return False
        elif not is_open:
            return False
    return True


def shrink(ops, pred0, budget_s=40):
    def pred(c):
        return wellformed(c) and pred0(c)
    return _shrink(ops, pred, budget_s)


def _shrink(ops, pred, budget_s=40):
    """ops: list of lines, pred(ops)->bool true when still failing"""
    t0 = time.time()
    cur = list(ops)
    n = 2
    while len(cur) >= 2 and time.time() - t0 < budget_s:
        chunk = max(1, len(cur) // n)
        reduced = False
        for i in range(0, len(cur), chunk):
            cand = cur[:i] + cur[i + chunk:]
            if not cand or not cand[0].startswith('open'):
                # keep the initial open
                if cur[0].startswith('open') and i == 0:
                    cand = [cur[0]] + cur[max(1, i + chunk):]
                    if len(cand) >= len(cur):
                        continue
            if time.time() - t0 > budget_s:
                break
            if pred(cand):
                cur = cand
                n = max(n - 1, 2)
                reduced = True
                break
        if not reduced:
            if chunk == 1:
                break
            n = min(len(cur), n * 2)
    return cur


# --------------------------------------------------------------------------
# known findings

def load_known():
    p = os.path.join(VERIF, 'known_findings.json')
    if not os.path.exists(p):
        return []
    return [e for e in json.load(open(p)).get('entries', []) if e.get('kind') == 'finding']


def match_known(known, pid, clause, ops=None):
    for e in known:
        if e['property'] != pid:
            continue
        sig = e.get('signature', {})
        if sig.get('clause') and sig['clause'] != clause:
            continue
        return e
    return None


# --------------------------------------------------------------------------
# evidence / verdict

def write_replay(pid, name, content):
    d = os.path.join(OUT, 'replays')
    os.makedirs(d, exist_ok=True)
    h = hashlib.sha1(content.encode()).hexdigest()[:12]
    path = os.path.join(d, '%s-%s-%s.txt' % (pid, name, h))
    with open(path, 'w') as fh:
        fh.write(content)
    return path


def write_evidence(pid, tier, seed, coverage, assumptions, wall, violations):
    os.makedirs(os.path.join(OUT, 'evidence'), exist_ok=True)
    ev = dict(property_id=pid, tier=tier, seed=seed, level='proof', coverage=coverage,
              assumptions=assumptions, wall_s=round(wall, 2), violations=violations)
    with open(os.path.join(OUT, 'evidence', pid + '.json'), 'w') as fh:
        json.dump(ev, fh, indent=1)
