"""C19: one writer at a time; read-only handles never modify data.  Sequences of open/close/publish/delete on up
to three handles (two in-process, one child process), opens that fail, compared with the lock-table model."""
import itertools
import os
import random
import shutil
import subprocess

import codec
import kv

ALPHA = ['o 0 0 0', 'o 0 1 0', 'o 1 1 0', 'o 1 0 0', 'o 2 0 0 child', 'o 2 1 1 child', 'o 0 1 2', 'o 1 1 2', 'c 0', 'c 1', 'c 2', 'p 0', 'p 1',
         'corrupt 1', 'corrupt 0', 'q 0', 'q 1', 'k 0', 'k 1', 'logsum']


def gen_cases(rng, tier):
    cases = []
    # exhaustive short sequences over the open/close/publish core
    core = ['o 0 0 0', 'o 0 1 0', 'o 1 1 0', 'o 1 0 0', 'o 2 0 0 child', 'c 0', 'c 1', 'c 2', 'p 0', 'p 1']
    depth = 3 if tier == 'quick' else 4
    for k in range(1, depth + 1):
        for seq in itertools.product(core, repeat=k):
            cases.append(list(seq))
    # the same on a directory without a lock file (a Backup copy, a directory no writer ever opened)
    for k in range(1, 3 if tier == 'quick' else 4):
        for seq in itertools.product(core, repeat=k):
            cases.append(['rmlock'] + list(seq))
    n = 300 if tier == 'quick' else 6000
    for i in range(n):
        ln = rng.randrange(4, 11)
        seq = [rng.choice(ALPHA) for _ in range(ln)]
        if rng.random() < 0.15:
            seq.insert(rng.randrange(len(seq)), 'd %d' % rng.choice([0, 1]))
        if rng.random() < 0.1:
            j = rng.randrange(len(seq))
            seq[j:j] = ['rmdir 1', rng.choice(['o 0 0 0', 'o 1 1 0']), 'rmdir 0']
        if rng.random() < 0.2:
            seq = ['rmlock'] + seq
        cases.append(seq)
    # a torn tail on the head log: read-only opens (plain, Check, Recover, also from a child process) must refuse or
    # ignore it, never repair it
    RO = ['o 0 1 0', 'o 0 1 1', 'o 0 1 2', 'o 1 1 2', 'o 1 1 1', 'o 2 1 2 child', 'o 2 1 0 child', 'c 0', 'c 1', 'c 2', 'q 0', 'k 0', 'p 0', 'd 1', 'logsum']
    for i in range(40 if tier == 'quick' else 800):
        mid = [rng.choice(RO) for _ in range(rng.randrange(3, 8))]
        pre = ['corrupt 1'] if rng.random() < 0.3 else []
        cases.append(['tear 1', 'logsum'] + pre + mid + ['logsum', 'c 0', 'c 1', 'c 2', 'tear 0'] + (['corrupt 0'] if pre else []))
    # an Open that fails after it took the lock, while another handle holds the directory: the lock of the handle that
    # stays must survive it (a failed Open releases its own lock only), so a conflicting Open afterwards still fails
    for keep in ('o 0 1 0', 'o 0 1 2', 'o 2 1 0 child'):
        for dmg, fix in (('corrupt 1', 'corrupt 0'), ('tear 1', 'tear 0')):
            for failing in (['o 1 1 1'], ['o 1 1 2'], ['o 1 1 1', 'o 1 1 2'], ['o 1 1 1', 'o 1 1 1', 'o 1 1 1']):
                if keep.startswith('o 2') and dmg == 'tear 1':
                    continue
                for after in (['o 1 0 0'], ['o 1 0 1'], ['o 1 1 0', 'c 1', 'o 1 0 0']):
                    first = [dmg, keep] if keep.split()[3] == '0' else [keep, dmg]
                    cases.append(first + failing + [fix] + after + ['c 0', 'c 2', 'c 1', 'o 1 0 0', 'p 1', 'c 1'])
    out = []
    for i, seq in enumerate(cases):
        out.append(['case f%d' % i, 'prep %d' % rng.choice([1, 3, 6])] + no_corruption_under_a_writer(seq))
    return out


def no_corruption_under_a_writer(seq):
    """Flock.v's idx_bad means "the index file of the HEAD segment is corrupt".  A read-write handle that is open when
    the file is damaged can move the head away from it (a Publish that rolls over) or rewrite it (a Delete), which the
    lock-table model does not follow; the damage is therefore only applied while no read-write handle can be open
    (once it is in effect every read-write Open fails, so none appears later either)."""
    maybe_rw, res = set(), []
    for op in seq:
        f = op.split()
        if f[0] == 'o' and f[2] == '0':
            maybe_rw.add(f[1])
        elif f[0] == 'c':
            maybe_rw.discard(f[1])
        if op == 'corrupt 1' and maybe_rw:
            op = 'q 0'
        res.append(op)
    return res


def c19_extra(pid, tier, seed):
    rng = random.Random(codec.kv_seed(seed, 'c19'))
    cases = gen_cases(rng, tier)
    d = kv.workdir('flock-' + pid)
    try:
        n = kv.NCPU
        paths = []
        for i in range(n):
            p = os.path.join(d, 'f%02d.txt' % i)
            with open(p, 'w') as fh:
                for c in cases[i::n]:
                    fh.write('\n'.join(c) + '\n')
            paths.append(p)
        env = dict(os.environ, KV_WORK=os.path.join(d, 'dirs'))
        os.makedirs(env['KV_WORK'], exist_ok=True)
        import concurrent.futures as cf

        def one(p):
            with open(p + '.impl', 'w') as fh:
                r = subprocess.run([kv.KVRUN, 'flock', p], stdout=fh, stderr=subprocess.PIPE, text=True, env=env, timeout=3600)
            if r.returncode != 0:
                raise kv.Broken('kvrun flock failed: ' + r.stderr[-1000:])
            with open(p + '.model', 'w') as fh:
                subprocess.run([kv.KVMODEL, 'flock', p], stdout=fh, stderr=subprocess.PIPE, text=True, timeout=3600)
        with cf.ThreadPoolExecutor(n) as ex:
            list(ex.map(one, paths))
        viol, mism, nops, nro = [], [], 0, 0
        for p in paths:
            a = [l.rstrip('\n') for l in open(p + '.impl')]
            b = [l.rstrip('\n') for l in open(p + '.model')]
            ia, ib = 0, 0
            case, open_modes, lastsum, ro_only_since = [], {}, None, True
            # walk both files op by op
            ops_a = split_ops(a)
            ops_b = split_ops(b)
            for (op, ra), (_, rb) in zip(ops_a, ops_b):
                f = op.split()
                if f[0] == 'case':
                    case, open_modes, lastsum, ro_only_since = [op], {}, None, True
                    continue
                case.append(op)
                nops += 1
                ta, tb = ra.split()[:2] if ra.startswith('err') else ra.split()[:1], rb.split()[:2] if rb.startswith('err') else rb.split()[:1]
                if ta != tb:
                    mism.append((case[:], ra, rb))
                # P: the property itself on the implementation's answers
                bad = None
                if f[0] == 'o' and ra == 'ok':
                    ro = f[2] == '1'
                    if not ro and open_modes:
                        bad = 'read-write Open succeeded while another handle is open: %s' % open_modes
                    if ro and any(m == 'rw' for m in open_modes.values()):
                        bad = 'read-only Open succeeded while a read-write handle is open'
                    open_modes[f[1]] = 'ro' if ro else 'rw'
                elif f[0] == 'o' and ra.startswith('err Locked'):
                    ro = f[2] == '1'
                    if f[1] not in open_modes and ((ro and not any(m == 'rw' for m in open_modes.values())) or (not ro and not open_modes)):
                        bad = 'Open failed with a lock error although no conflicting handle is open (lock not released?)'
                elif f[0] == 'c' and f[1] in open_modes:
                    open_modes.pop(f[1])
                elif f[0] in ('p', 'd') and f[1] in open_modes:
                    if open_modes[f[1]] == 'ro':
                        nro += 1
                        if ra != 'err Readonly':
                            bad = 'read-only handle accepted %s: %s' % (f[0], ra)
                    else:
                        ro_only_since = False
                        if not ra.startswith('ok') and f[0] == 'p':
                            bad = 'publish on the read-write handle failed: %s' % ra
                elif f[0] == 'logsum':
                    s = ra.split()[-1]
                    if lastsum is not None and ro_only_since and s != lastsum:
                        bad = 'log files changed although only read-only handles were used since the last checksum'
                    lastsum, ro_only_since = s, True
                elif f[0] == 'tear':
                    lastsum = None
                elif f[0] in ('corrupt', 'prep', 'rmdir', 'rmlock'):
                    pass
                if bad:
                    viol.append(('P', '# C19 violated: %s\n# sequence (flock language: o <handle> <readonly> <check> [child], c close, p publish, d delete):\n%s\n# last result: %s\n' % (
                        bad, '\n'.join(case), ra)))
        if not viol and mism:
            case, ra, rb = mism[0]
            viol.append(('corr', '# correspondence corr:C19/locktable no longer checks\n%s\n# implementation: %s\n# model: %s\n' % ('\n'.join(case), ra, rb)))
        cov = dict(flock=dict(sequences=len(cases), operations=nops, readonly_mutation_attempts=nro, mismatches=len(mism),
                              rule='all sequences of <= 3 (quick) / 4 (thorough) steps over open rw/ro on three handles (one in a child '
                                   'process), close, publish; plus random sequences with failing opens (corrupt index with and without '
                                   'Check, missing directory), deletes, queries on read-only handles and log-file checksums'))
        return viol, cov
    finally:
        if not os.environ.get('KV_KEEP'):
            shutil.rmtree(d, ignore_errors=True)


def split_ops(lines):
    out = []
    for l in lines:
        if l.startswith('= ') or l == '=':
            if out:
                out[-1] = (out[-1][0], l[2:])
        elif l.startswith('case '):
            out.append((l, ''))
        else:
            out.append((l, ''))
    return out
