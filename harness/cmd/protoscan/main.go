// protoscan prints, for every method of *reader in log_reader.go, the ordered sequence of operations on the
// segment's lazily loaded log file: lock operations on messagesMu, updates of messagesInuse, reads and writes of
// r.messages, the open and the close of the mapping, calls of getMessages, deferred or not, and returns.
// The check compares this with the sequences coq/ReaderGC.v was transcribed from.
package main

import (
	"fmt"
	"go/ast"
	"go/parser"
	"go/token"
	"os"
	"sort"
	"strings"
)

func sel(e ast.Expr) string {
	switch x := e.(type) {
	case *ast.Ident:
		return x.Name
	case *ast.SelectorExpr:
		return sel(x.X) + "." + x.Sel.Name
	case *ast.CallExpr:
		return sel(x.Fun) + "()"
	case *ast.StarExpr:
		return sel(x.X)
	case *ast.ParenExpr:
		return sel(x.X)
	}
	return "?"
}

type scanner struct {
	recv   string
	events []string
	deferd int
}

func (s *scanner) emit(e string) {
	if s.deferd > 0 {
		e = "defer:" + e
	}
	s.events = append(s.events, e)
}

func (s *scanner) Visit(n ast.Node) ast.Visitor {
	switch x := n.(type) {
	case *ast.DeferStmt:
		s.deferd++
		ast.Walk(s, x.Call)
		s.deferd--
		return nil
	case *ast.FuncLit:
		// a deferred closure: its body counts as deferred code
		ast.Walk(s, x.Body)
		return nil
	case *ast.ReturnStmt:
		for _, r := range x.Results {
			ast.Walk(s, r)
		}
		s.emit("return")
		return nil
	case *ast.AssignStmt:
		for _, r := range x.Rhs {
			ast.Walk(s, r)
		}
		for _, l := range x.Lhs {
			if sel(l) == s.recv+".messages" {
				v := "val"
				if len(x.Rhs) == 1 && sel(x.Rhs[0]) == "nil" {
					v = "nil"
				}
				s.emit("messages=" + v)
			} else {
				ast.Walk(s, l)
			}
		}
		return nil
	case *ast.CallExpr:
		name := sel(x.Fun)
		for _, a := range x.Args {
			ast.Walk(s, a)
		}
		switch {
		case strings.HasPrefix(name, s.recv+".messagesMu."):
			s.emit("mu." + strings.TrimPrefix(name, s.recv+".messagesMu."))
		case name == s.recv+".messagesInuse.Add":
			arg := "?"
			if len(x.Args) == 1 {
				switch a := x.Args[0].(type) {
				case *ast.BasicLit:
					arg = "+" + a.Value
				case *ast.UnaryExpr:
					arg = a.Op.String() + sel(a.X)
					if b, ok := a.X.(*ast.BasicLit); ok {
						arg = a.Op.String() + b.Value
					}
				}
			}
			s.emit("inuse.Add(" + arg + ")")
		case name == s.recv+".messagesInuse.Load":
			s.emit("inuse.Load")
		case name == s.recv+".messages.Close":
			s.emit("messages.Close")
		case name == "message.OpenReaderMem":
			s.emit("open")
		case name == s.recv+".getMessages":
			s.emit("getMessages")
		default:
			if f, ok := x.Fun.(*ast.SelectorExpr); ok {
				ast.Walk(s, f.X)
			}
		}
		return nil
	case *ast.SelectorExpr:
		if sel(x) == s.recv+".messages" {
			s.emit("messages?")
			return nil
		}
	}
	return s
}

// lockScan: for every method of *<recvType> in the file, the ordered lock operations on the named mutex fields
// (deferred or not), the calls of the named methods in between, and the returns
type lockScanner struct {
	recv    string
	fields  map[string]bool
	calls   map[string]bool
	events  []string
	deferd  int
	touched bool
}

func (s *lockScanner) emit(e string) {
	if s.deferd > 0 {
		e = "defer:" + e
	}
	s.events = append(s.events, e)
}

func (s *lockScanner) Visit(n ast.Node) ast.Visitor {
	switch x := n.(type) {
	case *ast.DeferStmt:
		s.deferd++
		ast.Walk(s, x.Call)
		s.deferd--
		return nil
	case *ast.FuncLit:
		ast.Walk(s, x.Body)
		return nil
	case *ast.ReturnStmt:
		for _, r := range x.Results {
			ast.Walk(s, r)
		}
		s.emit("return")
		return nil
	case *ast.CallExpr:
		for _, a := range x.Args {
			ast.Walk(s, a)
		}
		name := sel(x.Fun)
		parts := strings.Split(name, ".")
		if len(parts) == 3 && parts[0] == s.recv && s.fields[parts[1]] {
			s.emit(parts[1] + "." + parts[2])
			s.touched = true
			return nil
		}
		if s.calls[parts[len(parts)-1]] && len(parts) >= 2 {
			s.emit(strings.Join(parts[1:], "."))
			return nil
		}
		if f, ok := x.Fun.(*ast.SelectorExpr); ok {
			ast.Walk(s, f.X)
		}
		return nil
	}
	return s
}

func lockScan(path, recvType, fields, calls string) {
	fset := token.NewFileSet()
	f, err := parser.ParseFile(fset, path, nil, 0)
	if err != nil {
		fmt.Fprintln(os.Stderr, err)
		os.Exit(2)
	}
	set := func(csv string) map[string]bool {
		m := map[string]bool{}
		for _, x := range strings.Split(csv, ",") {
			if x != "" {
				m[x] = true
			}
		}
		return m
	}
	var out []string
	for _, d := range f.Decls {
		fd, ok := d.(*ast.FuncDecl)
		if !ok || fd.Recv == nil || len(fd.Recv.List) != 1 || fd.Body == nil || len(fd.Recv.List[0].Names) != 1 {
			continue
		}
		if sel(fd.Recv.List[0].Type) != recvType {
			continue
		}
		s := &lockScanner{recv: fd.Recv.List[0].Names[0].Name, fields: set(fields), calls: set(calls)}
		ast.Walk(s, fd.Body)
		if s.touched {
			out = append(out, fd.Name.Name+": "+strings.Join(s.events, " "))
		}
	}
	sort.Strings(out)
	for _, l := range out {
		fmt.Println(l)
	}
}

// chanScan: for every method of *<recvType>, the ordered channel and atomic operations: receives, sends, closes, selects
// (with their cases), Load / Store on atomic fields, comparisons guarding them, pause points, returns
type chanScanner struct {
	recv   string
	events []string
}

func (s *chanScanner) Visit(n ast.Node) ast.Visitor {
	switch x := n.(type) {
	case *ast.ReturnStmt:
		for _, r := range x.Results {
			ast.Walk(s, r)
		}
		s.events = append(s.events, "return")
		return nil
	case *ast.SendStmt:
		ast.Walk(s, x.Value)
		s.events = append(s.events, "send("+sel(x.Chan)+")")
		return nil
	case *ast.UnaryExpr:
		if x.Op == token.ARROW {
			s.events = append(s.events, "recv("+sel(x.X)+")")
			return nil
		}
		if x.Op == token.NOT {
			s.events = append(s.events, "!")
		}
	case *ast.SelectStmt:
		s.events = append(s.events, "select{")
		ast.Walk(s, x.Body)
		s.events = append(s.events, "}")
		return nil
	case *ast.IfStmt:
		if x.Init != nil {
			ast.Walk(s, x.Init)
		}
		s.events = append(s.events, "if(")
		ast.Walk(s, x.Cond)
		s.events = append(s.events, ")")
		ast.Walk(s, x.Body)
		if x.Else != nil {
			s.events = append(s.events, "else")
			ast.Walk(s, x.Else)
		}
		return nil
	case *ast.BinaryExpr:
		ast.Walk(s, x.X)
		s.events = append(s.events, x.Op.String())
		ast.Walk(s, x.Y)
		return nil
	case *ast.Ident:
		if x.Name == "offset" || x.Name == "nextOffset" || x.Name == "updated" || x.Name == "ok" {
			s.events = append(s.events, x.Name)
		}
		return nil
	case *ast.CallExpr:
		name := sel(x.Fun)
		switch {
		case name == "close" && len(x.Args) == 1:
			s.events = append(s.events, "close("+sel(x.Args[0])+")")
			return nil
		case name == "make":
			s.events = append(s.events, "make")
			return nil
		case name == "vhook.Pause" && len(x.Args) == 1:
			if b, ok := x.Args[0].(*ast.BasicLit); ok {
				s.events = append(s.events, "@"+strings.Trim(b.Value, "\""))
			}
			return nil
		case strings.HasPrefix(name, s.recv+".") && (strings.HasSuffix(name, ".Load") || strings.HasSuffix(name, ".Store")):
			for _, a := range x.Args {
				ast.Walk(s, a)
			}
			s.events = append(s.events, strings.TrimPrefix(name, s.recv+"."))
			return nil
		}
	}
	return s
}

func chanScan(path, recvType string) {
	fset := token.NewFileSet()
	f, err := parser.ParseFile(fset, path, nil, 0)
	if err != nil {
		fmt.Fprintln(os.Stderr, err)
		os.Exit(2)
	}
	var out []string
	for _, d := range f.Decls {
		fd, ok := d.(*ast.FuncDecl)
		if !ok || fd.Recv == nil || len(fd.Recv.List) != 1 || fd.Body == nil || len(fd.Recv.List[0].Names) != 1 {
			continue
		}
		if sel(fd.Recv.List[0].Type) != recvType {
			continue
		}
		s := &chanScanner{recv: fd.Recv.List[0].Names[0].Name}
		ast.Walk(s, fd.Body)
		out = append(out, fd.Name.Name+": "+strings.Join(s.events, " "))
	}
	sort.Strings(out)
	for _, l := range out {
		fmt.Println(l)
	}
}

func main() {
	if len(os.Args) > 3 && os.Args[1] == "chans" {
		chanScan(os.Args[2], os.Args[3])
		return
	}
	if len(os.Args) > 5 && os.Args[1] == "locks" {
		lockScan(os.Args[2], os.Args[3], os.Args[4], os.Args[5])
		return
	}
	path := "/repo/log_reader.go"
	if len(os.Args) > 1 {
		path = os.Args[1]
	}
	fset := token.NewFileSet()
	f, err := parser.ParseFile(fset, path, nil, 0)
	if err != nil {
		fmt.Fprintln(os.Stderr, err)
		os.Exit(2)
	}
	var out []string
	for _, d := range f.Decls {
		fd, ok := d.(*ast.FuncDecl)
		if !ok || fd.Recv == nil || len(fd.Recv.List) != 1 || fd.Body == nil {
			continue
		}
		if sel(fd.Recv.List[0].Type) != "reader" || len(fd.Recv.List[0].Names) != 1 {
			continue
		}
		s := &scanner{recv: fd.Recv.List[0].Names[0].Name}
		ast.Walk(s, fd.Body)
		touches := false
		for _, e := range s.events {
			if e != "return" && e != "defer:return" {
				touches = true
			}
		}
		if touches {
			out = append(out, fd.Name.Name+": "+strings.Join(s.events, " "))
		}
	}
	sort.Strings(out)
	for _, l := range out {
		fmt.Println(l)
	}
}
