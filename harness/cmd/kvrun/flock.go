package main

import (
	"bufio"
	"crypto/sha1"
	"fmt"
	"io"
	"os"
	"os/exec"
	"path/filepath"
	"sort"
	"strings"

	"github.com/klev-dev/klevdb"
)

// flock mode (C19): up to three handles on one directory, in this process (separate open file
// descriptions) or in a child process; opens that fail; read-only handles must not change log files.

type fhandle struct {
	log   klevdb.Log
	child *exec.Cmd
	stdin io.WriteCloser
}

func logSum(dir string) string {
	ents, _ := os.ReadDir(dir)
	var names []string
	for _, en := range ents {
		if strings.HasSuffix(en.Name(), ".log") {
			names = append(names, en.Name())
		}
	}
	sort.Strings(names)
	h := sha1.New()
	for _, n := range names {
		b, _ := os.ReadFile(filepath.Join(dir, n))
		fmt.Fprintf(h, "%s:%d:", n, len(b))
		h.Write(b)
	}
	return fmt.Sprintf("%x", h.Sum(nil))[:16]
}

func runFlockChild(a []string) {
	o := klevdb.Options{Readonly: a[1] == "1", Check: a[2] == "1", Recover: a[2] == "2", KeyIndex: true, TimeIndex: true}
	l, err := klevdb.Open(a[0], o)
	if err != nil {
		fmt.Println("err " + errClass(err))
		return
	}
	fmt.Println("ok")
	io.Copy(io.Discard, os.Stdin) // hold the handle until the parent closes stdin
	l.Close()
}

func runFlock(a []string) {
	fh, err := os.Open(a[0])
	if err != nil {
		panic(err)
	}
	defer fh.Close()
	os.MkdirAll(workRoot(), 0700)
	root, err := os.MkdirTemp(workRoot(), "kvflock-")
	if err != nil {
		panic(err)
	}
	defer os.RemoveAll(root)
	sc := bufio.NewScanner(fh)
	var dir string
	hs := map[string]*fhandle{}
	n := 0
	closeAll := func() {
		for k, h := range hs {
			if h.log != nil {
				h.log.Close()
			}
			if h.child != nil {
				h.stdin.Close()
				h.child.Wait()
			}
			delete(hs, k)
		}
	}
	defer closeAll()
	var savedIdx []byte
	tornLen := int64(-1)
	var idxPath string
	for sc.Scan() {
		line := strings.TrimSpace(sc.Text())
		if line == "" || line[0] == '#' {
			continue
		}
		fmt.Fprintln(out, line)
		f := strings.Fields(line)
		res := "ok"
		switch f[0] {
		case "case":
			closeAll()
			savedIdx = nil
			tornLen = -1
			n++
			dir = filepath.Join(root, fmt.Sprintf("f%d", n))
			os.MkdirAll(dir, 0700)
			continue
		case "prep":
			l, err := klevdb.Open(dir, klevdb.Options{KeyIndex: true, TimeIndex: true, Rollover: 120})
			if err != nil {
				res = "err " + errClass(err)
				break
			}
			for i := 0; i < int(atoi(f[1])); i++ {
				l.Publish([]klevdb.Message{{Time: utime(int64(100 + i)), Key: []byte{byte('a' + i%3)}, Value: []byte{1, 2, 3, byte(i)}}})
			}
			// ... and one whose key shares its FNV-1a-64 hash with the key the "k" query looks up
			l.Publish([]klevdb.Message{{Time: utime(150), Key: unhx("dc624fd8394d8c42"), Value: []byte("collides")}})
			l.Close()
		case "o":
			if _, busy := hs[f[1]]; busy {
				res = "skip"
				break
			}
			if len(f) > 4 && f[4] == "child" {
				cmd := exec.Command(os.Args[0], "flockchild", dir, f[2], f[3])
				stdin, _ := cmd.StdinPipe()
				stdout, _ := cmd.StdoutPipe()
				if err := cmd.Start(); err != nil {
					panic(err)
				}
				rd := bufio.NewReader(stdout)
				ln, _ := rd.ReadString('\n')
				res = strings.TrimSpace(ln)
				if res == "ok" {
					hs[f[1]] = &fhandle{child: cmd, stdin: stdin}
				} else {
					stdin.Close()
					cmd.Wait()
				}
				break
			}
			l, err := klevdb.Open(dir, klevdb.Options{Readonly: f[2] == "1", Check: f[3] == "1", Recover: f[3] == "2", KeyIndex: true, TimeIndex: true, Rollover: 120})
			if err != nil {
				res = "err " + errClass(err)
			} else {
				hs[f[1]] = &fhandle{log: l}
			}
		case "c":
			h, ok := hs[f[1]]
			if !ok {
				res = "skip"
				break
			}
			if h.log != nil {
				if err := h.log.Close(); err != nil {
					res = "err " + errClass(err)
				}
			} else {
				h.stdin.Close()
				h.child.Wait()
			}
			delete(hs, f[1])
		case "p", "d":
			h, ok := hs[f[1]]
			if !ok || h.log == nil {
				res = "skip"
				break
			}
			var err error
			if f[0] == "p" {
				_, err = h.log.Publish([]klevdb.Message{{Time: utime(200), Key: []byte("z"), Value: []byte("v")}})
			} else {
				_, _, err = h.log.Delete(map[int64]struct{}{0: {}})
			}
			if err != nil {
				res = "err " + errClass(err)
			}
		case "q":
			h, ok := hs[f[1]]
			if !ok || h.log == nil {
				res = "skip"
				break
			}
			st := &hstate{dir: dir, log: h.log}
			res = "ok " + strings.Join(probe(st, []string{"scan"}), " ; ")
		case "k":
			// a by-key lookup of a key that is absent but collides with a present one: every candidate position is
			// read and rejected - a query like any other as far as locks and files are concerned
			h, ok := hs[f[1]]
			if !ok || h.log == nil {
				res = "skip"
				break
			}
			_, err1 := h.log.GetByKey(unhx("acef63b1d3c2efd2"))
			_, err2 := h.log.OffsetByKey(unhx("acef63b1d3c2efd2"))
			res = "ok " + errClass(err1) + " " + errClass(err2)
		case "corrupt":
			segs := listSegs(dir)
			if len(segs) == 0 {
				res = "skip"
				break
			}
			idxPath = segs[len(segs)-1].Index
			if f[1] == "1" && savedIdx != nil {
				break // already corrupt
			}
			if f[1] == "1" {
				b, err := os.ReadFile(idxPath)
				if err != nil || len(b) < 8 {
					res = "skip"
					break
				}
				savedIdx = append([]byte(nil), b...)
				b[7] ^= 0x03 // flags no longer match the options
				os.WriteFile(idxPath, b, 0600)
			} else if savedIdx != nil {
				os.WriteFile(idxPath, savedIdx, 0600)
				savedIdx = nil
			}
		case "tear":
			// a torn tail on the head log file (half a record of garbage), or its removal
			segs := listSegs(dir)
			if len(segs) == 0 {
				res = "skip"
				break
			}
			lp := segs[len(segs)-1].Log
			if f[1] == "1" && tornLen < 0 {
				if fi, err := os.Stat(lp); err == nil {
					tornLen = fi.Size()
					fh, _ := os.OpenFile(lp, os.O_WRONLY|os.O_APPEND, 0600)
					fh.Write([]byte{1, 2, 3, 4, 5, 6, 7, 8, 9, 10, 11, 12, 13, 14, 15, 16, 17, 18, 19, 20})
					fh.Close()
				}
			} else if f[1] == "0" && tornLen >= 0 {
				os.Truncate(lp, tornLen)
				tornLen = -1
			}
		case "rmdir":
			if f[1] == "1" {
				os.Rename(dir, dir+".gone")
			} else {
				os.Rename(dir+".gone", dir)
			}
		case "rmlock":
			// the lock file is not part of the data: a directory copied by Backup, or a fresh one, has none
			os.Remove(filepath.Join(dir, ".lock"))
		case "logsum":
			res = "ok " + logSum(dir)
		default:
			res = "err UnknownOp"
		}
		fmt.Fprintln(out, "=", res)
	}
}
