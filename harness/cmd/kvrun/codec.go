package main

import (
	"bufio"
	"errors"
	"fmt"
	"io"
	"os"
	"path/filepath"
	"strings"
	"time"

	"github.com/klev-dev/klevdb"
	"github.com/klev-dev/klevdb/pkg/index"
	"github.com/klev-dev/klevdb/pkg/message"
	"github.com/klev-dev/klevdb/pkg/segment"
	"github.com/klev-dev/klevdb/pkg/vhook"
)

// codec mode: byte-level operations through the public pkg/message, pkg/index, pkg/segment APIs

func mver(s string) message.Version {
	if s == "1" {
		return message.V1
	}
	return message.V2
}

func iver(s string) index.Version {
	if s == "1" {
		return index.V1
	}
	return index.V2
}

func parseFullMsg(tok string) klevdb.Message {
	p := strings.Split(tok, "|")
	if len(p) != 4 {
		panic("bad full msg " + tok)
	}
	return klevdb.Message{Offset: atoi(p[0]), Time: utime(atoi(p[1])), Key: unhx(p[2]), Value: unhx(p[3])}
}

func parseItem(tok string) index.Item {
	p := strings.Split(tok, "|")
	var h uint64
	fmt.Sscan(p[3], &h)
	return index.Item{Offset: atoi(p[0]), Position: atoi(p[1]), Timestamp: atoi(p[2]), KeyHash: h}
}

func fmtItem(it index.Item, p index.Params) string {
	ts, h := it.Timestamp, it.KeyHash
	if !p.Times {
		ts = 0
	}
	if !p.Keys {
		h = 0
	}
	return fmt.Sprintf("%d|%d|%d|%d", it.Offset, it.Position, ts, h)
}

func readFileHex(path string) string {
	b, err := os.ReadFile(path)
	if err != nil {
		return "none"
	}
	return hx(b)
}

func segName(dir string, base int64) segment.Segment { return segment.New(dir, base, false) }

func putFiles(dir string, base int64, lhx, ihx string) segment.Segment {
	s := segName(dir, base)
	if err := os.WriteFile(s.Log, unhx(lhx), 0600); err != nil {
		panic(err)
	}
	if ihx != "none" {
		if err := os.WriteFile(s.Index, unhx(ihx), 0600); err != nil {
			panic(err)
		}
	}
	return s
}

func codecStep(dir string, f []string) (res string) {
	defer func() {
		if r := recover(); r != nil {
			res = "err Panic"
			if debug {
				fmt.Fprintln(os.Stderr, "panic:", r)
			}
		}
	}()
	os.RemoveAll(dir)
	if err := os.MkdirAll(dir, 0700); err != nil {
		panic(err)
	}
	switch f[0] {
	case "enc":
		base := atoi(f[2])
		path := filepath.Join(dir, "x.log")
		w, err := message.OpenWriter(path, base, mver(f[1]))
		if err != nil {
			return "err " + errClass(err)
		}
		var ps []string
		for _, t := range f[3:] {
			pos, err := w.Write(parseFullMsg(t))
			if err != nil {
				return "err " + errClass(err)
			}
			ps = append(ps, fmt.Sprint(pos))
		}
		if err := w.SyncAndClose(); err != nil {
			return "err " + errClass(err)
		}
		pstr := "-"
		if len(ps) > 0 {
			pstr = strings.Join(ps, ",")
		}
		return readFileHex(path) + " " + pstr
	case "dec":
		base := atoi(f[1])
		path := filepath.Join(dir, "x.log")
		if err := os.WriteFile(path, unhx(f[2]), 0600); err != nil {
			panic(err)
		}
		var r *message.Reader
		var err error
		if f[3] == "mem" {
			r, err = message.OpenReaderMem(path, base)
		} else {
			r, err = message.OpenReader(path, base)
		}
		if err != nil {
			return "openerr " + errClass(err)
		}
		defer r.Close()
		var sb strings.Builder
		pos := r.InitialPosition()
		status := ""
		for {
			m, next, err := r.Read(pos)
			if errors.Is(err, io.EOF) {
				status = fmt.Sprintf("eof@%d", pos)
				break
			} else if err != nil {
				if !errors.Is(err, message.ErrCorrupted) {
					status = fmt.Sprintf("other@%d", pos)
				} else {
					status = fmt.Sprintf("corrupt@%d", pos)
				}
				break
			}
			fmt.Fprintf(&sb, " %d:%s", pos, fmtMsg(m))
			pos = next
		}
		v := "2"
		if r.Version() == message.V1 {
			v = "1"
		}
		return "v" + v + " " + status + sb.String()
	case "ienc":
		p := index.Params{Times: f[2] == "1", Keys: f[3] == "1"}
		base := atoi(f[4])
		path := filepath.Join(dir, "x.index")
		var items []index.Item
		for _, t := range f[5:] {
			items = append(items, parseItem(t))
		}
		if err := index.Write(path, base, iver(f[1]), p, items); err != nil {
			return "err " + errClass(err)
		}
		return readFileHex(path)
	case "idec":
		p := index.Params{Times: f[1] == "1", Keys: f[2] == "1"}
		base := atoi(f[3])
		path := filepath.Join(dir, "x.index")
		if err := os.WriteFile(path, unhx(f[4]), 0600); err != nil {
			panic(err)
		}
		items, err := index.Read(path, base, p)
		if err != nil {
			return "err " + errClass(err)
		}
		var sb strings.Builder
		sb.WriteString("ok")
		for _, it := range items {
			sb.WriteString(" " + fmtItem(it, p))
		}
		return sb.String()
	case "check":
		p := index.Params{Times: f[1] == "1", Keys: f[2] == "1"}
		s := putFiles(dir, atoi(f[3]), f[4], f[5])
		if err := s.Check(p); err != nil {
			return "err " + errClass(err)
		}
		return "ok"
	case "recover":
		p := index.Params{Times: f[1] == "1", Keys: f[2] == "1"}
		s := putFiles(dir, atoi(f[3]), f[4], f[5])
		// the file-system steps of Recover as the tap sees them (compared with RecoverCrash.recover_prog)
		var steps []string
		nm := func(x string) string {
			switch x {
			case s.Log:
				return "log"
			case s.Log + ".recover":
				return "rtmp"
			case s.Index:
				return "idx"
			case s.Index + ".tmp":
				return "itmp"
			}
			if x == dir {
				return "dir"
			}
			return "?" + filepath.Base(x)
		}
		vhook.SetFS(func(kind, path string, n int64) {
			parts := strings.Split(path, " ")
			for i := range parts {
				parts[i] = nm(parts[i])
			}
			ev := kind + ":" + strings.Join(parts, ">")
			if kind == "write" || kind == "create" {
				ev += fmt.Sprintf(":%d", n)
			}
			steps = append(steps, ev)
		})
		err := s.Recover(p)
		vhook.SetFS(nil)
		if err != nil {
			return "err " + errClass(err)
		}
		// nothing else may be left behind
		ents, _ := os.ReadDir(dir)
		extra := ""
		for _, en := range ents {
			if filepath.Join(dir, en.Name()) != s.Log && filepath.Join(dir, en.Name()) != s.Index {
				extra += " extra:" + strings.TrimLeft(en.Name(), "0")
			}
		}
		return "ok " + readFileHex(s.Log) + " " + readFileHex(s.Index) + extra + " steps=" + strings.Join(steps, ",")
	case "migrate":
		// migrate mv iv t k base loghex idxhex: Segment.Migrate with the FS tap; the files afterwards and the steps
		p := index.Params{Times: f[3] == "1", Keys: f[4] == "1"}
		s := putFiles(dir, atoi(f[5]), f[6], f[7])
		if len(f) > 8 && strings.HasPrefix(f[8], "stale:") {
			// what a migration that died half-way left behind
			if err := os.WriteFile(s.Log+".migrate", unhx(f[8][6:]), 0o600); err != nil {
				panic(err)
			}
		}
		var steps []string
		nm := func(x string) string {
			switch x {
			case s.Log:
				return "log"
			case s.Log + ".migrate":
				return "rtmp"
			case s.Index:
				return "idx"
			case s.Index + ".tmp":
				return "itmp"
			}
			return "?" + filepath.Base(x)
		}
		vhook.SetFS(func(kind, path string, n int64) {
			parts := strings.Split(path, " ")
			for i := range parts {
				parts[i] = nm(parts[i])
			}
			ev := kind + ":" + strings.Join(parts, ">")
			if kind == "write" || kind == "create" {
				ev += fmt.Sprintf(":%d", n)
			}
			steps = append(steps, ev)
		})
		iv := index.V2
		if f[2] == "1" {
			iv = index.V1
		}
		err := s.Migrate(mver(f[1]), iv, p)
		vhook.SetFS(nil)
		if err != nil {
			return "err " + errClass(err)
		}
		ents, _ := os.ReadDir(dir)
		extra := ""
		for _, en := range ents {
			if filepath.Join(dir, en.Name()) != s.Log && filepath.Join(dir, en.Name()) != s.Index {
				extra += " extra:" + strings.TrimLeft(en.Name(), "0")
			}
		}
		return "ok " + readFileHex(s.Log) + " " + readFileHex(s.Index) + extra + " steps=" + strings.Join(steps, ",")
	case "segbk":
		// segbk base srclog srcidx mtL mtI tgtlog|none tmtL tgtidx|none tmtI: Segment.Backup of one segment into a target
		// directory holding these files with these modification times (seconds); the target's files and times afterwards
		s := putFiles(dir, atoi(f[1]), f[2], f[3])
		setMt := func(path, secs string) {
			t := time.Unix(atoi(secs), 0)
			if err := os.Chtimes(path, t, t); err != nil {
				panic(err)
			}
		}
		setMt(s.Log, f[4])
		setMt(s.Index, f[5])
		tdir := dir + ".t"
		os.RemoveAll(tdir)
		if err := os.MkdirAll(tdir, 0700); err != nil {
			panic(err)
		}
		defer os.RemoveAll(tdir)
		tl, ti := filepath.Join(tdir, filepath.Base(s.Log)), filepath.Join(tdir, filepath.Base(s.Index))
		if f[6] != "none" {
			if err := os.WriteFile(tl, unhx(f[6]), 0600); err != nil {
				panic(err)
			}
			setMt(tl, f[7])
		}
		if f[8] != "none" {
			if err := os.WriteFile(ti, unhx(f[8]), 0600); err != nil {
				panic(err)
			}
			setMt(ti, f[9])
		}
		if err := s.Backup(tdir); err != nil {
			return "err " + errClass(err)
		}
		mt := func(path string) int64 {
			fi, err := os.Stat(path)
			if err != nil {
				return -1
			}
			return fi.ModTime().Unix()
		}
		return fmt.Sprintf("ok %s %d %s %d", readFileHex(tl), mt(tl), readFileHex(ti), mt(ti))
	case "pubseg":
		// pubseg t k base loghex idxhex msgs...: Open, Publish, Close on a directory with this one segment
		p := index.Params{Times: f[1] == "1", Keys: f[2] == "1"}
		s := putFiles(dir, atoi(f[3]), f[4], f[5])
		lg, err := klevdb.Open(dir, klevdb.Options{KeyIndex: p.Keys, TimeIndex: p.Times, Rollover: 100000000})
		if err != nil {
			return "err " + errClass(err)
		}
		var msgs []klevdb.Message
		for _, t := range f[6:] {
			msgs = append(msgs, parseMsg(t))
		}
		if _, err := lg.Publish(msgs); err != nil {
			lg.Close()
			return "err " + errClass(err)
		}
		if err := lg.Close(); err != nil {
			return "err " + errClass(err)
		}
		return "ok " + readFileHex(s.Log) + " " + readFileHex(s.Index)
	case "dirq":
		// dirq t k ro n (base loghex idxhex)*n -- queries: open with default options and query
		p := index.Params{Times: f[1] == "1", Keys: f[2] == "1"}
		n := int(atoi(f[4]))
		i := 5
		for j := 0; j < n; j++ {
			putFiles(dir, atoi(f[i]), f[i+1], f[i+2])
			i += 3
		}
		if f[i] != "--" {
			panic("dirq: expected --")
		}
		lg, err := klevdb.Open(dir, klevdb.Options{KeyIndex: p.Keys, TimeIndex: p.Times, Readonly: f[3] == "1", Rollover: 100000000})
		if err != nil {
			return "openerr " + errClass(err)
		}
		defer lg.Close()
		var outs []string
		for _, q := range f[i+1:] {
			outs = append(outs, safeQuery(lg, strings.Split(q, ":")))
		}
		return strings.Join(outs, " ; ")
	case "hash":
		return fmt.Sprint(index.KeyHash(unhx(f[1])))
	}
	return "err UnknownOp"
}

func safeQuery(l klevdb.Log, q []string) (res string) {
	defer func() {
		if r := recover(); r != nil {
			res = "err Panic"
		}
	}()
	switch q[0] {
	case "cons":
		return doCons(l, atoi(q[1]), atoi(q[2]))
	case "get":
		return doGet(l, atoi(q[1]))
	case "getk":
		return doGetK(l, unhx(q[1]))
	case "gett":
		return doGetT(l, atoi(q[1]))
	case "consk":
		return doConsK(l, unhx(q[1]), atoi(q[2]), atoi(q[3]))
	}
	return "err UnknownQuery"
}

func runCodec(a []string) {
	fh, err := os.Open(a[0])
	if err != nil {
		panic(err)
	}
	defer fh.Close()
	if err := os.MkdirAll(workRoot(), 0700); err != nil {
		panic(err)
	}
	root, err := os.MkdirTemp(workRoot(), "kvcodec-")
	if err != nil {
		panic(err)
	}
	defer os.RemoveAll(root)
	sc := bufio.NewScanner(fh)
	sc.Buffer(make([]byte, 1<<20), 1<<28)
	for sc.Scan() {
		line := strings.TrimSpace(sc.Text())
		if line == "" || line[0] == '#' {
			continue
		}
		fmt.Fprintln(out, line)
		if strings.HasPrefix(line, "case ") {
			continue
		}
		fmt.Fprintln(out, "=", codecStep(filepath.Join(root, "d"), strings.Fields(line)))
	}
}
