package main

import (
	"fmt"
	"os"
	"strings"
	"sync"
	"time"

	"github.com/anishathalye/porcupine"
	"github.com/klev-dev/klevdb"
	"github.com/klev-dev/klevdb/pkg/vhook"
)

// cpause <rollover> <setup> <point> <A> <B> [<C>]
//   setup: ops separated by ';' run sequentially first (same op syntax as A/B/C)
//   op syntax: pub:<v1>,<v2> | cons:<off>:<max> | get:<off> | del:<o1>,<o2> | next | sync | gc | stat | gett:<ts> | getk:<letter> | consk:<letter>:<off>:<max>
// A runs in its own goroutine and is held at the first hit of <point>; while it is held B (and C) run to
// completion (or stay blocked until A resumes); then A resumes.  The recorded history must be linearizable.
func parseConcOp(s string) cinput {
	p := strings.Split(s, ":")
	switch p[0] {
	case "pub":
		return cinput{op: "pub", vals: strings.Split(p[1], ",")}
	case "cons":
		return cinput{op: "cons", off: atoi(p[1]), max: atoi(p[2])}
	case "get":
		return cinput{op: "get", off: atoi(p[1])}
	case "gett":
		return cinput{op: "gett", off: atoi(p[1])}
	case "getk":
		return cinput{op: "getk", key: p[1]}
	case "consk":
		return cinput{op: "consk", key: p[1], off: atoi(p[2]), max: atoi(p[3])}
	case "del":
		var offs []int64
		for _, x := range strings.Split(p[1], ",") {
			offs = append(offs, atoi(x))
		}
		return cinput{op: "del", offs: offs}
	}
	return cinput{op: p[0]}
}

func concPause(dir string, a []string) string {
	os.RemoveAll(dir)
	os.MkdirAll(dir, 0700)
	l, err := klevdb.Open(dir, concOpts(a[0]))
	if err != nil {
		return "err open " + errClass(err)
	}
	defer l.Close()
	rec := &concRec{}
	start := time.Now()
	run := func(cid int, in cinput) {
		call := time.Since(start).Nanoseconds()
		out := doConcOp(l, in)
		ret := time.Since(start).Nanoseconds()
		rec.add(porcupine.Operation{ClientId: cid, Input: in, Call: call, Output: out, Return: ret})
	}
	if a[1] != "-" {
		for _, s := range strings.Split(a[1], ";") {
			run(0, parseConcOp(s))
		}
	}
	point := a[2]
	var aGoid int64
	arrived := make(chan struct{}, 1)
	release := make(chan struct{})
	var once sync.Once
	vhook.SetPause(func(p string) {
		if p == point && goid() == aGoid {
			hit := false
			once.Do(func() { hit = true })
			if hit {
				arrived <- struct{}{}
				<-release
			}
		}
	})
	defer vhook.SetPause(nil)
	aDone := make(chan struct{})
	ready := make(chan struct{})
	go func() {
		aGoid = goid()
		close(ready)
		run(1, parseConcOp(a[3]))
		close(aDone)
	}()
	<-ready
	held := false
	select {
	case <-arrived:
		held = true
	case <-aDone:
	case <-time.After(20 * time.Second):
		return "err Hang A"
	}
	var post []string
	inside := a[4:]
	for i, s := range inside {
		if s == "--" {
			post = inside[i+1:]
			inside = inside[:i]
			break
		}
	}
	var wg sync.WaitGroup
	for i, s := range inside {
		wg.Add(1)
		go func(cid int, in cinput) {
			defer wg.Done()
			run(cid, in)
		}(2+i, parseConcOp(s))
		// B before C: let B finish (or block) first
		time.Sleep(3 * time.Millisecond)
	}
	others := make(chan struct{})
	go func() { wg.Wait(); close(others) }()
	select {
	case <-others:
	case <-time.After(40 * time.Millisecond):
		// blocked on a lock A holds: they will finish after A resumes
	}
	if held {
		close(release)
	}
	select {
	case <-aDone:
	case <-time.After(20 * time.Second):
		return "err Hang A-resume"
	}
	select {
	case <-others:
	case <-time.After(20 * time.Second):
		return "err Hang others"
	}
	// calls after everything has returned: what the log looks like now
	for _, s := range post {
		run(9, parseConcOp(s))
	}
	res := judge(rec.ops)
	if !held {
		res += " (point-not-hit)"
	}
	// the outcome in canonical form, for the comparison with the protocol model (Conc.v): what A, B, C returned and
	// the live messages / NextOffset afterwards
	var sb strings.Builder
	for cid := 1; cid <= 3; cid++ {
		for _, o := range rec.ops {
			if o.ClientId == cid {
				fmt.Fprintf(&sb, " c%d=%s", cid, outcomeOf(o.Input.(cinput), o.Output.(coutput)))
			}
		}
	}
	var live []string
	off := klevdb.OffsetOldest
	for i := 0; i < 1000; i++ {
		n, ms, err := l.Consume(off, 32)
		if err != nil || len(ms) == 0 {
			break
		}
		for _, m := range ms {
			live = append(live, msgId(m))
		}
		off = n
	}
	nx, _ := l.NextOffset()
	fmt.Fprintf(&sb, " live=%s next=%d", strings.Join(live, ","), nx)
	return res + " |" + sb.String()
}

func outcomeOf(in cinput, out coutput) string {
	if out.err != "" {
		return "err:" + out.err
	}
	switch in.op {
	case "pub", "next", "sync":
		return fmt.Sprintf("n:%d", out.next)
	case "gc", "stat":
		return "ok"
	case "cons", "consk":
		return fmt.Sprintf("n:%d:%s", out.next, strings.Join(out.msgs, ","))
	default:
		return "m:" + strings.Join(out.msgs, ",")
	}
}

var _ = fmt.Sprint
