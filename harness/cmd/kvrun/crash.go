package main

import (
	"bufio"
	"fmt"
	"os"
	"path/filepath"
	"sort"
	"strings"

	"github.com/klev-dev/klevdb/pkg/vhook"
)

// crash mode: run a workload with the FS event tap, keep the directory image after every
// file-system mutation (plus torn variants of appends), then recover every image and observe it.

type fsEvent struct {
	kind  string
	path  string // base names, space separated
	n     int64
	opIdx int
	op    string
	image map[string][]byte
	synced map[string]int64 // per file: length covered by the last fsync (C06)
}

func snapshotDir(dir string) map[string][]byte {
	res := map[string][]byte{}
	ents, _ := os.ReadDir(dir)
	for _, en := range ents {
		if en.Name() == ".lock" || en.IsDir() {
			continue
		}
		b, err := os.ReadFile(filepath.Join(dir, en.Name()))
		if err == nil {
			res[en.Name()] = b
		}
	}
	return res
}

func baseNames(p string) string {
	var out []string
	for _, f := range strings.Fields(p) {
		out = append(out, filepath.Base(f))
	}
	return strings.Join(out, " ")
}

func canonName(n string) string {
	if i := strings.Index(n, ".rewrite."); i >= 0 {
		return n[:i] + ".rewrite.X"
	}
	return n
}

// the target of a rename event ("<from> <to>"), canonical; "" for other events
func renameTarget(n string) string {
	if j := strings.Index(n, " "); j >= 0 {
		return canonName(n[j+1:])
	}
	return ""
}

func loaddirLine(img map[string][]byte) string {
	var names []string
	for n := range img {
		names = append(names, n)
	}
	sort.Strings(names)
	var sb strings.Builder
	sb.WriteString("loaddir")
	for _, n := range names {
		fmt.Fprintf(&sb, " %s:%s", canonName(n), hx(img[n]))
	}
	return sb.String()
}

func materialize(dir string, img map[string][]byte) {
	os.RemoveAll(dir)
	if err := os.MkdirAll(dir, 0700); err != nil {
		panic(err)
	}
	for n, b := range img {
		if err := os.WriteFile(filepath.Join(dir, n), b, 0600); err != nil {
			panic(err)
		}
	}
}

func runOps(st *hstate, ops []string, echo bool) {
	for _, o := range ops {
		fmt.Fprintln(out, o)
		for _, r := range guardedStep(st, strings.Fields(o)) {
			fmt.Fprintln(out, "=", r)
		}
	}
}

// observeImage prints the transcript of recovering one image
func observeImage(root, name, header string, img map[string][]byte, openLine string, keys, times string, probeKeys string) {
	dir := filepath.Join(root, "img")
	materialize(dir, img)
	st := &hstate{dir: dir}
	fmt.Fprintln(out, "case", name)
	fmt.Fprintln(out, "#"+header)
	fmt.Fprintln(out, loaddirLine(img))
	fmt.Fprintln(out, "= ok")
	runOps(st, []string{openLine}, true)
	if st.log != nil {
		// scan, then declare the scanned log as the abstract state the other views are checked against
		fmt.Fprintln(out, "probe scan")
		res := guardedStep(st, []string{"probe", "scan"})
		var msgs []string
		next := "0"
		for _, r := range res {
			fmt.Fprintln(out, "=", r)
			f := strings.Fields(r)
			if len(f) >= 4 && f[0] == "next" && f[2] == "ok" {
				next = f[3]
			}
			if len(f) >= 5 && f[0] == "scan" && f[3] == "ok" {
				msgs = append(msgs, f[5:]...)
			}
		}
		fmt.Fprintln(out, "setlog", next, strings.Join(msgs, " "))
		fmt.Fprintln(out, "= ok")
		ops := []string{"probe get 1", "stat", "disksize"}
		if keys == "1" {
			ops = append(ops, "probe keys "+probeKeys)
		}
		if times == "1" {
			ops = append(ops, "probe times 95 135")
		}
		ops = append(ops, "close", "files", openLine, "probe scan", "close", "files", openLine,
			"pub 140|6b|7072", "probe scan", "close", "checkall",
			// what was appended and closed after the recovery must survive the next recovery
			openLine, "probe scan", "close")
		runOps(st, ops, true)
	}
	if st.log != nil {
		st.log.Close()
	}
	os.RemoveAll(dir)
}

func runCrash(a []string) {
	fh, err := os.Open(a[0])
	if err != nil {
		panic(err)
	}
	defer fh.Close()
	if err := os.MkdirAll(workRoot(), 0700); err != nil {
		panic(err)
	}
	root, err := os.MkdirTemp(workRoot(), "kvcrash-")
	if err != nil {
		panic(err)
	}
	defer os.RemoveAll(root)

	// read cases
	type wl struct {
		name string
		ops  []string
	}
	var cases []wl
	sc := bufio.NewScanner(fh)
	sc.Buffer(make([]byte, 1<<20), 1<<26)
	for sc.Scan() {
		line := strings.TrimSpace(sc.Text())
		if line == "" || line[0] == '#' {
			continue
		}
		if strings.HasPrefix(line, "case ") {
			cases = append(cases, wl{name: line[5:]})
		} else {
			cases[len(cases)-1].ops = append(cases[len(cases)-1].ops, line)
		}
	}
	const probeKeys = "-,=,61,62,6100,6b"
	for _, c := range cases {
		dir := filepath.Join(root, "run")
		os.RemoveAll(dir)
		os.MkdirAll(dir, 0700)
		st := &hstate{dir: dir}
		var events []fsEvent
		cur, curOp := -1, ""
		synced := map[string]int64{}
		vhook.SetFS(func(kind, path string, n int64) {
			if !strings.HasPrefix(path, dir) {
				return
			}
			names := baseNames(path)
			switch kind {
			case "fsync":
				synced[names] = n
			case "rename":
				f := strings.Fields(names)
				if v, ok := synced[f[0]]; ok {
					synced[f[1]] = v
					delete(synced, f[0])
				} else {
					delete(synced, f[1])
				}
			case "remove":
				delete(synced, names)
			case "create":
				synced[names] = 0
			case "write":
				// the first append to a file this process has neither created nor fsynced: what it held before
				// (written and closed by an earlier session) is on stable storage, the new bytes are not
				if _, ok := synced[names]; !ok {
					if fi, err := os.Stat(filepath.Join(dir, names)); err == nil {
						synced[names] = fi.Size() - n
					}
				}
			}
			sc := map[string]int64{}
			for k, v := range synced {
				sc[k] = v
			}
			events = append(events, fsEvent{kind: kind, path: names, n: n, opIdx: cur, op: curOp,
				image: snapshotDir(dir), synced: sc})
		})
		fmt.Fprintln(out, "case", c.name+"@run")
		keys, times := "0", "0"
		lastOpen := ""
		for i, o := range c.ops {
			cur, curOp = i, o
			f := strings.Fields(o)
			if f[0] == "open" {
				keys, times = f[2], f[3]
				lastOpen = o
			}
			fmt.Fprintln(out, o)
			for _, r := range guardedStep(st, f) {
				fmt.Fprintln(out, "=", r)
			}
			// the moment the call returns: no file-system step, but the point at which what it acknowledged must be
			// on stable storage (a call that skipped its fsync leaves no event of its own to hang a power loss on)
			sc := map[string]int64{}
			for k, v := range synced {
				sc[k] = v
			}
			events = append(events, fsEvent{kind: "return", path: "-", n: 0, opIdx: i, op: o, image: snapshotDir(dir), synced: sc})
		}
		vhook.SetFS(nil)
		if st.log != nil {
			st.log.Close()
			st.log = nil
		}
		// the open line used for recovery: same index configuration, Recover on, no eager migrate
		lf := strings.Fields(lastOpen)
		lf[1], lf[6], lf[7], lf[10] = "0", "0", "1", "0"
		openLine := strings.Join(lf, " ")
		for k, ev := range events {
			hdr := fmt.Sprintf("ev k=%d kind=%s path=%s n=%d inflight=%d synced=%s", k+1, ev.kind,
				strings.ReplaceAll(canonName(ev.path), " ", ","), ev.n, ev.opIdx, syncedStr(ev.synced))
			if to := renameTarget(ev.path); to != "" {
				hdr += " to=" + to
			}
			if first := strings.SplitN(ev.path, " ", 2)[0]; strings.HasSuffix(first, ".tmp") {
				hdr += " tmp=1" // a step of index.Write's temporary file, not of the segment swap
			}
			if ev.kind != "return" {
				observeImage(root, fmt.Sprintf("%s@%d", c.name, k+1), hdr, ev.image, openLine, keys, times, probeKeys)
			}
			// power loss (C06): at the last event of each API call, files lose unsynced tails
			if k+1 == len(events) || events[k+1].opIdx != ev.opIdx {
				for pi, img := range powerLossImages(ev) {
					observeImage(root, fmt.Sprintf("%s@%d~pl%d", c.name, k+1, pi), hdr+fmt.Sprintf(" powerloss=%d", pi),
						img, openLine, keys, times, probeKeys)
				}
			}
			if ev.kind == "create" && ev.n > 1 && strings.HasSuffix(ev.path, ".index") {
				// the header of a new index file written only in part (a torn log header is refused by design and by an
				// existing test; an index file shorter than its header is rebuilt)
				full := ev.image[ev.path]
				for _, j := range []int64{1, 3, 7} {
					if j >= int64(len(full)) {
						continue
					}
					img := map[string][]byte{}
					for n, b := range ev.image {
						img[n] = b
					}
					img[ev.path] = full[:j]
					observeImage(root, fmt.Sprintf("%s@%d.h%d", c.name, k+1, j), hdr+fmt.Sprintf(" torn=%d", j),
						img, openLine, keys, times, probeKeys)
				}
			}
			if ev.kind == "write" && ev.n > 1 {
				// torn variants of this append
				full := ev.image[ev.path]
				start := int64(len(full)) - ev.n
				for _, j := range tornCuts(ev.n) {
					img := map[string][]byte{}
					for n, b := range ev.image {
						img[n] = b
					}
					img[ev.path] = full[:start+j]
					observeImage(root, fmt.Sprintf("%s@%d.%d", c.name, k+1, j), hdr+fmt.Sprintf(" torn=%d", j),
						img, openLine, keys, times, probeKeys)
				}
			}
		}
		os.RemoveAll(dir)
	}
}

// powerLossImages: every file independently cut back to its last fsynced length (never inside the
// 8-byte file header); directory operations are durable in program order.
func powerLossImages(ev fsEvent) []map[string][]byte {
	cut := func(name string, b []byte) []byte {
		s, ok := ev.synced[name]
		if !ok {
			return b // not written by this process since it was opened: durable
		}
		if s > int64(len(b)) {
			s = int64(len(b))
		}
		if s < 8 && len(b) >= 8 && b[0] == 0xFF {
			s = 8
		}
		return b[:s]
	}
	var res []map[string][]byte
	all := map[string][]byte{}
	changed := false
	for n, b := range ev.image {
		all[n] = cut(n, b)
		if len(all[n]) != len(b) {
			changed = true
		}
	}
	if !changed {
		if ev.kind == "return" {
			// nothing to lose: the directory as it is when the call returns must still recover to what was acknowledged
			return []map[string][]byte{all}
		}
		return nil
	}
	res = append(res, all)
	var names []string
	for n := range ev.image {
		names = append(names, n)
	}
	sort.Strings(names)
	for _, n := range names {
		c := cut(n, ev.image[n])
		if len(c) == len(ev.image[n]) {
			continue
		}
		one := map[string][]byte{}
		for m, b := range ev.image {
			one[m] = b
		}
		one[n] = c
		res = append(res, one)
		// and cuts inside the unsynced tail: the middle, and around the 28-byte record header of the first
		// unsynced record (a file keeps any prefix at least as long as what was fsynced)
		seen := map[int]bool{len(c): true, len(ev.image[n]): true}
		for _, at := range []int{(len(c) + len(ev.image[n])) / 2, len(c) + 1, len(c) + 27, len(c) + 28, len(c) + 29, len(c) + 36,
			len(ev.image[n]) - 1} {
			if at > len(c) && at < len(ev.image[n]) && !seen[at] {
				seen[at] = true
				two := map[string][]byte{}
				for m, b := range ev.image {
					two[m] = b
				}
				two[n] = ev.image[n][:at]
				res = append(res, two)
			}
		}
	}
	return res
}

func syncedStr(m map[string]int64) string {
	var ks []string
	for k := range m {
		ks = append(ks, k)
	}
	sort.Strings(ks)
	var out []string
	for _, k := range ks {
		out = append(out, fmt.Sprintf("%s=%d", canonName(k), m[k]))
	}
	if len(out) == 0 {
		return "-"
	}
	return strings.Join(out, ",")
}

// every cut for short appends, a spread (incl. around the 28-byte record header) for longer ones
func tornCuts(n int64) []int64 {
	var res []int64
	if n <= 48 || os.Getenv("KV_ALLCUTS") != "" {
		for j := int64(1); j < n; j++ {
			res = append(res, j)
		}
		return res
	}
	seen := map[int64]bool{}
	for _, j := range []int64{1, 2, 4, 8, 12, 20, 27, 28, 29, 35, 36, n / 2, n - 9, n - 8, n - 7, n - 1} {
		if j >= 1 && j < n && !seen[j] {
			seen[j] = true
			res = append(res, j)
		}
	}
	sort.Slice(res, func(a, b int) bool { return res[a] < res[b] })
	return res
}
