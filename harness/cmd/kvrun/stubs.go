package main

func runSeg(a []string)    { panic("not built yet") }
func runPure(a []string)   { panic("not built yet") }
func damage(st *hstate, a []string) []string { return []string{"err UnknownOp"} }
