// kvrun executes histories of the shared history language against the real
// klevdb built from /repo's working tree and prints canonical observations.
package main

import (
	"bufio"
	"context"
	"encoding/hex"
	"errors"
	"fmt"
	"io"
	"os"
	"path/filepath"
	"sort"
	"strconv"
	"strings"
	"time"

	"github.com/klev-dev/klevdb"
	"github.com/klev-dev/klevdb/pkg/index"
	"github.com/klev-dev/klevdb/pkg/message"
	"github.com/klev-dev/klevdb/pkg/segment"
)

var out *bufio.Writer
var debug = os.Getenv("KV_DEBUG") != ""

func main() {
	if len(os.Args) < 2 {
		fmt.Fprintln(os.Stderr, "usage: kvrun <sub> ...")
		os.Exit(2)
	}
	out = bufio.NewWriterSize(os.Stdout, 1<<20)
	defer out.Flush()
	switch os.Args[1] {
	case "hist":
		runHist(os.Args[2])
	case "codec":
		runCodec(os.Args[2:])
	case "pure":
		runPure(os.Args[2:])
	case "seg":
		runSeg(os.Args[2:])
	case "crash":
		runCrash(os.Args[2:])
	case "notify":
		runNotify(os.Args[2:])
	case "blocking":
		runBlocking(os.Args[2:])
	case "conc":
		runConc(os.Args[2:])
	case "flock":
		runFlock(os.Args[2:])
	case "flockchild":
		runFlockChild(os.Args[2:])
	default:
		fmt.Fprintln(os.Stderr, "unknown sub-command", os.Args[1])
		os.Exit(2)
	}
}

// ---------------------------------------------------------------------------
// canonical printing

func hx(b []byte) string {
	if len(b) == 0 {
		return "-"
	}
	return hex.EncodeToString(b)
}

func unhx(s string) []byte {
	if s == "-" {
		return nil
	}
	if s == "=" {
		return []byte{} // present but empty: the same key (or value) as nil
	}
	b, err := hex.DecodeString(s)
	if err != nil {
		panic("bad hex " + s)
	}
	return b
}

func fmtMsg(m klevdb.Message) string {
	return fmt.Sprintf("%d|%d|%s|%s", m.Offset, m.Time.UnixMicro(), hx(m.Key), hx(m.Value))
}

func fmtMsgs(ms []klevdb.Message) string {
	var sb strings.Builder
	for _, m := range ms {
		sb.WriteByte(' ')
		sb.WriteString(fmtMsg(m))
	}
	return sb.String()
}

func errClass(err error) string {
	switch {
	case err == nil:
		return "ok"
	case errors.Is(err, klevdb.ErrNoIndex):
		return "NoIndex"
	case errors.Is(err, klevdb.ErrReadonly):
		return "Readonly"
	case errors.Is(err, klevdb.ErrNotFound):
		return "NotFound"
	case errors.Is(err, klevdb.ErrInvalidOffset):
		return "InvalidOffset"
	case errors.Is(err, message.ErrCorrupted):
		return "LogCorrupted"
	case errors.Is(err, index.ErrCorrupted):
		return "IndexCorrupted"
	case errors.Is(err, os.ErrNotExist):
		return "NotExist"
	case strings.Contains(err.Error(), "locked"):
		return "Locked"
	case strings.Contains(err.Error(), "message too big"):
		return "TooBig"
	case errors.Is(err, context.Canceled), errors.Is(err, context.DeadlineExceeded):
		return "Canceled"
	default:
		return "Other"
	}
}

func parseMsg(tok string) klevdb.Message {
	p := strings.Split(tok, "|")
	if len(p) != 3 {
		panic("bad msg " + tok)
	}
	t, err := strconv.ParseInt(p[0], 10, 64)
	if err != nil {
		panic(err)
	}
	return klevdb.Message{
		Offset: -77, // garbage: must be ignored by Publish
		Time:   time.UnixMicro(t).UTC(),
		Key:    unhx(p[1]),
		Value:  unhx(p[2]),
	}
}

var pubKeyBufs, pubValBufs [][]byte

// temporary files planted by "rmindex ... stale": left out of the directory listings (the model has no temporary files)
var plantedTmp = map[string]bool{}

// reuseBuf copies b into the i-th buffer of the pool (grown on demand, never reallocated while large enough) and
// returns the slice of that buffer; nil stays nil
func reuseBuf(pool *[][]byte, i int, b []byte) []byte {
	if b == nil {
		return nil
	}
	for len(*pool) <= i {
		*pool = append(*pool, make([]byte, 0, 256))
	}
	if cap((*pool)[i]) < len(b) {
		(*pool)[i] = make([]byte, 0, 2*len(b))
	}
	buf := (*pool)[i][:len(b)]
	copy(buf, b)
	return buf
}

func parseOffsets(tok string) map[int64]struct{} {
	res := map[int64]struct{}{}
	if tok == "-" || tok == "" {
		return res
	}
	for _, s := range strings.Split(tok, ",") {
		v, err := strconv.ParseInt(s, 10, 64)
		if err != nil {
			panic(err)
		}
		res[v] = struct{}{}
	}
	return res
}

func fmtOffsets(m map[int64]struct{}) string {
	if len(m) == 0 {
		return " -"
	}
	var l []int64
	for k := range m {
		l = append(l, k)
	}
	sort.Slice(l, func(i, j int) bool { return l[i] < l[j] })
	var sb strings.Builder
	sb.WriteByte(' ')
	for i, v := range l {
		if i > 0 {
			sb.WriteByte(',')
		}
		sb.WriteString(strconv.FormatInt(v, 10))
	}
	return sb.String()
}

func atoi(s string) int64 {
	v, err := strconv.ParseInt(s, 10, 64)
	if err != nil {
		panic(err)
	}
	return v
}

// ---------------------------------------------------------------------------
// history runner

type hstate struct {
	dir   string
	log   klevdb.Log
	opts  klevdb.Options
	keys  bool
	times bool
	dead  bool
	roSum string // checksum of the *.log files taken before a read-only Open
}

func workRoot() string {
	if w := os.Getenv("KV_WORK"); w != "" {
		return w
	}
	return "/verif/.work"
}

func parseOpen(f []string) klevdb.Options {
	// open ro keys times autosync rollover check recover ver keeprw eager
	b := func(i int) bool { return f[i] == "1" }
	o := klevdb.Options{
		Readonly:  b(1),
		KeyIndex:  b(2),
		TimeIndex: b(3),
		AutoSync:  b(4),
		Rollover:  atoi(f[5]),
		Check:     b(6),
		Recover:   b(7),
	}
	switch f[8] {
	case "1":
		o.Version.NewSegmentsVersion = klevdb.V1
	case "2":
		o.Version.NewSegmentsVersion = klevdb.V2
	}
	o.Version.KeepRewriteVersion = b(9)
	o.Version.EagerVersionMigrate = b(10)
	return o
}

func runHist(path string) {
	fh, err := os.Open(path)
	if err != nil {
		panic(err)
	}
	defer fh.Close()
	root, err := os.MkdirTemp(workRoot(), "kvrun-")
	if err != nil {
		if err2 := os.MkdirAll(workRoot(), 0700); err2 != nil {
			panic(err2)
		}
		root, err = os.MkdirTemp(workRoot(), "kvrun-")
		if err != nil {
			panic(err)
		}
	}
	defer os.RemoveAll(root)

	sc := bufio.NewScanner(fh)
	sc.Buffer(make([]byte, 1<<20), 1<<26)
	var st *hstate
	n := 0
	finish := func() {
		if st != nil {
			if st.log != nil && !st.dead {
				_ = st.log.Close()
			}
			os.RemoveAll(st.dir)
		}
	}
	for sc.Scan() {
		line := strings.TrimSpace(sc.Text())
		if line == "" || line[0] == '#' {
			continue
		}
		f := strings.Fields(line)
		if f[0] == "case" {
			finish()
			n++
			st = &hstate{dir: filepath.Join(root, fmt.Sprintf("c%d", n))}
			if err := os.MkdirAll(st.dir, 0700); err != nil {
				panic(err)
			}
			fmt.Fprintln(out, line)
			continue
		}
		// a symbolic size target "S<k>d<d>": the Stat size minus Size(m) of the first k live messages, plus d
		if (f[0] == "finds" || f[0] == "trims") && len(f) > 1 && strings.HasPrefix(f[1], "S") && st.log != nil && !st.dead {
			if t, ok := sizeTarget(st.log, f[1]); ok {
				f[1] = strconv.FormatInt(t, 10)
				fmt.Fprintln(out, f[0], f[1])
				fmt.Fprintln(out, "= target", f[1])
			} else {
				fmt.Fprintln(out, line)
			}
		} else {
			fmt.Fprintln(out, line)
		}
		res := guardedStep(st, f)
		for _, r := range res {
			fmt.Fprintln(out, "=", r)
		}
		if debug {
			out.Flush()
		}
	}
	finish()
}

func sizeTarget(l klevdb.Log, tok string) (int64, bool) {
	body := tok[1:]
	i := strings.Index(body, "d")
	if i < 0 {
		return 0, false
	}
	k, d := atoi(body[:i]), atoi(body[i+1:])
	st, err := l.Stat()
	if err != nil {
		return 0, false
	}
	target := st.Size
	off, n := klevdb.OffsetOldest, int64(0)
	for n < k {
		next, msgs, err := l.Consume(off, 32)
		if err != nil || len(msgs) == 0 {
			break
		}
		for _, m := range msgs {
			if n >= k {
				break
			}
			target -= l.Size(m)
			n++
		}
		off = next
	}
	return target + d, true
}

// guardedStep runs one op with a watchdog: a call that never returns (e.g. a lock left held by
// an earlier panic) is reported as Hang and the rest of the case is skipped.
func guardedStep(st *hstate, f []string) []string {
	if st.dead {
		return []string{"err Hang"}
	}
	ch := make(chan []string, 1)
	go func() { ch <- safeStep(st, f) }()
	select {
	case r := <-ch:
		return r
	case <-time.After(90 * time.Second):
		st.dead = true
		st.log = nil
		return []string{"err Hang"}
	}
}

func safeStep(st *hstate, f []string) (res []string) {
	defer func() {
		if r := recover(); r != nil {
			res = append(res, fmt.Sprintf("err Panic"))
			if os.Getenv("KV_DEBUG") != "" {
				fmt.Fprintln(os.Stderr, "panic:", r)
			}
		}
	}()
	return step(st, f)
}

func e(err error) []string {
	if os.Getenv("KV_DEBUG") != "" && err != nil {
		fmt.Fprintln(os.Stderr, "err:", err)
	}
	return []string{"err " + errClass(err)}
}

var ctx = context.Background()

func noBackoff(context.Context) error { return nil }

// scanAll: the feed-back iteration of Consume from OffsetOldest to NextOffset
func scanAll(l klevdb.Log) ([]klevdb.Message, error) {
	var all []klevdb.Message
	off := klevdb.OffsetOldest
	for i := 0; i < 1000000; i++ {
		next, ms, err := l.Consume(off, 32)
		if err != nil {
			return nil, err
		}
		if len(ms) == 0 {
			return all, nil
		}
		all = append(all, ms...)
		off = next
	}
	return nil, fmt.Errorf("scan does not end")
}

func utime(t int64) time.Time { return time.UnixMicro(t).UTC() }

func params(st *hstate) index.Params {
	return index.Params{Times: st.times, Keys: st.keys}
}

func listSegs(dir string) []segment.Segment {
	segs, err := segment.Find(dir, false)
	if err != nil {
		return nil
	}
	return segs
}

var needsLog = map[string]bool{"close": true, "pub": true, "pubbig": true, "next": true, "sync": true, "gc": true, "stat": true,
	"cons": true, "consk": true, "get": true, "getk": true, "gett": true, "offk": true, "offt": true, "del": true,
	"delm": true, "size": true, "findo": true, "findc": true, "finds": true, "finda": true, "fupd": true, "fdel": true,
	"trimo": true, "trimc": true, "trims": true, "trima": true, "cupd": true, "cdel": true, "trim1o": true,
	"trim1c": true, "trim1s": true, "trim1a": true, "c1upd": true, "c1del": true, "backup": true, "probe": true, "compact": true, "delmb": true, "trimob": true, "bkhalf": true}

func step(st *hstate, f []string) []string {
	l := st.log
	if l == nil && needsLog[f[0]] {
		if f[0] == "probe" {
			return nil
		}
		return []string{"err Closed"}
	}
	switch f[0] {
	case "open":
		if l != nil {
			return []string{"err Locked"}
		}
		o := parseOpen(f)
		st.keys, st.times = o.KeyIndex, o.TimeIndex
		st.roSum = ""
		if o.Readonly {
			st.roSum = logSum(st.dir)
		}
		lg, err := klevdb.Open(st.dir, o)
		if err != nil {
			return e(err)
		}
		st.log, st.opts = lg, o
		return []string{"ok"}
	case "close":
		err := l.Close()
		st.log = nil
		if err != nil {
			return e(err)
		}
		// C19: a read-only handle never changes any log file, whatever its options and whatever was asked of it
		if st.opts.Readonly && st.roSum != "" && logSum(st.dir) != st.roSum {
			return []string{"err ReadonlyHandleChangedLogFiles"}
		}
		return []string{"ok"}
	case "pub":
		// the producer reuses its buffers: the i-th message of every batch has its key and value in the same
		// memory as the i-th message of the batch before, and the buffers are scribbled over once Publish returned
		msgs := make([]klevdb.Message, 0, len(f)-1)
		for i, t := range f[1:] {
			m := parseMsg(t)
			m.Key = reuseBuf(&pubKeyBufs, i, m.Key)
			m.Value = reuseBuf(&pubValBufs, i, m.Value)
			msgs = append(msgs, m)
		}
		n, err := l.Publish(msgs)
		offs := make([]int64, len(msgs))
		for i := range msgs {
			offs[i] = msgs[i].Offset
			// scribble only the value: the key buffer keeps its content until the next batch overwrites it in place
			for j := range msgs[i].Value {
				msgs[i].Value[j] = 0xEE
			}
		}
		if err != nil {
			return e(err)
		}
		var sb strings.Builder
		fmt.Fprintf(&sb, "ok %d", n)
		for _, o := range offs {
			fmt.Fprintf(&sb, " %d", o)
		}
		return []string{sb.String()}
	case "pubbig":
		// a batch of <n> small messages followed by one whose key+value exceeds the 64 MiB body guard
		k, _ := strconv.Atoi(f[1])
		msgs := make([]klevdb.Message, 0, k+1)
		for i := 0; i < k; i++ {
			msgs = append(msgs, klevdb.Message{Time: time.UnixMicro(1000).UTC(), Key: []byte("g"), Value: []byte{byte(65 + i)}})
		}
		msgs = append(msgs, klevdb.Message{Time: time.UnixMicro(1000).UTC(), Key: []byte("g"), Value: make([]byte, 64*1024*1024)})
		n, err := l.Publish(msgs)
		if err != nil {
			return e(err)
		}
		return []string{fmt.Sprintf("ok %d", n)}
	case "next":
		n, err := l.NextOffset()
		if err != nil {
			return e(err)
		}
		return []string{fmt.Sprintf("ok %d", n)}
	case "sync":
		n, err := l.Sync()
		if err != nil {
			return e(err)
		}
		return []string{fmt.Sprintf("ok %d", n)}
	case "gc":
		if err := l.GC(0); err != nil {
			return e(err)
		}
		return []string{"ok"}
	case "stat":
		s, err := l.Stat()
		if err != nil {
			return e(err)
		}
		return []string{fmt.Sprintf("ok %d %d %d", s.Segments, s.Messages, s.Size)}
	case "cons":
		return []string{doCons(l, atoi(f[1]), atoi(f[2]))}
	case "consk":
		return []string{doConsK(l, unhx(f[1]), atoi(f[2]), atoi(f[3]))}
	case "get":
		return []string{doGet(l, atoi(f[1]))}
	case "getk":
		return []string{doGetK(l, unhx(f[1]))}
	case "gett":
		return []string{doGetT(l, atoi(f[1]))}
	case "offk":
		o, err := l.OffsetByKey(unhx(f[1]))
		if err != nil {
			return e(err)
		}
		return []string{fmt.Sprintf("ok %d", o)}
	case "offt":
		o, t, err := l.OffsetByTime(utime(atoi(f[1])))
		if err != nil {
			return e(err)
		}
		return []string{fmt.Sprintf("ok %d %d", o, t.UnixMicro())}
	case "del":
		sv := segVers(st.dir)
		ms, sz, err := l.Delete(parseOffsets(f[1]))
		if err != nil {
			return e(err)
		}
		sv2 := segVers(st.dir)
		return []string{fmt.Sprintf("ok %d %s%s%s%s", sz, versOf(sv, ms), rewrittenVer(sv, sv2, ms), newHeadVer(sv, sv2), fmtMsgs(ms))}
	case "delm":
		sv := segVers(st.dir)
		ms, sz, err := klevdb.DeleteMulti(ctx, l, parseOffsets(f[1]), noBackoff)
		if err != nil {
			return []string{fmt.Sprintf("err %s %d %s%s", errClass(err), sz, versOf(sv, ms), fmtMsgs(ms))}
		}
		return []string{fmt.Sprintf("ok %d %s%s", sz, versOf(sv, ms), fmtMsgs(ms))}
	case "delmb", "trimob":
		// DeleteMulti / TrimByOffsetMulti with a backoff function that succeeds <bk> times and then fails (a cancelled
		// context in DeleteMultiWithWait): what the passes made so far removed must be what is returned with the error
		sv := segVers(st.dir)
		bk := int(atoi(f[1]))
		calls := 0
		backoff := func(context.Context) error {
			calls++
			if calls > bk {
				return fmt.Errorf("backoff gave up") // any error of the caller's backoff function, e.g. a cancelled context
			}
			return nil
		}
		var ms []klevdb.Message
		var sz int64
		var err error
		if f[0] == "delmb" {
			ms, sz, err = klevdb.DeleteMulti(ctx, l, parseOffsets(f[2]), backoff)
		} else {
			ms, sz, err = klevdb.TrimByOffsetMulti(ctx, l, atoi(f[2]), backoff)
		}
		if err != nil {
			return []string{fmt.Sprintf("err %s %d %s%s", errClass(err), sz, versOf(sv, ms), fmtMsgs(ms))}
		}
		return []string{fmt.Sprintf("ok %d %s%s", sz, versOf(sv, ms), fmtMsgs(ms))}
	case "size":
		return []string{fmt.Sprintf("ok %d", l.Size(parseMsg(f[1])))}
	case "findo", "findc", "finds", "finda", "fupd", "fdel":
		var offs map[int64]struct{}
		var err error
		a := atoi(f[1])
		switch f[0] {
		case "findo":
			offs, err = klevdb.FindByOffset(ctx, l, a)
		case "findc":
			offs, err = klevdb.FindByCount(ctx, l, int(a))
		case "finds":
			offs, err = klevdb.FindBySize(ctx, l, a)
		case "finda":
			offs, err = klevdb.FindByAge(ctx, l, utime(a))
		case "fupd":
			offs, err = klevdb.FindUpdates(ctx, l, utime(a))
		case "fdel":
			offs, err = klevdb.FindDeletes(ctx, l, utime(a))
		}
		if err != nil {
			return e(err)
		}
		return []string{"ok" + fmtOffsets(offs)}
	case "trimo", "trimc", "trims", "trima", "cupd", "cdel":
		var ms []klevdb.Message
		var sz int64
		var err error
		a := atoi(f[1])
		sv := segVers(st.dir)
		switch f[0] {
		case "trimo":
			ms, sz, err = klevdb.TrimByOffsetMulti(ctx, l, a, noBackoff)
		case "trimc":
			ms, sz, err = klevdb.TrimByCountMulti(ctx, l, int(a), noBackoff)
		case "trims":
			ms, sz, err = klevdb.TrimBySizeMulti(ctx, l, a, noBackoff)
		case "trima":
			ms, sz, err = klevdb.TrimByAgeMulti(ctx, l, utime(a), noBackoff)
		case "cupd":
			ms, sz, err = klevdb.CompactUpdatesMulti(ctx, l, utime(a), noBackoff)
		case "cdel":
			ms, sz, err = klevdb.CompactDeletesMulti(ctx, l, utime(a), noBackoff)
		}
		if err != nil {
			return []string{fmt.Sprintf("err %s %d %s%s", errClass(err), sz, versOf(sv, ms), fmtMsgs(ms))}
		}
		return []string{fmt.Sprintf("ok %d %s%s", sz, versOf(sv, ms), fmtMsgs(ms))}
	case "compact":
		// compact.go Compact with cut-offs later than every message of the generated histories (their times are a
		// few hundred microseconds after 1970).  Compact reports no messages: what it removed is read off two scans.
		sv := segVers(st.dir)
		before, err := scanAll(l)
		if err != nil {
			return e(err)
		}
		if err := klevdb.Compact(ctx, l, time.Hour, noBackoff); err != nil {
			return e(err)
		}
		after, err := scanAll(l)
		if err != nil {
			return e(err)
		}
		left := map[int64]bool{}
		for _, m := range after {
			left[m.Offset] = true
		}
		var ms []klevdb.Message
		for _, m := range before {
			if !left[m.Offset] {
				ms = append(ms, m)
			}
		}
		return []string{fmt.Sprintf("ok - %s%s", versOf(sv, ms), fmtMsgs(ms))}
	case "trim1o", "trim1c", "trim1s", "trim1a", "c1upd", "c1del":
		var ms []klevdb.Message
		var sz int64
		var err error
		a := atoi(f[1])
		sv := segVers(st.dir)
		switch f[0] {
		case "trim1o":
			ms, sz, err = klevdb.TrimByOffset(ctx, l, a)
		case "trim1c":
			ms, sz, err = klevdb.TrimByCount(ctx, l, int(a))
		case "trim1s":
			ms, sz, err = klevdb.TrimBySize(ctx, l, a)
		case "trim1a":
			ms, sz, err = klevdb.TrimByAge(ctx, l, utime(a))
		case "c1upd":
			ms, sz, err = klevdb.CompactUpdates(ctx, l, utime(a))
		case "c1del":
			ms, sz, err = klevdb.CompactDeletes(ctx, l, utime(a))
		}
		if err != nil {
			return e(err)
		}
		return []string{fmt.Sprintf("ok %d %s%s", sz, versOf(sv, ms), fmtMsgs(ms))}
	case "rmindex":
		// with a third field "stale": what a process that died inside index.Write left behind is there too - a
		// temporary file <index>.tmp holding the first half of the removed index (temporary files are not part of the log)
		stale := len(f) > 2 && f[2] == "stale"
		rm := func(ix string) {
			if stale {
				if b, err := os.ReadFile(ix); err == nil {
					hdr, isz := 0, 16
					if len(b) >= 6 && string(b[:6]) == "\xffklevi" {
						hdr = 8
					}
					if st.times {
						isz += 8
					}
					if st.keys {
						isz += 8
					}
					if n := (len(b) - hdr) / isz; n >= 1 {
						_ = os.WriteFile(ix+".tmp", b[:hdr+((n+1)/2)*isz], 0o600)
						plantedTmp[ix+".tmp"] = true
					}
				}
			}
			_ = os.Remove(ix)
		}
		segs := listSegs(st.dir)
		if f[1] == "all" {
			for _, s := range segs {
				rm(s.Index)
			}
		} else {
			for k := range parseOffsets(f[1]) {
				if int(k) < len(segs) {
					rm(segs[k].Index)
				}
			}
		}
		return []string{"ok"}
	case "idxcut":
		// the newest index file loses its last k items (never its header): a crash that lost the tail of the index
		segs := listSegs(st.dir)
		if len(segs) > 0 {
			ix := segs[len(segs)-1].Index
			if b, err := os.ReadFile(ix); err == nil {
				hdr := 0
				if len(b) >= 6 && string(b[:6]) == "\xffklevi" {
					hdr = 8
				}
				isz := 16
				if st.times {
					isz += 8
				}
				if st.keys {
					isz += 8
				}
				n := (len(b) - hdr) / isz
				k := int(atoi(f[1]))
				if k > n {
					k = n
				}
				_ = os.Truncate(ix, int64(hdr+(n-k)*isz))
			}
		}
		return []string{"ok"}
	case "migrate":
		v := klevdb.V2
		if f[1] == "1" {
			v = klevdb.V1
		}
		err := klevdb.Migrate(st.dir, klevdb.Options{KeyIndex: st.keys, TimeIndex: st.times}, v)
		if err != nil {
			return e(err)
		}
		return []string{"ok"}
	case "checkdir":
		if err := klevdb.Check(st.dir, klevdb.Options{KeyIndex: st.keys, TimeIndex: st.times}); err != nil {
			return e(err)
		}
		return []string{"ok"}
	case "checkall":
		// every segment, not only the head (public pkg/segment API)
		for _, s := range listSegs(st.dir) {
			if err := s.Check(params(st)); err != nil {
				return []string{fmt.Sprintf("err %s seg=%d", errClass(err), s.Offset)}
			}
		}
		return []string{"ok"}
	case "recoverdir":
		if err := klevdb.Recover(st.dir, klevdb.Options{KeyIndex: st.keys, TimeIndex: st.times}); err != nil {
			return e(err)
		}
		return []string{"ok"}
	case "statdir":
		s, err := klevdb.Stat(st.dir, klevdb.Options{KeyIndex: st.keys, TimeIndex: st.times})
		if err != nil {
			return e(err)
		}
		return []string{fmt.Sprintf("ok %d %d %d", s.Segments, s.Messages, s.Size)}
	case "files":
		// canonical listing of the directory: name:size (and version byte of logs)
		return []string{"ok" + listFiles(st.dir, f[1:])}
	case "disksize":
		// sum of sizes of all *.log and *.index files (independent of Stat)
		var total int64
		ents, _ := os.ReadDir(st.dir)
		for _, en := range ents {
			if strings.HasSuffix(en.Name(), ".log") || strings.HasSuffix(en.Name(), ".index") {
				if fi, err := en.Info(); err == nil {
					total += fi.Size()
				}
			}
		}
		return []string{fmt.Sprintf("ok %d", total)}
	case "backup", "backupdir":
		// backup <name>: Log.Backup into sibling dir; backupdir: package-level (log may be open or closed)
		tgt := st.dir + ".bk." + f[1]
		var err error
		if f[0] == "backup" {
			if err = os.MkdirAll(tgt, 0700); err == nil {
				err = l.Backup(tgt)
			}
		} else {
			err = klevdb.Backup(st.dir, tgt)
		}
		if err != nil {
			return e(err)
		}
		return []string{"ok"}
	case "bkhalf":
		// bkhalf <name>: what a Backup that was interrupted leaves in the target - for every segment of the source the
		// log file copied and given the source's mtime (the first half of Segment.Backup), the index file not yet
		tgt := st.dir + ".bk." + f[1]
		if err := os.MkdirAll(tgt, 0700); err != nil {
			return e(err)
		}
		for _, sg := range listSegs(st.dir) {
			b, err := os.ReadFile(sg.Log)
			if err != nil {
				return e(err)
			}
			fi, err := os.Stat(sg.Log)
			if err != nil {
				return e(err)
			}
			dst := filepath.Join(tgt, filepath.Base(sg.Log))
			if err := os.WriteFile(dst, b, 0600); err != nil {
				return e(err)
			}
			if err := os.Chtimes(dst, fi.ModTime(), fi.ModTime()); err != nil {
				return e(err)
			}
		}
		if len(f) > 2 && f[2] == "cut" {
			// ... and it was killed while it copied the log file of the newest segment: that file holds only the first
			// half of its source and carries the time of the kill, not the source's
			if sgs := listSegs(st.dir); len(sgs) > 0 {
				sg := sgs[len(sgs)-1]
				dst := filepath.Join(tgt, filepath.Base(sg.Log))
				if b, err := os.ReadFile(dst); err == nil && len(b) > 1 {
					if err := os.WriteFile(dst, b[:len(b)/2], 0600); err != nil {
						return e(err)
					}
					now := time.Now().Add(time.Hour)
					_ = os.Chtimes(dst, now, now)
				}
			}
		}
		return []string{"ok"}
	case "bkobs":
		// bkobs <name> <ro>: Check the backup dir, open it and print a full observation
		tgt := st.dir + ".bk." + f[1]
		return observeDir(st, tgt, f[2] == "1")
	case "bkclean":
		os.RemoveAll(st.dir + ".bk." + f[1])
		return []string{"ok"}
	case "probe":
		return probe(st, f[1:])
	case "loaddir", "setlog":
		return []string{"ok"}
	case "tear":
		// tear <n>: cut n bytes off the end of the newest log file (a torn write), log closed
		segs := listSegs(st.dir)
		if len(segs) == 0 {
			return []string{"err NotExist"}
		}
		last := segs[len(segs)-1]
		fi, err := os.Stat(last.Log)
		if err != nil {
			return e(err)
		}
		if err := os.Truncate(last.Log, fi.Size()-atoi(f[1])); err != nil {
			return e(err)
		}
		return []string{"ok"}
	case "sleepms":
		time.Sleep(time.Duration(atoi(f[1])) * time.Millisecond)
		return []string{"ok"}
	case "damage":
		return damage(st, f[1:])
	}
	return []string{"err UnknownOp"}
}

// segVers reads, independently of klevdb, the record format of every segment file:
// a V2 log starts with the magic FF 'k' 'l' 'e' 'v' 's'; anything else (incl. empty) is V1.
type segVer struct {
	base  int64
	v     byte
	empty bool // no record in the log file
}

func segVers(dir string) []segVer {
	var res []segVer
	ents, _ := os.ReadDir(dir)
	for _, en := range ents {
		name := en.Name()
		if !strings.HasSuffix(name, ".log") {
			continue
		}
		base, err := strconv.ParseInt(strings.TrimSuffix(name, ".log"), 10, 64)
		if err != nil {
			continue
		}
		v := byte('1')
		var size int64
		if fh, err := os.Open(filepath.Join(dir, name)); err == nil {
			var h [6]byte
			if n, _ := io.ReadFull(fh, h[:]); n == 6 && string(h[:]) == "\xffklevs" {
				v = '2'
			}
			if fi, err := fh.Stat(); err == nil {
				size = fi.Size()
			}
			fh.Close()
		}
		res = append(res, segVer{base, v, size == 0 || (v == '2' && size <= 8)})
	}
	sort.Slice(res, func(i, j int) bool { return res[i].base < res[j].base })
	return res
}

// versOf: for every message the format of the segment that held it before the delete
func versOf(sv []segVer, ms []klevdb.Message) string {
	if len(ms) == 0 {
		return "v=-"
	}
	b := []byte("v=")
	for _, m := range ms {
		v := byte('?')
		for _, s := range sv {
			if s.base <= m.Offset {
				v = s.v
			}
		}
		b = append(b, v)
	}
	return string(b)
}

// rewrittenVer: ">v" - the format (read from the files, independently of klevdb) of the segment that holds the survivors
// of the segment a Delete rewrote (the one with the lowest deleted offset), ">-" when nothing of it is left
func rewrittenVer(before, after []segVer, ms []klevdb.Message) string {
	if len(ms) == 0 {
		return ""
	}
	lo := ms[0].Offset
	for _, m := range ms {
		if m.Offset < lo {
			lo = m.Offset
		}
	}
	src, upper := int64(-1), int64(1)<<62
	for i, s := range before {
		if s.base <= lo {
			src, upper = s.base, int64(1)<<62
			if i+1 < len(before) {
				upper = before[i+1].base
			}
		}
	}
	if src < 0 {
		return ">?"
	}
	for _, s := range after {
		if s.base >= src && s.base < upper && !s.empty {
			return ">" + string(s.v)
		}
	}
	return ">-"
}

// newHeadVer: "^v" - the format of an empty head segment the Delete created ("" when it created none)
func newHeadVer(before, after []segVer) string {
	if len(after) == 0 {
		return ""
	}
	hd := after[len(after)-1]
	if !hd.empty {
		return ""
	}
	for _, s := range before {
		if s.base == hd.base {
			return ""
		}
	}
	return "^" + string(hd.v)
}

func doCons(l klevdb.Log, off, max int64) string {
	n, ms, err := l.Consume(off, max)
	if err != nil {
		return "err " + errClass(err)
	}
	return fmt.Sprintf("ok %d%s", n, fmtMsgs(ms))
}

func doConsK(l klevdb.Log, k []byte, off, max int64) string {
	n, ms, err := l.ConsumeByKey(k, off, max)
	if err != nil {
		return "err " + errClass(err)
	}
	return fmt.Sprintf("ok %d%s", n, fmtMsgs(ms))
}

func doGet(l klevdb.Log, off int64) string {
	m, err := l.Get(off)
	if err != nil {
		return "err " + errClass(err)
	}
	return "ok " + fmtMsg(m)
}

func doGetK(l klevdb.Log, k []byte) string {
	m, err := l.GetByKey(k)
	if err != nil {
		return "err " + errClass(err)
	}
	return "ok " + fmtMsg(m)
}

func doGetT(l klevdb.Log, t int64) string {
	m, err := l.GetByTime(utime(t))
	if err != nil {
		return "err " + errClass(err)
	}
	return "ok " + fmtMsg(m)
}

// probe batteries. Each prints one line per sub-query: "<subop> => <result>".
//   probe scan                       full feed-back scan from OffsetOldest (max 7) + next
//   probe cons <lo> <hiDelta> m1,m2  Consume(off,max) for off in [lo, next+hiDelta]
//   probe get <hiDelta>              Get for off in {-2,-1} ∪ [0,next+hiDelta]
//   probe keys k1,k2,..              GetByKey/OffsetByKey for each key
//   probe consk <maxes> k1,k2        ConsumeByKey for each key × off in [-2,next+1] × max
//   probe times <lo> <hi>            GetByTime for every t in [lo,hi]
func probe(st *hstate, a []string) []string {
	l := st.log
	var res []string
	next, nerr := l.NextOffset()
	switch a[0] {
	case "scan":
		if nerr != nil {
			return []string{"next => err " + errClass(nerr)}
		}
		res = append(res, fmt.Sprintf("next => ok %d", next))
		off := int64(klevdb.OffsetOldest)
		for i := int64(0); i < next+4; i++ {
			n, ms, err := l.Consume(off, 7)
			if err != nil {
				res = append(res, fmt.Sprintf("scan %d => err %s", off, errClass(err)))
				break
			}
			res = append(res, fmt.Sprintf("scan %d => ok %d%s", off, n, fmtMsgs(ms)))
			if n >= next && len(ms) == 0 {
				break
			}
			if off >= 0 && n <= off {
				break // no progress: stop (the cursor contract is checked by the property evaluation)
			}
			off = n
		}
	case "cons":
		lo, hid := atoi(a[1]), atoi(a[2])
		for off := lo; off <= next+hid; off++ {
			for _, ms := range strings.Split(a[3], ",") {
				m := atoi(ms)
				res = append(res, fmt.Sprintf("cons %d %d => %s", off, m, doCons(l, off, m)))
			}
		}
	case "get":
		hid := atoi(a[1])
		for off := int64(-2); off <= next+hid; off++ {
			res = append(res, fmt.Sprintf("get %d => %s", off, doGet(l, off)))
		}
	case "keys":
		for _, ks := range strings.Split(a[1], ",") {
			res = append(res, fmt.Sprintf("getk %s => %s", ks, doGetK(l, unhx(ks))))
		}
	case "consk":
		for _, ks := range strings.Split(a[2], ",") {
			for off := int64(-2); off <= next+1; off++ {
				for _, ms := range strings.Split(a[1], ",") {
					m := atoi(ms)
					res = append(res, fmt.Sprintf("consk %s %d %d => %s", ks, off, m, doConsK(l, unhx(ks), off, m)))
				}
			}
		}
	case "times":
		for t := atoi(a[1]); t <= atoi(a[2]); t++ {
			res = append(res, fmt.Sprintf("gett %d => %s", t, doGetT(l, t)))
		}
	}
	return res
}

// observeDir opens dir (a backup) and prints check status + a full scan, next, stat
func observeDir(st *hstate, dir string, ro bool) []string {
	var res []string
	for _, s := range listSegs(dir) {
		if err := s.Check(params(st)); err != nil {
			res = append(res, fmt.Sprintf("check %d => err %s", s.Offset, errClass(err)))
		}
	}
	o := st.opts
	o.Readonly = ro
	o.Check, o.Recover = false, false
	o.Version.EagerVersionMigrate = false
	lg, err := klevdb.Open(dir, o)
	if err != nil {
		return append(res, "open => err "+errClass(err))
	}
	defer lg.Close()
	sub := &hstate{dir: dir, log: lg, opts: o, keys: st.keys, times: st.times}
	res = append(res, probe(sub, []string{"scan"})...)
	res = append(res, probe(sub, []string{"get", "1"})...)
	s, err := lg.Stat()
	if err != nil {
		res = append(res, "stat => err "+errClass(err))
	} else {
		res = append(res, fmt.Sprintf("stat => ok %d %d %d", s.Segments, s.Messages, s.Size))
	}
	return res
}

func listFiles(dir string, opts []string) string {
	ents, err := os.ReadDir(dir)
	if err != nil {
		return " ERR"
	}
	var sb strings.Builder
	for _, en := range ents {
		name := en.Name()
		if name == ".lock" || plantedTmp[filepath.Join(dir, name)] {
			continue
		}
		fi, err := en.Info()
		if err != nil {
			continue
		}
		// rewrite temp names carry a random suffix: canonicalise
		if i := strings.Index(name, ".rewrite."); i >= 0 {
			name = name[:i] + ".rewrite.X"
		}
		short := strings.TrimLeft(name, "0")
		if short == "" || short[0] == '.' {
			short = "0" + short
		}
		fmt.Fprintf(&sb, " %s:%d", short, fi.Size())
		if strings.HasSuffix(name, ".log") || strings.HasSuffix(name, ".index") {
			var h [8]byte
			fh, err := os.Open(filepath.Join(dir, en.Name()))
			if err == nil {
				n, _ := io.ReadFull(fh, h[:])
				fh.Close()
				if n == 8 && h[0] == 0xFF && h[1] == 'k' {
					fmt.Fprintf(&sb, ":v2:%d", h[7])
				} else {
					sb.WriteString(":v1")
				}
			}
		}
	}
	return sb.String()
}
