package main

import (
	"bufio"
	"context"
	"errors"
	"fmt"
	"os"
	"runtime"
	"strconv"
	"strings"
	"sync"
	"time"

	"github.com/klev-dev/klevdb/pkg/notify"
	"github.com/klev-dev/klevdb/pkg/vhook"
)

// notify mode (C18): threads calling Wait / Set / Close on one notify.Offset, driven step by step through
// the pause points of the verif build; one Step releases a thread from its pause point and lets it run
// to the next one (or to completion).

func goid() int64 {
	var buf [64]byte
	n := runtime.Stack(buf[:], false)
	f := strings.Fields(string(buf[:n]))
	id, _ := strconv.ParseInt(f[1], 10, 64)
	return id
}

type nthread struct {
	kind    byte // 'w', 's', 'c'
	arg     int64
	at      string        // pause point the thread is waiting at ("" = running / parked / done)
	arrived chan string   // signals arrival at a pause point or "done:<result>"
	release chan struct{} // lets the thread continue from its pause point
	cancel  context.CancelFunc
	result  string
	inPark  bool
}

type nsched struct {
	mu      sync.Mutex
	byGoid  map[int64]*nthread
	threads []*nthread
}

func (ns *nsched) pause(point string) {
	ns.mu.Lock()
	t := ns.byGoid[goid()]
	ns.mu.Unlock()
	if t == nil {
		return
	}
	if point == "wait.park" {
		// the select itself is the blocking step; announce and go on
		t.arrived <- "park"
		return
	}
	t.arrived <- point
	<-t.release
}

func runNotifyCase(init int64, specs []string, sched []string) string {
	off := notify.NewOffset(init)
	ns := &nsched{byGoid: map[int64]*nthread{}}
	vhook.SetPause(ns.pause)
	defer vhook.SetPause(nil)
	for _, sp := range specs {
		t := &nthread{kind: sp[0], arrived: make(chan string, 4), release: make(chan struct{})}
		if len(sp) > 2 {
			t.arg = atoi(sp[2:])
		}
		ns.threads = append(ns.threads, t)
		ctx, cancel := context.WithCancel(context.Background())
		t.cancel = cancel
		ready := make(chan struct{})
		go func(t *nthread) {
			ns.mu.Lock()
			ns.byGoid[goid()] = t
			ns.mu.Unlock()
			close(ready)
			switch t.kind {
			case 'w':
				err := off.Wait(ctx, t.arg)
				switch {
				case err == nil:
					t.arrived <- "done:ok"
				case errors.Is(err, notify.ErrOffsetNotifyClosed):
					t.arrived <- "done:closed"
				case errors.Is(err, context.Canceled):
					t.arrived <- "done:canceled"
				default:
					t.arrived <- "done:other"
				}
			case 's':
				off.Set(t.arg)
				t.arrived <- "done:done"
			case 'c':
				if err := off.Close(); err != nil {
					t.arrived <- "done:err"
				} else {
					t.arrived <- "done:done"
				}
			}
		}(t)
		<-ready
		// every thread first stops at its entry pause point
		t.at = waitArrive(t, 2*time.Second)
	}
	for _, a := range sched {
		if a[0] == 'x' {
			i := int(atoi(a[1:]))
			if i < len(ns.threads) && ns.threads[i].inPark {
				ns.threads[i].cancel()
				if r := waitArrive(ns.threads[i], 2*time.Second); strings.HasPrefix(r, "done:") {
					ns.threads[i].result, ns.threads[i].inPark = r[5:], false
				}
			} else if i < len(ns.threads) && ns.threads[i].kind == 'w' && ns.threads[i].result == "" {
				// the context ends before the waiter is parked: Wait only looks at it in its final select
				ns.threads[i].cancel()
			}
			continue
		}
		i := int(atoi(a))
		if i >= len(ns.threads) {
			continue
		}
		t := ns.threads[i]
		if t.result != "" {
			continue
		}
		if t.inPark {
			// parked in the select: a step only observes whether it has been woken
			if r := waitArrive(t, 2*time.Second); strings.HasPrefix(r, "done:") {
				t.result, t.inPark = r[5:], false
			}
			continue
		}
		// release from the pause point; the thread runs to its next pause point, parks or finishes.
		// A receive on the barrier may block: then nothing arrives and the thread stays "at" its point,
		// but it has been released, so remember that
		if t.at != "released" {
			t.release <- struct{}{}
		}
		// every scheduled step is enabled in the model, so it must arrive somewhere; the timeout only
		// expires when the implementation deviates
		r := waitArrive(t, 2*time.Second)
		switch {
		case strings.HasPrefix(r, "done:"):
			t.result = r[5:]
		case r == "park":
			t.inPark, t.at = true, "park"
		case r == "":
			t.at = "released" // blocked inside the step (on the barrier receive)
		default:
			t.at = r
		}
	}
	// quiescence: give released/parked threads a moment, then read what happened
	time.Sleep(15 * time.Millisecond)
	var sb strings.Builder
	for i, t := range ns.threads {
		if t.result == "" {
			select {
			case r := <-t.arrived:
				if strings.HasPrefix(r, "done:") {
					t.result = r[5:]
				} else if r == "park" {
					t.inPark, t.at = true, "park"
				} else {
					t.at = r
				}
			default:
			}
		}
		st := t.result
		if st == "" {
			st = "at:" + t.at
		}
		fmt.Fprintf(&sb, " t%d=%s", i, st)
	}
	// let everything finish so no goroutine is left behind
	for _, t := range ns.threads {
		t.cancel()
	}
	vhook.SetPause(nil)
	done := make(chan struct{})
	go func() {
		for _, t := range ns.threads {
			for t.result == "" {
				select {
				case t.release <- struct{}{}:
				case r := <-t.arrived:
					if strings.HasPrefix(r, "done:") {
						t.result = "x"
					}
				case <-time.After(200 * time.Millisecond):
					t.result = "x"
				}
			}
		}
		close(done)
	}()
	<-done
	return "ok" + sb.String()
}

func waitArrive(t *nthread, d time.Duration) string {
	select {
	case r := <-t.arrived:
		return r
	case <-time.After(d):
		return ""
	}
}

func runNotify(a []string) {
	fh, err := os.Open(a[0])
	if err != nil {
		panic(err)
	}
	defer fh.Close()
	sc := bufio.NewScanner(fh)
	sc.Buffer(make([]byte, 1<<20), 1<<24)
	for sc.Scan() {
		line := strings.TrimSpace(sc.Text())
		if line == "" || line[0] == '#' {
			continue
		}
		fmt.Fprintln(out, line)
		f := strings.Fields(line)
		if f[0] != "nrun" {
			continue
		}
		// nrun <init> <threads,comma> <sched,comma>
		fmt.Fprintln(out, "=", runNotifyCase(atoi(f[1]), strings.Split(f[2], ","), strings.Split(f[3], ",")))
	}
}
