package main

import (
	"bufio"
	"context"
	"errors"
	"fmt"
	"os"
	"path/filepath"
	"strings"
	"time"

	"github.com/klev-dev/klevdb"
	"github.com/klev-dev/klevdb/pkg/notify"
)

// blocking mode (C18): the blocking wrappers of log_blocking.go on a real log, one scenario per case.
//
//	bopen <rollover> <keys>     OpenBlocking on a fresh directory
//	bpub <n>                    Publish a batch of n messages (key "k<i>", value "v<i>")
//	bcons <off> <max>           ConsumeBlocking with a 60 ms deadline: result, or "err Deadline" when it stays blocked
//	bconsk <keyhex> <off> <max> ConsumeByKeyBlocking likewise
//	bwake <off> <max>           a waiter (3 s deadline) is started, 30 ms later one message is published: the waiter's
//	                            result and a plain Consume(off, max) made right after it returned
//	bcancel <off>               a waiter is started, 30 ms later its context is cancelled
//	bclosewake <off>            a waiter is started, 30 ms later the log is closed
//	bclose                      Close
func blockErr(err error) string {
	switch {
	case errors.Is(err, context.DeadlineExceeded):
		return "Deadline"
	case errors.Is(err, context.Canceled):
		return "Canceled"
	case errors.Is(err, notify.ErrOffsetNotifyClosed):
		return "NotifyClosed"
	}
	return errClass(err)
}

func fmtCons(n int64, ms []klevdb.Message, err error) string {
	if err != nil {
		return "err " + blockErr(err)
	}
	return fmt.Sprintf("ok %d%s", n, fmtMsgs(ms))
}

func runBlocking(a []string) {
	fh, err := os.Open(a[0])
	if err != nil {
		panic(err)
	}
	defer fh.Close()
	root, err := os.MkdirTemp(workRoot(), "kvblock-")
	if err != nil {
		panic(err)
	}
	defer os.RemoveAll(root)
	sc := bufio.NewScanner(fh)
	sc.Buffer(make([]byte, 1<<20), 1<<24)
	var l klevdb.BlockingLog
	pubs, ncase, closed := 0, 0, false
	// Close with a watchdog; the handle is kept so that waits after Close can be observed
	closeLog := func() {
		if l != nil && !closed {
			ll := l
			done := make(chan struct{})
			go func() { ll.Close(); close(done) }()
			select {
			case <-done:
			case <-time.After(2 * time.Second):
			}
			closed = true
		}
	}
	publish := func(n int) (int64, error) {
		msgs := make([]klevdb.Message, n)
		for i := range msgs {
			msgs[i] = klevdb.Message{Time: time.UnixMicro(int64(1000 + pubs)).UTC(), Key: []byte(fmt.Sprintf("k%d", pubs%3)), Value: []byte(fmt.Sprintf("v%d", pubs))}
			pubs++
		}
		return l.Publish(msgs)
	}
	for sc.Scan() {
		line := strings.TrimSpace(sc.Text())
		if line == "" || line[0] == '#' {
			continue
		}
		f := strings.Fields(line)
		fmt.Fprintln(out, line)
		if f[0] == "case" {
			closeLog()
			l, closed = nil, false
			ncase++
			pubs = 0
			continue
		}
		res := "skip"
		switch f[0] {
		case "bopen":
			dir := filepath.Join(root, fmt.Sprintf("c%d", ncase))
			os.RemoveAll(dir)
			os.MkdirAll(dir, 0700)
			bl, err := klevdb.OpenBlocking(dir, klevdb.Options{Rollover: atoi(f[1]), KeyIndex: f[2] == "1"})
			if err != nil {
				res = "err " + errClass(err)
			} else {
				l, res = bl, "ok"
			}
		case "bpub":
			if l != nil && !closed {
				n, err := publish(int(atoi(f[1])))
				if err != nil {
					res = "err " + errClass(err)
				} else {
					res = fmt.Sprintf("ok %d", n)
				}
			}
		case "bcons", "bconsk":
			if l != nil {
				ctx, cancel := context.WithTimeout(context.Background(), 60*time.Millisecond)
				if f[0] == "bcons" {
					res = fmtCons(l.ConsumeBlocking(ctx, atoi(f[1]), atoi(f[2])))
				} else {
					res = fmtCons(l.ConsumeByKeyBlocking(ctx, unhx(f[1]), atoi(f[2]), atoi(f[3])))
				}
				cancel()
			}
		case "bwake", "bcancel", "bclosewake":
			if l != nil && !closed {
				off, max := atoi(f[1]), int64(8)
				if f[0] == "bwake" {
					max = atoi(f[2])
				}
				ctx, cancel := context.WithTimeout(context.Background(), 3*time.Second)
				got := make(chan string, 1)
				ll := l
				go func() { got <- fmtCons(ll.ConsumeBlocking(ctx, off, max)) }()
				early := ""
				select {
				case early = <-got:
				case <-time.After(30 * time.Millisecond):
				}
				if early != "" {
					res = "early " + early
					cancel()
					break
				}
				switch f[0] {
				case "bwake":
					publish(1)
				case "bcancel":
					cancel()
				case "bclosewake":
					closeLog()
				}
				select {
				case r := <-got:
					res = "woken " + r
					if f[0] == "bwake" {
						res += " | now " + fmtCons(ll.Consume(off, max))
					}
				case <-time.After(1500 * time.Millisecond):
					res = "stuck"
				}
				cancel()
			}
		case "bclose":
			if l != nil && !closed {
				closeLog()
				res = "ok"
			}
		}
		fmt.Fprintln(out, "=", res)
		out.Flush()
	}
	closeLog()
}
