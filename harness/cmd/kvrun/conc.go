package main

import (
	"github.com/klev-dev/klevdb/pkg/index"
	"bytes"
	"bufio"
	"errors"
	"fmt"
	"math/rand"
	"os"
	"path/filepath"
	"sort"
	"strings"
	"sync"
	"sync/atomic"
	"time"

	"github.com/anishathalye/porcupine"
	"github.com/klev-dev/klevdb"
	"github.com/klev-dev/klevdb/pkg/vhook"
)

// conc mode (C08): goroutines call Publish / Consume / Get / Delete / NextOffset / Sync / GC / GetByKey on one
// log; every call is recorded with its real-time interval and result, and the recorded history is checked for
// linearizability against the sequential log specification (a search, supporting the tie to the model).

type cinput struct {
	op   string
	off  int64
	max  int64
	offs []int64
	vals []string // publish: value ids
	key  string
}

type coutput struct {
	err  string
	next int64
	msgs []string // "off:val"
}

// state: "next|off:val,off:val,..." (live messages in offset order)
func stParse(s string) (int64, []string) {
	p := strings.SplitN(s, "|", 2)
	next := atoi(p[0])
	if p[1] == "" {
		return next, nil
	}
	return next, strings.Split(p[1], ",")
}

func stMake(next int64, live []string) string {
	return fmt.Sprintf("%d|%s", next, strings.Join(live, ","))
}

func offOf(m string) int64 { return atoi(m[:strings.Index(m, ":")]) }

func eqStr(a, b []string) bool {
	if len(a) != len(b) {
		return false
	}
	for i := range a {
		if a[i] != b[i] {
			return false
		}
	}
	return true
}

var concModel = porcupine.Model{
	Init: func() interface{} { return "0|" },
	Step: func(state, input, output interface{}) (bool, interface{}) {
		st := state.(string)
		in := input.(cinput)
		out := output.(coutput)
		next, live := stParse(st)
		switch in.op {
		case "pub":
			if out.err != "" {
				return false, st
			}
			if out.next != next+int64(len(in.vals)) {
				return false, st
			}
			nl := append([]string{}, live...)
			for i, v := range in.vals {
				nl = append(nl, fmt.Sprintf("%d:%s", next+int64(i), v))
			}
			return true, stMake(out.next, nl)
		case "next", "sync":
			return out.err == "" && out.next == next, st
		case "gc":
			return out.err == "", st
		case "cons":
			if in.off > next {
				return out.err == "InvalidOffset", st
			}
			if out.err != "" {
				return false, st
			}
			if in.off == -1 {
				return out.next == next && len(out.msgs) == 0, st
			}
			var from []string
			for _, m := range live {
				if in.off < 0 || offOf(m) >= in.off {
					from = append(from, m)
				}
			}
			if len(out.msgs) == 0 {
				if len(from) == 0 {
					return out.next == next, st
				}
				// nothing returned although something is live: only without stepping over it, with progress
				return out.next <= offOf(from[0]) && out.next > in.off, st
			}
			if int64(len(out.msgs)) > in.max || len(out.msgs) > len(from) || !eqStr(out.msgs, from[:len(out.msgs)]) {
				return false, st
			}
			return out.next == offOf(out.msgs[len(out.msgs)-1])+1, st
		case "get":
			var found string
			for _, m := range live {
				if offOf(m) == in.off {
					found = m
				}
			}
			switch {
			case found != "":
				return out.err == "" && len(out.msgs) == 1 && out.msgs[0] == found, st
			case in.off < next:
				return out.err == "NotFound", st
			default:
				return out.err == "InvalidOffset", st
			}
		case "stat":
			// Stat is exempt from the sequential specification (it may count a batch that is still being appended);
			// it must not fail
			return out.err == "", st
		case "gett":
			// every message carries time 100: ts <= 100 asks for the first live message, ts > 100 for none
			if len(live) == 0 {
				return out.err == "NotFound" || out.err == "InvalidOffset", st
			}
			if in.off > 100 {
				return out.err == "NotFound", st
			}
			return out.err == "" && len(out.msgs) == 1 && out.msgs[0] == live[0], st
		case "getk":
			// the key of a message is "k" + the first letter of its value
			found := ""
			for _, m := range live {
				if m[strings.Index(m, ":")+1:][:1] == in.key {
					found = m
				}
			}
			if found == "" {
				return out.err == "NotFound", st
			}
			return out.err == "" && len(out.msgs) == 1 && out.msgs[0] == found, st
		case "consk":
			if in.off > next {
				return out.err == "InvalidOffset", st
			}
			if out.err != "" {
				return false, st
			}
			if in.off == -1 {
				return out.next == next && len(out.msgs) == 0, st
			}
			var from []string
			for _, m := range live {
				if (in.off < 0 || offOf(m) >= in.off) && m[strings.Index(m, ":")+1:][:1] == in.key {
					from = append(from, m)
				}
			}
			if int64(len(out.msgs)) > in.max || len(out.msgs) > len(from) || !eqStr(out.msgs, from[:len(out.msgs)]) {
				return false, st
			}
			// the cursor never steps over a live message with the key that was not returned, and never beyond NextOffset
			if out.next > next {
				return false, st
			}
			if len(out.msgs) < len(from) && out.next > offOf(from[len(out.msgs)]) {
				return false, st
			}
			if len(out.msgs) > 0 && out.next <= offOf(out.msgs[len(out.msgs)-1]) {
				return false, st
			}
			return true, st
		case "del":
			if out.err != "" {
				// only a set whose minimum lies before the first segment may be refused: no live message at or
				// below the lowest requested offset, and that offset already assigned
				if out.err != "NotFound" || len(in.offs) == 0 {
					return false, st
				}
				lo := in.offs[0]
				for _, o := range in.offs {
					if o < lo {
						lo = o
					}
				}
				for _, m := range live {
					if offOf(m) <= lo {
						return false, st
					}
				}
				return lo < next, st
			}
			want := map[int64]bool{}
			for _, o := range in.offs {
				want[o] = true
			}
			gone := map[string]bool{}
			for _, m := range out.msgs {
				ok := false
				for _, l := range live {
					if l == m && want[offOf(m)] {
						ok = true
					}
				}
				if !ok {
					return false, st
				}
				gone[m] = true
			}
			var nl []string
			for _, l := range live {
				if !gone[l] {
					nl = append(nl, l)
				}
			}
			return true, stMake(next, nl)
		}
		return false, st
	},
	Equal: func(a, b interface{}) bool { return a.(string) == b.(string) },
	DescribeOperation: func(input, output interface{}) string {
		in := input.(cinput)
		out := output.(coutput)
		return fmt.Sprintf("%s(off=%d,max=%d,offs=%v,vals=%v,key=%s) -> err=%q next=%d msgs=%v", in.op, in.off, in.max, in.offs, in.vals, in.key, out.err, out.next, out.msgs)
	},
}

type concRec struct {
	mu  sync.Mutex
	ops []porcupine.Operation
}

func (r *concRec) add(o porcupine.Operation) {
	r.mu.Lock()
	r.ops = append(r.ops, o)
	r.mu.Unlock()
}

var concClock atomic.Int64

func msgId(m klevdb.Message) string { return fmt.Sprintf("%d:%s", m.Offset, string(m.Value)) }

func doConcOp(l klevdb.Log, in cinput) (out coutput) {
	defer func() {
		if r := recover(); r != nil {
			out = coutput{err: "Panic"}
		}
	}()
	cls := func(err error) string {
		if err == nil {
			return ""
		}
		return errClass(err)
	}
	switch in.op {
	case "pub":
		var msgs []klevdb.Message
		for _, v := range in.vals {
			msgs = append(msgs, klevdb.Message{Time: utime(100), Key: []byte("k" + v[:1]), Value: []byte(v)})
		}
		n, err := l.Publish(msgs)
		return coutput{err: cls(err), next: n}
	case "next":
		n, err := l.NextOffset()
		return coutput{err: cls(err), next: n}
	case "sync":
		n, err := l.Sync()
		return coutput{err: cls(err), next: n}
	case "gc":
		return coutput{err: cls(l.GC(0))}
	case "cons":
		n, ms, err := l.Consume(in.off, in.max)
		o := coutput{err: cls(err), next: n}
		for _, m := range ms {
			o.msgs = append(o.msgs, msgId(m))
		}
		return o
	case "get":
		m, err := l.Get(in.off)
		o := coutput{err: cls(err)}
		if err == nil {
			o.msgs = []string{msgId(m)}
		}
		return o
	case "stat":
		_, err := l.Stat()
		return coutput{err: cls(err)}
	case "gett":
		m, err := l.GetByTime(utime(in.off))
		o := coutput{err: cls(err)}
		if err == nil {
			o.msgs = []string{msgId(m)}
		}
		return o
	case "getk":
		m, err := l.GetByKey([]byte("k" + in.key))
		o := coutput{err: cls(err)}
		if err == nil {
			o.msgs = []string{msgId(m)}
		}
		return o
	case "consk":
		n, ms, err := l.ConsumeByKey([]byte("k"+in.key), in.off, in.max)
		o := coutput{err: cls(err), next: n}
		for _, m := range ms {
			o.msgs = append(o.msgs, msgId(m))
		}
		return o
	case "del":
		set := map[int64]struct{}{}
		for _, x := range in.offs {
			set[x] = struct{}{}
		}
		ms, _, err := l.Delete(set)
		o := coutput{err: cls(err)}
		for _, m := range ms {
			o.msgs = append(o.msgs, msgId(m))
		}
		sort.Strings(o.msgs)
		return o
	}
	return coutput{err: "UnknownOp"}
}

func randInput(rng *rand.Rand, approxNext *atomic.Int64, tid int, seq *int) cinput {
	nx := approxNext.Load()
	switch r := rng.Intn(100); {
	case r < 30:
		n := 1 + rng.Intn(3)
		var vals []string
		for i := 0; i < n; i++ {
			*seq++
			vals = append(vals, fmt.Sprintf("%c%d", 'a'+byte(tid), *seq))
		}
		return cinput{op: "pub", vals: vals}
	case r < 55:
		return cinput{op: "cons", off: int64(rng.Intn(int(nx)+3)) - 2, max: int64(1 + rng.Intn(5))}
	case r < 70:
		return cinput{op: "get", off: int64(rng.Intn(int(nx) + 2))}
	case r < 85:
		k := 1 + rng.Intn(3)
		var offs []int64
		for i := 0; i < k; i++ {
			offs = append(offs, int64(rng.Intn(int(nx)+1)))
		}
		return cinput{op: "del", offs: offs}
	case r < 88:
		return cinput{op: "next"}
	case r < 90:
		return cinput{op: "sync"}
	case r < 92:
		return cinput{op: "gc"}
	case r < 94:
		return cinput{op: "stat"}
	case r < 96:
		return cinput{op: "gett", off: []int64{50, 100, 100, 200}[rng.Intn(4)]}
	case r < 98:
		return cinput{op: "getk", key: string(rune('a' + rng.Intn(4)))}
	default:
		return cinput{op: "consk", key: string(rune('a' + rng.Intn(4))), off: int64(rng.Intn(int(nx)+3)) - 2, max: int64(1 + rng.Intn(4))}
	}
}

// crun <seed> <threads> <opsPerThread> <rollover> : free-running mix
// concOpts: "<rollover>" or "<rollover>k" (KeepRewriteVersion)
func concOpts(tok string) klevdb.Options {
	o := klevdb.Options{KeyIndex: true, TimeIndex: true}
	if strings.HasSuffix(tok, "k") {
		o.Version.KeepRewriteVersion = true
		tok = strings.TrimSuffix(tok, "k")
	}
	if strings.HasSuffix(tok, "v1") {
		// the older record format (no file header, other reader code path)
		o.Version.NewSegmentsVersion = klevdb.V1
		tok = strings.TrimSuffix(tok, "v1")
	}
	o.Rollover = atoi(tok)
	return o
}

func concRun(dir string, seed int64, nth, nops int, opts string) string {
	os.RemoveAll(dir)
	os.MkdirAll(dir, 0700)
	l, err := klevdb.Open(dir, concOpts(opts))
	if err != nil {
		return "err open " + errClass(err)
	}
	defer l.Close()
	rec := &concRec{}
	var approx atomic.Int64
	var wg sync.WaitGroup
	start := time.Now()
	for t := 0; t < nth; t++ {
		wg.Add(1)
		go func(tid int) {
			defer wg.Done()
			rng := rand.New(rand.NewSource(seed*1000 + int64(tid)))
			seq := 0
			for i := 0; i < nops; i++ {
				in := randInput(rng, &approx, tid, &seq)
				call := time.Since(start).Nanoseconds()
				out := doConcOp(l, in)
				ret := time.Since(start).Nanoseconds()
				if in.op == "pub" && out.err == "" {
					for {
						cur := approx.Load()
						if out.next <= cur || approx.CompareAndSwap(cur, out.next) {
							break
						}
					}
				}
				rec.add(porcupine.Operation{ClientId: tid, Input: in, Call: call, Output: out, Return: ret})
			}
		}(t)
	}
	done := make(chan struct{})
	go func() { wg.Wait(); close(done) }()
	select {
	case <-done:
	case <-time.After(60 * time.Second):
		return "err Hang"
	}
	return judge(rec.ops)
}

func judge(ops []porcupine.Operation) string {
	for _, o := range ops {
		out := o.Output.(coutput)
		if out.err == "Panic" || out.err == "LogCorrupted" || out.err == "IndexCorrupted" || out.err == "Other" || out.err == "NotExist" {
			return fmt.Sprintf("err CallFailed %s", concModel.DescribeOperation(o.Input, o.Output))
		}
	}
	res := porcupine.CheckOperationsTimeout(concModel, ops, 20*time.Second)
	switch res {
	case porcupine.Ok:
		return fmt.Sprintf("ok ops=%d linearizable", len(ops))
	case porcupine.Unknown:
		return fmt.Sprintf("ok ops=%d search-timeout", len(ops))
	default:
		var sb strings.Builder
		sort.Slice(ops, func(i, j int) bool { return ops[i].Call < ops[j].Call })
		for _, o := range ops {
			fmt.Fprintf(&sb, " || c%d [%d,%d] %s", o.ClientId, o.Call, o.Return, concModel.DescribeOperation(o.Input, o.Output))
		}
		return fmt.Sprintf("err NotLinearizable ops=%d%s", len(ops), sb.String())
	}
}

func runConc(a []string) {
	fh, err := os.Open(a[0])
	if err != nil {
		panic(err)
	}
	defer fh.Close()
	os.MkdirAll(workRoot(), 0700)
	root, err := os.MkdirTemp(workRoot(), "kvconc-")
	if err != nil {
		panic(err)
	}
	defer os.RemoveAll(root)
	sc := bufio.NewScanner(fh)
	n := 0
	for sc.Scan() {
		line := strings.TrimSpace(sc.Text())
		if line == "" || line[0] == '#' {
			continue
		}
		fmt.Fprintln(out, line)
		f := strings.Fields(line)
		n++
		dir := filepath.Join(root, fmt.Sprintf("c%d", n))
		// every workload runs under a watchdog: calls that never return (a deadlock) are a failure of the run, not of the harness
		resc := make(chan string, 1)
		go func() {
			defer func() {
				if r := recover(); r != nil {
					resc <- fmt.Sprintf("err Panic a call of the workload panicked: %v", r)
				}
			}()
			switch f[0] {
			case "crun":
				resc <- concRun(dir, atoi(f[1]), int(atoi(f[2])), int(atoi(f[3])), f[4])
			case "cpause":
				resc <- concPause(dir, f[1:])
			case "cstress":
				resc <- concStress(dir, int(atoi(f[1])), int(atoi(f[2])))
			case "creindex":
				resc <- concReindex(dir, int(atoi(f[1])))
			case "cquerystress":
				resc <- concQueryStress(dir, int(atoi(f[1])), int(atoi(f[2])))
			case "cgcstress":
				resc <- concGCStress(dir, int(atoi(f[1])), int(atoi(f[2])))
			case "csyncack":
				resc <- concSyncAck(dir, int(atoi(f[1])))
			case "cedge":
				resc <- edgeBatch(dir)
			case "cpollstress":
				resc <- concPollStress(dir, int(atoi(f[1])), int(atoi(f[2])))
			default:
				resc <- "err UnknownOp"
			}
		}()
		limit := 15 * time.Minute
		if f[0] == "crun" || f[0] == "cpause" {
			limit = 150 * time.Second
		}
		select {
		case r := <-resc:
			fmt.Fprintln(out, "=", r)
		case <-time.After(limit):
			fmt.Fprintln(out, "= err Hang the workload did not finish within", limit, "- calls that never return (a deadlock)")
			out.Flush()
			os.Exit(0)
		}
		out.Flush()
	}
}

// cstress <iterations> <ms>: the start of a log's life under load - on a fresh directory one goroutine publishes
// single messages, one consumes with the cursor fed back, one deletes the oldest 32 messages over and over
// (all of them in the writing segment at first).  No call may fail.
func concStress(dir string, iters, ms int) string {
	for it := 0; it < iters; it++ {
		os.RemoveAll(dir)
		os.MkdirAll(dir, 0700)
		l, err := klevdb.Open(dir, klevdb.Options{AutoSync: it%2 == 0, Rollover: 64 * 1024})
		if err != nil {
			return "err open " + errClass(err)
		}
		var stop atomic.Bool
		done := make(chan string, 3)
		go func() {
			for i := 0; !stop.Load(); i++ {
				if _, err := l.Publish([]klevdb.Message{{Key: []byte(fmt.Sprintf("%010d", i))}}); err != nil {
					done <- "Publish: " + errClass(err) + ": " + err.Error()
					return
				}
			}
			done <- ""
		}()
		go func() {
			off := klevdb.OffsetOldest
			for !stop.Load() {
				next, _, err := l.Consume(off, 32)
				if err != nil && !errors.Is(err, klevdb.ErrNotFound) {
					done <- fmt.Sprintf("Consume(%d): %s: %s", off, errClass(err), err.Error())
					return
				}
				if err != nil || off == next {
					off = klevdb.OffsetOldest
					continue
				}
				off = next
			}
			done <- ""
		}()
		go func() {
			for !stop.Load() {
				_, msgs, err := l.Consume(klevdb.OffsetOldest, 32)
				if err != nil {
					done <- "Consume(oldest): " + errClass(err) + ": " + err.Error()
					return
				}
				del := map[int64]struct{}{}
				for _, m := range msgs {
					del[m.Offset] = struct{}{}
				}
				if _, _, err := l.Delete(del); err != nil {
					done <- fmt.Sprintf("Delete(%d oldest): %s: %s", len(del), errClass(err), err.Error())
					return
				}
			}
			done <- ""
		}()
		first := ""
		select {
		case first = <-done:
		case <-time.After(time.Duration(ms) * time.Millisecond):
		}
		stop.Store(true)
		for k := 0; k < 3; k++ {
			if first == "" {
				select {
				case r := <-done:
					first = r
				case <-time.After(5 * time.Second):
					first = "Hang"
				}
			} else {
				break
			}
		}
		time.Sleep(20 * time.Millisecond)
		l.Close()
		if first != "" {
			return fmt.Sprintf("err CallFailed iteration=%d %s", it, strings.ReplaceAll(first, "\n", " "))
		}
	}
	return fmt.Sprintf("ok ops=%d linearizable (stress: no call failed)", iters)
}

// cedge: batches whose last message sits at the 64 MiB body limit (C02) - for bodies of 64 MiB - d, d in a few
// values around the record overheads, and 64 MiB + 1: Publish [a, b, BIG] either succeeds and assigns three
// consecutive offsets, or fails and assigns none; then [c] is published; across the whole run, and again after a
// reopen, every offset read back is assigned exactly once, in increasing order, and NextOffset is one past the last.
func edgeBatch(dir string) string {
	const lim = 64 * 1024 * 1024
	for _, ver := range []int{2, 1} {
		for _, d := range []int{0, 1, 28, 35, 36, -1} {
			os.RemoveAll(dir)
			os.MkdirAll(dir, 0700)
			o := klevdb.Options{}
			if ver == 1 {
				o.Version.NewSegmentsVersion = klevdb.V1
			}
			l, err := klevdb.Open(dir, o)
			if err != nil {
				return "err open " + errClass(err)
			}
			want := int64(0)
			big := make([]byte, lim-d-1)
			n, err := l.Publish([]klevdb.Message{{Key: []byte("a"), Value: []byte("1")}, {Key: []byte("b"), Value: []byte("2")}, {Key: []byte("B"), Value: big}})
			if err == nil {
				if n != 3 {
					l.Close()
					return fmt.Sprintf("err OffsetReused v%d d=%d: a batch of 3 on an empty log returned %d", ver, d, n)
				}
				want = 3
			}
			n2, err2 := l.Publish([]klevdb.Message{{Key: []byte("c"), Value: []byte("3")}})
			if err2 != nil || n2 != want+1 {
				l.Close()
				return fmt.Sprintf("err OffsetReused v%d d=%d: first Publish err=%v; the next Publish returned %d (%v), expected %d", ver, d, err, n2, err2, want+1)
			}
			chk := func(l klevdb.Log, when string) string {
				next, err := l.NextOffset()
				if err != nil || next != want+1 {
					return fmt.Sprintf("err OffsetReused v%d d=%d %s: NextOffset %d (%v), expected %d", ver, d, when, next, err, want+1)
				}
				off, last := klevdb.OffsetOldest, int64(-1)
				for i := 0; i < 10; i++ {
					nx, msgs, err := l.Consume(off, 2)
					if err != nil {
						return fmt.Sprintf("err ContentLost v%d d=%d %s: Consume(%d) of a log holding a message of %d bytes: %v", ver, d, when, off, lim-d, err)
					}
					for _, m := range msgs {
						if m.Offset <= last {
							return fmt.Sprintf("err OffsetReused v%d d=%d %s: offset %d read after %d (first Publish err=%v)", ver, d, when, m.Offset, last, err)
						}
						last = m.Offset
						// content fidelity (C01): what was published is what is read, the message at the limit included
						var wk string
						var wv []byte
						switch {
						case want == 3 && m.Offset == 0:
							wk, wv = "a", []byte("1")
						case want == 3 && m.Offset == 1:
							wk, wv = "b", []byte("2")
						case want == 3 && m.Offset == 2:
							wk, wv = "B", big
						default:
							wk, wv = "c", []byte("3")
						}
						if string(m.Key) != wk || !bytes.Equal(m.Value, wv) {
							return fmt.Sprintf("err ContentLost v%d d=%d %s: offset %d reads key %q and a value of %d bytes, published key %q and %d bytes", ver, d, when, m.Offset, m.Key, len(m.Value), wk, len(wv))
						}
						if g, err := l.Get(m.Offset); err != nil || string(g.Key) != wk || !bytes.Equal(g.Value, wv) {
							return fmt.Sprintf("err ContentLost v%d d=%d %s: Get(%d) does not return the published message: %v", ver, d, when, m.Offset, err)
						}
					}
					if len(msgs) == 0 {
						break
					}
					off = nx
				}
				if last != want {
					return fmt.Sprintf("err OffsetReused v%d d=%d %s: last offset read %d, expected %d", ver, d, when, last, want)
				}
				return ""
			}
			if r := chk(l, "same session"); r != "" {
				l.Close()
				return r
			}
			l.Close()
			for _, mode := range []string{"plain", "Check", "Recover"} {
				o2 := o
				o2.Check, o2.Recover = mode == "Check", mode == "Recover"
				l, err = klevdb.Open(dir, o2)
				if err != nil {
					return fmt.Sprintf("err ContentLost v%d d=%d reopen (%s): %v", ver, d, mode, err)
				}
				r := chk(l, "after reopen ("+mode+")")
				l.Close()
				if r != "" {
					return r
				}
			}
		}
	}
	os.RemoveAll(dir)
	return "ok ops=12 linearizable (batches at the size limit: all or nothing)"
}

// cquerystress <iterations> <ms>: the lookups against a publisher and a deleter of the oldest messages on a log with
// both indexes and small segments (segments are sealed, rewritten, rebased and removed under the readers all the time):
// GetByTime, GetByKey, ConsumeByKey, Get(OffsetOldest/Newest) and Stat may answer NotFound / InvalidOffset, never fail
// otherwise, and what they return must be what was asked for (time not before ts, byte-equal key).
func concQueryStress(dir string, iters, ms int) string {
	for it := 0; it < iters; it++ {
		os.RemoveAll(dir)
		os.MkdirAll(dir, 0700)
		o := klevdb.Options{KeyIndex: true, TimeIndex: true, Rollover: []int64{2048, 600, 16384}[it%3]}
		if it%4 == 3 {
			o.Version.NewSegmentsVersion = klevdb.V1
		}
		l, err := klevdb.Open(dir, o)
		if err != nil {
			return "err open " + errClass(err)
		}
		var stop atomic.Bool
		var clock atomic.Int64
		done := make(chan string, 8)
		benign := func(err error) bool {
			return err == nil || errors.Is(err, klevdb.ErrNotFound) || errors.Is(err, klevdb.ErrInvalidOffset)
		}
		keys := []string{"ka", "kb", "kc", "kd"}
		go func() {
			for i := 0; !stop.Load(); i++ {
				n := 1 + i%3
				msgs := make([]klevdb.Message, n)
				for j := range msgs {
					t := clock.Add(1)
					msgs[j] = klevdb.Message{Time: utime(1000 + t), Key: []byte(keys[(i+j)%4]), Value: []byte(fmt.Sprintf("v%08d", i))}
				}
				if _, err := l.Publish(msgs); err != nil {
					done <- "Publish: " + errClass(err) + ": " + err.Error()
					return
				}
			}
			done <- ""
		}()
		go func() {
			for !stop.Load() {
				_, msgs, err := l.Consume(klevdb.OffsetOldest, 8)
				if err != nil {
					done <- "Consume(oldest): " + errClass(err) + ": " + err.Error()
					return
				}
				del := map[int64]struct{}{}
				for i, m := range msgs {
					if i%3 != 1 { // leave holes, so that segments are rewritten in place and rebased, not only dropped
						del[m.Offset] = struct{}{}
					}
				}
				if _, _, err := l.Delete(del); err != nil {
					done <- fmt.Sprintf("Delete(%d oldest): %s: %s", len(del), errClass(err), err.Error())
					return
				}
			}
			done <- ""
		}()
		go func() {
			for i := 0; !stop.Load(); i++ {
				ts := int64(0) // before every message: the first live message of the oldest segment
				if i%3 == 1 {
					ts = 1000 + clock.Load()/2
				} else if i%3 == 2 {
					ts = 1000 + clock.Load()
				}
				m, err := l.GetByTime(utime(ts))
				if !benign(err) {
					done <- fmt.Sprintf("GetByTime(%d): %s: %s", ts, errClass(err), err.Error())
					return
				}
				if err == nil && m.Time.Before(utime(ts)) {
					done <- fmt.Sprintf("GetByTime(%d) returned a message of time %d", ts, m.Time.UnixMicro())
					return
				}
				if _, _, err := l.OffsetByTime(utime(ts)); !benign(err) {
					done <- fmt.Sprintf("OffsetByTime(%d): %s: %s", ts, errClass(err), err.Error())
					return
				}
			}
			done <- ""
		}()
		go func() {
			for i := 0; !stop.Load(); i++ {
				k := []byte(keys[i%4])
				m, err := l.GetByKey(k)
				if !benign(err) {
					done <- fmt.Sprintf("GetByKey(%s): %s: %s", k, errClass(err), err.Error())
					return
				}
				if err == nil && string(m.Key) != string(k) {
					done <- fmt.Sprintf("GetByKey(%s) returned key %s", k, m.Key)
					return
				}
				off := klevdb.OffsetOldest
				for j := 0; j < 6; j++ {
					next, ms, err := l.ConsumeByKey(k, off, 4)
					if !benign(err) {
						done <- fmt.Sprintf("ConsumeByKey(%s,%d): %s: %s", k, off, errClass(err), err.Error())
						return
					}
					if err != nil {
						break
					}
					for _, x := range ms {
						if string(x.Key) != string(k) {
							done <- fmt.Sprintf("ConsumeByKey(%s) returned key %s", k, x.Key)
							return
						}
					}
					off = next
				}
			}
			done <- ""
		}()
		go func() {
			for i := 0; !stop.Load(); i++ {
				if _, err := l.Stat(); err != nil {
					done <- "Stat: " + errClass(err) + ": " + err.Error()
					return
				}
				for _, o := range []int64{klevdb.OffsetOldest, klevdb.OffsetNewest} {
					if _, err := l.Get(o); !benign(err) {
						done <- fmt.Sprintf("Get(%d): %s: %s", o, errClass(err), err.Error())
						return
					}
				}
				if i%32 == 31 {
					if err := l.GC(0); err != nil {
						done <- "GC: " + errClass(err) + ": " + err.Error()
						return
					}
				}
			}
			done <- ""
		}()
		first := ""
		select {
		case first = <-done:
		case <-time.After(time.Duration(ms) * time.Millisecond):
		}
		stop.Store(true)
		for k := 0; k < 5 && first == ""; k++ {
			select {
			case r := <-done:
				first = r
			case <-time.After(10 * time.Second):
				first = "Hang: a call has not returned for 10 s after the load stopped"
			}
		}
		if strings.HasPrefix(first, "Hang") {
			return fmt.Sprintf("err CallFailed iteration=%d %s", it, first)
		}
		time.Sleep(20 * time.Millisecond)
		l.Close()
		if first != "" {
			return fmt.Sprintf("err CallFailed iteration=%d %s", it, strings.ReplaceAll(first, "\n", " "))
		}
	}
	return fmt.Sprintf("ok ops=%d linearizable (query stress: no call failed)", iters)
}

// creindex <iterations>: the first use of segments whose index files are missing, by several goroutines at once (every one
// of them finds the index unloaded and the file absent): all index files are removed from a closed multi-segment log, it
// is reopened (read-write or read-only), eight goroutines start their first queries together; none may fail, the answers
// must be right, and after Close every segment must pass Check (the rebuilt index files are the derived ones).
func concReindex(dir string, iters int) string {
	for it := 0; it < iters; it++ {
		os.RemoveAll(dir)
		os.MkdirAll(dir, 0700)
		o := klevdb.Options{KeyIndex: it%2 == 0, TimeIndex: it%3 != 0, Rollover: 300}
		if it%4 == 3 {
			o.Version.NewSegmentsVersion = klevdb.V1
		}
		l, err := klevdb.Open(dir, o)
		if err != nil {
			return "err open " + errClass(err)
		}
		const total = 48
		for i := 0; i < total; i++ {
			if _, err := l.Publish([]klevdb.Message{{Time: utime(int64(1000 + i)), Key: []byte(fmt.Sprintf("k%d", i%5)), Value: []byte(fmt.Sprintf("value-%04d", i))}}); err != nil {
				l.Close()
				return "err CallFailed Publish: " + err.Error()
			}
		}
		if err := l.Close(); err != nil {
			return "err CallFailed Close: " + err.Error()
		}
		segs := listSegs(dir)
		for _, sg := range segs {
			os.Remove(sg.Index)
		}
		o.Readonly = it%2 == 1
		l, err = klevdb.Open(dir, o)
		if err != nil {
			return "err CallFailed reopen without index files: " + err.Error()
		}
		start := make(chan struct{})
		res := make(chan string, 8)
		for g := 0; g < 8; g++ {
			go func(g int) {
				<-start
				// two goroutines per region of the log, so that the same segments are first touched twice at once
				off := int64((g / 2) * 12)
				for k := 0; k < 3; k++ {
					next, ms, err := l.Consume(off, 4)
					if err != nil {
						res <- fmt.Sprintf("Consume(%d): %s: %s", off, errClass(err), err.Error())
						return
					}
					for j, m := range ms {
						if m.Offset != off+int64(j) || string(m.Value) != fmt.Sprintf("value-%04d", m.Offset) {
							res <- fmt.Sprintf("Consume(%d) returned offset %d value %s", off, m.Offset, m.Value)
							return
						}
					}
					off = next
				}
				if m, err := l.Get(int64(g * 6)); err != nil || string(m.Value) != fmt.Sprintf("value-%04d", g*6) {
					res <- fmt.Sprintf("Get(%d): %v", g*6, err)
					return
				}
				if o.KeyIndex {
					if _, err := l.GetByKey([]byte(fmt.Sprintf("k%d", g%5))); err != nil {
						res <- fmt.Sprintf("GetByKey: %s: %s", errClass(err), err.Error())
						return
					}
				}
				if o.TimeIndex {
					if m, err := l.GetByTime(utime(int64(1000 + g*5))); err != nil || m.Offset != int64(g*5) {
						res <- fmt.Sprintf("GetByTime(%d): offset %d, %v", 1000+g*5, m.Offset, err)
						return
					}
				}
				if _, err := l.Stat(); err != nil {
					res <- "Stat: " + errClass(err) + ": " + err.Error()
					return
				}
				res <- ""
			}(g)
		}
		close(start)
		first := ""
		for g := 0; g < 8; g++ {
			select {
			case r := <-res:
				if first == "" {
					first = r
				}
			case <-time.After(20 * time.Second):
				return fmt.Sprintf("err CallFailed iteration=%d Hang: a first query has not returned for 20 s", it)
			}
		}
		if err := l.Close(); err != nil && first == "" {
			first = "Close: " + err.Error()
		}
		if first == "" {
			p := index.Params{Times: o.TimeIndex, Keys: o.KeyIndex}
			for _, sg := range listSegs(dir) {
				if err := sg.Check(p); err != nil {
					first = fmt.Sprintf("after Close segment %d does not pass Check: %s", sg.Offset, err.Error())
					break
				}
			}
		}
		if first != "" {
			return fmt.Sprintf("err CallFailed iteration=%d (readonly=%v) %s", it, o.Readonly, strings.ReplaceAll(first, "\n", " "))
		}
	}
	return fmt.Sprintf("ok ops=%d linearizable (first use without index files: no call failed)", iters)
}

// cpollstress <iterations> <ms>: tailing consumers - one goroutine publishes batches of 1..3 messages, six poll
// Consume(cursor, 32) with the cursor fed back; nothing is ever deleted, so what a poll returns must start exactly at
// the cursor, be consecutive, and move the cursor by exactly the number of messages returned (no gap, no error).
func concPollStress(dir string, iters, ms int) string {
	for it := 0; it < iters; it++ {
		os.RemoveAll(dir)
		os.MkdirAll(dir, 0700)
		o := klevdb.Options{KeyIndex: it%2 == 0, Rollover: []int64{1 << 20, 4096, 512}[it%3]}
		if it%4 == 3 {
			o.Version.NewSegmentsVersion = klevdb.V1
		}
		l, err := klevdb.Open(dir, o)
		if err != nil {
			return "err open " + errClass(err)
		}
		var stop atomic.Bool
		done := make(chan string, 8)
		go func() {
			for i := 0; !stop.Load(); i++ {
				n := 1 + i%3
				msgs := make([]klevdb.Message, n)
				for j := range msgs {
					msgs[j] = klevdb.Message{Key: []byte("k"), Value: []byte(fmt.Sprintf("v%08d", i))}
				}
				if _, err := l.Publish(msgs); err != nil {
					done <- "Publish: " + errClass(err) + ": " + err.Error()
					return
				}
			}
			done <- ""
		}()
		for g := 0; g < 6; g++ {
			go func() {
				cur := int64(0)
				for !stop.Load() {
					next, msgs, err := l.Consume(cur, 32)
					if err != nil {
						done <- fmt.Sprintf("Consume(%d): %s: %s", cur, errClass(err), err.Error())
						return
					}
					for j, m := range msgs {
						if m.Offset != cur+int64(j) {
							done <- fmt.Sprintf("Consume(%d) returned offset %d at position %d", cur, m.Offset, j)
							return
						}
					}
					if next != cur+int64(len(msgs)) {
						done <- fmt.Sprintf("Consume(%d) returned %d messages and next=%d: a gap although nothing was deleted", cur, len(msgs), next)
						return
					}
					cur = next
				}
				done <- ""
			}()
		}
		// ... and one goroutine asks Stat, NextOffset and GC over and over: none may fail or block for good (a Publish
		// that rolls the writing segment over takes the writer lock and then the segment-list lock), and with nothing
		// deleted the message count never goes down
		go func() {
			lastCount, lastNext := 0, int64(0)
			for i := 0; !stop.Load(); i++ {
				st, err := l.Stat()
				if err != nil {
					done <- "Stat: " + errClass(err) + ": " + err.Error()
					return
				}
				if st.Messages < lastCount {
					done <- fmt.Sprintf("Stat counts %d messages after %d although nothing was deleted", st.Messages, lastCount)
					return
				}
				lastCount = st.Messages
				nx, err := l.NextOffset()
				if err != nil || nx < lastNext {
					done <- fmt.Sprintf("NextOffset %d after %d (%v)", nx, lastNext, err)
					return
				}
				lastNext = nx
				if i%16 == 15 {
					if err := l.GC(0); err != nil {
						done <- "GC: " + errClass(err) + ": " + err.Error()
						return
					}
				}
			}
			done <- ""
		}()
		first := ""
		select {
		case first = <-done:
		case <-time.After(time.Duration(ms) * time.Millisecond):
		}
		stop.Store(true)
		for k := 0; k < 8 && first == ""; k++ {
			select {
			case r := <-done:
				first = r
			case <-time.After(5 * time.Second):
				first = "Hang: a call has not returned for 5 s after the load stopped"
			}
		}
		if strings.HasPrefix(first, "Hang") {
			return fmt.Sprintf("err CallFailed iteration=%d %s", it, first)
		}
		time.Sleep(20 * time.Millisecond)
		l.Close()
		if first != "" {
			return fmt.Sprintf("err CallFailed iteration=%d %s", it, strings.ReplaceAll(first, "\n", " "))
		}
	}
	return fmt.Sprintf("ok ops=%d linearizable (poll stress: no gap)", iters)
}

// csyncack <rounds>: Sync under load (C06) - four goroutines publish fixed-size messages into one segment while one
// calls Sync over and over; the FS tap records the length of the log file at its last fsync.  What Sync returns must
// be covered by that fsync: every message below the returned offset was in the file when it was fsynced.
func concSyncAck(dir string, rounds int) string {
	os.RemoveAll(dir)
	os.MkdirAll(dir, 0700)
	l, err := klevdb.Open(dir, klevdb.Options{Rollover: 1 << 30})
	if err != nil {
		return "err open " + errClass(err)
	}
	const recSize = 36 + 4 + 20 // V2 record: 36 bytes of framing, key, value
	var lastSynced atomic.Int64
	vhook.SetFS(func(kind, path string, n int64) {
		if kind == "fsync" && strings.HasSuffix(path, ".log") {
			lastSynced.Store(n)
		}
	})
	defer vhook.SetFS(nil)
	var stop atomic.Bool
	var wg sync.WaitGroup
	for g := 0; g < 4; g++ {
		wg.Add(1)
		go func() {
			defer wg.Done()
			for !stop.Load() {
				if _, err := l.Publish([]klevdb.Message{{Key: []byte("kkkk"), Value: []byte("vvvvvvvvvvvvvvvvvvvv")}}); err != nil {
					return
				}
			}
		}()
	}
	res := ""
	for i := 0; i < rounds && res == ""; i++ {
		w, err := l.Sync()
		if err != nil {
			res = "err Sync " + errClass(err)
			break
		}
		covered := (lastSynced.Load() - 8) / recSize
		if w > covered {
			res = fmt.Sprintf("err SyncAckNotCovered round=%d Sync returned %d but the log file held %d messages (%d bytes) when it was last fsynced",
				i, w, covered, lastSynced.Load())
		}
	}
	stop.Store(true)
	wg.Wait()
	l.Close()
	if res != "" {
		return res
	}
	return fmt.Sprintf("ok ops=%d linearizable (every Sync covered by its fsync)", rounds)
}

// cgcstress <iterations> <ms>: readers against GC - a log of many small sealed segments, eight goroutines reading it
// (Consume with the cursor fed back, Get, both checked against what was published) while two goroutines unload every
// segment with GC(0) over and over, so that segments are lazily loaded by several readers at once and unloaded
// under them.  No call may fail and no read may return anything but the published message.
func concGCStress(dir string, iters, ms int) string {
	for it := 0; it < iters; it++ {
		os.RemoveAll(dir)
		os.MkdirAll(dir, 0700)
		o := klevdb.Options{KeyIndex: it%2 == 0, TimeIndex: it%3 == 0, Rollover: 256}
		if it%2 == 1 {
			o.Version.NewSegmentsVersion = klevdb.V1
		}
		l, err := klevdb.Open(dir, o)
		if err != nil {
			return "err open " + errClass(err)
		}
		const n = 60
		for i := 0; i < n; i++ {
			if _, err := l.Publish([]klevdb.Message{{Key: []byte(fmt.Sprintf("k%03d", i)), Value: []byte(fmt.Sprintf("value-%03d-%s", i, strings.Repeat("x", i%7)))}}); err != nil {
				l.Close()
				return "err setup " + errClass(err)
			}
		}
		want := func(off int64) string { return fmt.Sprintf("value-%03d-%s", off, strings.Repeat("x", int(off)%7)) }
		var stop atomic.Bool
		done := make(chan string, 16)
		for g := 0; g < 8; g++ {
			go func(g int) {
				off := int64(g * 7 % n)
				for !stop.Load() {
					if g%2 == 0 {
						next, msgs, err := l.Consume(off, 4)
						if err != nil {
							done <- fmt.Sprintf("Consume(%d): %s: %s", off, errClass(err), err.Error())
							return
						}
						for _, m := range msgs {
							if string(m.Value) != want(m.Offset) {
								done <- fmt.Sprintf("Consume(%d) returned offset %d with value %q", off, m.Offset, m.Value)
								return
							}
						}
						off = next
						if off >= n {
							off = 0
						}
					} else {
						m, err := l.Get(off)
						if err != nil {
							done <- fmt.Sprintf("Get(%d): %s: %s", off, errClass(err), err.Error())
							return
						}
						if m.Offset != off || string(m.Value) != want(off) {
							done <- fmt.Sprintf("Get(%d) returned offset %d value %q", off, m.Offset, m.Value)
							return
						}
						off = (off + 5) % n
					}
				}
				done <- ""
			}(g)
		}
		for g := 0; g < 2; g++ {
			go func() {
				for !stop.Load() {
					if err := l.GC(0); err != nil {
						done <- "GC: " + errClass(err) + ": " + err.Error()
						return
					}
				}
				done <- ""
			}()
		}
		first := ""
		select {
		case first = <-done:
		case <-time.After(time.Duration(ms) * time.Millisecond):
		}
		stop.Store(true)
		for k := 0; k < 10 && first == ""; k++ {
			select {
			case r := <-done:
				first = r
			case <-time.After(5 * time.Second):
				first = "Hang"
			}
		}
		time.Sleep(20 * time.Millisecond)
		l.Close()
		if first != "" {
			return fmt.Sprintf("err CallFailed iteration=%d %s", it, strings.ReplaceAll(first, "\n", " "))
		}
	}
	return fmt.Sprintf("ok ops=%d linearizable (gc stress: no call failed)", iters)
}

var _ = errors.New
var _ = vhook.Pause
