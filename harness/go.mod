module verif/harness

go 1.25.0

toolchain go1.26.1

require (
	github.com/anishathalye/porcupine v1.3.0
	github.com/klev-dev/klevdb v0.0.0
)

require (
	github.com/gofrs/flock v0.13.0 // indirect
	github.com/plar/go-adaptive-radix-tree/v2 v2.0.4 // indirect
	golang.org/x/exp v0.0.0-20260410095643-746e56fc9e2f // indirect
	golang.org/x/sys v0.43.0 // indirect
)

replace github.com/klev-dev/klevdb => /repo
