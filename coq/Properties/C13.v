(* C13 — Record and index formats are stable, self-consistent and exactly sized.
   The encoders of Codec.v ARE the documented layout (V2: crc32c(bytes[4:]) | offset | unix-micro | keylen |
   vallen | key | value | DEADBEEFFEEDFACE; V1: offset | unix-micro | keylen | vallen | crc32c(key|value) | key |
   value; file header FF k l e v s|i, version, reserved|flags); the byte-level correspondence compares them
   with what klevdb writes.  The decoders are transcriptions of readV1/readV2.  All theorems hold for
   every checksum function with values in [0, 2^32). *)
From KV Require Import Base Model Codec CodecProofs RecoverProofs TrimProofs LogInv Spec.

(* any message within the writer's guards reads back identical, from the position where it was
   written, whatever precedes and follows it in the file; the reader reports the next position *)
Theorem C13_roundtrip :
  forall crc v pre m post, crc_range crc -> msg_ok m ->
  read_rec crc v (pre ++ enc_rec crc v m ++ post) (zlen pre) = Ok (m, zlen pre + rec_size v m).
Proof. exact read_rec_roundtrip. Qed.
Print Assumptions C13_roundtrip.

(* records are laid out back to back: scanning an encoded log file of any number of messages returns
   exactly those messages at the prefix-sum positions and ends cleanly at the end of the file *)
Theorem C13_back_to_back :
  forall crc v ms, crc_range crc -> Forall msg_ok ms ->
  scan_log crc (scan_fuel_of (enc_log crc v ms)) v (enc_log crc v ms) (hdr_size v) =
  (placed v (hdr_size v) ms, log_size v ms, ScanEOF).
Proof. exact scan_encoded_log. Qed.
Print Assumptions C13_back_to_back.

(* Size(m) is exactly the number of bytes a message adds to a segment: record bytes + one index item *)
Theorem C13_record_size : forall crc v m, zlen (enc_rec crc v m) = rec_size v m.
Proof. exact enc_rec_length. Qed.
Print Assumptions C13_record_size.

Theorem C13_item_size : forall p it, zlen (enc_item p it) = item_size p.
Proof. exact enc_item_length. Qed.
Print Assumptions C13_item_size.

(* conversely, whatever the V2 reader accepts at a position is byte for byte the documented encoding of
   the message it returns (files written by an independent encoder and read by klevdb, and vice versa) *)
Theorem C13_reader_accepts_only_the_layout :
  forall crc b pos m nxt, bytes_ok b -> 0 <= pos -> read_rec crc V2 b pos = Ok (m, nxt) ->
  nxt = pos + rec_size V2 m /\ sub b pos (rec_size V2 m) = enc_rec crc V2 m.
Proof. exact read_rec_v2_sound. Qed.
Print Assumptions C13_reader_accepts_only_the_layout.

(* the encoding determines the message *)
Theorem C13_encoding_injective :
  forall crc m1 m2, crc_range crc -> msg_ok m1 -> msg_ok m2 -> enc_rec crc V2 m1 = enc_rec crc V2 m2 -> m1 = m2.
Proof. exact enc_rec_v2_injective. Qed.
Print Assumptions C13_encoding_injective.

(* index files: what index.Write produces (both versions, all four layouts: offset+position, optional timestamp,
   optional key hash) index.Read returns exactly *)
Theorem C13_index_roundtrip :
  forall p base v items, Forall (item_ok p) items ->
  (v = V1 -> match items with [] => True | it :: _ => ioff it = base /\ 0 <= base end) ->
  index_read p base (enc_index v p items) = Ok (v, items).
Proof. exact index_read_enc. Qed.
Print Assumptions C13_index_roundtrip.

(* the V1 decoder too accepts only byte-for-byte valid records *)
Theorem C13_v1_decoder_sound :
  forall crc b pos m nxt, bytes_ok b -> 0 <= pos -> read_rec crc V1 b pos = Ok (m, nxt) ->
  nxt = pos + rec_size V1 m /\ sub b pos (rec_size V1 m) = enc_rec crc V1 m.
Proof. exact read_rec_v1_sound. Qed.
Print Assumptions C13_v1_decoder_sound.

(* Stat reports exactly the number of live messages *)
Theorem C13_stat_counts_live_messages :
  forall (H : bytes -> Z) st, Inv st ->
  exists st' sg sz, log_stat H st = Ok (st', (sg, zlen (live (abs st)), sz)) /\ Inv st' /\ abs st' = abs st.
Proof. exact log_stat_count. Qed.
Print Assumptions C13_stat_counts_live_messages.
