(* C01 — Log content fidelity: nothing lost, nothing invented, nothing altered. *)
From KV Require Import Base Model Spec SpecFacts LogInv ConsumeProofs GetProofs AbsFacts PublishProofs
     DeleteProofs OpenProofs ReadsPreserve History XHistory Helpers ScanProofs.

(* Every history of API calls — Open in any mode (Check / Recover / EagerVersionMigrate, read-write or
   read-only, any rollover size and format version), Close, Publish, Delete, every read, index-file removal,
   Migrate and Recover on the closed directory — keeps the handle in a Good state, and the abstract log of
   the final state is the fold of the abstract steps: a successful Publish appends exactly its messages
   (key, value and time unchanged, offsets NextOffset..), a successful Delete removes exactly the messages
   it reported, and no other call changes the live messages or NextOffset.  No bound on the length of the
   history, the number of segments or the sizes. *)
Theorem C01_history :
  forall (H : bytes -> Z) ops st,
  Good st -> Good (fst (hrun H st ops)) /\
             abs (fst (hrun H st ops)) = spec_run (abs st) ops (snd (hrun H st ops)).
Proof. exact history_refines. Qed.
Print Assumptions C01_history.

Theorem C01_initial : Good init_state /\ abs init_state = empty_log.
Proof. split; [exact good_init|reflexivity]. Qed.
Print Assumptions C01_initial.

(* one step, with the abstract effect spelled out *)
Theorem C01_step :
  forall (H : bytes -> Z) st op,
  Good st -> Good (fst (hstep H st op)) /\
             abs (fst (hstep H st op)) = spec_step (abs st) op (snd (hstep H st op)).
Proof. exact hstep_good. Qed.
Print Assumptions C01_step.

(* what a reader sees is the abstract log: Consume at any offset returns a contiguous run of the live
   sequence (check_consume), Get returns the addressed live message *)
Theorem C01_consume_shows_live :
  forall (H : bytes -> Z) st off max, Inv st -> 1 <= max ->
  check_consume (abs st) off max (obs_consume (log_consume H st off max)) = true.
Proof. exact log_consume_correct. Qed.
Print Assumptions C01_consume_shows_live.

(* the live sequence of every open handle is in strictly increasing offset order, below NextOffset *)
Theorem C01_increasing : forall st, Inv st -> offs_increasing (live (abs st)).
Proof. exact abs_offsets_increasing. Qed.
Print Assumptions C01_increasing.

Theorem C01_below_next : forall st m, Inv st -> In m (live (abs st)) -> moff m < anext (abs st).
Proof. exact abs_offsets_below_next. Qed.
Print Assumptions C01_below_next.

(* Close followed by Open in any mode shows the same log *)
Theorem C01_reopen :
  forall (H : bytes -> Z) st c0 st1 st2,
  Inv st -> log_close st = Ok st1 -> log_open H st1 c0 = Ok st2 -> Inv st2 /\ abs st2 = abs st.
Proof.
  intros H st c0 st1 st2 HI Hc Ho. destruct (log_close_ok st HI) as (st1' & E & Hs & Hop & Hv & HD & A).
  rewrite Hc in E. injection E as <-.
  assert (Hne : segs st1 <> []) by (rewrite Hs; destruct HI as (Hne & _); exact Hne).
  destruct (log_open_ok H st1 c0 (conj Hop (conj Hv HD)) Hne st2 Ho) as (I2 & A2). split; [exact I2|congruence].
Qed.
Print Assumptions C01_reopen.

(* the observation the property names: reading the log from the oldest offset to the end (Consume with the cursor fed
   back) yields exactly the live messages, each once, in order, and ends at NextOffset *)
Theorem C01_full_scan_reads_the_live_messages :
  forall (H : bytes -> Z) st max, Inv st -> 1 <= max ->
  exists st', full_scan H (S (S (length (live (abs st))))) st OffsetOldest max [] = Ok (st', live (abs st), anext (abs st)) /\
              Inv st' /\ abs st' = abs st.
Proof. exact full_scan_correct. Qed.
Print Assumptions C01_full_scan_reads_the_live_messages.

(* a Publish that returns an error - a read-only or closed handle, or a batch refused for an oversized message after
   the writing segment was already rolled over (History.pub_step) - publishes nothing *)
Theorem C01_failed_publish_publishes_nothing :
  forall (H : bytes -> Z) st ms e,
  Good st -> snd (hstep H st (HPub ms)) = RNum (Err e) ->
  Good (fst (hstep H st (HPub ms))) /\ abs (fst (hstep H st (HPub ms))) = abs st.
Proof. exact failed_publish_publishes_nothing. Qed.
Print Assumptions C01_failed_publish_publishes_nothing.

(* ... "across segment rollover at any size, deletes, trims, compaction, GC": the helper calls of delete.go, trim_*.go,
   compact_*.go and compact.go (loops of Consume and Delete, transcribed in Helpers.v) and GC as steps of the same
   histories.  Whatever a helper returns - also an error after some of its passes have already removed messages - the
   log afterwards is the log before minus exactly the messages it reported, NextOffset unchanged.  The driver of the
   correspondence runs executes these very steps (xh_step). *)
Theorem C01_history_with_trims_compaction_gc :
  forall (H : bytes -> Z) ops st,
  Good st -> Good (fst (xh_run H st ops)) /\
             abs (fst (xh_run H st ops)) = xh_spec_run (abs st) ops (snd (xh_run H st ops)).
Proof. exact xhistory_refines. Qed.
Print Assumptions C01_history_with_trims_compaction_gc.

Theorem C01_helper_step :
  forall (H : bytes -> Z) st op,
  Good st -> Good (fst (xh_step H st op)) /\
             abs (fst (xh_step H st op)) = xh_spec_step (abs st) op (snd (xh_step H st op)).
Proof. exact xh_step_good. Qed.
Print Assumptions C01_helper_step.

(* NextOffset never moves back along such a history *)
Theorem C01_next_offset_never_moves_back :
  forall ops outs a, anext a <= anext (xh_spec_run a ops outs).
Proof. exact xh_spec_run_next. Qed.
Print Assumptions C01_next_offset_never_moves_back.
