(* C10 — Time lookups return the first live message at or after the given time. *)
From KV Require Import Base Model Spec SearchProofs LogInv GetProofs History KeyProofs KeyInv TimeProofs TimeInv ReadsPreserve OffsetProofs.

(* For every state of a session whose index files are the derived ones (KInv, proved for every reachable
   state of a session that keeps its options), whose index timestamps equal the message times (TS) and whose
   live message times never decrease with offset and are not negative: GetByTime returns the live message
   with the smallest offset whose time is not before ts; ErrNotFound if every live message is earlier;
   ErrInvalidOffset/NotFound when there is no live message; ErrNoIndex without the time index - however the
   messages are spread over segments (any number of segments, empty ones included), after any deletes, and
   whether the index was loaded from its file or rebuilt from the log. *)
Theorem C10_get_by_time :
  forall (H : bytes -> Z) c st ts,
  KInv H (cparams c) st -> TS st -> opened st = Some c -> tmono 0 (live (abs st)) ->
  check_get_by_time (abs st) (ctimes c) ts (obs_get (log_get_by_time H st ts)) = true.
Proof. exact log_get_by_time_correct. Qed.
Print Assumptions C10_get_by_time.

(* the hypotheses are met on every state reached by ANY history - publishes with rollover, deletes, reads with lazy
   index rebuilds, close/reopen in any mode, index removal, Migrate, Recover - that keeps its index options and whose
   publish times never decrease and are not negative (thist_ok 0: every batch is non-decreasing and starts at or
   after the largest time published before): GetByTime answers as specified, whatever happened before *)
Theorem C10_on_monotone_histories :
  forall (H : bytes -> Z) p ops c ts,
  Forall (uses p) ops -> thist_ok 0 ops ->
  let st := fst (hrun H init_state ops) in
  opened st = Some c -> lvirt st = false ->
  check_get_by_time (abs st) (ctimes c) ts (obs_get (log_get_by_time H st ts)) = true.
Proof. exact get_by_time_on_monotone_histories. Qed.
Print Assumptions C10_on_monotone_histories.

Theorem C10_invariant_over_histories :
  forall (H : bytes -> Z) p ops T st,
  TGood H p T st -> Forall (uses p) ops -> thist_ok T ops -> TGood H p (T_final T ops) (fst (hrun H st ops)).
Proof. exact thistory. Qed.
Print Assumptions C10_invariant_over_histories.

(* the in-segment lower bound on timestamps (index.Time), for index arrays of any length *)
Theorem C10_index_time :
  forall items ts, ts_sorted items ->
  match items with
  | [] => index_time items ts = Err ETimeEmpty
  | first :: _ =>
    let lst := last items first in
    if ts <? its first then index_time items ts = Err ETimeBefore
    else if its lst <? ts then index_time items ts = Err ETimeAfter
    else exists it, first_ts_ge items ts = Some it /\ index_time items ts = Ok (ipos it)
  end.
Proof. exact index_time_spec. Qed.
Print Assumptions C10_index_time.

(* one segment *)
Theorem C10_reader_get_by_time :
  forall (H : bytes -> Z) p s items ts lo,
  exact_items H p s items -> faithful s items -> tmono lo (srecs s) ->
  match srecs s with
  | [] => reader_get_by_time s items ts = Err ETimeEmpty
  | first :: _ =>
    let lst := last (srecs s) first in
    if ts <? mtime first then reader_get_by_time s items ts = Err ETimeBefore
    else if mtime lst <? ts then reader_get_by_time s items ts = Err ETimeAfter
    else exists m, find (fun m => ts <=? mtime m) (srecs s) = Some m /\ reader_get_by_time s items ts = Ok m
  end.
Proof. exact reader_get_by_time_spec. Qed.
Print Assumptions C10_reader_get_by_time.

(* the newest-to-oldest walk with its before-start / after-end hand-off computes the first message at or
   after ts of the concatenation, for any segmentation *)
Theorem C10_walk_is_segmentation_independent :
  forall ts lo rl suffix cand,
  tmono lo (concat (rev rl) ++ suffix) -> cand_ok ts cand suffix ->
  tback ts rl cand = final ts (concat (rev rl) ++ suffix).
Proof. exact tback_final. Qed.
Print Assumptions C10_walk_is_segmentation_independent.

(* a rebuilt index has timestamps equal to the message times exactly when the times are monotone from 0 *)
Theorem C10_rebuilt_index_faithful :
  forall (H : bytes -> Z) p v, ptimes p = true -> forall recs cur ts0,
  tmono ts0 recs -> map its (derive_from H p v cur ts0 recs) = map mtime recs.
Proof. exact derive_faithful. Qed.
Print Assumptions C10_rebuilt_index_faithful.

(* lookups never change the log *)
Theorem C10_lookups_preserve :
  forall (H : bytes -> Z) st ts st1 m,
  Inv st -> log_get_by_time H st ts = Ok (st1, m) -> Inv st1 /\ abs st1 = abs st /\ opened st1 = opened st.
Proof. exact log_get_by_time_preserves. Qed.
Print Assumptions C10_lookups_preserve.

(* known finding F11, shown on the model: with times before 1970 the index timestamps start from 0, and
   GetByTime(-4) on times [-5; -3; 4] returns the message at -5 although -3 is the first not before -4 *)
Definition f11_hash (b : bytes) : Z := 0.
Definition f11_cfg : cfg := mkCfg false false true false 1048576 false false V2 false false.
Definition f11_msgs := [mkMsg 0 (-5) [97%N] [1%N]; mkMsg 0 (-3) [98%N] [2%N]; mkMsg 0 4 [99%N] [3%N]].
Definition f11_state := fst (hrun f11_hash init_state [HOpen f11_cfg; HPub f11_msgs]).
Theorem C10_F11_negative_times_refuted :
  mono_times (live (abs f11_state)) = true /\
  check_get_by_time (abs f11_state) true (-4) (obs_get (log_get_by_time f11_hash f11_state (-4))) = false.
Proof. split; vm_compute; reflexivity. Qed.
Print Assumptions C10_F11_negative_times_refuted.

(* OffsetByTime (log.go: GetByTime, then offset and time of what it found) on every state reached by a monotone
   history: offset and time of the first live message not before ts; an error exactly when there is none *)
Theorem C10_offset_by_time_on_monotone_histories :
  forall (H : bytes -> Z) p ops c ts,
  Forall (uses p) ops -> thist_ok 0 ops ->
  let st := fst (hrun H init_state ops) in
  opened st = Some c -> lvirt st = false -> ctimes c = true ->
  match log_offset_by_time H st ts with
  | Ok (_, (o, t)) => exists m, find (fun m => ts <=? mtime m) (live (abs st)) = Some m /\ moff m = o /\ mtime m = t
  | Err e => find (fun m => ts <=? mtime m) (live (abs st)) = None
  end.
Proof. exact OffsetProofs.offset_by_time_on_monotone_histories. Qed.
Print Assumptions C10_offset_by_time_on_monotone_histories.

(* the same on EVERY state a monotone history reaches - also the handle of a read-only Open on an empty directory
   (no writer, no segment files), which the statement above left out *)
Theorem C10_on_all_monotone_histories :
  forall (H : bytes -> Z) p ops c ts,
  Forall (uses p) ops -> thist_ok 0 ops ->
  let st := fst (hrun H init_state ops) in
  opened st = Some c ->
  check_get_by_time (abs st) (ctimes c) ts (obs_get (log_get_by_time H st ts)) = true.
Proof. exact OffsetProofs.get_by_time_on_all_monotone_histories. Qed.
Print Assumptions C10_on_all_monotone_histories.
