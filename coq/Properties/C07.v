(* C07 — Recover keeps exactly the valid prefix; Check accepts exactly the clean segments. *)
From KV Require Import Base Model Codec CodecProofs RecoverProofs.

(* the scan that Recover and Check share: whatever it returns from an arbitrary byte string is a back-to-back
   run of byte-for-byte valid records (V1 and V2), and it stops at the first position that does not hold one *)
Theorem C07_decoder_sound :
  forall crc v b pos m nxt, bytes_ok b -> 0 <= pos -> read_rec crc v b pos = Ok (m, nxt) ->
  nxt = pos + rec_size v m /\ sub b pos (rec_size v m) = enc_rec crc v m /\ msg_ok m.
Proof. exact read_rec_sound. Qed.
Print Assumptions C07_decoder_sound.

(* Recover on ANY byte string (truncation at any byte, zero fill, bit flips, garbage after any number of
   valid records): the new log file is the encoding of messages, is a prefix of the old file, and the rest
   of the old file does not begin with the encoding of any message - precisely the longest prefix of valid
   records; the index afterwards is absent, the untouched old one if it reads as the derived items, or the
   encoding of the derived items *)
Theorem C07_recover_keeps_valid_prefix :
  forall crc H, crc_range crc -> forall p base b idx newlog idx',
  bytes_ok b -> recover_bytes crc H p base b idx = Ok (newlog, idx') ->
  exists v ms rest,
    log_version b base = Ok v /\ Forall msg_ok ms /\ newlog = enc_log crc v ms /\ b = newlog ++ rest /\
    (forall m rest', msg_ok m -> rest <> enc_rec crc v m ++ rest') /\
    let items := scan_items H p (placed v (hdr_size v) ms) in
    match idx' with
    | None => True
    | Some ib => (idx = Some ib /\ index_is p base idx items) \/ exists iv, ib = enc_index iv p items
    end.
Proof. exact recover_keeps_valid_prefix. Qed.
Print Assumptions C07_recover_keeps_valid_prefix.

(* byte-for-byte no-op on an undamaged segment *)
Theorem C07_recover_noop :
  forall crc H, crc_range crc -> forall p base v ms idx,
  Forall msg_ok ms -> log_version (enc_log crc v ms) base = Ok v ->
  index_is p base idx (scan_items H p (placed v (hdr_size v) ms)) ->
  recover_bytes crc H p base (enc_log crc v ms) idx = Ok (enc_log crc v ms, idx).
Proof. exact recover_noop. Qed.
Print Assumptions C07_recover_noop.

(* Check succeeds if and only if the log file parses completely and the index file, if present, reads as the
   index derived from it *)
Theorem C07_check_iff :
  forall crc H, crc_range crc -> forall p base b idx, bytes_ok b ->
  (check_bytes crc H p base b idx = Ok tt <->
   exists v ms, log_version b base = Ok v /\ Forall msg_ok ms /\ b = enc_log crc v ms /\
                index_is p base idx (scan_items H p (placed v (hdr_size v) ms))).
Proof. exact check_iff. Qed.
Print Assumptions C07_check_iff.

(* after Recover, Check succeeds, and recovering again changes nothing (for a segment file named after its
   first record, file below 2^63 bytes, 64-bit key hashes) *)
Theorem C07_recover_then_check :
  forall crc H, crc_range crc -> (forall k, 0 <= H k < two64z) ->
  forall p base b idx newlog idx',
  bytes_ok b -> zlen b < two63 -> 0 <= base < two63 ->
  (forall v m nxt, log_version b base = Ok v -> read_rec crc v b (hdr_size v) = Ok (m, nxt) -> moff m = base) ->
  recover_bytes crc H p base b idx = Ok (newlog, idx') ->
  check_bytes crc H p base newlog idx' = Ok tt /\
  recover_bytes crc H p base newlog idx' = Ok (newlog, idx').
Proof. exact recover_then_check. Qed.
Print Assumptions C07_recover_then_check.

(* ... and keeps succeeding after further appends with the derived index *)
Theorem C07_check_after_append :
  forall crc H, crc_range crc -> forall p base v ms ms' idx,
  Forall msg_ok ms -> Forall msg_ok ms' ->
  log_version (enc_log crc v (ms ++ ms')) base = Ok v ->
  index_is p base idx (scan_items H p (placed v (hdr_size v) (ms ++ ms'))) ->
  check_bytes crc H p base (enc_log crc v ms ++ concat (map (enc_rec crc v) ms')) idx = Ok tt.
Proof. exact check_after_append. Qed.
Print Assumptions C07_check_after_append.

(* the index files the writer produces are read back exactly (both versions, all four layouts) *)
Theorem C07_index_roundtrip :
  forall p base v items, Forall (item_ok p) items ->
  (v = V1 -> match items with [] => True | it :: _ => ioff it = base /\ 0 <= base end) ->
  index_read p base (enc_index v p items) = Ok (v, items).
Proof. exact index_read_enc. Qed.
Print Assumptions C07_index_roundtrip.

(* a record cut anywhere inside is classified as corruption: not data, not the clean end of file *)
Theorem C07_torn_rejected :
  forall crc (H : bytes -> Z) v pre m t, msg_ok m -> proper_prefix t (enc_rec crc v m) ->
  read_rec crc v (pre ++ t) (zlen pre) = Err ELogCorrupted.
Proof. exact torn_rejected. Qed.
Print Assumptions C07_torn_rejected.

(* known finding F14 on the model: a 1..7 byte log file is refused, not truncated *)
Theorem C07_short_file_refused :
  forall crc H p base (b : bytes) idx, 0 < zlen b < 8 -> recover_bytes crc H p base b idx = Err ELogCorrupted.
Proof. exact recover_short_file_refused. Qed.
Print Assumptions C07_short_file_refused.
