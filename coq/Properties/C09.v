(* C09 — Key lookups return the last live message with exactly that key. *)
From KV Require Import Base Model Spec LogInv GetProofs ConsumeProofs History KeyProofs KeyInv KeyConsume OffsetProofs.

(* For EVERY hash function H (in particular one under which all keys collide): on any state of a session
   with the key index, GetByKey returns the live message with the greatest offset whose key is byte for byte
   the argument, ErrNotFound if there is none; without the key index ErrNoIndex (check_get_by_key). *)
Theorem C09_get_by_key :
  forall (H : bytes -> Z) c st k,
  KInv H (cparams c) st -> opened st = Some c ->
  check_get_by_key (abs st) (ckeys c) k (obs_get (log_get_by_key H st k)) = true.
Proof. exact log_get_by_key_correct. Qed.
Print Assumptions C09_get_by_key.

(* ConsumeByKey at any offset and maxCount: a run of the live messages with exactly that key at or after the
   offset, in offset order, none stepped over, at most max(maxCount,1) of them, next = last+1; with nothing
   left it returns NextOffset; OffsetNewest returns NextOffset; ErrNoIndex without the key index *)
Theorem C09_consume_by_key :
  forall (H : bytes -> Z) c st k off max,
  KInv H (cparams c) st -> opened st = Some c ->
  check_consume_by_key (abs st) (ckeys c) k off max (obs_consume (log_consume_by_key H st k off max)) = true.
Proof. exact log_consume_by_key_correct. Qed.
Print Assumptions C09_consume_by_key.

(* one segment: the candidates the hash index yields are filtered by the stored key *)
Theorem C09_reader_get_by_key :
  forall (H : bytes -> Z) p s items k, pkeys p = true -> exact_items H p s items ->
  reader_get_by_key H s items k =
  match last_opt (filter (has_key k) (srecs s)) with Some m => Ok m | None => Err EKeyNotFound end.
Proof. exact reader_get_by_key_spec. Qed.
Print Assumptions C09_reader_get_by_key.

(* the hypothesis KInv is met by every state reachable in a session history that keeps its index options
   (publishes with rollover, deletes, reads with lazy index rebuilds, close/reopen in any mode, removal of
   index files, Migrate, Recover): the key tree / index is rebuilt on load and kept in sync on append and
   rewrite *)
Theorem C09_index_exact_on_every_reachable_state :
  forall (H : bytes -> Z) p ops, Forall (uses p) ops -> KGood H p (fst (hrun H init_state ops)).
Proof. intros H p ops Hu. exact (khistory H p ops init_state (kgood_init H p) Hu). Qed.
Print Assumptions C09_index_exact_on_every_reachable_state.

Theorem C09_kgood_gives_kinv : forall (H : bytes -> Z) p st, KGood H p st -> Inv st -> KInv H p st.
Proof. exact kgood_kinv. Qed.
Print Assumptions C09_kgood_gives_kinv.

(* lookups never change the log *)
Theorem C09_lookups_preserve :
  forall (H : bytes -> Z) st k st1 m,
  Inv st -> log_get_by_key H st k = Ok (st1, m) -> Inv st1 /\ abs st1 = abs st /\ opened st1 = opened st.
Proof. exact ReadsPreserve.log_get_by_key_preserves. Qed.
Print Assumptions C09_lookups_preserve.

(* OffsetByKey (log.go: GetByKey, then the offset of what it found): the offset of the last live message with exactly
   that key; ErrNotFound exactly when there is none; ErrNoIndex without the key index - for every hash function *)
Theorem C09_offset_by_key :
  forall (H : bytes -> Z) c st k,
  KInv H (cparams c) st -> opened st = Some c ->
  match log_offset_by_key H st k with
  | Ok (_, o) => ckeys c = true /\ option_map moff (last_opt (filter (has_key k) (live (abs st)))) = Some o
  | Err e => if ckeys c then last_opt (filter (has_key k) (live (abs st))) = None /\ classify e = CNotFound
             else classify e = CNoIndex
  end.
Proof. exact OffsetProofs.log_offset_by_key_correct. Qed.
Print Assumptions C09_offset_by_key.
