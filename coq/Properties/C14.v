(* C14 — A damaged record is never returned as data (V2).
   Residual premise, not proved here: that in-place damage of a record does not produce ANOTHER byte string
   that is itself a complete, CRC-consistent record (a CRC-32C collision); everything else is proved. *)
From KV Require Import Base Model Codec CodecProofs CrcProofs CrcBurst.

(* whatever a read returns from a (possibly damaged) file is a complete valid record that is really there:
   its length fields, CRC over header+payload+trailer and trailer all fit the bytes at that position *)
Theorem C14_returned_record_is_in_the_file :
  forall crc b pos m nxt, bytes_ok b -> 0 <= pos -> read_rec crc V2 b pos = Ok (m, nxt) ->
  nxt = pos + rec_size V2 m /\ sub b pos (rec_size V2 m) = enc_rec crc V2 m.
Proof. exact read_rec_v2_sound. Qed.
Print Assumptions C14_returned_record_is_in_the_file.

(* hence a read of a damaged file can only differ from the published message if the damaged bytes at that
   position are the full valid encoding of that other message *)
Corollary C14_differs_only_by_a_valid_forgery :
  forall crc b' pos m m' nxt,
  crc_range crc -> bytes_ok b' -> 0 <= pos -> msg_ok m ->
  read_rec crc V2 b' pos = Ok (m', nxt) -> m' <> m ->
  sub b' pos (rec_size V2 m') = enc_rec crc V2 m' /\ enc_rec crc V2 m' <> enc_rec crc V2 m.
Proof.
  intros crc b' pos m m' nxt Hcrc Hok Hpos Hm Hr Hne.
  destruct (read_rec_v2_sound crc b' pos m' nxt Hok Hpos Hr) as [_ Henc]. split; [exact Henc|].
  intro E. apply Hne. apply (enc_rec_v2_injective crc m' m Hcrc); auto.
  eapply read_rec_v2_msg_ok; eauto.
Qed.
Print Assumptions C14_differs_only_by_a_valid_forgery.

(* calls answered from bytes that were not touched return what they returned before: the answer of a read
   depends only on the bytes of the record it reads (other records, other files are irrelevant) *)
Theorem C14_untouched_records_unchanged :
  forall crc b b' pos m nxt,
  crc_range crc -> bytes_ok b -> 0 <= pos ->
  read_rec crc V2 b pos = Ok (m, nxt) ->
  sub b' pos (nxt - pos) = sub b pos (nxt - pos) ->
  read_rec crc V2 b' pos = Ok (m, nxt).
Proof. exact read_rec_v2_ext. Qed.
Print Assumptions C14_untouched_records_unchanged.

(* no allocation out of proportion: whatever the length fields say, the reader takes at most the 64 MiB
   guard plus the fixed overhead, and never more than the file holds *)
Theorem C14_allocation_bounded :
  forall (b : bytes) pos n, 0 <= n -> zlen (sub b pos n) <= n.
Proof. intros; now apply zlen_sub_le. Qed.
Print Assumptions C14_allocation_bounded.

Theorem C14_lengths_guarded :
  forall crc b pos m nxt, bytes_ok b -> read_rec crc V2 b pos = Ok (m, nxt) ->
  zlen (mkey m) + zlen (mval m) <= max_body.
Proof. intros crc b pos m nxt Hok Hr. destruct (read_rec_v2_msg_ok crc b pos m nxt Hok Hr) as (_ & _ & H). exact H. Qed.
Print Assumptions C14_lengths_guarded.

(* ---------- part of the residual premise, proved for Codec.crc32c: CRC-32C tells apart any two byte strings that differ
   in exactly one byte (so in particular by one flipped bit) *)
Theorem C14_crc32c_detects_one_byte :
  forall pre a a' post,
  bytes_ok pre -> bytes_ok post -> (a < 256)%N -> (a' < 256)%N -> a <> a' ->
  crc32c (pre ++ a :: post) <> crc32c (pre ++ a' :: post).
Proof. exact CrcProofs.crc32c_one_byte. Qed.
Print Assumptions C14_crc32c_detects_one_byte.

(* hence: a V2 record damaged in exactly one byte (a flipped bit, a one-byte overwrite) - checksum field, offset, time,
   key, value or trailer - is never read back with its size unchanged, neither as the published message nor as any
   other: the read fails, unless the byte hit is one of the two length fields, and then whatever is read has another size *)
Theorem C14_single_byte_damage_detected :
  forall b' pos m,
  bytes_ok b' -> 0 <= pos -> bytes_ok (enc_rec crc32c V2 m) ->
  CrcProofs.differ_at_one (enc_rec crc32c V2 m) (sub b' pos (rec_size V2 m)) ->
  forall m' nxt, read_rec crc32c V2 b' pos = Ok (m', nxt) -> rec_size V2 m' <> rec_size V2 m.
Proof. exact CrcProofs.single_byte_damage_detected. Qed.
Print Assumptions C14_single_byte_damage_detected.

(* ---------- more of the residual premise: CRC-32C tells apart any two byte strings of the same length that differ only
   inside a window of at most four consecutive bytes (any burst of up to 32 bits: the register update is linear over
   GF(2) and injective on 32-bit values) *)
Theorem C14_crc32c_detects_bursts :
  forall pre w w' post,
  bytes_ok pre -> bytes_ok post -> bytes_ok w -> bytes_ok w' -> length w = length w' -> (length w <= 4)%nat ->
  crc32c (pre ++ w ++ post) = crc32c (pre ++ w' ++ post) -> w = w'.
Proof. exact CrcBurst.crc32c_burst. Qed.
Print Assumptions C14_crc32c_detects_bursts.

(* hence: a V2 record overwritten anywhere inside a window of at most four consecutive bytes that does not straddle the
   end of the checksum field (bytes 0..3 of the record) is never read back with its size unchanged: the read fails, unless
   a length field was hit, and then whatever is read has another size.  (For a window that covers bytes of the checksum
   field and of the data behind it the checksum gives no such guarantee - it is stored in front of the data.) *)
Theorem C14_burst_damage_detected :
  forall b' pos m,
  bytes_ok b' -> 0 <= pos -> bytes_ok (enc_rec crc32c V2 m) ->
  CrcBurst.differ_in_window (enc_rec crc32c V2 m) (sub b' pos (rec_size V2 m)) ->
  forall m' nxt, read_rec crc32c V2 b' pos = Ok (m', nxt) -> rec_size V2 m' <> rec_size V2 m.
Proof. exact CrcBurst.burst_damage_detected. Qed.
Print Assumptions C14_burst_damage_detected.

(* non-vacuity: a record and a copy with three bytes of its value overwritten meet the hypothesis *)
Example C14_window_example :
  let m := {| moff := 7; mtime := 1000; mkey := [1; 2]%N; mval := [10; 20; 30; 40; 50]%N |} in
  let m' := {| moff := 7; mtime := 1000; mkey := [1; 2]%N; mval := [10; 99; 98; 97; 50]%N |} in
  CrcBurst.differ_in_window (enc_rec (fun _ => 0) V2 m) (enc_rec (fun _ => 0) V2 m').
Proof.
  cbv zeta. exists (firstn 31 (enc_rec (fun _ => 0) V2 {| moff := 7; mtime := 1000; mkey := [1; 2]%N; mval := [10; 20; 30; 40; 50]%N |})),
    [20; 30; 40]%N, [99; 98; 97]%N, (50 :: trailer)%N.
  vm_compute. repeat split; try lia; try discriminate.
Qed.
