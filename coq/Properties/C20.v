(* C20 — A backup opens to the same log. *)
From KV Require Import Base Model Backup Spec LogInv OpenProofs History BackupProofs.

(* Backup into an empty directory is the source directory itself *)
Theorem C20_into_empty : forall src, chain_ok src -> backup_dir [] src = src.
Proof. exact backup_into_empty. Qed.
Print Assumptions C20_into_empty.

(* repeated into the same directory while every file name of the target still exists in the source (the source
   has only been appended to): again the source directory itself - stale copies are overwritten, new segments
   added, nothing else left behind *)
Theorem C20_repeated :
  forall old src, chain_ok src -> covered old src -> backup_dir old src = src.
Proof. exact backup_is_source. Qed.
Print Assumptions C20_repeated.

(* appending (Publish with or without rollover) keeps every file name, so 'only appended to' implies covered *)
Theorem C20_append_keeps_names :
  forall (H : bytes -> Z) st ms st2 n, log_publish H st ms = Ok (st2, n) -> covered (segs st) (segs st2).
Proof. exact publish_keeps_names. Qed.
Print Assumptions C20_append_keeps_names.

(* the backup opens - in any mode, hence it also passes Open with Check - to a log with the same live messages and
   NextOffset as the source at the time of the call; by the C03/C04/C09/C10 theorems its query results are those
   of the source *)
Theorem C20_opens_to_source :
  forall (H : bytes -> Z) st old dst c0 st',
  Inv st -> covered old (segs st) -> do_backup old (segs st) = Ok dst ->
  log_open H (mkState dst 0 None false) c0 = Ok st' ->
  dst = segs st /\ Inv st' /\ abs st' = abs st.
Proof. exact backup_opens_to_source. Qed.
Print Assumptions C20_opens_to_source.

(* the source is unchanged: the call only triggers the lazy index rebuild (Stat) before copying *)
Theorem C20_source_unchanged :
  forall (H : bytes -> Z) st st1 r,
  Inv st -> log_stat H st = Ok (st1, r) -> Inv st1 /\ abs st1 = abs st /\ opened st1 = opened st.
Proof. exact backup_leaves_source. Qed.
Print Assumptions C20_source_unchanged.

(* the skip rule of the copy (same size and mtime: not copied again): for a file that has only been appended to,
   equal size means equal content *)
Theorem C20_skip_rule_safe :
  forall (old new tl : bytes), new = old ++ tl -> length old = length new -> old = new.
Proof. exact skip_rule_safe. Qed.
Print Assumptions C20_skip_rule_safe.
