(* C20 — A backup opens to the same log. *)
From KV Require Import Base Model Backup Spec LogInv OpenProofs History BackupProofs.
From KV Require Import Durable BackupFiles BackupFilesProofs.

(* Backup into an empty directory is the source directory itself *)
Theorem C20_into_empty : forall src, chain_ok src -> backup_dir [] src = src.
Proof. exact backup_into_empty. Qed.
Print Assumptions C20_into_empty.

(* repeated into the same directory while every file name of the target still exists in the source (the source
   has only been appended to): again the source directory itself - stale copies are overwritten, new segments
   added, nothing else left behind *)
Theorem C20_repeated :
  forall old src, chain_ok src -> covered old src -> backup_dir old src = src.
Proof. exact backup_is_source. Qed.
Print Assumptions C20_repeated.

(* appending (Publish with or without rollover) keeps every file name, so 'only appended to' implies covered *)
Theorem C20_append_keeps_names :
  forall (H : bytes -> Z) st ms st2 n, log_publish H st ms = Ok (st2, n) -> covered (segs st) (segs st2).
Proof. exact publish_keeps_names. Qed.
Print Assumptions C20_append_keeps_names.

(* the backup opens - in any mode, hence it also passes Open with Check - to a log with the same live messages and
   NextOffset as the source at the time of the call; by the C03/C04/C09/C10 theorems its query results are those
   of the source *)
Theorem C20_opens_to_source :
  forall (H : bytes -> Z) st old dst c0 st',
  Inv st -> covered old (segs st) -> do_backup old (segs st) = Ok dst ->
  log_open H (mkState dst 0 None false) c0 = Ok st' ->
  dst = segs st /\ Inv st' /\ abs st' = abs st.
Proof. exact backup_opens_to_source. Qed.
Print Assumptions C20_opens_to_source.

(* the source is unchanged: the call only triggers the lazy index rebuild (Stat) before copying *)
Theorem C20_source_unchanged :
  forall (H : bytes -> Z) st st1 r,
  Inv st -> log_stat H st = Ok (st1, r) -> Inv st1 /\ abs st1 = abs st /\ opened st1 = opened st.
Proof. exact backup_leaves_source. Qed.
Print Assumptions C20_source_unchanged.

(* the skip rule of the copy (same size and mtime: not copied again): for a file that has only been appended to,
   equal size means equal content *)
Theorem C20_skip_rule_safe :
  forall (old new tl : bytes), new = old ++ tl -> length old = length new -> old = new.
Proof. exact skip_rule_safe. Qed.
Print Assumptions C20_skip_rule_safe.

(* ---------- the copy mechanics (BackupFiles.v: pkg/segment/utils.go copyFile on files with content and modification
   time - a target file whose size and mtime equal the source's is kept, otherwise it is rewritten and given the source's
   mtime).  As long as every file of the target that carries a name of the source is a PREFIX of that source file - an
   empty target, the result of an earlier Backup of a source that has since only been appended to, what a killed Backup
   leaves - a Backup makes every source file appear in the target with exactly the source's bytes and time, whatever the
   modification times in the target are: the skip rule never keeps a file that differs *)
Theorem C20_backup_gives_source :
  forall src tgt,
  NoDup (map fst src) -> fcovered tgt src ->
  forall n s, blookup src n = Some s -> blookup (backup_files src tgt) n = Some s.
Proof. exact backup_gives_source. Qed.
Print Assumptions C20_backup_gives_source.

(* the premise holds for an empty target, and again after every Backup while the source is only appended to *)
Theorem C20_covered_is_maintained :
  (forall src, fcovered [] src) /\
  (forall src src' tgt, NoDup (map fst src) -> fcovered tgt src -> fcovered tgt src' -> appended src src' ->
     fcovered (backup_files src tgt) src').
Proof. split; [exact covered_empty|exact covered_after_backup]. Qed.
Print Assumptions C20_covered_is_maintained.

(* a Backup killed at any point - before, inside (any number of bytes written, the file stamped with the time of the
   kill) or after the copy of any file - leaves a target that the next Backup, of the same source or of one that has
   since been appended to, completes to exactly the source *)
Theorem C20_backup_after_killed_backup :
  forall src src' tgt now t',
  NoDup (map fst src) -> NoDup (map fst src') -> fcovered tgt src -> fcovered tgt src' -> appended src src' ->
  killed_backup src tgt now t' ->
  forall n s', blookup src' n = Some s' -> blookup (backup_files src' t') n = Some s'.
Proof. exact backup_after_killed_backup. Qed.
Print Assumptions C20_backup_after_killed_backup.

(* non-vacuity: a source of two files, a target holding an older (shorter) copy of the first one with the OLD source's
   time, a Backup killed after 1 byte of the second file; the next Backup restores both *)
Example C20_killed_example :
  let src := [(FLog 0, mkB [1; 2; 3]%N 20); (FIdx 0, mkB [9; 8]%N 21)] in
  let tgt := [(FLog 0, mkB [1; 2]%N 10)] in
  let t' := bset (backup_files [(FLog 0, mkB [1; 2; 3]%N 20)] tgt) (FIdx 0) (mkB [9]%N 99) in
  killed_backup src tgt 99 t' /\ fcovered tgt src /\
  backup_files src t' = src.
Proof.
  cbv zeta. split; [|split].
  - exists [(FLog 0, mkB [1; 2; 3]%N 20)], (FIdx 0), (mkB [9; 8]%N 21), [], (Some (mkB [9]%N 99)).
    split; [reflexivity|]. split; [exact (ci_partial (mkB [9; 8]%N 21) _ 99 1%nat)|reflexivity].
  - intros n s d Hs Hd. destruct n as [b|b| |]; cbn in Hs, Hd; try discriminate.
    destruct b; cbn in Hs, Hd; try discriminate. injection Hs as <-. injection Hd as <-. exists [3%N]. reflexivity.
  - vm_compute. reflexivity.
Qed.
