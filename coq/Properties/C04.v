(* C04 — Get returns exactly the addressed message, with a stable error taxonomy. *)
From KV Require Import Base Model Spec SpecFacts SearchProofs ReaderProofs LogInv ConsumeProofs GetProofs AbsFacts.

(* pkg/index/offset.go Get: exact-match binary search, arrays of any length *)
Theorem C04_index_get :
  forall items off, offs_sorted items -> ~ is_relative off ->
  match items with
  | [] => index_get items off = Err EIdxEmpty
  | first :: _ =>
    let lst := last items first in
    if off <? ioff first then index_get items off = Err EBeforeStart
    else if ioff lst <? off then index_get items off = Err EAfterEnd
    else match find_item items off with
         | Some it => index_get items off = Ok (ipos it)
         | None => index_get items off = Err EOffNotFound
         end
  end.
Proof. exact index_get_spec. Qed.
Print Assumptions C04_index_get.

(* pkg/segment/index.go Get *)
Theorem C04_segment_get :
  forall bs off, bs <> [] -> sorted_lt bs -> (forall b, In b bs -> 0 <= b) -> 0 <= off ->
  match bs with
  | [] => False
  | first :: _ =>
    if off <? first then seg_get bs off = Err ESegBefore
    else exists r b, seg_get bs off = Ok r /\ znth bs r = Some b /\ b <= off /\
                     (forall j c, r < j -> znth bs j = Some c -> off < c)
  end.
Proof. exact seg_get_spec. Qed.
Print Assumptions C04_segment_get.

(* the property: for every state satisfying Inv, every offset and every hash function, log.Get is
   accepted by the L0 checker check_get:
     off >= 0 : the live message with exactly that offset; ErrNotFound if off < NextOffset and no live
                message has it; ErrInvalidOffset if off >= NextOffset
     OffsetOldest / OffsetNewest : first / last live message, ErrInvalidOffset on an empty log *)
Theorem C04_get :
  forall (H : bytes -> Z) st off, Inv st ->
  check_get (abs st) off (obs_get (log_get H st off)) = true.
Proof. exact log_get_correct. Qed.
Print Assumptions C04_get.

(* Get agrees with what Consume(off, 1) shows: a statement about the checkers alone, for any log whose
   offsets increase strictly and lie below NextOffset ... *)
Theorem C04_get_agrees_with_consume :
  forall a off g c,
  offs_increasing (live a) -> (forall m, In m (live a) -> moff m < anext a) -> 0 <= off ->
  check_get a off g = true -> check_consume a off 1 c = true ->
  check_get_consume_agree off g c = true.
Proof. exact get_consume_agree. Qed.
Print Assumptions C04_get_agrees_with_consume.

(* ... which every state satisfying Inv is *)
Theorem C04_abs_increasing : forall st, Inv st -> offs_increasing (live (abs st)).
Proof. exact abs_offsets_increasing. Qed.
Print Assumptions C04_abs_increasing.

Theorem C04_abs_below_next : forall st m, Inv st -> In m (live (abs st)) -> moff m < anext (abs st).
Proof. exact abs_offsets_below_next. Qed.
Print Assumptions C04_abs_below_next.

(* hence, on the model: *)
Corollary C04_model_get_agrees_with_consume :
  forall (H : bytes -> Z) st off, Inv st -> 0 <= off ->
  check_get_consume_agree off (obs_get (log_get H st off)) (obs_consume (log_consume H st off 1)) = true.
Proof.
  intros H st off HInv Hoff.
  apply (get_consume_agree (abs st) off); auto.
  - now apply abs_offsets_increasing.
  - intros m Hm. now apply abs_offsets_below_next.
  - now apply log_get_correct.
  - apply log_consume_correct; [assumption|reflexivity || lia].
Qed.
Print Assumptions C04_model_get_agrees_with_consume.
