(* C03 — Consume is a gap-free, duplicate-free cursor over the live messages.
   Theorems only; each closed by [exact] of a lemma proved elsewhere. *)
From KV Require Import Base Model Helpers Spec SearchProofs ReaderProofs LogInv ConsumeProofs ScanProofs.

(* the transcribed binary search of pkg/index/offset.go Consume, for index arrays of any length:
   position of the first item whose offset is not below the requested one *)
Theorem C03_index_consume :
  forall items off, offs_sorted items -> ~ is_relative off ->
  match items with
  | [] => index_consume items off = Err EIdxEmpty
  | first :: _ =>
    let lst := last items first in
    if ioff lst <? off then index_consume items off = Err EAfterEnd
    else exists it, first_ge items off = Some it /\ index_consume items off = Ok (ipos it, ipos lst)
  end.
Proof. exact index_consume_spec. Qed.
Print Assumptions C03_index_consume.

(* pkg/segment/index.go Consume: the last segment whose base is not above the offset (the first if none) *)
Theorem C03_segment_consume :
  forall bs off, bs <> [] -> sorted_lt bs -> (forall b, In b bs -> 0 <= b) -> off <> OffsetNewest ->
  exists r, seg_consume bs off = Ok r /\ sel_spec bs off r.
Proof. exact seg_consume_spec. Qed.
Print Assumptions C03_segment_consume.

(* reader.Consume on one segment whose index agrees with its log file *)
Theorem C03_reader_consume :
  forall s items hd off max, seg_ok s items -> 1 <= max -> off <> OffsetNewest ->
  match ge_filter off (srecs s) with
  | _ :: _ =>
    let ms := firstn (Z.to_nat max) (ge_filter off (srecs s)) in
    exists m, last_opt ms = Some m /\ reader_consume s items hd off max = Ok (moff m + 1, ms)
  | [] =>
    reader_consume s items hd off max =
    if hd && (off <=? recs_next s) then Ok (recs_next s, [])
    else Err (match srecs s with [] => EIdxEmpty | _ => EAfterEnd end)
  end.
Proof. exact reader_consume_spec. Qed.
Print Assumptions C03_reader_consume.

(* the property: in every state that satisfies the invariant, for every offset (relative, negative,
   inside holes, beyond the end) and every maxCount >= 1, and for every key-hash function H, the result
   of log.Consume is accepted by the L0 checker [check_consume] of Spec.v:
     - offset beyond NextOffset            -> ErrInvalidOffset
     - OffsetNewest                        -> (NextOffset, [])
     - otherwise a prefix (<= maxCount) of the live messages at or after the offset, next = last+1;
       nothing returned only when nothing is live at or after the offset, and then next = NextOffset *)
Theorem C03_consume :
  forall (H : bytes -> Z) st off max, Inv st -> 1 <= max ->
  check_consume (abs st) off max (obs_consume (log_consume H st off max)) = true.
Proof. exact log_consume_correct. Qed.
Print Assumptions C03_consume.

(* Consume changes nothing but index files: the invariant and the abstract log are preserved, so the
   cursor can be fed back *)
Theorem C03_consume_preserves :
  forall (H : bytes -> Z) st off max st1 o,
  Inv st -> log_consume H st off max = Ok (st1, o) -> Inv st1 /\ abs st1 = abs st.
Proof. exact log_consume_preserves. Qed.
Print Assumptions C03_consume_preserves.

(* feeding the returned offset back, starting from OffsetOldest, visits every live message exactly once, in order,
   and stops at NextOffset - for every state, every maxCount >= 1 *)
Theorem C03_iteration_visits_everything_once :
  forall (H : bytes -> Z) st max, Inv st -> 1 <= max ->
  exists st', full_scan H (S (S (length (live (abs st))))) st OffsetOldest max [] = Ok (st', live (abs st), anext (abs st)) /\
              Inv st' /\ abs st' = abs st.
Proof. exact full_scan_correct. Qed.
Print Assumptions C03_iteration_visits_everything_once.

(* Consume returns no message only when nothing is left at or after the offset *)
Theorem C03_empty_only_at_the_end :
  forall (H : bytes -> Z) st off max st1 n, Inv st -> 1 <= max -> off <> OffsetNewest ->
  log_consume H st off max = Ok (st1, (n, [])) -> from_off (live (abs st)) off = [].
Proof. exact log_consume_empty_at_end. Qed.
Print Assumptions C03_empty_only_at_the_end.
