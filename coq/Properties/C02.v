(* C02 — Offsets are dense, increasing and never reused. *)
From KV Require Import Base Model Spec LogInv PublishProofs History.

(* Publish of n messages on a read-write log in any state satisfying Inv (any segment layout, after any
   deletes, with or without rollover, whatever offsets the caller put into the messages) succeeds,
   returns NextOffset + n, preserves the invariant and extends the abstract log exactly by the given
   messages at offsets NextOffset .. NextOffset+n-1 (spec_publish); sizes_ok is the writer's 64 MiB guard *)
Theorem C02_publish :
  forall (H : bytes -> Z) st ms,
  Inv st -> (exists c, opened st = Some c /\ cro c = false) -> sizes_ok ms ->
  exists st2, log_publish H st ms = Ok (st2, anext (abs st) + zlen ms) /\
              Inv st2 /\ abs st2 = spec_publish (abs st) ms /\ opened st2 = opened st.
Proof. exact log_publish_correct. Qed.
Print Assumptions C02_publish.

(* the offsets written back are exactly NextOffset, NextOffset+1, ... *)
Theorem C02_assigned_offsets :
  forall next ms, map moff (assign_offsets next ms) = seq_from next (length ms).
Proof. exact assign_offsets_offs. Qed.
Print Assumptions C02_assigned_offsets.

(* and the result is accepted by the L0 checker *)
Corollary C02_publish_checker :
  forall (H : bytes -> Z) st ms,
  Inv st -> (exists c, opened st = Some c /\ cro c = false) -> sizes_ok ms ->
  exists st2 n, log_publish H st ms = Ok (st2, n) /\
    check_publish (abs st) ms (OOk (n, map moff (assign_offsets (anext (abs st)) ms))) = true.
Proof.
  intros H st ms HInv Hc Hsz. destruct (log_publish_correct H st ms HInv Hc Hsz) as (st2 & Hp & _).
  exists st2, (anext (abs st) + zlen ms). split; [exact Hp|].
  unfold check_publish. rewrite Z.eqb_refl, assign_offsets_offs. cbn [andb].
  generalize (seq_from (anext (abs st)) (length ms)). intros l. unfold zlist_eqb.
  induction l as [|a l IH]; [reflexivity|]. cbn [list_eqb]. now rewrite Z.eqb_refl, IH.
Qed.
Print Assumptions C02_publish_checker.

(* never reused: in any history on a directory (publishes, deletes of the newest messages or of everything,
   close and reopen in any mode, migration, recovery), the offsets assigned by all successful publishes are
   pairwise distinct, strictly increasing in order of assignment, and all below the final NextOffset *)
Theorem C02_never_reused :
  forall ops outs a, NoDup (assigned a ops outs).
Proof. exact assigned_nodup. Qed.
Print Assumptions C02_never_reused.

Theorem C02_assigned_increasing :
  forall ops outs a, zinc_from (anext a) (assigned a ops outs).
Proof. exact assigned_increasing. Qed.
Print Assumptions C02_assigned_increasing.

Theorem C02_assigned_below_next :
  forall ops outs a x, In x (assigned a ops outs) -> x < anext (spec_run a ops outs).
Proof. exact assigned_below_next. Qed.
Print Assumptions C02_assigned_below_next.

(* and the abstract run is what the model does on every history (C01_history), NextOffset of a new log is 0 *)
Theorem C02_history :
  forall (H : bytes -> Z) ops,
  abs (fst (hrun H init_state ops)) = spec_run empty_log ops (snd (hrun H init_state ops)).
Proof. intros H ops. exact (proj2 (history_refines H ops init_state good_init)). Qed.
Print Assumptions C02_history.
