(* C06 — Everything below the offset returned by Sync survives losing unsynced data (the log-file level). *)
From KV Require Import Base Model Codec CodecProofs RecoverProofs Durable DurableProofs RecoverCrash RecoverCrashProofs.
From KV Require Import History CrashDir DurableDelete DurableDeleteProofs DurableDeleteChain.

(* power loss keeps some prefix of every file (at least the fsynced length).  For a clean log cut at ANY byte
   n at or after its header: Recover keeps exactly the records that lie entirely below the cut - a prefix of
   what was written, nothing else *)
Theorem C06_cut_anywhere :
  forall crc H, crc_range crc -> forall p base v ms n idx,
  Forall msg_ok ms -> hdr_size v <= n <= log_size v ms ->
  log_version (firstn (Z.to_nat n) (enc_log crc v ms)) base = Ok v ->
  exists ms1 ms2 idx', ms = ms1 ++ ms2 /\
    recover_bytes crc H p base (firstn (Z.to_nat n) (enc_log crc v ms)) idx = Ok (enc_log crc v ms1, idx') /\
    log_size v ms1 <= n /\ (forall m r, ms2 = m :: r -> n < log_size v ms1 + rec_size v m).
Proof. exact recover_cut. Qed.
Print Assumptions C06_cut_anywhere.

(* hence: if the messages ms0 had been fsynced (the synced length log_size ms0 is at or below the cut), all of
   them survive, and the survivors are a prefix of what was acknowledged *)
Theorem C06_synced_survive :
  forall crc H p base v ms n idx ms0 ms0',
  crc_range crc -> Forall msg_ok ms -> hdr_size v <= n <= log_size v ms ->
  log_version (firstn (Z.to_nat n) (enc_log crc v ms)) base = Ok v ->
  ms = ms0 ++ ms0' -> log_size v ms0 <= n ->
  exists kept lost idx', ms = kept ++ lost /\ (exists x, kept = ms0 ++ x) /\
    recover_bytes crc H p base (firstn (Z.to_nat n) (enc_log crc v ms)) idx = Ok (enc_log crc v kept, idx').
Proof. exact recover_cut_keeps_synced. Qed.
Print Assumptions C06_synced_survive.

(* the recovered segment is clean (Check passes; a second Recover is the identity) *)
Theorem C06_recovered_is_clean :
  forall crc H, crc_range crc -> (forall k, 0 <= H k < two64z) ->
  forall p base b idx newlog idx',
  bytes_ok b -> zlen b < two63 -> 0 <= base < two63 ->
  (forall v m nxt, log_version b base = Ok v -> read_rec crc v b (hdr_size v) = Ok (m, nxt) -> moff m = base) ->
  recover_bytes crc H p base b idx = Ok (newlog, idx') ->
  check_bytes crc H p base newlog idx' = Ok tt /\
  recover_bytes crc H p base newlog idx' = Ok (newlog, idx').
Proof. exact recover_then_check. Qed.
Print Assumptions C06_recovered_is_clean.

(* ---------- which bytes are on stable storage (Durable.v: the table of files with their fsynced lengths, as the FS tap
   keeps it; the create / write / fsync steps of Publish, Sync and Close decided from the L1 state as log_publish does) *)

(* every file of a sealed segment is entirely on stable storage across any Publish, rollover included: the retiring
   head is fsynced (log and index) before the new head exists *)
Theorem C06_sealed_segments_stay_durable :
  forall (H : bytes -> Z) st ms st' n t,
  log_publish H st ms = Ok (st', n) -> sealed_durable (head_base st) t ->
  sealed_durable (head_base st') (d_run t (fst (kinds_ops (head_base st) (publish_kinds st ms)))).
Proof. exact publish_step_sealed. Qed.
Print Assumptions C06_sealed_segments_stay_durable.

(* when Sync (or Close) returns, every file is entirely on stable storage; likewise when a Publish returns on a log
   opened with AutoSync *)
Theorem C06_sync_makes_everything_durable :
  forall st c t, opened st = Some c -> cro c = false -> sealed_durable (head_base st) t ->
  all_durable (d_run t (fst (kinds_ops (head_base st) (sync_kinds st)))).
Proof. exact sync_step_durable. Qed.
Print Assumptions C06_sync_makes_everything_durable.

Theorem C06_autosync_publish_durable :
  forall (H : bytes -> Z) st c ms st' n t,
  opened st = Some c -> cautosync c = true -> log_publish H st ms = Ok (st', n) ->
  sealed_durable (head_base st) t ->
  all_durable (d_run t (fst (kinds_ops (head_base st) (publish_kinds st ms)))).
Proof. exact autosync_publish_durable. Qed.
Print Assumptions C06_autosync_publish_durable.

(* whatever is published, synced or rolled over afterwards, a power loss at ANY later point (every file independently
   cut back to any length between its fsynced length and its length) leaves of every file at least the bytes it had when
   the Sync returned - files are only ever appended to, so these are the same bytes; with C06_synced_survive on the
   head's log this is: no live message below w is lost *)
Theorem C06_acked_lengths_survive :
  forall t hb ks tcut,
  sane t -> sealed_durable hb t -> Forall kind_nonneg ks ->
  let t_ack := d_run t (sync_ops hb) in
  cut_ok (d_run t_ack (fst (kinds_ops hb ks))) tcut ->
  exists kept newer, tcut = kept ++ newer /\
    Forall2 (fun x y => fnm y = fnm x /\ flen x <= flen y) t_ack kept.
Proof. exact acked_lengths_survive. Qed.
Print Assumptions C06_acked_lengths_survive.

(* the steps of every Publish and Sync satisfy that theorem's premise *)
Theorem C06_api_steps_nonneg :
  forall st ms, Forall kind_nonneg (publish_kinds st ms) /\ Forall kind_nonneg (sync_kinds st).
Proof. intros st ms. split; [apply publish_kinds_nonneg|apply sync_kinds_nonneg]. Qed.
Print Assumptions C06_api_steps_nonneg.

(* the premises are met by a concrete run: a fresh head, a batch, a rollover, another batch - the retired segment's
   files are durable, the new head's are not yet *)
Example C06_durable_example :
  let t0 := d_run [] [DCreate (FLog 0) 8; DCreate (FIdx 0) 8] in
  let ks := [KAppend [(39, 32)]; KRoll 1 8 8; KAppend [(38, 32)]] in
  sane t0 /\ sealed_durable 0 t0 /\ Forall kind_nonneg ks /\
  d_run t0 (fst (kinds_ops 0 ks)) =
    [mkF (FLog 0) 47 (Some 47); mkF (FIdx 0) 40 (Some 40); mkF (FLog 1) 46 (Some 0); mkF (FIdx 1) 40 (Some 0)].
Proof.
  cbv zeta. split; [|split; [|split]].
  - intros x [<-|[<-|[]]]; cbn; lia.
  - intros x [<-|[<-|[]]] N1 N2; cbn in *; congruence.
  - repeat constructor; cbn; lia.
  - reflexivity.
Qed.

(* ---------- the fsync discipline of Recover, Migrate and index.Write (RecoverCrash.v: their programs of file-system steps,
   fsyncs included, compared with the FS tap of the real calls on every run of the C05/C07/C13/C17 byte-level checks).
   A file is durable when every byte written to it has been fsynced; a rename carries the durability of its source to its
   target.  If the segment's log file and index file are durable when the call starts, they are durable after EVERY step:
   both calls write only to temporary files, fsync them, and rename them into place.  A power loss at any point therefore
   cuts nothing from the files klevdb reads: what it leaves is one of the crash images of C05_recover_restartable /
   C05_migrate_crash_safe, never a torn log or index file. *)
Theorem C06_recover_keeps_live_files_durable :
  forall crc H p base b idx prog stale_recover_tmp_durable stale_index_tmp_durable,
  recover_prog crc H p base b idx = Ok prog ->
  live_durable (mkS true stale_recover_tmp_durable true stale_index_tmp_durable) prog.
Proof. exact recover_prog_live_files_durable. Qed.
Print Assumptions C06_recover_keeps_live_files_durable.

Theorem C06_migrate_keeps_live_files_durable :
  forall crc H p base mv iv b prog r t,
  migrate_prog crc H p base mv iv b = Ok prog -> live_durable (mkS true r true t) prog.
Proof. exact migrate_prog_live_files_durable. Qed.
Print Assumptions C06_migrate_keeps_live_files_durable.

(* ---------- the fsync protocol of Delete (DurableDelete.v): the complete program of a Delete - writer.Sync when the
   target is the writing segment, Segment.Rewrite with its two fsyncs, writer.Sync again, then the swap of
   CrashDir.delete_prog - on the file table.  After EVERY step, every <base>.log / <base>.index file other than those of
   the writing segment (durable or not as they were before the call) and of a writing segment the Delete creates (two
   files holding only a header) is entirely on stable storage: a power loss during a Delete cuts nothing from them.
   The proof uses that the rewritten files are fsynced before they take a segment's name. *)
Theorem C06_delete_steps_keep_durable :
  forall st offs t k,
  Jl (exempt st) t -> Jl (exempt st) (x_run t (firstn k (delete_full st offs))).
Proof. exact delete_steps_keep_durable. Qed.
Print Assumptions C06_delete_steps_keep_durable.

(* the premise is what Publish / Sync / Close maintain (C06_sealed_segments_stay_durable) *)
Theorem C06_delete_keeps_sealed_durable :
  forall st offs t k,
  sealed_durable (head_base st) t -> Jl (exempt st) (x_run t (firstn k (delete_full st offs))).
Proof. exact delete_keeps_sealed_durable. Qed.
Print Assumptions C06_delete_keeps_sealed_durable.

(* and when the Delete is over, whatever is left of its temporary files is durable as well *)
Theorem C06_delete_end_durable :
  forall st offs t,
  Jl (exempt st) t -> delete_full st offs <> [] ->
  Jl (exempt st) (x_run t (delete_full st offs)) /\ Jt (x_run t (delete_full st offs)).
Proof. exact delete_end_durable. Qed.
Print Assumptions C06_delete_end_durable.

(* non-vacuity: deleting the newest of three messages of the writing segment - syncs, rewrite of the two survivors,
   a new writing segment at offset 3, the in-place swap; the table before it satisfies the premise *)
Definition c06_hash (b : bytes) : Z := 0.
Definition c06_cfg : cfg := mkCfg false false false false 1048576 false false V2 false false.
Definition c06_state := fst (hrun c06_hash init_state
  [HOpen c06_cfg; HPub [mkMsg 0 5 [97%N] [1%N]; mkMsg 0 6 [98%N] [2%N; 3%N]; mkMsg 0 7 [99%N] [4%N]]]).
Example C06_delete_example :
  delete_full c06_state [2] =
    [XD (DFsync (FLog 0)); XD (DFsync (FIdx 0));
     XD (DCreate FTLog 8); XD (DWrite FTLog 38); XD (DWrite FTLog 39); XD (DFsync FTLog);
     XD (DCreate FTIdx 8); XD (DWrite FTIdx 16); XD (DWrite FTIdx 16); XD (DFsync FTIdx);
     XD (DFsync (FLog 0)); XD (DFsync (FIdx 0));
     XD (DCreate (FLog 3) 8); XD (DCreate (FIdx 3) 8);
     XRemove (FIdx 0); XRename FTLog (FLog 0); XRename FTIdx (FIdx 0)] /\
  Jl (exempt c06_state) [mkF (FLog 0) 123 (Some 8); mkF (FIdx 0) 56 (Some 8)].
Proof.
  split; [vm_compute; reflexivity|]. intros x [<-|[<-|[]]] _ Hn; exfalso; apply Hn; vm_compute; auto.
Qed.

(* ---------- Delete as a link of the chain: "every file but the two of the writing segment is entirely on stable storage"
   (sealed_durable), the invariant of Publish / Sync / Close above, is an invariant of Delete too - for the state the
   model's Delete returns: the writing segment afterwards is the one the Delete created at NextOffset (newest message
   deleted), or the old one, or the rebased rewrite (and then every file is durable) *)
Theorem C06_delete_step_keeps_sealed_durable :
  forall (H : bytes -> Z) st offs st' r t,
  log_delete H st offs = Ok (st', r) ->
  sealed_durable (head_base st) t -> sealed_durable (head_base st') (x_run t (delete_full st offs)).
Proof. exact DurableDeleteChain.delete_step_sealed. Qed.
Print Assumptions C06_delete_step_keeps_sealed_durable.

(* a Delete in the writing segment that creates no new one leaves EVERY file durable *)
Theorem C06_head_delete_all_durable :
  forall st offs t,
  sealed_durable (head_base st) t -> DurableDeleteChain.head_target st offs = true -> DurableDeleteChain.created st offs = [] ->
  all_durable (x_run t (delete_full st offs)).
Proof. exact DurableDeleteChain.head_delete_all_durable. Qed.
Print Assumptions C06_head_delete_all_durable.

(* non-vacuity, on the example above: the Delete returns a state whose writing segment is at offset 3, and on the table
   in which the old writing segment was not yet synced every file but 3.log / 3.index ends up durable *)
Example C06_delete_chain_example :
  (exists st' r, log_delete c06_hash c06_state [2] = Ok (st', r) /\ head_base st' = 3) /\
  x_run [mkF (FLog 0) 123 (Some 8); mkF (FIdx 0) 56 (Some 8)] (delete_full c06_state [2]) =
    [mkF (FLog 0) 85 (Some 85); mkF (FIdx 0) 40 (Some 40); mkF (FLog 3) 8 (Some 0); mkF (FIdx 3) 8 (Some 0)].
Proof. split; [eexists; eexists; split; vm_compute; reflexivity|vm_compute; reflexivity]. Qed.
