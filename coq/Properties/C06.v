(* C06 — Everything below the offset returned by Sync survives losing unsynced data (the log-file level). *)
From KV Require Import Base Model Codec CodecProofs RecoverProofs.

(* power loss keeps some prefix of every file (at least the fsynced length).  For a clean log cut at ANY byte
   n at or after its header: Recover keeps exactly the records that lie entirely below the cut - a prefix of
   what was written, nothing else *)
Theorem C06_cut_anywhere :
  forall crc H, crc_range crc -> forall p base v ms n idx,
  Forall msg_ok ms -> hdr_size v <= n <= log_size v ms ->
  log_version (firstn (Z.to_nat n) (enc_log crc v ms)) base = Ok v ->
  exists ms1 ms2 idx', ms = ms1 ++ ms2 /\
    recover_bytes crc H p base (firstn (Z.to_nat n) (enc_log crc v ms)) idx = Ok (enc_log crc v ms1, idx') /\
    log_size v ms1 <= n /\ (forall m r, ms2 = m :: r -> n < log_size v ms1 + rec_size v m).
Proof. exact recover_cut. Qed.
Print Assumptions C06_cut_anywhere.

(* hence: if the messages ms0 had been fsynced (the synced length log_size ms0 is at or below the cut), all of
   them survive, and the survivors are a prefix of what was acknowledged *)
Theorem C06_synced_survive :
  forall crc H p base v ms n idx ms0 ms0',
  crc_range crc -> Forall msg_ok ms -> hdr_size v <= n <= log_size v ms ->
  log_version (firstn (Z.to_nat n) (enc_log crc v ms)) base = Ok v ->
  ms = ms0 ++ ms0' -> log_size v ms0 <= n ->
  exists kept lost idx', ms = kept ++ lost /\ (exists x, kept = ms0 ++ x) /\
    recover_bytes crc H p base (firstn (Z.to_nat n) (enc_log crc v ms)) idx = Ok (enc_log crc v kept, idx').
Proof. exact recover_cut_keeps_synced. Qed.
Print Assumptions C06_synced_survive.

(* the recovered segment is clean (Check passes; a second Recover is the identity) *)
Theorem C06_recovered_is_clean :
  forall crc H, crc_range crc -> (forall k, 0 <= H k < two64z) ->
  forall p base b idx newlog idx',
  bytes_ok b -> zlen b < two63 -> 0 <= base < two63 ->
  (forall v m nxt, log_version b base = Ok v -> read_rec crc v b (hdr_size v) = Ok (m, nxt) -> moff m = base) ->
  recover_bytes crc H p base b idx = Ok (newlog, idx') ->
  check_bytes crc H p base newlog idx' = Ok tt /\
  recover_bytes crc H p base newlog idx' = Ok (newlog, idx').
Proof. exact recover_then_check. Qed.
Print Assumptions C06_recovered_is_clean.
