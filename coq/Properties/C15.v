(* C15 — Trim helpers remove exactly the oldest messages the bound requires. *)
From KV Require Import Base Model Helpers Spec LogInv ScanProofs TrimProofs CompactProofs MultiProofs.

(* the loop `for offset := OffsetOldest; offset < max && cond; Consume(offset, 32)` visits the live messages in
   order, for every way Consume cuts the log into batches: a Hoare rule with a chunk premise and an exit premise *)
Theorem C15_scan_rule :
  forall (H : bytes -> Z) (A : Type) (I : A -> list msg -> Prop) (Post : A -> Prop) cond step maxoff L,
  (forall acc done chunk rest, I acc done -> L = done ++ chunk ++ rest -> chunk <> [] -> cond acc = true ->
     match inner step acc chunk with
     | (a, Continue) => I a (done ++ chunk)
     | (a, BreakInner) => Post a /\ (cond a = false \/ forall x, last_opt chunk = Some x -> maxoff <= moff x + 1)
     | (a, BreakOuter) => Post a
     end) ->
  (forall acc done rest, I acc done -> L = done ++ rest -> (cond acc = false \/ forall m, In m rest -> maxoff <= moff m) -> Post acc) ->
  forall fuel st off acc done R,
  Inv st -> live (abs st) = L -> L = done ++ R -> from_off L off = R ->
  off <= anext (abs st) -> off <> OffsetNewest -> maxoff <= anext (abs st) ->
  (length R + 2 <= fuel)%nat -> I acc done ->
  exists st' a, scan_loop H fuel st off maxoff acc cond step = Ok (st', a) /\ Post a /\ Inv st' /\ abs st' = abs st.
Proof. exact scan_rule_aux. Qed.
Print Assumptions C15_scan_rule.

(* FindByOffset selects exactly the live offsets below the bound (all of them for OffsetNewest, none for OffsetOldest) *)
Theorem C15_find_by_offset :
  forall (H : bytes -> Z) st before, Inv st ->
  exists st1, find_by_offset H st before =
    Ok (st1, if before =? OffsetOldest then []
             else if before =? OffsetNewest then map moff (live (abs st))
             else map moff (filter (fun m => moff m <? before) (live (abs st)))) /\
    Inv st1 /\ abs st1 = abs st.
Proof. exact find_by_offset_spec. Qed.
Print Assumptions C15_find_by_offset.

(* FindByCount: exactly the first (count - max) offsets; nothing if the log already has at most max messages *)
Theorem C15_find_by_count :
  forall (H : bytes -> Z) st max, Inv st ->
  exists st', find_by_count H st max =
    Ok (st', let cnt := zlen (live (abs st)) in
             if cnt <=? max then [] else firstn (Z.to_nat (cnt - max)) (map moff (live (abs st)))) /\
    Inv st' /\ abs st' = abs st.
Proof. exact find_by_count_spec. Qed.
Print Assumptions C15_find_by_count.

(* FindBySize: nothing if the Stat size is below the target; otherwise the shortest prefix whose removal brings the
   estimate (Stat size minus Size of every selected message) below the target - not more than the estimate requires *)
Theorem C15_find_by_size :
  forall (H : bytes -> Z) st sz c, Inv st -> opened st = Some c ->
  exists st' total, find_by_size H st sz =
    Ok (st', if total <? sz then [] else fbud (fun b => sz <=? b) (log_msg_size c) total (live (abs st))) /\
    (exists st1 sg cnt, log_stat H st = Ok (st1, (sg, cnt, total))) /\
    Inv st' /\ abs st' = abs st.
Proof. exact find_by_size_spec. Qed.
Print Assumptions C15_find_by_size.

(* FindByAge: a prefix of the live messages, none of them newer than the given time; it ends at the first newer
   message, at the end of the log, or at a batch boundary at or beyond the message GetByTime reports *)
Theorem C15_find_by_age :
  forall (H : bytes -> Z) st before st' offs, Inv st -> find_by_age H st before = Ok (st', offs) ->
  Inv st' /\ abs st' = abs st /\
  exists D rest, live (abs st) = D ++ rest /\ offs = map moff D /\
                 (forall x, In x D -> mtime x <= before) /\
                 match rest with [] => True | m :: _ => before < mtime m \/ exists maxoff, maxoff <= moff m /\
                   (forall st1 m1, log_get_by_time H st before = Ok (st1, m1) -> maxoff = moff m1) end.
Proof. exact find_by_age_spec. Qed.
Print Assumptions C15_find_by_age.

(* Stat counts exactly the live messages *)
Theorem C15_stat_count :
  forall (H : bytes -> Z) st, Inv st ->
  exists st' sg sz, log_stat H st = Ok (st', (sg, zlen (live (abs st)), sz)) /\ Inv st' /\ abs st' = abs st.
Proof. exact log_stat_count. Qed.
Print Assumptions C15_stat_count.

(* Trim = find, then DeleteMulti: exactly the selected messages are removed, no message outside the selection is
   touched, NextOffset stays *)
Theorem C15_trim_removes_exactly_the_selection :
  forall (H : bytes -> Z) c (find : lstate -> res (lstate * list Z)) st st1 offs,
  Inv st -> opened st = Some c -> cro c = false ->
  find st = Ok (st1, offs) -> Inv st1 -> abs st1 = abs st -> opened st1 = Some c ->
  (forall o, In o offs -> exists m, In m (live (abs st)) /\ moff m = o) ->
  exists st' del size,
    trim_multi H find st = (st', del, size, None) /\ Inv st' /\ anext (abs st') = anext (abs st) /\
    live (abs st') = remove_offs (live (abs st)) offs /\
    (forall x, In x del <-> In x (live (abs st)) /\ In (moff x) offs).
Proof. exact trim_multi_spec. Qed.
Print Assumptions C15_trim_removes_exactly_the_selection.

(* TrimByOffsetMulti: afterwards no live offset below the bound, everything at or above it untouched *)
Theorem C15_trim_by_offset :
  forall (H : bytes -> Z) c st before,
  Inv st -> opened st = Some c -> cro c = false -> before <> OffsetOldest -> before <> OffsetNewest ->
  exists st' del size,
    trim_multi H (fun s => find_by_offset H s before) st = (st', del, size, None) /\ Inv st' /\
    anext (abs st') = anext (abs st) /\
    live (abs st') = filter (fun m => before <=? moff m) (live (abs st)).
Proof. exact trim_by_offset_spec. Qed.
Print Assumptions C15_trim_by_offset.

(* TrimByCountMulti: afterwards exactly the newest min(count, max) messages are left, untouched; NextOffset stays *)
Theorem C15_trim_by_count :
  forall (H : bytes -> Z) c st max,
  Inv st -> opened st = Some c -> cro c = false -> 0 <= max ->
  exists st' del size,
    trim_multi H (fun s => find_by_count H s max) st = (st', del, size, None) /\ Inv st' /\
    anext (abs st') = anext (abs st) /\
    let cnt := zlen (live (abs st)) in
    live (abs st') = skipn (Z.to_nat (cnt - max)) (live (abs st)) /\
    zlen (live (abs st')) = Z.min cnt max.
Proof. exact trim_by_count_spec. Qed.
Print Assumptions C15_trim_by_count.
