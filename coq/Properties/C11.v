(* C11 — Index files are derived data: always consistent, always rebuildable. *)
From KV Require Import Base Model Spec SegProofs ReaderProofs LogInv OpenProofs History.

(* a closed directory produced by Close: every segment — not only the newest — is well-formed; where an
   index file is present and not header-only it agrees with the log file on every offset and position *)
Theorem C11_closed_consistent :
  forall st, Inv st ->
  exists st', log_close st = Ok st' /\ segs st' = segs st /\ opened st' = None /\ lvirt st' = false /\
              DirInv (segs st') /\ abs_dir (segs st') = abs st.
Proof. exact log_close_ok. Qed.
Print Assumptions C11_closed_consistent.

Theorem C11_index_agrees :
  forall s iv items, seg_inv s -> sidx s = Some (iv, items) ->
  items = [] \/ items_match (sver s) (hdr_size (sver s)) (srecs s) items.
Proof. intros s iv items (_ & _ & _ & Hix & _) E. exact (Hix iv items E). Qed.
Print Assumptions C11_index_agrees.

(* removing any subset of the index files of a closed directory keeps it well-formed with the same content *)
Theorem C11_remove_any_subset :
  forall l i which all, DirInv l ->
  DirInv (rm_index_at l i which all) /\ abs_dir (rm_index_at l i which all) = abs_dir l.
Proof. exact rm_index_ok. Qed.
Print Assumptions C11_remove_any_subset.

(* and reopening it — read-write or read-only, with or without Check/Recover/eager migration — gives a
   handle that satisfies the invariant and shows exactly the same messages and NextOffset; by C03/C04 the
   answers of Consume and Get are determined by that abstract log *)
Theorem C11_reopen_after_removal :
  forall (H : bytes -> Z) st which all c0 st',
  closed_dir st -> segs st <> [] ->
  log_open H (set_segs st (rm_index_at (segs st) 0 which all)) c0 = Ok st' ->
  Inv st' /\ abs st' = abs_dir (segs st).
Proof.
  intros H st which all c0 st' (Ho & Hv & HD) Hne E.
  destruct (rm_index_ok (segs st) 0 which all HD) as [HD2 A2].
  assert (Hcd : closed_dir (set_segs st (rm_index_at (segs st) 0 which all))) by (split; [exact Ho|split; [exact Hv|exact HD2]]).
  assert (Hne2 : segs (set_segs st (rm_index_at (segs st) 0 which all)) <> []).
  { cbn [segs set_segs]. destruct (segs st); [congruence|discriminate]. }
  destruct (log_open_ok H _ c0 Hcd Hne2 st' E) as (I2 & A3). split; [exact I2|]. rewrite A3. exact A2.
Qed.
Print Assumptions C11_reopen_after_removal.

(* the lazily rebuilt index of any segment agrees with its log file *)
Theorem C11_rebuild :
  forall (H : bytes -> Z) p newv s, seg_inv s ->
  exists s' items, ensure_index H p newv s = Ok (s', items) /\
                   seg_ok s' items /\ seg_inv s' /\ same_shape s s'.
Proof. exact ensure_index_ok. Qed.
Print Assumptions C11_rebuild.
