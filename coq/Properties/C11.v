(* C11 — Index files are derived data: always consistent, always rebuildable. *)
From KV Require Import Base Model Spec SegProofs ReaderProofs LogInv OpenProofs History KeyProofs KeyInv TimeProofs.

(* a closed directory produced by Close: every segment — not only the newest — is well-formed; where an
   index file is present and not header-only it agrees with the log file on every offset and position *)
Theorem C11_closed_consistent :
  forall st, Inv st ->
  exists st', log_close st = Ok st' /\ segs st' = segs st /\ opened st' = None /\ lvirt st' = false /\
              DirInv (segs st') /\ abs_dir (segs st') = abs st.
Proof. exact log_close_ok. Qed.
Print Assumptions C11_closed_consistent.

Theorem C11_index_agrees :
  forall s iv items, seg_inv s -> sidx s = Some (iv, items) ->
  items = [] \/ items_match (sver s) (hdr_size (sver s)) (srecs s) items.
Proof. intros s iv items (_ & _ & _ & Hix & _) E. exact (Hix iv items E). Qed.
Print Assumptions C11_index_agrees.

(* removing any subset of the index files of a closed directory keeps it well-formed with the same content *)
Theorem C11_remove_any_subset :
  forall l i which all, DirInv l ->
  DirInv (rm_index_at l i which all) /\ abs_dir (rm_index_at l i which all) = abs_dir l.
Proof. exact rm_index_ok. Qed.
Print Assumptions C11_remove_any_subset.

(* and reopening it — read-write or read-only, with or without Check/Recover/eager migration — gives a
   handle that satisfies the invariant and shows exactly the same messages and NextOffset; by C03/C04 the
   answers of Consume and Get are determined by that abstract log *)
Theorem C11_reopen_after_removal :
  forall (H : bytes -> Z) st which all c0 st',
  closed_dir st -> segs st <> [] ->
  log_open H (set_segs st (rm_index_at (segs st) 0 which all)) c0 = Ok st' ->
  Inv st' /\ abs st' = abs_dir (segs st).
Proof.
  intros H st which all c0 st' (Ho & Hv & HD) Hne E.
  destruct (rm_index_ok (segs st) 0 which all HD) as [HD2 A2].
  assert (Hcd : closed_dir (set_segs st (rm_index_at (segs st) 0 which all))) by (split; [exact Ho|split; [exact Hv|exact HD2]]).
  assert (Hne2 : segs (set_segs st (rm_index_at (segs st) 0 which all)) <> []).
  { cbn [segs set_segs]. destruct (segs st); [congruence|discriminate]. }
  destruct (log_open_ok H _ c0 Hcd Hne2 st' E) as (I2 & A3). split; [exact I2|]. rewrite A3. exact A2.
Qed.
Print Assumptions C11_reopen_after_removal.

(* the lazily rebuilt index of any segment agrees with its log file *)
Theorem C11_rebuild :
  forall (H : bytes -> Z) p newv s, seg_inv s ->
  exists s' items, ensure_index H p newv s = Ok (s', items) /\
                   seg_ok s' items /\ seg_inv s' /\ same_shape s s'.
Proof. exact ensure_index_ok. Qed.
Print Assumptions C11_rebuild.

(* in every state reached by a history that keeps its index options (publishes with rollover, deletes, reads,
   close/reopen in any mode, index removal, Migrate, Recover) every index file present - of every segment, not
   only the newest - is empty (header-only) or EXACTLY the index derived from its log file: offsets, positions
   and key hashes always; the timestamps are the running maximum started from some value ts0 (0 for a rebuilt
   index, the carried time for one written by the writer) *)
Theorem C11_index_files_are_derived :
  forall (H : bytes -> Z) p ops, Forall (uses p) ops ->
  let st := fst (hrun H init_state ops) in
  forall s iv items, In s (segs st) -> sidx s = Some (iv, items) ->
  items = [] \/ exists ts0, items = derive_from H p (sver s) (hdr_size (sver s)) ts0 (srecs s).
Proof.
  intros H p ops Hu st s iv items Hs Hi. destruct (khistory H p ops init_state (kgood_init H p) Hu) as (_ & HX & _).
  fold st in HX. rewrite Forall_forall in HX. exact (HX s Hs iv items Hi).
Qed.
Print Assumptions C11_index_files_are_derived.

(* and whenever message times never decrease (from ts0 on) the timestamp column equals the message times, whatever ts0 *)
Theorem C11_timestamps_when_monotone :
  forall (H : bytes -> Z) p v, ptimes p = true -> forall recs cur ts0,
  tmono ts0 recs -> map its (derive_from H p v cur ts0 recs) = map mtime recs.
Proof. exact derive_faithful. Qed.
Print Assumptions C11_timestamps_when_monotone.
