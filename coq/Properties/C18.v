(* C18 — Blocking consume wakes for every publish and never for nothing.
   The notifier of pkg/notify as the transition system of Notify.v: any number of Wait / Set / Close threads,
   any interleaving of their channel operations and atomic accesses. *)
From KV Require Import Base Notify NotifyProofs.

(* every state reachable from a start in which each thread stands at the entry of its call satisfies the
   invariant (token discipline, channel identities, the parked-waiter clause) *)
Theorem C18_invariant :
  forall next ts s, forallb entry ts = true -> reach (ninit next ts) s -> ninv s.
Proof. exact reach_inv. Qed.
Print Assumptions C18_invariant.

(* channel safety: a thread about to send on the barrier (Wait's hand-back, Set's new channel) or to close
   it holds the only token, so the capacity-1 channel is open and empty: no send on a closed channel, no
   blocked send, no double close; a broadcast channel about to be closed has not been closed before *)
Theorem C18_chan_safety :
  forall s i p, ninv s -> nth_error (threads s) i = Some p ->
  match p with
  | W3 _ _ _ | S3 | C2 => tok s = Held i
  | S2 b | C1 b => tok s = Held i /\ is_closed s b = false
  | _ => True
  end.
Proof. exact chan_safety. Qed.
Print Assumptions C18_chan_safety.

(* never for nothing: with no Set/Close in progress, a waiter still parked on an open channel has an
   offset that NextOffset has not passed *)
Theorem C18_parked_only_if_not_passed :
  forall s j off b, ninv s -> quiescent s ->
  nth_error (threads s) j = Some (W4 off b) -> is_closed s b = false -> nxt s <= off.
Proof. exact parked_only_if_not_passed. Qed.
Print Assumptions C18_parked_only_if_not_passed.

(* every publish that passes the offset wakes it: once NextOffset is beyond the offset (and the Set has
   finished) the waiter's step is enabled and returns without error *)
Theorem C18_passed_waiter_wakes :
  forall s j off b, ninv s -> quiescent s ->
  nth_error (threads s) j = Some (W4 off b) -> off < nxt s ->
  exists s', tstep s j = Some s' /\ nth_error (threads s') j = Some (WOk off).
Proof. exact passed_waiter_wakes. Qed.
Print Assumptions C18_passed_waiter_wakes.

(* it stays blocked as long as no Publish or Close occurs: a broadcast channel is closed only by a step of
   Set (after its store) or of Close *)
Theorem C18_woken_only_by_set_or_close :
  forall s a s' b, nstep s a = Some s' -> is_closed s b = false -> is_closed s' b = true ->
  exists i, a = Step i /\ (nth_error (threads s) i = Some (S2 b) \/ nth_error (threads s) i = Some (C1 b)).
Proof. exact closed_only_by_set_or_close. Qed.
Print Assumptions C18_woken_only_by_set_or_close.

(* immediate return below NextOffset (relative offsets are negative, NextOffset is not) *)
Theorem C18_immediate :
  forall s j off, nth_error (threads s) j = Some (W0 off) -> off < nxt s ->
  exists s', tstep s j = Some s' /\ nth_error (threads s') j = Some (WOk off).
Proof. exact immediate_return. Qed.
Print Assumptions C18_immediate.

(* a wait that reaches the barrier after Close fails *)
Theorem C18_after_close :
  forall s j off, nth_error (threads s) j = Some (W1 off) -> tok s = Gone ->
  exists s', tstep s j = Some s' /\ nth_error (threads s') j = Some (WClosed off).
Proof. exact wait_after_close. Qed.
Print Assumptions C18_after_close.

(* NextOffset of the notifier never decreases *)
Theorem C18_monotone : forall s a s', nstep s a = Some s' -> nxt s <= nxt s'.
Proof. exact next_offset_monotone. Qed.
Print Assumptions C18_monotone.

(* a context that ends BEFORE the waiter is parked (Wait looks at it only in its final select): the system extended
   with pending cancellations (Notify.xstep) takes only steps of the base system or none, so the invariant - and with
   it every theorem above - holds after any schedule with early cancellations *)
Theorem C18_early_cancellation_adds_no_behaviour :
  forall x a x', xstep x a = Some x' -> base x' = base x \/ exists a', nstep (base x) a' = Some (base x').
Proof. exact xstep_base. Qed.
Print Assumptions C18_early_cancellation_adds_no_behaviour.

Theorem C18_invariant_with_early_cancellations :
  forall next ts sched, forallb entry ts = true -> ninv (base (xrun (mkX (ninit next ts) []) sched)).
Proof. exact xrun_inv. Qed.
Print Assumptions C18_invariant_with_early_cancellations.
