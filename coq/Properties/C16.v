(* C16 — Compaction never changes the latest value of any key. *)
From KV Require Import Base Model Helpers Spec LogInv ScanProofs TrimProofs CompactProofs MultiProofs TimeProofs History XHistory.

(* FindUpdates is one forward pass over the live messages not newer than the cut-off, tracking the last offset
   per key: a pure fold *)
Theorem C16_find_updates :
  forall (H : bytes -> Z) st before, Inv st ->
  exists st', find_updates H st before =
    Ok (st', fst (fold_left upd_g (examined before (live (abs st))) ([], []))) /\
    Inv st' /\ abs st' = abs st.
Proof. exact find_updates_spec. Qed.
Print Assumptions C16_find_updates.

Theorem C16_find_deletes :
  forall (H : bytes -> Z) st before, Inv st ->
  exists st', find_deletes H st before =
    Ok (st', fst (fold_left del_g (examined before (live (abs st))) ([], []))) /\
    Inv st' /\ abs st' = abs st.
Proof. exact find_deletes_spec. Qed.
Print Assumptions C16_find_deletes.

(* what the folds select *)
Theorem C16_updates_sound :
  forall P, let r := fold_left upd_g P ([], []) in
  map_ok (snd r) P /\ forall o, In o (fst r) -> has_later P o.
Proof. exact upd_sound. Qed.
Print Assumptions C16_updates_sound.

Theorem C16_deletes_sound :
  forall P, let r := fold_left del_g P ([], []) in
  seen_ok (snd r) P /\ forall o, In o (fst r) -> first_of_key P o.
Proof. exact del_sound. Qed.
Print Assumptions C16_deletes_sound.

(* CompactUpdates on any read-write log, any cut-off: the last live message of every key is the same before and
   after; it removes only messages not newer than the cut-off that have a later message with the same key;
   every other message stays; NextOffset is unchanged *)
Theorem C16_compact_updates :
  forall (H : bytes -> Z) c st before,
  Inv st -> opened st = Some c -> cro c = false ->
  exists st' del size,
    trim_multi H (fun s => find_updates H s before) st = (st', del, size, None) /\ Inv st' /\
    anext (abs st') = anext (abs st) /\
    (forall k, latest k (live (abs st')) = latest k (live (abs st))) /\
    (forall x, In x del -> In x (live (abs st)) /\ has_later (examined before (live (abs st))) (moff x) /\ mtime x <= before) /\
    (forall x, In x (live (abs st)) -> ~ In x del -> In x (live (abs st'))).
Proof. exact compact_updates_spec. Qed.
Print Assumptions C16_compact_updates.

(* CompactDeletes: the latest VALUE of every key (a message without value meaning 'absent') is the same before and
   after; it removes only value-less messages that are the first message of their key among those not newer than
   the cut-off *)
Theorem C16_compact_deletes :
  forall (H : bytes -> Z) c st before,
  Inv st -> opened st = Some c -> cro c = false ->
  exists st' del size,
    trim_multi H (fun s => find_deletes H s before) st = (st', del, size, None) /\ Inv st' /\
    anext (abs st') = anext (abs st) /\
    (forall k, latest_value k (live (abs st')) = latest_value k (live (abs st))) /\
    (forall x, In x del -> In x (live (abs st)) /\ first_of_key (examined before (live (abs st))) (moff x)) /\
    (forall x, In x (live (abs st)) -> ~ In x del -> In x (live (abs st'))).
Proof. exact compact_deletes_spec. Qed.
Print Assumptions C16_compact_deletes.

(* Compact = CompactUpdates then CompactDeletes: both preserve the latest value, so does their composition *)
Theorem C16_latest_value_of_latest :
  forall k L L', latest k L' = latest k L -> latest_value k L' = latest_value k L.
Proof. intros k L L' E. unfold latest_value. now rewrite E. Qed.
Print Assumptions C16_latest_value_of_latest.

(* completeness: every examined message that is followed by a later examined message with the same key is selected,
   so after CompactUpdates at most one message per key is left among those not newer than the cut-off (for message
   times that never decrease these are exactly the examined ones) *)
Theorem C16_updates_complete :
  forall P o, has_later P o -> In o (fst (fold_left upd_g P ([], []))).
Proof. exact upd_complete. Qed.
Print Assumptions C16_updates_complete.

(* the third sentence of the property: when times never decrease, CompactUpdates leaves at most one message per key
   among the messages not newer than the cut-off *)
Theorem C16_one_per_key_on_monotone_times :
  forall (H : bytes -> Z) c st before lo,
  Inv st -> opened st = Some c -> cro c = false -> tmono lo (live (abs st)) ->
  exists st' del size,
    trim_multi H (fun s => find_updates H s before) st = (st', del, size, None) /\ Inv st' /\
    forall x y, In x (live (abs st')) -> In y (live (abs st')) -> mtime x <= before -> mtime y <= before ->
                mkey x = mkey y -> x = y.
Proof. exact compact_updates_one_per_key. Qed.
Print Assumptions C16_one_per_key_on_monotone_times.

(* compact.go Compact = CompactUpdates, then CompactDeletes unless the first failed (then GC): in any state of a handle
   and for any two cut-offs the log afterwards is the log before minus exactly the messages the two passes removed *)
Theorem C16_compact_removes_exactly_what_its_passes_report :
  forall (H : bytes -> Z) st ub db st' del size e,
  Good st -> compact_both H st ub db = (st', del, size, e) ->
  Good st' /\ abs st' = mkAlog (remove_msgs (live (abs st)) del) (anext (abs st)).
Proof. exact compact_both_good. Qed.
Print Assumptions C16_compact_removes_exactly_what_its_passes_report.
