(* C19 — One writer at a time; read-only handles never modify data.
   The lock is flock(2) of the operating system; the model is the shared/exclusive lock table of Flock.v
   (validated against real handles, in-process and in a child process, on every run). *)
From KV Require Import Base Model Flock FlockProofs OpenProofs.

(* in every lock table reachable by any sequence of Open (either mode, succeeding or failing), Close,
   Publish, Delete: an exclusive lock excludes every other handle *)
Theorem C19_exclusion :
  forall ops, let t := fst (frun ops) in
  excl t = true -> shared t = O /\ count_mode HRW (handles t) = 1%nat /\ count_mode HRO (handles t) = O.
Proof. exact exclusive_means_alone. Qed.
Print Assumptions C19_exclusion.

(* the bookkeeping invariant behind it, for every reachable table *)
Theorem C19_invariant : forall ops, finv (fst (frun ops)).
Proof. exact frun_inv. Qed.
Print Assumptions C19_invariant.

(* a read-write Open succeeds only when no handle at all is open, a read-only Open only without a writer *)
Theorem C19_open_rw :
  forall t h check t', find_handle t h = None -> fstep t (FOpen h false check) = (t', FOk) ->
  excl t = false /\ shared t = O.
Proof. exact open_rw_needs_free. Qed.
Print Assumptions C19_open_rw.

Theorem C19_open_ro :
  forall t h check t', find_handle t h = None -> fstep t (FOpen h true check) = (t', FOk) -> excl t = false.
Proof. exact open_ro_needs_no_writer. Qed.
Print Assumptions C19_open_ro.

(* the lock is released by a failed Open *)
Theorem C19_failed_open_releases :
  forall t h ro check c,
  fstep t (FOpen h ro check) = (fst (fstep t (FOpen h ro check)), FErr c) ->
  fst (fstep t (FOpen h ro check)) = t.
Proof. exact failed_open_releases. Qed.
Print Assumptions C19_failed_open_releases.

(* Publish and Delete on a read-only handle are rejected and change nothing (lock table level) ... *)
Theorem C19_readonly_rejects_table :
  forall t h, find_handle t h = Some HRO ->
  fstep t (FPublish h) = (t, FErr CReadonly) /\ fstep t (FDelete h) = (t, FErr CReadonly).
Proof. exact readonly_rejects. Qed.
Print Assumptions C19_readonly_rejects_table.

(* ... and on the log model: ErrReadonly, no new state *)
Theorem C19_readonly_rejects_log :
  forall (H : bytes -> Z) st c ms offs, opened st = Some c -> cro c = true ->
  log_publish H st ms = Err EReadonly /\ log_delete H st offs = Err EReadonly.
Proof.
  intros H st c ms offs Hc Hro. unfold log_publish, log_delete, get_cfg. rewrite Hc. cbn [bind]. rewrite Hro.
  split; reflexivity.
Qed.
Print Assumptions C19_readonly_rejects_log.

(* a read-only Open - plain, with Check, or with Recover (which only checks on a read-only handle) - leaves every
   file of the directory exactly as it was *)
Theorem C19_readonly_open_changes_no_file :
  forall (H : bytes -> Z) st c0 st',
  cro c0 = true -> segs st <> [] -> log_open H st c0 = Ok st' -> segs st' = segs st.
Proof. exact log_open_readonly_keeps_dir. Qed.
Print Assumptions C19_readonly_open_changes_no_file.

(* a read-only handle answers like a read-write handle on the same files: both show exactly the abstract log of the
   directory (hence, by the C03/C04/C09/C10 theorems, the same answers to every query) *)
Theorem C19_readonly_shows_the_same_log :
  forall (H : bytes -> Z) st cro_cfg crw_cfg st_ro st_rw,
  closed_dir st -> segs st <> [] ->
  log_open H st cro_cfg = Ok st_ro -> log_open H st crw_cfg = Ok st_rw ->
  LogInv.Inv st_ro /\ LogInv.Inv st_rw /\ LogInv.abs st_ro = LogInv.abs st_rw.
Proof.
  intros H st c1 c2 s1 s2 Hcd Hne E1 E2.
  destruct (log_open_ok H st c1 Hcd Hne s1 E1) as (I1 & A1). destruct (log_open_ok H st c2 Hcd Hne s2 E2) as (I2 & A2).
  split; [exact I1|]. split; [exact I2|congruence].
Qed.
Print Assumptions C19_readonly_shows_the_same_log.
