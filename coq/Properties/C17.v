(* C17 — Format migration and mixed-version logs preserve every message. *)
From KV Require Import Base Model Spec LogInv DeleteProofs OpenProofs History Versions Codec CodecProofs RecoverProofs RecoverCrash RecoverCrashProofs.

(* Migrate on a closed directory: every message and NextOffset are preserved, the directory stays
   well-formed, and afterwards every segment is in the requested version *)
Theorem C17_migrate :
  forall (H : bytes -> Z) p v st, DirInv (segs st) ->
  exists st', dir_migrate H p v st = Ok st' /\ DirInv (segs st') /\ abs_dir (segs st') = abs_dir (segs st) /\
              Forall (fun s => sver s = v) (segs st') /\ opened st' = opened st /\ lvirt st' = lvirt st.
Proof. exact dir_migrate_ok. Qed.
Print Assumptions C17_migrate.

(* migrating twice is the same as once *)
Theorem C17_migrate_idempotent :
  forall (H : bytes -> Z) p v st st1, DirInv (segs st) ->
  dir_migrate H p v st = Ok st1 -> dir_migrate H p v st1 = Ok st1.
Proof.
  intros H p v st st1 HD E. destruct (dir_migrate_ok H p v st HD) as (st' & E' & HD' & _ & Hv & Ho & Hl).
  rewrite E in E'. injection E' as <-. unfold dir_migrate.
  assert (Hm : map_res (segment_migrate H p v v) (segs st1) = Ok (segs st1)).
  { destruct HD' as [HF _]. revert Hv. induction HF as [|s r Hs HF IH]; intros Hv; [reflexivity|].
    apply Forall_cons_iff in Hv. destruct Hv as [Hsv Hrv]. cbn [map_res]. unfold segment_migrate at 1.
    rewrite (seg_inv_open_log s Hs). cbn [bind]. rewrite Hsv.
    replace (ver_eqb v v) with true by (destruct v; reflexivity). cbn [bind]. rewrite (IH Hrv). reflexivity. }
  rewrite Hm. cbn [bind]. destruct st1; reflexivity.
Qed.
Print Assumptions C17_migrate_idempotent.

(* Open in any mode — in particular EagerVersionMigrate, on a directory whose segments use any mix of
   versions — shows the same messages and NextOffset *)
Theorem C17_open_any_mix :
  forall (H : bytes -> Z) st c0, closed_dir st -> segs st <> [] ->
  forall st', log_open H st c0 = Ok st' -> Inv st' /\ abs st' = abs_dir (segs st).
Proof. exact log_open_ok. Qed.
Print Assumptions C17_open_any_mix.

(* delete-by-rewrite, with or without KeepRewriteVersion (the version of the rewritten segment is
   srcv or NewSegmentsVersion): the abstract log changes only by the reported messages *)
Theorem C17_rewrite_preserves :
  forall (H : bytes -> Z) st offs st' deleted size c,
  Inv st -> opened st = Some c ->
  log_delete H st offs = Ok (st', (deleted, size)) ->
  (deleted = [] /\ st' = st /\ size = 0) \/ delete_post st c offs st' deleted size.
Proof. exact log_delete_ok. Qed.
Print Assumptions C17_rewrite_preserves.

(* whole histories mixing Migrate, eager and lazy opens, deletes and publishes in both versions: the
   abstract log never depends on the versions of the segments *)
Theorem C17_history :
  forall (H : bytes -> Z) ops st,
  Good st -> Good (fst (hrun H st ops)) /\
             abs (fst (hrun H st ops)) = spec_run (abs st) ops (snd (hrun H st ops)).
Proof. exact history_refines. Qed.
Print Assumptions C17_history.

(* which version every segment has after a Delete: an untouched segment keeps its own; the new empty head a Delete
   creates is in NewSegmentsVersion; the rewritten segment is in NewSegmentsVersion or, with KeepRewriteVersion, in
   the version of the segment it was rewritten from *)
Theorem C17_versions_after_delete :
  forall (H : bytes -> Z) st offs st' deleted size c,
  Inv st -> opened st = Some c ->
  log_delete H st offs = Ok (st', (deleted, size)) ->
  forall s', In s' (segs st') ->
    In s' (segs st) \/ sver s' = cnewver c \/
    (ckeeprw c = true /\ exists src, In src (segs st) /\ sver s' = sver src).
Proof. exact Versions.delete_versions. Qed.
Print Assumptions C17_versions_after_delete.

(* ... and after a Publish: the writing segment is the old one, or - after a rollover - a new one in
   NewSegmentsVersion; every other segment is untouched *)
Theorem C17_versions_after_publish :
  forall (H : bytes -> Z) st ms st' n c hd,
  opened st = Some c -> last_opt (segs st) = Some hd ->
  log_publish H st ms = Ok (st', n) ->
  exists pre hd', segs st' = pre ++ [hd'] /\
    sver hd' = (if needs_rollover c hd then cnewver c else sver hd) /\
    (forall s, In s pre -> In s (segs st)).
Proof. exact Versions.publish_versions. Qed.
Print Assumptions C17_versions_after_publish.

(* ---------- Migrate of one segment can be interrupted anywhere (RecoverCrash.migrate_prog: remove the index, re-encode the
   records into <log>.migrate, rename it over the log, index.Write of the index derived from the new positions; bytes and
   file-system steps are compared with the real Segment.Migrate on every run of the C17 check).
   For a clean segment - a log file that is the encoding of messages ms in version v, named after its first record, its index
   file absent or the one derived from it - and a target version mv <> v: after ANY number k of completed steps and ANY
   part j of an append in flight, the segment passes Check and its log file is the encoding of exactly the same messages,
   in the old or in the new version.  (The index is removed FIRST: an old index beside a migrated log would be trusted -
   positions differ between the versions - which is what the seeded change C17-migrate-keeps-old-index-until-rewritten does.) *)
Theorem C17_migrate_crash_safe :
  forall crc H, crc_range crc -> (forall k, 0 <= H k < two64z) ->
  forall p base v mv iv ms idx0,
  Forall msg_ok ms -> 0 <= base < two63 ->
  match ms with [] => True | m :: _ => moff m = base end ->
  ver_eqb v mv = false ->
  hdr_size mv + recs_size mv ms < two63 ->
  index_is p base idx0 (scan_items H p (placed v (hdr_size v) ms)) ->
  forall prog stale_migrate_tmp stale_index_tmp k j,
  migrate_prog crc H p base mv iv (enc_log crc v ms) = Ok prog ->
  let img := rimage (mkRf (enc_log crc v ms) stale_migrate_tmp idx0 stale_index_tmp) prog k j in
  check_bytes crc H p base (rlog img) (ridx img) = Ok tt /\
  exists w, (w = v \/ w = mv) /\ rlog img = enc_log crc w ms.
Proof. exact migrate_crash_safe. Qed.
Print Assumptions C17_migrate_crash_safe.

(* run to its end: the log in the requested version holding the same messages, the index derived from it *)
Theorem C17_segment_migrate_result :
  forall crc H, crc_range crc ->
  forall p base v mv iv ms idx0,
  Forall msg_ok ms -> 0 <= base < two63 ->
  match ms with [] => True | m :: _ => moff m = base end ->
  ver_eqb v mv = false ->
  hdr_size mv + recs_size mv ms < two63 ->
  index_is p base idx0 (scan_items H p (placed v (hdr_size v) ms)) ->
  forall prog rt it,
  migrate_prog crc H p base mv iv (enc_log crc v ms) = Ok prog ->
  rlog (rrun (mkRf (enc_log crc v ms) rt idx0 it) prog) = enc_log crc mv ms /\
  ridx (rrun (mkRf (enc_log crc v ms) rt idx0 it) prog) = Some (enc_index iv p (scan_items H p (placed mv (hdr_size mv) ms))).
Proof. exact migrate_prog_result. Qed.
Print Assumptions C17_segment_migrate_result.
