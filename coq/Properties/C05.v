(* C05 — A crash at any step leaves a log that Recover reopens consistently (the log-file level). *)
From KV Require Import Base Model Codec CodecProofs RecoverProofs LogInv OpenProofs CrashDir CrashDirProofs RecoverCrash RecoverCrashProofs.
From KV Require PublishProofs Spec History CrashOpen.

(* a crash part-way through the append of a record (any proper prefix of the record reached the file),
   after any number of complete records, whatever the index file holds: Recover cuts exactly the torn record,
   every complete record stays - the published messages, possibly followed by a prefix of the batch *)
Theorem C05_torn_append :
  forall crc H, crc_range crc -> forall p base v ms m t idx,
  Forall msg_ok ms -> msg_ok m -> proper_prefix t (enc_rec crc v m) ->
  log_version (enc_log crc v ms ++ t) base = Ok v ->
  exists idx', recover_bytes crc H p base (enc_log crc v ms ++ t) idx = Ok (enc_log crc v ms, idx').
Proof. exact recover_torn. Qed.
Print Assumptions C05_torn_append.

(* a crash between two appends (the log holds complete records only), whatever the index file holds - torn,
   stale, missing items, garbage: the log file is unchanged *)
Theorem C05_between_appends :
  forall crc H, crc_range crc -> forall p base v ms idx,
  Forall msg_ok ms -> log_version (enc_log crc v ms) base = Ok v ->
  exists idx', recover_bytes crc H p base (enc_log crc v ms) idx = Ok (enc_log crc v ms, idx').
Proof. exact recover_clean_log. Qed.
Print Assumptions C05_between_appends.

(* whatever Recover returns (on any bytes at all): nothing else - only valid records of the old file, in
   order, from its start *)
Theorem C05_nothing_invented :
  forall crc H, crc_range crc -> forall p base b idx newlog idx',
  bytes_ok b -> recover_bytes crc H p base b idx = Ok (newlog, idx') ->
  exists v ms rest,
    log_version b base = Ok v /\ Forall msg_ok ms /\ newlog = enc_log crc v ms /\ b = newlog ++ rest /\
    (forall m rest', msg_ok m -> rest <> enc_rec crc v m ++ rest') /\
    let items := scan_items H p (placed v (hdr_size v) ms) in
    match idx' with
    | None => True
    | Some ib => (idx = Some ib /\ index_is p base idx items) \/ exists iv, ib = enc_index iv p items
    end.
Proof. exact recover_keeps_valid_prefix. Qed.
Print Assumptions C05_nothing_invented.

(* the recovered segment passes Check and recovering again changes nothing *)
Theorem C05_recover_idempotent_and_clean :
  forall crc H, crc_range crc -> (forall k, 0 <= H k < two64z) ->
  forall p base b idx newlog idx',
  bytes_ok b -> zlen b < two63 -> 0 <= base < two63 ->
  (forall v m nxt, log_version b base = Ok v -> read_rec crc v b (hdr_size v) = Ok (m, nxt) -> moff m = base) ->
  recover_bytes crc H p base b idx = Ok (newlog, idx') ->
  check_bytes crc H p base newlog idx' = Ok tt /\
  recover_bytes crc H p base newlog idx' = Ok (newlog, idx').
Proof. exact recover_then_check. Qed.
Print Assumptions C05_recover_idempotent_and_clean.

(* it can be appended to and still passes Check *)
Theorem C05_append_after_recover :
  forall crc H, crc_range crc -> forall p base v ms ms' idx,
  Forall msg_ok ms -> Forall msg_ok ms' ->
  log_version (enc_log crc v (ms ++ ms')) base = Ok v ->
  index_is p base idx (scan_items H p (placed v (hdr_size v) (ms ++ ms'))) ->
  check_bytes crc H p base (enc_log crc v ms ++ concat (map (enc_rec crc v) ms')) idx = Ok tt.
Proof. exact check_after_append. Qed.
Print Assumptions C05_append_after_recover.

(* known finding F14, shown on the model: a head file of 1..7 bytes (first V1 record torn inside its first 8
   bytes) makes Recover fail instead of truncating to the empty log *)
Theorem C05_F14_short_file_refused :
  forall crc H p base (b : bytes) idx, 0 < zlen b < 8 -> recover_bytes crc H p base b idx = Err ELogCorrupted.
Proof. exact recover_short_file_refused. Qed.
Print Assumptions C05_F14_short_file_refused.

(* ---------- the multi-file swaps of delete-by-rewrite (CrashDir.v; the step programs are compared on every run with the
   file-system events the implementation performs) *)

(* the in-place swap (Segment.Override: remove index, rename log, rename index), for a segment anywhere in the
   directory: a process that dies after ANY prefix of it leaves a well-formed directory whose content is the one
   before or the one after the Delete - a Delete in flight is either fully applied or not at all - and every index
   file is absent or the derived one *)
Theorem C05_override_crash_safe :
  forall (H : bytes -> Z) pre post s keep p,
  DirInv (pre ++ s :: post) -> (forall m, In m keep -> In m (srecs s)) -> SegProofs.recs_sorted keep ->
  match keep with [] => False | m :: _ => moff m = sbase s end ->
  forall k,
  crash_ok (pre ++ s :: post)
           (pre ++ mkSeg (sbase s) (sver s) keep (Some (sver s, derive H p (sver s) keep)) :: post)
           (fs_run (mkDir (pre ++ s :: post) (mkTmp (Some keep) (Some (sver s, derive H p (sver s) keep))))
                   (firstn k (prog_override (sbase s)))).
Proof. exact override_crash_safe. Qed.
Print Assumptions C05_override_crash_safe.

(* the removal of an emptied segment (RewriteSegment.Remove, then Segment.Remove: index, log) *)
Theorem C05_drop_crash_safe :
  forall pre post s tmp, DirInv (pre ++ s :: post) -> post <> [] ->
  forall k, crash_ok (pre ++ s :: post) (pre ++ post) (fs_run (mkDir (pre ++ s :: post) tmp) (firstn k (prog_drop (sbase s)))).
Proof. exact drop_crash_safe. Qed.
Print Assumptions C05_drop_crash_safe.

(* what Open (Recover or any other mode) shows of such a directory: the log before or after the Delete, with Inv *)
Theorem C05_reopen_after_crash :
  forall (H : bytes -> Z) before after d c0 st',
  crash_ok before after d -> dsegs d <> [] ->
  log_open H (mkState (dsegs d) 0 None false) c0 = Ok st' ->
  Inv st' /\ (abs st' = abs_dir before \/ abs st' = abs_dir after).
Proof. exact reopen_after_crash. Qed.
Print Assumptions C05_reopen_after_crash.

(* known finding F6 on the model: the swap of a REBASING delete (Rename to the new base, then Remove of the old files)
   is not atomic in this sense - after its first step the directory holds the old segment AND the rewritten one, every
   survivor twice: neither the log before nor the log after *)
Theorem C05_F6_rebase_overlap :
  forall pre post s keep ix b',
  DirInv (pre ++ s :: post) -> sbase s < b' -> (forall q, In q post -> b' < sbase q) ->
  keep <> [] -> (length keep < length (srecs s))%nat ->
  let d1 := fs_run (mkDir (pre ++ s :: post) (mkTmp (Some keep) (Some ix))) (firstn 1 (prog_rebase (sbase s) b')) in
  dsegs d1 = pre ++ s :: mkSeg b' V2 keep None :: post /\
  all_recs (dsegs d1) = all_recs pre ++ srecs s ++ keep ++ all_recs post /\
  length (all_recs (dsegs d1)) <> length (all_recs (pre ++ s :: post)) /\
  length (all_recs (dsegs d1)) <> length (all_recs (pre ++ mkSeg b' V2 keep (Some ix) :: post)).
Proof. exact rebase_crash_overlap. Qed.
Print Assumptions C05_F6_rebase_overlap.

(* rollover (and every other creation of a new empty head at NextOffset): the log file appears, then the index file;
   after any prefix of the two steps the directory is well formed and holds the same log *)
Theorem C05_create_head_crash_safe :
  forall pre hd v tmp, DirInv (pre ++ [hd]) -> srecs hd <> [] ->
  forall k, let d := fs_run (mkDir (pre ++ [hd]) tmp) (firstn k (create_head (ReaderProofs.recs_next hd) v)) in
  DirInv (dsegs d) /\ abs_dir (dsegs d) = abs_dir (pre ++ [hd]).
Proof. exact create_head_crash_safe. Qed.
Print Assumptions C05_create_head_crash_safe.

(* the directory steps of a Publish on any state with Inv (publish_prog: none, or those of a rollover), cut anywhere *)
Theorem C05_publish_dir_steps_crash_safe :
  forall c st k, Inv st -> opened st = Some c ->
  let d := fs_run (mkDir (segs st) (mkTmp None None)) (firstn k (publish_prog st)) in
  DirInv (dsegs d) /\ abs_dir (dsegs d) = abs st.
Proof. exact publish_prog_crash_safe. Qed.
Print Assumptions C05_publish_dir_steps_crash_safe.

(* Delete of every message of the WRITING segment: new head at NextOffset first, then the old files go (repair F8) *)
Theorem C05_head_all_crash_safe :
  forall pre hd v, DirInv (pre ++ [hd]) -> srecs hd <> [] ->
  forall tmp k,
  crash_ok (pre ++ [hd]) (pre ++ [mkSeg (ReaderProofs.recs_next hd) v [] (Some (v, []))])
           (fs_run (mkDir (pre ++ [hd]) tmp) (firstn k (prog_head_all (sbase hd) (ReaderProofs.recs_next hd) v))).
Proof. exact head_all_crash_safe. Qed.
Print Assumptions C05_head_all_crash_safe.

(* Delete in the WRITING segment of a set with the newest but not the first message: new head, then the in-place swap *)
Theorem C05_head_tail_override_crash_safe :
  forall (H : bytes -> Z) pre hd v, DirInv (pre ++ [hd]) -> srecs hd <> [] ->
  forall keep p,
  (forall m, In m keep -> In m (srecs hd)) -> SegProofs.recs_sorted keep ->
  match keep with [] => False | m :: _ => moff m = sbase hd end ->
  forall k,
  let ix := (sver hd, derive H p (sver hd) keep) in
  let n := ReaderProofs.recs_next hd in
  crash_ok (pre ++ [hd]) (pre ++ mkSeg (sbase hd) (sver hd) keep (Some ix) :: [mkSeg n v [] (Some (v, []))])
           (fs_run (mkDir (pre ++ [hd]) (mkTmp (Some keep) (Some ix))) (firstn k (prog_head_tail_override (sbase hd) n v))).
Proof. exact head_tail_override_crash_safe. Qed.
Print Assumptions C05_head_tail_override_crash_safe.

(* ---------- Recover itself can be interrupted (RecoverCrash.v: Segment.Recover as a program of file-system steps on the
   log, the index and the two temporary files <log>.recover and <index>.tmp; the program is compared with the FS tap of
   the real Recover on every damaged head of the C05 / C07 / C13 runs).
   For ANY bytes in the head log file, any or no index file, any stale temporary files left by earlier attempts, any
   number k of completed steps and any part j of an append in flight: running Recover on what the crash left gives the
   same log file as the uninterrupted Recover, an index file that is the same or absent (absent = rebuilt on open),
   and that segment passes Check.  "Recovering again changes nothing" therefore also holds when the first recovery
   never finished. *)
Theorem C05_recover_restartable :
  forall crc H, crc_range crc -> (forall k, 0 <= H k < two64z) ->
  forall p base b idx newlog idx',
  bytes_ok b -> zlen b < two63 -> 0 <= base < two63 ->
  (forall v m nxt, log_version b base = Ok v -> read_rec crc v b (hdr_size v) = Ok (m, nxt) -> moff m = base) ->
  recover_bytes crc H p base b idx = Ok (newlog, idx') ->
  forall prog stale_recover_tmp stale_index_tmp k j,
  recover_prog crc H p base b idx = Ok prog ->
  let img := rimage (mkRf b stale_recover_tmp idx stale_index_tmp) prog k j in
  exists i'',
    recover_bytes crc H p base (rlog img) (ridx img) = Ok (newlog, i'') /\ (i'' = idx' \/ i'' = None) /\
    check_bytes crc H p base newlog i'' = Ok tt.
Proof. exact recover_restartable. Qed.
Print Assumptions C05_recover_restartable.

(* the program run to its end leaves exactly what recover_bytes computes - the function the theorems above and the C07
   theorems are about - and no temporary copy of the log *)
Theorem C05_recover_program_computes_recover :
  forall crc H, crc_range crc -> (forall k, 0 <= H k < two64z) ->
  forall p base b idx newlog idx',
  bytes_ok b -> 0 <= base < two63 ->
  (forall v m nxt, log_version b base = Ok v -> read_rec crc v b (hdr_size v) = Ok (m, nxt) -> moff m = base) ->
  recover_bytes crc H p base b idx = Ok (newlog, idx') ->
  forall prog rt it,
  recover_prog crc H p base b idx = Ok prog ->
  rlog (rrun (mkRf b rt idx it) prog) = newlog /\ ridx (rrun (mkRf b rt idx it) prog) = idx' /\
  rrtmp (rrun (mkRf b rt idx it) prog) = None.
Proof. exact recover_prog_computes. Qed.
Print Assumptions C05_recover_program_computes_recover.

(* non-vacuity: a concrete head (two records, three bytes of a torn third, an index one item short) meets the premises;
   its Recover has 13 steps, and all its crash images (every k, every j up to the longest append) were evaluated *)
Theorem C05_recover_restartable_premises_hold : ex_ok = true.
Proof. exact recover_restartable_example. Qed.
Print Assumptions C05_recover_restartable_premises_hold.

(* ---------- Migrate of one segment can be interrupted anywhere (RecoverCrash.migrate_prog: remove the index, re-encode the
   records into <log>.migrate, rename it over the log, index.Write of the index derived from the new positions; bytes and
   file-system steps are compared with the real Segment.Migrate on every run of the C17 check).
   For a clean segment - a log file that is the encoding of messages ms in version v, named after its first record, its index
   file absent or the one derived from it - and a target version mv <> v: after ANY number k of completed steps and ANY
   part j of an append in flight, the segment passes Check and its log file is the encoding of exactly the same messages,
   in the old or in the new version.  (The index is removed FIRST: an old index beside a migrated log would be trusted -
   positions differ between the versions - which is what the seeded change C17-migrate-keeps-old-index-until-rewritten does.) *)
Theorem C05_migrate_crash_safe :
  forall crc H, crc_range crc -> (forall k, 0 <= H k < two64z) ->
  forall p base v mv iv ms idx0,
  Forall msg_ok ms -> 0 <= base < two63 ->
  match ms with [] => True | m :: _ => moff m = base end ->
  ver_eqb v mv = false ->
  hdr_size mv + recs_size mv ms < two63 ->
  index_is p base idx0 (scan_items H p (placed v (hdr_size v) ms)) ->
  forall prog stale_migrate_tmp stale_index_tmp k j,
  migrate_prog crc H p base mv iv (enc_log crc v ms) = Ok prog ->
  let img := rimage (mkRf (enc_log crc v ms) stale_migrate_tmp idx0 stale_index_tmp) prog k j in
  check_bytes crc H p base (rlog img) (ridx img) = Ok tt /\
  exists w, (w = v \/ w = mv) /\ rlog img = enc_log crc w ms.
Proof. exact migrate_crash_safe. Qed.
Print Assumptions C05_migrate_crash_safe.

(* ---------- the whole directory, at the level of records (CrashOpen.v).  A directory all of whose segments are well
   formed except that the index file of the NEWEST segment holds anything at all - missing, a prefix, stale items: what a
   crash during a Publish, a rollover or an index write leaves once the byte-level theorems above have cut the torn
   record - opens with Recover to a handle that satisfies the log invariant and shows exactly the records of the log files *)
Theorem C05_crash_open_recovers :
  forall (H : bytes -> Z) st c0,
  opened st = None -> lvirt st = false -> CrashOpen.crash_dir (segs st) ->
  crecover (norm_cfg c0) = true -> cro (norm_cfg c0) = false ->
  forall st', log_open H st c0 = Ok st' -> Inv st' /\ abs st' = abs_dir (segs st).
Proof. exact CrashOpen.crash_open_recovers. Qed.
Print Assumptions C05_crash_open_recovers.

(* hence: a Publish cut short after ANY number k of complete records of its batch - in any reachable state (Inv), with
   the rollover it required, and whatever the crash left of the writing segment's index file - reopens with Recover to
   exactly the log before it plus the first k messages of the batch, with the offsets Publish assigns: "every message
   whose Publish had returned, possibly followed by a prefix of the batch being published; nothing else" *)
Theorem C05_publish_crash_recovers :
  forall (H : bytes -> Z) st c ms k ix c0,
  Inv st -> opened st = Some c -> cro c = false -> PublishProofs.sizes_ok (firstn k ms) ->
  exists st_k,
    log_publish H st (firstn k ms) = Ok (st_k, Spec.anext (abs st) + zlen (firstn k ms)) /\
    forall st',
      crecover (norm_cfg c0) = true -> cro (norm_cfg c0) = false ->
      log_open H (mkState (CrashOpen.damage_head_index (segs st_k) ix) 0 None false) c0 = Ok st' ->
      Inv st' /\ abs st' = Spec.spec_publish (abs st) (firstn k ms).
Proof. exact CrashOpen.publish_crash_recovers. Qed.
Print Assumptions C05_publish_crash_recovers.

(* non-vacuity: after three messages, a batch of two cut after its first record, the index file reduced to its first
   item: Open with Recover succeeds and shows four messages, NextOffset 4 *)
Definition c05_hash (b : bytes) : Z := 0.
Definition c05_cfg : cfg := mkCfg false false false false 1048576 false true V2 false false.
Definition c05_state := fst (History.hrun c05_hash init_state
  [History.HOpen c05_cfg; History.HPub [mkMsg 0 5 [97%N] [1%N]; mkMsg 0 6 [98%N] [2%N]; mkMsg 0 7 [99%N] [3%N]]]).
Example C05_publish_crash_example :
  exists st_k st',
    log_publish c05_hash c05_state (firstn 1 [mkMsg 0 8 [100%N] [4%N]; mkMsg 0 9 [101%N] [5%N]]) = Ok (st_k, 4) /\
    log_open c05_hash (mkState (CrashOpen.damage_head_index (segs st_k) (Some (V2, [mkItem 0 8 0 0]))) 0 None false) c05_cfg = Ok st' /\
    map moff (Spec.live (abs st')) = [0; 1; 2; 3] /\ Spec.anext (abs st') = 4.
Proof. eexists. eexists. split; [vm_compute; reflexivity|]. split; [vm_compute; reflexivity|]. split; vm_compute; reflexivity. Qed.
