(* C12 — Delete removes only what it reports, and reports it exactly. *)
From KV Require Import Base Model Helpers Spec LogInv DeleteProofs CompactProofs MultiProofs History XHistory.

(* for every state satisfying Inv and every offset set: a successful Delete either deletes nothing and
   leaves the state as it is, or
     - the reported messages are exactly the requested ones among the records of one segment (full content),
     - the abstract log afterwards is the old one minus exactly those messages (every other message keeps
       offset and content), NextOffset is unchanged, the invariant is preserved,
     - the reported size is the sum of record size (in the format of that segment) + index item size;
   in all structural outcomes: reader or writing segment; same base, rebased, emptied, newest removed *)
Theorem C12_delete :
  forall (H : bytes -> Z) st offs st' deleted size c,
  Inv st -> opened st = Some c ->
  log_delete H st offs = Ok (st', (deleted, size)) ->
  (deleted = [] /\ st' = st /\ size = 0) \/ delete_post st c offs st' deleted size.
Proof. exact log_delete_ok. Qed.
Print Assumptions C12_delete.

(* the result is accepted by the L0 checker check_delete (returned were live, were requested, no
   duplicates, size = sum of storage sizes) *)
Theorem C12_delete_checker :
  forall (H : bytes -> Z) st offs st' deleted size c,
  Inv st -> opened st = Some c -> offs <> [] ->
  log_delete H st offs = Ok (st', (deleted, size)) ->
  exists v, check_delete (abs st) (item_size (cparams c)) offs
                         (OOk (size, map (fun _ => v) deleted, deleted)) = true.
Proof. exact log_delete_checker. Qed.
Print Assumptions C12_delete_checker.

(* relative offsets are rejected with ErrInvalidOffset *)
Theorem C12_relative :
  forall (H : bytes -> Z) st offs c,
  opened st = Some c -> cro c = false -> offs <> [] -> zmin_list offs < 0 ->
  log_delete H st offs = Err EDeleteRelative /\ classify EDeleteRelative = CInvalidOffset.
Proof. intros H st offs c Hc Hro Hne Hmin. split; [now apply (log_delete_relative H st offs c)|reflexivity]. Qed.
Print Assumptions C12_relative.

(* the empty set is a no-op *)
Theorem C12_empty :
  forall (H : bytes -> Z) st c, opened st = Some c -> cro c = false -> log_delete H st [] = Ok (st, ([], 0)).
Proof. exact log_delete_empty. Qed.
Print Assumptions C12_empty.

(* DeleteMulti over a set of live offsets (spread over any number of segments) removes all of them and nothing
   else, reports exactly them, leaves NextOffset and the invariant intact and reports no error *)
Theorem C12_delete_multi :
  forall (H : bytes -> Z) c fuel st remaining accm accs,
  Inv st -> opened st = Some c -> cro c = false ->
  (forall o, In o remaining -> exists m, In m (live (abs st)) /\ moff m = o) ->
  (length remaining < fuel)%nat ->
  exists st' del size,
    delete_multi H fuel st remaining accm accs = (st', accm ++ del, accs + size, None) /\
    Inv st' /\ opened st' = Some c /\ anext (abs st') = anext (abs st) /\
    live (abs st') = remove_offs (live (abs st)) remaining /\
    (forall x, In x del <-> In x (live (abs st)) /\ In (moff x) remaining).
Proof. exact delete_multi_live. Qed.
Print Assumptions C12_delete_multi.

(* one pass always makes progress on a live offset *)
Theorem C12_delete_progress :
  forall (H : bytes -> Z) c st offs m,
  Inv st -> opened st = Some c -> cro c = false -> offs <> [] ->
  In m (live (abs st)) -> moff m = zmin_list offs ->
  exists st' deleted size, log_delete H st offs = Ok (st', (deleted, size)) /\ In m deleted.
Proof. exact log_delete_progress. Qed.
Print Assumptions C12_delete_progress.

(* deleting again deletes nothing: offsets none of which is live leave the log exactly as it is *)
Theorem C12_delete_again :
  forall (H : bytes -> Z) c st offs st' deleted size,
  Inv st -> opened st = Some c ->
  (forall m, In m (live (abs st)) -> ~ In (moff m) offs) ->
  log_delete H st offs = Ok (st', (deleted, size)) -> deleted = [] /\ st' = st /\ size = 0.
Proof. exact log_delete_dead. Qed.
Print Assumptions C12_delete_again.

(* DeleteMulti in ANY state a handle can be in, for ANY offset set and whatever it returns - also an error after some
   passes have already removed messages: the log has lost exactly the messages it reports, every other message keeps
   its offset and content, NextOffset is unchanged *)
Theorem C12_delete_multi_removes_exactly_what_it_reports :
  forall (H : bytes -> Z) st offs st' del size e,
  Good st -> log_delete_multi H st offs = (st', del, size, e) ->
  Good st' /\ abs st' = mkAlog (remove_msgs (live (abs st)) del) (anext (abs st)).
Proof. exact log_delete_multi_good. Qed.
Print Assumptions C12_delete_multi_removes_exactly_what_it_reports.
