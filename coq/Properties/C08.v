(* C08 — Concurrent use is race-free and linearizable (the locking protocol of log.go). *)
From KV Require Import Base Model Conc ConcProofs AbsFacts.
From KV Require ReaderGC ReaderGCProofs.

(* the invariant of the transition system of Conc.v is preserved by every step of every thread: Publish cut at
   writerMu.Lock / rollover swap / index.append / Unlock; reads cut at RLock / reading the writing segment /
   reading the other segments (either order) / RUnlock; Delete cut at deleteMu.Lock / findDeleteReader / the
   writerMu check / Rewrite (no lock held) / re-validation and swap / Unlock - any number of threads *)
Theorem C08_step_invariant :
  forall (Q R : Type) (qeval : Q -> list msg -> Z -> R) s s' a,
  CInv Q R qeval s -> cstep Q R qeval s a = Some s' -> CInv Q R qeval s'.
Proof. exact cstep_inv. Qed.
Print Assumptions C08_step_invariant.

(* Linearizability, for every interleaving: the linearization events (each appended by a step of the call itself,
   hence between its invocation and its return), replayed in order against the sequential specification, are all
   allowed by it and end in exactly the shared state *)
Theorem C08_linearizable :
  forall (Q R : Type) (qeval : Q -> list msg -> Z -> R) ts s,
  Forall (initial Q R) ts -> creach Q R qeval (cinit Q R ts) s ->
  trace_ok Q R qeval ([], 0) (trace s) /\ replay Q R (trace s) = (cabs (segs s), nxt s).
Proof. exact linearizable. Qed.
Print Assumptions C08_linearizable.

(* every completed read (Consume, Get, GetByKey, GetByTime, ConsumeByKey, NextOffset: any function of the live
   messages and NextOffset) returned what the sequential specification gives at its linearization point, although
   it reads the writing segment and the other segments at different moments *)
Theorem C08_read_result :
  forall (Q R : Type) (qeval : Q -> list msg -> Z -> R) ts s i r,
  Forall (initial Q R) ts -> creach Q R qeval (cinit Q R ts) s -> nth_error (thr s) i = Some (RDone r) ->
  exists q tr1 tr2, trace s = tr1 ++ EvRead i q r :: tr2 /\ r = qeval q (fst (replay Q R tr1)) (snd (replay Q R tr1)).
Proof. exact read_returns_spec. Qed.
Print Assumptions C08_read_result.

(* publishers receive disjoint consecutive offset ranges *)
Theorem C08_publish_result :
  forall (Q R : Type) (qeval : Q -> list msg -> Z -> R) ts s i ret,
  Forall (initial Q R) ts -> creach Q R qeval (cinit Q R ts) s -> nth_error (thr s) i = Some (PDone ret) ->
  exists ms tr1 tr2, trace s = tr1 ++ EvPub i ms ret :: tr2 /\ ret = snd (replay Q R tr1) + zlen ms.
Proof. exact publish_returns_spec. Qed.
Print Assumptions C08_publish_result.

(* a message disappears only through a Delete that reports it: a completed Delete reported nothing (e.g. the
   writing segment changed under it) or exactly messages that were live and requested at its linearization point *)
Theorem C08_delete_result :
  forall (Q R : Type) (qeval : Q -> list msg -> Z -> R) ts s i res,
  Forall (initial Q R) ts -> creach Q R qeval (cinit Q R ts) s -> nth_error (thr s) i = Some (DDone res) ->
  res = [] \/ exists offs tr1 tr2, trace s = tr1 ++ EvDel i offs res :: tr2 /\
                forall d, In d res -> In d (fst (replay Q R tr1)) /\ In (moff d) offs.
Proof. exact delete_returns_spec. Qed.
Print Assumptions C08_delete_result.

(* lock discipline: at most one call inside writerMu, at most one inside deleteMu, every call between RLock and
   RUnlock is registered, and the swaps of rollover and Delete are only enabled with no registered reader *)
Theorem C08_mutual_exclusion :
  forall (Q R : Type) (qeval : Q -> list msg -> Z -> R) ts s i j p q,
  Forall (initial Q R) ts -> creach Q R qeval (cinit Q R ts) s ->
  nth_error (thr s) i = Some p -> nth_error (thr s) j = Some q ->
  (in_P Q R p -> in_P Q R q -> i = j) /\ (in_D Q R p -> in_D Q R q -> i = j) /\ (in_R Q R p -> In i (rds s)).
Proof. exact mutual_exclusion. Qed.
Print Assumptions C08_mutual_exclusion.

Theorem C08_offsets_unique :
  forall (Q R : Type) (qeval : Q -> list msg -> Z -> R) ts s,
  Forall (initial Q R) ts -> creach Q R qeval (cinit Q R ts) s ->
  inc (cabs (segs s)) /\ forall m, In m (cabs (segs s)) -> moff m < nxt s.
Proof. exact offsets_unique. Qed.
Print Assumptions C08_offsets_unique.

(* ---------- the lazy load / unload of a sealed segment's log file (ReaderGC.v: reader.getMessages, the deferred release
   of the in-use count, reader.GC; cut at every lock operation on messagesMu, every look at r.messages, every update
   of messagesInuse).  For ANY number of reading calls (Consume, Get, GetByKey, GetByTime, ConsumeByKey on the segment)
   and GC calls, and EVERY interleaving of their steps: no call reads through a closed mapping, and GC never closes a
   mapping that is counted as in use - so no call fails merely because a GC was in progress *)
Theorem C08_reads_never_see_a_closed_mapping :
  forall m ts sched,
  forallb ReaderGCProofs.gentry ts = true -> ReaderGC.bad (ReaderGC.grun (ReaderGC.ginit m ts) sched) = false.
Proof. exact ReaderGCProofs.reads_never_see_a_closed_mapping. Qed.
Print Assumptions C08_reads_never_see_a_closed_mapping.

(* at every moment, a call that is reading has the file loaded and is counted *)
Theorem C08_reading_means_loaded :
  forall m ts sched j,
  forallb ReaderGCProofs.gentry ts = true ->
  let s := ReaderGC.grun (ReaderGC.ginit m ts) sched in
  nth_error (ReaderGC.thrs s) j = Some (ReaderGC.TR ReaderGC.RUsing) ->
  ReaderGC.mapped s = true /\ (0 < ReaderGC.inuse s)%nat.
Proof. exact ReaderGCProofs.reading_means_loaded. Qed.
Print Assumptions C08_reading_means_loaded.

(* the invariant behind both, preserved by every step of every thread *)
Theorem C08_reader_gc_invariant :
  forall s i s', ReaderGCProofs.ginv s -> ReaderGC.gstep s i = Some s' -> ReaderGCProofs.ginv s'.
Proof. exact ReaderGCProofs.gstep_inv. Qed.
Print Assumptions C08_reader_gc_invariant.

(* non-vacuity: two readers and a GC on a loaded segment; the GC passes its test first, closes the file, one reader
   then loads it again on the slow path and both read; and a schedule where the GC finds the file in use and leaves it *)
Example C08_reader_gc_example :
  let ts := [ReaderGC.TR ReaderGC.RStart; ReaderGC.TG ReaderGC.GStart; ReaderGC.TR ReaderGC.RStart] in
  let s1 := ReaderGC.grun (ReaderGC.ginit true ts) [1; 1; 1; 1; 0; 0; 0; 0; 0; 0; 0; 0; 2; 2; 2; 2; 0; 2; 0; 2]%nat in
  let s2 := ReaderGC.grun (ReaderGC.ginit true ts) [0; 0; 0; 0; 1; 1; 1; 0; 0]%nat in
  (ReaderGC.thrs s1 = [ReaderGC.TR ReaderGC.RDone; ReaderGC.TG ReaderGC.GDone; ReaderGC.TR ReaderGC.RDone] /\
   ReaderGC.mapped s1 = true /\ ReaderGC.inuse s1 = O /\ ReaderGC.bad s1 = false) /\
  (ReaderGC.thrs s2 = [ReaderGC.TR ReaderGC.RDone; ReaderGC.TG ReaderGC.GDone; ReaderGC.TR ReaderGC.RStart] /\
   ReaderGC.mapped s2 = true /\ ReaderGC.bad s2 = false).
Proof. vm_compute. repeat split. Qed.
