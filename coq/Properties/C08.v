(* C08 — Concurrent use is race-free and linearizable (the locking protocol of log.go). *)
From KV Require Import Base Model Conc ConcProofs AbsFacts.

(* the invariant of the transition system of Conc.v is preserved by every step of every thread: Publish cut at
   writerMu.Lock / rollover swap / index.append / Unlock; reads cut at RLock / reading the writing segment /
   reading the other segments (either order) / RUnlock; Delete cut at deleteMu.Lock / findDeleteReader / the
   writerMu check / Rewrite (no lock held) / re-validation and swap / Unlock - any number of threads *)
Theorem C08_step_invariant :
  forall (Q R : Type) (qeval : Q -> list msg -> Z -> R) s s' a,
  CInv Q R qeval s -> cstep Q R qeval s a = Some s' -> CInv Q R qeval s'.
Proof. exact cstep_inv. Qed.
Print Assumptions C08_step_invariant.

(* Linearizability, for every interleaving: the linearization events (each appended by a step of the call itself,
   hence between its invocation and its return), replayed in order against the sequential specification, are all
   allowed by it and end in exactly the shared state *)
Theorem C08_linearizable :
  forall (Q R : Type) (qeval : Q -> list msg -> Z -> R) ts s,
  Forall (initial Q R) ts -> creach Q R qeval (cinit Q R ts) s ->
  trace_ok Q R qeval ([], 0) (trace s) /\ replay Q R (trace s) = (cabs (segs s), nxt s).
Proof. exact linearizable. Qed.
Print Assumptions C08_linearizable.

(* every completed read (Consume, Get, GetByKey, GetByTime, ConsumeByKey, NextOffset: any function of the live
   messages and NextOffset) returned what the sequential specification gives at its linearization point, although
   it reads the writing segment and the other segments at different moments *)
Theorem C08_read_result :
  forall (Q R : Type) (qeval : Q -> list msg -> Z -> R) ts s i r,
  Forall (initial Q R) ts -> creach Q R qeval (cinit Q R ts) s -> nth_error (thr s) i = Some (RDone r) ->
  exists q tr1 tr2, trace s = tr1 ++ EvRead i q r :: tr2 /\ r = qeval q (fst (replay Q R tr1)) (snd (replay Q R tr1)).
Proof. exact read_returns_spec. Qed.
Print Assumptions C08_read_result.

(* publishers receive disjoint consecutive offset ranges *)
Theorem C08_publish_result :
  forall (Q R : Type) (qeval : Q -> list msg -> Z -> R) ts s i ret,
  Forall (initial Q R) ts -> creach Q R qeval (cinit Q R ts) s -> nth_error (thr s) i = Some (PDone ret) ->
  exists ms tr1 tr2, trace s = tr1 ++ EvPub i ms ret :: tr2 /\ ret = snd (replay Q R tr1) + zlen ms.
Proof. exact publish_returns_spec. Qed.
Print Assumptions C08_publish_result.

(* a message disappears only through a Delete that reports it: a completed Delete reported nothing (e.g. the
   writing segment changed under it) or exactly messages that were live and requested at its linearization point *)
Theorem C08_delete_result :
  forall (Q R : Type) (qeval : Q -> list msg -> Z -> R) ts s i res,
  Forall (initial Q R) ts -> creach Q R qeval (cinit Q R ts) s -> nth_error (thr s) i = Some (DDone res) ->
  res = [] \/ exists offs tr1 tr2, trace s = tr1 ++ EvDel i offs res :: tr2 /\
                forall d, In d res -> In d (fst (replay Q R tr1)) /\ In (moff d) offs.
Proof. exact delete_returns_spec. Qed.
Print Assumptions C08_delete_result.

(* lock discipline: at most one call inside writerMu, at most one inside deleteMu, every call between RLock and
   RUnlock is registered, and the swaps of rollover and Delete are only enabled with no registered reader *)
Theorem C08_mutual_exclusion :
  forall (Q R : Type) (qeval : Q -> list msg -> Z -> R) ts s i j p q,
  Forall (initial Q R) ts -> creach Q R qeval (cinit Q R ts) s ->
  nth_error (thr s) i = Some p -> nth_error (thr s) j = Some q ->
  (in_P Q R p -> in_P Q R q -> i = j) /\ (in_D Q R p -> in_D Q R q -> i = j) /\ (in_R Q R p -> In i (rds s)).
Proof. exact mutual_exclusion. Qed.
Print Assumptions C08_mutual_exclusion.

Theorem C08_offsets_unique :
  forall (Q R : Type) (qeval : Q -> list msg -> Z -> R) ts s,
  Forall (initial Q R) ts -> creach Q R qeval (cinit Q R ts) s ->
  inc (cabs (segs s)) /\ forall m, In m (cabs (segs s)) -> moff m < nxt s.
Proof. exact offsets_unique. Qed.
Print Assumptions C08_offsets_unique.
