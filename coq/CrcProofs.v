(* CrcProofs.v — C14: CRC-32C, as computed by Codec.crc32c, tells apart any two byte strings that differ in exactly one
   byte (in particular by one flipped bit).  The register update is injective on 32-bit values: the top bit of the
   result says whether the polynomial was xored in, so the step can be undone. *)
From KV Require Import Base Model Codec.
From Coq Require Import ZifyBool ZifyNat ZifyN.

Local Open Scope N_scope.

Definition w32 (c : N) : Prop := c < 2 ^ 32.

Lemma testbit_high a n : a < 2 ^ n -> N.testbit a n = false.
Proof.
  intros Ha. destruct (N.eq_dec a 0) as [->|Hz]; [apply N.bits_0|].
  apply N.bits_above_log2. apply N.log2_lt_pow2; lia.
Qed.

Lemma lxor_w32 a b : w32 a -> w32 b -> w32 (N.lxor a b).
Proof.
  unfold w32. intros Ha Hb. destruct (N.eq_dec (N.lxor a b) 0) as [->|Hz]; [reflexivity|].
  apply N.log2_lt_pow2; [lia|]. pose proof (N.log2_lxor a b) as Hl.
  assert (N.log2 a < 32) by (destruct (N.eq_dec a 0) as [->|]; [cbn; lia|apply N.log2_lt_pow2; lia]).
  assert (N.log2 b < 32) by (destruct (N.eq_dec b 0) as [->|]; [cbn; lia|apply N.log2_lt_pow2; lia]).
  lia.
Qed.

Lemma poly_w32 : w32 crc_poly.
Proof. unfold w32, crc_poly. reflexivity. Qed.

Lemma shiftr1_lt c : w32 c -> N.shiftr c 1 < 2 ^ 31.
Proof. unfold w32. intros Hc. rewrite N.shiftr_div_pow2. change (2 ^ 1) with 2. change (2 ^ 32) with (2 * 2 ^ 31) in Hc. apply N.div_lt_upper_bound; lia. Qed.

Lemma crc_step_w32 c : w32 c -> w32 (crc_step c).
Proof.
  intros Hc. pose proof (shiftr1_lt c Hc) as Hs. unfold crc_step. destruct (N.odd c).
  - apply lxor_w32; [unfold w32; change (2 ^ 32) with (2 * 2 ^ 31); lia|apply poly_w32].
  - unfold w32. change (2 ^ 32) with (2 * 2 ^ 31). lia.
Qed.

Lemma lxor_cancel_r a b p : N.lxor a p = N.lxor b p -> a = b.
Proof.
  intros E. assert (E2 : N.lxor (N.lxor a p) p = N.lxor (N.lxor b p) p) by now rewrite E.
  now rewrite !N.lxor_assoc, !N.lxor_nilpotent, !N.lxor_0_r in E2.
Qed.

Lemma top_bit_of_step c : w32 c -> N.testbit (crc_step c) 31 = N.odd c.
Proof.
  intros Hc. pose proof (shiftr1_lt c Hc) as Hs. unfold crc_step. destruct (N.odd c).
  - rewrite N.lxor_spec, (testbit_high _ 31 Hs). reflexivity.
  - apply testbit_high. exact Hs.
Qed.

Lemma half_odd_eq a b : N.shiftr a 1 = N.shiftr b 1 -> N.odd a = N.odd b -> a = b.
Proof.
  rewrite !N.shiftr_div_pow2. change (2 ^ 1) with 2. intros Hh Ho.
  rewrite (N.div_mod a 2) by lia. rewrite (N.div_mod b 2) by lia. rewrite Hh. f_equal.
  rewrite <- !N.bit0_mod, !N.bit0_odd. now rewrite Ho.
Qed.

Lemma crc_step_inj a b : w32 a -> w32 b -> crc_step a = crc_step b -> a = b.
Proof.
  intros Ha Hb E.
  assert (Ho : N.odd a = N.odd b) by (rewrite <- (top_bit_of_step a Ha), <- (top_bit_of_step b Hb); now rewrite E).
  apply half_odd_eq; [|exact Ho]. unfold crc_step in E. rewrite <- Ho in E. destruct (N.odd a); [now apply lxor_cancel_r in E|exact E].
Qed.

Definition step8 (c : N) : N := crc_step (crc_step (crc_step (crc_step (crc_step (crc_step (crc_step (crc_step c))))))).

Lemma step8_w32 c : w32 c -> w32 (step8 c).
Proof. intros Hc. unfold step8. repeat apply crc_step_w32. exact Hc. Qed.

Lemma step8_inj a b : w32 a -> w32 b -> step8 a = step8 b -> a = b.
Proof.
  intros Ha Hb E. unfold step8 in E.
  repeat (apply crc_step_inj in E; [|repeat apply crc_step_w32; assumption|repeat apply crc_step_w32; assumption]).
  exact E.
Qed.

Lemma byte_w32 b : b < 256 -> w32 b.
Proof. unfold w32. intros Hb. change (2 ^ 32) with 4294967296. lia. Qed.

Lemma crc_byte_w32 c b : w32 c -> b < 256 -> w32 (crc_byte c b).
Proof. intros Hc Hb. unfold crc_byte. apply (step8_w32 (N.lxor c b)). apply lxor_w32; [exact Hc|now apply byte_w32]. Qed.

Lemma crc_byte_inj_state c c' b : w32 c -> w32 c' -> b < 256 -> crc_byte c b = crc_byte c' b -> c = c'.
Proof.
  intros Hc Hc' Hb E. unfold crc_byte in E. apply (step8_inj (N.lxor c b) (N.lxor c' b)) in E;
    [|apply lxor_w32; [assumption|now apply byte_w32]|apply lxor_w32; [assumption|now apply byte_w32]].
  now apply lxor_cancel_r in E.
Qed.

Lemma crc_byte_inj_byte c b b' : w32 c -> b < 256 -> b' < 256 -> crc_byte c b = crc_byte c b' -> b = b'.
Proof.
  intros Hc Hb Hb' E. unfold crc_byte in E. apply (step8_inj (N.lxor c b) (N.lxor c b')) in E;
    [|apply lxor_w32; [assumption|now apply byte_w32]|apply lxor_w32; [assumption|now apply byte_w32]].
  rewrite (N.lxor_comm c b), (N.lxor_comm c b') in E. now apply lxor_cancel_r in E.
Qed.

Definition small (l : list N) : Prop := Forall (fun x => x < 256) l.

Lemma fold_w32 : forall l c, small l -> w32 c -> w32 (fold_left crc_byte l c).
Proof.
  induction l as [|x l IH]; intros c Hl Hc; [exact Hc|]. inversion Hl; subst. cbn [fold_left]. apply IH; [assumption|now apply crc_byte_w32].
Qed.

Lemma fold_inj_state : forall l c c', small l -> w32 c -> w32 c' -> fold_left crc_byte l c = fold_left crc_byte l c' -> c = c'.
Proof.
  induction l as [|x l IH]; intros c c' Hl Hc Hc' E; [exact E|]. inversion Hl as [|? ? Hx Hl']; subst. cbn [fold_left] in E.
  apply IH in E; [|assumption|now apply crc_byte_w32|now apply crc_byte_w32]. now apply crc_byte_inj_state in E.
Qed.

Lemma mask_w32 : w32 crc_mask.
Proof. unfold w32, crc_mask. reflexivity. Qed.

(* two strings that differ in exactly one byte have different checksums *)
Theorem crc32c_one_byte pre a a' post :
  small pre -> small post -> a < 256 -> a' < 256 -> a <> a' ->
  crc32c (pre ++ a :: post) <> crc32c (pre ++ a' :: post).
Proof.
  intros Hpre Hpost Ha Ha' Hne E. unfold crc32c in E. apply N2Z.inj in E. apply lxor_cancel_r in E.
  rewrite !fold_left_app in E. cbn [fold_left] in E.
  pose proof (fold_w32 pre crc_mask Hpre mask_w32) as Hs. set (s := fold_left crc_byte pre crc_mask) in *.
  apply fold_inj_state in E; [|assumption|now apply crc_byte_w32|now apply crc_byte_w32].
  apply crc_byte_inj_byte in E; auto.
Qed.

Local Close Scope N_scope.
From KV Require Import CodecProofs.

(* ---------- records: no two valid V2 records differ in exactly one byte *)

Definition differ_at_one (x y : bytes) : Prop :=
  exists pre a a' post, x = pre ++ a :: post /\ y = pre ++ a' :: post /\ a <> a'.

Lemma small_ok l : bytes_ok l <-> small l.
Proof. reflexivity. Qed.

Lemma crc32c_w32 l : bytes_ok l -> 0 <= crc32c l < 4294967296.
Proof.
  intros Hl. unfold crc32c. pose proof (lxor_w32 _ _ (fold_w32 l crc_mask Hl mask_w32) mask_w32) as Hw. unfold w32 in Hw.
  change (2 ^ 32)%N with 4294967296%N in Hw. lia.
Qed.

Lemma be4_inj x y : 0 <= x < 4294967296 -> 0 <= y < 4294967296 -> be 4 x = be 4 y -> x = y.
Proof.
  intros Hx Hy E. assert (E2 : debe (be 4 x) = debe (be 4 y)) by now rewrite E. rewrite !debe_be in E2.
  change (256 ^ Z.of_nat 4) with 4294967296 in E2. rewrite !Z.mod_small in E2 by lia. exact E2.
Qed.

Lemma bytes_ok_app_inv (a b : bytes) : bytes_ok (a ++ b) -> bytes_ok a /\ bytes_ok b.
Proof. unfold bytes_ok. apply Forall_app. Qed.

Theorem v2_records_never_one_byte_apart m m' :
  bytes_ok (enc_rec crc32c V2 m) -> bytes_ok (enc_rec crc32c V2 m') ->
  differ_at_one (enc_rec crc32c V2 m) (enc_rec crc32c V2 m') -> False.
Proof.
  cbn [enc_rec]. set (body := be 8 (moff m) ++ be 8 (mtime m) ++ be 4 (zlen (mkey m)) ++ be 4 (zlen (mval m)) ++ mkey m ++ mval m ++ trailer).
  set (body' := be 8 (moff m') ++ be 8 (mtime m') ++ be 4 (zlen (mkey m')) ++ be 4 (zlen (mval m')) ++ mkey m' ++ mval m' ++ trailer).
  intros Hok Hok' (pre & a & a' & post & E & E' & Hne).
  destruct (bytes_ok_app_inv _ _ Hok) as [_ Hb]. destruct (bytes_ok_app_inv _ _ Hok') as [_ Hb'].
  pose proof (crc32c_w32 body Hb) as Hc. pose proof (crc32c_w32 body' Hb') as Hc'.
  assert (L4 : length (be 4 (crc32c body)) = 4%nat) by apply be_length.
  assert (L4' : length (be 4 (crc32c body')) = 4%nat) by apply be_length.
  destruct (Nat.lt_ge_cases (length pre) 4) as [Hlt|Hge].
  - (* the damaged byte lies in the checksum field: the bodies are equal, so the checksum fields are too *)
    assert (Hbody : body = body').
    { assert (S1 : skipn 4 (be 4 (crc32c body) ++ body) = body) by (rewrite <- L4 at 1; apply skipn_app_exact).
      assert (S2 : skipn 4 (be 4 (crc32c body') ++ body') = body') by (rewrite <- L4' at 1; apply skipn_app_exact).
      rewrite E in S1. rewrite E' in S2. rewrite skipn_app in S1, S2.
      replace (skipn 4 pre) with (@nil N) in S1, S2 by (symmetry; apply skipn_all2; lia). cbn [app] in S1, S2.
      destruct (4 - length pre)%nat as [|k] eqn:Ek; [lia|]. cbn [skipn] in S1, S2. congruence. }
    assert (F1 : firstn 4 (be 4 (crc32c body) ++ body) = be 4 (crc32c body)) by (rewrite <- L4 at 1; apply firstn_app_exact).
    assert (F2 : firstn 4 (be 4 (crc32c body') ++ body') = be 4 (crc32c body')) by (rewrite <- L4' at 1; apply firstn_app_exact).
    rewrite E in F1. rewrite E' in F2. rewrite <- Hbody in F2. rewrite <- F1 in F2.
    rewrite !firstn_app in F2. rewrite (firstn_all2 (n:=4) pre) in F2 by lia.
    destruct (4 - length pre)%nat as [|k] eqn:Ek; [lia|]. cbn [firstn] in F2.
    apply app_inv_head in F2. apply Hne. now injection F2.
  - (* the damaged byte lies in the checksummed part: the checksum fields are equal, the bodies one byte apart *)
    assert (F1 : firstn 4 (be 4 (crc32c body) ++ body) = be 4 (crc32c body)) by (rewrite <- L4 at 1; apply firstn_app_exact).
    assert (F2 : firstn 4 (be 4 (crc32c body') ++ body') = be 4 (crc32c body')) by (rewrite <- L4' at 1; apply firstn_app_exact).
    rewrite E in F1. rewrite E' in F2. rewrite firstn_app in F1, F2.
    replace (4 - length pre)%nat with O in F1, F2 by lia. cbn [firstn] in F1, F2. rewrite F1 in F2.
    apply be4_inj in F2; [|exact Hc|exact Hc'].
    assert (S1 : skipn 4 (be 4 (crc32c body) ++ body) = body) by (rewrite <- L4 at 1; apply skipn_app_exact).
    assert (S2 : skipn 4 (be 4 (crc32c body') ++ body') = body') by (rewrite <- L4' at 1; apply skipn_app_exact).
    rewrite E in S1. rewrite E' in S2. rewrite skipn_app in S1, S2.
    replace (4 - length pre)%nat with O in S1, S2 by lia. cbn [skipn] in S1, S2.
    rewrite <- S1, <- S2 in F2. rewrite <- S1 in Hb. rewrite <- S2 in Hb'.
    destruct (bytes_ok_app_inv _ _ Hb) as [Hp Hap]. destruct (bytes_ok_app_inv _ _ Hb') as [_ Hap'].
    inversion Hap as [|? ? Ha Hpost]; subst. inversion Hap' as [|? ? Ha' _]; subst.
    exact (crc32c_one_byte (skipn 4 pre) a a' post Hp Hpost Ha Ha' Hne F2).
Qed.

(* a record damaged in exactly one byte is never read back with its size unchanged - neither as the original message
   nor as any other; the read fails unless the damaged byte is one of the two length fields (and then the record read,
   if any, has another size) *)
Theorem single_byte_damage_detected b' pos m :
  bytes_ok b' -> 0 <= pos -> bytes_ok (enc_rec crc32c V2 m) ->
  differ_at_one (enc_rec crc32c V2 m) (sub b' pos (rec_size V2 m)) ->
  forall m' nxt, read_rec crc32c V2 b' pos = Ok (m', nxt) -> rec_size V2 m' <> rec_size V2 m.
Proof.
  intros Hok Hpos Hm Hd m' nxt Hr Hsz.
  destruct (read_rec_v2_sound crc32c b' pos m' nxt Hok Hpos Hr) as [_ Henc]. rewrite Hsz in Henc.
  rewrite Henc in Hd. apply (v2_records_never_one_byte_apart m m' Hm); [|exact Hd].
  rewrite <- Henc. now apply bytes_ok_sub.
Qed.
