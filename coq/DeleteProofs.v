(* DeleteProofs.v — C12 (and the delete half of C01/C02) on the model: log.Delete removes exactly the
   requested messages of the segment that holds the smallest requested offset, reports them with their full
   content and storage size, leaves every other message, NextOffset and the invariant untouched — in all
   structural outcomes (reader / head; same base, rebased, emptied, tail removed). *)
From KV Require Import Base Model ListAux SpecFacts SearchProofs SegProofs ReaderProofs Spec LogInv
     ConsumeProofs GetProofs AbsFacts PublishProofs.
From Coq Require Import ZifyBool ZifyNat.

(* ---------- increasing lists and filters *)

Lemma inc_filter (f : msg -> bool) l : inc l -> inc (filter f l).
Proof.
  induction l as [|m r IH]; intros Hi; [exact I|]. destruct Hi as [Hm Hr]. cbn [filter].
  destruct (f m); [|now apply IH]. split; [|now apply IH].
  intros x Hx. apply Hm. apply filter_In in Hx. tauto.
Qed.

Lemma inc_recs_sorted l : inc l -> recs_sorted l.
Proof.
  induction l as [|m r IH]; intros Hi i j a b Ha Hb Hij.
  - unfold znth in Ha. destruct (i <? 0); [discriminate|]. destruct (Z.to_nat i); discriminate.
  - destruct Hi as [Hm Hr]. pose proof (znth_some _ _ _ Ha). pose proof (znth_some _ _ _ Hb).
    cbn [map] in *. destruct (Z.eq_dec i 0) as [->|Hi0].
    + rewrite znth_0 in Ha. injection Ha as <-. rewrite znth_cons_pos in Hb by lia.
      rewrite znth_map in Hb. destruct (znth r (j - 1)) as [x|] eqn:Ex; [|discriminate]. cbn in Hb. injection Hb as <-.
      apply Hm. eapply znth_in; eauto.
    + rewrite znth_cons_pos in Ha, Hb by lia. apply (IH Hr (i - 1) (j - 1)); auto; lia.
Qed.

Lemma zmin_list_inc (l : list msg) m r : l = m :: r -> inc l -> zmin_list (map moff l) = moff m.
Proof.
  intros -> Hi. revert m Hi. induction r as [|x r IH]; intros m Hi; [reflexivity|].
  cbn [map zmin_list]. destruct Hi as [Hm Hr].
  change (match map moff r with [] => moff x | _ :: _ => Z.min (moff x) (zmin_list (map moff r)) end)
    with (zmin_list (map moff (x :: r))).
  assert (Hx : zmin_list (map moff (x :: r)) = moff x) by (apply IH; exact Hr).
  cbn [map] in Hx. cbn [map]. destruct (map moff r) eqn:E.
  - specialize (Hm x (or_introl eq_refl)). lia.
  - rewrite <- E in *. rewrite Hx. specialize (Hm x (or_introl eq_refl)). lia.
Qed.

(* ---------- what Delete computes inside the target segment *)

Definition del_of (offs : list Z) (recs : list msg) : list msg := filter (fun m => zmem (moff m) offs) recs.
Definition surv_of (offs : list Z) (recs : list msg) : list msg := filter (fun m => negb (zmem (moff m) offs)) recs.

Lemma remove_in_segment offs recs :
  inc recs ->
  filter (fun m => negb (existsb (fun d => moff d =? moff m) (del_of offs recs))) recs = surv_of offs recs.
Proof.
  intros _. unfold surv_of. apply filter_ext_in. intros m Hm. f_equal.
  destruct (zmem (moff m) offs) eqn:E.
  - apply existsb_exists. exists m. split; [|lia]. unfold del_of. apply filter_In. tauto.
  - destruct (existsb (fun d => moff d =? moff m) (del_of offs recs)) eqn:E2; [|reflexivity].
    apply existsb_exists in E2. destruct E2 as (d & Hd & Heq). unfold del_of in Hd. apply filter_In in Hd.
    destruct Hd as [_ Hz]. replace (moff d) with (moff m) in Hz by lia. congruence.
Qed.

Lemma remove_elsewhere (deleted other : list msg) :
  (forall d x, In d deleted -> In x other -> moff d <> moff x) -> remove_msgs other deleted = other.
Proof.
  intros Hd. unfold remove_msgs. apply filter_all_true. intros x Hx.
  destruct (existsb (fun d => moff d =? moff x) deleted) eqn:E; [|reflexivity].
  apply existsb_exists in E. destruct E as (d & Hdin & Heq). specialize (Hd d x Hdin Hx). lia.
Qed.

Lemma remove_msgs_app a b del : remove_msgs (a ++ b) del = remove_msgs a del ++ remove_msgs b del.
Proof. unfold remove_msgs. apply filter_app. Qed.


(* ---------- last elements and filters *)

Lemma last_opt_filter_keep {A} (f : A -> bool) (l : list A) x :
  last_opt l = Some x -> f x = true -> last_opt (filter f l) = Some x.
Proof.
  intros Hl Hf. assert (Hne : l <> []) by (destruct l; [discriminate|discriminate]).
  destruct (@exists_last _ l Hne) as (l' & y & ->). rewrite last_opt_app in Hl. injection Hl as ->.
  rewrite filter_app. cbn [filter]. rewrite Hf. apply last_opt_app.
Qed.

Lemma replace_nth_app {A} (a : list A) x b y : replace_nth (length a) (a ++ x :: b) y = a ++ y :: b.
Proof. induction a as [|z a IH]; cbn; [reflexivity|]. now rewrite IH. Qed.

Lemma firstn_split_exact {A} (pre : list A) x post : firstn (length pre) (pre ++ x :: post) = pre.
Proof. apply firstn_app_exact_l. Qed.

Section DeleteProofs.
Variable H : bytes -> Z.

(* ---------- the rewritten segment *)

Lemma rewritten_inv p mv survive m r :
  survive = m :: r -> inc survive -> (forall x, In x survive -> 0 <= moff x) ->
  seg_inv (rewritten H p mv mv survive) /\ sbase (rewritten H p mv mv survive) = moff m /\
  srecs (rewritten H p mv mv survive) = survive /\ head_inv (rewritten H p mv mv survive).
Proof.
  intros E Hi Hnn. unfold rewritten. cbn [sbase srecs].
  rewrite (zmin_list_inc survive m r E Hi).
  split; [|split; [reflexivity|split; [reflexivity|]]].
  - repeat split; cbn [srecs sbase sver sidx].
    + now apply inc_recs_sorted.
    + exact Hnn.
    + unfold first_is_base. cbn [srecs sbase]. rewrite E. reflexivity.
    + intros iv items Ei. injection Ei as <- <-. right. apply derive_from_match.
    + apply Hnn. rewrite E. left. reflexivity.
  - exists mv, (derive H p mv survive). split; [reflexivity|]. cbn [sver srecs]. apply derive_from_match.
Qed.

(* ---------- chains with a replaced / removed / appended segment *)

Lemma chain_ok_replace pre s post s' :
  chain_ok (pre ++ s :: post) ->
  sbase s <= sbase s' ->
  (post <> [] -> srecs s' <> [] /\ forall m, In m (srecs s') -> In m (srecs s)) ->
  (forall q, In q post -> sbase s' < sbase q) ->
  chain_ok (pre ++ s' :: post).
Proof.
  induction pre as [|a pre IH]; intros Hc Hb Hsub Hpost.
  - cbn [app] in *. destruct post as [|q post'].
    + cbn. tauto.
    + cbn [chain_ok] in Hc |- *. destruct Hc as [(Hlt & Hoff & Hne) Ht]. split; [|exact Ht].
      destruct (Hsub ltac:(discriminate)) as [Hne' Hin]. split; [apply Hpost; left; reflexivity|]. split; [|exact Hne'].
      intros m Hm. apply Hoff. now apply Hin.
  - cbn [app] in *. destruct pre as [|b pre'].
    + cbn [app] in *. cbn [chain_ok] in Hc |- *. destruct Hc as [(Hlt & Hoff & Hne) Ht]. split.
      * split; [lia|]. split; [|exact Hne]. intros m Hm. specialize (Hoff m Hm). lia.
      * apply (IH Ht); assumption.
    + cbn [app] in *. cbn [chain_ok] in Hc |- *. destruct Hc as [Hh Ht]. split; [exact Hh|]. apply (IH Ht); assumption.
Qed.

Lemma chain_ok_remove pre s post : chain_ok (pre ++ s :: post) -> chain_ok (pre ++ post).
Proof.
  induction pre as [|a pre IH]; intros Hc.
  - cbn [app] in *. eapply chain_ok_tail; eauto.
  - cbn [app] in *. destruct pre as [|b pre'].
    + cbn [app] in *. destruct post as [|q post']; [cbn; tauto|].
      cbn [chain_ok] in Hc |- *. destruct Hc as [(Hlt & Hoff & Hne) [(Hlt2 & Hoff2 & Hne2) Ht]].
      split; [|exact Ht]. split; [lia|]. split; [|exact Hne]. intros m Hm. specialize (Hoff m Hm). lia.
    + cbn [app] in *. cbn [chain_ok] in Hc |- *. destruct Hc as [Hh Ht]. split; [exact Hh|]. now apply IH.
Qed.

Lemma chain_ok_app_l pre l : chain_ok (pre ++ l) -> chain_ok pre.
Proof.
  induction pre as [|a pre IH]; intros Hc; [exact I|]. cbn [app] in Hc.
  destruct pre as [|b pre']; [cbn; tauto|]. cbn [app] in *. cbn [chain_ok] in Hc |- *.
  destruct Hc as [Hh Ht]. split; [exact Hh|]. now apply IH.
Qed.


(* ---------- log.Delete *)

Definition delete_post (st : lstate) (c : cfg) (offs : list Z) (st' : lstate) (deleted : list msg) (size : Z) : Prop :=
  Inv st' /\ opened st' = opened st /\
  anext (abs st') = anext (abs st) /\
  live (abs st') = remove_msgs (live (abs st)) deleted /\
  exists src, In src (segs st) /\ deleted = del_of offs (srecs src) /\
              size = deleted_size (cparams c) (sver src) deleted.

Lemma Forall_split {A} (P : A -> Prop) pre x post : Forall P (pre ++ x :: post) -> Forall P pre /\ P x /\ Forall P post.
Proof. intros HF. apply Forall_app in HF. destruct HF as [Hp Hx]. inversion Hx; subst. tauto. Qed.

Lemma disjoint_pre pre s post d x :
  chain_ok (pre ++ s :: post) -> Forall seg_inv (pre ++ s :: post) ->
  In d (srecs s) -> In x (all_recs pre) -> moff d <> moff x.
Proof.
  intros Hc HF Hd Hx. pose proof (chain_pre_lt pre s post x Hc Hx).
  destruct (Forall_split _ _ _ _ HF) as (_ & Hs & _). pose proof (seg_offsets_ge_base s d Hs Hd). lia.
Qed.

Lemma disjoint_post pre s post d x :
  chain_ok (pre ++ s :: post) -> Forall seg_inv (pre ++ s :: post) ->
  In d (srecs s) -> In x (all_recs post) -> moff d <> moff x.
Proof.
  intros Hc HF Hd Hx. destruct (in_all_recs _ _ Hx) as (q & Hq & Hxq).
  apply chain_ok_app_r in Hc. pose proof (chain_offsets_lt s post q d Hc Hq Hd).
  destruct (Forall_split _ _ _ _ HF) as (_ & _ & Hpost). rewrite Forall_forall in Hpost.
  pose proof (seg_offsets_ge_base q x (Hpost q Hq) Hxq). lia.
Qed.

(* the abstract log after replacing the records of the target segment by its survivors *)
Lemma abs_after_delete pre s post offs :
  chain_ok (pre ++ s :: post) -> Forall seg_inv (pre ++ s :: post) ->
  all_recs pre ++ surv_of offs (srecs s) ++ all_recs post =
  remove_msgs (all_recs (pre ++ s :: post)) (del_of offs (srecs s)).
Proof.
  intros Hc HF. rewrite all_recs_app, all_recs_cons, !remove_msgs_app.
  destruct (Forall_split _ _ _ _ HF) as (_ & Hs & _).
  rewrite (remove_elsewhere _ (all_recs pre)).
  2:{ intros d x Hd Hx. unfold del_of in Hd. apply filter_In in Hd. eapply disjoint_pre; eauto. tauto. }
  rewrite (remove_elsewhere _ (all_recs post)).
  2:{ intros d x Hd Hx. unfold del_of in Hd. apply filter_In in Hd. eapply disjoint_post; eauto. tauto. }
  f_equal. f_equal. unfold remove_msgs. symmetry. apply remove_in_segment.
  apply recs_sorted_inc. destruct Hs as (Hsorted & _). exact Hsorted.
Qed.

Lemma surv_subset offs recs x : In x (surv_of offs recs) -> In x recs.
Proof. unfold surv_of. intros Hx. apply filter_In in Hx. tauto. Qed.

Theorem log_delete_ok st offs st' deleted size c :
  Inv st -> opened st = Some c ->
  log_delete H st offs = Ok (st', (deleted, size)) ->
  (deleted = [] /\ st' = st /\ size = 0) \/ delete_post st c offs st' deleted size.
Proof.
  intros HInv Hc. pose proof HInv as (Hne & HF & Hch & Hv & c' & Hc' & Hhead).
  rewrite Hc in Hc'. injection Hc' as <-.
  unfold log_delete, get_cfg. rewrite Hc. cbn [bind].
  destruct (cro c) eqn:Hro; [discriminate|]. specialize (Hhead eq_refl).
  destruct offs as [|o0 orest]; [intros E; injection E as <- <- <-; left; tauto|].
  set (offs := o0 :: orest) in *.
  destruct (zmin_list offs <? 0); [discriminate|].
  destruct (seg_get (bases (segs st)) (zmin_list offs)) as [i|e] eqn:Esg; [|discriminate]. cbn [bind].
  destruct (znth (segs st) i) as [src|] eqn:Esrc; [|discriminate].
  assert (Hsrc_inv : seg_inv src) by (eapply Forall_znth; eauto).
  rewrite (seg_inv_open_log src Hsrc_inv). cbn [bind].
  fold (del_of offs (srecs src)). fold (surv_of offs (srecs src)).
  set (mv := if ckeeprw c then sver src else cnewver c).
  destruct (del_of offs (srecs src)) as [|d0 dr] eqn:Edel; [intros E; injection E as <- <- <-; left; tauto|].
  rewrite <- Edel. set (deleted0 := del_of offs (srecs src)) in *.
  destruct (znth_split _ _ _ Esrc) as (pre & post & Hsplit & Hpre).
  assert (Hn : Z.to_nat i = length pre) by (unfold zlen in Hpre; lia).
  rewrite Hn.
  assert (Hsrc_in : In src (segs st)) by (rewrite Hsplit; apply in_or_app; right; left; reflexivity).
  rewrite Hsplit in HF, Hch.
  destruct (Forall_split _ _ _ _ HF) as (HFpre & _ & HFpost).
  pose proof (recs_sorted_inc (srecs src) (proj1 Hsrc_inv)) as Hinc.
  assert (Hsinc : inc (surv_of offs (srecs src))) by (apply inc_filter; exact Hinc).
  assert (Hsnn : forall x, In x (surv_of offs (srecs src)) -> 0 <= moff x).
  { intros x Hx. destruct Hsrc_inv as (_ & Hnn & _). apply Hnn. eapply surv_subset; eauto. }
  assert (Habs0 : live (abs st) = all_recs (pre ++ src :: post)) by (unfold abs; cbn; now rewrite Hsplit).
  assert (Hexists : exists s0, In s0 (segs st) /\ deleted0 = del_of offs (srecs s0) /\
                     deleted_size (cparams c) (sver src) deleted0 = deleted_size (cparams c) (sver s0) deleted0)
    by (exists src; tauto).
  destruct (is_last st i) eqn:Elast.
  - (* ---- the writing segment *)
    assert (Hpost : post = []).
    { unfold is_last in Elast. rewrite Hsplit, zlen_app, zlen_cons in Elast. destruct post; [reflexivity|].
      rewrite zlen_cons in Elast. pose proof (zlen_nonneg post). lia. }
    subst post. rewrite Hsplit. rewrite firstn_split_exact.
    assert (Ehd : last_opt (segs st) = Some src) by (rewrite Hsplit; apply last_opt_app).
    rewrite Ehd in Hhead.
    assert (Hnxt : idx_next src (head_items src) = recs_next src).
    { destruct Hhead as (iv & items & Hsi & Hm). unfold head_items. rewrite Hsi. apply idx_next_recs.
      apply seg_inv_seg_ok; assumption. }
    rewrite Hnxt.
    assert (Hanext : anext (abs st) = recs_next src) by (unfold abs, wnext; cbn; now rewrite Ehd).
    set (nh := new_head c (recs_next src)).
    assert (Hnh_inv : seg_inv nh).
    { unfold nh, new_head. repeat split; cbn.
      - intros a b x y Ha. unfold znth in Ha. destruct (a <? 0); [discriminate|]. destruct (Z.to_nat a); discriminate.
      - contradiction.
      - intros iv items E. injection E as <- <-. left. reflexivity.
      - now apply recs_next_nonneg. }
    assert (Hhnh : head_inv nh) by (exists (cnewver c), []; split; [reflexivity|split; reflexivity]).
    destruct (surv_of offs (srecs src)) as [|s0 sr] eqn:Esurv.
    + (* everything deleted: a fresh empty head at NextOffset *)
      intros E. injection E as <- <- <-. right. unfold delete_post.
      assert (Hch' : chain_ok (pre ++ [nh])).
      { apply (chain_ok_replace pre src [] nh Hch); [cbn; now apply recs_next_ge_base|congruence|intros q []]. }
      split.
      { split; [cbn; destruct pre; discriminate|]. split; [cbn; apply Forall_app; split; [assumption|constructor; [assumption|constructor]]|].
        split; [exact Hch'|]. split; [exact Hv|]. exists c. split; [cbn; first [reflexivity|exact Hc]|]. intros _. cbn [segs]. rewrite last_opt_app. exact Hhnh. }
      split; [cbn; first [reflexivity|symmetry; exact Hc|exact Hc]|].
      split; [rewrite Hanext; unfold abs, wnext; cbn [segs anext]; rewrite last_opt_app; reflexivity|].
      split; [|exact Hexists].
      rewrite Habs0. unfold deleted0. rewrite <- (abs_after_delete pre src [] offs Hch HF). rewrite Esurv.
      unfold abs. cbn [live segs]. rewrite !all_recs_app. unfold all_recs at 2 4. cbn. now rewrite !app_nil_r.
    + rewrite <- Esurv in Hsinc, Hsnn |- *.
      destruct (rewritten_inv (cparams c) mv (surv_of offs (srecs src)) s0 sr Esurv Hsinc Hsnn) as (Hrs_inv & Hrs_base & Hrs_recs & Hrs_head).
      set (rs := rewritten H (cparams c) mv mv (surv_of offs (srecs src))) in *.
      assert (Hs0 : In s0 (srecs src)) by (apply (surv_subset offs); rewrite Esurv; left; reflexivity).
      assert (Hbase_le : sbase src <= sbase rs) by (rewrite Hrs_base; now apply seg_offsets_ge_base).
      assert (Hch_rs : chain_ok (pre ++ [rs])).
      { apply (chain_ok_replace pre src [] rs Hch Hbase_le); [congruence|intros q []]. }
      destruct ((match last_opt deleted0 with Some m => moff m | None => -3 end) =? recs_next src - 1) eqn:Etail.
      * (* the newest message is deleted: survivors become a reader, fresh head at NextOffset *)
        intros E. injection E as <- <- <-. right. unfold delete_post.
        assert (Hch' : chain_ok ((pre ++ [rs]) ++ [nh])).
        { apply chain_ok_snoc; [exact Hch_rs| | |rewrite Hrs_recs, Esurv; discriminate].
          - cbn [sbase nh new_head]. rewrite Hrs_base. now apply recs_lt_next.
          - intros m Hm. rewrite Hrs_recs in Hm. cbn [sbase nh new_head]. apply recs_lt_next; [assumption|]. eapply surv_subset; eauto. }
        replace (pre ++ [rs; nh]) with ((pre ++ [rs]) ++ [nh]) by (rewrite <- app_assoc; reflexivity).
        split.
        { split; [cbn; destruct (pre ++ [rs]); discriminate|].
          split; [cbn; apply Forall_app; split; [apply Forall_app; split; [assumption|constructor; [assumption|constructor]]|constructor; [assumption|constructor]]|].
          split; [exact Hch'|]. split; [exact Hv|]. exists c. split; [cbn; first [reflexivity|exact Hc]|]. intros _. cbn [segs]. rewrite last_opt_app. exact Hhnh. }
        split; [cbn; first [reflexivity|symmetry; exact Hc|exact Hc]|].
        split; [rewrite Hanext; unfold abs, wnext; cbn [segs anext]; rewrite last_opt_app; reflexivity|].
        split; [|exact Hexists].
        rewrite Habs0. unfold deleted0. rewrite <- (abs_after_delete pre src [] offs Hch HF).
        unfold abs. cbn [live segs]. rewrite !all_recs_app, !all_recs_cons. rewrite Hrs_recs.
        unfold all_recs at 2 3. cbn. now rewrite !app_nil_r.
      * (* the newest message survives: the rewritten segment stays the head *)
        intros E. injection E as <- <- <-. right. unfold delete_post.
        (* the last record is not deleted, so it is the last survivor *)
        assert (Hrne : srecs src <> []) by (destruct (srecs src); [discriminate|discriminate]).
        destruct (last_opt (srecs src)) as [ml|] eqn:Eml; [|apply last_opt_none in Eml; congruence].
        assert (Hrn : recs_next src = moff ml + 1) by (unfold recs_next; now rewrite Eml).
        assert (Hml_surv : zmem (moff ml) offs = false).
        { destruct (zmem (moff ml) offs) eqn:Ez; [|reflexivity]. exfalso.
          assert (Hld : last_opt deleted0 = Some ml) by (apply last_opt_filter_keep; assumption).
          rewrite Hld in Etail. lia. }
        assert (Hls : last_opt (surv_of offs (srecs src)) = Some ml).
        { apply last_opt_filter_keep; [assumption|]. now rewrite Hml_surv. }
        assert (Hrn' : recs_next rs = recs_next src).
        { unfold recs_next at 1. rewrite Hrs_recs, Hls. lia. }
        split.
        { split; [cbn; destruct pre; discriminate|].
          split; [cbn; apply Forall_app; split; [assumption|constructor; [assumption|constructor]]|].
          split; [exact Hch_rs|]. split; [exact Hv|]. exists c. split; [cbn; first [reflexivity|exact Hc]|]. intros _. cbn [segs]. rewrite last_opt_app. exact Hrs_head. }
        split; [cbn; first [reflexivity|symmetry; exact Hc|exact Hc]|].
        split; [rewrite Hanext; unfold abs, wnext; cbn [segs anext]; rewrite last_opt_app; exact Hrn'|].
        split; [|exact Hexists].
        rewrite Habs0. unfold deleted0. rewrite <- (abs_after_delete pre src [] offs Hch HF).
        unfold abs. cbn [live segs]. rewrite !all_recs_app, !all_recs_cons. rewrite Hrs_recs.
        unfold all_recs at 2. cbn. now rewrite !app_nil_r.
  - (* ---- a reader segment *)
    assert (Hpost : post <> []).
    { intro E. subst post. unfold is_last in Elast. rewrite Hsplit, zlen_app in Elast. unfold zlen at 2 in Elast. cbn in Elast. lia. }
    assert (Ehd : last_opt (segs st) = last_opt post).
    { rewrite Hsplit. rewrite last_opt_app2 by discriminate. destruct post as [|q post']; [congruence|]. apply last_opt_cons_cons. }
    assert (Hanext : forall l, last_opt l = last_opt post ->
              anext (abs (set_segs st l)) = anext (abs st)).
    { intros l Hl. unfold abs, wnext. cbn [segs set_segs anext]. now rewrite Hl, Ehd. }
    rewrite Hsplit.
    destruct (surv_of offs (srecs src)) as [|s0 sr] eqn:Esurv.
    + (* the whole segment is deleted *)
      rewrite firstn_split_exact.
      replace (skipn (S (length pre)) (pre ++ src :: post)) with post
        by (replace (S (length pre)) with (length (pre ++ [src])) by (rewrite app_length; cbn; lia);
            replace (pre ++ src :: post) with ((pre ++ [src]) ++ post) by (rewrite <- app_assoc; reflexivity);
            now rewrite skipn_app_exact_l).
      intros E. injection E as <- <- <-. right. unfold delete_post.
      assert (Hl : last_opt (pre ++ post) = last_opt post) by (apply last_opt_app2; assumption).
      split.
      { split; [cbn; destruct pre, post; try discriminate; congruence|].
        split; [cbn; apply Forall_app; split; assumption|].
        split; [cbn; eapply chain_ok_remove; eauto|]. split; [exact Hv|].
        exists c. split; [exact Hc|]. intros _. cbn [segs set_segs]. rewrite Hl, <- Ehd. exact Hhead. }
      split; [reflexivity|]. split; [now apply Hanext|]. split; [|exact Hexists].
      rewrite Habs0. unfold deleted0. rewrite <- (abs_after_delete pre src post offs Hch HF). rewrite Esurv.
      unfold abs. cbn [live segs set_segs]. now rewrite all_recs_app.
    + rewrite <- Esurv in Hsinc, Hsnn |- *. rewrite replace_nth_app.
      destruct (rewritten_inv (cparams c) mv (surv_of offs (srecs src)) s0 sr Esurv Hsinc Hsnn) as (Hrs_inv & Hrs_base & Hrs_recs & Hrs_head).
      set (rs := rewritten H (cparams c) mv mv (surv_of offs (srecs src))) in *.
      assert (Hs0 : In s0 (srecs src)) by (apply (surv_subset offs); rewrite Esurv; left; reflexivity).
      intros E. injection E as <- <- <-. right. unfold delete_post.
      assert (Hl : last_opt (pre ++ rs :: post) = last_opt post).
      { rewrite last_opt_app2 by discriminate. destruct post as [|q post']; [congruence|]. apply last_opt_cons_cons. }
      split.
      { split; [cbn; destruct pre; discriminate|].
        split; [cbn; apply Forall_app; split; [assumption|constructor; assumption]|].
        split.
        { cbn. apply (chain_ok_replace pre src post rs Hch).
          - rewrite Hrs_base. now apply seg_offsets_ge_base.
          - intros _. rewrite Hrs_recs. split; [rewrite Esurv; discriminate|intros m Hm; eapply surv_subset; eauto].
          - intros q Hq. rewrite Hrs_base. apply chain_ok_app_r in Hch. eapply chain_offsets_lt; eauto. }
        split; [exact Hv|]. exists c. split; [exact Hc|]. intros _. cbn [segs set_segs]. rewrite Hl, <- Ehd. exact Hhead. }
      split; [reflexivity|]. split; [now apply Hanext|]. split; [|exact Hexists].
      rewrite Habs0. unfold deleted0. rewrite <- (abs_after_delete pre src post offs Hch HF).
      unfold abs. cbn [live segs set_segs]. rewrite all_recs_app, all_recs_cons. now rewrite Hrs_recs.
Qed.


(* ---------- the result is accepted by the L0 checker *)

Lemma inc_nodup_offs l : inc l -> nodup_offs l = true.
Proof.
  induction l as [|m r IH]; intros Hi; [reflexivity|]. destruct Hi as [Hm Hr]. cbn [nodup_offs].
  rewrite (IH Hr), andb_true_r.
  destruct (existsb (fun x => moff x =? moff m) r) eqn:E; [|reflexivity].
  apply existsb_exists in E. destruct E as (x & Hx & Heq). specialize (Hm x Hx). lia.
Qed.

Lemma sum_sizes_deleted p v ms :
  sum_sizes (item_size p) ms (map (fun _ => v) ms) = Some (deleted_size p v ms).
Proof.
  induction ms as [|m r IH]; [reflexivity|]. cbn [map sum_sizes deleted_size fold_right].
  fold (deleted_size p v r). rewrite IH. unfold rec_size, rec_overhead, overhead. destruct v; apply f_equal; lia.
Qed.

Lemma mem_msg_in m l : In m l -> mem_msg m l = true.
Proof. intros Hin. unfold mem_msg. apply existsb_exists. exists m. split; [assumption|apply msg_eqb_refl]. Qed.

Theorem log_delete_checker st offs st' deleted size c :
  Inv st -> opened st = Some c -> offs <> [] ->
  log_delete H st offs = Ok (st', (deleted, size)) ->
  exists v, check_delete (abs st) (item_size (cparams c)) offs
                         (OOk (size, map (fun _ => v) deleted, deleted)) = true.
Proof.
  intros HInv Hc Hoffs Hd.
  assert (Hmin : (zmin_list offs <? 0) = false).
  { unfold log_delete, get_cfg in Hd. rewrite Hc in Hd. cbn [bind] in Hd. destruct (cro c); [discriminate|].
    destruct offs; [congruence|]. destruct (zmin_list (z :: offs) <? 0); [discriminate|reflexivity]. }
  destruct (log_delete_ok st offs st' deleted size c HInv Hc Hd) as [(-> & _ & ->)|Hpost].
  - exists V2. unfold check_delete. destruct offs; [congruence|]. rewrite Hmin. reflexivity.
  - destruct Hpost as (_ & _ & _ & _ & src & Hsrc & Hdel & Hsize). exists (sver src).
    unfold check_delete. destruct offs as [|o0 orest] eqn:Eo; [congruence|]. rewrite <- Eo in *. rewrite Hmin.
    pose proof HInv as (_ & HF & _).
    assert (Hsi : seg_inv src) by (rewrite Forall_forall in HF; now apply HF).
    assert (Hincd : inc deleted).
    { rewrite Hdel. unfold del_of. apply inc_filter. apply recs_sorted_inc. destruct Hsi as (Hs & _). exact Hs. }
    rewrite (inc_nodup_offs deleted Hincd). rewrite Hsize, sum_sizes_deleted, Z.eqb_refl, !andb_true_r.
    apply forallb_forall. intros m Hm. rewrite Hdel in Hm. unfold del_of in Hm. apply filter_In in Hm.
    destruct Hm as [Hin Hz]. rewrite Hz, andb_true_r. apply mem_msg_in.
    unfold abs. cbn [live]. unfold all_recs. apply in_concat. exists (srecs src). split; [now apply in_map|assumption].
Qed.

(* relative offsets are rejected, the empty set is a no-op, read-only handles refuse *)
Theorem log_delete_relative st offs c :
  opened st = Some c -> cro c = false -> offs <> [] -> zmin_list offs < 0 ->
  log_delete H st offs = Err EDeleteRelative.
Proof.
  intros Hc Hro Hne Hmin. unfold log_delete, get_cfg. rewrite Hc. cbn [bind]. rewrite Hro.
  destruct offs; [congruence|]. destruct (zmin_list (z :: offs) <? 0) eqn:E; [reflexivity|lia].
Qed.

Theorem log_delete_empty st c :
  opened st = Some c -> cro c = false -> log_delete H st [] = Ok (st, ([], 0)).
Proof. intros Hc Hro. unfold log_delete, get_cfg. rewrite Hc. cbn [bind]. now rewrite Hro. Qed.

End DeleteProofs.
