(* NotifyProofs.v — C18: invariants of the notifier for any number of threads and any interleaving. *)
From KV Require Import Base Notify.
From Coq Require Import ZifyBool ZifyNat.

(* ---------- list update *)

Lemma nth_set_nth_eq {A} (l : list A) i x : (i < length l)%nat -> nth_error (set_nth i l x) i = Some x.
Proof. revert i; induction l as [|a l IH]; intros [|i] Hl; cbn in *; try lia; auto. apply IH. lia. Qed.

Lemma nth_set_nth_neq {A} (l : list A) i j x : i <> j -> nth_error (set_nth i l x) j = nth_error l j.
Proof. revert i j; induction l as [|a l IH]; intros [|i] [|j] Hne; cbn; auto; try congruence. Qed.

Lemma nth_error_lt {A} (l : list A) i x : nth_error l i = Some x -> (i < length l)%nat.
Proof. intros Hn. apply nth_error_Some. congruence. Qed.

(* ---------- what a program counter holds *)

Definition holds (p : pc) : bool :=
  match p with W2 _ _ | W3 _ _ _ | S1 _ _ | S2 _ | S3 | C1 _ | C2 => true | _ => false end.

Definition carries (p : pc) : option nat :=
  match p with W2 _ b | W3 _ b _ | S1 _ b | S2 b | C1 b => Some b | _ => None end.

Definition mentions (p : pc) : option nat :=
  match p with W4 _ b => Some b | _ => carries p end.

(* the broadcast channel currently in circulation *)
Definition cur (s : nstate) (b : nat) : Prop :=
  tok s = InChan b \/ exists i p, tok s = Held i /\ nth_error (threads s) i = Some p /\ carries p = Some b.

(* the token holder is about to close b (a Set after its store, or a Close) *)
Definition closing (s : nstate) (b : nat) : Prop :=
  exists i, tok s = Held i /\ (nth_error (threads s) i = Some (S2 b) \/ nth_error (threads s) i = Some (C1 b)).

Definition wait_ok (s : nstate) (p : pc) : Prop :=
  match p with
  | W4 off b => is_closed s b = false -> cur s b /\ (nxt s <= off \/ closing s b)
  | W3 off b false => nxt s <= off
  | _ => True
  end.

Record ninv (s : nstate) : Prop := mkNinv {
  inv_holder : forall i p, nth_error (threads s) i = Some p -> (holds p = true <-> tok s = Held i);
  inv_chan   : forall b, tok s = InChan b -> (b < fresh s)%nat /\ is_closed s b = false;
  inv_closed : forall b, is_closed s b = true -> (b < fresh s)%nat;
  inv_ment   : forall i p b, nth_error (threads s) i = Some p -> mentions p = Some b -> (b < fresh s)%nat;
  inv_carry  : forall i p b, nth_error (threads s) i = Some p -> carries p = Some b -> is_closed s b = false;
  inv_wait   : forall i p, nth_error (threads s) i = Some p -> wait_ok s p
}.

(* a well-formed start: every thread at the entry of its call *)
Definition entry (p : pc) : bool :=
  match p with W0 _ | S0 _ | C0 => true | _ => false end.

Lemma ninit_inv next ts : forallb entry ts = true -> ninv (ninit next ts).
Proof.
  intros Hall. assert (Hp : forall i p, nth_error ts i = Some p -> entry p = true).
  { intros i p Hn. rewrite forallb_forall in Hall. apply Hall. eapply nth_error_In; eauto. }
  constructor; cbn [ninit threads tok fresh closed nxt].
  - intros i p Hn. specialize (Hp i p Hn). destruct p; cbn in *; try discriminate; split; discriminate.
  - intros b E. injection E as <-. split; [lia|reflexivity].
  - intros b E. discriminate.
  - intros i p b Hn Hm. specialize (Hp i p Hn). destruct p; cbn in *; discriminate.
  - intros i p b Hn Hm. specialize (Hp i p Hn). destruct p; cbn in *; discriminate.
  - intros i p Hn. specialize (Hp i p Hn). destruct p; cbn in *; try discriminate; exact I.
Qed.

(* ---------- uniqueness of the current channel *)

Lemma cur_unique s b b' : ninv s -> cur s b -> cur s b' -> b = b'.
Proof.
  intros _ [E|(i & p & Et & Hn & Hc)] [E'|(i' & p' & Et' & Hn' & Hc')]; try congruence.
Qed.

Lemma is_closed_cons s b x :
  existsb (Nat.eqb b) (x :: closed s) = Nat.eqb b x || is_closed s b.
Proof. reflexivity. Qed.


Lemma thread_cases {A} (l : list A) i x j q :
  (i < length l)%nat -> nth_error (set_nth i l x) j = Some q ->
  (j = i /\ q = x) \/ (j <> i /\ nth_error l j = Some q).
Proof.
  intros Hl Hn. destruct (Nat.eq_dec j i) as [->|Hne].
  - rewrite nth_set_nth_eq in Hn by assumption. injection Hn as <-. left. tauto.
  - rewrite nth_set_nth_neq in Hn by congruence. right. tauto.
Qed.

(* cur / closing only look at the token and at the holder's program counter *)
Lemma cur_frame s s' b :
  tok s' = tok s ->
  (forall j, tok s = Held j -> nth_error (threads s') j = nth_error (threads s) j) ->
  cur s b -> cur s' b.
Proof.
  intros Et Hth [E|(j & p & Ej & Hn & Hc)]; [left; congruence|].
  right. exists j, p. split; [congruence|]. split; [rewrite (Hth j Ej); exact Hn|exact Hc].
Qed.

Lemma closing_frame s s' b :
  tok s' = tok s ->
  (forall j, tok s = Held j -> nth_error (threads s') j = nth_error (threads s) j) ->
  closing s b -> closing s' b.
Proof.
  intros Et Hth (j & Ej & Hn). exists j. split; [congruence|]. rewrite (Hth j Ej). exact Hn.
Qed.

(* ---------- 1. a step of a thread that does not hold the token and only changes its own pc *)
Lemma step_local s i p p' :
  ninv s -> nth_error (threads s) i = Some p ->
  holds p = false -> holds p' = false -> mentions p' = None ->
  (match p' with W4 _ _ | W3 _ _ _ => False | _ => True end) ->
  ninv (upd s i p').
Proof.
  intros HI Hn Hp Hp' Hm Hshape. pose proof (nth_error_lt _ _ _ Hn) as Hl.
  assert (Hni : tok s <> Held i).
  { intro E. apply (inv_holder s HI i p Hn) in E. congruence. }
  assert (Hframe : forall j, tok s = Held j -> nth_error (threads (upd s i p')) j = nth_error (threads s) j).
  { intros j Ej. cbn. apply nth_set_nth_neq. congruence. }
  constructor; cbn [upd threads tok fresh closed nxt].
  - intros j q Hq. destruct (thread_cases _ _ _ _ _ Hl Hq) as [[-> ->]|[Hne Hq']].
    + split; [congruence|]. intros E. congruence.
    + apply (inv_holder s HI j q Hq').
  - apply (inv_chan s HI).
  - apply (inv_closed s HI).
  - intros j q b Hq Hmq. destruct (thread_cases _ _ _ _ _ Hl Hq) as [[-> ->]|[Hne Hq']]; [congruence|].
    apply (inv_ment s HI j q b Hq' Hmq).
  - intros j q b Hq Hc. destruct (thread_cases _ _ _ _ _ Hl Hq) as [[-> ->]|[Hne Hq']].
    + destruct p'; cbn in *; congruence.
    + apply (inv_carry s HI j q b Hq' Hc).
  - intros j q Hq. destruct (thread_cases _ _ _ _ _ Hl Hq) as [[-> ->]|[Hne Hq']].
    + destruct p'; cbn in *; try exact I; contradiction.
    + pose proof (inv_wait s HI j q Hq') as Hw. destruct q; cbn in *; try exact I.
      * destruct u; [exact I|exact Hw].
      * intros Hc. destruct (Hw Hc) as [Hcur Hor]. split.
        -- apply (cur_frame s (upd s i p')); [reflexivity|exact Hframe|exact Hcur].
        -- destruct Hor as [Hle|Hcl]; [left; exact Hle|right].
           apply (closing_frame s (upd s i p')); [reflexivity|exact Hframe|exact Hcl].
Qed.

(* ---------- 2. taking the token out of the barrier channel *)
Lemma step_acquire s i p p' b :
  ninv s -> nth_error (threads s) i = Some p -> tok s = InChan b ->
  holds p = false -> holds p' = true -> carries p' = Some b ->
  (match p' with W3 _ _ _ => False | _ => True end) ->
  ninv (mkN (nxt s) (Held i) (closed s) (fresh s) (set_nth i (threads s) p')).
Proof.
  intros HI Hn Et Hp Hp' Hc Hshape. pose proof (nth_error_lt _ _ _ Hn) as Hl.
  destruct (inv_chan s HI b Et) as [Hbf Hbc].
  constructor; cbn [threads tok fresh closed nxt].
  - intros j q Hq. destruct (thread_cases _ _ _ _ _ Hl Hq) as [[-> ->]|[Hne Hq']].
    + split; [reflexivity|intros _; exact Hp'].
    + split.
      * intros Hh. apply (inv_holder s HI j q Hq') in Hh. congruence.
      * intros E. injection E as ->. congruence.
  - intros b' E. discriminate.
  - apply (inv_closed s HI).
  - intros j q b' Hq Hmq. destruct (thread_cases _ _ _ _ _ Hl Hq) as [[-> ->]|[Hne Hq']].
    + assert (b' = b) by (destruct p'; cbn in *; congruence). subst. exact Hbf.
    + apply (inv_ment s HI j q b' Hq' Hmq).
  - intros j q b' Hq Hcq. destruct (thread_cases _ _ _ _ _ Hl Hq) as [[-> ->]|[Hne Hq']].
    + assert (b' = b) by congruence. subst. exact Hbc.
    + apply (inv_carry s HI j q b' Hq' Hcq).
  - intros j q Hq. destruct (thread_cases _ _ _ _ _ Hl Hq) as [[-> ->]|[Hne Hq']].
    + destruct p'; cbn in *; try exact I; try discriminate; contradiction.
    + pose proof (inv_wait s HI j q Hq') as Hw. destruct q; cbn in *; try exact I.
      * destruct u; [exact I|exact Hw].
      * intros Hcl. destruct (Hw Hcl) as [Hcur Hor]. unfold is_closed in *. cbn [closed] in *.
        assert (b0 = b).
        { destruct Hcur as [E|(k & r & Ek & _)]; [congruence|congruence]. }
        subst b0. split.
        -- right. exists i, p'. cbn [tok threads]. split; [reflexivity|]. split; [apply nth_set_nth_eq; exact Hl|exact Hc].
        -- left. destruct Hor as [Hle|(k & Ek & _)]; [exact Hle|congruence].
Qed.

(* the holder's pc and what the others may conclude from it *)
Lemma holder_pc s i p : ninv s -> nth_error (threads s) i = Some p -> holds p = true -> tok s = Held i.
Proof. intros HI Hn Hh. now apply (inv_holder s HI i p Hn). Qed.

Lemma not_closing s i p b : ninv s -> nth_error (threads s) i = Some p -> holds p = true ->
  (forall b', p <> S2 b' /\ p <> C1 b') -> ~ closing s b.
Proof.
  intros HI Hn Hh Hne (j & Ej & Hj). rewrite (holder_pc s i p HI Hn Hh) in Ej. injection Ej as <-.
  destruct Hj as [Hj|Hj]; rewrite Hn in Hj; injection Hj as ->; destruct (Hne b); congruence.
Qed.

(* cur with the holder's pc replaced by one that carries the same channel *)
Lemma cur_holder s i p b :
  ninv s -> nth_error (threads s) i = Some p -> holds p = true -> cur s b -> carries p = Some b.
Proof.
  intros HI Hn Hh [E|(j & q & Ej & Hq & Hc)].
  - rewrite (holder_pc s i p HI Hn Hh) in E. discriminate.
  - rewrite (holder_pc s i p HI Hn Hh) in Ej. injection Ej as <-. rewrite Hn in Hq. injection Hq as <-. exact Hc.
Qed.

(* ---------- 3. probe: W2 -> W3 *)
Lemma step_w2 s i off b :
  ninv s -> nth_error (threads s) i = Some (W2 off b) ->
  ninv (upd s i (W3 off b (off <? nxt s))).
Proof.
  intros HI Hn. pose proof (nth_error_lt _ _ _ Hn) as Hl.
  pose proof (holder_pc s i _ HI Hn eq_refl) as Et.
  constructor; cbn [upd threads tok fresh closed nxt].
  - intros j q Hq. destruct (thread_cases _ _ _ _ _ Hl Hq) as [[-> ->]|[Hne Hq']].
    + split; [intros _; exact Et|reflexivity].
    + apply (inv_holder s HI j q Hq').
  - apply (inv_chan s HI).
  - apply (inv_closed s HI).
  - intros j q b' Hq Hmq. destruct (thread_cases _ _ _ _ _ Hl Hq) as [[-> ->]|[Hne Hq']].
    + apply (inv_ment s HI i _ b' Hn). exact Hmq.
    + apply (inv_ment s HI j q b' Hq' Hmq).
  - intros j q b' Hq Hc. destruct (thread_cases _ _ _ _ _ Hl Hq) as [[-> ->]|[Hne Hq']].
    + apply (inv_carry s HI i _ b' Hn). exact Hc.
    + apply (inv_carry s HI j q b' Hq' Hc).
  - intros j q Hq. destruct (thread_cases _ _ _ _ _ Hl Hq) as [[-> ->]|[Hne Hq']].
    + cbn. destruct (off <? nxt s) eqn:E; [exact I|lia].
    + pose proof (inv_wait s HI j q Hq') as Hw. destruct q; cbn in *; try exact I.
      * destruct u; [exact I|exact Hw].
      * intros Hc. destruct (Hw Hc) as [Hcur Hor].
        pose proof (cur_holder s i _ b0 HI Hn eq_refl Hcur) as Hcb. cbn in Hcb. injection Hcb as <-.
        split.
        -- right. exists i, (W3 off b (off <? nxt s)). cbn [tok threads upd]. split; [exact Et|].
           split; [apply nth_set_nth_eq; exact Hl|reflexivity].
        -- destruct Hor as [Hle|Hcl]; [left; exact Hle|].
           exfalso. apply (not_closing s i _ b HI Hn eq_refl); [intros b'; split; discriminate|exact Hcl].
Qed.

(* ---------- 4. handing the token back: W3 -> WOk / W4 *)
Lemma step_w3 s i off b u :
  ninv s -> nth_error (threads s) i = Some (W3 off b u) ->
  ninv (mkN (nxt s) (InChan b) (closed s) (fresh s) (set_nth i (threads s) (if u then WOk off else W4 off b))).
Proof.
  intros HI Hn. pose proof (nth_error_lt _ _ _ Hn) as Hl.
  pose proof (holder_pc s i _ HI Hn eq_refl) as Et.
  pose proof (inv_ment s HI i _ b Hn eq_refl) as Hbf.
  pose proof (inv_carry s HI i _ b Hn eq_refl) as Hbc.
  pose proof (inv_wait s HI i _ Hn) as Hwi.
  constructor; cbn [threads tok fresh closed nxt].
  - intros j q Hq. destruct (thread_cases _ _ _ _ _ Hl Hq) as [[-> ->]|[Hne Hq']].
    + split; [destruct u; discriminate|discriminate].
    + split; [|discriminate]. intros Hh. apply (inv_holder s HI j q Hq') in Hh. congruence.
  - intros b' E. injection E as <-. split; assumption.
  - apply (inv_closed s HI).
  - intros j q b' Hq Hmq. destruct (thread_cases _ _ _ _ _ Hl Hq) as [[-> ->]|[Hne Hq']].
    + destruct u; cbn in Hmq; [discriminate|]. injection Hmq as <-. exact Hbf.
    + apply (inv_ment s HI j q b' Hq' Hmq).
  - intros j q b' Hq Hc. destruct (thread_cases _ _ _ _ _ Hl Hq) as [[-> ->]|[Hne Hq']].
    + destruct u; discriminate.
    + (* nobody else carries a channel while i holds the token *)
      exfalso. assert (Hh : holds q = true) by (destruct q; cbn in *; try discriminate; reflexivity).
      apply (inv_holder s HI j q Hq') in Hh. congruence.
  - intros j q Hq. destruct (thread_cases _ _ _ _ _ Hl Hq) as [[-> ->]|[Hne Hq']].
    + destruct u; cbn; [exact I|]. intros _. split; [left; reflexivity|left; exact Hwi].
    + pose proof (inv_wait s HI j q Hq') as Hw. destruct q; cbn in *; try exact I.
      * destruct u0; [exact I|exact Hw].
      * intros Hc. destruct (Hw Hc) as [Hcur Hor].
        pose proof (cur_holder s i _ b0 HI Hn eq_refl Hcur) as Hcb. cbn in Hcb. injection Hcb as <-.
        split; [left; reflexivity|]. destruct Hor as [Hle|Hcl]; [left; exact Hle|].
        exfalso. apply (not_closing s i _ b HI Hn eq_refl); [intros b'; split; discriminate|exact Hcl].
Qed.

(* ---------- 5. the store of Set: S1 -> S2 *)
Lemma step_s1 s i v b :
  ninv s -> nth_error (threads s) i = Some (S1 v b) ->
  ninv (mkN (if nxt s <? v then v else nxt s) (tok s) (closed s) (fresh s) (set_nth i (threads s) (S2 b))).
Proof.
  intros HI Hn. pose proof (nth_error_lt _ _ _ Hn) as Hl.
  pose proof (holder_pc s i _ HI Hn eq_refl) as Et.
  constructor; cbn [threads tok fresh closed nxt].
  - intros j q Hq. destruct (thread_cases _ _ _ _ _ Hl Hq) as [[-> ->]|[Hne Hq']].
    + split; [intros _; exact Et|reflexivity].
    + apply (inv_holder s HI j q Hq').
  - apply (inv_chan s HI).
  - apply (inv_closed s HI).
  - intros j q b' Hq Hmq. destruct (thread_cases _ _ _ _ _ Hl Hq) as [[-> ->]|[Hne Hq']].
    + apply (inv_ment s HI i _ b' Hn). exact Hmq.
    + apply (inv_ment s HI j q b' Hq' Hmq).
  - intros j q b' Hq Hc. destruct (thread_cases _ _ _ _ _ Hl Hq) as [[-> ->]|[Hne Hq']].
    + apply (inv_carry s HI i _ b' Hn). exact Hc.
    + apply (inv_carry s HI j q b' Hq' Hc).
  - intros j q Hq. destruct (thread_cases _ _ _ _ _ Hl Hq) as [[-> ->]|[Hne Hq']]; [exact I|].
    pose proof (inv_wait s HI j q Hq') as Hw. destruct q; cbn in *; try exact I.
    + (* another thread at W3 would hold the token too *)
      exfalso. assert (Hh : tok s = Held j) by (apply (inv_holder s HI j _ Hq'); reflexivity). congruence.
    + intros Hc. unfold is_closed in *. cbn [closed] in *. destruct (Hw Hc) as [Hcur Hor].
      pose proof (cur_holder s i _ b0 HI Hn eq_refl Hcur) as Hcb. cbn in Hcb. injection Hcb as <-.
      split.
      * right. exists i, (S2 b). cbn [tok threads]. split; [exact Et|]. split; [apply nth_set_nth_eq; exact Hl|reflexivity].
      * right. exists i. cbn [tok threads]. split; [exact Et|]. left. apply nth_set_nth_eq. exact Hl.
Qed.

(* ---------- 6. closing the broadcast channel: S2 -> S3, C1 -> C2 *)
Lemma step_close s i p p' b :
  ninv s -> nth_error (threads s) i = Some p -> (p = S2 b /\ p' = S3) \/ (p = C1 b /\ p' = C2) ->
  ninv (mkN (nxt s) (tok s) (b :: closed s) (fresh s) (set_nth i (threads s) p')).
Proof.
  intros HI Hn Hpp. pose proof (nth_error_lt _ _ _ Hn) as Hl.
  assert (Hh : holds p = true) by (destruct Hpp as [[-> _]|[-> _]]; reflexivity).
  assert (Hh' : holds p' = true) by (destruct Hpp as [[_ ->]|[_ ->]]; reflexivity).
  assert (Hcp : carries p = Some b) by (destruct Hpp as [[-> _]|[-> _]]; reflexivity).
  assert (Hcp' : mentions p' = None) by (destruct Hpp as [[_ ->]|[_ ->]]; reflexivity).
  pose proof (holder_pc s i _ HI Hn Hh) as Et.
  pose proof (inv_ment s HI i p b Hn) as Hbf.
  assert (Hbf' : (b < fresh s)%nat) by (apply Hbf; destruct Hpp as [[-> _]|[-> _]]; reflexivity).
  constructor; cbn [threads tok fresh closed nxt]; unfold is_closed; cbn [closed existsb].
  - intros j q Hq. destruct (thread_cases _ _ _ _ _ Hl Hq) as [[-> ->]|[Hne Hq']].
    + split; [intros _; exact Et|intros _; exact Hh'].
    + apply (inv_holder s HI j q Hq').
  - intros b' E. rewrite Et in E. discriminate.
  - intros b' E. apply orb_prop in E. destruct E as [E|E].
    + apply Nat.eqb_eq in E. subst. exact Hbf'.
    + apply (inv_closed s HI b' E).
  - intros j q b' Hq Hmq. destruct (thread_cases _ _ _ _ _ Hl Hq) as [[-> ->]|[Hne Hq']]; [congruence|].
    apply (inv_ment s HI j q b' Hq' Hmq).
  - intros j q b' Hq Hc. destruct (thread_cases _ _ _ _ _ Hl Hq) as [[-> ->]|[Hne Hq']].
    + destruct Hpp as [[_ ->]|[_ ->]]; discriminate.
    + exfalso. assert (Hhq : holds q = true) by (destruct q; cbn in *; try discriminate; reflexivity).
      apply (inv_holder s HI j q Hq') in Hhq. congruence.
  - intros j q Hq. destruct (thread_cases _ _ _ _ _ Hl Hq) as [[-> ->]|[Hne Hq']].
    + destruct Hpp as [[_ ->]|[_ ->]]; exact I.
    + pose proof (inv_wait s HI j q Hq') as Hw. destruct q; cbn in *; try exact I.
      * exfalso. assert (Hx : tok s = Held j) by (apply (inv_holder s HI j _ Hq'); reflexivity). congruence.
      * intros Hc. apply orb_false_elim in Hc. destruct Hc as [Hnb Hc].
        destruct (Hw Hc) as [Hcur _].
        pose proof (cur_holder s i p b0 HI Hn Hh Hcur) as Hcb. rewrite Hcp in Hcb. injection Hcb as <-.
        rewrite Nat.eqb_refl in Hnb. discriminate.
Qed.

(* no waiter is parked on an open channel while the holder carries none *)
Lemma no_open_waiters s i p j off b :
  ninv s -> nth_error (threads s) i = Some p -> holds p = true -> carries p = None ->
  nth_error (threads s) j = Some (W4 off b) -> is_closed s b = true.
Proof.
  intros HI Hn Hh Hc Hj. destruct (is_closed s b) eqn:E; [reflexivity|exfalso].
  pose proof (inv_wait s HI j _ Hj) as Hw. cbn in Hw. destruct (Hw E) as [Hcur _].
  pose proof (cur_holder s i p b HI Hn Hh Hcur). congruence.
Qed.

(* ---------- 7. a fresh broadcast channel: S3 -> SDone *)
Lemma step_s3 s i :
  ninv s -> nth_error (threads s) i = Some S3 ->
  ninv (mkN (nxt s) (InChan (fresh s)) (closed s) (S (fresh s)) (set_nth i (threads s) SDone)).
Proof.
  intros HI Hn. pose proof (nth_error_lt _ _ _ Hn) as Hl.
  pose proof (holder_pc s i _ HI Hn eq_refl) as Et.
  constructor; cbn [threads tok fresh closed nxt].
  - intros j q Hq. destruct (thread_cases _ _ _ _ _ Hl Hq) as [[-> ->]|[Hne Hq']].
    + split; discriminate.
    + split; [|discriminate]. intros Hh. apply (inv_holder s HI j q Hq') in Hh. congruence.
  - intros b' E. injection E as <-. split; [lia|].
    destruct (is_closed s (fresh s)) eqn:Ec; [|unfold is_closed in *; exact Ec].
    pose proof (inv_closed s HI _ Ec). lia.
  - intros b' E. pose proof (inv_closed s HI b' E). lia.
  - intros j q b' Hq Hmq. destruct (thread_cases _ _ _ _ _ Hl Hq) as [[-> ->]|[Hne Hq']]; [discriminate|].
    pose proof (inv_ment s HI j q b' Hq' Hmq). lia.
  - intros j q b' Hq Hc. destruct (thread_cases _ _ _ _ _ Hl Hq) as [[-> ->]|[Hne Hq']]; [discriminate|].
    exfalso. assert (Hhq : holds q = true) by (destruct q; cbn in *; try discriminate; reflexivity).
    apply (inv_holder s HI j q Hq') in Hhq. congruence.
  - intros j q Hq. destruct (thread_cases _ _ _ _ _ Hl Hq) as [[-> ->]|[Hne Hq']]; [exact I|].
    pose proof (inv_wait s HI j q Hq') as Hw. destruct q; cbn in *; try exact I.
    + exfalso. assert (Hx : tok s = Held j) by (apply (inv_holder s HI j _ Hq'); reflexivity). congruence.
    + intros Hc. unfold is_closed in *. cbn [closed] in *.
      pose proof (no_open_waiters s i S3 j off b HI Hn eq_refl eq_refl Hq'). unfold is_closed in *. congruence.
Qed.

(* ---------- 8. closing the barrier: C2 -> CDone *)
Lemma step_c2 s i :
  ninv s -> nth_error (threads s) i = Some C2 ->
  ninv (mkN (nxt s) Gone (closed s) (fresh s) (set_nth i (threads s) CDone)).
Proof.
  intros HI Hn. pose proof (nth_error_lt _ _ _ Hn) as Hl.
  pose proof (holder_pc s i _ HI Hn eq_refl) as Et.
  constructor; cbn [threads tok fresh closed nxt].
  - intros j q Hq. destruct (thread_cases _ _ _ _ _ Hl Hq) as [[-> ->]|[Hne Hq']].
    + split; discriminate.
    + split; [|discriminate]. intros Hh. apply (inv_holder s HI j q Hq') in Hh. congruence.
  - intros b' E. discriminate.
  - apply (inv_closed s HI).
  - intros j q b' Hq Hmq. destruct (thread_cases _ _ _ _ _ Hl Hq) as [[-> ->]|[Hne Hq']]; [discriminate|].
    apply (inv_ment s HI j q b' Hq' Hmq).
  - intros j q b' Hq Hc. destruct (thread_cases _ _ _ _ _ Hl Hq) as [[-> ->]|[Hne Hq']]; [discriminate|].
    exfalso. assert (Hhq : holds q = true) by (destruct q; cbn in *; try discriminate; reflexivity).
    apply (inv_holder s HI j q Hq') in Hhq. congruence.
  - intros j q Hq. destruct (thread_cases _ _ _ _ _ Hl Hq) as [[-> ->]|[Hne Hq']]; [exact I|].
    pose proof (inv_wait s HI j q Hq') as Hw. destruct q; cbn in *; try exact I.
    + exfalso. assert (Hx : tok s = Held j) by (apply (inv_holder s HI j _ Hq'); reflexivity). congruence.
    + intros Hc. unfold is_closed in *. cbn [closed] in *.
      pose proof (no_open_waiters s i C2 j off b HI Hn eq_refl eq_refl Hq'). unfold is_closed in *. congruence.
Qed.

(* ---------- every step preserves the invariant *)

Theorem tstep_inv s i s' : ninv s -> tstep s i = Some s' -> ninv s'.
Proof.
  intros HI. unfold tstep. destruct (nth_error (threads s) i) as [p|] eqn:Hn; [|discriminate].
  destruct p; try discriminate.
  - intros E. injection E as <-. apply (step_local s i (W0 off)); auto.
    + destruct (off <? nxt s); reflexivity.
    + destruct (off <? nxt s); reflexivity.
    + destruct (off <? nxt s); exact I.
  - destruct (tok s) as [b|j|] eqn:Et; try discriminate; intros E; injection E as <-.
    + apply (step_acquire s i (W1 off) (W2 off b) b); auto; try exact I.
    + apply (step_local s i (W1 off)); auto; try exact I.
  - intros E. injection E as <-. now apply step_w2.
  - destruct (tok s) as [b'|j|] eqn:Et; try discriminate. destruct (Nat.eqb j i); [|discriminate].
    intros E. injection E as <-. now apply step_w3.
  - destruct (is_closed s b); [|discriminate]. intros E. injection E as <-.
    apply (step_local s i (W4 off b)); auto; try exact I.
  - destruct (tok s) as [b|j|] eqn:Et; try discriminate; intros E; injection E as <-.
    + apply (step_acquire s i (S0 v) (S1 v b) b); auto; try exact I.
    + apply (step_local s i (S0 v)); auto; try exact I.
  - intros E. injection E as <-. now apply step_s1.
  - intros E. injection E as <-. apply (step_close s i (S2 b) S3 b); auto.
  - destruct (tok s) as [b'|j|] eqn:Et; try discriminate. destruct (Nat.eqb j i); [|discriminate].
    intros E. injection E as <-. now apply step_s3.
  - destruct (tok s) as [b|j|] eqn:Et; try discriminate; intros E; injection E as <-.
    + apply (step_acquire s i C0 (C1 b) b); auto; try exact I.
    + apply (step_local s i C0); auto; try exact I.
  - intros E. injection E as <-. apply (step_close s i (C1 b) C2 b); auto.
  - destruct (tok s) as [b'|j|] eqn:Et; try discriminate. destruct (Nat.eqb j i); [|discriminate].
    intros E. injection E as <-. now apply step_c2.
Qed.

Theorem tcancel_inv s i s' : ninv s -> tcancel s i = Some s' -> ninv s'.
Proof.
  intros HI. unfold tcancel. destruct (nth_error (threads s) i) as [p|] eqn:Hn; [|discriminate].
  destruct p; try discriminate. intros E. injection E as <-.
  apply (step_local s i (W4 off b)); auto; try exact I.
Qed.

Theorem reach_inv next ts s :
  forallb entry ts = true -> reach (ninit next ts) s -> ninv s.
Proof.
  intros Hent Hr. induction Hr as [|s a s' Hr IH Hstep]; [now apply ninit_inv|].
  destruct a; cbn in Hstep; [eapply tstep_inv|eapply tcancel_inv]; eauto.
Qed.

(* ---------- consequences *)

(* channel safety: whoever is about to send on / close the barrier holds the only token, so the send
   finds the channel open and empty and nobody closes twice; a broadcast channel is closed once *)
Theorem chan_safety s i p :
  ninv s -> nth_error (threads s) i = Some p ->
  match p with
  | W3 _ _ _ | S3 | C2 => tok s = Held i
  | S2 b | C1 b => tok s = Held i /\ is_closed s b = false
  | _ => True
  end.
Proof.
  intros HI Hn. destruct p; try exact I.
  - now apply (inv_holder s HI i _ Hn).
  - split; [now apply (inv_holder s HI i _ Hn)|now apply (inv_carry s HI i _ b Hn)].
  - now apply (inv_holder s HI i _ Hn).
  - split; [now apply (inv_holder s HI i _ Hn)|now apply (inv_carry s HI i _ b Hn)].
  - now apply (inv_holder s HI i _ Hn).
Qed.

Definition quiescent (s : nstate) : Prop := forall i p, nth_error (threads s) i = Some p -> holds p = false.

(* never for nothing / no lost wake-up: when no Set or Close is in progress, a waiter parked on an open
   channel has an offset that NextOffset has not passed; put the other way round, once NextOffset has
   passed its offset its channel is closed and the waiter is enabled *)
Theorem parked_only_if_not_passed s j off b :
  ninv s -> quiescent s -> nth_error (threads s) j = Some (W4 off b) -> is_closed s b = false -> nxt s <= off.
Proof.
  intros HI Hq Hj Hc. pose proof (inv_wait s HI j _ Hj) as Hw. cbn in Hw.
  destruct (Hw Hc) as [_ [Hle|(i & Ei & Hi)]]; [exact Hle|exfalso].
  destruct Hi as [Hi|Hi]; pose proof (Hq i _ Hi) as Hh; discriminate.
Qed.

Theorem passed_waiter_wakes s j off b :
  ninv s -> quiescent s -> nth_error (threads s) j = Some (W4 off b) -> off < nxt s ->
  exists s', tstep s j = Some s' /\ nth_error (threads s') j = Some (WOk off).
Proof.
  intros HI Hq Hj Hlt. destruct (is_closed s b) eqn:Hc.
  - unfold tstep. rewrite Hj, Hc. eexists. split; [reflexivity|]. cbn. apply nth_set_nth_eq. eapply nth_error_lt; eauto.
  - pose proof (parked_only_if_not_passed s j off b HI Hq Hj Hc). lia.
Qed.

(* a waiter whose offset is below NextOffset (or relative, hence negative) returns without blocking *)
Theorem immediate_return s j off :
  nth_error (threads s) j = Some (W0 off) -> off < nxt s ->
  exists s', tstep s j = Some s' /\ nth_error (threads s') j = Some (WOk off).
Proof.
  intros Hj Hlt. unfold tstep. rewrite Hj. destruct (off <? nxt s) eqn:E; [|lia].
  eexists. split; [reflexivity|]. cbn. apply nth_set_nth_eq. eapply nth_error_lt; eauto.
Qed.

(* a wait at or beyond NextOffset that reaches the barrier after Close fails *)
Theorem wait_after_close s j off :
  nth_error (threads s) j = Some (W1 off) -> tok s = Gone ->
  exists s', tstep s j = Some s' /\ nth_error (threads s') j = Some (WClosed off).
Proof.
  intros Hj Et. unfold tstep. rewrite Hj, Et. eexists. split; [reflexivity|]. cbn. apply nth_set_nth_eq. eapply nth_error_lt; eauto.
Qed.

(* NextOffset never decreases, and a broadcast channel is closed only by a step of Set or Close *)
Lemma step_shape s a s' :
  nstep s a = Some s' ->
  nxt s <= nxt s' /\
  (closed s' = closed s \/
   exists i b, a = Step i /\ closed s' = b :: closed s /\
               (nth_error (threads s) i = Some (S2 b) \/ nth_error (threads s) i = Some (C1 b))).
Proof.
  destruct a as [i|i]; cbn [nstep].
  - unfold tstep. destruct (nth_error (threads s) i) as [p|] eqn:Hn; [|discriminate].
    destruct p; try discriminate.
    + intros E. injection E as <-. cbn. split; [lia|left; reflexivity].
    + destruct (tok s); try discriminate; intros E; injection E as <-; cbn; (split; [lia|left; reflexivity]).
    + intros E. injection E as <-. cbn. split; [lia|left; reflexivity].
    + destruct (tok s) as [|j|]; try discriminate. destruct (Nat.eqb j i); [|discriminate].
      intros E. injection E as <-. cbn. split; [lia|left; reflexivity].
    + destruct (is_closed s b); [|discriminate]. intros E. injection E as <-. cbn. split; [lia|left; reflexivity].
    + destruct (tok s); try discriminate; intros E; injection E as <-; cbn; (split; [lia|left; reflexivity]).
    + intros E. injection E as <-. cbn. split; [destruct (nxt s <? v) eqn:E1; lia|left; reflexivity].
    + intros E. injection E as <-. cbn. split; [lia|]. right. exists i, b. split; [reflexivity|]. split; [reflexivity|]. left. exact Hn.
    + destruct (tok s) as [|j|]; try discriminate. destruct (Nat.eqb j i); [|discriminate].
      intros E. injection E as <-. cbn. split; [lia|left; reflexivity].
    + destruct (tok s); try discriminate; intros E; injection E as <-; cbn; (split; [lia|left; reflexivity]).
    + intros E. injection E as <-. cbn. split; [lia|]. right. exists i, b. split; [reflexivity|]. split; [reflexivity|]. right. exact Hn.
    + destruct (tok s) as [|j|]; try discriminate. destruct (Nat.eqb j i); [|discriminate].
      intros E. injection E as <-. cbn. split; [lia|left; reflexivity].
  - unfold tcancel. destruct (nth_error (threads s) i) as [p|]; [|discriminate]. destruct p; try discriminate.
    intros E. injection E as <-. cbn. split; [lia|left; reflexivity].
Qed.

Theorem next_offset_monotone s a s' : nstep s a = Some s' -> nxt s <= nxt s'.
Proof. intros Hs. apply (step_shape s a s' Hs). Qed.

Theorem closed_only_by_set_or_close s a s' b :
  nstep s a = Some s' -> is_closed s b = false -> is_closed s' b = true ->
  exists i, a = Step i /\ (nth_error (threads s) i = Some (S2 b) \/ nth_error (threads s) i = Some (C1 b)).
Proof.
  intros Hs H0 H1. destruct (step_shape s a s' Hs) as [_ [Ec|(i & b' & Ea & Ec & Hi)]].
  - unfold is_closed in *. rewrite Ec in H1. congruence.
  - unfold is_closed in *. rewrite Ec in H1. cbn in H1. apply orb_prop in H1. destruct H1 as [H1|H1]; [|congruence].
    apply Nat.eqb_eq in H1. subst. eauto.
Qed.

(* ---------- the extension with pending cancellations adds no behaviour to the base system *)
Lemma xstep_base x a x' :
  xstep x a = Some x' -> base x' = base x \/ exists a', nstep (base x) a' = Some (base x').
Proof.
  destruct a as [i|i]; cbn [xstep].
  - destruct (nth_error (threads (base x)) i) as [p|] eqn:Ep.
    + assert (Hgen : option_map (fun s => mkX s (canc x)) (tstep (base x) i) = Some x' ->
                     base x' = base x \/ exists a', nstep (base x) a' = Some (base x')).
      { destruct (tstep (base x) i) as [s|] eqn:Es; [|discriminate]. cbn. intros E. injection E as <-. right. exists (Step i). exact Es. }
      destruct p; try exact Hgen.
      destruct (is_canc x i && negb (is_closed (base x) b)); [|exact Hgen].
      destruct (tcancel (base x) i) as [s|] eqn:Es; [|discriminate]. cbn. intros E. injection E as <-. right. exists (Cancel i). exact Es.
    + destruct (tstep (base x) i) as [s|] eqn:Es; [|discriminate]. cbn. intros E. injection E as <-. right. exists (Step i). exact Es.
  - destruct (nth_error (threads (base x)) i) as [p|]; [|discriminate].
    destruct p; try discriminate; try (intros E; injection E as <-; left; reflexivity).
    destruct (tcancel (base x) i) as [s|] eqn:Es; [|discriminate]. cbn. intros E. injection E as <-. right. exists (Cancel i). exact Es.
Qed.

Theorem xrun_reach next ts : forall sched x,
  reach (ninit next ts) (base x) -> reach (ninit next ts) (base (xrun x sched)).
Proof.
  induction sched as [|a r IH]; intros x Hx; [exact Hx|]. cbn [xrun].
  destruct (xstep x a) as [x'|] eqn:E; [|now apply IH]. apply IH.
  destruct (xstep_base x a x' E) as [->|(a' & Ha')]; [exact Hx|]. eapply reach_step; eassumption.
Qed.

(* hence the invariant, and with it every theorem above, holds after any schedule with early cancellations *)
Corollary xrun_inv next ts sched :
  forallb entry ts = true -> ninv (base (xrun (mkX (ninit next ts) []) sched)).
Proof.
  intros He. eapply reach_inv; [exact He|]. apply xrun_reach. apply reach_refl.
Qed.
