(* BackupProofs.v — C20: a backup into an empty directory, or repeated into the same directory while the source
   has only been appended to, is the source directory itself: it passes Check and opens to the same log. *)
From KV Require Import Base Model Backup ListAux SearchProofs SegProofs ReaderProofs Spec LogInv ConsumeProofs
     AbsFacts PublishProofs OpenProofs History.
From Coq Require Import ZifyBool ZifyNat.

Section BackupProofs.
Variable H : bytes -> Z.

Fixpoint bases_inc (l : list seg) : Prop :=
  match l with [] => True | s :: r => (forall x, In x r -> sbase s < sbase x) /\ bases_inc r end.

Lemma chain_bases_inc l : chain_ok l -> bases_inc l.
Proof.
  induction l as [|s r IH]; intros Hc; [exact I|]. split; [|apply IH; eapply chain_ok_tail; eauto].
  intros x Hx. eapply chain_base_lt; eauto.
Qed.

Lemma insert_sorted s l : (forall x, In x l -> sbase s < sbase x) -> insert_seg s l = s :: l.
Proof. destruct l as [|x r]; [reflexivity|]. intros Hlt. cbn. pose proof (Hlt x (or_introl eq_refl)). destruct (sbase s <=? sbase x) eqn:E; [reflexivity|lia]. Qed.

Lemma sort_sorted l : bases_inc l -> sort_segs l = l.
Proof.
  induction l as [|s r IH]; intros Hi; [reflexivity|]. destruct Hi as [Hs Hr]. unfold sort_segs in *. cbn [fold_right].
  rewrite (IH Hr). now apply insert_sorted.
Qed.

(* every file name of the target also exists in the source: the source has only been appended to since *)
Definition covered (old src : list seg) : Prop := forall o, In o old -> exists n, In n src /\ sbase n = sbase o.

Theorem backup_is_source old src :
  chain_ok src -> covered old src -> backup_dir old src = src.
Proof.
  intros Hc Hcov. unfold backup_dir.
  assert (Hnil : filter (fun o => negb (has_base (sbase o) src)) old = []).
  { apply filter_all_false. intros o Ho. destruct (Hcov o Ho) as (n & Hn & Hb). apply negb_false_iff.
    unfold has_base. apply existsb_exists. exists n. split; [exact Hn|lia]. }
  rewrite Hnil. cbn [app]. apply sort_sorted. now apply chain_bases_inc.
Qed.

Corollary backup_into_empty src : chain_ok src -> backup_dir [] src = src.
Proof. intros Hc. apply backup_is_source; [exact Hc|]. intros o []. Qed.

(* the backup of an open log: it opens, in any mode, to the same live messages and NextOffset as the source had
   at the time of the call *)
Theorem backup_opens_to_source st old dst c0 st' :
  Inv st -> covered old (segs st) -> do_backup old (segs st) = Ok dst ->
  log_open H (mkState dst 0 None false) c0 = Ok st' ->
  dst = segs st /\ Inv st' /\ abs st' = abs st.
Proof.
  intros HI Hcov Hb Ho. pose proof HI as (Hne & HF & Hch & _).
  unfold do_backup in Hb. destruct (backup_check (segs st)); [|discriminate]. cbn [bind] in Hb. injection Hb as <-.
  rewrite (backup_is_source old (segs st) Hch Hcov) in *. split; [reflexivity|].
  assert (Hcd : closed_dir (mkState (segs st) 0 None false)) by (split; [reflexivity|split; [reflexivity|split; assumption]]).
  destruct (log_open_ok H _ c0 Hcd Hne st' Ho) as (I' & A'). split; [exact I'|]. rewrite A'. reflexivity.
Qed.

(* appending keeps every file name: Publish (with or without rollover) only extends the list of bases *)
Theorem publish_keeps_names st ms st2 n :
  log_publish H st ms = Ok (st2, n) -> covered (segs st) (segs st2).
Proof.
  unfold log_publish. destruct (get_cfg st) as [c|]; [|discriminate]. cbn [bind]. destruct (cro c); [discriminate|].
  destruct (head_seg st) as [hd|] eqn:Eh; [|discriminate]. cbn [bind].
  assert (Hlast : last_opt (segs st) = Some hd) by (unfold head_seg in Eh; destruct (last_opt (segs st)); [now injection Eh as ->|discriminate]).
  destruct (@exists_last_or_nil _ (segs st)) as [Hnil|(pre & x & Hsp)]; [rewrite Hnil in Hlast; discriminate|].
  assert (x = hd) by (rewrite Hsp, last_opt_app in Hlast; now injection Hlast). subst x.
  destruct (needs_rollover c hd); destruct (existsb msg_too_big ms); try discriminate; intros E; injection E as <- _; cbn [segs set_segs].
  - rewrite Hsp. rewrite app_length. cbn [length]. replace (length (pre ++ [hd]) + 1 - 1)%nat with (length (pre ++ [hd])) by lia.
    rewrite (DeleteProofs.replace_nth_app (pre ++ [hd]) _ [] _). intros o Ho. exists o. split; [apply in_or_app; now left|reflexivity].
  - rewrite Hsp. rewrite app_length. cbn [length]. replace (length pre + 1 - 1)%nat with (length pre) by lia.
    rewrite (DeleteProofs.replace_nth_app pre hd [] _). intros o Ho. apply in_app_or in Ho. destruct Ho as [Ho|[<-|[]]].
    + exists o. split; [apply in_or_app; now left|reflexivity].
    + eexists. split; [apply in_or_app; right; left; reflexivity|reflexivity].
Qed.

Lemma covered_trans a b c : covered a b -> covered b c -> covered a c.
Proof. intros Hab Hbc o Ho. destruct (Hab o Ho) as (n & Hn & E1). destruct (Hbc n Hn) as (m & Hm & E2). exists m. split; [exact Hm|congruence]. Qed.

Lemma covered_refl a : covered a a.
Proof. intros o Ho. exists o. split; [exact Ho|reflexivity]. Qed.

(* the source is unchanged by the call: Backup only triggers the lazy index rebuild *)
Theorem backup_leaves_source st st1 r :
  Inv st -> log_stat H st = Ok (st1, r) -> Inv st1 /\ abs st1 = abs st /\ opened st1 = opened st.
Proof. apply ReadsPreserve.log_stat_preserves. Qed.

End BackupProofs.

(* the skip rule of the copy (a file of the target whose size and mtime match is not copied again): on files that
   have only been appended to, equal size means equal content *)
Lemma skip_rule_safe {A} (old new tl : list A) : new = old ++ tl -> length old = length new -> old = new.
Proof.
  intros -> Hl. rewrite app_length in Hl. destruct tl; [now rewrite app_nil_r|]. cbn in Hl. lia.
Qed.
