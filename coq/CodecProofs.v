(* CodecProofs.v — the byte layouts: big-endian integers, sizes, and the round trip
   decoder (readV1/readV2 transcription) ∘ encoder (documented layout) = identity, anywhere in a file. *)
From KV Require Import Base Model ListAux SearchProofs Codec.
From Coq Require Import ZifyBool ZifyNat.
Ltac Zify.zify_post_hook ::= Z.div_mod_to_equations.

(* ---------- big-endian *)

Lemma be_aux_length n : forall z acc, length (be_aux n z acc) = (n + length acc)%nat.
Proof. induction n as [|n IH]; intros z acc; cbn; [reflexivity|]. rewrite IH. cbn. lia. Qed.

Lemma be_length n z : length (be n z) = n.
Proof. unfold be. rewrite be_aux_length. cbn. lia. Qed.

Lemma zlen_be n z : zlen (be n z) = Z.of_nat n.
Proof. unfold zlen. now rewrite be_length. Qed.

Lemma be_aux_app n : forall z acc, be_aux n z acc = be_aux n z [] ++ acc.
Proof.
  induction n as [|n IH]; intros z acc; cbn; [reflexivity|].
  rewrite (IH (z / 256) (Z.to_N (z mod 256) :: acc)), (IH (z / 256) [Z.to_N (z mod 256)]).
  now rewrite <- app_assoc.
Qed.

Lemma debe_app a b : debe (a ++ b) = debe a * 256 ^ zlen b + debe b.
Proof.
  unfold debe. rewrite fold_left_app.
  generalize (fold_left (fun a0 b0 => a0 * 256 + Z.of_N b0) a 0) as x.
  induction b as [|y b IH]; intros x.
  - cbn. unfold zlen. cbn. lia.
  - cbn [fold_left]. rewrite IH. rewrite zlen_cons.
    replace (1 + zlen b) with (Z.succ (zlen b)) by lia. rewrite Z.pow_succ_r by apply zlen_nonneg.
    rewrite (IH (0 * 256 + Z.of_N y)). ring.
Qed.

Lemma debe_be n : forall z, debe (be n z) = z mod 256 ^ Z.of_nat n.
Proof.
  induction n as [|n IH]; intros z.
  - cbn. now rewrite Z.mod_1_r.
  - unfold be. cbn [be_aux]. rewrite be_aux_app. fold (be n (z / 256)).
    rewrite debe_app, IH. unfold zlen. cbn [length].
    replace (256 ^ Z.of_nat 1) with 256 by reflexivity.
    assert (Hd : debe [Z.to_N (z mod 256)] = z mod 256).
    { unfold debe. cbn. rewrite Z2N.id by (apply Z.mod_pos_bound; lia). lia. }
    rewrite Hd. rewrite Nat2Z.inj_succ, Z.pow_succ_r by lia.
    assert (H256 : 0 < 256 ^ Z.of_nat n) by (apply Z.pow_pos_nonneg; lia).
    (* z mod (256 * P) = 256 * ((z/256) mod P) + z mod 256 *)
    rewrite Z.rem_mul_r by lia. ring.
Qed.

Lemma i64_roundtrip z : - two63 <= z < two63 -> i64 (z mod 256 ^ Z.of_nat 8) = z.
Proof.
  intros Hr. unfold i64, two63, two64z in *. change (256 ^ Z.of_nat 8) with 18446744073709551616.
  destruct (9223372036854775808 <=? z mod 18446744073709551616) eqn:E; lia.
Qed.

Lemma u32_roundtrip z : 0 <= z < two31 -> i32 (z mod 256 ^ Z.of_nat 4) = z.
Proof.
  intros Hr. unfold i32, two31, two32 in *. change (256 ^ Z.of_nat 4) with 4294967296.
  rewrite Z.mod_small by lia. destruct (2147483648 <=? z) eqn:E; lia.
Qed.

(* ---------- slices *)

Lemma skipn_app_exact {A} (a b : list A) : skipn (length a) (a ++ b) = b.
Proof. induction a; cbn; auto. Qed.

Lemma firstn_app_exact {A} (a b : list A) : firstn (length a) (a ++ b) = a.
Proof. induction a; cbn; [reflexivity|]. now f_equal. Qed.

Lemma sub_mid (pre x post : bytes) : sub (pre ++ x ++ post) (zlen pre) (zlen x) = x.
Proof.
  unfold sub. pose proof (zlen_nonneg pre). pose proof (zlen_nonneg x).
  destruct ((zlen pre <? 0) || (zlen x <? 0)) eqn:E; [lia|].
  rewrite !zlen_app. pose proof (zlen_nonneg post).
  rewrite (Z.min_l (zlen pre)) by lia. rewrite (Z.min_l (zlen x)) by lia.
  unfold zlen. rewrite !Nat2Z.id. rewrite skipn_app_exact. apply firstn_app_exact.
Qed.

Lemma sub_shift (pre l : bytes) p n : 0 <= p -> sub (pre ++ l) (zlen pre + p) n = sub l p n.
Proof.
  intros Hp. unfold sub. pose proof (zlen_nonneg pre).
  destruct (n <? 0) eqn:En; [now rewrite !orb_true_r|]. rewrite !orb_false_r.
  destruct (zlen pre + p <? 0) eqn:E1; [lia|]. destruct (p <? 0) eqn:E2; [lia|].
  rewrite zlen_app.
  assert (Hsk : skipn (Z.to_nat (Z.min (zlen pre + p) (zlen pre + zlen l))) (pre ++ l) =
                skipn (Z.to_nat (Z.min p (zlen l))) l).
  { replace (Z.to_nat (Z.min (zlen pre + p) (zlen pre + zlen l)))
      with (length pre + Z.to_nat (Z.min p (zlen l)))%nat by (unfold zlen; lia).
    rewrite skipn_app. rewrite skipn_all2 by lia. cbn [app].
    f_equal. lia. }
  rewrite Hsk.
  (* the clamp on the length: firstn beyond what is left takes everything in both cases *)
  set (rest := skipn (Z.to_nat (Z.min p (zlen l))) l).
  assert (Hr : (length rest <= length l)%nat) by (unfold rest; rewrite skipn_length; lia).
  destruct (Z_le_gt_dec n (zlen l)) as [Hle|Hgt].
  - rewrite !Z.min_l by lia. reflexivity.
  - rewrite (firstn_all2 (n := Z.to_nat (Z.min n (zlen pre + zlen l)))) by (unfold zlen in *; lia).
    rewrite (firstn_all2 (n := Z.to_nat (Z.min n (zlen l)))) by (unfold zlen in *; lia). reflexivity.
Qed.

Lemma sub_prefix (x post : bytes) : sub (x ++ post) 0 (zlen x) = x.
Proof. apply (sub_mid [] x post). Qed.

Lemma sub_app_skip (a b : bytes) n : sub (a ++ b) (zlen a) n = sub b 0 n.
Proof. replace (zlen a) with (zlen a + 0) by lia. apply sub_shift. lia. Qed.

Lemma sub_0_all (x : bytes) : sub x 0 (zlen x) = x.
Proof. rewrite <- (app_nil_r x) at 1. apply sub_prefix. Qed.

(* ---------- sizes *)

Lemma enc_rec_length crc v m : zlen (enc_rec crc v m) = rec_size v m.
Proof.
  unfold enc_rec, rec_size, rec_overhead. destruct v; rewrite !zlen_app, !zlen_be; unfold trailer, zlen; cbn [length]; lia.
Qed.

Lemma enc_item_length p it : zlen (enc_item p it) = item_size p.
Proof.
  unfold enc_item, item_size. rewrite !zlen_app, !zlen_be.
  destruct (ptimes p), (pkeys p); rewrite ?zlen_be; unfold zlen; cbn [length]; lia.
Qed.

Lemma enc_log_header_length v : zlen (enc_log_header v) = hdr_size v.
Proof. destruct v; reflexivity. Qed.

Lemma rec_size_pos_28 v m : 28 <= rec_size v m.
Proof. unfold rec_size, rec_overhead. pose proof (zlen_nonneg (mkey m)). pose proof (zlen_nonneg (mval m)). destruct v; lia. Qed.

(* ---------- the record round trip *)

Definition msg_ok (m : msg) : Prop :=
  - two63 <= moff m < two63 /\ - two63 <= mtime m < two63 /\ zlen (mkey m) + zlen (mval m) <= max_body.

Definition crc_range (crc : bytes -> Z) : Prop := forall b, 0 <= crc b < two32.

Lemma bytes_eqb_refl' b : bytes_eqb b b = true.
Proof. induction b as [|x b IH]; [reflexivity|]. cbn. now rewrite N.eqb_refl, IH. Qed.

Theorem read_rec_v2_roundtrip crc pre m post :
  crc_range crc -> msg_ok m ->
  read_rec crc V2 (pre ++ enc_rec crc V2 m ++ post) (zlen pre) = Ok (m, zlen pre + rec_size V2 m).
Proof.
  intros Hcrc (Ho & Ht & Hsz). destruct m as [off tm key val]. cbn [moff mtime mkey mval] in *.
  pose proof (zlen_nonneg key) as Hk0. pose proof (zlen_nonneg val) as Hv0.
  unfold max_body in Hsz.
  set (body := be 8 off ++ be 8 tm ++ be 4 (zlen key) ++ be 4 (zlen val) ++ key ++ val ++ trailer).
  set (c4 := be 4 (crc body)).
  set (h24 := be 8 off ++ be 8 tm ++ be 4 (zlen key) ++ be 4 (zlen val)).
  set (payload := key ++ val ++ trailer).
  assert (Henc : enc_rec crc V2 (mkMsg off tm key val) = (c4 ++ h24) ++ payload).
  { unfold enc_rec, c4, h24, payload, body. cbn [moff mtime mkey mval]. now rewrite <- !app_assoc. }
  assert (Hl28 : zlen (c4 ++ h24) = 28).
  { unfold c4, h24. rewrite !zlen_app, !zlen_be. reflexivity. }
  assert (Hhdr : sub (pre ++ enc_rec crc V2 (mkMsg off tm key val) ++ post) (zlen pre) 28 = c4 ++ h24).
  { rewrite Henc, <- Hl28, <- app_assoc. apply sub_mid. }
  unfold read_rec. rewrite Hhdr, Hl28. change (28 =? 0) with false. change (28 <? 28) with false. cbn iota.
  (* header fields *)
  assert (Hc : sub (c4 ++ h24) 0 4 = c4).
  { replace 4 with (zlen c4) by (unfold c4; now rewrite zlen_be). apply sub_prefix. }
  assert (Hh24 : forall q n, 4 <= q -> sub (c4 ++ h24) q n = sub h24 (q - 4) n).
  { intros q n Hq. replace q with (zlen c4 + (q - 4)) at 1 by (unfold c4; rewrite zlen_be; lia).
    apply sub_shift. lia. }
  assert (Ho8 : sub (c4 ++ h24) 4 8 = be 8 off).
  { rewrite (Hh24 4 8) by lia. change (4 - 4) with 0. unfold h24.
    replace 8 with (zlen (be 8 off)) at 2 by now rewrite zlen_be. apply sub_prefix. }
  assert (Ht8 : sub (c4 ++ h24) 12 8 = be 8 tm).
  { rewrite (Hh24 12 8) by lia. change (12 - 4) with 8. unfold h24.
    replace 8 with (zlen (be 8 off)) at 1 by now rewrite zlen_be.
    rewrite sub_app_skip. replace 8 with (zlen (be 8 tm)) at 2 by now rewrite zlen_be. apply sub_prefix. }
  assert (Hk4 : sub (c4 ++ h24) 20 4 = be 4 (zlen key)).
  { rewrite (Hh24 20 4) by lia. change (20 - 4) with 16. unfold h24.
    replace 16 with (zlen (be 8 off ++ be 8 tm)) by (rewrite zlen_app, !zlen_be; reflexivity).
    rewrite app_assoc, sub_app_skip.
    replace 4 with (zlen (be 4 (zlen key))) at 2 by now rewrite zlen_be. apply sub_prefix. }
  assert (Hv4 : sub (c4 ++ h24) 24 4 = be 4 (zlen val)).
  { rewrite (Hh24 24 4) by lia. change (24 - 4) with 20. unfold h24.
    replace 20 with (zlen ((be 8 off ++ be 8 tm) ++ be 4 (zlen key))) by (rewrite !zlen_app, !zlen_be; reflexivity).
    rewrite (app_assoc (be 8 off)), (app_assoc (be 8 off ++ be 8 tm)).
    rewrite sub_app_skip. rewrite <- (app_nil_r (be 4 (zlen val))) at 1.
    replace 4 with (zlen (be 4 (zlen val))) at 2 by now rewrite zlen_be. apply sub_prefix. }
  assert (H24 : sub (c4 ++ h24) 4 24 = h24).
  { rewrite (Hh24 4 24) by lia. change (4 - 4) with 0.
    replace 24 with (zlen h24) by (unfold h24; rewrite !zlen_app, !zlen_be; reflexivity).
    apply sub_0_all. }
  rewrite Hc, Ho8, Ht8, Hk4, Hv4, H24. rewrite !debe_be.
  rewrite (i64_roundtrip off Ho), (i64_roundtrip tm Ht).
  rewrite (u32_roundtrip (zlen key)) by (unfold two31; lia).
  rewrite (u32_roundtrip (zlen val)) by (unfold two31; lia).
  destruct ((zlen key <? 0) || (zlen val <? 0)) eqn:E1; [lia|].
  destruct (max_body <? zlen key + zlen val) eqn:E2; [unfold max_body in E2; lia|].
  (* the payload *)
  assert (Hpl : zlen payload = zlen key + zlen val + 8).
  { unfold payload. rewrite !zlen_app. unfold trailer, zlen. cbn [length]. lia. }
  assert (Hpay : sub (pre ++ enc_rec crc V2 (mkMsg off tm key val) ++ post) (zlen pre + 28) (zlen key + zlen val + 8) = payload).
  { rewrite Henc, <- Hpl. rewrite <- Hl28. rewrite <- zlen_app.
    rewrite <- (app_assoc (c4 ++ h24)). rewrite (app_assoc pre (c4 ++ h24)). apply sub_mid. }
  rewrite Hpay, Hpl. destruct (zlen key + zlen val + 8 <? zlen key + zlen val + 8) eqn:E3; [lia|].
  (* CRC *)
  assert (Hbody : h24 ++ payload = body) by (unfold h24, payload, body; now rewrite <- !app_assoc).
  rewrite Hbody. unfold c4. rewrite debe_be.
  assert (Hcm : crc body mod 256 ^ Z.of_nat 4 = crc body).
  { change (256 ^ Z.of_nat 4) with 4294967296. pose proof (Hcrc body). unfold two32 in *. apply Z.mod_small. lia. }
  rewrite Hcm, Z.eqb_refl. cbn [negb].
  (* trailer, key, value *)
  assert (Htr : sub payload (zlen key + zlen val) 8 = trailer).
  { unfold payload. rewrite app_assoc, <- zlen_app, sub_app_skip. apply (sub_0_all trailer). }
  rewrite Htr, bytes_eqb_refl'. cbn [negb].
  assert (Hkey : sub payload 0 (zlen key) = key) by (unfold payload; apply sub_prefix).
  assert (Hval : sub payload (zlen key) (zlen val) = val).
  { unfold payload. rewrite sub_app_skip. apply sub_prefix. }
  rewrite Hkey, Hval. f_equal. f_equal. unfold rec_size, rec_overhead. cbn [mkey mval]. lia.
Qed.

Theorem read_rec_v1_roundtrip crc pre m post :
  crc_range crc -> msg_ok m ->
  read_rec crc V1 (pre ++ enc_rec crc V1 m ++ post) (zlen pre) = Ok (m, zlen pre + rec_size V1 m).
Proof.
  intros Hcrc (Ho & Ht & Hsz). destruct m as [off tm key val]. cbn [moff mtime mkey mval] in *.
  pose proof (zlen_nonneg key) as Hk0. pose proof (zlen_nonneg val) as Hv0.
  unfold max_body in Hsz.
  set (payload := key ++ val).
  set (hdr := be 8 off ++ be 8 tm ++ be 4 (zlen key) ++ be 4 (zlen val) ++ be 4 (crc payload)).
  assert (Henc : enc_rec crc V1 (mkMsg off tm key val) = hdr ++ payload).
  { unfold enc_rec, hdr, payload. cbn [moff mtime mkey mval]. now rewrite <- !app_assoc. }
  assert (Hl28 : zlen hdr = 28) by (unfold hdr; rewrite !zlen_app, !zlen_be; reflexivity).
  assert (Hhdr : sub (pre ++ enc_rec crc V1 (mkMsg off tm key val) ++ post) (zlen pre) 28 = hdr).
  { rewrite Henc, <- Hl28, <- app_assoc. apply sub_mid. }
  unfold read_rec. rewrite Hhdr, Hl28. change (28 =? 0) with false. change (28 <? 28) with false. cbn iota.
  assert (Ho8 : sub hdr 0 8 = be 8 off).
  { unfold hdr. replace 8 with (zlen (be 8 off)) at 2 by now rewrite zlen_be. apply sub_prefix. }
  assert (Ht8 : sub hdr 8 8 = be 8 tm).
  { unfold hdr. replace 8 with (zlen (be 8 off)) at 1 by now rewrite zlen_be.
    rewrite sub_app_skip. replace 8 with (zlen (be 8 tm)) at 2 by now rewrite zlen_be. apply sub_prefix. }
  assert (Hk4 : sub hdr 16 4 = be 4 (zlen key)).
  { unfold hdr. replace 16 with (zlen (be 8 off ++ be 8 tm)) by (rewrite zlen_app, !zlen_be; reflexivity).
    rewrite app_assoc, sub_app_skip.
    replace 4 with (zlen (be 4 (zlen key))) at 2 by now rewrite zlen_be. apply sub_prefix. }
  assert (Hv4 : sub hdr 20 4 = be 4 (zlen val)).
  { unfold hdr. replace 20 with (zlen ((be 8 off ++ be 8 tm) ++ be 4 (zlen key))) by (rewrite !zlen_app, !zlen_be; reflexivity).
    rewrite (app_assoc (be 8 off)), (app_assoc (be 8 off ++ be 8 tm)).
    rewrite sub_app_skip. replace 4 with (zlen (be 4 (zlen val))) at 2 by now rewrite zlen_be. apply sub_prefix. }
  assert (Hc4 : sub hdr 24 4 = be 4 (crc payload)).
  { unfold hdr.
    replace 24 with (zlen (((be 8 off ++ be 8 tm) ++ be 4 (zlen key)) ++ be 4 (zlen val))) by (rewrite !zlen_app, !zlen_be; reflexivity).
    rewrite (app_assoc (be 8 off)), (app_assoc (be 8 off ++ be 8 tm)), (app_assoc ((be 8 off ++ be 8 tm) ++ be 4 (zlen key))).
    rewrite sub_app_skip. rewrite <- (app_nil_r (be 4 (crc payload))) at 1.
    replace 4 with (zlen (be 4 (crc payload))) at 2 by now rewrite zlen_be. apply sub_prefix. }
  rewrite Ho8, Ht8, Hk4, Hv4, Hc4. rewrite !debe_be.
  rewrite (i64_roundtrip off Ho), (i64_roundtrip tm Ht).
  rewrite (u32_roundtrip (zlen key)) by (unfold two31; lia).
  rewrite (u32_roundtrip (zlen val)) by (unfold two31; lia).
  destruct ((zlen key <? 0) || (zlen val <? 0)) eqn:E1; [lia|].
  destruct (max_body <? zlen key + zlen val) eqn:E2; [unfold max_body in E2; lia|].
  assert (Hpl : zlen payload = zlen key + zlen val) by (unfold payload; now rewrite zlen_app).
  assert (Hpay : sub (pre ++ enc_rec crc V1 (mkMsg off tm key val) ++ post) (zlen pre + 28) (zlen key + zlen val) = payload).
  { rewrite Henc, <- Hpl, <- Hl28, <- zlen_app, <- (app_assoc hdr), (app_assoc pre hdr). apply sub_mid. }
  rewrite Hpay, Hpl. destruct (zlen key + zlen val <? zlen key + zlen val) eqn:E3; [lia|].
  assert (Hcm : crc payload mod 256 ^ Z.of_nat 4 = crc payload).
  { change (256 ^ Z.of_nat 4) with 4294967296. pose proof (Hcrc payload). unfold two32 in *. apply Z.mod_small. lia. }
  rewrite Hcm, Z.eqb_refl. cbn [negb].
  assert (Hkey : sub payload 0 (zlen key) = key) by (unfold payload; apply sub_prefix).
  assert (Hval : sub payload (zlen key) (zlen val) = val).
  { unfold payload. rewrite sub_app_skip. rewrite <- (app_nil_r val) at 1. apply sub_prefix. }
  rewrite Hkey, Hval. f_equal. f_equal. unfold rec_size, rec_overhead. cbn [mkey mval]. lia.
Qed.

Theorem read_rec_roundtrip crc v pre m post :
  crc_range crc -> msg_ok m ->
  read_rec crc v (pre ++ enc_rec crc v m ++ post) (zlen pre) = Ok (m, zlen pre + rec_size v m).
Proof. destruct v; [apply read_rec_v1_roundtrip|apply read_rec_v2_roundtrip]. Qed.

(* ---------- records laid out back to back: scanning an encoded log returns exactly the messages, at the
   prefix-sum positions, and ends cleanly at the end of the file *)

Fixpoint placed (v : ver) (pos : Z) (ms : list msg) : list (Z * msg) :=
  match ms with [] => [] | m :: r => (pos, m) :: placed v (pos + rec_size v m) r end.

Lemma read_rec_eof crc v (b : bytes) : read_rec crc v b (zlen b) = Err EEOF.
Proof.
  unfold read_rec. assert (Hs : sub b (zlen b) 28 = []).
  { unfold sub. pose proof (zlen_nonneg b). destruct ((zlen b <? 0) || (28 <? 0)) eqn:E; [reflexivity|].
    rewrite Z.min_id. unfold zlen at 2. rewrite Nat2Z.id, skipn_all. now destruct (Z.to_nat (Z.min 28 (zlen b))). }
  rewrite Hs. reflexivity.
Qed.

Lemma scan_log_encoded crc v : forall ms pre fuel,
  crc_range crc -> Forall msg_ok ms -> (length ms < fuel)%nat ->
  scan_log crc fuel v (pre ++ concat (map (enc_rec crc v) ms)) (zlen pre) =
  (placed v (zlen pre) ms, zlen pre + recs_size v ms, ScanEOF).
Proof.
  induction ms as [|m r IH]; intros pre fuel Hcrc Hok Hf.
  - destruct fuel; [cbn in Hf; lia|]. cbn [scan_log map concat placed recs_size]. rewrite app_nil_r, read_rec_eof.
    f_equal. f_equal. lia.
  - destruct fuel; [cbn in Hf; lia|]. inversion Hok as [|? ? Hm Hr]; subst.
    cbn [scan_log map concat placed recs_size].
    rewrite (read_rec_roundtrip crc v pre m (concat (map (enc_rec crc v) r)) Hcrc Hm).
    assert (Hpos : zlen pre + rec_size v m = zlen (pre ++ enc_rec crc v m)) by (rewrite zlen_app, enc_rec_length; lia).
    rewrite Hpos. rewrite (app_assoc pre). rewrite (IH (pre ++ enc_rec crc v m) fuel Hcrc Hr) by (cbn in Hf; lia).
    f_equal. f_equal. lia.
Qed.

Theorem scan_encoded_log crc v ms :
  crc_range crc -> Forall msg_ok ms ->
  scan_log crc (scan_fuel_of (enc_log crc v ms)) v (enc_log crc v ms) (hdr_size v) =
  (placed v (hdr_size v) ms, log_size v ms, ScanEOF).
Proof.
  intros Hcrc Hok. unfold enc_log, log_size. rewrite <- (enc_log_header_length v).
  apply scan_log_encoded; auto.
  unfold scan_fuel_of. rewrite app_length.
  assert (length ms <= length (concat (map (enc_rec crc v) ms)))%nat.
  { clear. induction ms as [|m r IH]; [cbn; lia|]. cbn [map concat]. rewrite app_length.
    pose proof (enc_rec_length crc v m) as Hl. pose proof (rec_size_pos_28 v m). unfold zlen in Hl. cbn [length]. lia. }
  lia.
Qed.

(* ---------- decoder soundness: what read_rec accepts is, byte for byte, the encoding of what it returns *)

Definition bytes_ok (b : bytes) : Prop := Forall (fun x => (x < 256)%N) b.

Lemma be_snoc n z : be (S n) z = be n (z / 256) ++ [Z.to_N (z mod 256)].
Proof. unfold be. cbn [be_aux]. now rewrite be_aux_app. Qed.

Lemma debe_snoc y d : debe (y ++ [d]) = debe y * 256 + Z.of_N d.
Proof. rewrite debe_app. unfold zlen. cbn [length]. change (256 ^ Z.of_nat 1) with 256. unfold debe at 2. cbn. lia. Qed.

Lemma debe_nonneg x : 0 <= debe x.
Proof.
  induction x as [|d y IH] using rev_ind; [unfold debe; cbn; lia|]. rewrite debe_snoc. lia.
Qed.

Lemma be_debe x : bytes_ok x -> be (length x) (debe x) = x.
Proof.
  induction x as [|d y IH] using rev_ind; intros Hok; [reflexivity|].
  apply Forall_app in Hok. destruct Hok as [Hy Hd]. inversion Hd as [|? ? Hd256 _]; subst.
  rewrite app_length. cbn [length]. replace (length y + 1)%nat with (S (length y)) by lia.
  rewrite be_snoc, debe_snoc.
  assert (Hdz : 0 <= Z.of_N d < 256) by lia.
  replace ((debe y * 256 + Z.of_N d) / 256) with (debe y) by lia.
  replace ((debe y * 256 + Z.of_N d) mod 256) with (Z.of_N d) by lia.
  rewrite N2Z.id. now rewrite (IH Hy).
Qed.

Lemma be_mod n : forall z, be n (z mod 256 ^ Z.of_nat n) = be n z.
Proof.
  induction n as [|n IH]; intros z; [reflexivity|].
  rewrite !be_snoc. rewrite Nat2Z.inj_succ, Z.pow_succ_r by lia.
  assert (HP : 0 < 256 ^ Z.of_nat n) by (apply Z.pow_pos_nonneg; lia).
  set (P := 256 ^ Z.of_nat n) in *.
  assert (H1 : (z mod (256 * P)) / 256 = (z / 256) mod P).
  { rewrite Z.rem_mul_r by lia. rewrite (Z.mul_comm 256 ((z / 256) mod P)), Z.div_add by lia.
    rewrite Z.div_small by (apply Z.mod_pos_bound; lia). lia. }
  assert (H2 : (z mod (256 * P)) mod 256 = z mod 256).
  { rewrite Z.rem_mul_r by lia. rewrite (Z.mul_comm 256 ((z / 256) mod P)), Z.mod_add by lia.
    apply Z.mod_mod. lia. }
  rewrite H1, H2, IH. reflexivity.
Qed.

Lemma be_i64 x : length x = 8%nat -> bytes_ok x -> be 8 (i64 (debe x)) = x.
Proof.
  intros Hl Hok. rewrite <- (be_mod 8). unfold i64.
  assert (Heq : (if two63 <=? debe x then debe x - two64z else debe x) mod 256 ^ Z.of_nat 8 = debe x mod 256 ^ Z.of_nat 8).
  { change (256 ^ Z.of_nat 8) with two64z. destruct (two63 <=? debe x); [|reflexivity].
    unfold two64z. replace (debe x - 18446744073709551616) with (debe x + (-1) * 18446744073709551616) by lia.
    apply Z.mod_add. lia. }
  rewrite Heq, be_mod. rewrite <- Hl. now apply be_debe.
Qed.

Lemma be_len32 x l : length x = 4%nat -> bytes_ok x -> i32 (debe x) = l -> 0 <= l -> be 4 l = x.
Proof.
  intros Hl Hok Hi Hl0. rewrite <- (be_mod 4). subst l. unfold i32 in *.
  assert (Heq : (if two31 <=? debe x then debe x - two32 else debe x) mod 256 ^ Z.of_nat 4 = debe x mod 256 ^ Z.of_nat 4).
  { change (256 ^ Z.of_nat 4) with two32. destruct (two31 <=? debe x); [|reflexivity].
    unfold two32. replace (debe x - 4294967296) with (debe x + (-1) * 4294967296) by lia. apply Z.mod_add. lia. }
  rewrite Heq, be_mod. rewrite <- Hl. now apply be_debe.
Qed.

(* slices of full length *)
Lemma zlen_sub_le (b : bytes) p n : 0 <= n -> zlen (sub b p n) <= n.
Proof.
  intros Hn. unfold sub. destruct ((p <? 0) || (n <? 0)); [unfold zlen; cbn; lia|].
  unfold zlen. rewrite firstn_length. lia.
Qed.

Lemma sub_full (b : bytes) p n :
  0 <= p -> 0 < n -> zlen (sub b p n) = n ->
  exists pre post, b = pre ++ sub b p n ++ post /\ zlen pre = p.
Proof.
  intros Hp Hn Hl. unfold sub in *. destruct ((p <? 0) || (n <? 0)) eqn:E; [unfold zlen in Hl; cbn in Hl; lia|].
  unfold zlen in Hl. rewrite firstn_length, skipn_length in Hl.
  pose proof (zlen_nonneg b). unfold zlen in *.
  assert (Hpb : p + n <= Z.of_nat (length b)) by lia.
  rewrite (Z.min_l p) by lia. rewrite (Z.min_l n) by lia.
  exists (firstn (Z.to_nat p) b), (skipn (Z.to_nat n) (skipn (Z.to_nat p) b)).
  split.
  - rewrite firstn_skipn. now rewrite firstn_skipn.
  - rewrite firstn_length. lia.
Qed.

Lemma bytes_ok_sub b p n : bytes_ok b -> bytes_ok (sub b p n).
Proof.
  intros Hok. unfold sub. destruct ((p <? 0) || (n <? 0)); [constructor|].
  unfold bytes_ok in *. rewrite Forall_forall in *. intros x Hx. apply Hok.
  apply in_firstn in Hx. eapply in_skipn; eauto.
Qed.

Lemma sub_sub (b : bytes) p n a c :
  0 <= p -> 0 < n -> zlen (sub b p n) = n -> 0 <= a -> 0 <= c -> a + c <= n ->
  sub (sub b p n) a c = sub b (p + a) c.
Proof.
  intros Hp Hn Hl Ha Hc Hac. destruct (sub_full b p n Hp Hn Hl) as (pre & post & Hb & Hpre).
  set (x := sub b p n) in *. clearbody x. rewrite Hb. rewrite <- Hpre. rewrite sub_shift by lia.
  (* inside x ++ post, a slice that stays within x *)
  unfold sub. destruct ((a <? 0) || (c <? 0)) eqn:E; [reflexivity|].
  rewrite zlen_app. pose proof (zlen_nonneg post).
  rewrite (Z.min_l a (zlen x)) by lia. rewrite (Z.min_l a (zlen x + zlen post)) by lia.
  rewrite (Z.min_l c (zlen x)) by lia. rewrite (Z.min_l c (zlen x + zlen post)) by lia.
  rewrite skipn_app. rewrite firstn_app.
  replace (Z.to_nat c - length (skipn (Z.to_nat a) x))%nat with O by (rewrite skipn_length; unfold zlen in *; lia).
  cbn [firstn]. now rewrite app_nil_r.
Qed.

Lemma sub_concat (b : bytes) p n1 n2 :
  0 <= p -> 0 < n1 -> 0 <= n2 -> zlen (sub b p n1) = n1 -> zlen (sub b (p + n1) n2) = n2 ->
  sub b p (n1 + n2) = sub b p n1 ++ sub b (p + n1) n2.
Proof.
  intros Hp Hn1 Hn2 Hl1 Hl2.
  destruct (Z.eq_dec n2 0) as [->|Hn2pos].
  - rewrite Z.add_0_r.
    assert (Hnil : sub b (p + n1) 0 = []).
    { unfold sub. destruct ((p + n1 <? 0) || (0 <? 0)); [reflexivity|]. rewrite Z.min_l by apply zlen_nonneg. reflexivity. }
    now rewrite Hnil, app_nil_r.
  - destruct (sub_full b p n1 Hp Hn1 Hl1) as (pre & post & Hb & Hpre).
    destruct (sub_full b (p + n1) n2 ltac:(lia) ltac:(lia) Hl2) as (pre2 & post2 & Hb2 & Hpre2).
    set (x := sub b p n1) in *. set (y := sub b (p + n1) n2) in *. clearbody x y.
    assert (Heq : (pre ++ x) ++ post = pre2 ++ y ++ post2) by (rewrite <- app_assoc, <- Hb; exact Hb2).
    destruct (app_eq_len _ _ _ _ Heq) as [Hp2 Hpost].
    { assert (zlen (pre ++ x) = zlen pre2) by (rewrite zlen_app; lia). unfold zlen in *. lia. }
    rewrite Hb. rewrite Hpost. rewrite <- Hpre.
    replace (n1 + n2) with (zlen (x ++ y)) by (rewrite zlen_app; lia).
    rewrite (app_assoc x y post2). apply sub_mid.
Qed.

Lemma zlen_sub_exact (b : bytes) p n : 0 <= p -> 0 <= n -> p + n <= zlen b -> zlen (sub b p n) = n.
Proof.
  intros Hp Hn Hle. unfold sub. destruct ((p <? 0) || (n <? 0)) eqn:E; [lia|].
  rewrite (Z.min_l n) by lia. rewrite (Z.min_l p) by lia.
  unfold zlen in *. rewrite firstn_length, skipn_length. lia.
Qed.

Lemma sub_length_nat (b : bytes) p n k : zlen (sub b p n) = Z.of_nat k -> length (sub b p n) = k.
Proof. unfold zlen. lia. Qed.

(* a slice of full length splits into consecutive slices *)
Lemma split2 (x : bytes) a : 0 <= a <= zlen x -> x = sub x 0 a ++ sub x a (zlen x - a).
Proof.
  intros Ha. destruct (Z.eq_dec a 0) as [->|Hne].
  - assert (sub x 0 0 = []) by (unfold sub; cbn; now rewrite Z.min_l by apply zlen_nonneg).
    rewrite H, Z.sub_0_r. cbn [app]. symmetry. apply sub_0_all.
  - rewrite <- (sub_0_all x) at 1. replace (zlen x) with (a + (zlen x - a)) at 1 by lia.
    replace a with (0 + a) at 3 by lia.
    apply sub_concat; try lia; apply zlen_sub_exact; lia.
Qed.

Theorem read_rec_v2_sound crc b pos m nxt :
  bytes_ok b -> 0 <= pos -> read_rec crc V2 b pos = Ok (m, nxt) ->
  nxt = pos + rec_size V2 m /\ sub b pos (rec_size V2 m) = enc_rec crc V2 m.
Proof.
  intros Hok Hpos. unfold read_rec.
  set (hdr := sub b pos 28).
  pose proof (zlen_sub_le b pos 28 ltac:(lia)) as Hle28. fold hdr in Hle28.
  destruct (zlen hdr =? 0) eqn:E0; [discriminate|]. destruct (zlen hdr <? 28) eqn:E28; [discriminate|].
  assert (Hh28 : zlen hdr = 28) by lia.
  set (kl := i32 (debe (sub hdr 20 4))). set (vl := i32 (debe (sub hdr 24 4))).
  destruct ((kl <? 0) || (vl <? 0)) eqn:Eneg; [discriminate|].
  destruct (max_body <? kl + vl) eqn:Emax; [discriminate|].
  set (payload := sub b (pos + 28) (kl + vl + 8)).
  pose proof (zlen_sub_le b (pos + 28) (kl + vl + 8) ltac:(lia)) as Hlep. fold payload in Hlep.
  destruct (zlen payload <? kl + vl + 8) eqn:Epl; [discriminate|].
  assert (Hpl : zlen payload = kl + vl + 8) by lia.
  destruct (negb (crc (sub hdr 4 24 ++ payload) =? debe (sub hdr 0 4))) eqn:Ecrc; [discriminate|].
  destruct (negb (bytes_eqb (sub payload (kl + vl) 8) trailer)) eqn:Etr; [discriminate|].
  intros E. injection E as <- <-. unfold rec_size, rec_overhead. cbn [mkey mval].
  assert (Hkl0 : 0 <= kl) by lia. assert (Hvl0 : 0 <= vl) by lia.
  assert (Hhok : bytes_ok hdr) by (apply bytes_ok_sub; exact Hok).
  assert (Hpok : bytes_ok payload) by (apply bytes_ok_sub; exact Hok).
  assert (Hkey : zlen (sub payload 0 kl) = kl) by (apply zlen_sub_exact; lia).
  assert (Hval : zlen (sub payload kl vl) = vl) by (apply zlen_sub_exact; lia).
  rewrite Hkey, Hval.
  split; [lia|].
  (* the pieces of the header *)
  assert (Hs : forall p n, 0 <= p -> 0 <= n -> p + n <= 28 -> zlen (sub hdr p n) = n)
    by (intros p n H1 H2 H3; apply zlen_sub_exact; lia).
  assert (Ho8 : be 8 (i64 (debe (sub hdr 4 8))) = sub hdr 4 8).
  { apply be_i64; [apply sub_length_nat; apply Hs; lia|apply bytes_ok_sub; exact Hhok]. }
  assert (Ht8 : be 8 (i64 (debe (sub hdr 12 8))) = sub hdr 12 8).
  { apply be_i64; [apply sub_length_nat; apply Hs; lia|apply bytes_ok_sub; exact Hhok]. }
  assert (Hk4 : be 4 kl = sub hdr 20 4).
  { apply be_len32; [apply sub_length_nat; apply Hs; lia|apply bytes_ok_sub; exact Hhok|reflexivity|lia]. }
  assert (Hv4 : be 4 vl = sub hdr 24 4).
  { apply be_len32; [apply sub_length_nat; apply Hs; lia|apply bytes_ok_sub; exact Hhok|reflexivity|lia]. }
  (* key ++ val ++ trailer = payload *)
  assert (Htr : sub payload (kl + vl) 8 = trailer).
  { destruct (bytes_eqb (sub payload (kl + vl) 8) trailer) eqn:Eb; [|discriminate].
    clear -Eb. revert Eb. generalize (sub payload (kl + vl) 8) as a, trailer as t.
    induction a as [|x a IH]; intros [|y t] E; cbn in E; try discriminate; [reflexivity|].
    apply andb_prop in E. destruct E as [E1 E2]. apply N.eqb_eq in E1. subst. f_equal. now apply IH. }
  assert (Hsplit : payload = sub payload 0 kl ++ sub payload kl vl ++ trailer).
  { rewrite (split2 payload kl) at 1 by lia. f_equal.
    rewrite Hpl. replace (kl + vl + 8 - kl) with (vl + 8) by lia.
    set (rest := sub payload kl (vl + 8)).
    assert (Hrl : zlen rest = vl + 8) by (apply zlen_sub_exact; lia).
    rewrite (split2 rest vl) by lia. rewrite Hrl. replace (vl + 8 - vl) with 8 by lia.
    unfold rest.
    destruct (Z.eq_dec (vl + 8) 0); [lia|].
    rewrite (sub_sub payload kl (vl + 8) 0 vl ltac:(lia) ltac:(lia) Hrl ltac:(lia) ltac:(lia) ltac:(lia)).
    rewrite (sub_sub payload kl (vl + 8) vl 8 ltac:(lia) ltac:(lia) Hrl ltac:(lia) ltac:(lia) ltac:(lia)).
    rewrite Z.add_0_r. rewrite Htr. reflexivity. }
  (* the 24 header bytes covered by the CRC *)
  assert (H24 : sub hdr 4 24 = sub hdr 4 8 ++ sub hdr 12 8 ++ sub hdr 20 4 ++ sub hdr 24 4).
  { replace 24 with (8 + 16) at 1 by lia. rewrite (sub_concat hdr 4 8 16) by (try lia; apply Hs; lia).
    f_equal. replace (4 + 8) with 12 by lia. replace 16 with (8 + 8) by lia.
    rewrite (sub_concat hdr 12 8 8) by (try lia; apply Hs; lia). f_equal.
    replace (12 + 8) with 20 by lia. replace 8 with (4 + 4) at 1 by lia.
    rewrite (sub_concat hdr 20 4 4) by (try lia; apply Hs; lia). reflexivity. }
  assert (Hcrc : crc (sub hdr 4 24 ++ payload) = debe (sub hdr 0 4)).
  { destruct (crc (sub hdr 4 24 ++ payload) =? debe (sub hdr 0 4)) eqn:Ec; [lia|discriminate]. }
  assert (Hc4 : be 4 (debe (sub hdr 0 4)) = sub hdr 0 4).
  { replace 4%nat with (length (sub hdr 0 4)) at 1 by (apply sub_length_nat; apply Hs; lia).
    apply be_debe. apply bytes_ok_sub. exact Hhok. }
  (* put the record back together *)
  unfold enc_rec. cbn [moff mtime mkey mval]. rewrite Hkey, Hval, Ho8, Ht8, Hk4, Hv4.
  assert (Hbody : sub hdr 4 8 ++ sub hdr 12 8 ++ sub hdr 20 4 ++ sub hdr 24 4 ++
                  sub payload 0 kl ++ sub payload kl vl ++ trailer = sub hdr 4 24 ++ payload).
  { rewrite H24, <- !app_assoc. rewrite <- Hsplit. reflexivity. }
  rewrite Hbody, Hcrc, Hc4.
  assert (Hhdr : hdr = sub hdr 0 4 ++ sub hdr 4 24).
  { rewrite (split2 hdr 4) at 1 by lia. now rewrite Hh28. }
  rewrite app_assoc, <- Hhdr.
  replace (36 + kl + vl) with (28 + (kl + vl + 8)) by lia.
  unfold hdr, payload. apply sub_concat; try lia; fold hdr; fold payload; assumption.
Qed.

(* what the V2 decoder returns always satisfies the writer's guards *)
Lemma i64_range u : 0 <= u < two64z -> - two63 <= i64 u < two63.
Proof. intros Hu. unfold i64, two63, two64z in *. destruct (9223372036854775808 <=? u) eqn:E; lia. Qed.

Lemma debe_bound x : bytes_ok x -> 0 <= debe x < 256 ^ zlen x.
Proof.
  induction x as [|d y IH] using rev_ind; intros Hok; [unfold debe, zlen; cbn; lia|].
  apply Forall_app in Hok. destruct Hok as [Hy Hd]. inversion Hd as [|? ? Hd256 _]; subst.
  rewrite debe_snoc, zlen_app. unfold zlen at 2. cbn [length].
  replace (zlen y + Z.of_nat 1) with (Z.succ (zlen y)) by lia. rewrite Z.pow_succ_r by apply zlen_nonneg.
  specialize (IH Hy). nia.
Qed.

Theorem read_rec_v2_msg_ok crc b pos m nxt :
  bytes_ok b -> read_rec crc V2 b pos = Ok (m, nxt) -> msg_ok m.
Proof.
  intros Hok. unfold read_rec. set (hdr := sub b pos 28).
  pose proof (zlen_sub_le b pos 28 ltac:(lia)) as Hle28. fold hdr in Hle28.
  destruct (zlen hdr =? 0) eqn:E0; [discriminate|]. destruct (zlen hdr <? 28) eqn:E28; [discriminate|].
  set (kl := i32 (debe (sub hdr 20 4))). set (vl := i32 (debe (sub hdr 24 4))).
  destruct ((kl <? 0) || (vl <? 0)) eqn:Eneg; [discriminate|].
  destruct (max_body <? kl + vl) eqn:Emax; [discriminate|].
  set (payload := sub b (pos + 28) (kl + vl + 8)).
  pose proof (zlen_sub_le b (pos + 28) (kl + vl + 8) ltac:(lia)) as Hlep. fold payload in Hlep.
  destruct (zlen payload <? kl + vl + 8) eqn:Epl; [discriminate|].
  destruct (negb (crc (sub hdr 4 24 ++ payload) =? debe (sub hdr 0 4))); [discriminate|].
  destruct (negb (bytes_eqb (sub payload (kl + vl) 8) trailer)); [discriminate|].
  intros E. injection E as <- _. unfold msg_ok. cbn [moff mtime mkey mval].
  assert (Hhok : bytes_ok hdr) by (apply bytes_ok_sub; exact Hok).
  assert (H8 : forall p, 0 <= p -> p + 8 <= 28 -> 0 <= debe (sub hdr p 8) < two64z).
  { intros p Hp Hp8. pose proof (debe_bound (sub hdr p 8) (bytes_ok_sub hdr p 8 Hhok)) as Hb.
    rewrite (zlen_sub_exact hdr p 8) in Hb by lia. exact Hb. }
  split; [apply i64_range; apply H8; lia|]. split; [apply i64_range; apply H8; lia|].
  rewrite (zlen_sub_exact payload 0 kl) by lia. rewrite (zlen_sub_exact payload kl vl) by lia. lia.
Qed.

(* the decoder's answer depends only on the bytes of the record it read (C14: calls answered from
   undamaged bytes return what they returned before) *)
Theorem read_rec_v2_ext crc b b' pos m nxt :
  crc_range crc -> bytes_ok b -> 0 <= pos ->
  read_rec crc V2 b pos = Ok (m, nxt) ->
  sub b' pos (nxt - pos) = sub b pos (nxt - pos) ->
  read_rec crc V2 b' pos = Ok (m, nxt).
Proof.
  intros Hcrc Hok Hpos Hr Hsame.
  destruct (read_rec_v2_sound crc b pos m nxt Hok Hpos Hr) as [Hn Henc].
  pose proof (read_rec_v2_msg_ok crc b pos m nxt Hok Hr) as Hmok.
  replace (nxt - pos) with (rec_size V2 m) in Hsame by lia.
  rewrite Henc in Hsame.
  pose proof (rec_size_pos_28 V2 m) as H28.
  assert (Hfull : zlen (sub b' pos (rec_size V2 m)) = rec_size V2 m) by (rewrite Hsame; apply enc_rec_length).
  destruct (sub_full b' pos (rec_size V2 m) Hpos ltac:(lia) Hfull) as (pre & post & Hb' & Hpre).
  rewrite Hsame in Hb'. subst nxt. rewrite Hb'. subst pos.
  now apply read_rec_v2_roundtrip.
Qed.

(* two different messages never have the same V2 encoding *)
Theorem enc_rec_v2_injective crc m1 m2 :
  crc_range crc -> msg_ok m1 -> msg_ok m2 -> enc_rec crc V2 m1 = enc_rec crc V2 m2 -> m1 = m2.
Proof.
  intros Hcrc H1 H2 E.
  pose proof (read_rec_v2_roundtrip crc [] m1 [] Hcrc H1) as R1.
  pose proof (read_rec_v2_roundtrip crc [] m2 [] Hcrc H2) as R2.
  cbn [app] in R1, R2. rewrite E in R1. rewrite R1 in R2. now injection R2.
Qed.
