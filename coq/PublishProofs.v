(* PublishProofs.v — C02 and the publish half of C01 on the model: Publish
   assigns exactly the offsets NextOffset .. NextOffset+n-1, returns
   NextOffset+n, appends exactly the given messages to the abstract log and
   preserves the invariant, with or without rollover. *)
From KV Require Import Base Model ListAux SpecFacts SearchProofs SegProofs ReaderProofs Spec LogInv
     ConsumeProofs GetProofs AbsFacts.
From Coq Require Import ZifyBool ZifyNat.

Section PublishProofs.
Variable H : bytes -> Z.

(* ---------- assigned offsets *)

Definition with_off (o : Z) (m : msg) : msg := mkMsg o (mtime m) (mkey m) (mval m).

Lemma assign_offsets_spec next ms :
  assign_offsets next ms = map (fun om => with_off (fst om) (snd om)) (combine (seq_from next (length ms)) ms).
Proof. revert next; induction ms as [|m r IH]; intros next; [reflexivity|]. cbn. f_equal. apply IH. Qed.

Lemma assign_offsets_length next ms : length (assign_offsets next ms) = length ms.
Proof. revert next; induction ms as [|m r IH]; intros next; cbn; [reflexivity|]. now rewrite IH. Qed.

Lemma assign_offsets_offs next ms : map moff (assign_offsets next ms) = seq_from next (length ms).
Proof. revert next; induction ms as [|m r IH]; intros next; cbn; [reflexivity|]. now rewrite IH. Qed.

Lemma seq_from_in z n x : In x (seq_from z n) -> z <= x < z + Z.of_nat n.
Proof.
  revert z; induction n as [|n IH]; intros z Hin; [contradiction|]. cbn in Hin.
  destruct Hin as [<-|Hin]; [lia|]. apply IH in Hin. lia.
Qed.

Lemma assign_offsets_range next ms m : In m (assign_offsets next ms) -> next <= moff m < next + zlen ms.
Proof.
  intros Hin. apply (in_map moff) in Hin. rewrite assign_offsets_offs in Hin. apply seq_from_in in Hin.
  unfold zlen. lia.
Qed.

Lemma seq_from_sorted z n : sorted_lt (seq_from z n).
Proof.
  revert z; induction n as [|n IH]; intros z i j a b Hi Hj Hij.
  - unfold znth in Hi. destruct (i <? 0); [discriminate|]. destruct (Z.to_nat i); discriminate.
  - pose proof (znth_some _ _ _ Hi). pose proof (znth_some _ _ _ Hj).
    cbn [seq_from] in *. destruct (Z.eq_dec i 0) as [->|Hi0].
    + rewrite znth_0 in Hi. injection Hi as <-. rewrite znth_cons_pos in Hj by lia.
      apply znth_in in Hj. apply seq_from_in in Hj. lia.
    + rewrite znth_cons_pos in Hi, Hj by lia. apply (IH (z + 1) (i - 1) (j - 1)); auto; lia.
Qed.

Lemma assign_offsets_sorted next ms : recs_sorted (assign_offsets next ms).
Proof. unfold recs_sorted. rewrite assign_offsets_offs. apply seq_from_sorted. Qed.

Lemma last_opt_assign next m ms :
  option_map moff (last_opt (assign_offsets next (m :: ms))) = Some (next + zlen (m :: ms) - 1).
Proof.
  rewrite <- last_opt_map, assign_offsets_offs.
  remember (m :: ms) as l eqn:El. assert (Hl : (0 < length l)%nat) by (subst; cbn; lia). clear El m ms.
  revert next. induction l as [|a l IH]; intros next; [cbn in Hl; lia|].
  destruct l as [|b l].
  - cbn. f_equal. unfold zlen. cbn. lia.
  - cbn [length seq_from] in *. rewrite last_opt_cons_cons. rewrite (IH ltac:(cbn; lia) (next + 1)).
    f_equal. unfold zlen. cbn [length]. lia.
Qed.

(* ---------- sortedness of an append *)

Lemma sorted_lt_app a b :
  sorted_lt a -> sorted_lt b -> (forall x y, In x a -> In y b -> x < y) -> sorted_lt (a ++ b).
Proof.
  intros Ha Hb Hab i j x y Hi Hj Hij.
  pose proof (znth_some _ _ _ Hi) as Hri. pose proof (znth_some _ _ _ Hj) as Hrj.
  rewrite zlen_app in Hri, Hrj.
  destruct (Z_lt_le_dec i (zlen a)) as [Hia|Hia]; destruct (Z_lt_le_dec j (zlen a)) as [Hja|Hja].
  - apply (Ha i j); auto.
    + unfold znth in *. destruct (i <? 0); [discriminate|]. rewrite nth_error_app1 in Hi by (unfold zlen in *; lia). exact Hi.
    + unfold znth in *. destruct (j <? 0); [discriminate|]. rewrite nth_error_app1 in Hj by (unfold zlen in *; lia). exact Hj.
  - apply Hab.
    + unfold znth in Hi. destruct (i <? 0); [discriminate|]. rewrite nth_error_app1 in Hi by (unfold zlen in *; lia).
      eapply nth_error_In; eauto.
    + unfold znth in Hj. destruct (j <? 0); [discriminate|]. rewrite nth_error_app2 in Hj by (unfold zlen in *; lia).
      eapply nth_error_In; eauto.
  - lia.
  - apply (Hb (i - zlen a) (j - zlen a)); try lia.
    + unfold znth in *. destruct (i <? 0) eqn:E; [discriminate|]. destruct (i - zlen a <? 0) eqn:E2; [lia|].
      rewrite nth_error_app2 in Hi by (unfold zlen in *; lia).
      replace (Z.to_nat (i - zlen a)) with (Z.to_nat i - length a)%nat by (unfold zlen; lia). exact Hi.
    + unfold znth in *. destruct (j <? 0) eqn:E; [discriminate|]. destruct (j - zlen a <? 0) eqn:E2; [lia|].
      rewrite nth_error_app2 in Hj by (unfold zlen in *; lia).
      replace (Z.to_nat (j - zlen a)) with (Z.to_nat j - length a)%nat by (unfold zlen; lia). exact Hj.
Qed.

(* ---------- chains ending in a replaced head *)

Lemma chain_ok_replace_last pre x x' :
  chain_ok (pre ++ [x]) -> sbase x' = sbase x -> chain_ok (pre ++ [x']).
Proof.
  induction pre as [|a pre IH]; intros Hc Hb; [cbn; tauto|].
  cbn [app] in *. destruct pre as [|b pre'].
  - cbn in *. rewrite Hb. tauto.
  - cbn [app] in *. cbn [chain_ok] in Hc |- *. destruct Hc as [Hh Ht]. split; [exact Hh|].
    apply IH; assumption.
Qed.

Lemma chain_ok_snoc pre x y :
  chain_ok (pre ++ [x]) -> sbase x < sbase y -> (forall m, In m (srecs x) -> moff m < sbase y) ->
  srecs x <> [] -> chain_ok ((pre ++ [x]) ++ [y]).
Proof.
  induction pre as [|a pre IH]; intros Hc Hb Ho Hn.
  - cbn. tauto.
  - cbn [app] in *. destruct pre as [|b pre'].
    + cbn in *. tauto.
    + cbn [app] in *. cbn [chain_ok] in Hc |- *. destruct Hc as [Hh Ht]. split; [exact Hh|].
      apply IH; assumption.
Qed.

Lemma replace_last {A} (pre : list A) x y : replace_nth (length (pre ++ [x]) - 1) (pre ++ [x]) y = pre ++ [y].
Proof.
  rewrite app_length. cbn [length]. replace (length pre + 1 - 1)%nat with (length pre) by lia.
  induction pre as [|a pre IH]; [reflexivity|]. cbn. now rewrite IH.
Qed.

Lemma Forall_app_last {A} (P : A -> Prop) pre x : Forall P (pre ++ [x]) <-> Forall P pre /\ P x.
Proof.
  rewrite Forall_app. split; intros [Ha Hb]; split; auto. now inversion Hb.
Qed.

(* ---------- the core: appending a batch to the head *)

Definition append_head (c : cfg) (hd1 : seg) (ms : list msg) (ts : Z) : seg :=
  mkSeg (sbase hd1) (sver hd1) (srecs hd1 ++ assign_offsets (recs_next hd1) ms)
        (Some (match sidx hd1 with Some (iv, _) => iv | None => cnewver c end,
               head_items hd1 ++
               derive_from H (cparams c) (sver hd1) (seg_log_size hd1) ts (assign_offsets (recs_next hd1) ms))).

Lemma publish_core (c : cfg) pre hd1 ms ts :
  Forall seg_inv (pre ++ [hd1]) -> chain_ok (pre ++ [hd1]) -> head_inv hd1 ->
  let nxt := recs_next hd1 in
  let newrecs := assign_offsets nxt ms in
  let hd2 := append_head c hd1 ms ts in
  Forall seg_inv (pre ++ [hd2]) /\ chain_ok (pre ++ [hd2]) /\ head_inv hd2 /\
  all_recs (pre ++ [hd2]) = all_recs (pre ++ [hd1]) ++ newrecs /\
  recs_next hd2 = nxt + zlen ms /\
  idx_next hd2 (head_items hd2) = nxt + zlen ms.
Proof.
  intros HF Hch Hhd. cbn zeta. unfold append_head.
  apply Forall_app_last in HF. destruct HF as [HFpre Hinv1].
  destruct Hhd as (iv0 & items0 & Hsi & Hm0).
  pose proof Hinv1 as (Hs1 & Hnn1 & Hfb1 & Hix1 & Hb1).
  set (nxt := recs_next hd1). set (newrecs := assign_offsets nxt ms).
  assert (Hnxt0 : 0 <= nxt) by (apply recs_next_nonneg; assumption).
  assert (Hhi : head_items hd1 = items0) by (unfold head_items; now rewrite Hsi).
  rewrite Hsi, !Hhi. lazy beta iota.
  set (hd2 := mkSeg (sbase hd1) (sver hd1) (srecs hd1 ++ newrecs)
                    (Some (iv0, items0 ++ derive_from H (cparams c) (sver hd1) (seg_log_size hd1) ts newrecs))).
  assert (Hm2 : items_match (sver hd2) (hdr_size (sver hd2)) (srecs hd2)
                            (items0 ++ derive_from H (cparams c) (sver hd1) (seg_log_size hd1) ts newrecs)).
  { cbn [sver srecs hd2]. apply items_match_app; [exact Hm0|]. unfold seg_log_size, log_size. apply derive_from_match. }
  assert (Hinv2 : seg_inv hd2).
  { repeat split.
    - cbn [srecs hd2]. unfold recs_sorted. rewrite map_app. apply sorted_lt_app.
      + exact Hs1.
      + apply assign_offsets_sorted.
      + intros x y Hx Hy. apply in_map_iff in Hx. destruct Hx as (mx & <- & Hmx).
        apply in_map_iff in Hy. destruct Hy as (my & <- & Hmy).
        pose proof (recs_lt_next hd1 mx Hinv1 Hmx). pose proof (assign_offsets_range nxt ms my Hmy). unfold nxt in *. lia.
    - cbn [srecs hd2]. intros m Hin. apply in_app_or in Hin. destruct Hin as [Hin|Hin]; [now apply Hnn1|].
      pose proof (assign_offsets_range nxt ms m Hin). lia.
    - unfold first_is_base in *. cbn [srecs sbase hd2]. destruct (srecs hd1) as [|m0 r0] eqn:Er.
      + cbn [app]. destruct ms as [|q qs]; [exact I|]. cbn. unfold nxt, recs_next. now rewrite Er.
      + exact Hfb1.
    - intros iv items E. cbn in E. injection E as <- <-. right. exact Hm2.
    - exact Hb1. }
  split; [apply Forall_app_last; split; assumption|].
  split; [eapply chain_ok_replace_last; eauto|].
  split; [eexists iv0, _; split; [reflexivity|exact Hm2]|].
  assert (Hrn : recs_next hd2 = nxt + zlen ms).
  { unfold recs_next. cbn [srecs sbase hd2]. destruct ms as [|q qs].
    - cbn [assign_offsets newrecs]. rewrite app_nil_r. fold (recs_next hd1). unfold zlen. cbn. unfold nxt. lia.
    - rewrite last_opt_app2 by (unfold newrecs; cbn; discriminate).
      pose proof (last_opt_assign nxt q qs) as Hl. fold newrecs in Hl.
      destruct (last_opt newrecs) as [ml|]; [|discriminate]. cbn [option_map] in Hl. injection Hl as Hl. lia. }
  split; [|split; [exact Hrn|]].
  - rewrite !all_recs_app, !all_recs_cons. cbn [srecs hd2]. unfold all_recs. cbn. now rewrite !app_nil_r, app_assoc.
  - rewrite <- Hrn. unfold head_items. cbn [sidx hd2]. apply idx_next_recs.
    apply seg_inv_seg_ok; assumption.
Qed.

(* ---------- log.Publish *)

Definition sizes_ok (ms : list msg) : Prop := existsb msg_too_big ms = false.

Theorem log_publish_correct st ms :
  Inv st -> (exists c, opened st = Some c /\ cro c = false) -> sizes_ok ms ->
  exists st2, log_publish H st ms = Ok (st2, anext (abs st) + zlen ms) /\
              Inv st2 /\ abs st2 = spec_publish (abs st) ms /\ opened st2 = opened st.
Proof.
  intros HInv (c & Hc & Hro) Hsz. pose proof HInv as (Hne & HF & Hch & Hv & c' & Hc' & Hhead).
  rewrite Hc in Hc'. injection Hc' as <-. specialize (Hhead Hro).
  unfold log_publish, get_cfg. rewrite Hc. cbn [bind]. rewrite Hro.
  unfold head_seg. destruct (last_opt (segs st)) as [hd|] eqn:Ehd; [|contradiction]. cbn [bind].
  destruct (@exists_last _ (segs st) Hne) as (pre & hd' & Esegs).
  assert (hd' = hd) by (rewrite Esegs, last_opt_app in Ehd; now injection Ehd). subst hd'.
  assert (Hhd_inv : seg_inv hd) by (rewrite Forall_forall in HF; apply HF; rewrite Esegs; apply in_or_app; right; left; reflexivity).
  assert (Hnxt : idx_next hd (head_items hd) = recs_next hd).
  { destruct Hhead as (iv & items & Hsi & Hm). unfold head_items. rewrite Hsi. apply idx_next_recs.
    apply seg_inv_seg_ok; assumption. }
  rewrite Hnxt. unfold sizes_ok in Hsz.
  assert (Hanext : anext (abs st) = recs_next hd) by (unfold abs, wnext; cbn; now rewrite Ehd).
  assert (Habs_live : live (abs st) = all_recs (pre ++ [hd])) by (unfold abs; cbn; now rewrite Esegs).
  assert (Hspec : forall newlive, newlive = live (abs st) ++ assign_offsets (recs_next hd) ms ->
            mkAlog newlive (recs_next hd + zlen ms) = spec_publish (abs st) ms).
  { intros nl ->. unfold spec_publish. rewrite Hanext, assign_offsets_spec. unfold with_off, zlen. reflexivity. }
  destruct (needs_rollover c hd) eqn:Eroll.
  - (* rollover: a new empty head at NextOffset *)
    rewrite Hsz.
    set (nh := new_head c (recs_next hd)).
    assert (Hnh_inv : seg_inv nh).
    { unfold nh, new_head. repeat split; cbn.
      - intros i j a b Hi. unfold znth in Hi. destruct (i <? 0); [discriminate|]. destruct (Z.to_nat i); discriminate.
      - contradiction.
      - intros iv items E. injection E as <- <-. left. reflexivity.
      - now apply recs_next_nonneg. }
    assert (Hrecs_ne : srecs hd <> []).
    { unfold needs_rollover in Eroll. destruct (srecs hd); [rewrite andb_false_r in Eroll; discriminate|discriminate]. }
    assert (HF1 : Forall seg_inv ((pre ++ [hd]) ++ [nh])).
    { apply Forall_app_last. split; [rewrite <- Esegs; assumption|assumption]. }
    assert (Hch1 : chain_ok ((pre ++ [hd]) ++ [nh])).
    { apply chain_ok_snoc; [rewrite <- Esegs; assumption| | |assumption].
      - cbn. destruct (srecs hd) as [|m0 r0] eqn:Er; [congruence|].
        assert (moff m0 = sbase hd) by (destruct Hhd_inv as (_ & _ & Hfb & _); unfold first_is_base in Hfb; now rewrite Er in Hfb).
        pose proof (recs_lt_next hd m0 Hhd_inv ltac:(rewrite Er; left; reflexivity)). lia.
      - intros m Hm. cbn. now apply recs_lt_next. }
    assert (Hhnh : head_inv nh).
    { exists (cnewver c), []. split; [reflexivity|]. split; reflexivity. }
    assert (Hrn_nh : recs_next nh = recs_next hd) by reflexivity.
    cbn [segs]. rewrite Esegs. rewrite replace_last.
    match goal with |- context [set_segs _ (_ ++ [?x])] => set (hd2 := x) end.
    assert (Ehd2 : exists ts, hd2 = append_head c nh ms ts) by (eexists; reflexivity).
    destruct Ehd2 as (ts & Ehd2). clearbody hd2. subst hd2.
    pose proof (publish_core c (pre ++ [hd]) nh ms ts HF1 Hch1 Hhnh) as Hcore.
    cbn zeta in Hcore. rewrite Hrn_nh in Hcore.
    set (hd2 := append_head c nh ms ts) in *. clearbody hd2.
    destruct Hcore as (HF2 & Hch2 & Hh2 & Hall & Hrn2 & Hin2).
    eexists. split.
    { f_equal. f_equal. rewrite Hanext. exact Hin2. }
    split; [|split].
    + split; [cbn; destruct (pre ++ [hd]); discriminate|]. split; [exact HF2|]. split; [exact Hch2|].
      split; [cbn; exact Hv|]. exists c. split; [cbn; first [reflexivity|exact Hc]|]. intros _. cbn [segs set_segs]. rewrite last_opt_app. exact Hh2.
    + unfold abs, wnext. cbn [segs set_segs]. rewrite last_opt_app. rewrite Hrn2, Hall.
      apply Hspec. rewrite Habs_live, !all_recs_app, !all_recs_cons. cbn [srecs nh new_head].
      unfold all_recs at 3. cbn. now rewrite !app_nil_r.
    + reflexivity.
  - (* no rollover *)
    rewrite Hsz.
    assert (HF1 : Forall seg_inv (pre ++ [hd])) by (rewrite <- Esegs; assumption).
    assert (Hch1 : chain_ok (pre ++ [hd])) by (rewrite <- Esegs; assumption).
    rewrite Esegs. rewrite replace_last.
    match goal with |- context [set_segs _ (_ ++ [?x])] => set (hd2 := x) end.
    assert (Ehd2 : exists ts, hd2 = append_head c hd ms ts) by (eexists; reflexivity).
    destruct Ehd2 as (ts & Ehd2). clearbody hd2. subst hd2.
    pose proof (publish_core c pre hd ms ts HF1 Hch1 Hhead) as Hcore. cbn zeta in Hcore.
    set (hd2 := append_head c hd ms ts) in *. clearbody hd2.
    destruct Hcore as (HF2 & Hch2 & Hh2 & Hall & Hrn2 & Hin2).
    eexists. split.
    { f_equal. f_equal. rewrite Hanext. exact Hin2. }
    split; [|split].
    + split; [cbn; destruct pre; discriminate|]. split; [exact HF2|]. split; [exact Hch2|].
      split; [cbn; exact Hv|]. exists c. split; [cbn; first [reflexivity|exact Hc]|]. intros _. cbn [segs set_segs]. rewrite last_opt_app. exact Hh2.
    + unfold abs, wnext. cbn [segs set_segs]. rewrite last_opt_app. rewrite Hrn2, Hall.
      apply Hspec. now rewrite Habs_live.
    + cbn. exact Hc.
Qed.

End PublishProofs.
