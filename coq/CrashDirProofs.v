(* CrashDirProofs.v — C05: a process that dies after ANY prefix of the in-place swap (Override) or of the removal of
   an emptied segment leaves a well-formed directory whose content is the one before or the one after the Delete,
   every index file being absent or the derived one; the swap of a REBASING delete (Rename then Remove) is not
   atomic in this sense: for three steps both the old and the new segment exist (known finding F6). *)
From KV Require Import Base Model ListAux SearchProofs SegProofs ReaderProofs Spec LogInv ConsumeProofs AbsFacts
     PublishProofs DeleteProofs OpenProofs CrashDir.
From Coq Require Import ZifyBool ZifyNat.

Section CrashDirProofs.
Variable H : bytes -> Z.

Lemma upd_seg_mid pre s post b f :
  sbase s = b -> (forall x, In x pre -> sbase x <> b) -> upd_seg (pre ++ s :: post) b f = pre ++ f s :: post.
Proof.
  intros Hb Hpre. induction pre as [|x pre IH]; cbn [app upd_seg].
  - rewrite Hb, Z.eqb_refl. reflexivity.
  - destruct (sbase x =? b) eqn:E; [exfalso; apply (Hpre x); [now left|lia]|]. f_equal. apply IH. intros y Hy. apply Hpre. now right.
Qed.

Lemma del_seg_mid pre s post b :
  sbase s = b -> (forall x, In x pre -> sbase x <> b) -> del_seg (pre ++ s :: post) b = pre ++ post.
Proof.
  intros Hb Hpre. induction pre as [|x pre IH]; cbn [app del_seg].
  - rewrite Hb, Z.eqb_refl. reflexivity.
  - destruct (sbase x =? b) eqn:E; [exfalso; apply (Hpre x); [now left|lia]|]. f_equal. apply IH. intros y Hy. apply Hpre. now right.
Qed.

Lemma has_seg_mid pre s post : has_seg (pre ++ s :: post) (sbase s) = true.
Proof. unfold has_seg. apply existsb_exists. exists s. split; [apply in_or_app; right; now left|apply Z.eqb_refl]. Qed.

Lemma chain_pre_bases pre s post x : chain_ok (pre ++ s :: post) -> In x pre -> sbase x <> sbase s.
Proof.
  intros Hc Hx. pose proof (bases_sorted _ Hc) as Hs. unfold bases in Hs. rewrite map_app in Hs. cbn [map] in Hs.
  destruct (in_znth _ _ Hx) as [i Hi]. pose proof (znth_some _ _ _ Hi) as Hir.
  assert (Hz1 : znth (map sbase pre ++ sbase s :: map sbase post) i = Some (sbase x)).
  { unfold znth in *. destruct (i <? 0); [discriminate|]. rewrite nth_error_app1 by (rewrite map_length; unfold zlen in Hir; lia).
    now rewrite nth_error_map, Hi. }
  assert (Hz2 : znth (map sbase pre ++ sbase s :: map sbase post) (zlen pre) = Some (sbase s)).
  { unfold znth, zlen. destruct (Z.of_nat (length pre) <? 0) eqn:E; [lia|]. rewrite Nat2Z.id. rewrite nth_error_app2 by (rewrite map_length; lia).
    rewrite map_length, Nat.sub_diag. reflexivity. }
  pose proof (Hs i (zlen pre) _ _ Hz1 Hz2 ltac:(lia)). lia.
Qed.

(* what a crash may leave of a Delete that turns segment s into s' *)
Definition crash_ok (before after : list seg) (d : ddir) : Prop :=
  DirInv (dsegs d) /\ (abs_dir (dsegs d) = abs_dir before \/ abs_dir (dsegs d) = abs_dir after).

Lemma seg_inv_recs s recs idx :
  seg_inv s -> recs_sorted recs -> (forall m, In m recs -> 0 <= moff m) ->
  match recs with [] => True | m :: _ => moff m = sbase s end ->
  (forall iv items, idx = Some (iv, items) -> items = [] \/ items_match (sver s) (hdr_size (sver s)) recs items) ->
  seg_inv (mkSeg (sbase s) (sver s) recs idx).
Proof. intros (_ & _ & _ & _ & Hb) Hs Hnn Hfb Hix. repeat split; cbn [srecs sbase sver sidx]; assumption. Qed.

(* ---------- the in-place swap (the first message of the segment survives) *)

Section Override.
Variables (pre post : list seg) (s : seg) (keep : list msg) (p : params).
Hypothesis HD : DirInv (pre ++ s :: post).
Hypothesis Hkeep_sub : forall m, In m keep -> In m (srecs s).
Hypothesis Hkeep_sorted : recs_sorted keep.
Hypothesis Hkeep_first : match keep with [] => False | m :: _ => moff m = sbase s end.

Let ix := (sver s, derive H p (sver s) keep).
Let d0 := mkDir (pre ++ s :: post) (mkTmp (Some keep) (Some ix)).
Let after := pre ++ mkSeg (sbase s) (sver s) keep (Some ix) :: post.

Lemma override_states k :
  dsegs (fs_run d0 (firstn k (prog_override (sbase s)))) =
  pre ++ (match k with
          | O => s
          | S O => set_idx s None
          | S (S O) => mkSeg (sbase s) (sver s) keep None
          | _ => mkSeg (sbase s) (sver s) keep (Some ix)
          end) :: post.
Proof.
  destruct HD as [HF Hch].
  assert (Hpre : forall x, In x pre -> sbase x <> sbase s) by (intros x Hx; eapply chain_pre_bases; eauto).
  assert (Hfull : forall j, firstn (S (S (S j))) (prog_override (sbase s)) = prog_override (sbase s)) by (intros j; cbn; now rewrite firstn_nil).
  destruct k as [|[|[|k]]]; rewrite ?Hfull; cbn [firstn prog_override fs_run fold_left fs_exec dsegs dtmp d0 tlog tidx].
  - reflexivity.
  - apply upd_seg_mid; [reflexivity|exact Hpre].
  - rewrite (upd_seg_mid pre s post (sbase s) _ eq_refl Hpre). cbn [dsegs dtmp tlog].
    assert (Hhas : has_seg (pre ++ set_idx s None :: post) (sbase s) = true) by (apply (has_seg_mid pre (set_idx s None) post)).
    rewrite Hhas. rewrite (upd_seg_mid pre (set_idx s None) post (sbase s) _ eq_refl Hpre). reflexivity.
  - rewrite (upd_seg_mid pre s post (sbase s) _ eq_refl Hpre). cbn [dsegs dtmp tlog tidx].
    assert (Hhas : has_seg (pre ++ set_idx s None :: post) (sbase s) = true) by (apply (has_seg_mid pre (set_idx s None) post)).
    rewrite Hhas. rewrite (upd_seg_mid pre (set_idx s None) post (sbase s) _ eq_refl Hpre). cbn [dsegs dtmp tidx set_idx sbase sver srecs sidx].
    rewrite (upd_seg_mid pre (mkSeg (sbase s) (sver s) keep None) post (sbase s) _ eq_refl Hpre). cbn [set_idx sbase sver srecs]. reflexivity.
Qed.

Theorem override_crash_safe k : crash_ok (pre ++ s :: post) after (fs_run d0 (firstn k (prog_override (sbase s)))).
Proof.
  pose proof HD as [HF Hch]. unfold crash_ok. rewrite override_states.
  destruct (DeleteProofs.Forall_split _ _ _ _ HF) as (HFpre & Hs & HFpost).
  assert (Hnn : forall m, In m keep -> 0 <= moff m) by (intros m Hm; destruct Hs as (_ & Hn & _); apply Hn; now apply Hkeep_sub).
  assert (Hfb : match keep with [] => True | m :: _ => moff m = sbase s end) by (destruct keep; [exact I|exact Hkeep_first]).
  assert (Hne : keep <> []) by (destruct keep; [contradiction|discriminate]).
  assert (Hinv_new : forall idx, (forall iv items, idx = Some (iv, items) -> items = [] \/ items_match (sver s) (hdr_size (sver s)) keep items) ->
                       DirInv (pre ++ mkSeg (sbase s) (sver s) keep idx :: post)).
  { intros idx Hix. split.
    - apply Forall_app. split; [exact HFpre|]. constructor; [|exact HFpost]. apply (seg_inv_recs s keep idx Hs Hkeep_sorted Hnn Hfb Hix).
    - apply (chain_ok_replace pre s post _ Hch); cbn [sbase srecs]; [lia| |].
      + intros _. split; [exact Hne|exact Hkeep_sub].
      + intros q Hq. apply chain_ok_app_r in Hch. eapply chain_base_lt; eauto. }
  assert (Habs_new : forall idx, abs_dir (pre ++ mkSeg (sbase s) (sver s) keep idx :: post) = abs_dir after).
  { intros idx. unfold abs_dir, after. rewrite !all_recs_app, !all_recs_cons. cbn [srecs]. f_equal.
    destruct post as [|q post'].
    - rewrite !last_opt_app. unfold recs_next. reflexivity.
    - rewrite !(last_opt_app2 pre) by discriminate. rewrite !last_opt_cons_cons. reflexivity. }
  destruct k as [|[|[|k]]].
  - split; [exact HD|now left].
  - split; [|left].
    + split; [apply Forall_app; split; [exact HFpre|constructor; [now apply seg_inv_no_index|exact HFpost]]|].
      apply (chain_ok_replace pre s post _ Hch); cbn [sbase srecs set_idx]; [lia| |].
      * intros Hp. split; [|tauto]. apply (chain_nonhead_nonempty pre s post Hch Hp).
      * intros q Hq. apply chain_ok_app_r in Hch. eapply chain_base_lt; eauto.
    + unfold abs_dir. rewrite !all_recs_app, !all_recs_cons. cbn [srecs set_idx]. f_equal.
      destruct post as [|q post'].
      * rewrite !last_opt_app. reflexivity.
      * rewrite !(last_opt_app2 pre) by discriminate. rewrite !last_opt_cons_cons. reflexivity.
  - split; [apply Hinv_new; intros iv items E; discriminate|right; apply Habs_new].
  - split; [|right; apply Habs_new]. apply Hinv_new. intros iv items E. unfold ix in E. injection E as <- <-. right. apply derive_from_match.
Qed.

End Override.


(* ---------- an emptied segment that is not the last one: its files are removed *)

Section Drop.
Variables (pre post : list seg) (s : seg) (tmp : tmpfiles).
Hypothesis HD : DirInv (pre ++ s :: post).
Hypothesis Hpost : post <> [].

Let d0 := mkDir (pre ++ s :: post) tmp.

Theorem drop_crash_safe k : crash_ok (pre ++ s :: post) (pre ++ post) (fs_run d0 (firstn k (prog_drop (sbase s)))).
Proof.
  pose proof HD as [HF Hch].
  assert (Hpre : forall x, In x pre -> sbase x <> sbase s) by (intros x Hx; eapply chain_pre_bases; eauto).
  destruct (DeleteProofs.Forall_split _ _ _ _ HF) as (HFpre & Hs & HFpost).
  assert (Hfull : forall j, firstn (S (S (S j))) (prog_drop (sbase s)) = prog_drop (sbase s)) by (intros j; cbn; now rewrite firstn_nil).
  assert (Hnoidx : crash_ok (pre ++ s :: post) (pre ++ post) (mkDir (pre ++ set_idx s None :: post) (mkTmp None None))).
  { split; [|left].
    - cbn [dsegs]. split; [apply Forall_app; split; [exact HFpre|constructor; [now apply seg_inv_no_index|exact HFpost]]|].
      apply (chain_ok_replace pre s post _ Hch); cbn [sbase srecs set_idx]; [lia| |].
      + intros Hp. split; [|tauto]. apply (chain_nonhead_nonempty pre s post Hch Hp).
      + intros q Hq. apply chain_ok_app_r in Hch. eapply chain_base_lt; eauto.
    - cbn [dsegs]. unfold abs_dir. rewrite !all_recs_app, !all_recs_cons. cbn [srecs set_idx]. f_equal.
      destruct post as [|q post']; [congruence|]. rewrite !(last_opt_app2 pre) by discriminate. rewrite !last_opt_cons_cons. reflexivity. }
  destruct k as [|[|[|k]]]; rewrite ?Hfull; cbn [firstn prog_drop fs_run fold_left fs_exec dsegs dtmp d0].
  - split; [exact HD|now left].
  - split; [exact HD|now left].
  - rewrite (upd_seg_mid pre s post (sbase s) _ eq_refl Hpre). exact Hnoidx.
  - rewrite (upd_seg_mid pre s post (sbase s) _ eq_refl Hpre). cbn [dsegs].
    rewrite (del_seg_mid pre (set_idx s None) post (sbase s) eq_refl Hpre).
    split; [|now right]. cbn [dsegs]. split; [apply Forall_app; split; assumption|now apply (chain_ok_remove pre s post)].
Qed.

End Drop.

(* ---------- the swap of a REBASING delete (the first message of the segment is deleted): known finding F6 *)

Section Rebase.
Variables (pre post : list seg) (s : seg) (keep : list msg) (ix : ver * list item) (b' : Z).
Hypothesis HD : DirInv (pre ++ s :: post).
Hypothesis Hb' : sbase s < b'.
Hypothesis Hpost_b : forall q, In q post -> b' < sbase q.
Hypothesis Hkeep_ne : keep <> [].
Hypothesis Hdel_ne : (length keep < length (srecs s))%nat.

Let d0 := mkDir (pre ++ s :: post) (mkTmp (Some keep) (Some ix)).

Lemma ins_after pre0 x y post0 :
  (forall q, In q pre0 -> sbase q < sbase y) -> sbase x < sbase y -> (forall q, In q post0 -> sbase y < sbase q) ->
  ins_seg y (pre0 ++ x :: post0) = pre0 ++ x :: y :: post0.
Proof.
  intros Hp Hx Hq. induction pre0 as [|a pre0 IH]; cbn [app ins_seg].
  - destruct (sbase y <? sbase x) eqn:E; [lia|]. f_equal. destruct post0 as [|q post0']; [reflexivity|]. cbn [ins_seg].
    pose proof (Hq q (or_introl eq_refl)). destruct (sbase y <? sbase q) eqn:E2; [reflexivity|lia].
  - pose proof (Hp a (or_introl eq_refl)). destruct (sbase y <? sbase a) eqn:E; [lia|]. f_equal. apply IH. intros q Hq'. apply Hp. now right.
Qed.

(* after the first step of the swap (and until the old log file is removed, three steps later) the directory
   holds the old segment AND the rewritten one: every survivor is there twice *)
Theorem rebase_crash_overlap :
  dsegs (fs_run d0 (firstn 1 (prog_rebase (sbase s) b'))) = pre ++ s :: mkSeg b' V2 keep None :: post /\
  all_recs (dsegs (fs_run d0 (firstn 1 (prog_rebase (sbase s) b')))) = all_recs pre ++ srecs s ++ keep ++ all_recs post /\
  length (all_recs (dsegs (fs_run d0 (firstn 1 (prog_rebase (sbase s) b'))))) <> length (all_recs (pre ++ s :: post)) /\
  length (all_recs (dsegs (fs_run d0 (firstn 1 (prog_rebase (sbase s) b'))))) <> length (all_recs (pre ++ mkSeg b' V2 keep (Some ix) :: post)).
Proof.
  pose proof HD as [HF Hch].
  assert (Hpre_lt : forall q, In q pre -> sbase q < b').
  { intros q Hq. pose proof (bases_sorted _ Hch) as Hs. destruct (in_znth _ _ Hq) as [i Hi]. pose proof (znth_some _ _ _ Hi) as Hir.
    assert (Hz1 : znth (bases (pre ++ s :: post)) i = Some (sbase q)).
    { rewrite znth_bases. unfold znth in *. destruct (i <? 0); [discriminate|]. rewrite nth_error_app1 by (unfold zlen in Hir; lia). now rewrite Hi. }
    assert (Hz2 : znth (bases (pre ++ s :: post)) (zlen pre) = Some (sbase s)).
    { rewrite znth_bases. unfold znth, zlen. destruct (Z.of_nat (length pre) <? 0) eqn:E; [lia|]. rewrite Nat2Z.id.
      rewrite nth_error_app2 by lia. rewrite Nat.sub_diag. reflexivity. }
    pose proof (Hs i (zlen pre) _ _ Hz1 Hz2 ltac:(lia)). lia. }
  assert (Hno : has_seg (pre ++ s :: post) b' = false).
  { unfold has_seg. destruct (existsb _ _) eqn:E; [|reflexivity]. exfalso. apply existsb_exists in E. destruct E as (q & Hq & Eq).
    apply in_app_or in Hq. destruct Hq as [Hq|[<-|Hq]]; [specialize (Hpre_lt q Hq); lia|lia|specialize (Hpost_b q Hq); lia]. }
  assert (Hst : dsegs (fs_run d0 (firstn 1 (prog_rebase (sbase s) b'))) = pre ++ s :: mkSeg b' V2 keep None :: post).
  { cbn [firstn prog_rebase fs_run fold_left fs_exec dsegs dtmp d0 tlog]. rewrite Hno. cbn [dsegs].
    apply ins_after; cbn [sbase]; assumption. }
  split; [exact Hst|]. rewrite Hst.
  assert (Hall : all_recs (pre ++ s :: mkSeg b' V2 keep None :: post) = all_recs pre ++ srecs s ++ keep ++ all_recs post).
  { rewrite all_recs_app, !all_recs_cons. reflexivity. }
  split; [exact Hall|]. rewrite Hall. rewrite !all_recs_app, !all_recs_cons, !app_length. cbn [srecs].
  assert (0 < length keep)%nat by (destruct keep; [congruence|cbn; lia]). split; lia.
Qed.

End Rebase.

(* ---------- the creation of a new empty head at NextOffset (rollover of Publish; the first steps of a Delete that
   removes the newest message of the writing segment): the log file appears first, then its index file; neither
   changes what the directory holds, and the directory stays well formed after each step *)

Section CreateHead.
Variables (pre : list seg) (hd : seg) (v : ver) (tmp : tmpfiles).
Hypothesis HD : DirInv (pre ++ [hd]).
Hypothesis Hne : srecs hd <> [].

Let n := recs_next hd.
Let d0 := mkDir (pre ++ [hd]) tmp.

Lemma ins_seg_end y : forall l, (forall q, In q l -> sbase q < sbase y) -> ins_seg y l = l ++ [y].
Proof.
  induction l as [|a l IH]; intros Hl; [reflexivity|]. cbn [ins_seg app].
  pose proof (Hl a (or_introl eq_refl)). destruct (sbase y <? sbase a) eqn:E; [lia|]. f_equal. apply IH. intros q Hq. apply Hl. now right.
Qed.

Lemma head_base_lt_next : sbase hd < n.
Proof.
  destruct HD as [HF _]. apply Forall_app in HF. destruct HF as [_ HF]. inversion HF as [|? ? Hhd _]; subst.
  unfold n. destruct (srecs hd) as [|m0 r0] eqn:Er; [congruence|].
  assert (moff m0 = sbase hd) by (destruct Hhd as (_ & _ & Hfb & _); unfold first_is_base in Hfb; now rewrite Er in Hfb).
  pose proof (recs_lt_next hd m0 Hhd ltac:(rewrite Er; left; reflexivity)). lia.
Qed.

Lemma bases_lt_next q : In q (pre ++ [hd]) -> sbase q < n.
Proof.
  intros Hq. pose proof head_base_lt_next as Hh. apply in_app_or in Hq. destruct Hq as [Hq|[<-|[]]]; [|exact Hh].
  destruct HD as [_ Hch]. destruct (in_split _ _ Hq) as (a & b & ->). rewrite <- app_assoc in Hch. cbn [app] in Hch.
  apply chain_ok_app_r in Hch. pose proof (chain_base_lt q (b ++ [hd]) hd Hch ltac:(apply in_or_app; right; now left)). lia.
Qed.

Lemma new_seg_inv idx : (forall iv items, idx = Some (iv, items) -> items = []) -> seg_inv (mkSeg n v [] idx).
Proof.
  intros Hix. destruct HD as [HF _]. apply Forall_app in HF. destruct HF as [_ HF]. inversion HF as [|? ? Hhd _]; subst.
  repeat split; cbn.
  - intros i j a b Hi. unfold znth in Hi. destruct (i <? 0); [discriminate|]. destruct (Z.to_nat i); discriminate.
  - contradiction.
  - intros iv items E. left. eapply Hix; eassumption.
  - now apply recs_next_nonneg.
Qed.

Lemma with_new_head idx : (forall iv items, idx = Some (iv, items) -> items = []) ->
  DirInv ((pre ++ [hd]) ++ [mkSeg n v [] idx]) /\ abs_dir ((pre ++ [hd]) ++ [mkSeg n v [] idx]) = abs_dir (pre ++ [hd]).
Proof.
  intros Hix. pose proof HD as [HF Hch]. split; [split|].
  - apply Forall_app. split; [exact HF|]. constructor; [now apply new_seg_inv|constructor].
  - apply chain_ok_snoc; [exact Hch| | |exact Hne]; cbn [sbase].
    + apply head_base_lt_next.
    + intros m Hm. apply Forall_app in HF. destruct HF as [_ HF]. inversion HF as [|? ? Hhd _]; subst. now apply recs_lt_next.
  - unfold abs_dir. rewrite !last_opt_app. f_equal.
    rewrite all_recs_app. unfold all_recs at 2. cbn. now rewrite app_nil_r.
Qed.

Lemma create_head_states k :
  dsegs (fs_run d0 (firstn k (create_head n v))) =
  match k with
  | O => pre ++ [hd]
  | S O => (pre ++ [hd]) ++ [mkSeg n v [] None]
  | _ => (pre ++ [hd]) ++ [mkSeg n v [] (Some (v, []))]
  end.
Proof.
  assert (E1 : ins_seg (mkSeg n v [] None) (pre ++ [hd]) = (pre ++ [hd]) ++ [mkSeg n v [] None]).
  { apply ins_seg_end. intros q Hq. cbn [sbase]. now apply bases_lt_next. }
  assert (E2 : upd_seg ((pre ++ [hd]) ++ [mkSeg n v [] None]) n (fun s => set_idx s (Some (sver s, []))) =
               (pre ++ [hd]) ++ [mkSeg n v [] (Some (v, []))]).
  { apply (upd_seg_mid (pre ++ [hd]) (mkSeg n v [] None) [] n); [reflexivity|].
    intros x Hx. pose proof (bases_lt_next x Hx). lia. }
  destruct k as [|[|[|k]]]; unfold create_head, fs_run, d0; cbn [firstn fold_left fs_exec dsegs dtmp]; rewrite ?E1, ?E2; reflexivity.
Qed.

(* after any prefix of the two steps: well formed, and the same log *)
Theorem create_head_crash_safe k :
  let d := fs_run d0 (firstn k (create_head n v)) in
  DirInv (dsegs d) /\ abs_dir (dsegs d) = abs_dir (pre ++ [hd]).
Proof.
  cbv zeta. rewrite create_head_states. destruct k as [|[|k]].
  - split; [exact HD|reflexivity].
  - apply with_new_head. intros iv items E. discriminate.
  - apply with_new_head. intros iv items E. injection E as _ <-. reflexivity.
Qed.

End CreateHead.

(* Publish: the only directory steps are those of a rollover, and they are exactly create_head at NextOffset *)
Theorem publish_prog_crash_safe c st k :
  Inv st -> opened st = Some c ->
  let d := fs_run (mkDir (segs st) (mkTmp None None)) (firstn k (publish_prog st)) in
  DirInv (dsegs d) /\ abs_dir (dsegs d) = abs st.
Proof.
  intros HI Hc. cbv zeta. unfold publish_prog. rewrite Hc.
  pose proof HI as (Hne & HF & Hch & Hv & c' & Hc' & Hhead). rewrite Hc in Hc'. injection Hc' as <-.
  assert (HD : DirInv (segs st)) by (split; assumption).
  assert (Hnone : DirInv (dsegs (fs_run (mkDir (segs st) (mkTmp None None)) (firstn k []))) /\
                  abs_dir (dsegs (fs_run (mkDir (segs st) (mkTmp None None)) (firstn k []))) = abs st).
  { rewrite firstn_nil. split; [exact HD|reflexivity]. }
  destruct (cro c) eqn:Hro; [exact Hnone|]. specialize (Hhead eq_refl).
  destruct (last_opt (segs st)) as [hd|] eqn:Ehd; [|exact Hnone].
  destruct (needs_rollover c hd) eqn:Er; [|exact Hnone].
  destruct (@exists_last _ (segs st) Hne) as (pre & hd' & Esegs).
  assert (hd' = hd) by (rewrite Esegs, last_opt_app in Ehd; now injection Ehd). subst hd'.
  assert (Hhd_inv : seg_inv hd) by (rewrite Forall_forall in HF; apply HF; rewrite Esegs; apply in_or_app; right; left; reflexivity).
  assert (Hrecs_ne : srecs hd <> []).
  { unfold needs_rollover in Er. destruct (srecs hd); [rewrite andb_false_r in Er; discriminate|discriminate]. }
  assert (Hnxt : idx_next hd (head_items hd) = recs_next hd).
  { destruct Hhead as (iv & items & Hsi & Hm). unfold head_items. rewrite Hsi. apply idx_next_recs.
    apply seg_inv_seg_ok; assumption. }
  rewrite Hnxt. rewrite abs_dir_abs. rewrite Esegs in *.
  apply (create_head_crash_safe pre hd (cnewver c) (mkTmp None None) HD Hrecs_ne k).
Qed.

(* ---------- Delete in the WRITING segment when the newest message goes (repair F8: the new empty head is created at
   NextOffset before the old files are swapped or removed, so NextOffset survives every crash point) *)

Lemma fs_run_app d a b : fs_run d (a ++ b) = fs_run (fs_run d a) b.
Proof. unfold fs_run. apply fold_left_app. Qed.

Lemma create_head_tmp d n v k : dtmp (fs_run d (firstn k (create_head n v))) = dtmp d.
Proof. destruct k as [|[|[|k]]]; reflexivity. Qed.

Section HeadDelete.
Variables (pre : list seg) (hd : seg) (v : ver).
Hypothesis HD : DirInv (pre ++ [hd]).
Hypothesis Hne : srecs hd <> [].

Let n := recs_next hd.
Let nh := mkSeg n v [] (Some (v, [])).

Lemma after_create tmp : fs_run (mkDir (pre ++ [hd]) tmp) (create_head n v) = mkDir (pre ++ hd :: [nh]) tmp.
Proof.
  pose proof (create_head_states pre hd v tmp HD Hne 2) as Hs. pose proof (create_head_tmp (mkDir (pre ++ [hd]) tmp) n v 2) as Ht.
  change (dsegs (fs_run (mkDir (pre ++ [hd]) tmp) (create_head n v)) = (pre ++ [hd]) ++ [nh]) in Hs.
  change (dtmp (fs_run (mkDir (pre ++ [hd]) tmp) (create_head n v)) = tmp) in Ht.
  destruct (fs_run (mkDir (pre ++ [hd]) tmp) (create_head n v)) as [sg tm].
  cbn [dsegs dtmp] in Hs, Ht. subst sg tm. rewrite <- app_assoc. reflexivity.
Qed.

Lemma HD2 : DirInv (pre ++ hd :: [nh]) /\ abs_dir (pre ++ hd :: [nh]) = abs_dir (pre ++ [hd]).
Proof.
  destruct (with_new_head pre hd v HD Hne (Some (v, []))) as [A B].
  { intros iv items E. injection E as _ <-. reflexivity. }
  rewrite <- app_assoc in A, B. exact (conj A B).
Qed.

(* every message of the writing segment is deleted *)
Theorem head_all_crash_safe tmp k :
  crash_ok (pre ++ [hd]) (pre ++ [nh]) (fs_run (mkDir (pre ++ [hd]) tmp) (firstn k (prog_head_all (sbase hd) n v))).
Proof.
  destruct HD2 as [HDn Habs].
  destruct k as [|k]; [split; [exact HD|now left]|].
  unfold prog_head_all. cbn [firstn]. change (RemoveTmp :: ?l) with ([RemoveTmp] ++ l). rewrite fs_run_app.
  change (fs_run (mkDir (pre ++ [hd]) tmp) [RemoveTmp]) with (mkDir (pre ++ [hd]) (mkTmp None None)).
  rewrite firstn_app. cbn [length create_head].
  destruct (Nat.le_gt_cases k 2) as [Hk|Hk].
  - replace (k - 2)%nat with O by lia. cbn [firstn]. rewrite app_nil_r.
    destruct (create_head_crash_safe pre hd v (mkTmp None None) HD Hne k) as [A B]. split; [exact A|left; exact B].
  - rewrite (firstn_all2 (n:=k)) by (cbn; lia). rewrite fs_run_app.
    fold (create_head n v). rewrite after_create.
    pose proof (drop_crash_safe pre [nh] hd (mkTmp None None) HDn ltac:(discriminate) (S (k - 2))) as [A B].
    assert (E : fs_run (mkDir (pre ++ hd :: [nh]) (mkTmp None None)) (firstn (S (k - 2)) (prog_drop (sbase hd))) =
                fs_run (mkDir (pre ++ hd :: [nh]) (mkTmp None None)) (firstn (k - 2) [RemoveIndex (sbase hd); RemoveLog (sbase hd)])).
    { unfold prog_drop. cbn [firstn]. change (RemoveTmp :: ?l) with ([RemoveTmp] ++ l). rewrite fs_run_app. reflexivity. }
    rewrite E in A, B. split; [exact A|]. rewrite Habs in B. exact B.
Qed.

(* the first message of the writing segment survives, the newest does not: new head, then the in-place swap *)
Section TailOverride.
Variables (keep : list msg) (p : params).
Hypothesis Hkeep_sub : forall m, In m keep -> In m (srecs hd).
Hypothesis Hkeep_sorted : recs_sorted keep.
Hypothesis Hkeep_first : match keep with [] => False | m :: _ => moff m = sbase hd end.

Let ix := (sver hd, derive H p (sver hd) keep).

Theorem head_tail_override_crash_safe k :
  crash_ok (pre ++ [hd]) (pre ++ mkSeg (sbase hd) (sver hd) keep (Some ix) :: [nh])
           (fs_run (mkDir (pre ++ [hd]) (mkTmp (Some keep) (Some ix))) (firstn k (prog_head_tail_override (sbase hd) n v))).
Proof.
  destruct HD2 as [HDn Habs]. unfold prog_head_tail_override. rewrite firstn_app. cbn [length create_head].
  destruct (Nat.le_gt_cases k 2) as [Hk|Hk].
  - replace (k - 2)%nat with O by lia. cbn [firstn]. rewrite app_nil_r.
    destruct (create_head_crash_safe pre hd v (mkTmp (Some keep) (Some ix)) HD Hne k) as [A B]. split; [exact A|left; exact B].
  - rewrite (firstn_all2 (n:=k)) by (cbn; lia). rewrite fs_run_app. fold (create_head n v). rewrite after_create.
    pose proof (override_crash_safe pre [nh] hd keep p HDn Hkeep_sub Hkeep_sorted Hkeep_first (k - 2)) as [A B].
    split; [exact A|]. rewrite Habs in B. exact B.
Qed.

End TailOverride.
End HeadDelete.

(* ---------- after the crash: Open with Recover (or any other mode) of what the in-place swap or the removal left *)

Theorem reopen_after_crash before after d c0 st' :
  crash_ok before after d -> dsegs d <> [] ->
  log_open H (mkState (dsegs d) 0 None false) c0 = Ok st' ->
  Inv st' /\ (abs st' = abs_dir before \/ abs st' = abs_dir after).
Proof.
  intros [HDd Habs] Hne Ho.
  assert (Hcd : closed_dir (mkState (dsegs d) 0 None false)) by (split; [reflexivity|split; [reflexivity|exact HDd]]).
  destruct (log_open_ok H _ c0 Hcd Hne st' Ho) as (I' & A'). split; [exact I'|]. cbn [segs] in A'. rewrite A'. exact Habs.
Qed.

End CrashDirProofs.
