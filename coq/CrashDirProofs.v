(* CrashDirProofs.v — C05: a process that dies after ANY prefix of the in-place swap (Override) or of the removal of
   an emptied segment leaves a well-formed directory whose content is the one before or the one after the Delete,
   every index file being absent or the derived one; the swap of a REBASING delete (Rename then Remove) is not
   atomic in this sense: for three steps both the old and the new segment exist (known finding F6). *)
From KV Require Import Base Model ListAux SearchProofs SegProofs ReaderProofs Spec LogInv ConsumeProofs AbsFacts
     PublishProofs DeleteProofs OpenProofs CrashDir.
From Coq Require Import ZifyBool ZifyNat.

Section CrashDirProofs.
Variable H : bytes -> Z.

Lemma upd_seg_mid pre s post b f :
  sbase s = b -> (forall x, In x pre -> sbase x <> b) -> upd_seg (pre ++ s :: post) b f = pre ++ f s :: post.
Proof.
  intros Hb Hpre. induction pre as [|x pre IH]; cbn [app upd_seg].
  - rewrite Hb, Z.eqb_refl. reflexivity.
  - destruct (sbase x =? b) eqn:E; [exfalso; apply (Hpre x); [now left|lia]|]. f_equal. apply IH. intros y Hy. apply Hpre. now right.
Qed.

Lemma del_seg_mid pre s post b :
  sbase s = b -> (forall x, In x pre -> sbase x <> b) -> del_seg (pre ++ s :: post) b = pre ++ post.
Proof.
  intros Hb Hpre. induction pre as [|x pre IH]; cbn [app del_seg].
  - rewrite Hb, Z.eqb_refl. reflexivity.
  - destruct (sbase x =? b) eqn:E; [exfalso; apply (Hpre x); [now left|lia]|]. f_equal. apply IH. intros y Hy. apply Hpre. now right.
Qed.

Lemma has_seg_mid pre s post : has_seg (pre ++ s :: post) (sbase s) = true.
Proof. unfold has_seg. apply existsb_exists. exists s. split; [apply in_or_app; right; now left|apply Z.eqb_refl]. Qed.

Lemma chain_pre_bases pre s post x : chain_ok (pre ++ s :: post) -> In x pre -> sbase x <> sbase s.
Proof.
  intros Hc Hx. pose proof (bases_sorted _ Hc) as Hs. unfold bases in Hs. rewrite map_app in Hs. cbn [map] in Hs.
  destruct (in_znth _ _ Hx) as [i Hi]. pose proof (znth_some _ _ _ Hi) as Hir.
  assert (Hz1 : znth (map sbase pre ++ sbase s :: map sbase post) i = Some (sbase x)).
  { unfold znth in *. destruct (i <? 0); [discriminate|]. rewrite nth_error_app1 by (rewrite map_length; unfold zlen in Hir; lia).
    now rewrite nth_error_map, Hi. }
  assert (Hz2 : znth (map sbase pre ++ sbase s :: map sbase post) (zlen pre) = Some (sbase s)).
  { unfold znth, zlen. destruct (Z.of_nat (length pre) <? 0) eqn:E; [lia|]. rewrite Nat2Z.id. rewrite nth_error_app2 by (rewrite map_length; lia).
    rewrite map_length, Nat.sub_diag. reflexivity. }
  pose proof (Hs i (zlen pre) _ _ Hz1 Hz2 ltac:(lia)). lia.
Qed.

(* what a crash may leave of a Delete that turns segment s into s' *)
Definition crash_ok (before after : list seg) (d : ddir) : Prop :=
  DirInv (dsegs d) /\ (abs_dir (dsegs d) = abs_dir before \/ abs_dir (dsegs d) = abs_dir after).

Lemma seg_inv_recs s recs idx :
  seg_inv s -> recs_sorted recs -> (forall m, In m recs -> 0 <= moff m) ->
  match recs with [] => True | m :: _ => moff m = sbase s end ->
  (forall iv items, idx = Some (iv, items) -> items = [] \/ items_match (sver s) (hdr_size (sver s)) recs items) ->
  seg_inv (mkSeg (sbase s) (sver s) recs idx).
Proof. intros (_ & _ & _ & _ & Hb) Hs Hnn Hfb Hix. repeat split; cbn [srecs sbase sver sidx]; assumption. Qed.

(* ---------- the in-place swap (the first message of the segment survives) *)

Section Override.
Variables (pre post : list seg) (s : seg) (keep : list msg) (p : params).
Hypothesis HD : DirInv (pre ++ s :: post).
Hypothesis Hkeep_sub : forall m, In m keep -> In m (srecs s).
Hypothesis Hkeep_sorted : recs_sorted keep.
Hypothesis Hkeep_first : match keep with [] => False | m :: _ => moff m = sbase s end.

Let ix := (sver s, derive H p (sver s) keep).
Let d0 := mkDir (pre ++ s :: post) (mkTmp (Some keep) (Some ix)).
Let after := pre ++ mkSeg (sbase s) (sver s) keep (Some ix) :: post.

Lemma override_states k :
  dsegs (fs_run d0 (firstn k (prog_override (sbase s)))) =
  pre ++ (match k with
          | O => s
          | S O => set_idx s None
          | S (S O) => mkSeg (sbase s) (sver s) keep None
          | _ => mkSeg (sbase s) (sver s) keep (Some ix)
          end) :: post.
Proof.
  destruct HD as [HF Hch].
  assert (Hpre : forall x, In x pre -> sbase x <> sbase s) by (intros x Hx; eapply chain_pre_bases; eauto).
  assert (Hfull : forall j, firstn (S (S (S j))) (prog_override (sbase s)) = prog_override (sbase s)) by (intros j; cbn; now rewrite firstn_nil).
  destruct k as [|[|[|k]]]; rewrite ?Hfull; cbn [firstn prog_override fs_run fold_left fs_exec dsegs dtmp d0 tlog tidx].
  - reflexivity.
  - apply upd_seg_mid; [reflexivity|exact Hpre].
  - rewrite (upd_seg_mid pre s post (sbase s) _ eq_refl Hpre). cbn [dsegs dtmp tlog].
    assert (Hhas : has_seg (pre ++ set_idx s None :: post) (sbase s) = true) by (apply (has_seg_mid pre (set_idx s None) post)).
    rewrite Hhas. rewrite (upd_seg_mid pre (set_idx s None) post (sbase s) _ eq_refl Hpre). reflexivity.
  - rewrite (upd_seg_mid pre s post (sbase s) _ eq_refl Hpre). cbn [dsegs dtmp tlog tidx].
    assert (Hhas : has_seg (pre ++ set_idx s None :: post) (sbase s) = true) by (apply (has_seg_mid pre (set_idx s None) post)).
    rewrite Hhas. rewrite (upd_seg_mid pre (set_idx s None) post (sbase s) _ eq_refl Hpre). cbn [dsegs dtmp tidx set_idx sbase sver srecs sidx].
    rewrite (upd_seg_mid pre (mkSeg (sbase s) (sver s) keep None) post (sbase s) _ eq_refl Hpre). cbn [set_idx sbase sver srecs]. reflexivity.
Qed.

Theorem override_crash_safe k : crash_ok (pre ++ s :: post) after (fs_run d0 (firstn k (prog_override (sbase s)))).
Proof.
  pose proof HD as [HF Hch]. unfold crash_ok. rewrite override_states.
  destruct (DeleteProofs.Forall_split _ _ _ _ HF) as (HFpre & Hs & HFpost).
  assert (Hnn : forall m, In m keep -> 0 <= moff m) by (intros m Hm; destruct Hs as (_ & Hn & _); apply Hn; now apply Hkeep_sub).
  assert (Hfb : match keep with [] => True | m :: _ => moff m = sbase s end) by (destruct keep; [exact I|exact Hkeep_first]).
  assert (Hne : keep <> []) by (destruct keep; [contradiction|discriminate]).
  assert (Hinv_new : forall idx, (forall iv items, idx = Some (iv, items) -> items = [] \/ items_match (sver s) (hdr_size (sver s)) keep items) ->
                       DirInv (pre ++ mkSeg (sbase s) (sver s) keep idx :: post)).
  { intros idx Hix. split.
    - apply Forall_app. split; [exact HFpre|]. constructor; [|exact HFpost]. apply (seg_inv_recs s keep idx Hs Hkeep_sorted Hnn Hfb Hix).
    - apply (chain_ok_replace pre s post _ Hch); cbn [sbase srecs]; [lia| |].
      + intros _. split; [exact Hne|exact Hkeep_sub].
      + intros q Hq. apply chain_ok_app_r in Hch. eapply chain_base_lt; eauto. }
  assert (Habs_new : forall idx, abs_dir (pre ++ mkSeg (sbase s) (sver s) keep idx :: post) = abs_dir after).
  { intros idx. unfold abs_dir, after. rewrite !all_recs_app, !all_recs_cons. cbn [srecs]. f_equal.
    destruct post as [|q post'].
    - rewrite !last_opt_app. unfold recs_next. reflexivity.
    - rewrite !(last_opt_app2 pre) by discriminate. rewrite !last_opt_cons_cons. reflexivity. }
  destruct k as [|[|[|k]]].
  - split; [exact HD|now left].
  - split; [|left].
    + split; [apply Forall_app; split; [exact HFpre|constructor; [now apply seg_inv_no_index|exact HFpost]]|].
      apply (chain_ok_replace pre s post _ Hch); cbn [sbase srecs set_idx]; [lia| |].
      * intros Hp. split; [|tauto]. apply (chain_nonhead_nonempty pre s post Hch Hp).
      * intros q Hq. apply chain_ok_app_r in Hch. eapply chain_base_lt; eauto.
    + unfold abs_dir. rewrite !all_recs_app, !all_recs_cons. cbn [srecs set_idx]. f_equal.
      destruct post as [|q post'].
      * rewrite !last_opt_app. reflexivity.
      * rewrite !(last_opt_app2 pre) by discriminate. rewrite !last_opt_cons_cons. reflexivity.
  - split; [apply Hinv_new; intros iv items E; discriminate|right; apply Habs_new].
  - split; [|right; apply Habs_new]. apply Hinv_new. intros iv items E. unfold ix in E. injection E as <- <-. right. apply derive_from_match.
Qed.

End Override.


(* ---------- an emptied segment that is not the last one: its files are removed *)

Section Drop.
Variables (pre post : list seg) (s : seg) (tmp : tmpfiles).
Hypothesis HD : DirInv (pre ++ s :: post).
Hypothesis Hpost : post <> [].

Let d0 := mkDir (pre ++ s :: post) tmp.

Theorem drop_crash_safe k : crash_ok (pre ++ s :: post) (pre ++ post) (fs_run d0 (firstn k (prog_drop (sbase s)))).
Proof.
  pose proof HD as [HF Hch].
  assert (Hpre : forall x, In x pre -> sbase x <> sbase s) by (intros x Hx; eapply chain_pre_bases; eauto).
  destruct (DeleteProofs.Forall_split _ _ _ _ HF) as (HFpre & Hs & HFpost).
  assert (Hfull : forall j, firstn (S (S (S j))) (prog_drop (sbase s)) = prog_drop (sbase s)) by (intros j; cbn; now rewrite firstn_nil).
  assert (Hnoidx : crash_ok (pre ++ s :: post) (pre ++ post) (mkDir (pre ++ set_idx s None :: post) (mkTmp None None))).
  { split; [|left].
    - cbn [dsegs]. split; [apply Forall_app; split; [exact HFpre|constructor; [now apply seg_inv_no_index|exact HFpost]]|].
      apply (chain_ok_replace pre s post _ Hch); cbn [sbase srecs set_idx]; [lia| |].
      + intros Hp. split; [|tauto]. apply (chain_nonhead_nonempty pre s post Hch Hp).
      + intros q Hq. apply chain_ok_app_r in Hch. eapply chain_base_lt; eauto.
    - cbn [dsegs]. unfold abs_dir. rewrite !all_recs_app, !all_recs_cons. cbn [srecs set_idx]. f_equal.
      destruct post as [|q post']; [congruence|]. rewrite !(last_opt_app2 pre) by discriminate. rewrite !last_opt_cons_cons. reflexivity. }
  destruct k as [|[|[|k]]]; rewrite ?Hfull; cbn [firstn prog_drop fs_run fold_left fs_exec dsegs dtmp d0].
  - split; [exact HD|now left].
  - split; [exact HD|now left].
  - rewrite (upd_seg_mid pre s post (sbase s) _ eq_refl Hpre). exact Hnoidx.
  - rewrite (upd_seg_mid pre s post (sbase s) _ eq_refl Hpre). cbn [dsegs].
    rewrite (del_seg_mid pre (set_idx s None) post (sbase s) eq_refl Hpre).
    split; [|now right]. cbn [dsegs]. split; [apply Forall_app; split; assumption|now apply (chain_ok_remove pre s post)].
Qed.

End Drop.

(* ---------- the swap of a REBASING delete (the first message of the segment is deleted): known finding F6 *)

Section Rebase.
Variables (pre post : list seg) (s : seg) (keep : list msg) (ix : ver * list item) (b' : Z).
Hypothesis HD : DirInv (pre ++ s :: post).
Hypothesis Hb' : sbase s < b'.
Hypothesis Hpost_b : forall q, In q post -> b' < sbase q.
Hypothesis Hkeep_ne : keep <> [].
Hypothesis Hdel_ne : (length keep < length (srecs s))%nat.

Let d0 := mkDir (pre ++ s :: post) (mkTmp (Some keep) (Some ix)).

Lemma ins_after pre0 x y post0 :
  (forall q, In q pre0 -> sbase q < sbase y) -> sbase x < sbase y -> (forall q, In q post0 -> sbase y < sbase q) ->
  ins_seg y (pre0 ++ x :: post0) = pre0 ++ x :: y :: post0.
Proof.
  intros Hp Hx Hq. induction pre0 as [|a pre0 IH]; cbn [app ins_seg].
  - destruct (sbase y <? sbase x) eqn:E; [lia|]. f_equal. destruct post0 as [|q post0']; [reflexivity|]. cbn [ins_seg].
    pose proof (Hq q (or_introl eq_refl)). destruct (sbase y <? sbase q) eqn:E2; [reflexivity|lia].
  - pose proof (Hp a (or_introl eq_refl)). destruct (sbase y <? sbase a) eqn:E; [lia|]. f_equal. apply IH. intros q Hq'. apply Hp. now right.
Qed.

(* after the first step of the swap (and until the old log file is removed, three steps later) the directory
   holds the old segment AND the rewritten one: every survivor is there twice *)
Theorem rebase_crash_overlap :
  dsegs (fs_run d0 (firstn 1 (prog_rebase (sbase s) b'))) = pre ++ s :: mkSeg b' V2 keep None :: post /\
  all_recs (dsegs (fs_run d0 (firstn 1 (prog_rebase (sbase s) b')))) = all_recs pre ++ srecs s ++ keep ++ all_recs post /\
  length (all_recs (dsegs (fs_run d0 (firstn 1 (prog_rebase (sbase s) b'))))) <> length (all_recs (pre ++ s :: post)) /\
  length (all_recs (dsegs (fs_run d0 (firstn 1 (prog_rebase (sbase s) b'))))) <> length (all_recs (pre ++ mkSeg b' V2 keep (Some ix) :: post)).
Proof.
  pose proof HD as [HF Hch].
  assert (Hpre_lt : forall q, In q pre -> sbase q < b').
  { intros q Hq. pose proof (bases_sorted _ Hch) as Hs. destruct (in_znth _ _ Hq) as [i Hi]. pose proof (znth_some _ _ _ Hi) as Hir.
    assert (Hz1 : znth (bases (pre ++ s :: post)) i = Some (sbase q)).
    { rewrite znth_bases. unfold znth in *. destruct (i <? 0); [discriminate|]. rewrite nth_error_app1 by (unfold zlen in Hir; lia). now rewrite Hi. }
    assert (Hz2 : znth (bases (pre ++ s :: post)) (zlen pre) = Some (sbase s)).
    { rewrite znth_bases. unfold znth, zlen. destruct (Z.of_nat (length pre) <? 0) eqn:E; [lia|]. rewrite Nat2Z.id.
      rewrite nth_error_app2 by lia. rewrite Nat.sub_diag. reflexivity. }
    pose proof (Hs i (zlen pre) _ _ Hz1 Hz2 ltac:(lia)). lia. }
  assert (Hno : has_seg (pre ++ s :: post) b' = false).
  { unfold has_seg. destruct (existsb _ _) eqn:E; [|reflexivity]. exfalso. apply existsb_exists in E. destruct E as (q & Hq & Eq).
    apply in_app_or in Hq. destruct Hq as [Hq|[<-|Hq]]; [specialize (Hpre_lt q Hq); lia|lia|specialize (Hpost_b q Hq); lia]. }
  assert (Hst : dsegs (fs_run d0 (firstn 1 (prog_rebase (sbase s) b'))) = pre ++ s :: mkSeg b' V2 keep None :: post).
  { cbn [firstn prog_rebase fs_run fold_left fs_exec dsegs dtmp d0 tlog]. rewrite Hno. cbn [dsegs].
    apply ins_after; cbn [sbase]; assumption. }
  split; [exact Hst|]. rewrite Hst.
  assert (Hall : all_recs (pre ++ s :: mkSeg b' V2 keep None :: post) = all_recs pre ++ srecs s ++ keep ++ all_recs post).
  { rewrite all_recs_app, !all_recs_cons. reflexivity. }
  split; [exact Hall|]. rewrite Hall. rewrite !all_recs_app, !all_recs_cons, !app_length. cbn [srecs].
  assert (0 < length keep)%nat by (destruct keep; [congruence|cbn; lia]). split; lia.
Qed.

End Rebase.

(* ---------- after the crash: Open with Recover (or any other mode) of what the in-place swap or the removal left *)

Theorem reopen_after_crash before after d c0 st' :
  crash_ok before after d -> dsegs d <> [] ->
  log_open H (mkState (dsegs d) 0 None false) c0 = Ok st' ->
  Inv st' /\ (abs st' = abs_dir before \/ abs st' = abs_dir after).
Proof.
  intros [HDd Habs] Hne Ho.
  assert (Hcd : closed_dir (mkState (dsegs d) 0 None false)) by (split; [reflexivity|split; [reflexivity|exact HDd]]).
  destruct (log_open_ok H _ c0 Hcd Hne st' Ho) as (I' & A'). split; [exact I'|]. cbn [segs] in A'. rewrite A'. exact Habs.
Qed.

End CrashDirProofs.
