(* History.v — whole histories of API calls on one directory (C01, C02, C11, C17, C19).
   hstep is the sequential semantics of a handle: a failing call leaves the state as it was.  Every state
   reachable from the empty directory is Good (closed and well-formed, open with Inv, or the virtual
   read-only handle of an empty directory), and its abstract log is the fold of the abstract steps:
   a successful Publish appends exactly its messages, a successful Delete removes exactly what it
   reported, and nothing else (reads, index rebuilds, rollover, Close/Open in any mode, index removal,
   Migrate, Recover) changes the live messages or NextOffset. *)
From KV Require Import Base Model ListAux SearchProofs SegProofs ReaderProofs Spec LogInv
     ConsumeProofs GetProofs AbsFacts PublishProofs DeleteProofs OpenProofs ReadsPreserve.

Section History.
Variable H : bytes -> Z.

Inductive hop :=
| HOpen (c : cfg) | HClose
| HPub (ms : list msg) | HDel (offs : list Z)
| HCons (off max : Z) | HGet (off : Z) | HGetK (k : bytes) | HConsK (k : bytes) (off max : Z)
| HGetT (ts : Z) | HNext | HStat
| HRmIndex (which : list Z) (all : bool) | HMigrate (p : params) (v : ver) | HRecoverDir (p : params).

Inductive hout :=
| RUnit (r : res unit) | RNum (r : res Z) | RDel (r : res (list msg * Z))
| RCons (r : res (Z * list msg)) | RMsg (r : res msg) | RStat (r : res (Z * Z * Z)).

Definition lift {A} (st : lstate) (r : res (lstate * A)) : lstate * res A :=
  match r with Ok (st', a) => (st', Ok a) | Err e => (st, Err e) end.

Definition lift0 (st : lstate) (r : res lstate) : lstate * res unit :=
  match r with Ok st' => (st', Ok tt) | Err e => (st, Err e) end.

Definition when_closed (st : lstate) (r : res lstate) : lstate * res unit :=
  match opened st with None => lift0 st r | Some _ => (st, Err ELocked) end.

(* Publish as a step of the handle.  log.Publish rolls the writing segment over, when that is due, BEFORE
   writer.Publish validates the batch: a batch refused with ErrTooBig leaves the new empty head behind - the state a
   Publish of no message at all produces - and nothing else *)
Definition rolled (st : lstate) : lstate :=
  match log_publish H st [] with Ok (st', _) => st' | Err _ => st end.

Definition pub_step (st : lstate) (ms : list msg) : lstate * res Z :=
  match log_publish H st ms with
  | Ok (st', n) => (st', Ok n)
  | Err e => (match e with ETooBig => rolled st | _ => st end, Err e)
  end.

Definition hstep (st : lstate) (op : hop) : lstate * hout :=
  match op with
  | HOpen c => let (s, r) := lift0 st (log_open H st c) in (s, RUnit r)
  | HClose => let (s, r) := lift0 st (log_close st) in (s, RUnit r)
  | HPub ms => let (s, r) := pub_step st ms in (s, RNum r)
  | HDel offs => let (s, r) := lift st (log_delete H st offs) in (s, RDel r)
  | HCons off max => let (s, r) := lift st (log_consume H st off max) in (s, RCons r)
  | HGet off => let (s, r) := lift st (log_get H st off) in (s, RMsg r)
  | HGetK k => let (s, r) := lift st (log_get_by_key H st k) in (s, RMsg r)
  | HConsK k off max => let (s, r) := lift st (log_consume_by_key H st k off max) in (s, RCons r)
  | HGetT ts => let (s, r) := lift st (log_get_by_time H st ts) in (s, RMsg r)
  | HNext => let (s, r) := lift st (log_next H st) in (s, RNum r)
  | HStat => let (s, r) := lift st (log_stat H st) in (s, RStat r)
  | HRmIndex which all =>
    let (s, r) := when_closed st (Ok (set_segs st (rm_index_at (segs st) 0 which all))) in (s, RUnit r)
  | HMigrate p v => let (s, r) := when_closed st (dir_migrate H p v st) in (s, RUnit r)
  | HRecoverDir p => let (s, r) := when_closed st (dir_recover H p st) in (s, RUnit r)
  end.

(* the abstract step: what a call may do to the log, given what it reported *)
Definition spec_step (a : alog) (op : hop) (o : hout) : alog :=
  match op, o with
  | HPub ms, RNum (Ok _) => spec_publish a ms
  | HDel _, RDel (Ok (deleted, _)) => mkAlog (remove_msgs (live a) deleted) (anext a)
  | _, _ => a
  end.

Definition Closed (st : lstate) : Prop := opened st = None /\ lvirt st = false /\ DirInv (segs st).
Definition Virt (st : lstate) : Prop :=
  lvirt st = true /\ (exists v, segs st = [mkSeg 0 v [] (Some (v, []))]) /\
  exists c, opened st = Some c /\ cro c = true.
Definition Good (st : lstate) : Prop := Closed st \/ Inv st \/ Virt st.

Lemma good_init : Good init_state.
Proof. left. split; [reflexivity|]. split; [reflexivity|]. split; [constructor|exact I]. Qed.

Lemma remove_none l : remove_msgs l [] = l.
Proof. unfold remove_msgs. induction l as [|x l IH]; [reflexivity|]. cbn [filter existsb negb]. f_equal. exact IH. Qed.

Lemma alog_eta a : mkAlog (live a) (anext a) = a.
Proof. destruct a; reflexivity. Qed.

(* a read: given as a function with its R lemma *)
Lemma read_step {A} (f : lstate -> res (lstate * A)) st :
  (forall st1 r c, opened st = Some c -> f st = Ok (st1, r) -> R c st st1) ->
  (opened st = None -> exists e, f st = Err e) ->
  Good st -> Good (fst (lift st (f st))) /\ abs (fst (lift st (f st))) = abs st.
Proof.
  intros HR Hcl HG. destruct (f st) as [[st1 r]|e] eqn:E; cbn [lift fst]; [|split; [assumption|reflexivity]].
  destruct HG as [(Ho & _)|[HI|HV]].
  - destruct (Hcl Ho) as (e & E'). discriminate.
  - pose proof HI as (_ & _ & _ & _ & c & Hc & _). destruct (R_result c st st1 (HR st1 r c Hc eq_refl) HI Hc) as (I1 & A1 & _).
    split; [right; left; assumption|assumption].
  - pose proof HV as (Hv & _ & c & Hc & _). destruct (HR st1 r c Hc eq_refl) as [_ Heq]. rewrite (Heq Hv).
    split; [right; right; assumption|reflexivity].
Qed.

Ltac closed_err := intros Ho; unfold get_cfg; rewrite Ho; eexists; reflexivity.

Lemma spec_publish_nil a : spec_publish a [] = a.
Proof. unfold spec_publish. cbn. rewrite app_nil_r, Z.add_0_r. destruct a; reflexivity. Qed.

Lemma publish_ok_good st ms st' n :
  Good st -> log_publish H st ms = Ok (st', n) -> Good st' /\ abs st' = spec_publish (abs st) ms.
Proof.
  intros HG E. destruct HG as [(Ho & Hv & HD)|[HI|HV]].
  + unfold log_publish, get_cfg in E. rewrite Ho in E. discriminate.
  + pose proof HI as (_ & _ & _ & _ & c & Hc & _).
    destruct (cro c) eqn:Ero; [unfold log_publish, get_cfg in E; rewrite Hc in E; cbn [bind] in E; rewrite Ero in E; discriminate|].
    destruct (existsb msg_too_big ms) eqn:Ebig.
    * unfold log_publish, get_cfg in E. rewrite Hc in E. cbn [bind] in E. rewrite Ero in E.
      destruct (head_seg st) as [hs|]; [|discriminate]. cbn [bind] in E.
      destruct (needs_rollover c hs); rewrite Ebig in E; discriminate.
    * destruct (log_publish_correct H st ms HI (ex_intro _ c (conj Hc Ero)) Ebig) as (st2 & E2 & I2 & A2 & _).
      rewrite E in E2. injection E2 as <- _. split; [right; left; assumption|assumption].
  + destruct HV as (_ & _ & c & Hc & Hro). unfold log_publish, get_cfg in E. rewrite Hc in E. cbn [bind] in E. rewrite Hro in E. discriminate.
Qed.

Theorem hstep_good st op :
  Good st -> Good (fst (hstep st op)) /\ abs (fst (hstep st op)) = spec_step (abs st) op (snd (hstep st op)).
Proof.
  intros HG. destruct op; cbn [hstep].
  - (* Open *)
    destruct (log_open H st c) as [st'|e] eqn:E; cbn [lift0 fst snd spec_step]; [|split; [assumption|reflexivity]].
    destruct HG as [(Ho & Hv & HD)|[HI|HV]].
    + destruct (segs st) as [|s0 r0] eqn:Es.
      * destruct (cro c) eqn:Ero.
        -- unfold log_open in E. rewrite Ho, Es in E. replace (cro (norm_cfg c)) with true in E by (symmetry; exact Ero).
           injection E as <-. split; [|unfold abs, wnext, all_recs; cbn; rewrite Es; reflexivity].
           right; right. split; [reflexivity|]. split; [eexists; reflexivity|]. eexists. split; [reflexivity|exact Ero].
        -- destruct (log_open_fresh H st c Ho Es Ero) as (st2 & E2 & I2 & A2). rewrite E in E2. injection E2 as <-.
           split; [right; left; assumption|]. rewrite A2. unfold abs, wnext, all_recs. rewrite Es. reflexivity.
      * assert (Hne : segs st <> []) by (rewrite Es; discriminate).
        assert (Hcd : closed_dir st) by (split; [assumption|split; [assumption|rewrite Es; assumption]]).
        destruct (log_open_ok H st c Hcd Hne st' E) as (I2 & A2). split; [right; left; assumption|]. rewrite A2. reflexivity.
    + destruct HI as (_ & _ & _ & _ & c' & Hc' & _). unfold log_open in E. rewrite Hc' in E. discriminate.
    + destruct HV as (_ & _ & c' & Hc' & _). unfold log_open in E. rewrite Hc' in E. discriminate.
  - (* Close *)
    destruct (log_close st) as [st'|e] eqn:E; cbn [lift0 fst snd spec_step]; [|split; [assumption|reflexivity]].
    destruct HG as [(Ho & Hv & HD)|[HI|HV]].
    + unfold log_close in E. rewrite Ho in E. discriminate.
    + destruct (log_close_ok st HI) as (st2 & E2 & Hs & Ho2 & Hv2 & HD2 & A2). rewrite E in E2. injection E2 as <-.
      split; [left; split; [assumption|split; assumption]|]. rewrite <- A2. reflexivity.
    + destruct HV as (Hv & (v & Es) & c' & Hc' & _). unfold log_close in E. rewrite Hc', Hv in E. injection E as <-.
      split; [left; split; [reflexivity|split; [reflexivity|split; [constructor|exact I]]]|].
      unfold abs, wnext, all_recs. rewrite Es. reflexivity.
  - (* Publish *)
    unfold pub_step. destruct (log_publish H st ms) as [[st' n]|e] eqn:E; cbn [fst snd spec_step].
    + exact (publish_ok_good st ms st' n HG E).
    + destruct e; try (split; [assumption|reflexivity]).
      unfold rolled. destruct (log_publish H st []) as [[st0 n0]|e0] eqn:E0; [|split; [assumption|reflexivity]].
      destruct (publish_ok_good st [] st0 n0 HG E0) as [G0 A0]. split; [exact G0|]. rewrite A0. apply spec_publish_nil.
  - (* Delete *)
    destruct (log_delete H st offs) as [[st' [deleted size]]|e] eqn:E; cbn [lift fst snd spec_step]; [|split; [assumption|reflexivity]].
    destruct HG as [(Ho & Hv & HD)|[HI|HV]].
    + unfold log_delete, get_cfg in E. rewrite Ho in E. discriminate.
    + pose proof HI as (_ & _ & _ & _ & c & Hc & _).
      destruct (log_delete_ok H st offs st' deleted size c HI Hc E) as [(-> & -> & _)|(I2 & _ & An & Al & _)].
      * split; [right; left; assumption|]. rewrite remove_none. symmetry. apply alog_eta.
      * split; [right; left; assumption|]. rewrite <- Al, <- An. symmetry. apply alog_eta.
    + destruct HV as (_ & _ & c & Hc & Hro). unfold log_delete, get_cfg in E. rewrite Hc in E. cbn [bind] in E. rewrite Hro in E. discriminate.
  - (* Consume *)
    pose proof (read_step (fun s => log_consume H s off max) st) as HR. cbv beta in HR.
    destruct (lift st (log_consume H st off max)) as [s r] eqn:El. cbn [fst snd spec_step] in *. apply HR; try assumption.
    + intros st1 r1 c Hc E. eapply log_consume_R; eassumption.
    + unfold log_consume. closed_err.
  - pose proof (read_step (fun s => log_get H s off) st) as HR. cbv beta in HR.
    destruct (lift st (log_get H st off)) as [s r] eqn:El. cbn [fst snd spec_step] in *. apply HR; try assumption.
    + intros st1 r1 c Hc E. eapply log_get_R; eassumption.
    + unfold log_get. closed_err.
  - pose proof (read_step (fun s => log_get_by_key H s k) st) as HR. cbv beta in HR.
    destruct (lift st (log_get_by_key H st k)) as [s r] eqn:El. cbn [fst snd spec_step] in *. apply HR; try assumption.
    + intros st1 r1 c Hc E. eapply log_get_by_key_R; eassumption.
    + unfold log_get_by_key. closed_err.
  - pose proof (read_step (fun s => log_consume_by_key H s k off max) st) as HR. cbv beta in HR.
    destruct (lift st (log_consume_by_key H st k off max)) as [s r] eqn:El. cbn [fst snd spec_step] in *. apply HR; try assumption.
    + intros st1 r1 c Hc E. eapply log_consume_by_key_R; eassumption.
    + unfold log_consume_by_key. closed_err.
  - pose proof (read_step (fun s => log_get_by_time H s ts) st) as HR. cbv beta in HR.
    destruct (lift st (log_get_by_time H st ts)) as [s r] eqn:El. cbn [fst snd spec_step] in *. apply HR; try assumption.
    + intros st1 r1 c Hc E. eapply log_get_by_time_R; eassumption.
    + unfold log_get_by_time. closed_err.
  - pose proof (read_step (fun s => log_next H s) st) as HR. cbv beta in HR.
    destruct (lift st (log_next H st)) as [s r] eqn:El. cbn [fst snd spec_step] in *. apply HR; try assumption.
    + intros st1 r1 c Hc E. eapply log_next_R; eassumption.
    + unfold log_next. closed_err.
  - pose proof (read_step (fun s => log_stat H s) st) as HR. cbv beta in HR.
    destruct (lift st (log_stat H st)) as [s r] eqn:El. cbn [fst snd spec_step] in *. apply HR; try assumption.
    + intros st1 r1 c Hc E. eapply log_stat_R; eassumption.
    + unfold log_stat. closed_err.
  - (* index removal *)
    unfold when_closed. destruct (opened st) eqn:Ho; cbn [lift0 fst snd spec_step]; [split; [assumption|reflexivity]|].
    destruct HG as [(_ & Hv & HD)|[HI|HV]].
    + destruct (rm_index_ok (segs st) 0 which all HD) as [HD2 A2].
      split; [left; split; [assumption|split; assumption]|]. exact A2.
    + destruct HI as (_ & _ & _ & _ & c & Hc & _). congruence.
    + destruct HV as (_ & _ & c & Hc & _). congruence.
  - (* Migrate *)
    unfold when_closed. destruct (opened st) eqn:Ho; cbn [fst snd spec_step]; [split; [assumption|reflexivity]|].
    destruct HG as [(_ & Hv & HD)|[HI|HV]].
    + destruct (dir_migrate_ok H p v st HD) as (st2 & E2 & HD2 & A2 & _ & Ho2 & Hv2). rewrite E2. cbn [lift0 fst snd].
      split; [left; split; [congruence|split; [congruence|assumption]]|]. exact A2.
    + destruct HI as (_ & _ & _ & _ & c & Hc & _). congruence.
    + destruct HV as (_ & _ & c & Hc & _). congruence.
  - (* RecoverDir *)
    unfold when_closed. destruct (opened st) eqn:Ho; cbn [fst snd spec_step]; [split; [assumption|reflexivity]|].
    destruct HG as [(_ & Hv & HD)|[HI|HV]].
    + destruct (dir_recover_ok H p st HD) as (st2 & E2 & HD2 & A2 & Ho2 & Hv2). rewrite E2. cbn [lift0 fst snd].
      split; [left; split; [congruence|split; [congruence|assumption]]|]. exact A2.
    + destruct HI as (_ & _ & _ & _ & c & Hc & _). congruence.
    + destruct HV as (_ & _ & c & Hc & _). congruence.
Qed.

(* a Publish that fails - whatever the reason, a refused oversized batch after a rollover included - publishes
   nothing: the live messages and NextOffset are what they were *)
Corollary failed_publish_publishes_nothing st ms e :
  Good st -> snd (hstep st (HPub ms)) = RNum (Err e) ->
  Good (fst (hstep st (HPub ms))) /\ abs (fst (hstep st (HPub ms))) = abs st.
Proof.
  intros HG He. destruct (hstep_good st (HPub ms) HG) as [G A]. split; [exact G|]. rewrite A, He. reflexivity.
Qed.

(* ---------- whole histories *)

Fixpoint hrun (st : lstate) (ops : list hop) : lstate * list hout :=
  match ops with
  | [] => (st, [])
  | op :: r => let (s1, o) := hstep st op in let (s2, os) := hrun s1 r in (s2, o :: os)
  end.

Fixpoint spec_run (a : alog) (ops : list hop) (outs : list hout) : alog :=
  match ops, outs with
  | op :: r, o :: os => spec_run (spec_step a op o) r os
  | _, _ => a
  end.

Theorem history_refines ops : forall st,
  Good st -> Good (fst (hrun st ops)) /\ abs (fst (hrun st ops)) = spec_run (abs st) ops (snd (hrun st ops)).
Proof.
  induction ops as [|op r IH]; intros st HG; cbn [hrun]; [split; [assumption|reflexivity]|].
  destruct (hstep st op) as [s1 o] eqn:E1. pose proof (hstep_good st op HG) as [G1 A1]. rewrite E1 in G1, A1. cbn [fst snd] in G1, A1.
  destruct (hrun s1 r) as [s2 os] eqn:E2. pose proof (IH s1 G1) as [G2 A2]. rewrite E2 in G2, A2. cbn [fst snd] in *.
  split; [assumption|]. rewrite A2, A1. reflexivity.
Qed.


End History.

(* ---------- C02: offsets are never reused in the life of a directory *)

(* the offsets assigned by the successful publishes of a history, in order of assignment *)
Fixpoint assigned (a : alog) (ops : list hop) (outs : list hout) : list Z :=
  match ops, outs with
  | op :: r, o :: os =>
    (match op, o with HPub ms, RNum (Ok _) => seq_from (anext a) (length ms) | _, _ => [] end)
      ++ assigned (spec_step a op o) r os
  | _, _ => []
  end.

Fixpoint zinc_from (lo : Z) (l : list Z) : Prop :=
  match l with [] => True | x :: r => lo <= x /\ zinc_from (x + 1) r end.

Lemma zinc_from_weaken lo lo' l : lo' <= lo -> zinc_from lo l -> zinc_from lo' l.
Proof. destruct l as [|x r]; cbn; [trivial|]. intros Hle [H1 H2]. split; [lia|assumption]. Qed.

Lemma zinc_from_app lo n rest : zinc_from (lo + Z.of_nat n) rest -> zinc_from lo (seq_from lo n ++ rest).
Proof.
  revert lo. induction n as [|n IH]; intros lo Hr; cbn [seq_from app].
  - eapply zinc_from_weaken; [|exact Hr]. lia.
  - cbn [zinc_from]. split; [lia|]. apply IH. replace (lo + 1 + Z.of_nat n) with (lo + Z.of_nat (S n)) by lia. exact Hr.
Qed.

Lemma spec_step_next a op o : anext a <= anext (spec_step a op o).
Proof.
  destruct op, o; cbn [spec_step]; try lia; destruct r as [x|e]; try lia.
  - unfold spec_publish. cbn [anext]. lia.
  - destruct x. cbn [anext]. lia.
Qed.

Theorem assigned_increasing ops : forall outs a, zinc_from (anext a) (assigned a ops outs).
Proof.
  induction ops as [|op r IH]; intros outs a; [exact I|]. destruct outs as [|o os]; [exact I|]. cbn [assigned].
  specialize (IH os (spec_step a op o)).
  destruct op; try (cbn [app]; eapply zinc_from_weaken; [apply spec_step_next|exact IH]).
  destruct o; try (cbn [app]; eapply zinc_from_weaken; [apply (spec_step_next a (HPub ms))|exact IH]).
  destruct r0 as [n|e]; [|cbn [app]; eapply zinc_from_weaken; [apply (spec_step_next a (HPub ms))|exact IH]].
  apply zinc_from_app. cbn [spec_step spec_publish anext] in IH. exact IH.
Qed.

Lemma zinc_from_lt lo l x : zinc_from lo l -> In x l -> lo <= x.
Proof.
  revert lo. induction l as [|y r IH]; intros lo Hz Hin; [contradiction|]. destruct Hz as [H1 H2].
  destruct Hin as [->|Hin]; [assumption|]. specialize (IH _ H2 Hin). lia.
Qed.

Theorem assigned_nodup ops outs a : NoDup (assigned a ops outs).
Proof.
  pose proof (assigned_increasing ops outs a) as Hz. revert Hz. generalize (anext a). generalize (assigned a ops outs).
  induction l as [|x r IH]; intros lo Hz; constructor.
  - destruct Hz as [_ H2]. intro Hin. pose proof (zinc_from_lt _ _ _ H2 Hin). lia.
  - destruct Hz as [_ H2]. eapply IH. exact H2.
Qed.

Lemma spec_run_next ops : forall outs a, anext a <= anext (spec_run a ops outs).
Proof.
  induction ops as [|op r IH]; intros outs a; [cbn; lia|]. destruct outs as [|o os]; [cbn; lia|]. cbn [spec_run].
  pose proof (spec_step_next a op o). specialize (IH os (spec_step a op o)). lia.
Qed.

(* every assigned offset stays below the final NextOffset *)
Theorem assigned_below_next ops : forall outs a x, In x (assigned a ops outs) -> x < anext (spec_run a ops outs).
Proof.
  induction ops as [|op r IH]; intros outs a x Hin; [contradiction|]. destruct outs as [|o os]; [contradiction|].
  cbn [assigned spec_run] in *. apply in_app_or in Hin. destruct Hin as [Hin|Hin]; [|now apply IH].
  pose proof spec_run_next as Hmono.
  specialize (Hmono r os (spec_step a op o)).
  destruct op; try contradiction. destruct o; try contradiction. destruct r0; try contradiction.
  apply seq_from_in in Hin. unfold spec_step, spec_publish in Hmono. cbn [anext] in Hmono. unfold spec_step, spec_publish. lia.
Qed.

