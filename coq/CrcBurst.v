(* CrcBurst.v — C14: CRC-32C, as computed by Codec.crc32c, tells apart any two byte strings of the same length that
   differ only inside a window of at most four consecutive bytes (a burst of up to 32 bits).  The register update is
   linear over GF(2) (crc_step_lxor); feeding k <= 4 bytes from a register c is 8k register steps from c xor (the
   bytes packed little-endian) (fold_pack), and the register step is injective on 32-bit values (CrcProofs).
   On records: two valid V2 records never differ only inside such a window, as long as the window does not straddle
   the boundary between the checksum field (bytes 0..3) and the checksummed part — for a straddling window the
   guarantee is mathematically not there (the checksum is stored in front of the data, not behind it). *)
From KV Require Import Base Model Codec CrcProofs.
From Coq Require Import ZifyBool ZifyNat ZifyN.

Local Open Scope N_scope.

Ltac xor_ring :=
  apply N.bits_inj; intro; rewrite ?N.lxor_spec;
  repeat match goal with |- context [N.testbit ?x ?n] => destruct (N.testbit x n) end; reflexivity.

Lemma odd_lxor a b : N.odd (N.lxor a b) = xorb (N.odd a) (N.odd b).
Proof. rewrite <- !N.bit0_odd. apply N.lxor_spec. Qed.

Lemma crc_step_lxor a b : crc_step (N.lxor a b) = N.lxor (crc_step a) (crc_step b).
Proof.
  unfold crc_step. rewrite odd_lxor, N.shiftr_lxor.
  destruct (N.odd a), (N.odd b); cbn [xorb]; xor_ring.
Qed.

Lemma step8_lxor a b : step8 (N.lxor a b) = N.lxor (step8 a) (step8 b).
Proof. unfold step8. now rewrite !crc_step_lxor. Qed.

Lemma crc_step_shl x k : crc_step (N.shiftl x (N.succ k)) = N.shiftl x k.
Proof.
  unfold crc_step. rewrite <- N.bit0_odd, N.shiftl_spec_low by lia.
  rewrite N.shiftr_shiftl_l by lia. f_equal. lia.
Qed.

Lemma step8_shl8 x : step8 (N.shiftl x 8) = x.
Proof.
  unfold step8.
  change 8 with (N.succ 7). rewrite crc_step_shl. change 7 with (N.succ 6). rewrite crc_step_shl.
  change 6 with (N.succ 5). rewrite crc_step_shl. change 5 with (N.succ 4). rewrite crc_step_shl.
  change 4 with (N.succ 3). rewrite crc_step_shl. change 3 with (N.succ 2). rewrite crc_step_shl.
  change 2 with (N.succ 1). rewrite crc_step_shl. change 1 with (N.succ 0). rewrite crc_step_shl.
  apply N.shiftl_0_r.
Qed.

Lemma crc_byte_step8 c b : crc_byte c b = step8 (N.lxor c b).
Proof. reflexivity. Qed.

(* the bytes of a window, packed little-endian *)
Fixpoint pack (w : list N) : N :=
  match w with
  | [] => 0
  | a :: w' => N.lxor a (N.shiftl (pack w') 8)
  end.

Lemma iter_succ_r {A} (f : A -> A) : forall n x, Nat.iter (S n) f x = Nat.iter n f (f x).
Proof. induction n as [|n IH]; intros x; [reflexivity|]. change (Nat.iter (S (S n)) f x) with (f (Nat.iter (S n) f x)). rewrite IH. reflexivity. Qed.

Lemma fold_pack : forall w c, fold_left crc_byte w c = Nat.iter (length w) step8 (N.lxor c (pack w)).
Proof.
  induction w as [|a w IH]; intros c.
  - cbn [fold_left length Nat.iter pack]. now rewrite N.lxor_0_r.
  - cbn [fold_left length pack]. rewrite IH, iter_succ_r. f_equal.
    rewrite crc_byte_step8. rewrite <- (step8_shl8 (pack w)) at 1. rewrite <- step8_lxor. f_equal.
    now rewrite N.lxor_assoc.
Qed.

Lemma lxor_lt a b n : a < 2 ^ n -> b < 2 ^ n -> N.lxor a b < 2 ^ n.
Proof.
  intros Ha Hb. destruct (N.eq_dec (N.lxor a b) 0) as [->|Hz]; [lia|].
  apply N.log2_lt_pow2; [lia|]. pose proof (N.log2_lxor a b) as Hl.
  assert (a = 0 \/ N.log2 a < n) as Ha' by (destruct (N.eq_dec a 0) as [->|]; [now left|right; apply N.log2_lt_pow2; lia]).
  assert (b = 0 \/ N.log2 b < n) as Hb' by (destruct (N.eq_dec b 0) as [->|]; [now left|right; apply N.log2_lt_pow2; lia]).
  destruct Ha' as [->|Ha'], Hb' as [->|Hb'].
  - now rewrite N.lxor_0_r in Hz.
  - rewrite N.lxor_0_l. exact Hb'.
  - rewrite N.lxor_0_r. exact Ha'.
  - lia.
Qed.

Lemma pack_lt : forall w, small w -> pack w < 2 ^ (8 * N.of_nat (length w)).
Proof.
  induction w as [|a w IH]; intros Hw; [cbn; lia|].
  inversion Hw as [|? ? Ha Hw']; subst. specialize (IH Hw'). cbn [pack length].
  replace (8 * N.of_nat (S (length w))) with (8 * N.of_nat (length w) + 8) by lia.
  apply lxor_lt.
  - apply N.lt_le_trans with (2 ^ 8); [exact Ha|]. apply N.pow_le_mono_r; lia.
  - rewrite N.shiftl_mul_pow2, N.pow_add_r. apply N.mul_lt_mono_pos_r; [cbn; lia|exact IH].
Qed.

Lemma pack_w32 w : small w -> (length w <= 4)%nat -> w32 (pack w).
Proof.
  intros Hw Hl. unfold w32. apply N.lt_le_trans with (2 ^ (8 * N.of_nat (length w))); [now apply pack_lt|].
  apply N.pow_le_mono_r; lia.
Qed.

Lemma shiftr8_byte a : a < 256 -> N.shiftr a 8 = 0.
Proof. intros Ha. rewrite N.shiftr_div_pow2. apply N.div_small. exact Ha. Qed.

Lemma pack_inj : forall w w', small w -> small w' -> length w = length w' -> pack w = pack w' -> w = w'.
Proof.
  induction w as [|a w IH]; intros [|a' w'] Hw Hw' Hl E; try discriminate; [reflexivity|].
  inversion Hw as [|? ? Ha Hws]; subst. inversion Hw' as [|? ? Ha' Hws']; subst.
  cbn [pack] in E.
  assert (Ep : pack w = pack w').
  { assert (E2 : N.shiftr (N.lxor a (N.shiftl (pack w) 8)) 8 = N.shiftr (N.lxor a' (N.shiftl (pack w') 8)) 8) by now rewrite E.
    rewrite !N.shiftr_lxor, (shiftr8_byte a Ha), (shiftr8_byte a' Ha'), !N.lxor_0_l in E2.
    rewrite !N.shiftr_shiftl_l, !N.sub_diag, !N.shiftl_0_r in E2 by lia. exact E2. }
  rewrite Ep in E. apply lxor_cancel_r in E. subst a'. f_equal. apply IH; auto.
Qed.

Lemma iter_step8_w32 : forall n a, w32 a -> w32 (Nat.iter n step8 a).
Proof. induction n as [|n IH]; intros a Ha; [exact Ha|]. cbn [Nat.iter]. apply step8_w32. now apply IH. Qed.

Lemma iter_step8_inj : forall n a b, w32 a -> w32 b -> Nat.iter n step8 a = Nat.iter n step8 b -> a = b.
Proof.
  induction n as [|n IH]; intros a b Ha Hb E; [exact E|]. cbn [Nat.iter] in E.
  apply step8_inj in E; [|now apply iter_step8_w32|now apply iter_step8_w32]. now apply IH.
Qed.

(* two strings of the same length that differ only inside a window of at most four bytes have different checksums *)
Theorem crc32c_burst pre w w' post :
  small pre -> small post -> small w -> small w' -> length w = length w' -> (length w <= 4)%nat ->
  crc32c (pre ++ w ++ post) = crc32c (pre ++ w' ++ post) -> w = w'.
Proof.
  intros Hpre Hpost Hw Hw' Hl H4 E. unfold crc32c in E. apply N2Z.inj in E. apply lxor_cancel_r in E.
  rewrite !fold_left_app in E.
  pose proof (fold_w32 pre crc_mask Hpre mask_w32) as Hs. set (s := fold_left crc_byte pre crc_mask) in *.
  apply fold_inj_state in E; [|assumption|now apply fold_w32|now apply fold_w32].
  rewrite !fold_pack, <- Hl in E.
  apply iter_step8_inj in E; [|apply lxor_w32; [assumption|now apply pack_w32]|apply lxor_w32; [assumption|apply pack_w32; [assumption|lia]]].
  rewrite (N.lxor_comm s (pack w)), (N.lxor_comm s (pack w')) in E. apply lxor_cancel_r in E.
  now apply pack_inj.
Qed.

Local Close Scope N_scope.
From KV Require Import CodecProofs.

(* x and y are equal outside a window of at most four bytes that lies entirely in the first four bytes (the checksum
   field of a V2 record) or entirely behind them *)
Definition differ_in_window (x y : bytes) : Prop :=
  exists pre w w' post, x = pre ++ w ++ post /\ y = pre ++ w' ++ post /\ length w = length w' /\
    (length w <= 4)%nat /\ w <> w' /\ ((length pre + length w <= 4)%nat \/ (4 <= length pre)%nat).

Theorem v2_records_never_a_burst_apart m m' :
  bytes_ok (enc_rec crc32c V2 m) -> bytes_ok (enc_rec crc32c V2 m') ->
  differ_in_window (enc_rec crc32c V2 m) (enc_rec crc32c V2 m') -> False.
Proof.
  cbn [enc_rec]. set (body := be 8 (moff m) ++ be 8 (mtime m) ++ be 4 (zlen (mkey m)) ++ be 4 (zlen (mval m)) ++ mkey m ++ mval m ++ trailer).
  set (body' := be 8 (moff m') ++ be 8 (mtime m') ++ be 4 (zlen (mkey m')) ++ be 4 (zlen (mval m')) ++ mkey m' ++ mval m' ++ trailer).
  intros Hok Hok' (pre & w & w' & post & E & E' & Hl & H4 & Hne & Hwhere).
  destruct (bytes_ok_app_inv _ _ Hok) as [_ Hb]. destruct (bytes_ok_app_inv _ _ Hok') as [_ Hb'].
  pose proof (crc32c_w32 body Hb) as Hc. pose proof (crc32c_w32 body' Hb') as Hc'.
  assert (L4 : length (be 4 (crc32c body)) = 4%nat) by apply be_length.
  assert (L4' : length (be 4 (crc32c body')) = 4%nat) by apply be_length.
  assert (S1 : skipn 4 (be 4 (crc32c body) ++ body) = body) by (rewrite <- L4 at 1; apply skipn_app_exact).
  assert (S2 : skipn 4 (be 4 (crc32c body') ++ body') = body') by (rewrite <- L4' at 1; apply skipn_app_exact).
  assert (F1 : firstn 4 (be 4 (crc32c body) ++ body) = be 4 (crc32c body)) by (rewrite <- L4 at 1; apply firstn_app_exact).
  assert (F2 : firstn 4 (be 4 (crc32c body') ++ body') = be 4 (crc32c body')) by (rewrite <- L4' at 1; apply firstn_app_exact).
  destruct Hwhere as [Hin|Hge].
  - (* the window lies in the checksum field: the bodies are equal, hence the whole records *)
    assert (Hbody : body = body').
    { rewrite E in S1. rewrite E' in S2. rewrite !skipn_app in S1, S2.
      rewrite (skipn_all2 pre) in S1, S2 by lia. rewrite (skipn_all2 w) in S1 by lia. rewrite (skipn_all2 w') in S2 by lia.
      cbn [app] in S1, S2. rewrite <- Hl in S2. congruence. }
    apply Hne. rewrite <- Hbody in E'. rewrite E in E'. apply app_inv_head in E'. now apply app_inv_tail in E'.
  - (* the window lies in the checksummed part: the checksum fields are equal, the bodies a window apart *)
    rewrite E in F1. rewrite E' in F2. rewrite firstn_app in F1, F2.
    replace (4 - length pre)%nat with O in F1, F2 by lia. cbn [firstn] in F1, F2. rewrite app_nil_r in F1, F2. rewrite F1 in F2.
    apply be4_inj in F2; [|exact Hc|exact Hc'].
    rewrite E in S1. rewrite E' in S2. rewrite skipn_app in S1, S2.
    replace (4 - length pre)%nat with O in S1, S2 by lia. cbn [skipn] in S1, S2.
    rewrite <- S1, <- S2 in F2. rewrite <- S1 in Hb. rewrite <- S2 in Hb'.
    destruct (bytes_ok_app_inv _ _ Hb) as [Hp Hwp]. destruct (bytes_ok_app_inv _ _ Hwp) as [Hw Hpost].
    destruct (bytes_ok_app_inv _ _ Hb') as [_ Hwp']. destruct (bytes_ok_app_inv _ _ Hwp') as [Hw' _].
    apply Hne. exact (crc32c_burst (skipn 4 pre) w w' post Hp Hpost Hw Hw' Hl H4 F2).
Qed.

(* a record damaged only inside such a window is never read back with its size unchanged - neither as the original
   message nor as any other *)
Theorem burst_damage_detected b' pos m :
  bytes_ok b' -> 0 <= pos -> bytes_ok (enc_rec crc32c V2 m) ->
  differ_in_window (enc_rec crc32c V2 m) (sub b' pos (rec_size V2 m)) ->
  forall m' nxt, read_rec crc32c V2 b' pos = Ok (m', nxt) -> rec_size V2 m' <> rec_size V2 m.
Proof.
  intros Hok Hpos Hm Hd m' nxt Hr Hsz.
  destruct (read_rec_v2_sound crc32c b' pos m' nxt Hok Hpos Hr) as [_ Henc]. rewrite Hsz in Henc.
  rewrite Henc in Hd. apply (v2_records_never_a_burst_apart m m' Hm); [|exact Hd].
  rewrite <- Henc. now apply bytes_ok_sub.
Qed.
