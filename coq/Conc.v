(* Conc.v — C08: the locking protocol of log.go as a small-step transition system.
   Threads are calls of Publish / a read (Consume, Get, GetByKey, GetByTime, ConsumeByKey, NextOffset, Stat) /
   Delete, cut at every lock operation and at every access to shared state that another call can interleave
   with; any number of threads, any interleaving.  Shared state: the segment list (identity + visible records
   of each segment, the last one being the writing segment), NextOffset, writerMu, the holders of
   readersMu.RLock, deleteMu.  A critical section under readersMu.Lock is one atomic step that is enabled only
   while nobody holds the read lock.  trace is ghost state: the linearization events in the order they occur.
   Executable; no proofs here. *)
From KV Require Import Base Model.
From KV Require Notify.
Notation set_nth := Notify.set_nth.

Record cseg := mkCseg { sid : nat; crecs : list msg }.

Section Conc.
(* a read call is characterised by what it computes from the live messages and NextOffset *)
Variable Q : Type.
Variable R : Type.
Variable qeval : Q -> list msg -> Z -> R.

Inductive event :=
| EvPub (i : nat) (ms : list msg) (ret : Z)
| EvRead (i : nat) (q : Q) (r : R)
| EvDel (i : nat) (offs : list Z) (deleted : list msg).

Inductive pc :=
| Idle
(* Publish(ms) *)
| P0 (ms : list msg)            (* writerMu.Lock *)
| P1 (ms : list msg)            (* NeedsRollover? swap under readersMu.Lock *)
| P2 (ms : list msg)            (* files written; index.append makes the batch visible *)
| P3 (ret : Z)                  (* writerMu.Unlock *)
| PDone (ret : Z)
(* a read *)
| R0 (q : Q)                    (* readersMu.RLock *)
| R1 (q : Q)                    (* the call reads the writing segment and the other segments, in either order *)
| RA (q : Q) (h : list msg) (n : Z)        (* head index read first *)
| RB (q : Q) (o : list msg)                (* the other segments read first *)
| R3 (r : R)                    (* readersMu.RUnlock *)
| RDone (r : R)
(* Delete(offs) *)
| D0 (offs : list Z)            (* deleteMu.Lock *)
| D1 (offs : list Z)            (* findDeleteReader under RLock *)
| D2 (offs : list Z) (t : nat)  (* writerMu: is the target the writing segment? *)
| D3 (offs : list Z) (t : nat) (ww : bool)                       (* Rewrite: reads the segment, no lock held *)
| D4 (offs : list Z) (t : nat) (ww : bool) (snap : list msg)     (* take the locks again, validate, swap *)
| D5 (res : list msg)           (* deleteMu.Unlock *)
| DDone (res : list msg).

Record cstate := mkC {
  segs : list cseg;
  nxt : Z;
  fresh : nat;
  wmu : option nat;
  rds : list nat;
  dmu : option nat;
  thr : list pc;
  trace : list event
}.

Definition cabs (l : list cseg) : list msg := concat (map crecs l).

Definition upd (s : cstate) (i : nat) (p : pc) : cstate :=
  mkC (segs s) (nxt s) (fresh s) (wmu s) (rds s) (dmu s) (set_nth i (thr s) p) (trace s).

Definition head_of (l : list cseg) : option cseg := last_opt l.
Definition others_of (l : list cseg) : list cseg := removelast l.

Definition with_head (l : list cseg) (h : cseg) : list cseg := others_of l ++ [h].

Fixpoint assign (next : Z) (ms : list msg) : list msg :=
  match ms with
  | [] => []
  | m :: r => mkMsg next (mtime m) (mkey m) (mval m) :: assign (next + 1) r
  end.

Definition find_seg (l : list cseg) (t : nat) : option cseg := find (fun s => Nat.eqb (sid s) t) l.

(* segment.Get on the lowest requested offset: the last segment whose first visible offset is not above it
   (the model keeps no base offsets: the segment that holds the offset, or, for a dead offset, any choice made
   by the oracle argument) *)
Definition holds (off : Z) (s : cseg) : bool := existsb (fun m => moff m =? off) (crecs s).

Definition target_of (l : list cseg) (offs : list Z) (guess : nat) : option nat :=
  match offs with
  | [] => None
  | _ =>
    let lo := zmin_list offs in
    if lo <? 0 then None
    else match find (holds lo) l with
         | Some s => Some (sid s)
         | None => match nth_error l guess with Some s => Some (sid s) | None => None end
         end
  end.

Definition del_part (offs : list Z) (recs : list msg) : list msg := filter (fun m => zmem (moff m) offs) recs.
Definition keep_part (offs : list Z) (recs : list msg) : list msg := filter (fun m => negb (zmem (moff m) offs)) recs.

(* replace the records of segment t; an emptied non-writing segment disappears *)
Fixpoint replace_seg (l : list cseg) (t : nat) (recs : list msg) (drop_empty : bool) : list cseg :=
  match l with
  | [] => []
  | s :: r => if Nat.eqb (sid s) t
              then (if drop_empty && (match recs with [] => true | _ => false end) then r else mkCseg t recs :: r)
              else s :: replace_seg r t recs drop_empty
  end.

(* writer.Delete: nothing survives -> a fresh empty writing segment; the newest message deleted -> the survivors become a
   reader segment and a fresh empty segment takes over; otherwise the survivors stay the writing segment *)
Definition tail_deleted (offs : list Z) (snap : list msg) : bool :=
  match last_opt snap with Some m => zmem (moff m) offs | None => false end.

Definition head_swap (l : list cseg) (t : nat) (keep : list msg) (tail : bool) (fr : nat) : list cseg :=
  others_of l ++
  match keep with
  | [] => [mkCseg fr []]
  | _ => if tail then [mkCseg t keep; mkCseg fr []] else [mkCseg t keep]
  end.

Inductive act :=
| Step (i : nat)                 (* the thread's next step, when it has only one *)
| Roll (i : nat)                 (* P1 with rollover *)
| HeadFirst (i : nat)            (* R1: read the writing segment first *)
| OthersFirst (i : nat)          (* R1: read the other segments first *)
| Find (i : nat) (guess : nat).  (* D1 *)

Definition holder_free (m : option nat) : bool := match m with None => true | Some _ => false end.

Definition cstep (s : cstate) (a : act) : option cstate :=
  match a with
  | Step i =>
    match nth_error (thr s) i with
    | Some (P0 ms) =>
      if holder_free (wmu s) then Some (mkC (segs s) (nxt s) (fresh s) (Some i) (rds s) (dmu s) (set_nth i (thr s) (P1 ms)) (trace s)) else None
    | Some (P1 ms) => Some (upd s i (P2 ms))                               (* no rollover *)
    | Some (P2 ms) =>
      match head_of (segs s) with
      | Some h =>
        let ret := nxt s + zlen ms in
        Some (mkC (with_head (segs s) (mkCseg (sid h) (crecs h ++ assign (nxt s) ms))) ret (fresh s) (wmu s) (rds s) (dmu s)
                  (set_nth i (thr s) (P3 ret)) (trace s ++ [EvPub i ms ret]))
      | None => None
      end
    | Some (P3 ret) =>
      Some (mkC (segs s) (nxt s) (fresh s) None (rds s) (dmu s) (set_nth i (thr s) (PDone ret)) (trace s))
    | Some (R0 q) =>
      Some (mkC (segs s) (nxt s) (fresh s) (wmu s) (i :: rds s) (dmu s) (set_nth i (thr s) (R1 q)) (trace s))
    | Some (RA q h n) =>
      Some (upd s i (R3 (qeval q (cabs (others_of (segs s)) ++ h) n)))
    | Some (RB q o) =>
      match head_of (segs s) with
      | Some h =>
        Some (mkC (segs s) (nxt s) (fresh s) (wmu s) (rds s) (dmu s)
                  (set_nth i (thr s) (R3 (qeval q (o ++ crecs h) (nxt s))))
                  (trace s ++ [EvRead i q (qeval q (cabs (segs s)) (nxt s))]))
      | None => None
      end
    | Some (R3 r) =>
      Some (mkC (segs s) (nxt s) (fresh s) (wmu s) (filter (fun j => negb (Nat.eqb j i)) (rds s)) (dmu s)
                (set_nth i (thr s) (RDone r)) (trace s))
    | Some (D0 offs) =>
      if holder_free (dmu s) then Some (mkC (segs s) (nxt s) (fresh s) (wmu s) (rds s) (Some i) (set_nth i (thr s) (D1 offs)) (trace s)) else None
    | Some (D2 offs t) =>
      if holder_free (wmu s) then
        match head_of (segs s) with
        | Some h => Some (upd s i (D3 offs t (Nat.eqb (sid h) t)))
        | None => None
        end
      else None
    | Some (D3 offs t ww) =>
      match find_seg (segs s) t with
      | Some sg =>
        match del_part offs (crecs sg) with
        | [] => Some (upd s i (D5 []))
        | _ => Some (upd s i (D4 offs t ww (crecs sg)))
        end
      | None => None
      end
    | Some (D4 offs t ww snap) =>
      if holder_free (wmu s) then
        match head_of (segs s) with
        | Some h =>
          if Nat.eqb (sid h) t then
            (* the writing segment: readersMu.Lock, then the count check of writer.Delete *)
            match rds s with
            | [] =>
              if Nat.eqb (length snap) (length (crecs h)) then
                Some (mkC (head_swap (segs s) t (keep_part offs snap) (tail_deleted offs snap) (fresh s)) (nxt s) (S (fresh s)) (wmu s) (rds s) (dmu s)
                          (set_nth i (thr s) (D5 (del_part offs snap))) (trace s ++ [EvDel i offs (del_part offs snap)]))
              else Some (upd s i (D5 []))                      (* errSegmentChanged *)
            | _ => None
            end
          else if ww then Some (upd s i (D1 offs))             (* rolled over meanwhile: retry *)
          else
            match rds s with
            | [] =>
              Some (mkC (replace_seg (segs s) t (keep_part offs snap) true) (nxt s) (fresh s) (wmu s) (rds s) (dmu s)
                        (set_nth i (thr s) (D5 (del_part offs snap))) (trace s ++ [EvDel i offs (del_part offs snap)]))
            | _ => None
            end
        | None => None
        end
      else None
    | Some (D5 res) =>
      Some (mkC (segs s) (nxt s) (fresh s) (wmu s) (rds s) None (set_nth i (thr s) (DDone res)) (trace s))
    | _ => None
    end
  | Roll i =>
    match nth_error (thr s) i, rds s with
    | Some (P1 ms), [] =>
      Some (mkC (segs s ++ [mkCseg (fresh s) []]) (nxt s) (S (fresh s)) (wmu s) (rds s) (dmu s) (set_nth i (thr s) (P2 ms)) (trace s))
    | _, _ => None
    end
  | HeadFirst i =>
    match nth_error (thr s) i, head_of (segs s) with
    | Some (R1 q), Some h =>
      Some (mkC (segs s) (nxt s) (fresh s) (wmu s) (rds s) (dmu s) (set_nth i (thr s) (RA q (crecs h) (nxt s)))
                (trace s ++ [EvRead i q (qeval q (cabs (segs s)) (nxt s))]))
    | _, _ => None
    end
  | OthersFirst i =>
    match nth_error (thr s) i with
    | Some (R1 q) => Some (upd s i (RB q (cabs (others_of (segs s)))))
    | _ => None
    end
  | Find i guess =>
    match nth_error (thr s) i with
    | Some (D1 offs) =>
      match target_of (segs s) offs guess with
      | Some t => Some (upd s i (D2 offs t))
      | None => Some (upd s i (D5 []))
      end
    | _ => None
    end
  end.

Definition cinit (ts : list pc) : cstate := mkC [mkCseg 0 []] 0 1 None [] None ts [].

Fixpoint crun (s : cstate) (sched : list act) : cstate :=
  match sched with
  | [] => s
  | a :: r => match cstep s a with Some s' => crun s' r | None => crun s r end
  end.

Inductive creach (s0 : cstate) : cstate -> Prop :=
| creach_refl : creach s0 s0
| creach_step s a s' : creach s0 s -> cstep s a = Some s' -> creach s0 s'.

(* ---------- the sequential specification the trace is replayed against *)

Definition spec_event (st : list msg * Z) (e : event) : list msg * Z :=
  let '(L, n) := st in
  match e with
  | EvPub _ ms ret => (L ++ assign n ms, n + zlen ms)
  | EvRead _ q r => (L, n)
  | EvDel _ offs deleted => (filter (fun m => negb (existsb (fun d => moff d =? moff m) deleted)) L, n)
  end.

(* what the sequential specification allows an event to report in state (L, n) *)
Definition event_ok (st : list msg * Z) (e : event) : Prop :=
  let '(L, n) := st in
  match e with
  | EvPub _ ms ret => ret = n + zlen ms
  | EvRead _ q r => r = qeval q L n
  | EvDel _ offs deleted => forall d, In d deleted -> In d L /\ In (moff d) offs
  end.

Fixpoint trace_ok (st : list msg * Z) (tr : list event) : Prop :=
  match tr with
  | [] => True
  | e :: r => event_ok st e /\ trace_ok (spec_event st e) r
  end.

Definition replay (tr : list event) : list msg * Z := fold_left spec_event tr ([], 0).

End Conc.

Arguments Idle {Q R}.
Arguments P0 {Q R} ms.
Arguments P1 {Q R} ms.
Arguments P2 {Q R} ms.
Arguments P3 {Q R} ret.
Arguments PDone {Q R} ret.
Arguments R0 {Q R} q.
Arguments R1 {Q R} q.
Arguments RA {Q R} q h n.
Arguments RB {Q R} q o.
Arguments R3 {Q R} r.
Arguments RDone {Q R} r.
Arguments D0 {Q R} offs.
Arguments D1 {Q R} offs.
Arguments D2 {Q R} offs t.
Arguments D3 {Q R} offs t ww.
Arguments D4 {Q R} offs t ww snap.
Arguments D5 {Q R} res.
Arguments DDone {Q R} res.
Arguments EvPub {Q R} i ms ret.
Arguments EvRead {Q R} i q r.
Arguments EvDel {Q R} i offs deleted.
Arguments segs {Q R} c.
Arguments nxt {Q R} c.
Arguments fresh {Q R} c.
Arguments wmu {Q R} c.
Arguments rds {Q R} c.
Arguments dmu {Q R} c.
Arguments thr {Q R} c.
Arguments trace {Q R} c.
Arguments mkC {Q R}.
Arguments upd {Q R}.
