(* ReaderGC.v — C08: the lazy load / unload of a sealed segment's log file (log_reader.go: reader.getMessages, the
   release of the in-use count after a read, reader.GC) as a transition system cut at every lock operation, every look at
   r.messages and every update of the atomic counter, for any number of reading calls and GC calls.
   messagesMu is a readers-writer lock (rlocks readers, wlock writer); mapped = (r.messages != nil);
   inuse = r.messagesInuse.  Executable; proofs in ReaderGCProofs.v. *)
From KV Require Import Base Notify.

Inductive rpc :=
| RStart            (* getMessages: about to RLock *)
| RFastLocked       (* holds RLock, about to look at r.messages *)
| RFastAdd          (* holds RLock, saw it loaded, about to Add(1) *)
| RFastUnlockHit    (* holds RLock, counted, about to RUnlock and return the mapping *)
| RFastUnlockMiss   (* holds RLock, saw nil, about to RUnlock *)
| RSlowWait         (* about to Lock *)
| RSlowLocked       (* holds Lock, about to look at r.messages again *)
| RSlowOpen         (* holds Lock, saw nil, about to open the file and store it *)
| RSlowAdd          (* holds Lock, loaded, about to Add(1) *)
| RSlowUnlock       (* holds Lock, counted, about to Unlock and return the mapping *)
| RUsing            (* getMessages has returned: the call reads through the mapping *)
| RRelease          (* the read is done, about to Add(-1) *)
| RDone.

Inductive gpc :=
| GStart            (* reader.GC: about to Lock *)
| GLocked           (* holds Lock, about to test messages == nil || inuse > 0 *)
| GClose            (* the test let it through: about to close the mapping and set r.messages = nil *)
| GUnlock           (* about to Unlock *)
| GDone.

Inductive thr := TR (p : rpc) | TG (p : gpc).

Record gstate := mkG {
  mapped : bool;
  inuse : nat;
  rlocks : nat;
  wlock : bool;
  thrs : list thr;
  bad : bool          (* a read through a closed mapping, or a mapping closed while counted as in use *)
}.

Definition ginit (m : bool) (ts : list thr) : gstate := mkG m O O false ts false.

Definition upd (s : gstate) (i : nat) (t : thr) (m : bool) (u r : nat) (w : bool) (b : bool) : gstate :=
  mkG m u r w (set_nth i (thrs s) t) b.

(* thread i takes its next step, if it is enabled *)
Definition gstep (s : gstate) (i : nat) : option gstate :=
  match nth_error (thrs s) i with
  | None => None
  | Some (TR p) =>
    match p with
    | RStart => if wlock s then None else Some (upd s i (TR RFastLocked) (mapped s) (inuse s) (S (rlocks s)) (wlock s) (bad s))
    | RFastLocked => Some (upd s i (TR (if mapped s then RFastAdd else RFastUnlockMiss)) (mapped s) (inuse s) (rlocks s) (wlock s) (bad s))
    | RFastAdd => Some (upd s i (TR RFastUnlockHit) (mapped s) (S (inuse s)) (rlocks s) (wlock s) (bad s))
    | RFastUnlockHit => Some (upd s i (TR RUsing) (mapped s) (inuse s) (pred (rlocks s)) (wlock s) (bad s))
    | RFastUnlockMiss => Some (upd s i (TR RSlowWait) (mapped s) (inuse s) (pred (rlocks s)) (wlock s) (bad s))
    | RSlowWait => if wlock s || negb (Nat.eqb (rlocks s) 0) then None
                   else Some (upd s i (TR RSlowLocked) (mapped s) (inuse s) (rlocks s) true (bad s))
    | RSlowLocked => Some (upd s i (TR (if mapped s then RSlowAdd else RSlowOpen)) (mapped s) (inuse s) (rlocks s) (wlock s) (bad s))
    | RSlowOpen => Some (upd s i (TR RSlowAdd) true (inuse s) (rlocks s) (wlock s) (bad s))
    | RSlowAdd => Some (upd s i (TR RSlowUnlock) (mapped s) (S (inuse s)) (rlocks s) (wlock s) (bad s))
    | RSlowUnlock => Some (upd s i (TR RUsing) (mapped s) (inuse s) (rlocks s) false (bad s))
    | RUsing => Some (upd s i (TR RRelease) (mapped s) (inuse s) (rlocks s) (wlock s) (bad s || negb (mapped s)))
    | RRelease => Some (upd s i (TR RDone) (mapped s) (pred (inuse s)) (rlocks s) (wlock s) (bad s))
    | RDone => None
    end
  | Some (TG p) =>
    match p with
    | GStart => if wlock s || negb (Nat.eqb (rlocks s) 0) then None
                else Some (upd s i (TG GLocked) (mapped s) (inuse s) (rlocks s) true (bad s))
    | GLocked => Some (upd s i (TG (if mapped s && Nat.eqb (inuse s) 0 then GClose else GUnlock)) (mapped s) (inuse s) (rlocks s) (wlock s) (bad s))
    | GClose => Some (upd s i (TG GUnlock) false (inuse s) (rlocks s) (wlock s) (bad s || negb (Nat.eqb (inuse s) 0)))
    | GUnlock => Some (upd s i (TG GDone) (mapped s) (inuse s) (rlocks s) false (bad s))
    | GDone => None
    end
  end.

(* a schedule: the threads that move, in order; a step that is not enabled is skipped *)
Definition grun (s : gstate) (sched : list nat) : gstate :=
  fold_left (fun s i => match gstep s i with Some s' => s' | None => s end) sched s.
