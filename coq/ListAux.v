(* ListAux.v — small list facts used by the proofs. *)
From KV Require Import Base.
From Coq Require Import ZifyBool ZifyNat.

Lemma last_in {A} (l : list A) (d : A) : l <> [] -> In (last l d) l.
Proof.
  induction l as [|x l IH]; [congruence|]. intros _. destruct l as [|y l]; [left; reflexivity|].
  right. change (last (x :: y :: l) d) with (last (y :: l) d). apply IH. discriminate.
Qed.

Lemma last_cons_cons {A} (x y : A) l d : last (x :: y :: l) d = last (y :: l) d.
Proof. reflexivity. Qed.

Lemma last_map' {A B} (f : A -> B) (r : list A) : forall a, last (map f r) (f a) = f (last r a).
Proof.
  induction r as [|b r IH]; intros a; [reflexivity|].
  destruct r as [|c r]; [reflexivity|].
  cbn [map]. rewrite !last_cons_cons. apply (IH a).
Qed.

Lemma last_opt_map {A B} (f : A -> B) (l : list A) : last_opt (map f l) = option_map f (last_opt l).
Proof. destruct l as [|a l]; [reflexivity|]. cbn [map last_opt option_map]. f_equal. apply last_map'. Qed.

Lemma last_nonempty_default {A} (l : list A) (a b : A) : l <> [] -> last l a = last l b.
Proof.
  induction l as [|x l IH]; [congruence|]. intros _. destruct l as [|y l]; [reflexivity|].
  rewrite !last_cons_cons. apply IH. discriminate.
Qed.

Lemma last_opt_last {A} (l : list A) (d : A) : l <> [] -> last_opt l = Some (last l d).
Proof.
  destruct l as [|a l]; [congruence|]. intros _. cbn [last_opt]. f_equal.
  destruct l as [|b l]; [reflexivity|]. rewrite last_cons_cons. apply last_nonempty_default. discriminate.
Qed.

Lemma last_opt_in {A} (l : list A) x : last_opt l = Some x -> In x l.
Proof.
  destruct l as [|a l]; [discriminate|]. cbn. intros E. injection E as <-.
  destruct l as [|b l]; [left; reflexivity|]. right. apply last_in. discriminate.
Qed.

Lemma last_opt_none {A} (l : list A) : last_opt l = None -> l = [].
Proof. destruct l; [reflexivity|discriminate]. Qed.

Lemma last_app_one {A} (l : list A) (x d : A) : last (l ++ [x]) d = x.
Proof. apply last_last. Qed.

Lemma last_opt_app {A} (l : list A) (x : A) : last_opt (l ++ [x]) = Some x.
Proof.
  destruct l as [|a l]; [reflexivity|]. cbn [app last_opt]. f_equal. apply last_last.
Qed.

Lemma last_opt_app2 {A} (l r : list A) : r <> [] -> last_opt (l ++ r) = last_opt r.
Proof.
  intros Hr. destruct (@exists_last A r Hr) as (r' & x & ->).
  rewrite app_assoc, !last_opt_app. reflexivity.
Qed.

Lemma filter_nil_iff {A} (f : A -> bool) (l : list A) :
  filter f l = [] <-> forall x, In x l -> f x = false.
Proof.
  induction l as [|a l IH]; cbn; [tauto|]. destruct (f a) eqn:E; split.
  - discriminate.
  - intros Hall. specialize (Hall a (or_introl eq_refl)). congruence.
  - intros Hn x [<-|Hx]; [assumption|]. now apply IH.
  - intros Hall. apply IH. intros x Hx. apply Hall. now right.
Qed.

Lemma firstn_nonempty {A} (l : list A) n : l <> [] -> (0 < n)%nat -> firstn n l <> [].
Proof. destruct l; [congruence|]. destruct n; [lia|]. discriminate. Qed.

Lemma firstn_length_le {A} (l : list A) n : (length (firstn n l) <= n)%nat.
Proof. rewrite firstn_length. lia. Qed.

Lemma last_cons_self {A} (l : list A) : forall a d, last (a :: l) d = last l a.
Proof.
  induction l as [|b l IH]; intros a d; [reflexivity|].
  rewrite last_cons_cons. rewrite (IH b d), (IH b a). reflexivity.
Qed.

Lemma last_opt_cons_cons {A} (a b : A) l : last_opt (a :: b :: l) = last_opt (b :: l).
Proof. cbn [last_opt]. f_equal. apply last_cons_self. Qed.

Lemma Forall2_len {A B} (R : A -> B -> Prop) l l' : Forall2 R l l' -> length l = length l'.
Proof. induction 1; cbn; congruence. Qed.

Lemma exists_last_or_nil {A} (l : list A) : l = [] \/ exists l' x, l = l' ++ [x].
Proof.
  destruct l as [|a l]; [left; reflexivity|]. right.
  destruct (@exists_last A (a :: l)) as (l' & x & E); [discriminate|]. eauto.
Qed.

Lemma in_firstn {A} (l : list A) n x : In x (firstn n l) -> In x l.
Proof. revert n; induction l as [|a l IH]; intros [|n] Hin; cbn in *; try contradiction. destruct Hin as [->|Hin]; [now left|right; eauto]. Qed.

Lemma in_skipn {A} (l : list A) n x : In x (skipn n l) -> In x l.
Proof. revert n; induction l as [|a l IH]; intros [|n] Hin; cbn in *; try contradiction; auto. right; eauto. Qed.

Lemma app_eq_len {A} (a c b d : list A) : a ++ b = c ++ d -> length a = length c -> a = c /\ b = d.
Proof.
  revert c; induction a as [|x a IH]; intros [|y c] E Hl; cbn in *; try discriminate; [tauto|].
  injection E as -> E. destruct (IH c E ltac:(lia)) as [-> ->]. tauto.
Qed.

Lemma firstn_app_exact_l {A} (a b : list A) : firstn (length a) (a ++ b) = a.
Proof. induction a; cbn; [reflexivity|]. now f_equal. Qed.

Lemma skipn_app_exact_l {A} (a b : list A) : skipn (length a) (a ++ b) = b.
Proof. induction a; cbn; auto. Qed.

