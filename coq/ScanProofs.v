(* ScanProofs.v — the `for offset := OffsetOldest; offset < max && cond; Consume(offset, 32)` loop of the
   trim and compaction helpers (C15, C16): Consume makes progress until the log is exhausted, and a
   Hoare-style rule for the loop that holds for every way Consume may cut the log into batches. *)
From KV Require Import Base Model Helpers ListAux SearchProofs SegProofs ReaderProofs Spec SpecFacts LogInv
     ConsumeProofs GetProofs AbsFacts ReadsPreserve KeyProofs KeyConsume.
From Coq Require Import ZifyBool ZifyNat.

Section ScanProofs.
Variable H : bytes -> Z.

(* ---------- Consume returns no message only when nothing is left *)

Lemma firstn_ne {A} (l : list A) n : l <> [] -> (1 <= n)%nat -> firstn n l <> [].
Proof. destruct l; [congruence|]. destruct n; [lia|]. discriminate. Qed.

Theorem log_consume_empty_at_end st off max st1 n :
  Inv st -> 1 <= max -> off <> OffsetNewest ->
  log_consume H st off max = Ok (st1, (n, [])) -> from_off (live (abs st)) off = [].
Proof.
  intros HInv Hmax Hnew. pose proof HInv as (Hne & HF & Hch & Hv & c & Hc & Hhead).
  unfold log_consume, get_cfg. rewrite Hc. cbn [bind].
  assert (Hbne : bases (segs st) <> []) by (unfold bases; destruct (segs st); [congruence|discriminate]).
  destruct (seg_consume_spec (bases (segs st)) off Hbne (bases_sorted _ Hch)
              (fun b Hb => bases_nonneg _ b HF Hb) Hnew) as (i & Hi & Hsel).
  rewrite Hi. cbn [bind]. pose proof Hsel as (Hir & Hafter & Hbefore). unfold bases in Hir. rewrite zlen_map in Hir.
  destruct (znth_in_range (segs st) i Hir) as [s Hs].
  destruct (with_index_ok H c st i s HInv Hc Hs) as (sta & s' & items & Hwi & Hok & Hsh & Hst & HInv1 & Hz1).
  rewrite Hwi. cbn [bind].
  destruct (znth_split _ _ _ Hs) as (pre & post & Hsplit & Hpre).
  pose proof (from_off_selected st off i s pre post HInv Hnew Hsel Hsplit Hpre) as Hfrom.
  unfold abs. cbn [live]. rewrite Hfrom.
  destruct Hsh as (Hr' & Hb' & Hv').
  pose proof (reader_consume_spec s' items (is_last st i) off max Hok Hmax Hnew) as Hrc. rewrite Hr' in Hrc.
  destruct (ge_filter off (srecs s)) as [|g0 gr] eqn:EF.
  - cbn [app].
    destruct (is_last st i) eqn:Hil.
    + (* the selected segment is the last one *)
      assert (post = []).
      { unfold is_last in Hil. rewrite Hsplit, zlen_app, zlen_cons in Hil. destruct post; [reflexivity|]. rewrite zlen_cons in Hil.
        pose proof (zlen_nonneg post). lia. }
      subst post. intros _. reflexivity.
    + cbn [andb] in Hrc. rewrite Hrc.
      assert (Hsne : srecs s <> []).
      { destruct post as [|s2 post']; [unfold is_last in Hil; rewrite Hsplit, zlen_app, zlen_cons in Hil; change (zlen (@nil seg)) with 0 in Hil; lia|].
        rewrite Hsplit in Hch. apply (chain_nonhead_nonempty pre s (s2 :: post') Hch). discriminate. }
      destruct (srecs s) as [|r0 rr] eqn:Er; [congruence|].
      destruct (i <? zlen (segs st) - 1) eqn:Hlt; [|discriminate].
      destruct post as [|s2 post']; [rewrite Hsplit, zlen_app, zlen_cons in Hlt; change (zlen (@nil seg)) with 0 in Hlt; lia|].
      assert (Hz2 : znth (segs st) (i + 1) = Some s2).
      { rewrite Hsplit, <- Hpre. rewrite znth_app_r by lia. reflexivity. }
      destruct Hst as (HF2 & Hop1 & Hv1 & _).
      assert (Hc1 : opened sta = Some c) by congruence.
      assert (Hz2' : exists s2a, znth (segs sta) (i + 1) = Some s2a /\ same_shape s2 s2a).
      { clear -HF2 Hz2. revert Hz2. generalize (i + 1) as k. intros k.
        unfold znth. destruct (k <? 0); [discriminate|]. generalize (Z.to_nat k) as n.
        induction HF2 as [|a a' l l' Ha HF IH]; intros [|n] Hn; try discriminate.
        - cbn in *. injection Hn as <-. eauto.
        - cbn in *. apply IH. exact Hn. }
      destruct Hz2' as (s2a & Hz2a & Hsh2).
      destruct (with_index_ok H c sta (i + 1) s2a HInv1 Hc1 Hz2a)
        as (st2 & s2b & items2 & Hwi2 & Hok2 & Hsh2b & Hst2 & HInv2 & Hz2b).
      rewrite Hwi2. cbn [bind].
      assert (Hnew2 : OffsetOldest <> OffsetNewest) by (unfold OffsetOldest, OffsetNewest; lia).
      pose proof (reader_consume_spec s2b items2 (is_last st (i + 1)) OffsetOldest max Hok2 Hmax Hnew2) as Hrc2.
      assert (Hr2 : srecs s2b = srecs s2) by (destruct Hsh2 as (E1 & _); destruct Hsh2b as (E2 & _); congruence).
      assert (Hs2_inv : seg_inv s2) by (eapply Forall_znth; eauto).
      assert (Hgf : ge_filter OffsetOldest (srecs s2) = srecs s2).
      { unfold ge_filter. apply filter_all_true. intros x Hx. destruct Hs2_inv as (_ & Hnn & _).
        specialize (Hnn x Hx). unfold OffsetOldest. lia. }
      rewrite Hr2, Hgf in Hrc2.
      destruct (srecs s2) as [|q0 qr] eqn:Er2.
      * assert (Hp' : post' = []).
        { destruct post' as [|s3 post'']; [reflexivity|]. exfalso.
          rewrite Hsplit in Hch. apply chain_ok_app_r in Hch. apply chain_ok_tail in Hch.
          cbn in Hch. destruct Hch as [(_ & _ & Hn) _]. congruence. }
        subst post'. intros _. unfold all_recs. cbn. now rewrite Er2.
      * destruct Hrc2 as (m2 & Hl2 & Hrc2). rewrite Hrc2. cbn [bind]. intros E. injection E as _ _ E.
        exfalso. revert E. apply firstn_ne; [discriminate|lia].
  - destruct Hrc as (m & Hl & Hrc). rewrite Hrc. intros E. injection E as _ _ E.
    exfalso. revert E. apply firstn_ne; [discriminate|lia].
Qed.


(* the loop depends on its step function only pointwise *)
Lemma inner_ext {A} (step step' : A -> msg -> A * brk) :
  (forall a m, step a m = step' a m) -> forall ms acc, inner step acc ms = inner step' acc ms.
Proof.
  intros He. induction ms as [|m r IH]; intros acc; [reflexivity|]. cbn [inner]. rewrite He.
  destruct (step' acc m) as [a [ | | ]]; [apply IH|reflexivity|reflexivity].
Qed.

Lemma scan_loop_ext {A} (step step' : A -> msg -> A * brk) cond :
  (forall a m, step a m = step' a m) ->
  forall fuel st off maxoff acc, scan_loop H fuel st off maxoff acc cond step = scan_loop H fuel st off maxoff acc cond step'.
Proof.
  intros He. induction fuel as [|f IH]; intros st off maxoff acc; [reflexivity|]. cbn [scan_loop].
  destruct ((off <? maxoff) && cond acc); [|reflexivity].
  destruct (log_consume H st off 32) as [[st1 [nxt ms]]|]; [|reflexivity]. cbn [bind].
  rewrite (inner_ext step step' He). destruct (inner step' acc ms) as [a [ | | ]]; [apply IH|apply IH|reflexivity].
Qed.

(* the loop only reads *)
Lemma scan_loop_opened {A} (step : A -> msg -> A * brk) cond : forall fuel st off maxoff acc st' a,
  Inv st -> scan_loop H fuel st off maxoff acc cond step = Ok (st', a) -> opened st' = opened st /\ Inv st' /\ abs st' = abs st.
Proof.
  induction fuel as [|f IH]; intros st off maxoff acc st' a HI E; [discriminate|]. cbn [scan_loop] in E.
  destruct ((off <? maxoff) && cond acc); [|injection E as <- <-; split; [reflexivity|split; [assumption|reflexivity]]].
  destruct (log_consume H st off 32) as [[st1 [nxt ms]]|] eqn:Ec; [|discriminate]. cbn [bind] in E.
  pose proof HI as (_ & _ & _ & _ & c & Hc & _).
  destruct (R_result c st st1 (log_consume_R H st off 32 st1 (nxt, ms) c Hc Ec) HI Hc) as (HI1 & HA1 & Ho1).
  destruct (inner step acc ms) as [a1 [ | | ]].
  - destruct (IH _ _ _ _ _ _ HI1 E) as (Ho & HI' & HA'). split; [congruence|split; [assumption|congruence]].
  - destruct (IH _ _ _ _ _ _ HI1 E) as (Ho & HI' & HA'). split; [congruence|split; [assumption|congruence]].
  - injection E as <- <-. split; [assumption|split; assumption].
Qed.

(* ---------- cursors over a strictly increasing list *)

Lemma inc_app_inv a b : inc (a ++ b) -> inc a /\ inc b /\ forall x y, In x a -> In y b -> moff x < moff y.
Proof.
  induction a as [|m a IH]; intros Hi; cbn [app] in *.
  - split; [exact I|]. split; [exact Hi|]. intros x y [].
  - destruct Hi as [Hm Hi]. destruct (IH Hi) as (Ha & Hb & Hab). split; [split; [|exact Ha]|split; [exact Hb|]].
    + intros x Hx. apply Hm. apply in_or_app. now left.
    + intros x y [->|Hx] Hy; [apply Hm; apply in_or_app; now right|now apply Hab].
Qed.

Lemma from_off_suffix L off :
  inc L -> (forall x, In x L -> 0 <= moff x) ->
  exists pre, L = pre ++ from_off L off /\ forall x, In x pre -> moff x < off.
Proof.
  intros Hi Hnn. unfold from_off. destruct (off <? 0) eqn:E; [exists []; split; [reflexivity|intros x []]|].
  induction L as [|m r IH]; [exists []; split; [reflexivity|intros x []]|].
  destruct Hi as [Hm Hr]. cbn [filter]. destruct (off <=? moff m) eqn:E1.
  - exists []. split; [|intros x []]. cbn [app]. f_equal. symmetry. apply filter_all_true.
    intros x Hx. specialize (Hm x Hx). lia.
  - destruct (IH Hr ltac:(intros x Hx; apply Hnn; now right)) as (pre & Hp & Hlt).
    exists (m :: pre). split; [cbn [app]; f_equal; exact Hp|]. intros x [->|Hx]; [lia|now apply Hlt].
Qed.

Lemma last_opt_in' {A} (l : list A) x : last_opt l = Some x -> In x l.
Proof. apply last_opt_in. Qed.

Lemma inc_le_last a m x : inc a -> last_opt a = Some m -> In x a -> moff x <= moff m.
Proof.
  induction a as [|y a IH]; intros Hi Hl Hin; [contradiction|]. destruct Hi as [Hy Hi].
  destruct a as [|z a'].
  - cbn in Hl. injection Hl as <-. destruct Hin as [->|[]]. lia.
  - rewrite last_opt_cons_cons in Hl. destruct Hin as [->|Hin].
    + pose proof (Hy m (last_opt_in _ _ Hl)). lia.
    + now apply IH.
Qed.

Lemma from_off_advance L off ms rest m :
  inc L -> (forall x, In x L -> 0 <= moff x) ->
  from_off L off = ms ++ rest -> last_opt ms = Some m -> from_off L (moff m + 1) = rest.
Proof.
  intros Hi Hnn Hf Hl. destruct (from_off_suffix L off Hi Hnn) as (pre & HL & Hpre). rewrite Hf in HL.
  pose proof (Hnn m ltac:(rewrite HL; apply in_or_app; right; apply in_or_app; left; now apply last_opt_in)) as Hm0.
  unfold from_off. destruct (moff m + 1 <? 0) eqn:E; [lia|]. rewrite HL.
  rewrite HL in Hi. destruct (inc_app_inv _ _ Hi) as (_ & Hi2 & Hcross1). destruct (inc_app_inv _ _ Hi2) as (Hims & _ & Hcross2).
  rewrite !filter_app.
  rewrite (filter_all_false _ pre).
  2:{ intros x Hx. pose proof (Hcross1 x m Hx ltac:(apply in_or_app; left; now apply last_opt_in)). lia. }
  rewrite (filter_all_false _ ms).
  2:{ intros x Hx. pose proof (inc_le_last ms m x Hims Hl Hx). lia. }
  rewrite (filter_all_true _ rest).
  2:{ intros y Hy. pose proof (Hcross2 m y (last_opt_in _ _ Hl) Hy). lia. }
  reflexivity.
Qed.

Lemma is_prefix_split ms from : is_prefix ms from = true -> exists rest, from = ms ++ rest.
Proof.
  revert from. induction ms as [|x ms IH]; intros from Hp; [exists from; reflexivity|].
  destruct from as [|y from]; [discriminate|]. cbn [is_prefix] in Hp. apply andb_prop in Hp. destruct Hp as [E Hp].
  apply msg_eqb_eq in E. subst y. destruct (IH _ Hp) as (rest & ->). exists rest. reflexivity.
Qed.

(* one Consume(off, max) of the loop *)
Lemma consume_step st off max :
  Inv st -> 1 <= max -> off <= anext (abs st) -> off <> OffsetNewest ->
  exists st1 n ms, log_consume H st off max = Ok (st1, (n, ms)) /\ Inv st1 /\ abs st1 = abs st /\
    ((ms = [] /\ from_off (live (abs st)) off = [] /\ n = anext (abs st)) \/
     (exists m rest, last_opt ms = Some m /\ from_off (live (abs st)) off = ms ++ rest /\ n = moff m + 1)).
Proof.
  intros HI Hmax Hle Hnew. pose proof (log_consume_correct H st off max HI Hmax) as Hck.
  destruct (log_consume H st off max) as [[st1 [n ms]]|e] eqn:E.
  - destruct (log_consume_preserves H st off max st1 (n, ms) HI E) as [HI1 HA1].
    exists st1, n, ms. split; [reflexivity|]. split; [exact HI1|]. split; [exact HA1|].
    cbn [obs_consume] in Hck. unfold check_consume in Hck.
    destruct (anext (abs st) <? off) eqn:E1; [lia|]. destruct (off =? OffsetNewest) eqn:E2; [lia|].
    destruct ms as [|m0 mr].
    + left. pose proof (log_consume_empty_at_end st off max st1 n HI Hmax Hnew E) as Hfrom.
      rewrite Hfrom in Hck. split; [reflexivity|]. split; [exact Hfrom|]. lia.
    + right. apply andb_prop in Hck. destruct Hck as [Hck Hlast]. apply andb_prop in Hck. destruct Hck as [Hpre _].
      destruct (is_prefix_split _ _ Hpre) as (rest & Hrest).
      destruct (last_opt (m0 :: mr)) as [m|] eqn:El; [|discriminate]. exists m, rest. split; [reflexivity|]. split; [exact Hrest|lia].
  - cbn [obs_consume] in Hck. unfold check_consume in Hck.
    destruct (anext (abs st) <? off) eqn:E1; [lia|]. destruct (off =? OffsetNewest) eqn:E2; [lia|]. discriminate.
Qed.

(* ---------- the loop rule *)

Section Rule.
Context {A : Type}.
Variables (I : A -> list msg -> Prop) (Post : A -> Prop) (cond : A -> bool) (step : A -> msg -> A * brk) (maxoff : Z).
Variable L : list msg.

Hypothesis Hchunk : forall acc done chunk rest,
  I acc done -> L = done ++ chunk ++ rest -> chunk <> [] -> cond acc = true ->
  match inner step acc chunk with
  | (a, Continue) => I a (done ++ chunk)
  | (a, BreakInner) => Post a /\ (cond a = false \/ forall x, last_opt chunk = Some x -> maxoff <= moff x + 1)
  | (a, BreakOuter) => Post a
  end.

Hypothesis Hexit : forall acc done rest,
  I acc done -> L = done ++ rest -> (cond acc = false \/ forall m, In m rest -> maxoff <= moff m) -> Post acc.

Lemma scan_rule_aux : forall fuel st off acc done R,
  Inv st -> live (abs st) = L -> L = done ++ R -> from_off L off = R ->
  off <= anext (abs st) -> off <> OffsetNewest -> maxoff <= anext (abs st) ->
  (length R + 2 <= fuel)%nat -> I acc done ->
  exists st' a, scan_loop H fuel st off maxoff acc cond step = Ok (st', a) /\ Post a /\
                Inv st' /\ abs st' = abs st.
Proof.
  induction fuel as [|f IH]; intros st off acc done R HI HL Hsplit Hfrom Hoff Hnew Hmax Hfuel Hinv; [lia|].
  assert (Hinc : inc L) by (rewrite <- HL; destruct HI as (_ & HF & Hch & _); now apply all_recs_inc).
  assert (Hnn : forall x, In x L -> 0 <= moff x).
  { rewrite <- HL. intros x Hx. unfold abs in Hx. cbn [live] in Hx. destruct (in_all_recs _ _ Hx) as (s & Hs & Hxs).
    destruct HI as (_ & HF & _). rewrite Forall_forall in HF. destruct (HF s Hs) as (_ & Hn & _). now apply Hn. }
  cbn [scan_loop]. destruct ((off <? maxoff) && cond acc) eqn:Econt.
  - apply andb_prop in Econt. destruct Econt as [Eoff Econd].
    destruct (consume_step st off 32 HI ltac:(lia) Hoff Hnew) as (st1 & n & ms & E & HI1 & HA1 & Hcase).
    rewrite E. cbn [bind]. rewrite HL in Hcase. rewrite Hfrom in Hcase.
    destruct Hcase as [(-> & HR & ->)|(m & rest & Hl & HR & ->)].
    + (* nothing left: the next test of the loop fails *)
      cbn [inner]. destruct f as [|f']; [lia|]. cbn [scan_loop].
      replace (anext (abs st) <? maxoff) with false by lia. cbn [andb].
      exists st1, acc. split; [reflexivity|]. split; [|split; assumption].
      apply (Hexit acc done R Hinv Hsplit). right. rewrite HR. intros x [].
    + assert (Hms : ms <> []) by (intro Hc; subst ms; discriminate).
      rewrite HR in Hsplit. pose proof (Hchunk acc done ms rest Hinv Hsplit Hms Econd) as Hc.
      assert (Hm_in : In m L) by (rewrite Hsplit; apply in_or_app; right; apply in_or_app; left; now apply last_opt_in).
      assert (Hn_le : moff m + 1 <= anext (abs st1)).
      { rewrite HA1. pose proof (abs_offsets_below_next st m HI ltac:(rewrite HL; exact Hm_in)). lia. }
      destruct (inner step acc ms) as [a [ | | ]] eqn:Ein.
      * (* the whole batch was processed: continue behind it *)
        rewrite <- HA1. apply (IH st1 (moff m + 1) a (done ++ ms) rest HI1 ltac:(congruence)).
        -- rewrite Hsplit. now rewrite app_assoc.
        -- apply (from_off_advance L off ms rest m Hinc Hnn); [rewrite Hfrom; exact HR|exact Hl].
        -- exact Hn_le.
        -- pose proof (Hnn m Hm_in). unfold OffsetNewest. lia.
        -- rewrite HA1. exact Hmax.
        -- rewrite HR, app_length in Hfuel. destruct ms; [congruence|]. cbn [length] in Hfuel. lia.
        -- exact Hc.
      * (* inner break: the loop test fails next *)
        destruct Hc as [Hpost Hstop]. destruct f as [|f']; [rewrite HR, app_length in Hfuel; destruct ms; [congruence|cbn [length] in Hfuel; lia]|].
        cbn [scan_loop]. assert (Estop : (moff m + 1 <? maxoff) && cond a = false).
        { destruct Hstop as [Hcf|Hmo]; [rewrite Hcf; apply andb_false_r|]. specialize (Hmo m Hl). replace (moff m + 1 <? maxoff) with false by lia. reflexivity. }
        rewrite Estop. exists st1, a. split; [reflexivity|]. split; [exact Hpost|split; assumption].
      * exists st1, a. split; [reflexivity|]. split; [exact Hc|split; assumption].
  - exists st, acc. split; [reflexivity|]. split; [|split; [exact HI|reflexivity]].
    apply (Hexit acc done R Hinv Hsplit). apply andb_false_iff in Econt. destruct Econt as [Eoff|Econd]; [right|left; exact Econd].
    intros x Hx. rewrite <- Hfrom in Hx. unfold from_off in Hx. destruct (off <? 0) eqn:E0.
    + pose proof (Hnn x Hx). lia.
    + apply filter_In in Hx. lia.
Qed.

End Rule.

End ScanProofs.

(* ---------- C01/C03: feeding the returned offset back, from OffsetOldest, visits every live message exactly once,
   in order, and stops at NextOffset *)
Section FullScan.
Variable H : bytes -> Z.

Lemma full_scan_aux max : 1 <= max -> forall fuel st off acc done R,
  Inv st -> live (abs st) = done ++ R -> from_off (live (abs st)) off = R ->
  off <= anext (abs st) -> off <> OffsetNewest -> (length R + 1 < fuel)%nat ->
  exists st', full_scan H fuel st off max acc = Ok (st', acc ++ R, anext (abs st)) /\ Inv st' /\ abs st' = abs st.
Proof.
  intros Hmax. induction fuel as [|f IH]; intros st off acc done R HI HL Hfrom Hoff Hnew Hfuel; [lia|].
  cbn [full_scan].
  destruct (consume_step H st off max HI Hmax Hoff Hnew) as (st1 & n & ms & E & HI1 & HA1 & Hcase).
  rewrite E. cbn [bind]. rewrite Hfrom in Hcase.
  destruct Hcase as [(-> & HR & ->)|(m & rest & Hl & HR & ->)].
  - exists st1. rewrite HR, app_nil_r. split; [reflexivity|split; assumption].
  - assert (Hms : ms <> []) by (intro Hc; subst ms; discriminate).
    assert (Hinc : inc (live (abs st))) by (destruct HI as (_ & HF & Hch & _); now apply all_recs_inc).
    assert (Hnn : forall x, In x (live (abs st)) -> 0 <= moff x).
    { intros x Hx. unfold abs in Hx. cbn [live] in Hx. destruct (in_all_recs _ _ Hx) as (s & Hs & Hxs).
      destruct HI as (_ & HF & _). rewrite Forall_forall in HF. destruct (HF s Hs) as (_ & Hn & _). now apply Hn. }
    assert (Hm_in : In m (live (abs st))).
    { rewrite HL, HR. apply in_or_app. right. apply in_or_app. left. now apply last_opt_in. }
    assert (Hlen : (length rest + 1 < f)%nat).
    { rewrite HR, app_length in Hfuel. destruct ms; [congruence|]. cbn [length] in Hfuel. lia. }
    destruct (IH st1 (moff m + 1) (acc ++ ms) (done ++ ms) rest HI1) as (st' & E' & HI' & HA').
    + rewrite HA1, HL, HR. now rewrite app_assoc.
    + rewrite HA1. apply (from_off_advance (live (abs st)) off ms rest m Hinc Hnn); [rewrite Hfrom; exact HR|exact Hl].
    + rewrite HA1. pose proof (abs_offsets_below_next st m HI Hm_in). lia.
    + pose proof (Hnn m Hm_in). unfold OffsetNewest. lia.
    + exact Hlen.
    + exists st'. destruct ms as [|m0 mr]; [congruence|]. rewrite E'. rewrite HA1. rewrite HR, app_assoc. split; [reflexivity|]. split; [exact HI'|congruence].
Qed.

Theorem full_scan_correct st max :
  Inv st -> 1 <= max ->
  exists st', full_scan H (S (S (length (live (abs st))))) st OffsetOldest max [] = Ok (st', live (abs st), anext (abs st)) /\
              Inv st' /\ abs st' = abs st.
Proof.
  intros HI Hmax.
  assert (Hnx : 0 <= anext (abs st)).
  { destruct HI as (Hne & HF & _). unfold abs, wnext. cbn [anext]. destruct (last_opt (segs st)) as [hd|] eqn:E; [|lia].
    apply recs_next_nonneg. rewrite Forall_forall in HF. apply HF. now apply last_opt_in. }
  destruct (full_scan_aux max Hmax (S (S (length (live (abs st))))) st OffsetOldest [] [] (live (abs st)) HI eq_refl eq_refl) as (st' & E & HI' & HA').
  - unfold OffsetOldest. lia.
  - unfold OffsetOldest, OffsetNewest. lia.
  - lia.
  - exists st'. split; [exact E|split; assumption].
Qed.

End FullScan.
