(* LogInv.v — the invariant of the segment-list model, the abstraction to the
   L0 log, and the lazy index load (reader.getIndex). *)
From KV Require Import Base Model ListAux SearchProofs SegProofs ReaderProofs Spec.
From Coq Require Import ZifyBool ZifyNat.

Section LogInv.
Variable H : bytes -> Z.

(* ---------- per-segment invariant *)

Definition first_is_base (s : seg) : Prop :=
  match srecs s with [] => True | m :: _ => moff m = sbase s end.

Definition idx_inv (s : seg) : Prop :=
  forall iv items, sidx s = Some (iv, items) ->
    items = [] \/ items_match (sver s) (hdr_size (sver s)) (srecs s) items.

Definition seg_inv (s : seg) : Prop :=
  recs_sorted (srecs s) /\ (forall m, In m (srecs s) -> 0 <= moff m) /\
  first_is_base s /\ idx_inv s /\ 0 <= sbase s.

(* the head of a read-write log always has its complete index in place *)
Definition head_inv (s : seg) : Prop :=
  exists iv items, sidx s = Some (iv, items) /\
                   items_match (sver s) (hdr_size (sver s)) (srecs s) items.

(* consecutive segments: bases increase, every offset of the earlier one is below the later
   base, and only the last segment may be empty *)
Fixpoint chain_ok (l : list seg) : Prop :=
  match l with
  | [] => True
  | s1 :: r =>
    match r with
    | [] => True
    | s2 :: _ => sbase s1 < sbase s2 /\ (forall m, In m (srecs s1) -> moff m < sbase s2)
                 /\ srecs s1 <> []
    end /\ chain_ok r
  end.

Definition Inv (st : lstate) : Prop :=
  segs st <> [] /\ Forall seg_inv (segs st) /\ chain_ok (segs st) /\ lvirt st = false /\
  exists c, opened st = Some c /\
            (cro c = false -> match last_opt (segs st) with Some hd => head_inv hd | None => False end).

(* ---------- abstraction *)

Definition all_recs (l : list seg) : list msg := concat (map srecs l).

Definition wnext (st : lstate) : Z :=
  match last_opt (segs st) with Some hd => recs_next hd | None => 0 end.

Definition abs (st : lstate) : alog := mkAlog (all_recs (segs st)) (wnext st).

(* ---------- segments of the same shape (only the index file differs) *)

Definition same_shape (s s' : seg) : Prop :=
  srecs s' = srecs s /\ sbase s' = sbase s /\ sver s' = sver s.

Lemma same_shape_refl s : same_shape s s.
Proof. repeat split. Qed.

Lemma same_shape_recs_next s s' : same_shape s s' -> recs_next s' = recs_next s.
Proof. intros (Hr & Hb & _). unfold recs_next. now rewrite Hr, Hb. Qed.

Lemma chain_ok_shape l l' : Forall2 same_shape l l' -> chain_ok l -> chain_ok l'.
Proof.
  intros HF. induction HF as [|s s' r r' Hs HF IH]; [trivial|].
  cbn [chain_ok]. intros [Hh Ht]. split; [|apply IH; exact Ht].
  destruct HF as [|s2 s2' r2 r2' Hs2 HF2]; [trivial|].
  destruct Hs as (Hr & Hb & _). destruct Hs2 as (Hr2 & Hb2 & _).
  rewrite Hr, Hb, Hb2. exact Hh.
Qed.

Lemma all_recs_shape l l' : Forall2 same_shape l l' -> all_recs l' = all_recs l.
Proof.
  intros HF. induction HF as [|s s' r r' Hs HF IH]; [reflexivity|].
  unfold all_recs in *. cbn [map concat]. destruct Hs as (Hr & _). now rewrite Hr, IH.
Qed.

Lemma bases_shape l l' : Forall2 same_shape l l' -> bases l' = bases l.
Proof.
  intros HF. induction HF as [|s s' r r' Hs HF IH]; [reflexivity|].
  unfold bases in *. cbn [map]. destruct Hs as (_ & Hb & _). now rewrite Hb, IH.
Qed.

Lemma last_opt_shape l l' :
  Forall2 same_shape l l' ->
  match last_opt l, last_opt l' with
  | Some a, Some b => same_shape a b
  | None, None => True
  | _, _ => False
  end.
Proof.
  intros HF. induction HF as [|s s' r r' Hs HF IH]; [exact I|].
  destruct HF as [|s2 s2' r2 r2' Hs2 HF2]; [exact Hs|].
  rewrite !last_opt_cons_cons. exact IH.
Qed.

Lemma replace_nth_shape (l : list seg) n s s' :
  nth_error l n = Some s -> same_shape s s' -> Forall2 same_shape l (replace_nth n l s').
Proof.
  revert n; induction l as [|a l IH]; intros n Hn Hs; [destruct n; discriminate|].
  destruct n as [|n]; cbn in *.
  - injection Hn as ->. constructor; [assumption|].
    clear. induction l; constructor; [apply same_shape_refl|assumption].
  - constructor; [apply same_shape_refl|]. now apply IH.
Qed.

Lemma replace_nth_Forall {A} (P : A -> Prop) (l : list A) n x :
  Forall P l -> P x -> Forall P (replace_nth n l x).
Proof.
  revert n; induction l as [|a l IH]; intros n HF Hx; [destruct n; constructor|].
  inversion HF; subst. destruct n; cbn; constructor; auto.
Qed.

Lemma replace_nth_length {A} (l : list A) n x : length (replace_nth n l x) = length l.
Proof. revert n; induction l as [|a l IH]; intros [|n]; cbn; auto. Qed.

Lemma replace_nth_nth {A} (l : list A) n x : (n < length l)%nat -> nth_error (replace_nth n l x) n = Some x.
Proof. revert n; induction l as [|a l IH]; intros [|n] Hl; cbn in *; try lia; auto. apply IH. lia. Qed.

Lemma replace_nth_other {A} (l : list A) n k x : n <> k -> nth_error (replace_nth n l x) k = nth_error l k.
Proof.
  revert n k; induction l as [|a l IH]; intros [|n] [|k] Hne; cbn; auto; try congruence.
Qed.

(* ---------- facts about a segment that satisfies seg_inv *)

Lemma seg_inv_open_log s : seg_inv s -> open_log_reader s = Ok (sver s).
Proof.
  intros (_ & _ & Hfb & _). unfold open_log_reader, first_is_base in *.
  destruct (sver s); [|reflexivity]. destruct (srecs s) as [|m r]; [reflexivity|].
  rewrite Hfb, Z.eqb_refl. reflexivity.
Qed.

Lemma seg_inv_seg_ok s items :
  seg_inv s -> items_match (sver s) (hdr_size (sver s)) (srecs s) items -> seg_ok s items.
Proof. intros (Hs & Hnn & _) Hm. split; [exact Hm|split; assumption]. Qed.

Lemma seg_inv_set_idx p s iv :
  seg_inv s -> seg_inv (set_idx s (Some (iv, derive H p (sver s) (srecs s)))).
Proof.
  intros (Hs & Hnn & Hfb & Hix & Hb). repeat split; try assumption.
  intros iv' items' E. cbn in E. injection E as <- <-. right. apply derive_from_match.
Qed.

(* segment.ReindexAndReadIndex through reader.getIndex *)
Lemma ensure_index_ok p newv s :
  seg_inv s ->
  exists s' items, ensure_index H p newv s = Ok (s', items) /\
                   seg_ok s' items /\ seg_inv s' /\ same_shape s s'.
Proof.
  intros Hinv. pose proof Hinv as (Hs & Hnn & Hfb & Hix & Hb).
  unfold ensure_index. destruct (needs_reindex s) eqn:En.
  - unfold reindex. rewrite (seg_inv_open_log s Hinv). cbn [bind].
    eexists _, _. split; [reflexivity|]. split; [|split].
    + apply seg_inv_seg_ok; [apply seg_inv_set_idx; assumption|]. apply derive_from_match.
    + apply seg_inv_set_idx; assumption.
    + repeat split.
  - unfold needs_reindex in En. destruct (sidx s) as [[iv items]|] eqn:Esi; [|discriminate].
    destruct items as [|i0 ir]; [discriminate|].
    destruct (Hix iv (i0 :: ir) Esi) as [Hnil|Hm]; [discriminate|].
    assert (Hopen : open_idx_reader s (iv, i0 :: ir) = Ok (i0 :: ir)).
    { unfold open_idx_reader. destruct iv; [|reflexivity].
      destruct Hm as [Ho _]. unfold first_is_base in Hfb.
      destruct (srecs s) as [|m r]; [discriminate|]. cbn in Ho. injection Ho as Ho _.
      rewrite Ho, Hfb, Z.eqb_refl. reflexivity. }
    rewrite Hopen. cbn [bind]. exists s, (i0 :: ir). split; [reflexivity|].
    split; [apply seg_inv_seg_ok; assumption|]. split; [assumption|apply same_shape_refl].
Qed.

(* ---------- with_index under Inv *)

Lemma znth_nth_error {A} (l : list A) i x : znth l i = Some x -> nth_error l (Z.to_nat i) = Some x.
Proof. unfold znth. destruct (i <? 0); [discriminate|trivial]. Qed.

Lemma Forall_znth {A} (P : A -> Prop) (l : list A) i x : Forall P l -> znth l i = Some x -> P x.
Proof. intros HF Hi. apply znth_in in Hi. rewrite Forall_forall in HF. auto. Qed.

Lemma last_opt_znth {A} (l : list A) : last_opt l = znth l (zlen l - 1).
Proof.
  destruct l as [|a l]; [reflexivity|].
  rewrite (znth_last (a :: l) a) by discriminate. cbn [last_opt]. f_equal.
  destruct l; [reflexivity|]. rewrite last_cons_cons. apply last_nonempty_default. discriminate.
Qed.

Definition st_shape (st st1 : lstate) : Prop :=
  Forall2 same_shape (segs st) (segs st1) /\ opened st1 = opened st /\ lvirt st1 = lvirt st
  /\ wcarry st1 = wcarry st.

Lemma st_shape_abs st st1 : st_shape st st1 -> abs st1 = abs st.
Proof.
  intros (HF & _). unfold abs, wnext. rewrite (all_recs_shape _ _ HF).
  pose proof (last_opt_shape _ _ HF) as Hl.
  destruct (last_opt (segs st)), (last_opt (segs st1)); try contradiction; [|reflexivity].
  now rewrite (same_shape_recs_next _ _ Hl).
Qed.

Lemma head_inv_shape_same s : head_inv s -> head_inv s.
Proof. trivial. Qed.

Theorem with_index_ok c st i s :
  Inv st -> opened st = Some c -> znth (segs st) i = Some s ->
  exists st1 s' items,
    with_index H c st i = Ok (st1, s', items) /\
    seg_ok s' items /\ same_shape s s' /\ st_shape st st1 /\ Inv st1 /\
    znth (segs st1) i = Some s'.
Proof.
  intros (Hne & HF & Hch & Hv & c' & Hc' & Hhead) Hc Hi.
  rewrite Hc in Hc'. injection Hc' as <-.
  unfold with_index. rewrite Hi, Hv.
  pose proof (Forall_znth _ _ _ _ HF Hi) as Hsi.
  destruct ((i =? zlen (segs st) - 1) && negb (cro c)) eqn:Ehd.
  - (* the writer's own index *)
    assert (Hro : cro c = false) by (destruct (cro c); [rewrite andb_false_r in Ehd; discriminate|reflexivity]).
    assert (Hil : i = zlen (segs st) - 1) by lia.
    specialize (Hhead Hro). rewrite last_opt_znth, <- Hil, Hi in Hhead.
    destruct Hhead as (iv & items & Hsidx & Hm).
    exists st, s, (head_items s). split; [reflexivity|].
    unfold head_items. rewrite Hsidx.
    split; [apply seg_inv_seg_ok; assumption|]. split; [apply same_shape_refl|].
    split.
    { split; [|repeat split]. clear. induction (segs st); constructor; [apply same_shape_refl|assumption]. }
    split; [|exact Hi].
    split; [assumption|]. split; [assumption|]. split; [assumption|]. split; [assumption|].
    exists c. split; [assumption|]. intros _. rewrite last_opt_znth, <- Hil, Hi. exists iv, items. split; assumption.
  - destruct (ensure_index_ok (cparams c) (cnewver c) s Hsi) as (s' & items & He & Hok & Hinv' & Hsh).
    rewrite He. cbn [bind].
    set (l1 := replace_nth (Z.to_nat i) (segs st) s').
    assert (Hn : nth_error (segs st) (Z.to_nat i) = Some s) by (apply znth_nth_error; exact Hi).
    assert (HF2 : Forall2 same_shape (segs st) l1) by (apply replace_nth_shape with (s := s); assumption).
    pose proof (znth_some _ _ _ Hi) as Hir.
    assert (Hi1 : znth l1 i = Some s').
    { unfold znth. destruct (i <? 0) eqn:E; [lia|]. unfold l1. apply replace_nth_nth. unfold zlen in Hir. lia. }
    exists (set_segs st l1), s', items. split; [reflexivity|].
    split; [assumption|]. split; [assumption|].
    split; [split; [exact HF2|repeat split]|]. split; [|exact Hi1].
    split.
    { cbn. intro E. apply (f_equal (@length seg)) in E. unfold l1 in E. rewrite replace_nth_length in E.
      destruct (segs st); [congruence|discriminate]. }
    split; [cbn; apply replace_nth_Forall; assumption|].
    split; [cbn; eapply chain_ok_shape; eauto|]. split; [assumption|].
    exists c. split; [assumption|]. intros Hro. cbn [segs set_segs].
    specialize (Hhead Hro).
    (* not the head in this branch (cro c = false), so the head is untouched *)
    assert (Hnl : i <> zlen (segs st) - 1) by (rewrite Hro in Ehd; cbn in Ehd; lia).
    rewrite last_opt_znth in Hhead |- *.
    assert (Hlen : zlen l1 = zlen (segs st)) by (unfold zlen, l1; now rewrite replace_nth_length).
    rewrite Hlen. unfold znth in *. destruct (zlen (segs st) - 1 <? 0) eqn:E; [assumption|].
    unfold l1. rewrite replace_nth_other by lia. exact Hhead.
Qed.

End LogInv.
