(* Base.v — common types of the klevdb model: bytes, messages, index items,
   versions, the result type and the error taxonomy.  No proofs here. *)
From Coq Require Export List ZArith NArith Bool Lia.
Export ListNotations.
Open Scope Z_scope.

Definition bytes := list N.

Record msg := mkMsg { moff : Z; mtime : Z; mkey : bytes; mval : bytes }.

Inductive ver := V1 | V2.

Definition ver_eqb (a b : ver) : bool :=
  match a, b with V1, V1 => true | V2, V2 => true | _, _ => false end.

Record item := mkItem { ioff : Z; ipos : Z; its : Z; ihash : Z }.

Record params := mkParams { ptimes : bool; pkeys : bool }.

(* internal errors, one per distinct Go error value on the modelled paths *)
Inductive ierr :=
| EIdxEmpty        (* index.ErrOffsetIndexEmpty   : InvalidOffset *)
| EBeforeStart     (* index.ErrOffsetBeforeStart  : NotFound *)
| EAfterEnd        (* index.ErrOffsetAfterEnd     : InvalidOffset *)
| EOffNotFound     (* index.ErrOffsetNotFound     : NotFound *)
| EKeyNotFound     (* index.ErrKeyNotFound / errKeyNotFound : NotFound *)
| ETimeEmpty       (* index.ErrTimeIndexEmpty     : InvalidOffset *)
| ETimeBefore      (* index.ErrTimeBeforeStart    : Other *)
| ETimeAfter       (* index.ErrTimeAfterEnd       : Other *)
| ETimeNotFound    (* errTimeNotFound             : NotFound *)
| ESegRelative     (* segment.ErrOffsetRelative   : InvalidOffset *)
| ESegBefore       (* segment.ErrOffsetBeforeStart: NotFound *)
| EInvalidOffset   (* message.ErrInvalidOffset    : InvalidOffset *)
| EDeleteRelative  (* errDeleteRelative           : InvalidOffset *)
| ENoIndex
| EReadonly
| ELogCorrupted
| EIndexCorrupted
| ENotExist
| ETooBig
| ELocked
| EOther
| EPanic
| EOutOfFuel
| EClosed
| EEOF             (* io.EOF at a record boundary: clean end of file *).

(* observable error classes (what errors.Is distinguishes) *)
Inductive eclass :=
| CNotFound | CInvalidOffset | CNoIndex | CReadonly | CLogCorrupted
| CIndexCorrupted | CNotExist | CTooBig | CLocked | COther | CPanic | COutOfFuel | CClosed.

Definition classify (e : ierr) : eclass :=
  match e with
  | EIdxEmpty | EAfterEnd | ETimeEmpty | ESegRelative | EInvalidOffset | EDeleteRelative => CInvalidOffset
  | EBeforeStart | EOffNotFound | EKeyNotFound | ETimeNotFound | ESegBefore => CNotFound
  | ETimeBefore | ETimeAfter | EOther => COther
  | ENoIndex => CNoIndex
  | EReadonly => CReadonly
  | ELogCorrupted => CLogCorrupted
  | EIndexCorrupted => CIndexCorrupted
  | ENotExist => CNotExist
  | ETooBig => CTooBig
  | ELocked => CLocked
  | EPanic => CPanic
  | EOutOfFuel => COutOfFuel
  | EClosed => CClosed
  | EEOF => COther
  end.

Definition ierr_eqb (a b : ierr) : bool :=
  match a, b with
  | EIdxEmpty, EIdxEmpty | EBeforeStart, EBeforeStart | EAfterEnd, EAfterEnd
  | EOffNotFound, EOffNotFound | EKeyNotFound, EKeyNotFound | ETimeEmpty, ETimeEmpty
  | ETimeBefore, ETimeBefore | ETimeAfter, ETimeAfter | ETimeNotFound, ETimeNotFound
  | ESegRelative, ESegRelative | ESegBefore, ESegBefore | EInvalidOffset, EInvalidOffset
  | EDeleteRelative, EDeleteRelative | ENoIndex, ENoIndex | EReadonly, EReadonly
  | ELogCorrupted, ELogCorrupted | EIndexCorrupted, EIndexCorrupted | ENotExist, ENotExist
  | ETooBig, ETooBig | ELocked, ELocked | EOther, EOther | EPanic, EPanic
  | EOutOfFuel, EOutOfFuel | EClosed, EClosed | EEOF, EEOF => true
  | _, _ => false
  end.

Inductive res (A : Type) := Ok (a : A) | Err (e : ierr).
Arguments Ok {A} a.
Arguments Err {A} e.

Definition bind {A B} (r : res A) (f : A -> res B) : res B :=
  match r with Ok a => f a | Err e => Err e end.
Notation "'do' x <- r ; k" := (bind r (fun x => k))
  (at level 200, x pattern, r at level 100, k at level 200, right associativity).

Definition zlen {A} (l : list A) : Z := Z.of_nat (length l).

Definition znth {A} (l : list A) (i : Z) : option A :=
  if i <? 0 then None else nth_error l (Z.to_nat i).

Definition last_opt {A} (l : list A) : option A :=
  match l with [] => None | x :: r => Some (last r x) end.

Fixpoint bytes_eqb (a b : bytes) : bool :=
  match a, b with
  | [], [] => true
  | x :: a', y :: b' => N.eqb x y && bytes_eqb a' b'
  | _, _ => false
  end.

Definition msg_eqb (a b : msg) : bool :=
  Z.eqb (moff a) (moff b) && Z.eqb (mtime a) (mtime b)
  && bytes_eqb (mkey a) (mkey b) && bytes_eqb (mval a) (mval b).

Definition item_eqb (a b : item) : bool :=
  Z.eqb (ioff a) (ioff b) && Z.eqb (ipos a) (ipos b)
  && Z.eqb (its a) (its b) && Z.eqb (ihash a) (ihash b).

Fixpoint list_eqb {A} (eqb : A -> A -> bool) (a b : list A) : bool :=
  match a, b with
  | [], [] => true
  | x :: a', y :: b' => eqb x y && list_eqb eqb a' b'
  | _, _ => false
  end.

Definition zmem (x : Z) (l : list Z) : bool := existsb (Z.eqb x) l.

(* minimum of a list of offsets; message.MinOffset returns OffsetInvalid (-3) on empty *)
Fixpoint zmin_list (l : list Z) : Z :=
  match l with
  | [] => -3
  | [x] => x
  | x :: r => Z.min x (zmin_list r)
  end.

(* relative offsets *)
Definition OffsetOldest : Z := -2.
Definition OffsetNewest : Z := -1.
Definition OffsetInvalid : Z := -3.
