(* ConsumeProofs.v — C03 on the model: log.Consume satisfies the Spec.v
   checker in every state that satisfies Inv, for every offset and maxCount. *)
From KV Require Import Base Model ListAux SearchProofs SegProofs ReaderProofs Spec LogInv.
From Coq Require Import ZifyBool ZifyNat.

(* ---------- reflexivity of the boolean equalities *)

Lemma bytes_eqb_refl b : bytes_eqb b b = true.
Proof. induction b as [|x b IH]; [reflexivity|]. cbn. now rewrite N.eqb_refl, IH. Qed.

Lemma msg_eqb_refl m : msg_eqb m m = true.
Proof. unfold msg_eqb. now rewrite !Z.eqb_refl, !bytes_eqb_refl. Qed.

Lemma is_prefix_firstn n l r : is_prefix (firstn n l) (l ++ r) = true.
Proof.
  revert n; induction l as [|x l IH]; intros [|n]; cbn; try reflexivity.
  now rewrite msg_eqb_refl, IH.
Qed.

(* ---------- segment.Consume *)

Definition sel_spec (bs : list Z) (off r : Z) : Prop :=
  0 <= r < zlen bs /\
  (forall j c, r < j -> znth bs j = Some c -> off < c) /\
  (r = 0 \/ exists b, znth bs r = Some b /\ b <= off).

Lemma seg_consume_spec bs off :
  bs <> [] -> sorted_lt bs -> (forall b, In b bs -> 0 <= b) -> off <> OffsetNewest ->
  exists r, seg_consume bs off = Ok r /\ sel_spec bs off r.
Proof.
  intros Hne Hs Hnn Hnew. destruct bs as [|first rest]; [congruence|].
  unfold seg_consume. lazy zeta.
  set (bs := first :: rest) in *.
  assert (Hlen : 1 <= zlen bs) by (unfold bs; rewrite zlen_cons; pose proof (zlen_nonneg rest); lia).
  assert (Hlast : znth bs (zlen bs - 1) = Some (last bs first)) by (apply znth_last; discriminate).
  unfold OffsetOldest, OffsetNewest in *.
  assert (H0 : 0 <= first) by (apply Hnn; left; reflexivity).
  destruct (off =? -2) eqn:E1.
  { exists 0. split; [reflexivity|]. split; [lia|]. split; [|left; reflexivity].
    intros j c Hj Hc. apply znth_in in Hc. specialize (Hnn c Hc). lia. }
  destruct (off =? -1) eqn:E2; [lia|].
  destruct (off <=? first) eqn:E3.
  { exists 0. split; [reflexivity|]. split; [lia|]. split; [|left; reflexivity].
    intros j c Hj Hc. assert (first < c) by (apply (Hs 0 j); auto; reflexivity). lia. }
  destruct (last bs first <=? off) eqn:E4.
  { exists (zlen bs - 1). split; [reflexivity|]. split; [lia|]. split.
    - intros j c Hj Hc. apply znth_some in Hc. lia.
    - right. exists (last bs first). split; [assumption|lia]. }
  destruct (bsearch_seg_spec (S (length bs)) bs 0 (zlen bs - 1) off Hs) as (r & Hr & b & Hb & Hle & Hgt);
    try lia.
  - intros i k Hi Hk. apply znth_some in Hk. lia.
  - intros _. exists first. split; [reflexivity|lia].
  - exists (last bs first). split; [assumption|lia].
  - unfold zlen; lia.
  - exists r. split; [assumption|]. pose proof (znth_some _ _ _ Hb). split; [lia|]. split; [assumption|].
    right. exists b. split; assumption.
Qed.

Lemma seg_consume_newest bs : bs <> [] -> seg_consume bs OffsetNewest = Ok (zlen bs - 1).
Proof. destruct bs; [congruence|]. intros _. reflexivity. Qed.

Section ConsumeProofs.
Variable H : bytes -> Z.

(* ---------- facts about chains of segments *)

Lemma seg_offsets_ge_base s m : seg_inv s -> In m (srecs s) -> sbase s <= moff m.
Proof.
  intros (Hs & _ & Hfb & _) Hin. unfold first_is_base in Hfb.
  destruct (srecs s) as [|m0 r]; [contradiction|]. destruct Hin as [<-|Hin]; [lia|].
  pose proof (recs_sorted_head_lt m0 r m Hs Hin). lia.
Qed.

Lemma chain_ok_tail a l : chain_ok (a :: l) -> chain_ok l.
Proof. cbn. tauto. Qed.

Lemma chain_ok_app_r pre l : chain_ok (pre ++ l) -> chain_ok l.
Proof. induction pre as [|a pre IH]; [trivial|]. cbn [app]. intros Hc. apply IH. eapply chain_ok_tail; eauto. Qed.

Lemma chain_base_lt a l s : chain_ok (a :: l) -> In s l -> sbase a < sbase s.
Proof.
  revert a; induction l as [|b l IH]; intros a Hc Hin; [contradiction|].
  cbn in Hc. destruct Hc as [(Hlt & _) Ht]. destruct Hin as [<-|Hin]; [assumption|].
  specialize (IH b Ht Hin). lia.
Qed.

Lemma chain_offsets_lt a l s m : chain_ok (a :: l) -> In s l -> In m (srecs a) -> moff m < sbase s.
Proof.
  intros Hc Hin Hm. destruct l as [|b l]; [contradiction|].
  pose proof Hc as Hc'. cbn in Hc. destruct Hc as [(Hlt & Hoff & _) Ht].
  specialize (Hoff m Hm). destruct Hin as [<-|Hin]; [assumption|].
  pose proof (chain_base_lt b l s Ht Hin). lia.
Qed.

Lemma chain_pre_lt pre s post m :
  chain_ok (pre ++ s :: post) -> In m (all_recs pre) -> moff m < sbase s.
Proof.
  induction pre as [|a pre IH]; intros Hc Hin; [contradiction|].
  unfold all_recs in Hin. cbn [map concat] in Hin. apply in_app_or in Hin. destruct Hin as [Hin|Hin].
  - cbn [app] in Hc. eapply chain_offsets_lt; eauto. apply in_or_app. right. left. reflexivity.
  - apply IH; [|exact Hin]. cbn [app] in Hc. eapply chain_ok_tail; eauto.
Qed.

Lemma chain_nonhead_nonempty pre s post : chain_ok (pre ++ s :: post) -> post <> [] -> srecs s <> [].
Proof.
  intros Hc Hp. apply chain_ok_app_r in Hc. destruct post as [|b post]; [congruence|].
  cbn in Hc. tauto.
Qed.

Lemma all_recs_app a b : all_recs (a ++ b) = all_recs a ++ all_recs b.
Proof. unfold all_recs. now rewrite map_app, concat_app. Qed.

Lemma all_recs_cons s l : all_recs (s :: l) = srecs s ++ all_recs l.
Proof. reflexivity. Qed.

Lemma in_all_recs m l : In m (all_recs l) -> exists s, In s l /\ In m (srecs s).
Proof.
  unfold all_recs. intros Hin. apply in_concat in Hin. destruct Hin as (x & Hx & Hm).
  apply in_map_iff in Hx. destruct Hx as (s & <- & Hs). eauto.
Qed.

Lemma filter_all_true {A} (f : A -> bool) l : (forall x, In x l -> f x = true) -> filter f l = l.
Proof.
  induction l as [|a l IH]; intros Hall; [reflexivity|]. cbn. rewrite (Hall a (or_introl eq_refl)).
  f_equal. apply IH. intros x Hx. apply Hall. now right.
Qed.

Lemma filter_all_false {A} (f : A -> bool) l : (forall x, In x l -> f x = false) -> filter f l = [].
Proof. intros Hall. now apply filter_nil_iff. Qed.

(* the live messages at or after off, in terms of the selected segment *)
Lemma from_off_split pre s post off :
  (forall m, In m (all_recs pre) -> moff m < off) ->
  (forall m, In m (all_recs post) -> off <= moff m) ->
  (off < 0 -> pre = [] /\ forall m, In m (srecs s) -> 0 <= moff m) ->
  from_off (all_recs (pre ++ s :: post)) off = ge_filter off (srecs s) ++ all_recs post.
Proof.
  intros Hpre Hpost Hneg. unfold from_off. destruct (off <? 0) eqn:E.
  - destruct (Hneg ltac:(lia)) as [-> Hnn]. cbn [app]. rewrite all_recs_cons. f_equal.
    unfold ge_filter. symmetry. apply filter_all_true. intros x Hx. specialize (Hnn x Hx). lia.
  - rewrite all_recs_app, all_recs_cons, !filter_app. unfold ge_filter.
    rewrite (filter_all_false _ (all_recs pre)) by (intros x Hx; specialize (Hpre x Hx); lia).
    rewrite (filter_all_true _ (all_recs post)) by (intros x Hx; specialize (Hpost x Hx); lia).
    reflexivity.
Qed.

Lemma znth_split {A} (l : list A) i x :
  znth l i = Some x -> exists pre post, l = pre ++ x :: post /\ zlen pre = i.
Proof.
  intros Hi. pose proof (znth_some _ _ _ Hi) as Hr. apply znth_nth_error in Hi.
  apply nth_error_split in Hi. destruct Hi as (pre & post & -> & Hl).
  exists pre, post. split; [reflexivity|]. unfold zlen. lia.
Qed.

Lemma znth_app_r {A} (pre : list A) l j : 0 <= j -> znth (pre ++ l) (zlen pre + j) = znth l j.
Proof.
  intros Hj. unfold znth, zlen. destruct (Z.of_nat (length pre) + j <? 0) eqn:E1; [lia|].
  destruct (j <? 0) eqn:E2; [lia|].
  replace (Z.to_nat (Z.of_nat (length pre) + j)) with (length pre + Z.to_nat j)%nat by lia.
  now rewrite nth_error_app2, Nat.add_comm, Nat.add_sub by lia.
Qed.

Lemma bases_sorted l : chain_ok l -> sorted_lt (bases l).
Proof.
  induction l as [|a l IH]; intros Hc i j x y Hi Hj Hij.
  - unfold bases in Hi. cbn in Hi. unfold znth in Hi. destruct (i <? 0); [discriminate|]. destruct (Z.to_nat i); discriminate.
  - pose proof (znth_some _ _ _ Hi) as Hri. pose proof (znth_some _ _ _ Hj) as Hrj.
    unfold bases in *. cbn [map] in *.
    destruct (Z.eq_dec i 0) as [->|Hi0].
    + rewrite znth_0 in Hi. injection Hi as <-.
      rewrite znth_cons_pos in Hj by lia. rewrite znth_map in Hj.
      destruct (znth l (j - 1)) as [s|] eqn:Es; [|discriminate]. cbn in Hj. injection Hj as <-.
      apply (chain_base_lt a l s Hc). eapply znth_in; eauto.
    + rewrite znth_cons_pos in Hi, Hj by lia.
      apply (IH (chain_ok_tail _ _ Hc) (i - 1) (j - 1)); auto; lia.
Qed.

Definition obs_consume (r : res (lstate * (Z * list msg))) : obs (Z * list msg) :=
  match r with Ok (_, o) => OOk o | Err e => OErr (classify e) end.


(* ---------- the checker, case by case *)

Lemma check_consume_nonempty a off max n ms m :
  off <= anext a -> off <> OffsetNewest -> ms <> [] ->
  is_prefix ms (from_off (live a) off) = true -> zlen ms <= max ->
  last_opt ms = Some m -> n = moff m + 1 ->
  check_consume a off max (OOk (n, ms)) = true.
Proof.
  intros Hle Hnew Hne Hpre Hlen Hlast ->. unfold check_consume, OffsetNewest in *.
  destruct (anext a <? off) eqn:E1; [lia|]. destruct (off =? -1) eqn:E2; [lia|].
  destruct ms as [|x ms]; [congruence|]. rewrite Hpre, Hlast.
  destruct (zlen (x :: ms) <=? max) eqn:E3; [|lia]. cbn. now rewrite Z.eqb_refl.
Qed.

Lemma check_consume_caught_up a off max :
  off <= anext a -> off <> OffsetNewest -> from_off (live a) off = [] ->
  check_consume a off max (OOk (anext a, [])) = true.
Proof.
  intros Hle Hnew Hfrom. unfold check_consume, OffsetNewest in *.
  destruct (anext a <? off) eqn:E1; [lia|]. destruct (off =? -1) eqn:E2; [lia|].
  rewrite Hfrom. cbn. rewrite Z.leb_refl, Z.eqb_refl. reflexivity.
Qed.

Lemma check_consume_beyond a off max :
  anext a < off -> check_consume a off max (OErr CInvalidOffset) = true.
Proof. intros Hlt. unfold check_consume. destruct (anext a <? off) eqn:E; [reflexivity|lia]. Qed.

Lemma check_consume_newest a max : 0 <= anext a ->
  check_consume a OffsetNewest max (OOk (anext a, [])) = true.
Proof.
  intros Hnn. unfold check_consume, OffsetNewest. destruct (anext a <? -1) eqn:E; [lia|].
  cbn. now rewrite Z.eqb_refl.
Qed.

(* ---------- facts about Inv needed below *)

Lemma recs_next_nonneg s : seg_inv s -> 0 <= recs_next s.
Proof.
  intros (_ & Hnn & _ & _ & Hb). unfold recs_next. destruct (last_opt (srecs s)) as [m|] eqn:E; [|assumption].
  apply last_opt_in in E. specialize (Hnn m E). lia.
Qed.

Lemma recs_lt_next s m : seg_inv s -> In m (srecs s) -> moff m < recs_next s.
Proof.
  intros (Hs & _) Hin. unfold recs_next.
  assert (Hne : srecs s <> []) by (destruct (srecs s); [contradiction|discriminate]).
  rewrite (last_opt_last (srecs s) m Hne).
  pose proof (sorted_lt_le_last (map moff (srecs s)) (moff m) (moff m) Hs (in_map moff _ _ Hin)) as Hle.
  rewrite last_map' in Hle. lia.
Qed.

Lemma recs_next_ge_base s : seg_inv s -> sbase s <= recs_next s.
Proof.
  intros Hinv. unfold recs_next. destruct (last_opt (srecs s)) as [m|] eqn:E; [|lia].
  apply last_opt_in in E. pose proof (seg_offsets_ge_base s m Hinv E). lia.
Qed.

Lemma wnext_app pre s : wnext (mkState (pre ++ [s]) 0 None false) = recs_next s.
Proof. unfold wnext. cbn [segs]. now rewrite last_opt_app. Qed.

(* every live offset is below the next offset of the log *)
Lemma live_lt_wnext l hd m :
  Forall seg_inv l -> chain_ok l -> last_opt l = Some hd -> In m (all_recs l) -> moff m < recs_next hd.
Proof.
  intros HF Hch Hl Hin. destruct (in_all_recs _ _ Hin) as (s & Hs & Hm).
  assert (Hne : l <> []) by (destruct l; [contradiction|discriminate]).
  destruct (@exists_last _ l Hne) as (pre & x & ->).
  rewrite last_opt_app in Hl. injection Hl as ->.
  rewrite Forall_forall in HF.
  apply in_app_or in Hs. destruct Hs as [Hs|[<-|[]]].
  - assert (moff m < sbase hd).
    { apply (chain_pre_lt pre hd [] m Hch). unfold all_recs. apply in_concat. exists (srecs s).
      split; [now apply in_map|assumption]. }
    pose proof (recs_next_ge_base hd (HF hd ltac:(apply in_or_app; right; left; reflexivity))). lia.
  - apply recs_lt_next; [|assumption]. apply HF. apply in_or_app. right. left. reflexivity.
Qed.

Lemma znth_bases l i : znth (bases l) i = option_map sbase (znth l i).
Proof. unfold bases. apply znth_map. Qed.

Lemma bases_nonneg l b : Forall seg_inv l -> In b (bases l) -> 0 <= b.
Proof.
  intros HF Hin. unfold bases in Hin. apply in_map_iff in Hin. destruct Hin as (s & <- & Hs).
  rewrite Forall_forall in HF. destruct (HF s Hs) as (_ & _ & _ & _ & Hb). exact Hb.
Qed.

(* ---------- C03 on the model *)

Theorem log_consume_correct st off max :
  Inv st -> 1 <= max ->
  check_consume (abs st) off max (obs_consume (log_consume H st off max)) = true.
Proof.
  intros HInv Hmax. pose proof HInv as (Hne & HF & Hch & Hv & c & Hc & Hhead).
  unfold log_consume, get_cfg. rewrite Hc. cbn [bind].
  assert (Hbne : bases (segs st) <> []) by (unfold bases; destruct (segs st); [congruence|discriminate]).
  destruct (last_opt (segs st)) as [hd|] eqn:Ehd; [|apply last_opt_none in Ehd; congruence].
  assert (Hhd_inv : seg_inv hd) by (rewrite Forall_forall in HF; apply HF; now apply last_opt_in).
  assert (Hanext : anext (abs st) = recs_next hd) by (unfold abs, wnext; cbn; now rewrite Ehd).
  assert (Hlive : live (abs st) = all_recs (segs st)) by reflexivity.
  assert (Hlast_znth : znth (segs st) (zlen (segs st) - 1) = Some hd) by (now rewrite <- last_opt_znth).
  destruct (Z.eq_dec off OffsetNewest) as [->|Hnew].
  - (* OffsetNewest *)
    rewrite (seg_consume_newest _ Hbne). cbn [bind].
    unfold bases. rewrite zlen_map.
    destruct (with_index_ok H c st _ hd HInv Hc Hlast_znth) as (st1 & s' & items & Hwi & Hok & Hsh & Hst & HInv1 & Hz1).
    rewrite Hwi. cbn [bind]. rewrite (reader_consume_newest s' items _ max Hok). cbn [obs_consume].
    rewrite (same_shape_recs_next _ _ Hsh), <- Hanext.
    apply check_consume_newest. rewrite Hanext. now apply recs_next_nonneg.
  - destruct (seg_consume_spec (bases (segs st)) off Hbne (bases_sorted _ Hch)
                (fun b Hb => bases_nonneg _ b HF Hb) Hnew) as (i & Hi & (Hir & Hafter & Hbefore)).
    rewrite Hi. cbn [bind]. unfold bases in Hir. rewrite zlen_map in Hir.
    destruct (znth_in_range (segs st) i Hir) as [s Hs].
    destruct (with_index_ok H c st i s HInv Hc Hs) as (st1 & s' & items & Hwi & Hok & Hsh & Hst & HInv1 & Hz1).
    rewrite Hwi. cbn [bind].
    destruct (znth_split _ _ _ Hs) as (pre & post & Hsplit & Hpre).
    assert (Hs_inv : seg_inv s) by (eapply Forall_znth; eauto).
    destruct Hsh as (Hr' & Hb' & Hv').
    (* the live messages at or after off *)
    assert (Hfrom : from_off (all_recs (segs st)) off = ge_filter off (srecs s) ++ all_recs post).
    { rewrite Hsplit. apply from_off_split.
      - intros m Hm. rewrite Hsplit in Hch. pose proof (chain_pre_lt pre s post m Hch Hm) as Hlt.
        destruct Hbefore as [->|(b & Hb & Hle)].
        + assert (pre = []) by (destruct pre; [reflexivity|unfold zlen in Hpre; cbn in Hpre; lia]). subst. contradiction.
        + rewrite znth_bases, Hs in Hb. cbn in Hb. injection Hb as <-. lia.
      - intros m Hm. destruct (in_all_recs _ _ Hm) as (s2 & Hs2 & Hm2).
        destruct (in_znth _ _ Hs2) as [j Hj]. pose proof (znth_some _ _ _ Hj) as Hjr.
        assert (Hz : znth (segs st) (i + 1 + j) = Some s2).
        { rewrite Hsplit. rewrite <- Hpre. replace (zlen pre + 1 + j) with (zlen pre + (1 + j)) by lia.
          rewrite znth_app_r by lia. rewrite znth_cons_pos by lia. now replace (1 + j - 1) with j by lia. }
        assert (off < sbase s2).
        { apply (Hafter (i + 1 + j)); [lia|]. rewrite znth_bases, Hz. reflexivity. }
        assert (seg_inv s2) by (eapply Forall_znth; eauto).
        pose proof (seg_offsets_ge_base s2 m ltac:(assumption) Hm2). lia.
      - intros Hneg. split.
        + destruct Hbefore as [->|(b & Hb & Hle)].
          * destruct pre; [reflexivity|unfold zlen in Hpre; cbn in Hpre; lia].
          * rewrite znth_bases, Hs in Hb. cbn in Hb. injection Hb as <-.
            destruct Hs_inv as (_ & _ & _ & _ & Hb0). lia.
        + destruct Hs_inv as (_ & Hnn & _). exact Hnn. }
    pose proof (reader_consume_spec s' items (is_last st i) off max Hok Hmax Hnew) as Hrc.
    rewrite Hr' in Hrc.
    destruct (ge_filter off (srecs s)) as [|g0 gr] eqn:EF.
    + (* nothing at or after off in the selected segment *)
      rewrite (same_shape_recs_next s s' (conj Hr' (conj Hb' Hv'))) in Hrc.
      destruct post as [|s2 post'].
      * (* the head segment *)
        assert (Hil : is_last st i = true).
        { unfold is_last. rewrite Hsplit, zlen_app, zlen_cons. unfold zlen at 2. cbn. lia. }
        assert (Hshd : s = hd).
        { rewrite Hsplit, last_opt_app in Ehd. now injection Ehd. }
        subst s. rewrite Hil in Hrc |- *. cbn [andb] in Hrc.
        destruct (off <=? recs_next hd) eqn:Ele; rewrite Hrc.
        -- cbn [obs_consume]. rewrite <- Hanext. apply check_consume_caught_up; [lia|assumption|].
           rewrite Hlive, Hfrom. reflexivity.
        -- assert (Hnlt : (i <? zlen (segs st) - 1) = false) by (unfold is_last in Hil; lia).
           destruct (srecs hd); [|rewrite Hnlt]; cbn [obs_consume classify];
             apply check_consume_beyond; lia.
      * (* a non-head segment: hand over to the next one *)
        assert (Hil : is_last st i = false).
        { unfold is_last. rewrite Hsplit, zlen_app, !zlen_cons. pose proof (zlen_nonneg post'). lia. }
        rewrite Hil in Hrc |- *. cbn [andb] in Hrc.
        assert (Hsne : srecs s <> []).
        { rewrite Hsplit in Hch. apply (chain_nonhead_nonempty pre s (s2 :: post') Hch). discriminate. }
        destruct (srecs s) as [|r0 rr] eqn:Er; [congruence|]. rewrite Hrc.
        assert (Hlt : (i <? zlen (segs st) - 1) = true).
        { rewrite Hsplit, zlen_app, !zlen_cons. pose proof (zlen_nonneg post'). lia. }
        rewrite Hlt.
        (* the next segment *)
        assert (Hz2 : znth (segs st) (i + 1) = Some s2).
        { rewrite Hsplit, <- Hpre. rewrite znth_app_r by lia. reflexivity. }
        destruct Hst as (HF2 & Hop1 & Hv1 & _).
        assert (Hc1 : opened st1 = Some c) by congruence.
        (* s2 in st1 has the same shape *)
        assert (Hz2' : exists s2a, znth (segs st1) (i + 1) = Some s2a /\ same_shape s2 s2a).
        { clear -HF2 Hz2. revert Hz2. generalize (i + 1) as k. intros k.
          unfold znth. destruct (k <? 0); [discriminate|]. generalize (Z.to_nat k) as n.
          induction HF2 as [|a a' l l' Ha HF IH]; intros [|n] Hn; try discriminate.
          - cbn in *. injection Hn as <-. eauto.
          - cbn in *. apply IH. exact Hn. }
        destruct Hz2' as (s2a & Hz2a & Hsh2).
        destruct (with_index_ok H c st1 (i + 1) s2a HInv1 Hc1 Hz2a)
          as (st2 & s2b & items2 & Hwi2 & Hok2 & Hsh2b & Hst2 & HInv2 & Hz2b).
        rewrite Hwi2. cbn [bind].
        assert (Hnew2 : OffsetOldest <> OffsetNewest) by (unfold OffsetOldest, OffsetNewest; lia).
        pose proof (reader_consume_spec s2b items2 (is_last st (i + 1)) OffsetOldest max Hok2 Hmax Hnew2) as Hrc2.
        assert (Hr2 : srecs s2b = srecs s2) by (destruct Hsh2 as (E1 & _); destruct Hsh2b as (E2 & _); congruence).
        assert (Hs2_inv : seg_inv s2) by (eapply Forall_znth; eauto).
        assert (Hgf : ge_filter OffsetOldest (srecs s2) = srecs s2).
        { unfold ge_filter. apply filter_all_true. intros x Hx. destruct Hs2_inv as (_ & Hnn & _).
          specialize (Hnn x Hx). unfold OffsetOldest. lia. }
        rewrite Hr2, Hgf in Hrc2.
        assert (Hoff_lt : off < sbase s2).
        { apply (Hafter (i + 1)); [lia|]. rewrite znth_bases, Hz2. reflexivity. }
        destruct (srecs s2) as [|q0 qr] eqn:Er2.
        -- (* an empty next segment is the head *)
           assert (Hp' : post' = []).
           { destruct post' as [|s3 post'']; [reflexivity|]. exfalso.
             rewrite Hsplit in Hch. apply chain_ok_app_r in Hch. apply chain_ok_tail in Hch.
             cbn in Hch. destruct Hch as [(_ & _ & Hn) _]. congruence. }
           subst post'.
           assert (Hil2 : is_last st (i + 1) = true).
           { unfold is_last. rewrite Hsplit, zlen_app, !zlen_cons. unfold zlen at 2. cbn. lia. }
           assert (Hs2hd : s2 = hd).
           { rewrite Hsplit in Ehd. replace (pre ++ s :: [s2]) with ((pre ++ [s]) ++ [s2]) in Ehd
               by (rewrite <- app_assoc; reflexivity). rewrite last_opt_app in Ehd. now injection Ehd. }
           subst s2. rewrite Hil2 in Hrc2 |- *. cbn [andb] in Hrc2.
           assert (Hrn : recs_next s2b = recs_next hd).
           { unfold recs_next. rewrite Hr2, Er2. cbn. destruct Hsh2 as (_ & E1 & _). destruct Hsh2b as (_ & E2 & _). congruence. }
           rewrite Hrn in Hrc2.
           assert (Hge : (OffsetOldest <=? recs_next hd) = true).
           { pose proof (recs_next_nonneg hd Hhd_inv). unfold OffsetOldest. lia. }
           rewrite Hge in Hrc2. rewrite Hrc2. cbn [obs_consume bind]. rewrite <- Hanext.
           assert (Hbn : recs_next hd = sbase hd) by (unfold recs_next; now rewrite Er2).
           apply check_consume_caught_up; [lia|assumption|].
           rewrite Hlive, Hfrom. unfold all_recs. cbn. now rewrite Er2.
        -- destruct Hrc2 as (m2 & Hl2 & Hrc2). rewrite Hrc2. cbn [obs_consume bind].
           apply (check_consume_nonempty _ off max _ _ m2); try assumption; try reflexivity.
           ++ rewrite Hanext. assert (In q0 (all_recs (segs st))).
              { rewrite Hsplit, all_recs_app, !all_recs_cons, Er2. apply in_or_app. right.
                apply in_or_app. right. left. reflexivity. }
              pose proof (live_lt_wnext (segs st) hd q0 HF Hch Ehd ltac:(assumption)).
              pose proof (seg_offsets_ge_base s2 q0 Hs2_inv ltac:(rewrite Er2; left; reflexivity)). lia.
           ++ apply firstn_nonempty; [discriminate|lia].
           ++ rewrite Hlive, Hfrom. cbn [app]. rewrite all_recs_cons, Er2. apply is_prefix_firstn.
           ++ unfold zlen. pose proof (firstn_length_le (q0 :: qr) (Z.to_nat max)). lia.
    + (* messages in the selected segment *)
      destruct Hrc as (m & Hl & Hrc). rewrite Hrc. cbn [obs_consume].
      apply (check_consume_nonempty _ off max _ _ m); try assumption; try reflexivity.
      * rewrite Hanext.
        assert (Hg0 : In g0 (srecs s)).
        { assert (In g0 (ge_filter off (srecs s))) by (rewrite EF; left; reflexivity).
          unfold ge_filter in *. apply filter_In in H0. tauto. }
        assert (Hg0ge : off <= moff g0).
        { assert (In g0 (ge_filter off (srecs s))) by (rewrite EF; left; reflexivity).
          unfold ge_filter in *. apply filter_In in H0. lia. }
        assert (In g0 (all_recs (segs st))).
        { rewrite Hsplit, all_recs_app, all_recs_cons. apply in_or_app. right. apply in_or_app. now left. }
        pose proof (live_lt_wnext (segs st) hd g0 HF Hch Ehd ltac:(assumption)). lia.
      * apply firstn_nonempty; [discriminate|lia].
      * rewrite Hlive, Hfrom. apply is_prefix_firstn.
      * unfold zlen. pose proof (firstn_length_le (g0 :: gr) (Z.to_nat max)). lia.
Qed.


(* reads only touch index files: the invariant and the abstract log are unchanged *)
Lemma with_index_preserves c st i st1 s' items :
  Inv st -> opened st = Some c -> with_index H c st i = Ok (st1, s', items) ->
  Inv st1 /\ abs st1 = abs st /\ opened st1 = Some c /\ zlen (segs st1) = zlen (segs st).
Proof.
  intros HInv Hc Hwi.
  destruct (znth (segs st) i) as [s|] eqn:Hs.
  - destruct (with_index_ok H c st i s HInv Hc Hs) as (st1' & s'' & items' & Hwi' & _ & _ & Hst & HInv1 & _).
    rewrite Hwi in Hwi'. injection Hwi' as <- <- <-.
    split; [assumption|]. split; [now apply st_shape_abs|].
    destruct Hst as (HF2 & Hop & _). split; [congruence|].
    unfold zlen. f_equal. symmetry. eapply Forall2_len; eauto.
  - unfold with_index in Hwi. rewrite Hs in Hwi. discriminate.
Qed.

Theorem log_consume_preserves st off max st1 o :
  Inv st -> log_consume H st off max = Ok (st1, o) -> Inv st1 /\ abs st1 = abs st.
Proof.
  intros HInv. pose proof HInv as (_ & _ & _ & _ & c & Hc & _).
  unfold log_consume, get_cfg. rewrite Hc. cbn [bind].
  destruct (seg_consume (bases (segs st)) off) as [i|e]; [|discriminate]. cbn [bind].
  destruct (with_index H c st i) as [[[sta s] items]|e] eqn:Hwi; [|discriminate]. cbn [bind].
  destruct (with_index_preserves c st i sta s items HInv Hc Hwi) as (HInva & Habsa & Hca & _).
  destruct (reader_consume s items (is_last st i) off max) as [o1|e].
  - intros E. injection E as <- <-. split; assumption.
  - destruct e; try discriminate.
    destruct (i <? zlen (segs st) - 1); [|discriminate].
    destruct (with_index H c sta (i + 1)) as [[[stb s2] items2]|e] eqn:Hwi2; [|discriminate]. cbn [bind].
    destruct (with_index_preserves c sta (i + 1) stb s2 items2 HInva Hca Hwi2) as (HInvb & Habsb & _).
    destruct (reader_consume s2 items2 (is_last st (i + 1)) OffsetOldest max); [|discriminate]. cbn [bind].
    intros E. injection E as <- <-. split; [assumption|congruence].
Qed.

End ConsumeProofs.
