(* Helpers.v — trim_*.go, compact_*.go, delete.go: loops over Consume(…, 32)
   transcribed as recursion on explicit fuel.  No proofs here. *)
From KV Require Import Base Model.

Section Helpers.
Variable H : bytes -> Z.

Inductive brk := Continue | BreakInner | BreakOuter.

Fixpoint inner {A} (step : A -> msg -> A * brk) (acc : A) (ms : list msg) : A * brk :=
  match ms with
  | [] => (acc, Continue)
  | m :: r => match step acc m with
              | (a, Continue) => inner step a r
              | (a, b) => (a, b)
              end
  end.

(* for offset := OffsetOldest; offset < maxOffset && cond acc; { Consume(offset, 32); … } *)
Fixpoint scan_loop {A} (fuel : nat) (st : lstate) (off maxoff : Z) (acc : A)
         (cond : A -> bool) (step : A -> msg -> A * brk) : res (lstate * A) :=
  match fuel with
  | O => Err EOutOfFuel
  | S f =>
    if (off <? maxoff) && cond acc then
      do r <- log_consume H st off 32;
      let '(st1, (nxt, ms)) := r in
      match inner step acc ms with
      | (a, BreakOuter) => Ok (st1, a)
      | (a, _) => scan_loop f st1 nxt maxoff a cond step
      end
    else Ok (st, acc)
  end.

Definition live_count (st : lstate) : nat :=
  fold_right (fun s n => (length (srecs s) + n)%nat) O (segs st).
Definition scan_fuel (st : lstate) : nat := S (S (live_count st)).

(* FindByOffset *)
Definition find_by_offset (st : lstate) (before : Z) : res (lstate * list Z) :=
  if before =? OffsetOldest then Ok (st, [])
  else
    do r <- log_next H st;
    let '(st1, nxt) := r in
    let before' := if before =? OffsetNewest then nxt else before in
    let maxoff := if before =? OffsetNewest then nxt else Z.min nxt before in
    do r2 <- scan_loop (scan_fuel st1) st1 OffsetOldest maxoff [] (fun _ => true)
                       (fun acc m => if before' <=? moff m then (acc, BreakInner)
                                     else (acc ++ [moff m], Continue));
    Ok r2.

(* FindByCount *)
Definition find_by_count (st : lstate) (max : Z) : res (lstate * list Z) :=
  do r <- log_stat H st;
  let '(st1, (_, cnt, _)) := r in
  if cnt <=? max then Ok (st1, [])
  else
    do r2 <- log_next H st1;
    let '(st2, nxt) := r2 in
    do r3 <- scan_loop (scan_fuel st2) st2 OffsetOldest nxt ([], cnt - max)
                       (fun a => 0 <? snd a)
                       (fun a m => let a' := (fst a ++ [moff m], snd a - 1) in
                                   if snd a' <=? 0 then (a', BreakInner) else (a', Continue));
    let '(st3, a) := r3 in
    Ok (st3, fst a).

(* FindBySize *)
Definition find_by_size (st : lstate) (sz : Z) : res (lstate * list Z) :=
  do c <- get_cfg st;
  do r <- log_stat H st;
  let '(st1, (_, _, total)) := r in
  if total <? sz then Ok (st1, [])
  else
    do r2 <- log_next H st1;
    let '(st2, nxt) := r2 in
    do r3 <- scan_loop (scan_fuel st2) st2 OffsetOldest nxt ([], total)
                       (fun a => sz <=? snd a)
                       (fun a m => let a' := (fst a ++ [moff m], snd a - log_msg_size c m) in
                                   if snd a' <? sz then (a', BreakInner) else (a', Continue));
    let '(st3, a) := r3 in
    Ok (st3, fst a).

(* FindByAge *)
Definition find_by_age (st : lstate) (before : Z) : res (lstate * list Z) :=
  do r <- (match log_get_by_time H st before with
           | Ok (st1, m) => Ok (st1, moff m)
           | Err e =>
             match classify e with
             | CNoIndex | CNotFound => log_next H st
             | _ => Err e
             end
           end);
  let '(st1, maxoff) := r in
  scan_loop (scan_fuel st1) st1 OffsetOldest maxoff [] (fun _ => true)
            (fun acc m => if before <? mtime m then (acc, BreakOuter)
                          else (acc ++ [moff m], Continue)).

(* the ART keyed by raw message keys, as an association list *)
Fixpoint assoc_find (k : bytes) (l : list (bytes * Z)) : option Z :=
  match l with
  | [] => None
  | (k', v) :: r => if bytes_eqb k k' then Some v else assoc_find k r
  end.
Fixpoint assoc_set (k : bytes) (v : Z) (l : list (bytes * Z)) : list (bytes * Z) :=
  match l with
  | [] => [(k, v)]
  | (k', v') :: r => if bytes_eqb k k' then (k', v) :: r else (k', v') :: assoc_set k v r
  end.

(* FindUpdates *)
Definition find_updates (st : lstate) (before : Z) : res (lstate * list Z) :=
  do r <- log_next H st;
  let '(st1, nxt) := r in
  do r2 <- scan_loop (scan_fuel st1) st1 OffsetOldest nxt ([], [])
                     (fun _ => true)
                     (fun a m => if before <? mtime m then (a, BreakOuter)
                                 else match assoc_find (mkey m) (snd a) with
                                      | Some prev => ((fst a ++ [prev], assoc_set (mkey m) (moff m) (snd a)), Continue)
                                      | None => ((fst a, assoc_set (mkey m) (moff m) (snd a)), Continue)
                                      end);
  let '(st2, a) := r2 in
  Ok (st2, fst a).

(* FindDeletes *)
Definition find_deletes (st : lstate) (before : Z) : res (lstate * list Z) :=
  do r <- log_next H st;
  let '(st1, nxt) := r in
  do r2 <- scan_loop (scan_fuel st1) st1 OffsetOldest nxt ([], [])
                     (fun _ => true)
                     (fun a m => if before <? mtime m then (a, BreakOuter)
                                 else match assoc_find (mkey m) (snd a) with
                                      | Some _ => (a, Continue)
                                      | None =>
                                        ((match mval m with [] => fst a ++ [moff m] | _ => fst a end,
                                          assoc_set (mkey m) (moff m) (snd a)), Continue)
                                      end);
  let '(st2, a) := r2 in
  Ok (st2, fst a).

(* DeleteMulti: returns what was deleted so far together with an optional error *)
Fixpoint delete_multi (fuel : nat) (st : lstate) (remaining : list Z) (accm : list msg) (accs : Z)
  : lstate * list msg * Z * option ierr :=
  match fuel with
  | O => (st, accm, accs, Some EOutOfFuel)
  | S f =>
    match remaining with
    | [] => (st, accm, accs, None)
    | _ =>
      match log_delete H st remaining with
      | Err e => (st, accm, accs, Some e)
      | Ok (st1, ([], _)) => (st1, accm, accs, None)
      | Ok (st1, (del, sz)) =>
        let rem := filter (fun o => negb (zmem o (map moff del))) remaining in
        delete_multi f st1 rem (accm ++ del) (accs + sz)
      end
    end
  end.

(* the same loop with a backoff function that succeeds bk times and then returns an error (a cancelled context in
   DeleteMultiWithWait): the pass just made has removed its messages, and they are part of what is returned *)
Fixpoint delete_multi_bk (fuel bk : nat) (st : lstate) (remaining : list Z) (accm : list msg) (accs : Z)
  : lstate * list msg * Z * option ierr :=
  match fuel with
  | O => (st, accm, accs, Some EOutOfFuel)
  | S f =>
    match remaining with
    | [] => (st, accm, accs, None)
    | _ =>
      match log_delete H st remaining with
      | Err e => (st, accm, accs, Some e)
      | Ok (st1, ([], _)) => (st1, accm, accs, None)
      | Ok (st1, (del, sz)) =>
        let rem := filter (fun o => negb (zmem o (map moff del))) remaining in
        match bk with
        | O => (st1, accm ++ del, accs + sz, Some EOther)
        | S b => delete_multi_bk f b st1 rem (accm ++ del) (accs + sz)
        end
      end
    end
  end.

Definition log_delete_multi_bk (bk : nat) (st : lstate) (offs : list Z) : lstate * list msg * Z * option ierr :=
  delete_multi_bk (S (length offs)) bk st offs [] 0.

Definition trim_multi_bk (bk : nat) (find : lstate -> res (lstate * list Z)) (st : lstate)
  : lstate * list msg * Z * option ierr :=
  match find st with
  | Err e => (st, [], 0, Some e)
  | Ok (st1, offs) => log_delete_multi_bk bk st1 offs
  end.

Definition log_delete_multi (st : lstate) (offs : list Z) : lstate * list msg * Z * option ierr :=
  delete_multi (S (length offs)) st offs [] 0.

Definition trim_multi (find : lstate -> res (lstate * list Z)) (st : lstate)
  : lstate * list msg * Z * option ierr :=
  match find st with
  | Err e => (st, [], 0, Some e)
  | Ok (st1, offs) => log_delete_multi st1 offs
  end.

(* scan: the full feed-back iteration of Consume from OffsetOldest (C01/C03) *)
Fixpoint full_scan (fuel : nat) (st : lstate) (off : Z) (max : Z) (acc : list msg)
  : res (lstate * list msg * Z) :=
  match fuel with
  | O => Err EOutOfFuel
  | S f =>
    do r <- log_consume H st off max;
    let '(st1, (nxt, ms)) := r in
    match ms with
    | [] => Ok (st1, acc, nxt)
    | _ => full_scan f st1 nxt max (acc ++ ms)
    end
  end.

End Helpers.
