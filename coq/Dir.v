(* Dir.v — from the bytes of a directory to the segment-list model: decoding of segment files
   and klevdb.Open on them (Recover / Check act on the head's bytes first).  Executable. *)
From KV Require Import Base Model Codec.

Section Dir.
Variable crc : bytes -> Z.
Variable H : bytes -> Z.

Definition dfile := (Z * bytes * option bytes)%type.     (* base, log bytes, index bytes *)

Definition seg_of_bytes (p : params) (f : dfile) : res seg :=
  let '(base, logb, idxb) := f in
  do v <- log_version logb base;
  let '(recs, _, e) := scan_log crc (scan_fuel_of logb) v logb (hdr_size v) in
  match e with
  | ScanEOF =>
    do ix <- (match idxb with
              | None => Ok None
              | Some ib => do r <- index_read p base ib; Ok (Some r)
              end);
    Ok (mkSeg base v (map snd recs) ix)
  | ScanCorrupt => Err ELogCorrupted
  | ScanFuel => Err EOutOfFuel
  end.

Definition head_step (c : cfg) (files : list dfile) : res (list dfile) :=
  let p := cparams c in
  match rev files with
  | [] => Ok files
  | (b, lg, ix) :: r =>
    if negb (cro c) && crecover c then
      do r2 <- recover_bytes crc H p b lg ix; Ok (rev ((b, fst r2, snd r2) :: r))
    else if ccheck c || crecover c then
      do _ <- check_bytes crc H p b lg ix; Ok files
    else Ok files
  end.

Definition no_check (c : cfg) : cfg :=
  mkCfg (cro c) (ckeys c) (ctimes c) (cautosync c) (crollover c) false false (cnewver c) (ckeeprw c) (ceager c).

Definition open_dir (c : cfg) (files : list dfile) : res lstate :=
  do files1 <- head_step c files;
  do sl <- map_res (seg_of_bytes (cparams c)) files1;
  log_open H (mkState sl 0 None false) (no_check c).

End Dir.
