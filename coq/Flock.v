(* Flock.v — C19: the directory lock taken by klevdb.Open (gofrs/flock: flock(2) LOCK_EX|LOCK_NB for
   read-write, LOCK_SH|LOCK_NB for read-only, released by Close and by a failed Open) as a
   shared/exclusive lock table, with up to any number of handles.  Model, executable. *)
From KV Require Import Base.

Inductive hmode := HRW | HRO.

Record ftab := mkFtab {
  excl : bool;                      (* an exclusive lock is held *)
  shared : nat;                     (* number of shared locks held *)
  handles : list (nat * hmode);     (* open handles: id, mode *)
  dir_ok : bool;                    (* the directory exists *)
  idx_bad : bool;                   (* the head index file is corrupt: a read-write Open (or any Open with Check) fails after locking *)
  log_bad : bool                    (* the head log file has a torn tail: an Open with Check (read-only: Check or Recover) fails after locking *)
}.

Definition ftab0 : ftab := mkFtab false O [] true false false.

Inductive fop :=
| FOpen (h : nat) (ro check : bool)
| FClose (h : nat)
| FPublish (h : nat)
| FDelete (h : nat)
| FCorrupt (b : bool)
| FTear (b : bool)
| FRmdir (b : bool).

Inductive fres := FOk | FErr (c : eclass) | FSkip.

Definition find_handle (t : ftab) (h : nat) : option hmode :=
  match find (fun x => Nat.eqb (fst x) h) (handles t) with Some (_, m) => Some m | None => None end.

Definition remove_handle (t : ftab) (h : nat) : list (nat * hmode) :=
  filter (fun x => negb (Nat.eqb (fst x) h)) (handles t).

Definition fstep (t : ftab) (o : fop) : ftab * fres :=
  match o with
  | FOpen h ro check =>
    match find_handle t h with
    | Some _ => (t, FSkip)
    | None =>
      if negb (dir_ok t) then (t, FErr CNotExist)
      else if ro then
        if excl t then (t, FErr CLocked)
        else if log_bad t && check then (t, FErr CLogCorrupted)        (* locked, failed, unlocked again *)
        else if idx_bad t && check then (t, FErr CIndexCorrupted)
        else (mkFtab (excl t) (S (shared t)) ((h, HRO) :: handles t) (dir_ok t) (idx_bad t) (log_bad t), FOk)
      else
        if excl t || negb (Nat.eqb (shared t) 0) then (t, FErr CLocked)
        else if log_bad t && check then (t, FErr CLogCorrupted)
        else if idx_bad t then (t, FErr CIndexCorrupted)
        else (mkFtab true (shared t) ((h, HRW) :: handles t) (dir_ok t) (idx_bad t) (log_bad t), FOk)
    end
  | FClose h =>
    match find_handle t h with
    | None => (t, FSkip)
    | Some HRW => (mkFtab false (shared t) (remove_handle t h) (dir_ok t) (idx_bad t) (log_bad t), FOk)
    | Some HRO => (mkFtab (excl t) (pred (shared t)) (remove_handle t h) (dir_ok t) (idx_bad t) (log_bad t), FOk)
    end
  | FPublish h | FDelete h =>
    match find_handle t h with
    | None => (t, FSkip)
    | Some HRW => (t, FOk)
    | Some HRO => (t, FErr CReadonly)
    end
  | FCorrupt b => (mkFtab (excl t) (shared t) (handles t) (dir_ok t) b (log_bad t), FOk)
  | FTear b => (mkFtab (excl t) (shared t) (handles t) (dir_ok t) (idx_bad t) b, FOk)
  | FRmdir b => (mkFtab (excl t) (shared t) (handles t) (negb b) (idx_bad t) (log_bad t), FOk)
  end.

Definition frun (ops : list fop) : ftab * list fres :=
  fold_left (fun acc o => let '(t, rs) := acc in let '(t', r) := fstep t o in (t', rs ++ [r])) ops (ftab0, []).

(* ---------- invariant *)

Definition count_mode (m : hmode) (l : list (nat * hmode)) : nat :=
  length (filter (fun x => match snd x, m with HRW, HRW => true | HRO, HRO => true | _, _ => false end) l).

Definition finv (t : ftab) : Prop :=
  count_mode HRO (handles t) = shared t /\
  count_mode HRW (handles t) = (if excl t then 1 else 0)%nat /\
  (excl t = true -> shared t = O) /\
  NoDup (map fst (handles t)).
