(* RecoverSpec.v — what Recover and Check must do, stated through the ENCODER
   only (an independent reference parser: a record is valid when re-encoding
   the message read from its length fields reproduces the bytes).  These are
   the C07 checkers evaluated on the implementation's output. *)
From KV Require Import Base Model Codec.

(* try to take one valid record of version v at pos: Some (m, next) iff the bytes at pos are enc_rec m *)
Definition take_valid (crc : bytes -> Z) (v : ver) (b : bytes) (pos : Z) : option (msg * Z) :=
  let hdr := sub b pos 28 in
  if zlen hdr <? 28 then None
  else
    let '(off, tm, kl, vl) :=
        match v with
        | V2 => (i64 (debe (sub hdr 4 8)), i64 (debe (sub hdr 12 8)), debe (sub hdr 20 4), debe (sub hdr 24 4))
        | V1 => (i64 (debe (sub hdr 0 8)), i64 (debe (sub hdr 8 8)), debe (sub hdr 16 4), debe (sub hdr 20 4))
        end in
    if max_body <? kl + vl then None
    else
      let m := mkMsg off tm (sub b (pos + 28) kl) (sub b (pos + 28 + kl) vl) in
      let e := enc_rec crc v m in
      if bytes_eqb (sub b pos (zlen e)) e then Some (m, pos + zlen e) else None.

Fixpoint valid_prefix_from (crc : bytes -> Z) (fuel : nat) (v : ver) (b : bytes) (pos : Z)
  : list (Z * msg) * Z :=
  match fuel with
  | O => ([], pos)
  | S f =>
    match take_valid crc v b pos with
    | Some (m, nxt) => let '(l, e) := valid_prefix_from crc f v b nxt in ((pos, m) :: l, e)
    | None => ([], pos)
    end
  end.

(* version of a log file by its first bytes, as documented *)
Definition spec_version (b : bytes) (base : Z) : option ver :=
  if zlen b =? 0 then Some V1
  else if bytes_eqb (sub b 0 8) (enc_log_header V2) then Some V2
  else if (8 <=? zlen b) && (i64 (debe (sub b 0 8)) =? base) && negb (bytes_eqb (sub b 0 6) log_magic)
       then Some V1 else None.

Definition valid_prefix (crc : bytes -> Z) (b : bytes) (base : Z) : option (ver * list (Z * msg) * Z) :=
  match spec_version b base with
  | None => None
  | Some v => let '(l, e) := valid_prefix_from crc (S (length b)) v b (hdr_size v) in Some (v, l, e)
  end.

Definition spec_items (H : bytes -> Z) (p : params) (recs : list (Z * msg)) : list item :=
  (fix go (l : list (Z * msg)) (ts : Z) : list item :=
     match l with
     | [] => []
     | (pos, m) :: r => let it := new_item H p m pos ts in it :: go r (its it)
     end) recs 0.

(* is idx the index file of exactly these items, in either version? *)
Definition is_index_of (p : params) (idx : bytes) (items : list item) : bool :=
  bytes_eqb idx (enc_index V2 p items) || bytes_eqb idx (enc_index V1 p items).

(* the index version of an existing index file, if its header is readable *)
Definition same_idx_version (before after : bytes) : bool :=
  Bool.eqb (bytes_eqb (sub before 0 6) idx_magic) (bytes_eqb (sub after 0 6) idx_magic)
  || (zlen after =? 0) || (zlen before =? 0).

(* Recover: outcome = Some (log', idx') or None when it reported an error *)
Definition check_recover (crc H : bytes -> Z) (p : params) (base : Z)
           (logb : bytes) (idxb : option bytes) (out : option (bytes * option bytes)) : bool :=
  match valid_prefix crc logb base with
  | None => match out with None => true | Some _ => false end      (* unreadable file header: refuse *)
  | Some (v, recs, e) =>
    match out with
    | None => false
    | Some (log', idx') =>
      (* precisely the longest prefix of valid records *)
      bytes_eqb log' (sub logb 0 e)
      (* the index afterwards is absent or the derived one *)
      && (match idx' with
          | None => true
          | Some ib => is_index_of p ib (spec_items H p recs)
          end)
      (* byte-for-byte no-op on an undamaged segment *)
      && (if (e =? zlen logb)
             && (match idxb with None => true | Some ib => is_index_of p ib (spec_items H p recs) end)
          then bytes_eqb log' logb
               && (match idxb, idx' with
                   | None, None => true
                   | Some a, Some b => bytes_eqb a b
                   | _, _ => false
                   end)
          else true)
    end
  end.

(* Check succeeds iff the log parses completely and the index, if present, is the derived one *)
Definition check_check (crc H : bytes -> Z) (p : params) (base : Z)
           (logb : bytes) (idxb : option bytes) (ok : bool) : bool :=
  match valid_prefix crc logb base with
  | None => negb ok
  | Some (v, recs, e) =>
    Bool.eqb ok ((e =? zlen logb)
                 && (match idxb with None => true | Some ib => is_index_of p ib (spec_items H p recs) end))
  end.
