(* CompactProofs.v — C15 (FindByAge) and C16 (FindUpdates, FindDeletes): what the helpers select, and why
   removing the selection never changes the latest value of any key. *)
From KV Require Import Base Model Helpers ListAux SearchProofs SegProofs ReaderProofs Spec SpecFacts LogInv
     ConsumeProofs GetProofs AbsFacts ReadsPreserve ScanProofs TrimProofs.
From Coq Require Import ZifyBool ZifyNat.

Section CompactProofs.
Variable H : bytes -> Z.

Definition newer (before : Z) (m : msg) : bool := before <? mtime m.

Lemma all_recs_in_seg' l s m : In s l -> In m (srecs s) -> In m (all_recs l).
Proof. intros Hs Hm. unfold all_recs. apply in_concat. exists (srecs s). split; [apply in_map; exact Hs|exact Hm]. Qed.

(* ---------- FindUpdates *)

Definition upd_g (a : list Z * list (bytes * Z)) (m : msg) : list Z * list (bytes * Z) :=
  match assoc_find (mkey m) (snd a) with
  | Some prev => (fst a ++ [prev], assoc_set (mkey m) (moff m) (snd a))
  | None => (fst a, assoc_set (mkey m) (moff m) (snd a))
  end.

(* the messages examined: the longest prefix of the live messages none of which is newer than the cut-off *)
Definition examined (before : Z) (l : list msg) : list msg := take_while (go_on (newer before)) l.

Theorem find_updates_spec st before :
  Inv st ->
  exists st', find_updates H st before =
    Ok (st', fst (fold_left upd_g (examined before (live (abs st))) ([], []))) /\
    Inv st' /\ abs st' = abs st.
Proof.
  intros HI. unfold find_updates. destruct (log_next_ok H st HI) as (st1 & En & HI1 & HA1 & _). rewrite En. cbn [bind].
  destruct (scan_stop_full H (newer before) upd_g st1 ([], []) HI1) as (st2 & Es & HI2 & HA2).
  rewrite HA1 in Es.
  rewrite (scan_loop_ext H _ (stop_step (newer before) upd_g) (fun _ => true)).
  - rewrite Es. cbn [bind]. exists st2. split; [reflexivity|]. split; [exact HI2|congruence].
  - intros a m. unfold stop_step, newer, upd_g. destruct (before <? mtime m); [reflexivity|].
    destruct (assoc_find (mkey m) (snd a)); reflexivity.
Qed.

(* ---------- FindDeletes *)

Definition del_g (a : list Z * list (bytes * Z)) (m : msg) : list Z * list (bytes * Z) :=
  match assoc_find (mkey m) (snd a) with
  | Some _ => a
  | None => (match mval m with [] => fst a ++ [moff m] | _ => fst a end, assoc_set (mkey m) (moff m) (snd a))
  end.

Theorem find_deletes_spec st before :
  Inv st ->
  exists st', find_deletes H st before =
    Ok (st', fst (fold_left del_g (examined before (live (abs st))) ([], []))) /\
    Inv st' /\ abs st' = abs st.
Proof.
  intros HI. unfold find_deletes. destruct (log_next_ok H st HI) as (st1 & En & HI1 & HA1 & _). rewrite En. cbn [bind].
  destruct (scan_stop_full H (newer before) del_g st1 ([], []) HI1) as (st2 & Es & HI2 & HA2).
  rewrite HA1 in Es.
  rewrite (scan_loop_ext H _ (stop_step (newer before) del_g) (fun _ => true)).
  - rewrite Es. cbn [bind]. exists st2. split; [reflexivity|]. split; [exact HI2|congruence].
  - intros a m. unfold stop_step, newer, del_g. destruct (before <? mtime m); [reflexivity|].
    destruct (assoc_find (mkey m) (snd a)); reflexivity.
Qed.

Ltac app_eq := repeat (rewrite <- app_assoc || (progress cbn [app])); reflexivity.

(* ---------- the key map *)

Lemma bytes_eqb_sym a b : bytes_eqb a b = bytes_eqb b a.
Proof.
  revert b. induction a as [|x a IH]; intros [|y b]; cbn; try reflexivity. rewrite N.eqb_sym. now rewrite IH.
Qed.

Lemma bytes_eqb_trans_t a b c : bytes_eqb a b = true -> bytes_eqb b c = bytes_eqb a c.
Proof. intros E. apply bytes_eqb_eq in E. now subst. Qed.

Lemma assoc_find_set k k' v l :
  assoc_find k (assoc_set k' v l) = if bytes_eqb k k' then Some v else assoc_find k l.
Proof.
  induction l as [|[k2 v2] l IH]; cbn [assoc_set assoc_find].
  - destruct (bytes_eqb k k'); reflexivity.
  - destruct (bytes_eqb k' k2) eqn:E2; cbn [assoc_find].
    + apply bytes_eqb_eq in E2. subst k2. destruct (bytes_eqb k k'); reflexivity.
    + rewrite IH. destruct (bytes_eqb k k2) eqn:E3; destruct (bytes_eqb k k') eqn:E1; try reflexivity.
      exfalso. apply bytes_eqb_eq in E1, E3. subst. rewrite ConsumeProofs.bytes_eqb_refl in E2. discriminate.
Qed.

(* after folding over P the map holds, for every key, the offset of its last message in P *)
Definition map_ok (mp : list (bytes * Z)) (P : list msg) : Prop :=
  forall k, assoc_find k mp = option_map moff (last_opt (filter (has_key k) P)).

Lemma map_ok_step mp P x : map_ok mp P -> map_ok (assoc_set (mkey x) (moff x) mp) (P ++ [x]).
Proof.
  intros Hm k. rewrite assoc_find_set, filter_app. cbn [filter]. unfold has_key at 2.
  destruct (bytes_eqb k (mkey x)).
  - now rewrite last_opt_app.
  - rewrite app_nil_r. apply Hm.
Qed.

(* m at some position of P has a later message with the same key *)
Definition has_later (P : list msg) (o : Z) : Prop :=
  exists pre m mid m' post, P = pre ++ m :: mid ++ m' :: post /\ moff m = o /\ mkey m' = mkey m /\
                            (forall x, In x mid -> mkey x <> mkey m).

Lemma last_filter_split k P m :
  last_opt (filter (has_key k) P) = Some m ->
  exists pre post, P = pre ++ m :: post /\ has_key k m = true /\ forall x, In x post -> has_key k x = false.
Proof.
  induction P as [|x P IH] using rev_ind; [discriminate|]. rewrite filter_app. cbn [filter]. destruct (has_key k x) eqn:E.
  - rewrite last_opt_app. intros Eq. injection Eq as <-. exists P, []. split; [reflexivity|]. split; [exact E|intros y []].
  - rewrite app_nil_r. intros Hl. destruct (IH Hl) as (pre & post & -> & Hk & Hpost).
    exists pre, (post ++ [x]). split; [app_eq|]. split; [exact Hk|].
    intros y Hy. apply in_app_or in Hy. destruct Hy as [Hy|[->|[]]]; [now apply Hpost|exact E].
Qed.

(* FindUpdates selects only messages that are followed, among the examined ones, by a message with the same
   key (the selected offset is the previous message of that key) *)
Theorem upd_sound : forall P,
  let r := fold_left upd_g P ([], []) in
  map_ok (snd r) P /\ forall o, In o (fst r) -> has_later P o.
Proof.
  induction P as [|x P IH] using rev_ind; [split; [intros k; reflexivity|intros o []]|].
  rewrite fold_left_app. cbn [fold_left]. cbv zeta in IH. destruct IH as [Hmap Hsound].
  set (r := fold_left upd_g P ([], [])) in *. unfold upd_g.
  destruct (assoc_find (mkey x) (snd r)) as [prev|] eqn:Ef; cbn [fst snd].
  - split; [now apply map_ok_step|]. intros o Ho. apply in_app_or in Ho. destruct Ho as [Ho|[<-|[]]].
    + destruct (Hsound o Ho) as (pre & m & mid & m' & post & -> & Hm & Hk & Hmid).
      exists pre, m, mid, m', (post ++ [x]). split; [app_eq|]. repeat split; assumption.
    + rewrite Hmap in Ef. destruct (last_opt (filter (has_key (mkey x)) P)) as [m|] eqn:El; [|discriminate].
      cbn in Ef. injection Ef as <-. destruct (last_filter_split _ _ _ El) as (pre & post & -> & Hk & Hpost).
      exists pre, m, post, x, []. split; [app_eq|]. split; [reflexivity|].
      unfold has_key in Hk. apply bytes_eqb_eq in Hk. split; [exact Hk|].
      intros y Hy Hc. specialize (Hpost y Hy). unfold has_key in Hpost. rewrite Hk, <- Hc in Hpost.
      rewrite ConsumeProofs.bytes_eqb_refl in Hpost. discriminate.
  - split; [now apply map_ok_step|]. intros o Ho. destruct (Hsound o Ho) as (pre & m & mid & m' & post & -> & Hm & Hk & Hmid).
    exists pre, m, mid, m', (post ++ [x]). split; [app_eq|]. repeat split; assumption.
Qed.

(* FindDeletes selects only value-less messages that are the first message of their key among the examined ones *)
Definition first_of_key (P : list msg) (o : Z) : Prop :=
  exists pre m post, P = pre ++ m :: post /\ moff m = o /\ mval m = [] /\ forall x, In x pre -> mkey x <> mkey m.

Definition seen_ok (mp : list (bytes * Z)) (P : list msg) : Prop :=
  forall k, assoc_find k mp = None <-> filter (has_key k) P = [].

Theorem del_sound : forall P,
  let r := fold_left del_g P ([], []) in
  seen_ok (snd r) P /\ forall o, In o (fst r) -> first_of_key P o.
Proof.
  induction P as [|x P IH] using rev_ind; [split; [intros k; split; reflexivity|intros o []]|].
  rewrite fold_left_app. cbn [fold_left]. cbv zeta in IH. destruct IH as [Hseen Hsound].
  set (r := fold_left del_g P ([], [])) in *. unfold del_g.
  assert (Hext : forall o, first_of_key P o -> first_of_key (P ++ [x]) o).
  { intros o (pre & m & post & -> & Hm & Hv & Hpre). exists pre, m, (post ++ [x]). split; [app_eq|]. repeat split; assumption. }
  destruct (assoc_find (mkey x) (snd r)) as [prev|] eqn:Ef.
  - split; [|intros o Ho; apply Hext; now apply Hsound].
    intros k. rewrite filter_app. cbn [filter]. unfold has_key at 2. destruct (bytes_eqb k (mkey x)) eqn:Ek.
    + apply bytes_eqb_eq in Ek. subst k. rewrite Ef. split; [discriminate|]. intros Hc. destruct (filter _ P); discriminate.
    + rewrite app_nil_r. apply Hseen.
  - cbn [fst snd]. split.
    + intros k. rewrite assoc_find_set, filter_app. cbn [filter]. unfold has_key at 2. destruct (bytes_eqb k (mkey x)) eqn:Ek.
      * split; [discriminate|]. intros Hc. destruct (filter _ P); discriminate.
      * rewrite app_nil_r. apply Hseen.
    + intros o Ho. assert (Hnone : filter (has_key (mkey x)) P = []) by (apply Hseen; exact Ef).
      assert (Hnew : mval x = [] -> first_of_key (P ++ [x]) (moff x)).
      { intros Hv. exists P, x, []. split; [reflexivity|]. split; [reflexivity|]. split; [exact Hv|].
        intros y Hy Hc. assert (In y (filter (has_key (mkey x)) P)).
        { apply filter_In. split; [exact Hy|]. unfold has_key. rewrite Hc. apply ConsumeProofs.bytes_eqb_refl. }
        rewrite Hnone in H0. contradiction. }
      destruct (mval x) eqn:Ev.
      * apply in_app_or in Ho. destruct Ho as [Ho|[<-|[]]]; [apply Hext; now apply Hsound|now apply Hnew].
      * apply Hext. now apply Hsound.
Qed.


(* ---------- removing the selection never changes the latest value of any key *)

Definition remove_offs (L : list msg) (offs : list Z) : list msg := filter (fun m => negb (zmem (moff m) offs)) L.

Definition latest (k : bytes) (L : list msg) : option msg := last_opt (filter (has_key k) L).

(* a message without value means 'absent' *)
Definition latest_value (k : bytes) (L : list msg) : option bytes :=
  match latest k L with
  | Some m => match mval m with [] => None | v => Some v end
  | None => None
  end.

Lemma inc_split_lt pre x post : inc (pre ++ x :: post) ->
  (forall y, In y pre -> moff y < moff x) /\ (forall y, In y post -> moff x < moff y).
Proof.
  intros Hi. destruct (inc_app_inv _ _ Hi) as (_ & Hi2 & Hcross). destruct Hi2 as [Hx _]. split.
  - intros y Hy. apply Hcross; [exact Hy|now left].
  - exact Hx.
Qed.

Lemma inc_offset_inj L a b : inc L -> In a L -> In b L -> moff a = moff b -> a = b.
Proof.
  induction L as [|x L IH]; intros Hi Ha Hb Heq; [contradiction|]. destruct Hi as [Hx Hi].
  destruct Ha as [->|Ha], Hb as [->|Hb]; try reflexivity.
  - specialize (Hx b Hb). lia.
  - specialize (Hx a Ha). lia.
  - now apply IH.
Qed.

Lemma latest_keep k L offs x pre post :
  L = pre ++ x :: post -> has_key k x = true -> (forall y, In y post -> has_key k y = false) ->
  zmem (moff x) offs = false -> latest k (remove_offs L offs) = Some x.
Proof.
  intros -> Hk Hpost Hx. unfold latest, remove_offs. rewrite filter_app. cbn [filter]. rewrite Hx. cbn [negb].
  rewrite filter_app. cbn [filter]. rewrite Hk.
  assert (Hnil : filter (has_key k) (filter (fun m => negb (zmem (moff m) offs)) post) = []).
  { apply filter_all_false. intros y Hy. apply filter_In in Hy. destruct Hy as [Hy _]. now apply Hpost. }
  rewrite Hnil. apply last_opt_app.
Qed.

Lemma zmem_in o offs : zmem o offs = true <-> In o offs.
Proof.
  unfold zmem. rewrite existsb_exists. split.
  - intros (x & Hx & E). apply Z.eqb_eq in E. now subst.
  - intros Hin. exists o. split; [exact Hin|apply Z.eqb_refl].
Qed.

(* CompactUpdates: every selected message has a later message with the same key, so the last message of every
   key stays *)
Theorem updates_keep_latest L P R offs :
  inc L -> L = P ++ R -> (forall o, In o offs -> has_later P o) ->
  forall k, latest k (remove_offs L offs) = latest k L.
Proof.
  intros Hinc HL Hsel k. unfold latest at 2. destruct (last_opt (filter (has_key k) L)) as [x|] eqn:El.
  - destruct (last_filter_split _ _ _ El) as (pre & post & HLx & Hk & Hpost).
    apply (latest_keep k L offs x pre post HLx Hk Hpost).
    destruct (zmem (moff x) offs) eqn:Ez; [|reflexivity]. exfalso. apply zmem_in in Ez.
    destruct (Hsel _ Ez) as (p1 & m & mid & m' & p2 & HP & Hm & Hkm & _).
    assert (HmL : In m L) by (rewrite HL, HP; apply in_or_app; left; apply in_or_app; right; now left).
    assert (Hm'L : In m' L) by (rewrite HL, HP; apply in_or_app; left; apply in_or_app; right; right; apply in_or_app; right; now left).
    assert (HxL : In x L) by (rewrite HLx; apply in_or_app; right; now left).
    assert (m = x) by (apply (inc_offset_inj L); assumption). subst m.
    (* m' comes after x and has the key *)
    assert (Hlt : moff x < moff m').
    { rewrite HL, HP in Hinc. rewrite <- app_assoc in Hinc. destruct (inc_split_lt _ _ _ Hinc) as [_ Hafter].
      apply Hafter. apply in_or_app. left. apply in_or_app. right. now left. }
    rewrite HLx in Hm'L. apply in_app_or in Hm'L. rewrite HLx in Hinc. destruct (inc_split_lt _ _ _ Hinc) as [Hbefore Hafter].
    destruct Hm'L as [Hin|[->|Hin]].
    + specialize (Hbefore _ Hin). lia.
    + lia.
    + specialize (Hpost _ Hin). unfold has_key in *. rewrite Hkm in Hpost. congruence.
  - assert (Hnil : filter (has_key k) L = []) by (destruct (filter (has_key k) L) eqn:E; [reflexivity|apply last_opt_none in El; congruence]).
    unfold latest, remove_offs.
    assert (Hnil2 : filter (has_key k) (filter (fun m => negb (zmem (moff m) offs)) L) = []).
    { apply filter_all_false. intros y Hy. apply filter_In in Hy. destruct Hy as [Hy _].
      destruct (has_key k y) eqn:E; [|reflexivity]. exfalso. assert (In y (filter (has_key k) L)) by (apply filter_In; split; assumption).
      rewrite Hnil in H0. contradiction. }
    now rewrite Hnil2.
Qed.

(* CompactDeletes: every selected message is value-less and the first of its key, so the latest VALUE of every
   key stays (a key whose only message is a value-less one is absent before and after) *)
Theorem deletes_keep_latest_value L P R offs :
  inc L -> L = P ++ R -> (forall o, In o offs -> first_of_key P o) ->
  forall k, latest_value k (remove_offs L offs) = latest_value k L.
Proof.
  intros Hinc HL Hsel k. unfold latest_value at 2, latest. destruct (last_opt (filter (has_key k) L)) as [x|] eqn:El.
  - destruct (last_filter_split _ _ _ El) as (pre & post & HLx & Hk & Hpost).
    destruct (zmem (moff x) offs) eqn:Ez.
    + (* x itself is removed: it is value-less and the only message of its key *)
      apply zmem_in in Ez. destruct (Hsel _ Ez) as (p1 & m & p2 & HP & Hm & Hv & Hfirst).
      assert (HmL : In m L) by (rewrite HL, HP; apply in_or_app; left; apply in_or_app; right; now left).
      assert (HxL : In x L) by (rewrite HLx; apply in_or_app; right; now left).
      assert (m = x) by (apply (inc_offset_inj L); assumption). subst m. rewrite Hv.
      unfold latest_value, latest, remove_offs.
      assert (Hnone : filter (has_key k) (filter (fun m => negb (zmem (moff m) offs)) L) = []).
      { apply filter_all_false. intros y Hy. apply filter_In in Hy. destruct Hy as [HyL Hyk].
        destruct (has_key k y) eqn:E; [|reflexivity]. exfalso.
        unfold has_key in Hk, E. apply bytes_eqb_eq in Hk, E.
        rewrite HLx in HyL. apply in_app_or in HyL. destruct HyL as [Hin|[->|Hin]].
        - (* before x: it would be in the examined prefix before x, with the same key *)
          assert (Hyp1 : In y p1).
          { assert (HLP : L = p1 ++ x :: (p2 ++ R)) by (rewrite HL, HP, <- app_assoc; reflexivity).
            rewrite HLx in Hinc. destruct (inc_split_lt _ _ _ Hinc) as [Hb _]. specialize (Hb _ Hin).
            assert (HyL : In y L) by (rewrite HLx; apply in_or_app; now left).
            rewrite HLP in HyL. apply in_app_or in HyL. destruct HyL as [Hy1|[->|Hy2]]; [exact Hy1|lia|].
            rewrite <- HLx, HLP in Hinc. destruct (inc_split_lt _ _ _ Hinc) as [_ Ha]. specialize (Ha _ Hy2). lia. }
          apply (Hfirst y Hyp1). congruence.
        - apply zmem_in in Ez. rewrite Ez in Hyk. discriminate.
        - specialize (Hpost _ Hin). unfold has_key in Hpost. rewrite <- E, ConsumeProofs.bytes_eqb_refl in Hpost. discriminate. }
      now rewrite Hnone.
    + unfold latest_value. rewrite (latest_keep k L offs x pre post HLx Hk Hpost Ez). reflexivity.
  - assert (Hnil : filter (has_key k) L = []) by (destruct (filter (has_key k) L) eqn:E; [reflexivity|apply last_opt_none in El; congruence]).
    unfold latest_value, latest, remove_offs.
    assert (Hnil2 : filter (has_key k) (filter (fun m => negb (zmem (moff m) offs)) L) = []).
    { apply filter_all_false. intros y Hy. apply filter_In in Hy. destruct Hy as [Hy _].
      destruct (has_key k y) eqn:E; [|reflexivity]. exfalso. assert (In y (filter (has_key k) L)) by (apply filter_In; split; assumption).
      rewrite Hnil in H0. contradiction. }
    now rewrite Hnil2.
Qed.


(* ---------- FindByAge *)

Lemma read_at_from_in v : forall recs cur pos m, read_at_from v cur recs pos = Ok m -> In m recs.
Proof.
  induction recs as [|x r IH]; intros cur pos m E; [discriminate|]. cbn [read_at_from] in E.
  destruct (pos =? cur); [injection E as <-; now left|]. destruct (pos <? cur + rec_size v x); [discriminate|]. right. eapply IH; eauto.
Qed.

Lemma seg_msg_live st i s m : znth (segs st) i = Some s -> In m (srecs s) -> In m (live (abs st)).
Proof. intros Hs Hm. unfold abs. cbn [live]. apply (all_recs_in_seg' (segs st) s m); [eapply znth_in; eauto|exact Hm]. Qed.

Lemma get_by_time_back_live c ts : forall n st i cand st1 cand1,
  Inv st -> opened st = Some c ->
  (forall m, cand = TFound m -> In m (live (abs st))) ->
  get_by_time_back H c st ts n i cand = Ok (st1, cand1) ->
  Inv st1 /\ abs st1 = abs st /\ opened st1 = Some c /\ forall m, cand1 = TFound m -> In m (live (abs st)).
Proof.
  induction n as [|n IH]; intros st i cand st1 cand1 HI Hc Hcand E; cbn [get_by_time_back] in E.
  - injection E as <- <-. split; [exact HI|]. split; [reflexivity|]. split; [exact Hc|exact Hcand].
  - destruct (with_index H c st i) as [[[sa s] items]|] eqn:Hw; [|discriminate]. cbn [bind] in E.
    destruct (with_index_preserves H c st i sa s items HI Hc Hw) as (HIa & HAa & Hca & _).
    assert (Hs_live : forall m, In m (srecs s) -> In m (live (abs st))).
    { intros m Hm. unfold with_index in Hw. destruct (znth (segs st) i) as [s0|] eqn:Hs0; [|discriminate].
      destruct HI as (_ & _ & _ & Hv & _). rewrite Hv in Hw.
      destruct ((i =? zlen (segs st) - 1) && negb (cro c)).
      - injection Hw as _ <- _. eapply seg_msg_live; eauto.
      - destruct (ensure_index H (cparams c) (cnewver c) s0) as [[s2 it2]|] eqn:Ee; [|discriminate]. cbn [bind] in Hw. injection Hw as _ <- _.
        assert (srecs s2 = srecs s0).
        { unfold ensure_index in Ee. destruct (needs_reindex s0).
          - unfold reindex in Ee. destruct (open_log_reader s0); [|discriminate]. cbn [bind] in Ee. injection Ee as <- _. reflexivity.
          - destruct (sidx s0); [|discriminate]. destruct (open_idx_reader s0 p); [|discriminate]. cbn [bind] in Ee. injection Ee as <- _. reflexivity. }
        rewrite H0 in Hm. eapply seg_msg_live; eauto. }
    assert (Hrec : forall cand', (forall m, cand' = TFound m -> In m (live (abs st))) ->
                    get_by_time_back H c sa ts n (i - 1) cand' = Ok (st1, cand1) ->
                    Inv st1 /\ abs st1 = abs st /\ opened st1 = Some c /\ forall m, cand1 = TFound m -> In m (live (abs st))).
    { intros cand' Hc' E'. destruct (IH sa (i - 1) cand' st1 cand1 HIa Hca ltac:(rewrite HAa; exact Hc') E') as (A & B & C & D).
      split; [exact A|]. split; [congruence|]. split; [exact C|]. intros m Hm. rewrite <- HAa. now apply D. }
    destruct (reader_get_by_time s items ts) as [m0|e] eqn:Er.
    + apply (Hrec (TFound m0)); [|exact E]. intros m Em. injection Em as <-. apply Hs_live.
      unfold reader_get_by_time in Er. destruct (index_time items ts); [|discriminate]. cbn [bind] in Er.
      unfold read_at in Er. eapply read_at_from_in; eauto.
    + destruct e; try discriminate.
      * apply (Hrec cand Hcand E).
      * apply (Hrec (TBefore i)); [intros m Em; discriminate|exact E].
      * injection E as <- <-. split; [exact HIa|]. split; [exact HAa|]. split; [exact Hca|].
        intros m Em. destruct cand; try discriminate. injection Em as <-. now apply Hcand.
Qed.

Theorem log_get_by_time_live st ts st1 m :
  Inv st -> log_get_by_time H st ts = Ok (st1, m) -> In m (live (abs st)) /\ Inv st1 /\ abs st1 = abs st.
Proof.
  intros HI. pose proof HI as (_ & _ & _ & _ & c & Hc & _). unfold log_get_by_time, get_cfg. rewrite Hc. cbn [bind].
  destruct (negb (ctimes c)); [discriminate|].
  destruct (get_by_time_back H c st ts (length (segs st)) (zlen (segs st) - 1) TEmpty) as [[sa cand]|] eqn:Eb; [|discriminate].
  cbn [bind]. destruct (get_by_time_back_live c ts (length (segs st)) st (zlen (segs st) - 1) TEmpty sa cand HI Hc ltac:(intros m0 E0; discriminate) Eb) as (HIa & HAa & Hca & Hlive).
  destruct cand as [| |m0|j]; try discriminate.
  - intros E. injection E as <- <-. split; [now apply Hlive|split; assumption].
  - destruct (with_index H c sa j) as [[[sb s] items]|] eqn:Hw; [|discriminate]. cbn [bind].
    destruct (with_index_preserves H c sa j sb s items HIa Hca Hw) as (HIb & HAb & _).
    destruct (reader_get s items (is_last st j) OffsetOldest) as [m1|] eqn:Er; [|discriminate]. cbn [bind]. intros E. injection E as <- <-.
    split; [|split; [exact HIb|congruence]]. rewrite <- HAa.
    assert (Hm1 : In m1 (srecs s)).
    { unfold reader_get in Er. destruct (ridx_get s items (is_last st j) OffsetOldest); [|discriminate]. cbn [bind] in Er.
      unfold read_at in Er. eapply read_at_from_in; eauto. }
    unfold with_index in Hw. destruct (znth (segs sa) j) as [s0|] eqn:Hs0; [|discriminate].
    destruct HIa as (_ & _ & _ & Hv & _). rewrite Hv in Hw.
    destruct ((j =? zlen (segs sa) - 1) && negb (cro c)).
    + injection Hw as _ <- _. eapply seg_msg_live; eauto.
    + destruct (ensure_index H (cparams c) (cnewver c) s0) as [[s2 it2]|] eqn:Ee; [|discriminate]. cbn [bind] in Hw. injection Hw as _ <- _.
      assert (srecs s2 = srecs s0).
      { unfold ensure_index in Ee. destruct (needs_reindex s0).
        - unfold reindex in Ee. destruct (open_log_reader s0); [|discriminate]. cbn [bind] in Ee. injection Ee as <- _. reflexivity.
        - destruct (sidx s0); [|discriminate]. destruct (open_idx_reader s0 p); [|discriminate]. cbn [bind] in Ee. injection Ee as <- _. reflexivity. }
      rewrite H0 in Hm1. eapply seg_msg_live; eauto.
Qed.

Definition age_g (acc : list Z) (m : msg) : list Z := acc ++ [moff m].

Lemma fold_age D : forall acc, fold_left age_g D acc = acc ++ map moff D.
Proof. induction D as [|x D IH]; intros acc; cbn; [now rewrite app_nil_r|]. rewrite IH. unfold age_g. now rewrite <- app_assoc. Qed.

(* FindByAge selects a prefix D of the live messages, none of them newer than `before`, and stops at the first
   newer message, at the end of the log, or at a batch boundary at or beyond the first message GetByTime
   reports as not before `before` *)
Theorem find_by_age_spec st before st' offs :
  Inv st -> find_by_age H st before = Ok (st', offs) ->
  Inv st' /\ abs st' = abs st /\
  exists D rest, live (abs st) = D ++ rest /\ offs = map moff D /\
                 (forall x, In x D -> mtime x <= before) /\
                 match rest with [] => True | m :: _ => before < mtime m \/ exists maxoff, maxoff <= moff m /\
                   (forall st1 m1, log_get_by_time H st before = Ok (st1, m1) -> maxoff = moff m1) end.
Proof.
  intros HI. unfold find_by_age.
  destruct (log_get_by_time H st before) as [[sg mg]|e] eqn:Eg.
  - destruct (log_get_by_time_live st before sg mg HI Eg) as (Hlive & HIg & HAg). cbn [bind].
    pose proof (abs_offsets_below_next st mg HI Hlive) as Hlt.
    destruct (scan_stop H (newer before) age_g sg (moff mg) [] HIg ltac:(rewrite HAg; lia)) as (s2 & a & Es & (D & rest & HL & Ha & HD & Hrest) & HI2 & HA2).
    rewrite (scan_loop_ext H _ (stop_step (newer before) age_g) (fun _ => true)) by (intros a0 m0; reflexivity).
    rewrite Es. intros E. injection E as <- <-. split; [exact HI2|]. split; [congruence|].
    exists D, rest. rewrite <- HAg. split; [exact HL|]. split; [rewrite Ha, fold_age; reflexivity|].
    split.
    + intros x Hx. rewrite forallb_forall in HD. specialize (HD x Hx). unfold go_on, newer in HD. lia.
    + destruct rest as [|m r]; [exact I|]. destruct Hrest as [Hs|Hm]; [left; unfold newer in Hs; lia|].
      right. exists (moff mg). split; [exact Hm|]. intros st1 m1 E1. injection E1 as _ <-. reflexivity.
  - destruct (classify e) eqn:Ec; try discriminate.
    + destruct (log_next_ok H st HI) as (s1 & En & HI1 & HA1 & _). rewrite En. cbn [bind].
      destruct (scan_stop H (newer before) age_g s1 (anext (abs st)) [] HI1 ltac:(rewrite HA1; lia)) as (s2 & a & Es & (D & rest & HL & Ha & HD & Hrest) & HI2 & HA2).
      rewrite (scan_loop_ext H _ (stop_step (newer before) age_g) (fun _ => true)) by (intros a0 m0; reflexivity).
      rewrite Es. intros E. injection E as <- <-. split; [exact HI2|]. split; [congruence|].
      exists D, rest. rewrite <- HA1. split; [exact HL|]. split; [rewrite Ha, fold_age; reflexivity|].
      split.
      * intros x Hx. rewrite forallb_forall in HD. specialize (HD x Hx). unfold go_on, newer in HD. lia.
      * destruct rest as [|m r]; [exact I|]. destruct Hrest as [Hs|Hm]; [left; unfold newer in Hs; lia|].
        exfalso. destruct (live_facts s1 HI1) as (_ & Hr). pose proof (Hr m ltac:(rewrite HL; apply in_or_app; right; now left)). rewrite HA1 in *. lia.
    + destruct (log_next_ok H st HI) as (s1 & En & HI1 & HA1 & _). rewrite En. cbn [bind].
      destruct (scan_stop H (newer before) age_g s1 (anext (abs st)) [] HI1 ltac:(rewrite HA1; lia)) as (s2 & a & Es & (D & rest & HL & Ha & HD & Hrest) & HI2 & HA2).
      rewrite (scan_loop_ext H _ (stop_step (newer before) age_g) (fun _ => true)) by (intros a0 m0; reflexivity).
      rewrite Es. intros E. injection E as <- <-. split; [exact HI2|]. split; [congruence|].
      exists D, rest. rewrite <- HA1. split; [exact HL|]. split; [rewrite Ha, fold_age; reflexivity|].
      split.
      * intros x Hx. rewrite forallb_forall in HD. specialize (HD x Hx). unfold go_on, newer in HD. lia.
      * destruct rest as [|m r]; [exact I|]. destruct Hrest as [Hs|Hm]; [left; unfold newer in Hs; lia|].
        exfalso. destruct (live_facts s1 HI1) as (_ & Hr). pose proof (Hr m ltac:(rewrite HL; apply in_or_app; right; now left)). rewrite HA1 in *. lia.
Qed.

End CompactProofs.

(* ---------- completeness of FindUpdates: every examined message that is followed by a later examined message with the
   same key is selected - so among the messages not newer than the cut-off at most one per key remains *)
Section UpdComplete.

Lemma upd_complete : forall P o, has_later P o -> In o (fst (fold_left upd_g P ([], []))).
Proof.
  induction P as [|x P IH] using rev_ind; intros o Hl.
  - destruct Hl as (pre & m & mid & m' & post & E & _). destruct pre; discriminate.
  - rewrite fold_left_app. cbn [fold_left]. destruct (upd_sound P) as [Hmap _]. cbv zeta in Hmap.
    set (r := fold_left upd_g P ([], [])) in *.
    destruct Hl as (pre & m & mid & m' & post & E & Hm & Hk & Hmid).
    (* is the later message x itself, or does it lie in P? *)
    destruct (exists_last_or_nil post) as [->|(post' & y & ->)].
    + (* m' is the last element: m' = x, P = pre ++ m :: mid *)
      assert (EP : P = pre ++ m :: mid /\ x = m').
      { replace (pre ++ m :: mid ++ [m']) with ((pre ++ m :: mid) ++ [m']) in E by (rewrite <- app_assoc; reflexivity).
        apply app_inj_tail in E. tauto. }
      destruct EP as [-> ->]. unfold upd_g.
      assert (Hlast : last_opt (filter (has_key (mkey m')) (pre ++ m :: mid)) = Some m).
      { assert (Hhead : has_key (mkey m') m = true) by (unfold has_key; rewrite Hk; apply ConsumeProofs.bytes_eqb_refl).
        assert (Hnil : filter (has_key (mkey m')) mid = []).
        { apply filter_all_false. intros z Hz. unfold has_key. destruct (bytes_eqb (mkey m') (mkey z)) eqn:Eb; [|reflexivity].
          apply bytes_eqb_eq in Eb. exfalso. apply (Hmid z Hz). congruence. }
        rewrite filter_app. cbn [filter]. rewrite Hhead, Hnil. apply last_opt_app. }
      rewrite Hmap, Hlast. cbn [option_map fst]. apply in_or_app. right. left. exact Hm.
    + (* the later message lies in P *)
      assert (EP : P = pre ++ m :: mid ++ m' :: post' /\ x = y).
      { replace (pre ++ m :: mid ++ m' :: post' ++ [y]) with ((pre ++ m :: mid ++ m' :: post') ++ [y]) in E
          by (rewrite <- !app_assoc; cbn [app]; rewrite <- app_assoc; reflexivity).
        apply app_inj_tail in E. tauto. }
      destruct EP as [EP ->].
      assert (Hin : In o (fst r)) by (apply IH; exists pre, m, mid, m', post'; repeat split; assumption).
      unfold upd_g. destruct (assoc_find (mkey y) (snd r)); cbn [fst]; [apply in_or_app; now left|exact Hin].
Qed.

End UpdComplete.
