(* OffsetProofs.v — C09 / C10: OffsetByKey and OffsetByTime (log.go: the lookup, then the offset - and time - of what
   it found) return the offset of exactly the message the specification names. *)
From KV Require Import Base Model Spec SpecFacts LogInv GetProofs KeyProofs KeyInv TimeProofs TimeInv History.

Section Offsets.
Variable H : bytes -> Z.

(* the offset OffsetByKey returns is that of the last live message with exactly that key; it fails with ErrNotFound
   exactly when there is none, with ErrNoIndex without the key index *)
Theorem log_offset_by_key_correct c st k :
  KInv H (cparams c) st -> opened st = Some c ->
  match log_offset_by_key H st k with
  | Ok (_, o) => ckeys c = true /\ option_map moff (last_opt (filter (has_key k) (live (abs st)))) = Some o
  | Err e => if ckeys c then last_opt (filter (has_key k) (live (abs st))) = None /\ classify e = CNotFound
             else classify e = CNoIndex
  end.
Proof.
  intros HK Hc. pose proof (log_get_by_key_correct H c st k HK Hc) as Hchk.
  unfold log_offset_by_key. unfold check_get_by_key in Hchk.
  destruct (log_get_by_key H st k) as [[st' m]|e]; cbn [bind fst snd obs_get] in *.
  - destruct (ckeys c); cbn [negb] in Hchk; [|discriminate].
    split; [reflexivity|]. destruct (last_opt (filter (has_key k) (live (abs st)))) as [m0|]; [|discriminate].
    apply msg_eqb_eq in Hchk. subst m0. reflexivity.
  - destruct (ckeys c); cbn [negb] in Hchk.
    + destruct (last_opt (filter (has_key k) (live (abs st)))) as [m0|]; [discriminate|].
      split; [reflexivity|]. unfold is_err in Hchk. destruct (classify e); try discriminate; reflexivity.
    + unfold is_err in Hchk. destruct (classify e); try discriminate; reflexivity.
Qed.

(* OffsetByTime on every state reached by a history with fixed index options and non-decreasing, non-negative publish
   times: the offset and time of the first live message not before ts *)
Theorem offset_by_time_on_monotone_histories p ops c ts :
  Forall (uses p) ops -> thist_ok 0 ops ->
  let st := fst (hrun H init_state ops) in
  opened st = Some c -> lvirt st = false -> ctimes c = true ->
  match log_offset_by_time H st ts with
  | Ok (_, (o, t)) => exists m, find (fun m => ts <=? mtime m) (live (abs st)) = Some m /\ moff m = o /\ mtime m = t
  | Err e => find (fun m => ts <=? mtime m) (live (abs st)) = None
  end.
Proof.
  intros Hu Hok st Hc Hv Ht. pose proof (get_by_time_on_monotone_histories H p ops c ts Hu Hok Hc Hv) as Hchk.
  fold st in Hchk. unfold log_offset_by_time. unfold check_get_by_time in Hchk. rewrite Ht in Hchk. cbn [negb] in Hchk.
  destruct (log_get_by_time H st ts) as [[st' m]|e]; cbn [bind fst snd obs_get] in *.
  - destruct (find (fun m0 => ts <=? mtime m0) (live (abs st))) as [m0|].
    + apply msg_eqb_eq in Hchk. subst m0. exists m. auto.
    + destruct (live (abs st)); discriminate.
  - destruct (find (fun m0 => ts <=? mtime m0) (live (abs st))) as [m0|]; [discriminate|reflexivity].
Qed.

(* the virtual handle of a read-only Open on an empty directory: no live message, GetByTime says so *)
Lemma virt_get_by_time st c ts : Virt st -> opened st = Some c ->
  check_get_by_time (abs st) (ctimes c) ts (obs_get (log_get_by_time H st ts)) = true.
Proof.
  intros (Hv & (v & Hs) & (c' & Hc' & Hro)) Hc. rewrite Hc in Hc'. injection Hc' as <-.
  destruct st as [sg wc op lv]. cbn in *. subst.
  unfold log_get_by_time, get_cfg. cbn [opened bind].
  unfold check_get_by_time. destruct (ctimes c) eqn:Ht; cbn [negb]; [|reflexivity].
  cbn. reflexivity.
Qed.

(* GetByTime on EVERY state reached by a monotone history, the read-only handle of an empty directory included *)
Theorem get_by_time_on_all_monotone_histories p ops c ts :
  Forall (uses p) ops -> thist_ok 0 ops ->
  let st := fst (hrun H init_state ops) in
  opened st = Some c ->
  check_get_by_time (abs st) (ctimes c) ts (obs_get (log_get_by_time H st ts)) = true.
Proof.
  intros Hu Hok st Hc. destruct (lvirt st) eqn:Hv.
  - destruct (thistory H p ops 0 init_state (tgood_init H p) Hu Hok) as ((HG & _) & _). fold st in HG.
    destruct HG as [(Ho & _)|[HI|HV]]; [congruence| |now apply virt_get_by_time].
    destruct HI as (_ & _ & _ & Hlv & _). congruence.
  - now apply (get_by_time_on_monotone_histories H p ops c ts Hu Hok Hc).
Qed.

End Offsets.
