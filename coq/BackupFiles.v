(* BackupFiles.v — C20: the copy mechanics of Segment.Backup (pkg/segment/utils.go copyFile) on files with content and
   modification time: a target file whose size and mtime equal the source's is left alone, otherwise it is truncated,
   rewritten in chunks, fsynced and finally given the source's mtime.  The steps of one copy, what a Backup that is
   killed after any of them leaves, and the Backup that follows.  Executable; proofs in BackupFilesProofs.v. *)
From KV Require Import Base Durable.

Record bfile := mkB { bdata : bytes; bmtime : Z }.

Definition bdir := list (fname * bfile).

Fixpoint blookup (d : bdir) (n : fname) : option bfile :=
  match d with
  | [] => None
  | (m, f) :: r => if fname_eqb m n then Some f else blookup r n
  end.

Fixpoint bset (d : bdir) (n : fname) (f : bfile) : bdir :=
  match d with
  | [] => [(n, f)]
  | (m, g) :: r => if fname_eqb m n then (m, f) :: r else (m, g) :: bset r n f
  end.

(* copyFile: O_EXCL create; when the file exists and size and mtime match, nothing; else O_TRUNC and copy *)
Definition skip_copy (s d : bfile) : bool :=
  (Z.of_nat (length (bdata s)) =? Z.of_nat (length (bdata d))) && (bmtime s =? bmtime d).

Definition copy_file (s : bfile) (d : option bfile) : bfile :=
  match d with
  | Some d => if skip_copy s d then d else mkB (bdata s) (bmtime s)
  | None => mkB (bdata s) (bmtime s)
  end.

(* Backup of a directory: every file of the source, in order *)
Definition backup_files (src tgt : bdir) : bdir :=
  fold_left (fun t nf => bset t (fst nf) (copy_file (snd nf) (blookup t (fst nf)))) src tgt.

(* what a copy that is killed leaves of its target: the file as it was (killed before the open, or skipped), or a
   file created or truncated at time now holding any prefix of the source - all of it when the kill came between the
   last write and Chtimes -, or the finished copy *)
Inductive copy_image (s : bfile) (d : option bfile) (now : Z) : option bfile -> Prop :=
| ci_untouched : copy_image s d now d
| ci_partial k : copy_image s d now (Some (mkB (firstn k (bdata s)) now))
| ci_done : copy_image s d now (Some (copy_file s d)).

(* a Backup killed while it copied the file named n, the files before n (in the order of the source) done *)
Definition killed_backup (src tgt : bdir) (now : Z) (t' : bdir) : Prop :=
  exists done n s rest img,
    src = done ++ (n, s) :: rest /\
    copy_image s (blookup (backup_files done tgt) n) now img /\
    t' = match img with Some f => bset (backup_files done tgt) n f | None => backup_files done tgt end.

(* executable form of one image, for the correspondence: k bytes written, then killed *)
Definition partial_copy (s : bfile) (k : nat) (now : Z) : bfile := mkB (firstn k (bdata s)) now.
