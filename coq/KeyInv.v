(* KeyInv.v — the exact-index invariant KInv is preserved by every operation of a session that keeps its
   index options p, and across Close / Open / index removal / Migrate / Recover with the same options:
   every reachable state of such a history satisfies it (C09, C10, C11). *)
From KV Require Import Base Model ListAux SearchProofs SegProofs ReaderProofs Spec SpecFacts LogInv
     ConsumeProofs GetProofs AbsFacts PublishProofs DeleteProofs OpenProofs ReadsPreserve History KeyProofs.
From Coq Require Import ZifyBool ZifyNat.

Section KeyInv.
Variable H : bytes -> Z.

Notation idx_exact := (idx_exact H).
Notation exact_items := (exact_items H).
Notation KInv := (KInv H).

Lemma Forall_firstn' {A} (P : A -> Prop) n : forall l, Forall P l -> Forall P (firstn n l).
Proof. induction n as [|n IH]; intros l HF; [constructor|]. destruct HF; cbn [firstn]; constructor; auto. Qed.

Lemma Forall_skipn' {A} (P : A -> Prop) n : forall l, Forall P l -> Forall P (skipn n l).
Proof. induction n as [|n IH]; intros l HF; [exact HF|]. destruct HF; cbn [skipn]; [constructor|auto]. Qed.

Lemma derive_from_app p v : forall a b cur ts,
  derive_from H p v cur ts (a ++ b) =
  derive_from H p v cur ts a ++
  derive_from H p v (cur + recs_size v a)
    (match last_opt (derive_from H p v cur ts a) with Some it => its it | None => ts end) b.
Proof.
  induction a as [|m r IH]; intros b cur ts.
  - cbn [app derive_from recs_size last_opt]. now rewrite Z.add_0_r.
  - cbn [app derive_from recs_size]. f_equal. rewrite IH. f_equal.
    replace (cur + rec_size v m + recs_size v r) with (cur + (rec_size v m + recs_size v r)) by lia. f_equal.
    destruct (derive_from H p v (cur + rec_size v m) (its (new_item H p m cur ts)) r) as [|x xs] eqn:Ed.
    + reflexivity.
    + rewrite last_opt_cons_cons. destruct (last_opt (x :: xs)) eqn:El; [reflexivity|]. apply last_opt_none in El. discriminate.
Qed.

Lemma idx_exact_new_head p c base : idx_exact p (new_head c base).
Proof. intros iv items E. cbn in E. injection E as <- <-. left. reflexivity. Qed.

Lemma idx_exact_set_none p s : idx_exact p (set_idx s None).
Proof. intros iv items E. discriminate. Qed.

Lemma idx_exact_derive p s iv : idx_exact p (set_idx s (Some (iv, derive H p (sver s) (srecs s)))).
Proof. intros iv' items E. cbn in E. injection E as <- <-. right. exists 0. reflexivity. Qed.

(* ---------- Publish *)

Lemma append_exact p v recs items ts0 newrecs wc :
  items = derive_from H p v (hdr_size v) ts0 recs -> (items = [] -> ts0 = wc) ->
  items ++ derive_from H p v (hdr_size v + recs_size v recs)
             (match last_opt items with Some it => its it | None => wc end) newrecs
  = derive_from H p v (hdr_size v) ts0 (recs ++ newrecs).
Proof.
  intros Hex Hempty. rewrite derive_from_app. rewrite <- Hex. f_equal. f_equal.
  destruct (last_opt items) eqn:El; [reflexivity|]. apply last_opt_none in El. symmetry. now apply Hempty.
Qed.

Lemma head_exact p st hd :
  head_inv hd -> idx_exact p hd ->
  exists ts0, head_items hd = derive_from H p (sver hd) (hdr_size (sver hd)) ts0 (srecs hd) /\
              (head_items hd = [] -> ts0 = wcarry st).
Proof.
  intros (iv & its0 & Hsi & Hm) Hx. unfold head_items. rewrite Hsi.
  destruct (Hx iv its0 Hsi) as [->|(ts0 & Hex)].
  - assert (Hr : srecs hd = []) by (destruct Hm as [Ho _]; destruct (srecs hd); [reflexivity|discriminate]).
    exists (wcarry st). rewrite Hr. split; reflexivity.
  - destruct its0 as [|i0 ir].
    + exists (wcarry st). split; [|reflexivity]. destruct (srecs hd); [reflexivity|discriminate].
    + exists ts0. split; [exact Hex|discriminate].
Qed.

Theorem log_publish_kinv c st ms st2 n :
  KInv (cparams c) st -> opened st = Some c -> log_publish H st ms = Ok (st2, n) -> KInv (cparams c) st2.
Proof.
  intros (HI & HX & Hp) Hc E. set (p := cparams c) in *.
  assert (Hro : cro c = false).
  { unfold log_publish, get_cfg in E. rewrite Hc in E. cbn [bind] in E. destruct (cro c); [discriminate|reflexivity]. }
  assert (Hbig : existsb msg_too_big ms = false).
  { unfold log_publish, get_cfg in E. rewrite Hc in E. cbn [bind] in E. rewrite Hro in E.
    destruct (head_seg st) as [hs|]; [|discriminate]. cbn [bind] in E. destruct (needs_rollover c hs); destruct (existsb msg_too_big ms); try discriminate; reflexivity. }
  destruct (log_publish_correct H st ms HI (ex_intro _ c (conj Hc Hro)) Hbig) as (st2' & E2 & HI2 & _ & Ho2).
  rewrite E in E2. injection E2 as <- _.
  split; [exact HI2|]. split; [|intros c2 Ec2; rewrite Ho2, Hc in Ec2; injection Ec2 as <-; reflexivity].
  pose proof HI as (Hne & HF & Hch & Hv & c' & Hc' & Hhead). rewrite Hc in Hc'. injection Hc' as <-. specialize (Hhead Hro).
  unfold log_publish, get_cfg in E. rewrite Hc in E. cbn [bind] in E. rewrite Hro in E.
  unfold head_seg in E. destruct (last_opt (segs st)) as [hd|] eqn:Ehd; [|contradiction]. cbn [bind] in E.
  assert (Hhdx : idx_exact p hd) by (rewrite Forall_forall in HX; apply HX; now apply last_opt_in).
  destruct (needs_rollover c hd) eqn:Eroll; rewrite Hbig in E; injection E as <- _; cbn [segs set_segs]; apply Forall_replace_nth.
  - apply Forall_app. split; [exact HX|]. constructor; [apply idx_exact_new_head|constructor].
  - intros iv items Eix. cbn [sidx] in Eix. injection Eix as _ <-. right. cbn [sver srecs new_head].
    exists (next_time st hd). unfold head_items, new_head. cbn [sidx app]. unfold next_time at 2, head_items. cbn [sidx last_opt].
    unfold seg_log_size, log_size. cbn [srecs sver recs_size]. rewrite Z.add_0_r. reflexivity.
  - exact HX.
  - intros iv items Eix. cbn [sidx] in Eix. injection Eix as _ <-. right. cbn [sver srecs].
    destruct (head_exact p st hd Hhead Hhdx) as (ts0 & Hex & Hempty). exists ts0.
    unfold seg_log_size, log_size, next_time. apply append_exact; assumption.
Qed.

(* ---------- Delete *)

Lemma idx_exact_rewritten p mv iv survive : idx_exact p (rewritten H p mv iv survive).
Proof. intros iv' items E. cbn in E. injection E as <- <-. right. exists 0. reflexivity. Qed.

Theorem log_delete_kinv c st offs st2 r :
  KInv (cparams c) st -> opened st = Some c -> log_delete H st offs = Ok (st2, r) -> KInv (cparams c) st2.
Proof.
  intros HK Hc E. pose proof HK as (HI & HX & Hp). set (p := cparams c) in *. destruct r as [deleted size].
  destruct (log_delete_ok H st offs st2 deleted size c HI Hc E) as [(_ & -> & _)|(HI2 & Ho2 & _)]; [exact HK|].
  split; [exact HI2|]. split; [|intros c2 Ec2; rewrite Ho2, Hc in Ec2; injection Ec2 as <-; reflexivity].
  unfold log_delete, get_cfg in E. rewrite Hc in E. cbn [bind] in E.
  destruct (cro c); [discriminate|]. destruct offs as [|o0 orest]; [injection E as <- _; exact HX|].
  destruct (zmin_list (o0 :: orest) <? 0); [discriminate|].
  destruct (seg_get (bases (segs st)) (zmin_list (o0 :: orest))) as [i|]; [|discriminate]. cbn [bind] in E.
  destruct (znth (segs st) i) as [src|]; [|discriminate].
  destruct (open_log_reader src) as [srcv|]; [|discriminate]. cbn [bind] in E.
  destruct (filter (fun m => zmem (moff m) (o0 :: orest)) (srecs src)) as [|d0 dr]; [injection E as <- _; exact HX|].
  pose proof (Forall_firstn' (idx_exact p) (Z.to_nat i) _ HX) as HXf.
  pose proof (Forall_skipn' (idx_exact p) (S (Z.to_nat i)) _ HX) as HXs.
  destruct (is_last st i).
  - destruct (filter (fun m => negb (zmem (moff m) (o0 :: orest))) (srecs src)) as [|s0 sr].
    + injection E as <- _. cbn [segs]. apply Forall_app. split; [exact HXf|]. constructor; [apply idx_exact_new_head|constructor].
    + match type of E with context [if ?b then _ else _] => destruct b end; injection E as <- _; cbn [segs]; apply Forall_app; (split; [exact HXf|]).
      * constructor; [apply idx_exact_rewritten|]. constructor; [apply idx_exact_new_head|constructor].
      * constructor; [apply idx_exact_rewritten|constructor].
  - destruct (filter (fun m => negb (zmem (moff m) (o0 :: orest))) (srecs src)) as [|s0 sr]; injection E as <- _; cbn [segs set_segs].
    + apply Forall_app. split; assumption.
    + apply Forall_replace_nth; [exact HX|apply idx_exact_rewritten].
Qed.

(* ---------- reads *)

Definition KRel (c : cfg) (st st1 : lstate) : Prop :=
  KInv (cparams c) st -> opened st = Some c -> KInv (cparams c) st1 /\ opened st1 = Some c.

Lemma KRel_refl c st : KRel c st st.
Proof. intros HK Hc. split; assumption. Qed.

Lemma KRel_trans c a b d : KRel c a b -> KRel c b d -> KRel c a d.
Proof. intros H1 H2 HK Hc. destruct (H1 HK Hc) as [K1 O1]. exact (H2 K1 O1). Qed.

Lemma KRel_wi c st i st1 s items : with_index H c st i = Ok (st1, s, items) -> KRel c st st1.
Proof.
  intros Hw HK Hc. destruct (with_index_exact H c st i st1 s items HK Hc Hw) as [_ K1]. split; [exact K1|].
  destruct HK as (HI & _). destruct (with_index_preserves H c st i st1 s items HI Hc Hw) as (_ & _ & O1 & _). exact O1.
Qed.

Definition log_get_K := log_get_G H KRel KRel_refl KRel_trans KRel_wi.
Definition log_get_by_key_K := log_get_by_key_G H KRel KRel_refl KRel_trans KRel_wi.
Definition log_consume_by_key_K := log_consume_by_key_G H KRel KRel_refl KRel_trans KRel_wi.
Definition log_get_by_time_K := log_get_by_time_G H KRel KRel_refl KRel_trans KRel_wi.
Definition log_next_K := log_next_G H KRel KRel_refl KRel_trans KRel_wi.
Definition log_stat_K := log_stat_G H KRel KRel_refl KRel_trans KRel_wi.
Definition log_consume_K := log_consume_G H KRel KRel_refl KRel_trans KRel_wi.

(* ---------- Close / Open / maintenance of the closed directory *)

Lemma segment_recover_exact p s s' : seg_inv s -> idx_exact p s -> segment_recover H p s = Ok s' -> idx_exact p s'.
Proof.
  intros Hi Hx. unfold segment_recover. rewrite (seg_inv_open_log s Hi). cbn [bind].
  destruct (sidx s) as [ix|] eqn:Esi; [|intros E; injection E as <-; exact Hx].
  destruct (open_idx_reader s ix) as [items|]; [|intros E; injection E as <-; apply idx_exact_set_none].
  destruct (list_eqb item_eqb items (derive H p (sver s) (srecs s))); intros E; injection E as <-; [exact Hx|apply idx_exact_derive].
Qed.

Lemma segment_migrate_exact p v s s' : seg_inv s -> idx_exact p s -> segment_migrate H p v v s = Ok s' -> idx_exact p s'.
Proof.
  intros Hi Hx. unfold segment_migrate. rewrite (seg_inv_open_log s Hi). cbn [bind].
  destruct (ver_eqb (sver s) v); intros E; injection E as <-; [exact Hx|].
  intros iv items E. cbn in E. injection E as <- <-. right. exists 0. reflexivity.
Qed.

Lemma open_writer_exact c s s' : seg_inv s -> idx_exact (cparams c) s -> open_writer H c s = Ok s' -> idx_exact (cparams c) s'.
Proof.
  intros Hi Hx. pose proof Hi as (Hs & Hnn & Hfb & Hix & Hb). unfold open_writer.
  set (s1 := if seg_log_size s =? 0 then mkSeg (sbase s) (cnewver c) (srecs s) (sidx s) else s).
  assert (H1 : (if seg_log_size s =? 0 then Ok (mkSeg (sbase s) (cnewver c) (srecs s) (sidx s))
                else do _ <- open_log_reader s; Ok s) = Ok s1).
  { unfold s1. destruct (seg_log_size s =? 0); [reflexivity|]. now rewrite (seg_inv_open_log s Hi). }
  rewrite H1. cbn [bind].
  assert (Hs1 : seg_inv s1 /\ idx_exact (cparams c) s1).
  { unfold s1. destruct (seg_log_size s =? 0) eqn:E0; [|split; assumption].
    assert (Er : srecs s = []) by (apply (log_size_small (sver s)); unfold seg_log_size in E0; lia).
    split.
    - repeat split; cbn [srecs sbase sver sidx]; try assumption.
      intros iv items Ei. destruct (Hix iv items Ei) as [->|Hm]; [left; reflexivity|].
      left. rewrite Er in Hm. now apply items_match_nil in Hm.
    - intros iv items Ei. cbn [sidx] in Ei. destruct (Hx iv items Ei) as [->|(ts0 & Hex)]; [left; reflexivity|].
      left. rewrite Er in Hex. exact Hex. }
  destruct Hs1 as [Hi1 Hx1].
  assert (H2 : forall s2, (if 8 <? seg_log_size s1 then do r <- ensure_index H (cparams c) (cnewver c) s1; Ok (fst r) else Ok s1) = Ok s2 ->
                          idx_exact (cparams c) s2 /\ seg_inv s2).
  { intros s2. destruct (8 <? seg_log_size s1).
    - destruct (ensure_index H (cparams c) (cnewver c) s1) as [[s2' its2]|] eqn:Ee; [|discriminate]. cbn [bind fst].
      intros E. injection E as <-. destruct (ensure_index_exact H _ _ _ _ _ Hi1 Hx1 Ee) as (_ & Hx2 & _).
      destruct (ensure_index_ok H (cparams c) (cnewver c) s1 Hi1) as (sa & ia & Ea & _ & Hia & _). rewrite Ee in Ea. injection Ea as <- _.
      split; assumption.
    - intros E. injection E as <-. split; assumption. }
  destruct (if 8 <? seg_log_size s1 then do r <- ensure_index H (cparams c) (cnewver c) s1; Ok (fst r) else Ok s1) as [s2|]; [|discriminate].
  destruct (H2 s2 eq_refl) as [Hx2 Hi2]. cbn [bind].
  assert (Hempty : forall v, idx_exact (cparams c) (set_idx s2 (Some (v, [])))).
  { intros v iv items E. cbn in E. injection E as <- <-. left. reflexivity. }
  destruct (sidx s2) as [[iv items]|] eqn:Es2; [|intros E; injection E as <-; apply Hempty].
  destruct iv, items; try (intros E; injection E as <-; apply Hempty).
  - destruct (open_idx_reader s2 (V1, i :: items)); [|discriminate]. cbn [bind]. intros E. injection E as <-. exact Hx2.
  - cbn [open_idx_reader bind]. intros E. injection E as <-. exact Hx2.
  - cbn [open_idx_reader bind]. intros E. injection E as <-. exact Hx2.
Qed.

Lemma map_res_Q (f : seg -> res seg) (Q : seg -> Prop) : forall l l',
  (forall s s', seg_inv s -> Q s -> f s = Ok s' -> Q s') ->
  Forall seg_inv l -> Forall Q l -> map_res f l = Ok l' -> Forall Q l'.
Proof.
  induction l as [|x l IH]; intros l' Hf HF HQ E; cbn [map_res] in E; [injection E as <-; constructor|].
  destruct (f x) as [y|] eqn:Ey; [|discriminate]. cbn [bind] in E.
  destruct (map_res f l) as [ys|] eqn:Eys; [|discriminate]. cbn [bind] in E. injection E as <-.
  apply Forall_cons_iff in HF. apply Forall_cons_iff in HQ. destruct HF as [Hx HF]. destruct HQ as [Qx HQ].
  constructor; [eapply Hf; eassumption|]. eapply IH; eauto.
Qed.

Lemma map_last_Q (f : seg -> res seg) (Q : seg -> Prop) l l' :
  (forall s s', seg_inv s -> Q s -> f s = Ok s' -> Q s') ->
  Forall seg_inv l -> Forall Q l -> map_last f l = Ok l' -> Forall Q l'.
Proof.
  intros Hf HF HQ. unfold map_last. destruct (exists_last_or_nil l) as [->|(pre & x & ->)].
  - cbn. intros E. injection E as <-. constructor.
  - rewrite rev_app_distr. cbn [rev app]. apply Forall_app in HF. apply Forall_app in HQ.
    destruct HF as [HFp HFx]. destruct HQ as [HQp HQx]. apply Forall_cons_iff in HFx. apply Forall_cons_iff in HQx.
    destruct (f x) as [y|] eqn:Ey; [|discriminate]. cbn [bind rev]. rewrite rev_involutive. intros E. injection E as <-.
    apply Forall_app. split; [exact HQp|]. constructor; [|constructor]. eapply Hf; [apply HFx|apply HQx|exact Ey].
Qed.

Definition KDir (p : params) (l : list seg) : Prop := DirInv l /\ Forall (idx_exact p) l.

Theorem log_open_kinv st c0 st' :
  closed_dir st -> Forall (idx_exact (cparams c0)) (segs st) -> segs st <> [] -> cro c0 = false \/ segs st <> [] ->
  log_open H st c0 = Ok st' -> Forall (idx_exact (cparams c0)) (segs st').
Proof.
  intros (Ho & Hv & HD) HX Hne _. unfold log_open. rewrite Ho. set (c := norm_cfg c0).
  assert (Hpc : cparams c = cparams c0) by reflexivity. rewrite <- Hpc in *. destruct HD as [HF Hch].
  destruct (segs st) as [|s0 r0] eqn:Esegs; [congruence|]. rewrite <- Esegs in *.
  destruct (cro c) eqn:Ero.
  - rewrite Esegs. rewrite <- Esegs. destruct (if ccheck c || crecover c then dir_check H (cparams c) st else Ok tt); [|discriminate].
    cbn [bind]. intros E. injection E as <-. exact HX.
  - rewrite Esegs. rewrite <- Esegs.
    destruct (if crecover c then map_last (segment_recover H (cparams c)) (segs st)
              else if ccheck c then (do _ <- dir_check H (cparams c) st; Ok (segs st)) else Ok (segs st)) as [l1|] eqn:E1; [|discriminate].
    cbn [bind].
    assert (H1 : Forall seg_inv l1 /\ Forall (idx_exact (cparams c)) l1).
    { destruct (crecover c).
      - destruct (map_last_ok (segment_recover H (cparams c)) (segs st) HF (recover_step_ok H (cparams c))) as (l' & E & HF' & _).
        rewrite E in E1. injection E1 as <-. split; [exact HF'|].
        eapply (map_last_Q (segment_recover H (cparams c))); [|exact HF|exact HX|exact E].
        intros s s'. apply segment_recover_exact.
      - destruct (ccheck c).
        + destruct (dir_check H (cparams c) st); [|discriminate]. cbn [bind] in E1. injection E1 as <-. split; assumption.
        + injection E1 as <-. split; assumption. }
    destruct H1 as [HF1 HX1].
    destruct (if ceager c then map_res (segment_migrate H (cparams c) (cnewver c) (cnewver c)) l1 else Ok l1) as [l2|] eqn:E2; [|discriminate].
    cbn [bind].
    assert (H2 : Forall seg_inv l2 /\ Forall (idx_exact (cparams c)) l2).
    { destruct (ceager c).
      - destruct (map_res_ok (segment_migrate H (cparams c) (cnewver c) (cnewver c)) l1 HF1 (migrate_step_ok H (cparams c) (cnewver c))) as (l' & E & HF' & _).
        rewrite E in E2. injection E2 as <-. split; [exact HF'|].
        eapply (map_res_Q (segment_migrate H (cparams c) (cnewver c) (cnewver c))); [|exact HF1|exact HX1|exact E].
        intros s s'. apply segment_migrate_exact.
      - injection E2 as <-. split; assumption. }
    destruct H2 as [HF2 HX2].
    destruct (map_last (open_writer H c) l2) as [l3|] eqn:E3; [|discriminate]. cbn [bind]. intros E. injection E as <-. cbn [segs].
    eapply (map_last_Q (open_writer H c)); [|exact HF2|exact HX2|exact E3].
    intros s s'. apply open_writer_exact.
Qed.

Theorem rm_index_kdir p l i which all : Forall (idx_exact p) l -> Forall (idx_exact p) (rm_index_at l i which all).
Proof.
  intros HX. revert i. induction HX as [|s r Hs HX IH]; intros i; cbn [rm_index_at]; constructor; [|apply IH].
  destruct (all || zmem i which); [apply idx_exact_set_none|exact Hs].
Qed.

Theorem dir_migrate_kdir p v st st' :
  DirInv (segs st) -> Forall (idx_exact p) (segs st) -> dir_migrate H p v st = Ok st' -> Forall (idx_exact p) (segs st').
Proof.
  intros [HF _] HX. unfold dir_migrate. destruct (map_res (segment_migrate H p v v) (segs st)) as [l|] eqn:E; [|discriminate].
  cbn [bind]. intros E2. injection E2 as <-. cbn [segs set_segs].
  eapply (map_res_Q (segment_migrate H p v v)); [|exact HF|exact HX|exact E]. intros s s'. apply segment_migrate_exact.
Qed.

Theorem dir_recover_kdir p st st' :
  DirInv (segs st) -> Forall (idx_exact p) (segs st) -> dir_recover H p st = Ok st' -> Forall (idx_exact p) (segs st').
Proof.
  intros [HF _] HX. unfold dir_recover. destruct (map_last (segment_recover H p) (segs st)) as [l|] eqn:E; [|discriminate].
  cbn [bind]. intros E2. injection E2 as <-. cbn [segs set_segs].
  eapply (map_last_Q (segment_recover H p)); [|exact HF|exact HX|exact E]. intros s s'. apply segment_recover_exact.
Qed.

(* ---------- whole histories with fixed index options *)

Definition uses (p : params) (op : hop) : Prop :=
  match op with
  | HOpen c => cparams c = p
  | HMigrate p' _ => p' = p
  | HRecoverDir p' => p' = p
  | _ => True
  end.

Definition KGood (p : params) (st : lstate) : Prop :=
  Good st /\ Forall (idx_exact p) (segs st) /\ forall c, opened st = Some c -> cparams c = p.

Lemma kgood_kinv p st : KGood p st -> Inv st -> KInv p st.
Proof. intros (_ & HX & Hp) HI. split; [exact HI|]. split; assumption. Qed.

Lemma log_open_opened st c0 st' : log_open H st c0 = Ok st' -> opened st' = Some (norm_cfg c0).
Proof.
  unfold log_open. destruct (opened st); [discriminate|].
  destruct (segs st) as [|s0 r0]; destruct (cro (norm_cfg c0)).
  - intros E. injection E as <-. reflexivity.
  - destruct (open_writer H (norm_cfg c0) _); [|discriminate]. cbn [bind]. intros E. injection E as <-. reflexivity.
  - destruct (if ccheck (norm_cfg c0) || crecover (norm_cfg c0) then _ else _); [|discriminate]. cbn [bind]. intros E. injection E as <-. reflexivity.
  - destruct (if crecover (norm_cfg c0) then _ else _); [|discriminate]. cbn [bind].
    destruct (if ceager (norm_cfg c0) then _ else _); [|discriminate]. cbn [bind].
    destruct (map_last _ _); [|discriminate]. cbn [bind]. intros E. injection E as <-. reflexivity.
Qed.

Lemma seg_inv_empty0 : seg_inv (mkSeg 0 V1 [] None).
Proof.
  split; [intros i j a b Hi; cbn in Hi; unfold znth in Hi; destruct (i <? 0); [discriminate|destruct (Z.to_nat i); discriminate]|].
  split; [intros m []|]. split; [exact I|]. split; [intros iv items E; discriminate|cbn; lia].
Qed.

Lemma kread_step {A} p (f : lstate -> res (lstate * A)) st :
  (forall st1 r c, opened st = Some c -> f st = Ok (st1, r) -> KRel c st st1) ->
  (forall st1 r c, opened st = Some c -> f st = Ok (st1, r) -> R c st st1) ->
  (opened st = None -> exists e, f st = Err e) ->
  KGood p st ->
  Forall (idx_exact p) (segs (fst (lift st (f st)))) /\ (forall c, opened (fst (lift st (f st))) = Some c -> cparams c = p).
Proof.
  intros HKR HR Hcl (HG & HX & Hp). destruct (f st) as [[st1 r]|e] eqn:E; cbn [lift fst]; [|split; assumption].
  destruct HG as [(Ho & _)|[HI|HV]].
  - destruct (Hcl Ho) as (e & E'). discriminate.
  - pose proof HI as (_ & _ & _ & _ & c & Hc & _). pose proof (Hp c Hc) as Hpc.
    assert (HK : KInv (cparams c) st) by (rewrite Hpc; split; [exact HI|split; assumption]).
    destruct (HKR st1 r c Hc eq_refl HK Hc) as ((_ & HX1 & Hp1) & Ho1). rewrite Hpc in *. split; assumption.
  - pose proof HV as (Hv & _ & c & Hc & _). destruct (HR st1 r c Hc eq_refl) as [_ Heq]. rewrite (Heq Hv). split; assumption.
Qed.

Ltac closed_err := intros Ho; unfold get_cfg; rewrite Ho; eexists; reflexivity.

Theorem khstep_good p st op : KGood p st -> uses p op -> KGood p (fst (hstep H st op)).
Proof.
  intros HKG Hu. pose proof HKG as (HG & HX & Hp). split; [exact (proj1 (hstep_good H st op HG))|].
  destruct op; cbn [hstep uses] in *.
  - (* Open *)
    destruct (log_open H st c) as [st'|e] eqn:E; cbn [lift0 fst]; [|split; assumption].
    split; [|intros c2 Ec2; rewrite (log_open_opened st c st' E) in Ec2; injection Ec2 as <-; exact Hu].
    destruct HG as [(Ho & Hv & HD)|[HI|HV]].
    + destruct (segs st) as [|s0 r0] eqn:Es.
      * unfold log_open in E. rewrite Ho, Es in E. destruct (cro (norm_cfg c)).
        -- injection E as <-. cbn [segs]. constructor; [|constructor]. intros iv items Ei. cbn in Ei. injection Ei as <- <-. left. reflexivity.
        -- destruct (open_writer H (norm_cfg c) (mkSeg 0 V1 [] None)) as [w|] eqn:Ew; [|discriminate]. cbn [bind] in E. injection E as <-.
           cbn [segs]. constructor; [|constructor]. rewrite <- Hu. change (cparams c) with (cparams (norm_cfg c)).
           eapply open_writer_exact; [apply seg_inv_empty0| |exact Ew]. intros iv items Ei. discriminate.
      * rewrite <- Hu. apply (log_open_kinv st c st'); try (rewrite Es; discriminate).
        -- split; [exact Ho|]. split; [exact Hv|]. rewrite Es. exact HD.
        -- rewrite Hu, Es. exact HX.
        -- right. rewrite Es. discriminate.
        -- exact E.
    + destruct HI as (_ & _ & _ & _ & c' & Hc' & _). unfold log_open in E. rewrite Hc' in E. discriminate.
    + destruct HV as (_ & _ & c' & Hc' & _). unfold log_open in E. rewrite Hc' in E. discriminate.
  - (* Close *)
    destruct (log_close st) as [st'|e] eqn:E; cbn [lift0 fst]; [|split; assumption].
    unfold log_close in E. destruct (opened st); [|discriminate]. injection E as <-. cbn [segs opened]. split; [|intros c2 Ec2; discriminate].
    destruct (lvirt st); [constructor|exact HX].
  - (* Publish *)
    assert (Hok : forall ms0 st' n, log_publish H st ms0 = Ok (st', n) ->
              Forall (idx_exact p) (segs st') /\ (forall c, opened st' = Some c -> cparams c = p)).
    { intros ms0 st' n E. destruct HG as [(Ho & _)|[HI|HV]].
      + unfold log_publish, get_cfg in E. rewrite Ho in E. discriminate.
      + pose proof HI as (_ & _ & _ & _ & c & Hc & _). pose proof (Hp c Hc) as Hpc.
        assert (HK : KInv (cparams c) st) by (rewrite Hpc; split; [exact HI|split; assumption]).
        destruct (log_publish_kinv c st ms0 st' n HK Hc E) as (_ & HX1 & Hp1). rewrite Hpc in *. split; assumption.
      + destruct HV as (_ & _ & c & Hc & Hro). unfold log_publish, get_cfg in E. rewrite Hc in E. cbn [bind] in E. rewrite Hro in E. discriminate. }
    unfold pub_step. destruct (log_publish H st ms) as [[st' n]|e] eqn:E; cbn [fst]; [exact (Hok ms st' n E)|].
    destruct e; try (split; assumption).
    unfold rolled. destruct (log_publish H st []) as [[st0 n0]|e0] eqn:E0; [exact (Hok [] st0 n0 E0)|split; assumption].
  - (* Delete *)
    destruct (log_delete H st offs) as [[st' r]|e] eqn:E; cbn [lift fst]; [|split; assumption].
    destruct HG as [(Ho & _)|[HI|HV]].
    + unfold log_delete, get_cfg in E. rewrite Ho in E. discriminate.
    + pose proof HI as (_ & _ & _ & _ & c & Hc & _). pose proof (Hp c Hc) as Hpc.
      assert (HK : KInv (cparams c) st) by (rewrite Hpc; split; [exact HI|split; assumption]).
      destruct (log_delete_kinv c st offs st' r HK Hc E) as (_ & HX1 & Hp1). rewrite Hpc in *. split; assumption.
    + destruct HV as (_ & _ & c & Hc & Hro). unfold log_delete, get_cfg in E. rewrite Hc in E. cbn [bind] in E. rewrite Hro in E. discriminate.
  - pose proof (kread_step p (fun s => log_consume H s off max) st) as HR. cbv beta in HR.
    destruct (lift st (log_consume H st off max)) as [s r] eqn:El. cbn [fst] in *. apply HR; try assumption.
    + intros st1 r1 c Hc E. eapply log_consume_K; eassumption.
    + intros st1 r1 c Hc E. eapply log_consume_R; eassumption.
    + unfold log_consume. closed_err.
  - pose proof (kread_step p (fun s => log_get H s off) st) as HR. cbv beta in HR.
    destruct (lift st (log_get H st off)) as [s r] eqn:El. cbn [fst] in *. apply HR; try assumption.
    + intros st1 r1 c Hc E. eapply log_get_K; eassumption.
    + intros st1 r1 c Hc E. eapply log_get_R; eassumption.
    + unfold log_get. closed_err.
  - pose proof (kread_step p (fun s => log_get_by_key H s k) st) as HR. cbv beta in HR.
    destruct (lift st (log_get_by_key H st k)) as [s r] eqn:El. cbn [fst] in *. apply HR; try assumption.
    + intros st1 r1 c Hc E. eapply log_get_by_key_K; eassumption.
    + intros st1 r1 c Hc E. eapply log_get_by_key_R; eassumption.
    + unfold log_get_by_key. closed_err.
  - pose proof (kread_step p (fun s => log_consume_by_key H s k off max) st) as HR. cbv beta in HR.
    destruct (lift st (log_consume_by_key H st k off max)) as [s r] eqn:El. cbn [fst] in *. apply HR; try assumption.
    + intros st1 r1 c Hc E. eapply log_consume_by_key_K; eassumption.
    + intros st1 r1 c Hc E. eapply log_consume_by_key_R; eassumption.
    + unfold log_consume_by_key. closed_err.
  - pose proof (kread_step p (fun s => log_get_by_time H s ts) st) as HR. cbv beta in HR.
    destruct (lift st (log_get_by_time H st ts)) as [s r] eqn:El. cbn [fst] in *. apply HR; try assumption.
    + intros st1 r1 c Hc E. eapply log_get_by_time_K; eassumption.
    + intros st1 r1 c Hc E. eapply log_get_by_time_R; eassumption.
    + unfold log_get_by_time. closed_err.
  - pose proof (kread_step p (fun s => log_next H s) st) as HR. cbv beta in HR.
    destruct (lift st (log_next H st)) as [s r] eqn:El. cbn [fst] in *. apply HR; try assumption.
    + intros st1 r1 c Hc E. eapply log_next_K; eassumption.
    + intros st1 r1 c Hc E. eapply log_next_R; eassumption.
    + unfold log_next. closed_err.
  - pose proof (kread_step p (fun s => log_stat H s) st) as HR. cbv beta in HR.
    destruct (lift st (log_stat H st)) as [s r] eqn:El. cbn [fst] in *. apply HR; try assumption.
    + intros st1 r1 c Hc E. eapply log_stat_K; eassumption.
    + intros st1 r1 c Hc E. eapply log_stat_R; eassumption.
    + unfold log_stat. closed_err.
  - unfold when_closed. destruct (opened st) eqn:Ho; cbn [lift0 fst]; [split; [exact HX|intros c2 Ec2; apply Hp; congruence]|].
    cbn [segs set_segs opened]. split; [apply rm_index_kdir; exact HX|intros c2 Ec2; rewrite Ho in Ec2; discriminate].
  - subst p0. unfold when_closed. destruct (opened st) eqn:Ho; cbn [fst]; [split; [exact HX|intros c2 Ec2; apply Hp; congruence]|].
    destruct (dir_migrate H p v st) as [st'|] eqn:E; cbn [lift0 fst]; [|split; [exact HX|intros c2 Ec2; congruence]].
    destruct HG as [(_ & _ & HD)|[HI|HV]].
    + split; [eapply dir_migrate_kdir; eassumption|]. unfold dir_migrate in E. destruct (map_res _ _); [|discriminate]. cbn [bind] in E. injection E as <-.
      cbn [opened set_segs]. intros c2 Ec2. congruence.
    + destruct HI as (_ & _ & _ & _ & c & Hc & _). congruence.
    + destruct HV as (_ & _ & c & Hc & _). congruence.
  - subst p0. unfold when_closed. destruct (opened st) eqn:Ho; cbn [fst]; [split; [exact HX|intros c2 Ec2; apply Hp; congruence]|].
    destruct (dir_recover H p st) as [st'|] eqn:E; cbn [lift0 fst]; [|split; [exact HX|intros c2 Ec2; congruence]].
    destruct HG as [(_ & _ & HD)|[HI|HV]].
    + split; [eapply dir_recover_kdir; eassumption|]. unfold dir_recover in E. destruct (map_last _ _); [|discriminate]. cbn [bind] in E. injection E as <-.
      cbn [opened set_segs]. intros c2 Ec2. congruence.
    + destruct HI as (_ & _ & _ & _ & c & Hc & _). congruence.
    + destruct HV as (_ & _ & c & Hc & _). congruence.
Qed.

(* every state reached by a history that keeps its index options satisfies the exact-index invariant *)
Theorem khistory p ops : forall st, KGood p st -> Forall (uses p) ops -> KGood p (fst (hrun H st ops)).
Proof.
  induction ops as [|op r IH]; intros st HK Hu; [exact HK|]. apply Forall_cons_iff in Hu. destruct Hu as [Hu Hur].
  cbn [hrun]. pose proof (khstep_good p st op HK Hu) as HK1. destruct (hstep H st op) as [s1 o]. cbn [fst] in HK1.
  specialize (IH s1 HK1 Hur). destruct (hrun H s1 r) as [s2 os]. exact IH.
Qed.

Lemma kgood_init p : KGood p init_state.
Proof. split; [apply good_init|]. split; [constructor|intros c E; discriminate]. Qed.

End KeyInv.
