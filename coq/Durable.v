(* Durable.v — C06: which bytes are on stable storage.  A table of files with their length and the length covered by
   the last fsync (the map the FS tap of the harness keeps), the file-system steps that change it, the steps each
   Publish / Sync / Close issues (decided from the L1 state exactly as Model.log_publish decides), and what a power
   loss may leave: every file independently cut back to any length between its fsynced length and its length.
   Executable; proofs in DurableProofs.v. *)
From KV Require Import Base Model.

(* FTLog / FTIdx: the two temporary files of a delete-by-rewrite (<base>.log.rewrite.X, <base>.index.rewrite.X) *)
Inductive fname := FLog (b : Z) | FIdx (b : Z) | FTLog | FTIdx.

Definition fname_eqb (a b : fname) : bool :=
  match a, b with
  | FLog x, FLog y => x =? y | FIdx x, FIdx y => x =? y | FTLog, FTLog => true | FTIdx, FTIdx => true
  | _, _ => false
  end.

(* fsyn = None: not written by this process since it was opened - all of it is on stable storage *)
Record fstat := mkF { fnm : fname; flen : Z; fsyn : option Z }.
Definition ftable := list fstat.

Inductive dop :=
| DCreate (f : fname) (n : Z)       (* a new file with its n header bytes (written atomically): nothing fsynced yet *)
| DWrite (f : fname) (n : Z)        (* append n bytes *)
| DFsync (f : fname).

Definition durable_len (x : fstat) : Z := match fsyn x with None => flen x | Some s => s end.

Definition upd_file (t : ftable) (f : fname) (g : fstat -> fstat) : ftable :=
  map (fun x => if fname_eqb (fnm x) f then g x else x) t.

Definition d_exec (t : ftable) (o : dop) : ftable :=
  match o with
  | DCreate f n => t ++ [mkF f n (Some 0)]
  | DWrite f n => upd_file t f (fun x => mkF (fnm x) (flen x + n) (Some (durable_len x)))
  | DFsync f => upd_file t f (fun x => mkF (fnm x) (flen x) (Some (flen x)))
  end.

Definition d_run (t : ftable) (prog : list dop) : ftable := fold_left d_exec prog t.

(* the protocol, by kind of step; hb is the base of the writing segment *)
Inductive dkind :=
| KAppend (sizes : list (Z * Z))     (* a batch: per message, the bytes appended to the log and to the index *)
| KSync                              (* writer.Sync: fsync log, fsync index *)
| KRoll (b : Z) (hl hi : Z).         (* rollover: writer.Sync of the old head, then the new head's two files *)

Definition sync_ops (hb : Z) : list dop := [DFsync (FLog hb); DFsync (FIdx hb)].

Definition kind_ops (hb : Z) (k : dkind) : list dop * Z :=
  match k with
  | KAppend sizes => (flat_map (fun s => [DWrite (FLog hb) (fst s); DWrite (FIdx hb) (snd s)]) sizes, hb)
  | KSync => (sync_ops hb, hb)
  | KRoll b hl hi => (sync_ops hb ++ [DCreate (FLog b) hl; DCreate (FIdx b) hi], b)
  end.

Fixpoint kinds_ops (hb : Z) (ks : list dkind) : list dop * Z :=
  match ks with
  | [] => ([], hb)
  | k :: r => let (o1, hb1) := kind_ops hb k in let (o2, hb2) := kinds_ops hb1 r in (o1 ++ o2, hb2)
  end.

(* what a power loss may leave of a table *)
Definition cut_ok (t t' : ftable) : Prop :=
  Forall2 (fun x y => fnm y = fnm x /\ durable_len x <= flen y <= flen x) t t'.

(* the steps of the API calls, from the L1 state *)
Definition publish_kinds (st : lstate) (ms : list msg) : list dkind :=
  match opened st with
  | None => []
  | Some c =>
    if cro c then []
    else match last_opt (segs st) with
         | None => []
         | Some hd =>
           let roll := needs_rollover c hd in
           let v := if roll then cnewver c else sver hd in
           (if roll then [KRoll (idx_next hd (head_items hd)) (hdr_size (cnewver c)) (hdr_size (cnewver c))] else [])
           ++ (if existsb msg_too_big ms then []
               else KAppend (map (fun m => (rec_size v m, item_size (cparams c))) ms)
                    :: (if cautosync c then [KSync] else []))
         end
  end.

Definition sync_kinds (st : lstate) : list dkind :=
  match opened st with
  | None => []
  | Some c => if cro c then [] else [KSync]
  end.

Definition head_base (st : lstate) : Z := match last_opt (segs st) with Some hd => sbase hd | None => 0 end.
