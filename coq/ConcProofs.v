(* ConcProofs.v — C08: every interleaving of the protocol of Conc.v is linearizable: an invariant preserved by
   every step ties the shared state to the replay of the linearization events against the sequential
   specification; every completed call returned what that specification gives at its linearization point, which
   lies between the call's first and last step by construction. *)
From KV Require Import Base Model ListAux SpecFacts SearchProofs SegProofs ReaderProofs Spec LogInv ConsumeProofs AbsFacts DeleteProofs.
From KV Require Import Conc.
From KV Require ScanProofs CompactProofs GetProofs.
From KV Require NotifyProofs.
From Coq Require Import ZifyBool ZifyNat.

Section ConcProofs.
Variable Q : Type.
Variable R : Type.
Variable qeval : Q -> list msg -> Z -> R.

Notation pc := (pc Q R).
Notation cstate := (cstate Q R).
Notation event := (event Q R).
Notation cstep := (cstep Q R qeval).
Notation spec_event := (spec_event Q R).
Notation event_ok := (event_ok Q R qeval).
Notation trace_ok := (trace_ok Q R qeval).
Notation replay := (replay Q R).

Definition in_P (p : pc) : Prop := match p with P1 _ | P2 _ | P3 _ => True | _ => False end.
Definition in_R (p : pc) : Prop := match p with R1 _ | RA _ _ _ | RB _ _ | R3 _ => True | _ => False end.
Definition in_D (p : pc) : Prop := match p with D1 _ | D2 _ _ | D3 _ _ _ | D4 _ _ _ _ | D5 _ => True | _ => False end.

Definition head_is_not (l : list cseg) (t : nat) : Prop := forall h, head_of l = Some h -> sid h <> t.

Definition tinv (s : cstate) (i : nat) (p : pc) : Prop :=
  match p with
  | RB q o => o = cabs (others_of (segs s))
  | RA q h n => In (EvRead i q (qeval q (cabs (others_of (segs s)) ++ h) n)) (trace s)
  | R3 r | RDone r => exists q, In (EvRead i q r) (trace s)
  | P3 ret | PDone ret => exists ms, In (EvPub i ms ret) (trace s)
  | D2 offs t => exists sg, find_seg (segs s) t = Some sg
  | D3 offs t ww => (exists sg, find_seg (segs s) t = Some sg) /\ (ww = false -> head_is_not (segs s) t)
  | D4 offs t ww snap =>
    exists sg more, find_seg (segs s) t = Some sg /\ crecs sg = snap ++ more /\
                    (ww = false -> head_is_not (segs s) t /\ more = [])
  | D5 res | DDone res => res = [] \/ exists offs, In (EvDel i offs res) (trace s)
  | _ => True
  end.

Definition CInv (s : cstate) : Prop :=
  segs s <> [] /\ NoDup (map sid (segs s)) /\ (forall sg, In sg (segs s) -> (sid sg < fresh s)%nat) /\
  inc (cabs (segs s)) /\ (forall m, In m (cabs (segs s)) -> moff m < nxt s) /\
  (forall j p, nth_error (thr s) j = Some p -> in_P p -> wmu s = Some j) /\
  (forall j p, nth_error (thr s) j = Some p -> in_D p -> dmu s = Some j) /\
  (forall j p, nth_error (thr s) j = Some p -> in_R p -> In j (rds s)) /\
  (forall j p, nth_error (thr s) j = Some p -> tinv s j p) /\
  replay (trace s) = (cabs (segs s), nxt s) /\ trace_ok ([], 0) (trace s).

(* ---------- lists *)

Lemma nth_lt {A} (l : list A) i x : nth_error l i = Some x -> (i < length l)%nat.
Proof. intros E. apply nth_error_Some. congruence. Qed.

Lemma segs_split (l : list cseg) : l <> [] -> exists h, head_of l = Some h /\ l = others_of l ++ [h].
Proof.
  intros Hne. destruct (@exists_last _ l Hne) as (pre & h & ->). exists h. unfold head_of, others_of.
  rewrite last_opt_app, removelast_last. split; reflexivity.
Qed.

Lemma cabs_app a b : cabs (a ++ b) = cabs a ++ cabs b.
Proof. unfold cabs. now rewrite map_app, concat_app. Qed.

Lemma cabs_one h : cabs [h] = crecs h.
Proof. unfold cabs. cbn. apply app_nil_r. Qed.

Lemma cabs_head l h : head_of l = Some h -> l <> [] -> cabs l = cabs (others_of l) ++ crecs h.
Proof.
  intros Hh Hne. destruct (segs_split l Hne) as (h' & Hh' & Hl). rewrite Hh in Hh'. injection Hh' as <-.
  rewrite Hl at 1. now rewrite cabs_app, cabs_one.
Qed.

Lemma replay_snoc tr e : replay (tr ++ [e]) = spec_event (replay tr) e.
Proof. unfold replay. now rewrite fold_left_app. Qed.

Lemma trace_ok_snoc tr e : forall st, trace_ok st (tr ++ [e]) <-> trace_ok st tr /\ event_ok (fold_left spec_event tr st) e.
Proof.
  induction tr as [|x tr IH]; intros st; cbn [app trace_ok fold_left].
  - tauto.
  - rewrite IH. tauto.
Qed.


Lemma nth_set_eq (l : list pc) i x : (i < length l)%nat -> nth_error (set_nth i l x) i = Some x.
Proof. apply NotifyProofs.nth_set_nth_eq. Qed.

Lemma nth_set_neq (l : list pc) i j x : i <> j -> nth_error (set_nth i l x) j = nth_error l j.
Proof. apply NotifyProofs.nth_set_nth_neq. Qed.

Lemma tinv_mono (s s' : cstate) j p :
  segs s' = segs s -> (forall e, In e (trace s) -> In e (trace s')) -> tinv s j p -> tinv s' j p.
Proof.
  intros Hs Ht. unfold tinv. rewrite Hs. destruct p; try tauto.
  - intros (ms0 & Hin). eauto.
  - intros (ms0 & Hin). eauto.
  - apply Ht.
  - intros (q0 & Hin). eauto.
  - intros (q0 & Hin). eauto.
  - intros [->|(o & Hin)]; [now left|right; eauto].
  - intros [->|(o & Hin)]; [now left|right; eauto].
Qed.

(* a step that changes only the stepping thread's pc, the lock holders and (by appending) the trace *)
Lemma step_local (s : cstate) i p0 p wm rd dm tr' :
  CInv s -> nth_error (thr s) i = Some p0 ->
  (forall e, In e (trace s) -> In e tr') -> replay tr' = (cabs (segs s), nxt s) -> trace_ok ([], 0) tr' ->
  (forall j q, j <> i -> nth_error (thr s) j = Some q ->
     (in_P q -> wm = Some j) /\ (in_D q -> dm = Some j) /\ (in_R q -> In j rd)) ->
  (in_P p -> wm = Some i) -> (in_D p -> dm = Some i) -> (in_R p -> In i rd) ->
  tinv (mkC (segs s) (nxt s) (fresh s) wm rd dm (set_nth i (thr s) p) tr') i p ->
  CInv (mkC (segs s) (nxt s) (fresh s) wm rd dm (set_nth i (thr s) p) tr').
Proof.
  intros (Hne & Hnd & Hfr & Hinc & Hlt & HP & HD & HR & HT & Hrep & Hok) Hi Htr Hrep' Hok' Hoth HPi HDi HRi Hti.
  pose proof (nth_lt _ _ _ Hi) as Hlen.
  unfold CInv. cbn [segs nxt fresh wmu rds dmu thr trace].
  split; [exact Hne|]. split; [exact Hnd|]. split; [exact Hfr|]. split; [exact Hinc|]. split; [exact Hlt|].
  assert (Hcase : forall j q, nth_error (set_nth i (thr s) p) j = Some q -> (j = i /\ q = p) \/ (j <> i /\ nth_error (thr s) j = Some q)).
  { intros j q E. destruct (Nat.eq_dec i j) as [<-|Hn].
    - rewrite nth_set_eq in E by exact Hlen. injection E as <-. now left.
    - rewrite nth_set_neq in E by exact Hn. right. split; [congruence|exact E]. }
  split; [|split; [|split; [|split]]].
  - intros j q E Hq. destruct (Hcase j q E) as [[-> ->]|[Hn E']]; [now apply HPi|]. now apply (Hoth j q Hn E').
  - intros j q E Hq. destruct (Hcase j q E) as [[-> ->]|[Hn E']]; [now apply HDi|]. now apply (Hoth j q Hn E').
  - intros j q E Hq. destruct (Hcase j q E) as [[-> ->]|[Hn E']]; [now apply HRi|]. now apply (Hoth j q Hn E').
  - intros j q E. destruct (Hcase j q E) as [[-> ->]|[Hn E']]; [exact Hti|].
    apply (tinv_mono s); [reflexivity|exact Htr|]. now apply HT.
  - split; assumption.
Qed.


Lemma others_locks (s : cstate) i : CInv s ->
  forall j q, j <> i -> nth_error (thr s) j = Some q ->
     (in_P q -> wmu s = Some j) /\ (in_D q -> dmu s = Some j) /\ (in_R q -> In j (rds s)).
Proof. intros (_ & _ & _ & _ & _ & HP & HD & HR & _) j q _ E. repeat split; eauto. Qed.

Lemma inc_assign n : forall ms, inc (assign n ms) /\ forall x, In x (assign n ms) -> n <= moff x < n + zlen ms.
Proof.
  intros ms. revert n. induction ms as [|m r IH]; intros n; [split; [exact I|intros x []]|].
  cbn [assign]. destruct (IH (n + 1)) as [Hi Hr]. rewrite zlen_cons. pose proof (zlen_nonneg r). split.
  - split; [|exact Hi]. intros x Hx. specialize (Hr x Hx). cbn [moff]. lia.
  - intros x [<-|Hx]; [cbn [moff]; lia|]. specialize (Hr x Hx). lia.
Qed.

Lemma find_seg_in (l : list cseg) t sg : find_seg l t = Some sg -> In sg l /\ sid sg = t.
Proof. unfold find_seg. intros E. apply find_some in E. destruct E as [Hin E]. split; [exact Hin|]. now apply Nat.eqb_eq. Qed.

Lemma find_seg_app_l (a b : list cseg) t sg : find_seg a t = Some sg -> find_seg (a ++ b) t = Some sg.
Proof. unfold find_seg. intros E. induction a as [|x a IH]; [discriminate|]. cbn in *. destruct (Nat.eqb (sid x) t); [exact E|now apply IH]. Qed.

Lemma find_seg_unique (l : list cseg) sg : NoDup (map sid l) -> In sg l -> find_seg l (sid sg) = Some sg.
Proof.
  unfold find_seg. induction l as [|x l IH]; intros Hnd Hin; [contradiction|]. cbn [find map] in *. inversion Hnd as [|? ? Hx Hnd']; subst.
  destruct Hin as [->|Hin]; [now rewrite Nat.eqb_refl|]. destruct (Nat.eqb (sid x) (sid sg)) eqn:E.
  - apply Nat.eqb_eq in E. exfalso. apply Hx. rewrite E. now apply in_map.
  - now apply IH.
Qed.

(* replacing the records of one segment: the other segments, the order and the identities stay *)
Lemma replace_seg_spec (l : list cseg) t recs de sg :
  NoDup (map sid l) -> find_seg l t = Some sg ->
  exists pre post, l = pre ++ sg :: post /\
    replace_seg l t recs de = pre ++ (if de && (match recs with [] => true | _ => false end) then [] else [mkCseg t recs]) ++ post.
Proof.
  unfold find_seg. induction l as [|x l IH]; intros Hnd E; [discriminate|]. cbn [find replace_seg map] in *.
  inversion Hnd as [|? ? Hx Hnd']; subst. destruct (Nat.eqb (sid x) t) eqn:Ex.
  - injection E as ->. exists [], l. split; [reflexivity|]. cbn [app]. destruct (de && _); reflexivity.
  - destruct (IH Hnd' E) as (pre & post & Hl & Hr). exists (x :: pre), post. split; [cbn; now rewrite Hl|]. cbn [app]. now rewrite Hr.
Qed.

Lemma inc_remove_by_offset (L pre mid post : list msg) (offs : list Z) :
  L = pre ++ mid ++ post -> inc L ->
  filter (fun m => negb (existsb (fun d => moff d =? moff m) (del_part offs mid))) L = pre ++ keep_part offs mid ++ post.
Proof.
  intros -> Hinc. destruct (ScanProofs.inc_app_inv _ _ Hinc) as (_ & Hi2 & Hc1). destruct (ScanProofs.inc_app_inv _ _ Hi2) as (Himid & _ & Hc2).
  rewrite !filter_app.
  assert (Hother : forall x, (In x pre \/ In x post) -> existsb (fun d => moff d =? moff x) (del_part offs mid) = false).
  { intros x Hx. destruct (existsb _ _) eqn:E; [|reflexivity]. exfalso. apply existsb_exists in E. destruct E as (d & Hd & Ed).
    unfold del_part in Hd. apply filter_In in Hd. destruct Hd as [Hd _]. destruct Hx as [Hx|Hx].
    - pose proof (Hc1 x d Hx ltac:(apply in_or_app; now left)). lia.
    - pose proof (Hc2 d x Hd Hx). lia. }
  rewrite (filter_all_true _ pre) by (intros x Hx; rewrite (Hother x (or_introl Hx)); reflexivity).
  rewrite (filter_all_true _ post) by (intros x Hx; rewrite (Hother x (or_intror Hx)); reflexivity).
  f_equal. f_equal. unfold keep_part. apply filter_ext_in. intros x Hx.
  destruct (zmem (moff x) offs) eqn:Ez; cbn [negb].
  - apply negb_false_iff. apply existsb_exists. exists x. split; [unfold del_part; apply filter_In; split; assumption|apply Z.eqb_refl].
  - apply negb_true_iff. destruct (existsb _ _) eqn:E; [|reflexivity]. exfalso. apply existsb_exists in E. destruct E as (d & Hd & Ed).
    unfold del_part in Hd. apply filter_In in Hd. destruct Hd as [Hd Hz].
    assert (d = x) by (apply (CompactProofs.inc_offset_inj mid); try assumption; lia). subst d. congruence.
Qed.


Lemma others_of_snoc (l : list cseg) x : others_of (l ++ [x]) = l.
Proof. unfold others_of. apply removelast_last. Qed.

Lemma head_of_snoc (l : list cseg) x : head_of (l ++ [x]) = Some x.
Proof. unfold head_of. apply last_opt_app. Qed.

Lemma find_seg_snoc_other (l : list cseg) x t : sid x <> t -> find_seg (l ++ [x]) t = find_seg l t.
Proof.
  intros Hn. unfold find_seg. induction l as [|y l IH]; cbn [app find].
  - destruct (Nat.eqb (sid x) t) eqn:E; [apply Nat.eqb_eq in E; congruence|reflexivity].
  - destruct (Nat.eqb (sid y) t); [reflexivity|exact IH].
Qed.

(* ---------- index.append: the batch becomes visible *)
Lemma step_publish (s : cstate) i ms h :
  CInv s -> nth_error (thr s) i = Some (P2 ms) -> head_of (segs s) = Some h ->
  CInv (mkC (with_head (segs s) (mkCseg (sid h) (crecs h ++ assign (nxt s) ms))) (nxt s + zlen ms) (fresh s) (wmu s) (rds s) (dmu s)
            (set_nth i (thr s) (P3 (nxt s + zlen ms))) (trace s ++ [EvPub i ms (nxt s + zlen ms)])).
Proof.
  intros HI Hi Hh. pose proof HI as (Hne & Hnd & Hfr & Hinc & Hlt & HP & HD & HR & HT & Hrep & Hok).
  pose proof (nth_lt _ _ _ Hi) as Hlen.
  destruct (segs_split (segs s) Hne) as (h' & Hh' & Hsp). rewrite Hh in Hh'. injection Hh' as <-.
  set (oth := others_of (segs s)) in *. set (h2 := mkCseg (sid h) (crecs h ++ assign (nxt s) ms)).
  assert (Hsegs' : with_head (segs s) h2 = oth ++ [h2]) by reflexivity.
  assert (Hcabs : cabs (oth ++ [h2]) = cabs (segs s) ++ assign (nxt s) ms).
  { rewrite Hsp. rewrite !cabs_app, !cabs_one. cbn [crecs h2]. now rewrite app_assoc. }
  destruct (inc_assign (nxt s) ms) as [Hia Hra]. pose proof (zlen_nonneg ms) as Hz.
  unfold CInv. cbn [segs nxt fresh wmu rds dmu thr trace]. rewrite Hsegs'.
  split; [destruct oth; discriminate|].
  assert (Hsids : map sid (oth ++ [h2]) = map sid (segs s)) by (rewrite Hsp; rewrite !map_app; reflexivity).
  split; [rewrite Hsids; exact Hnd|].
  split.
  { intros sg Hsg. apply in_app_or in Hsg. destruct Hsg as [Hsg|[<-|[]]].
    - apply Hfr. rewrite Hsp. apply in_or_app. now left.
    - cbn [sid h2]. apply Hfr. rewrite Hsp. apply in_or_app. right. now left. }
  split.
  { rewrite Hcabs. apply inc_app; [exact Hinc|exact Hia|]. intros x y Hx Hy. specialize (Hlt x Hx). specialize (Hra y Hy). lia. }
  split.
  { rewrite Hcabs. intros m Hm. apply in_app_or in Hm. destruct Hm as [Hm|Hm]; [specialize (Hlt m Hm); lia|specialize (Hra m Hm); lia]. }
  assert (Hcase : forall j q, nth_error (set_nth i (thr s) (P3 (nxt s + zlen ms))) j = Some q ->
                   (j = i /\ q = P3 (nxt s + zlen ms)) \/ (j <> i /\ nth_error (thr s) j = Some q)).
  { intros j q E. destruct (Nat.eq_dec i j) as [<-|Hn].
    - rewrite nth_set_eq in E by exact Hlen. injection E as <-. now left.
    - rewrite nth_set_neq in E by exact Hn. right. split; [congruence|exact E]. }
  split; [|split; [|split; [|split]]].
  - intros j q E Hq. destruct (Hcase j q E) as [[-> ->]|[Hn E']]; [apply (HP i (P2 ms) Hi I)|eauto].
  - intros j q E Hq. destruct (Hcase j q E) as [[-> ->]|[Hn E']]; [destruct Hq|eauto].
  - intros j q E Hq. destruct (Hcase j q E) as [[-> ->]|[Hn E']]; [destruct Hq|eauto].
  - intros j q E. destruct (Hcase j q E) as [[-> ->]|[Hn E']].
    + cbn [tinv trace]. exists ms. apply in_or_app. right. now left.
    + specialize (HT j q E'). unfold tinv in *. cbn [segs trace].
      assert (Hoth : others_of (oth ++ [h2]) = oth) by apply others_of_snoc.
      assert (Hfind : forall t sg, find_seg (segs s) t = Some sg ->
                exists sg', find_seg (oth ++ [h2]) t = Some sg' /\
                            ((sid h <> t /\ sg' = sg) \/ (sid h = t /\ sg = h /\ crecs sg' = crecs sg ++ assign (nxt s) ms))).
      { intros t sg Hf. destruct (Nat.eq_dec (sid h) t) as [Et|Et].
        - assert (Hsgh : sg = h).
          { destruct (find_seg_in _ _ _ Hf) as [Hin Hs]. assert (Hhin : In h (segs s)) by (rewrite Hsp; apply in_or_app; right; now left).
            pose proof (find_seg_unique (segs s) h Hnd Hhin) as Hu. rewrite Et, Hf in Hu. now injection Hu. }
          exists h2. split; [|right; split; [exact Et|split; [exact Hsgh|subst sg; reflexivity]]].
          assert (Hnot : find_seg oth t = None).
          { unfold find_seg. apply GetProofs.find_none_all. intros x Hx. apply Nat.eqb_neq. intro Hc.
            rewrite Hsp in Hnd. rewrite map_app in Hnd. apply NoDup_remove_2 in Hnd. cbn [map app] in Hnd. rewrite app_nil_r in Hnd.
            apply Hnd. rewrite Et, <- Hc. now apply in_map. }
          unfold find_seg in *. rewrite GetProofs.find_app, Hnot. cbn [find sid h2]. rewrite Et, Nat.eqb_refl. reflexivity.
        - exists sg. split; [|left; split; [exact Et|reflexivity]].
          rewrite find_seg_snoc_other by (cbn; exact Et). rewrite Hsp in Hf. rewrite find_seg_snoc_other in Hf by exact Et. exact Hf. }
      assert (Hhn : forall t, head_is_not (segs s) t -> head_is_not (oth ++ [h2]) t).
      { intros t Hn0 x Hx. rewrite head_of_snoc in Hx. injection Hx as <-. cbn [sid h2]. now apply Hn0. }
      destruct q; try exact HT; try (destruct HT as (z & Hz'); exists z; apply in_or_app; now left).
      * apply in_or_app. left. rewrite Hoth. exact HT.
      * rewrite Hoth. exact HT.
      * destruct HT as (sg & Hf). destruct (Hfind _ _ Hf) as (sg' & Hf' & _). eauto.
      * destruct HT as ((sg & Hf) & Hww). destruct (Hfind _ _ Hf) as (sg' & Hf' & _). split; [eauto|]. intros Ew. now apply Hhn, Hww.
      * destruct HT as (sg & more & Hf & Hc & Hww). destruct (Hfind _ _ Hf) as (sg' & Hf' & [[Hn' ->]|(Et & -> & Hc')]).
        -- exists sg, more. split; [exact Hf'|]. split; [exact Hc|]. intros Ew. destruct (Hww Ew) as [A B]. split; [now apply Hhn|exact B].
        -- exists sg', (more ++ assign (nxt s) ms). split; [exact Hf'|]. split; [rewrite Hc', Hc, app_assoc; reflexivity|].
           intros Ew. destruct (Hww Ew) as [A _]. exfalso. exact (A h Hh Et).
      * destruct HT as [->|(o & Ho)]; [now left|right; exists o; apply in_or_app; now left].
      * destruct HT as [->|(o & Ho)]; [now left|right; exists o; apply in_or_app; now left].
  - rewrite replay_snoc, Hrep. cbn [spec_event]. rewrite Hcabs. split; [reflexivity|].
    apply trace_ok_snoc. split; [exact Hok|]. fold (replay (trace s)). rewrite Hrep. cbn [event_ok]. reflexivity.
Qed.


Lemma NoDup_app_snoc {A} (l : list A) x : NoDup l -> ~ In x l -> NoDup (l ++ [x]).
Proof.
  intros Hnd Hx. induction Hnd as [|y l Hy Hnd IH]; [constructor; [intros []|constructor]|]. cbn [app]. constructor.
  - intro Hin. apply in_app_or in Hin. destruct Hin as [Hin|[->|[]]]; [contradiction|]. apply Hx. now left.
  - apply IH. intro Hc. apply Hx. now right.
Qed.

Lemma NoDup_app_intro {A} (a b : list A) : NoDup a -> NoDup b -> (forall x, In x a -> In x b -> False) -> NoDup (a ++ b).
Proof.
  intros Ha Hb Hd. induction Ha as [|x a Hx Ha IH]; [exact Hb|]. cbn [app]. constructor.
  - intro Hin. apply in_app_or in Hin. destruct Hin as [Hin|Hin]; [contradiction|]. apply (Hd x); [now left|exact Hin].
  - apply IH. intros y Hy1 Hy2. apply (Hd y); [now right|exact Hy2].
Qed.

Lemma NoDup_app_remove_r {A} (a b : list A) : NoDup (a ++ b) -> NoDup a.
Proof. induction a as [|x a IH]; intros Hn; [constructor|]. inversion Hn; subst. constructor; [intro Hc; apply H1; apply in_or_app; now left|now apply IH]. Qed.

(* ---------- rollover: the old head becomes a reader, a fresh empty segment takes over *)
Lemma step_roll (s : cstate) i ms :
  CInv s -> nth_error (thr s) i = Some (P1 ms) -> rds s = [] ->
  CInv (mkC (segs s ++ [mkCseg (fresh s) []]) (nxt s) (S (fresh s)) (wmu s) (rds s) (dmu s) (set_nth i (thr s) (P2 ms)) (trace s)).
Proof.
  intros HI Hi Hrd. pose proof HI as (Hne & Hnd & Hfr & Hinc & Hlt & HP & HD & HR & HT & Hrep & Hok).
  pose proof (nth_lt _ _ _ Hi) as Hlen.
  assert (Hcabs : cabs (segs s ++ [mkCseg (fresh s) []]) = cabs (segs s)) by (rewrite cabs_app, cabs_one; apply app_nil_r).
  unfold CInv. cbn [segs nxt fresh wmu rds dmu thr trace]. rewrite Hcabs.
  split; [destruct (segs s); discriminate|].
  split.
  { rewrite map_app. cbn [map sid]. apply NoDup_app_snoc; [exact Hnd|]. intro Hin. apply in_map_iff in Hin. destruct Hin as (x & Ex & Hx).
    specialize (Hfr x Hx). lia. }
  split.
  { intros sg Hsg. apply in_app_or in Hsg. destruct Hsg as [Hsg|[<-|[]]]; [specialize (Hfr sg Hsg); lia|cbn; lia]. }
  split; [exact Hinc|]. split; [exact Hlt|].
  assert (Hcase : forall j q, nth_error (set_nth i (thr s) (P2 ms)) j = Some q ->
                   (j = i /\ q = P2 ms) \/ (j <> i /\ nth_error (thr s) j = Some q)).
  { intros j q E. destruct (Nat.eq_dec i j) as [<-|Hn].
    - rewrite nth_set_eq in E by exact Hlen. injection E as <-. now left.
    - rewrite nth_set_neq in E by exact Hn. right. split; [congruence|exact E]. }
  split; [|split; [|split; [|split]]].
  - intros j q E Hq. destruct (Hcase j q E) as [[-> ->]|[Hn E']]; [apply (HP i (P1 ms) Hi I)|eauto].
  - intros j q E Hq. destruct (Hcase j q E) as [[-> ->]|[Hn E']]; [destruct Hq|eauto].
  - intros j q E Hq. destruct (Hcase j q E) as [[-> ->]|[Hn E']]; [destruct Hq|eauto].
  - intros j q E. destruct (Hcase j q E) as [[-> ->]|[Hn E']]; [exact I|].
    specialize (HT j q E'). unfold tinv in *. cbn [segs trace].
    assert (Hnr : ~ in_R q) by (intro Hq; specialize (HR j q E' Hq); rewrite Hrd in HR; contradiction).
    assert (Hfind : forall t sg, find_seg (segs s) t = Some sg -> find_seg (segs s ++ [mkCseg (fresh s) []]) t = Some sg /\
                                 head_is_not (segs s ++ [mkCseg (fresh s) []]) t).
    { intros t sg Hf. split; [now apply find_seg_app_l|]. intros x Hx. rewrite head_of_snoc in Hx. injection Hx as <-. cbn [sid].
      destruct (find_seg_in _ _ _ Hf) as [Hin <-]. specialize (Hfr sg Hin). lia. }
    destruct q; try exact HT; try (exfalso; apply Hnr; exact I).
    + destruct HT as (sg & Hf). exists sg. now apply Hfind.
    + destruct HT as ((sg & Hf) & Hww). split; [exists sg; now apply Hfind|]. intros _. now apply (Hfind _ sg).
    + destruct HT as (sg & more & Hf & Hc & Hww). exists sg, more. split; [now apply Hfind|]. split; [exact Hc|].
      intros Ew. destruct (Hww Ew) as [_ B]. split; [now apply (Hfind _ sg)|exact B].
  - split; assumption.
Qed.

(* ---------- the swap of Delete, for the writing segment and for a reader segment *)
Lemma step_swap (s : cstate) i offs t ww snap de sg :
  CInv s -> nth_error (thr s) i = Some (D4 offs t ww snap) -> rds s = [] ->
  find_seg (segs s) t = Some sg -> crecs sg = snap ->
  (de = true -> head_is_not (segs s) t) ->
  CInv (mkC (replace_seg (segs s) t (keep_part offs snap) de) (nxt s) (fresh s) (wmu s) (rds s) (dmu s)
            (set_nth i (thr s) (D5 (del_part offs snap))) (trace s ++ [EvDel i offs (del_part offs snap)])).
Proof.
  intros HI Hi Hrd Hf Hsnap Hde. pose proof HI as (Hne & Hnd & Hfr & Hinc & Hlt & HP & HD & HR & HT & Hrep & Hok).
  pose proof (nth_lt _ _ _ Hi) as Hlen.
  destruct (replace_seg_spec (segs s) t (keep_part offs snap) de sg Hnd Hf) as (pre & post & Hsp & Hrs).
  destruct (find_seg_in _ _ _ Hf) as [Hsgin Hsid].
  set (X := if de && match keep_part offs snap with [] => true | _ => false end then [] else [mkCseg t (keep_part offs snap)]) in *.
  assert (HX : cabs X = keep_part offs snap).
  { unfold X. destruct de; cbn [andb]; [|apply cabs_one]. destruct (keep_part offs snap) eqn:Ek; [reflexivity|]. rewrite <- Ek. apply cabs_one. }
  assert (Hcabs_old : cabs (segs s) = cabs pre ++ snap ++ cabs post).
  { rewrite Hsp. change (sg :: post) with ([sg] ++ post). rewrite !cabs_app, cabs_one, Hsnap. reflexivity. }
  assert (Hcabs : cabs (pre ++ X ++ post) =
                  filter (fun m => negb (existsb (fun d => moff d =? moff m) (del_part offs snap))) (cabs (segs s))).
  { rewrite !cabs_app, HX. symmetry. apply (inc_remove_by_offset (cabs (segs s)) (cabs pre) snap (cabs post) offs Hcabs_old Hinc). }
  unfold CInv. cbn [segs nxt fresh wmu rds dmu thr trace]. rewrite Hrs.
  split.
  { (* the list stays non-empty *)
    unfold X. destruct de; cbn [andb].
    - destruct post as [|p1 pr]; [|destruct pre; destruct (match keep_part offs snap with [] => true | _ => false end); discriminate].
      exfalso. apply (Hde eq_refl sg); [|exact Hsid]. rewrite Hsp. unfold head_of. apply last_opt_app.
    - destruct pre; discriminate. }
  assert (Hsub : forall x, In x (pre ++ X ++ post) -> In (sid x) (map sid (segs s))).
  { intros x Hx. rewrite Hsp, map_app. cbn [map]. apply in_app_or in Hx. destruct Hx as [Hx|Hx]; [apply in_or_app; left; now apply in_map|].
    apply in_app_or in Hx. destruct Hx as [Hx|Hx]; [|apply in_or_app; right; right; now apply in_map].
    unfold X in Hx. destruct (de && _); [contradiction|]. destruct Hx as [<-|[]]. cbn [sid]. apply in_or_app. right. left. exact Hsid. }
  split.
  { rewrite Hsp, map_app in Hnd. cbn [map] in Hnd. rewrite !map_app.
    assert (HndX : NoDup (map sid pre ++ map sid X ++ map sid post)).
    { unfold X. destruct (de && _); cbn [map app].
      - now apply NoDup_remove_1 in Hnd.
      - rewrite Hsid in Hnd. exact Hnd. }
    exact HndX. }
  split.
  { intros x Hx. specialize (Hsub x Hx). apply in_map_iff in Hsub. destruct Hsub as (y & Ey & Hy). rewrite <- Ey. now apply Hfr. }
  split; [rewrite Hcabs; now apply inc_filter|].
  split; [rewrite Hcabs; intros m Hm; apply filter_In in Hm; apply Hlt; tauto|].
  assert (Hcase : forall j q, nth_error (set_nth i (thr s) (D5 (del_part offs snap))) j = Some q ->
                   (j = i /\ q = D5 (del_part offs snap)) \/ (j <> i /\ nth_error (thr s) j = Some q)).
  { intros j q E. destruct (Nat.eq_dec i j) as [<-|Hn].
    - rewrite nth_set_eq in E by exact Hlen. injection E as <-. now left.
    - rewrite nth_set_neq in E by exact Hn. right. split; [congruence|exact E]. }
  split; [|split; [|split; [|split]]].
  - intros j q E Hq. destruct (Hcase j q E) as [[-> ->]|[Hn E']]; [destruct Hq|eauto].
  - intros j q E Hq. destruct (Hcase j q E) as [[-> ->]|[Hn E']]; [apply (HD i _ Hi I)|eauto].
  - intros j q E Hq. destruct (Hcase j q E) as [[-> ->]|[Hn E']]; [destruct Hq|eauto].
  - intros j q E. destruct (Hcase j q E) as [[-> ->]|[Hn E']].
    + cbn [tinv trace]. right. exists offs. apply in_or_app. right. now left.
    + specialize (HT j q E'). unfold tinv in *. cbn [segs trace].
      assert (Hnr : ~ in_R q) by (intro Hq; specialize (HR j q E' Hq); rewrite Hrd in HR; contradiction).
      assert (Hnd' : ~ in_D q).
      { intro Hq. pose proof (HD j q E' Hq) as H1. pose proof (HD i _ Hi I) as H2. rewrite H1 in H2. injection H2 as ->. congruence. }
      destruct q; try exact HT; try (exfalso; apply Hnr; exact I); try (exfalso; apply Hnd'; exact I);
        try (destruct HT as (z & Hz'); exists z; apply in_or_app; now left).
      destruct HT as [->|(o & Ho)]; [now left|right; exists o; apply in_or_app; now left].
  - rewrite replay_snoc, Hrep. cbn [spec_event]. rewrite Hcabs. split; [reflexivity|].
    apply trace_ok_snoc. split; [exact Hok|]. fold (replay (trace s)). rewrite Hrep. cbn [event_ok].
    intros d Hd. unfold del_part in Hd. apply filter_In in Hd. destruct Hd as [Hd Hz]. split; [|now apply CompactProofs.zmem_in].
    rewrite Hcabs_old. apply in_or_app. right. apply in_or_app. now left.
Qed.


(* the swap of Delete in the writing segment (writer.Delete) *)
Lemma step_swap_head (s : cstate) i offs t ww snap hd :
  CInv s -> nth_error (thr s) i = Some (D4 offs t ww snap) -> rds s = [] ->
  head_of (segs s) = Some hd -> sid hd = t -> crecs hd = snap ->
  CInv (mkC (head_swap (segs s) t (keep_part offs snap) (tail_deleted offs snap) (fresh s)) (nxt s) (S (fresh s)) (wmu s) (rds s) (dmu s)
            (set_nth i (thr s) (D5 (del_part offs snap))) (trace s ++ [EvDel i offs (del_part offs snap)])).
Proof.
  intros HI Hi Hrd Hhd Hsid Hsnap. pose proof HI as (Hne & Hnd & Hfr & Hinc & Hlt & HP & HD & HR & HT & Hrep & Hok).
  pose proof (nth_lt _ _ _ Hi) as Hlen.
  destruct (segs_split (segs s) Hne) as (h' & Hh' & Hsp). rewrite Hhd in Hh'. injection Hh' as <-.
  set (oth := others_of (segs s)) in *. set (keep := keep_part offs snap).
  set (X := match keep with [] => [mkCseg (fresh s) []] | _ => if tail_deleted offs snap then [mkCseg t keep; mkCseg (fresh s) []] else [mkCseg t keep] end).
  assert (Hsw : head_swap (segs s) t keep (tail_deleted offs snap) (fresh s) = oth ++ X) by reflexivity.
  assert (HX : cabs X = keep).
  { unfold X. destruct keep eqn:Ek; [reflexivity|]. rewrite <- Ek. destruct (tail_deleted offs snap); unfold cabs; cbn; now rewrite ?app_nil_r. }
  assert (Hcabs_old : cabs (segs s) = cabs oth ++ snap ++ []) by (rewrite Hsp, cabs_app, cabs_one, Hsnap, app_nil_r; reflexivity).
  assert (Hcabs : cabs (oth ++ X) = filter (fun m => negb (existsb (fun d => moff d =? moff m) (del_part offs snap))) (cabs (segs s))).
  { rewrite cabs_app, HX. rewrite (inc_remove_by_offset (cabs (segs s)) (cabs oth) snap [] offs Hcabs_old Hinc). now rewrite app_nil_r. }
  assert (HXsid : forall x, In x X -> sid x = t \/ sid x = fresh s).
  { unfold X. intros x Hx. destruct keep; [destruct Hx as [<-|[]]; now right|].
    destruct (tail_deleted offs snap); [destruct Hx as [<-|[<-|[]]]; [now left|now right]|destruct Hx as [<-|[]]; now left]. }
  assert (Hoth_sid : forall x, In x oth -> (sid x < fresh s)%nat /\ sid x <> t).
  { intros x Hx. split; [apply Hfr; rewrite Hsp; apply in_or_app; now left|].
    intro Hc. rewrite Hsp, map_app in Hnd. cbn [map] in Hnd. apply NoDup_remove_2 in Hnd. rewrite app_nil_r in Hnd. apply Hnd.
    rewrite Hsid, <- Hc. now apply in_map. }
  assert (Ht_lt : (t < fresh s)%nat) by (rewrite <- Hsid; apply Hfr; rewrite Hsp; apply in_or_app; right; now left).
  unfold CInv. cbn [segs nxt fresh wmu rds dmu thr trace]. rewrite Hsw.
  split; [unfold X; destruct oth; destruct keep; try destruct (tail_deleted offs snap); discriminate|].
  split.
  { rewrite map_app. apply NoDup_app_intro.
    - rewrite Hsp, map_app in Hnd. now apply NoDup_app_remove_r in Hnd.
    - unfold X. destruct keep; [cbn; constructor; [intros []|constructor]|].
      destruct (tail_deleted offs snap); cbn [map sid]; [constructor; [intros [Hc|[]]; lia|constructor; [intros []|constructor]]|constructor; [intros []|constructor]].
    - intros y Hy1 Hy2. apply in_map_iff in Hy1. destruct Hy1 as (x1 & <- & Hx1). apply in_map_iff in Hy2. destruct Hy2 as (x2 & E2 & Hx2).
      destruct (Hoth_sid x1 Hx1) as [A B]. destruct (HXsid x2 Hx2) as [C|C]; rewrite C in E2; [congruence|lia]. }
  split.
  { intros x Hx. apply in_app_or in Hx. destruct Hx as [Hx|Hx]; [destruct (Hoth_sid x Hx); lia|]. destruct (HXsid x Hx) as [->| ->]; lia. }
  split; [rewrite Hcabs; now apply inc_filter|].
  split; [rewrite Hcabs; intros m Hm; apply filter_In in Hm; apply Hlt; tauto|].
  assert (Hcase : forall j q, nth_error (set_nth i (thr s) (D5 (del_part offs snap))) j = Some q ->
                   (j = i /\ q = D5 (del_part offs snap)) \/ (j <> i /\ nth_error (thr s) j = Some q)).
  { intros j q E. destruct (Nat.eq_dec i j) as [<-|Hn].
    - rewrite nth_set_eq in E by exact Hlen. injection E as <-. now left.
    - rewrite nth_set_neq in E by exact Hn. right. split; [congruence|exact E]. }
  split; [|split; [|split; [|split]]].
  - intros j q E Hq. destruct (Hcase j q E) as [[-> ->]|[Hn E']]; [destruct Hq|eauto].
  - intros j q E Hq. destruct (Hcase j q E) as [[-> ->]|[Hn E']]; [apply (HD i _ Hi I)|eauto].
  - intros j q E Hq. destruct (Hcase j q E) as [[-> ->]|[Hn E']]; [destruct Hq|eauto].
  - intros j q E. destruct (Hcase j q E) as [[-> ->]|[Hn E']].
    + cbn [tinv trace]. right. exists offs. apply in_or_app. right. now left.
    + specialize (HT j q E'). unfold tinv in *. cbn [segs trace].
      assert (Hnr : ~ in_R q) by (intro Hq; specialize (HR j q E' Hq); rewrite Hrd in HR; contradiction).
      assert (Hnd' : ~ in_D q).
      { intro Hq. pose proof (HD j q E' Hq) as H1. pose proof (HD i _ Hi I) as H2. rewrite H1 in H2. injection H2 as ->. congruence. }
      destruct q; try exact HT; try (exfalso; apply Hnr; exact I); try (exfalso; apply Hnd'; exact I);
        try (destruct HT as (z & Hz'); exists z; apply in_or_app; now left).
      destruct HT as [->|(o & Ho)]; [now left|right; exists o; apply in_or_app; now left].
  - rewrite replay_snoc, Hrep. cbn [spec_event]. rewrite Hcabs. split; [reflexivity|].
    apply trace_ok_snoc. split; [exact Hok|]. fold (replay (trace s)). rewrite Hrep. cbn [event_ok].
    intros d Hd. unfold del_part in Hd. apply filter_In in Hd. destruct Hd as [Hd Hz]. split; [|now apply CompactProofs.zmem_in].
    rewrite Hcabs_old. apply in_or_app. right. apply in_or_app. now left.
Qed.

Lemma target_found (l : list cseg) offs guess t : target_of l offs guess = Some t -> exists sg, find_seg l t = Some sg.
Proof.
  unfold target_of. destruct offs as [|o r]; [discriminate|]. destruct (zmin_list (o :: r) <? 0); [discriminate|].
  assert (Hin : forall sg, In sg l -> exists sg', find_seg l (sid sg) = Some sg').
  { intros sg Hin. unfold find_seg. destruct (find (fun s0 => Nat.eqb (sid s0) (sid sg)) l) eqn:E; [eauto|].
    exfalso. pose proof (find_none _ _ E sg Hin) as Hn. cbn in Hn. rewrite Nat.eqb_refl in Hn. discriminate. }
  destruct (find (holds (zmin_list (o :: r))) l) as [sg|] eqn:Ef.
  - intros E. injection E as <-. apply find_some in Ef. destruct Ef as [Hsg _]. now apply Hin.
  - destruct (nth_error l guess) as [sg|] eqn:En; [|discriminate]. intros E. injection E as <-. apply nth_error_In in En. now apply Hin.
Qed.

(* ---------- every step preserves the invariant *)
Ltac no_ev Hself Hrep Hok := [> exact Hself | exact Hrep | exact Hok | .. ].

Theorem cstep_inv (s s' : cstate) a : CInv s -> cstep s a = Some s' -> CInv s'.
Proof.
  intros HI E. pose proof HI as (Hne & Hnd & Hfr & Hinc & Hlt & HP & HD & HR & HT & Hrep & Hok).
  destruct (segs_split (segs s) Hne) as (hd & Hhd & Hsp).
  assert (Hself : forall e, In e (trace s) -> In e (trace s)) by auto.
  destruct a as [i|i|i|i|i guess]; cbn [Conc.cstep] in E.
  - destruct (nth_error (thr s) i) as [p0|] eqn:Hi; [|discriminate].
    pose proof (others_locks s i HI) as Hoth. pose proof (HT i p0 Hi) as Hti.
    destruct p0; try discriminate.
    + (* P0 *) destruct (holder_free (wmu s)) eqn:Ew; [|discriminate]. injection E as <-.
      assert (Ew' : wmu s = None) by (destruct (wmu s); [discriminate|reflexivity]).
      apply (step_local s i _ (P1 ms) (Some i) (rds s) (dmu s) (trace s) HI Hi Hself Hrep Hok).
      * intros j q Hn Ej. destruct (Hoth j q Hn Ej) as (A & B & C). split; [intros Hq; specialize (A Hq); congruence|split; assumption].
      * reflexivity.
      * intros [].
      * intros [].
      * exact I.
    + (* P1, no rollover *) injection E as <-. unfold upd.
      apply (step_local s i _ (P2 ms) (wmu s) (rds s) (dmu s) (trace s) HI Hi Hself Hrep Hok Hoth).
      * intros _. apply (HP i _ Hi I).
      * intros [].
      * intros [].
      * exact I.
    + (* P2 *) rewrite Hhd in E. injection E as <-. now apply step_publish.
    + (* P3 *) injection E as <-.
      apply (step_local s i _ (PDone ret) None (rds s) (dmu s) (trace s) HI Hi Hself Hrep Hok).
      * intros j q Hn Ej. destruct (Hoth j q Hn Ej) as (A & B & C). split; [|split; assumption].
        intros Hq. specialize (A Hq). pose proof (HP i _ Hi I). congruence.
      * intros [].
      * intros [].
      * intros [].
      * exact Hti.
    + (* R0 *) injection E as <-.
      apply (step_local s i _ (R1 q) (wmu s) (i :: rds s) (dmu s) (trace s) HI Hi Hself Hrep Hok).
      * intros j q0 Hn Ej. destruct (Hoth j q0 Hn Ej) as (A & B & C). split; [exact A|split; [exact B|]]. intros Hq. right. now apply C.
      * intros [].
      * intros [].
      * intros _. now left.
      * exact I.
    + (* RA: read the other segments, compute the result *) injection E as <-. unfold upd.
      apply (step_local s i _ (R3 _) (wmu s) (rds s) (dmu s) (trace s) HI Hi Hself Hrep Hok Hoth).
      * intros [].
      * intros [].
      * intros _. apply (HR i _ Hi I).
      * cbn [tinv trace]. exists q. exact Hti.
    + (* RB: read the writing segment: the linearization point *) rewrite Hhd in E. injection E as <-.
      apply (step_local s i _ (R3 _) (wmu s) (rds s) (dmu s) _ HI Hi).
      * intros e He. apply in_or_app. now left.
      * rewrite replay_snoc, Hrep. reflexivity.
      * apply trace_ok_snoc. split; [exact Hok|]. fold (replay (trace s)). rewrite Hrep. reflexivity.
      * exact Hoth.
      * intros [].
      * intros [].
      * intros _. apply (HR i _ Hi I).
      * cbn [tinv trace]. exists q. apply in_or_app. right. left. f_equal. f_equal.
        cbn [tinv] in Hti. rewrite Hti. now apply cabs_head.
    + (* R3 *) injection E as <-.
      apply (step_local s i _ (RDone r) (wmu s) _ (dmu s) (trace s) HI Hi Hself Hrep Hok).
      * intros j q0 Hn Ej. destruct (Hoth j q0 Hn Ej) as (A & B & C). split; [exact A|split; [exact B|]]. intros Hq.
        apply filter_In. split; [now apply C|]. apply negb_true_iff. now apply Nat.eqb_neq.
      * intros [].
      * intros [].
      * intros [].
      * exact Hti.
    + (* D0 *) destruct (holder_free (dmu s)) eqn:Ed; [|discriminate]. injection E as <-.
      assert (Ed' : dmu s = None) by (destruct (dmu s); [discriminate|reflexivity]).
      apply (step_local s i _ (D1 offs) (wmu s) (rds s) (Some i) (trace s) HI Hi Hself Hrep Hok).
      * intros j q Hn Ej. destruct (Hoth j q Hn Ej) as (A & B & C). split; [exact A|split; [|exact C]]. intros Hq. specialize (B Hq). congruence.
      * intros [].
      * reflexivity.
      * intros [].
      * exact I.
    + (* D2 *) destruct (holder_free (wmu s)); [|discriminate]. rewrite Hhd in E. injection E as <-. unfold upd.
      apply (step_local s i _ (D3 offs t _) (wmu s) (rds s) (dmu s) (trace s) HI Hi Hself Hrep Hok Hoth).
      * intros [].
      * intros _. apply (HD i _ Hi I).
      * intros [].
      * cbn [tinv segs]. split; [exact Hti|]. intros Ew h' Hh'. rewrite Hhd in Hh'. injection Hh' as <-. now apply Nat.eqb_neq.
    + (* D3: Rewrite reads the segment *) cbn [tinv] in Hti. destruct Hti as ((sg & Hf) & Hww). rewrite Hf in E.
      destruct (del_part offs (crecs sg)) eqn:Edel; injection E as <-; unfold upd.
      * apply (step_local s i _ (D5 []) (wmu s) (rds s) (dmu s) (trace s) HI Hi Hself Hrep Hok Hoth).
        -- intros [].
        -- intros _. apply (HD i _ Hi I).
        -- intros [].
        -- cbn [tinv]. now left.
      * apply (step_local s i _ (D4 offs t ww (crecs sg)) (wmu s) (rds s) (dmu s) (trace s) HI Hi Hself Hrep Hok Hoth).
        -- intros [].
        -- intros _. apply (HD i _ Hi I).
        -- intros [].
        -- cbn [tinv segs]. exists sg, []. split; [exact Hf|]. split; [now rewrite app_nil_r|]. intros Ew. split; [now apply Hww|reflexivity].
    + (* D4: take the locks again *) destruct (holder_free (wmu s)); [|discriminate]. rewrite Hhd in E.
      cbn [tinv] in Hti. destruct Hti as (sg & more & Hf & Hc & Hww).
      destruct (Nat.eqb (sid hd) t) eqn:Et.
      * (* still the writing segment *)
        apply Nat.eqb_eq in Et. destruct (rds s) eqn:Erd; [|discriminate].
        assert (Hsg : sg = hd).
        { assert (Hin : In hd (segs s)) by (rewrite Hsp; apply in_or_app; right; now left).
          pose proof (find_seg_unique (segs s) hd Hnd Hin) as Hu. rewrite Et, Hf in Hu. now injection Hu. }
        subst sg. destruct (Nat.eqb (length snap) (length (crecs hd))) eqn:El.
        -- apply Nat.eqb_eq in El. injection E as <-.
           assert (Hmore : more = []) by (rewrite Hc, app_length in El; destruct more; [reflexivity|cbn in El; lia]).
           assert (Hsw := step_swap_head s i offs t ww snap hd HI Hi Erd Hhd Et ltac:(rewrite Hc, Hmore; apply app_nil_r)).
           rewrite Erd in Hsw. exact Hsw.
        -- injection E as <-. unfold upd. rewrite Erd.
           apply (step_local s i _ (D5 []) (wmu s) [] (dmu s) (trace s) HI Hi Hself Hrep Hok Hoth).
           ++ intros [].
           ++ intros _. apply (HD i _ Hi I).
           ++ intros [].
           ++ cbn [tinv]. now left.
      * destruct ww.
        -- (* it was the writing segment and was rolled over: retry *) injection E as <-. unfold upd.
           apply (step_local s i _ (D1 offs) (wmu s) (rds s) (dmu s) (trace s) HI Hi Hself Hrep Hok Hoth).
           ++ intros [].
           ++ intros _. apply (HD i _ Hi I).
           ++ intros [].
           ++ exact I.
        -- destruct (rds s) eqn:Erd; [|discriminate]. injection E as <-. destruct (Hww eq_refl) as [Hnh Hmore].
           assert (Hsw := step_swap s i offs t false snap true sg HI Hi Erd Hf ltac:(rewrite Hc, Hmore; apply app_nil_r) ltac:(intros _; exact Hnh)).
           rewrite Erd in Hsw. exact Hsw.
    + (* D5 *) injection E as <-.
      apply (step_local s i _ (DDone res) (wmu s) (rds s) None (trace s) HI Hi Hself Hrep Hok).
      * intros j q Hn Ej. destruct (Hoth j q Hn Ej) as (A & B & C). split; [exact A|split; [|exact C]].
        intros Hq. specialize (B Hq). pose proof (HD i _ Hi I). congruence.
      * intros [].
      * intros [].
      * intros [].
      * exact Hti.
  - (* Roll *) destruct (nth_error (thr s) i) as [p0|] eqn:Hi; [|discriminate]. destruct p0; try discriminate.
    destruct (rds s) eqn:Erd; [|discriminate]. injection E as <-. assert (Hsr := step_roll s i ms HI Hi Erd). rewrite Erd in Hsr. exact Hsr.
  - (* HeadFirst: the linearization point of the read *)
    destruct (nth_error (thr s) i) as [p0|] eqn:Hi; [|discriminate]. destruct p0; try discriminate. rewrite Hhd in E. injection E as <-.
    apply (step_local s i _ (RA q (crecs hd) (nxt s)) (wmu s) (rds s) (dmu s) _ HI Hi).
    + intros e He. apply in_or_app. now left.
    + rewrite replay_snoc, Hrep. reflexivity.
    + apply trace_ok_snoc. split; [exact Hok|]. fold (replay (trace s)). rewrite Hrep. reflexivity.
    + apply (others_locks s i HI).
    + intros [].
    + intros [].
    + intros _. apply (HR i _ Hi I).
    + cbn [tinv trace segs]. apply in_or_app. right. left. f_equal. f_equal. now apply cabs_head.
  - (* OthersFirst *)
    destruct (nth_error (thr s) i) as [p0|] eqn:Hi; [|discriminate]. destruct p0; try discriminate. injection E as <-. unfold upd.
    apply (step_local s i _ (RB q _) (wmu s) (rds s) (dmu s) (trace s) HI Hi Hself Hrep Hok (others_locks s i HI)).
    + intros [].
    + intros [].
    + intros _. apply (HR i _ Hi I).
    + reflexivity.
  - (* Find *)
    destruct (nth_error (thr s) i) as [p0|] eqn:Hi; [|discriminate]. destruct p0; try discriminate.
    destruct (target_of (segs s) offs guess) as [t|] eqn:Etg; injection E as <-; unfold upd.
    + apply (step_local s i _ (D2 offs t) (wmu s) (rds s) (dmu s) (trace s) HI Hi Hself Hrep Hok (others_locks s i HI)).
      * intros [].
      * intros _. apply (HD i _ Hi I).
      * intros [].
      * cbn [tinv segs]. eapply target_found; eauto.
    + apply (step_local s i _ (D5 []) (wmu s) (rds s) (dmu s) (trace s) HI Hi Hself Hrep Hok (others_locks s i HI)).
      * intros [].
      * intros _. apply (HD i _ Hi I).
      * intros [].
      * cbn [tinv]. now left.
Qed.


(* ---------- all reachable states *)

Definition initial (p : pc) : Prop := match p with Idle | P0 _ | R0 _ | D0 _ => True | _ => False end.

Lemma cinit_inv ts : Forall initial ts -> CInv (cinit Q R ts).
Proof.
  intros Hall. unfold CInv, cinit. cbn [segs nxt fresh wmu rds dmu thr trace].
  split; [discriminate|]. split; [cbn; constructor; [intros []|constructor]|]. split; [intros sg [<-|[]]; cbn; lia|].
  split; [exact I|]. split; [intros m []|].
  assert (Hin : forall j p, nth_error ts j = Some p -> initial p).
  { intros j p E. rewrite Forall_forall in Hall. apply Hall. eapply nth_error_In; eauto. }
  split; [intros j p E Hp; specialize (Hin j p E); destruct p; try contradiction|].
  split; [intros j p E Hp; specialize (Hin j p E); destruct p; try contradiction|].
  split; [intros j p E Hp; specialize (Hin j p E); destruct p; try contradiction|].
  split; [intros j p E; specialize (Hin j p E); destruct p; try contradiction; exact I|].
  split; [reflexivity|exact I].
Qed.

Theorem creach_inv ts s : Forall initial ts -> creach Q R qeval (cinit Q R ts) s -> CInv s.
Proof.
  intros Hall Hr. induction Hr as [|s1 a s2 Hr IH Hs]; [now apply cinit_inv|]. eapply cstep_inv; eauto.
Qed.

Lemma trace_ok_in tr : forall st e, trace_ok st tr -> In e tr ->
  exists tr1 tr2, tr = tr1 ++ e :: tr2 /\ event_ok (fold_left spec_event tr1 st) e.
Proof.
  induction tr as [|x tr IH]; intros st e Hok Hin; [contradiction|]. destruct Hok as [Hx Hok]. destruct Hin as [->|Hin].
  - exists [], tr. split; [reflexivity|exact Hx].
  - destruct (IH _ e Hok Hin) as (t1 & t2 & -> & He). exists (x :: t1), t2. split; [reflexivity|exact He].
Qed.

(* Linearizability: in every reachable state of every interleaving, the linearization events - each appended by
   a step of the call itself, between its first and its last step - replayed in order against the sequential
   specification are all allowed by it, and the replay ends in exactly the shared state *)
Theorem linearizable ts s :
  Forall initial ts -> creach Q R qeval (cinit Q R ts) s ->
  trace_ok ([], 0) (trace s) /\ replay (trace s) = (cabs (segs s), nxt s).
Proof. intros Hall Hr. destruct (creach_inv ts s Hall Hr) as (_ & _ & _ & _ & _ & _ & _ & _ & _ & Hrep & Hok). split; assumption. Qed.

(* a completed read returned what the sequential specification gives in the state at its linearization point *)
Theorem read_returns_spec ts s i r :
  Forall initial ts -> creach Q R qeval (cinit Q R ts) s -> nth_error (thr s) i = Some (RDone r) ->
  exists q tr1 tr2, trace s = tr1 ++ EvRead i q r :: tr2 /\ r = qeval q (fst (replay tr1)) (snd (replay tr1)).
Proof.
  intros Hall Hr Hi. pose proof (creach_inv ts s Hall Hr) as (_ & _ & _ & _ & _ & _ & _ & _ & HT & _ & Hok).
  destruct (HT i _ Hi) as (q & Hin). destruct (trace_ok_in _ _ _ Hok Hin) as (t1 & t2 & Ht & He).
  exists q, t1, t2. split; [exact Ht|]. unfold replay. destruct (fold_left spec_event t1 ([], 0)) as [L n]. exact He.
Qed.

(* a completed Publish returned NextOffset + n of the state at its linearization point: publishers receive
   disjoint consecutive offset ranges *)
Theorem publish_returns_spec ts s i ret :
  Forall initial ts -> creach Q R qeval (cinit Q R ts) s -> nth_error (thr s) i = Some (PDone ret) ->
  exists ms tr1 tr2, trace s = tr1 ++ EvPub i ms ret :: tr2 /\ ret = snd (replay tr1) + zlen ms.
Proof.
  intros Hall Hr Hi. pose proof (creach_inv ts s Hall Hr) as (_ & _ & _ & _ & _ & _ & _ & _ & HT & _ & Hok).
  destruct (HT i _ Hi) as (ms & Hin). destruct (trace_ok_in _ _ _ Hok Hin) as (t1 & t2 & Ht & He).
  exists ms, t1, t2. split; [exact Ht|]. unfold replay. destruct (fold_left spec_event t1 ([], 0)) as [L n]. exact He.
Qed.

(* a completed Delete reported nothing, or exactly messages that were live and requested at its linearization
   point, where exactly those were removed *)
Theorem delete_returns_spec ts s i res :
  Forall initial ts -> creach Q R qeval (cinit Q R ts) s -> nth_error (thr s) i = Some (DDone res) ->
  res = [] \/ exists offs tr1 tr2, trace s = tr1 ++ EvDel i offs res :: tr2 /\
                forall d, In d res -> In d (fst (replay tr1)) /\ In (moff d) offs.
Proof.
  intros Hall Hr Hi. pose proof (creach_inv ts s Hall Hr) as (_ & _ & _ & _ & _ & _ & _ & _ & HT & _ & Hok).
  destruct (HT i _ Hi) as [->|(offs & Hin)]; [now left|right]. destruct (trace_ok_in _ _ _ Hok Hin) as (t1 & t2 & Ht & He).
  exists offs, t1, t2. split; [exact Ht|]. unfold replay. destruct (fold_left spec_event t1 ([], 0)) as [L n]. exact He.
Qed.

(* the lock discipline: one publisher inside writerMu, one deleter inside deleteMu, and every call that is between
   RLock and RUnlock is registered as a reader - the swaps of rollover and Delete are enabled only without readers *)
Theorem mutual_exclusion ts s i j p q :
  Forall initial ts -> creach Q R qeval (cinit Q R ts) s ->
  nth_error (thr s) i = Some p -> nth_error (thr s) j = Some q ->
  (in_P p -> in_P q -> i = j) /\ (in_D p -> in_D q -> i = j) /\ (in_R p -> In i (rds s)).
Proof.
  intros Hall Hr Hi Hj. pose proof (creach_inv ts s Hall Hr) as (_ & _ & _ & _ & _ & HP & HD & HR & _).
  split; [|split].
  - intros A B. pose proof (HP i p Hi A). pose proof (HP j q Hj B). congruence.
  - intros A B. pose proof (HD i p Hi A). pose proof (HD j q Hj B). congruence.
  - intros A. eauto.
Qed.

(* offsets stay unique and below NextOffset in every reachable state *)
Theorem offsets_unique ts s :
  Forall initial ts -> creach Q R qeval (cinit Q R ts) s -> inc (cabs (segs s)) /\ forall m, In m (cabs (segs s)) -> moff m < nxt s.
Proof. intros Hall Hr. destruct (creach_inv ts s Hall Hr) as (_ & _ & _ & Hinc & Hlt & _). split; assumption. Qed.

End ConcProofs.
