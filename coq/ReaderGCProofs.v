(* ReaderGCProofs.v — C08, the reader's lazy load / unload: for any number of reading calls and GC calls and every
   interleaving of their steps, no call reads through a closed mapping and GC never closes a mapping that is counted as in
   use.  Invariant: the in-use counter is exactly the number of calls that hold a reference; whoever holds one, or is
   about to take one under the lock, sees the file loaded; a GC that passed its test still sees the counter at zero,
   because the counter only grows under the lock GC holds. *)
From KV Require Import Base Notify NotifyProofs ReaderGC.
From Coq Require Import ZifyBool ZifyNat.
Local Open Scope nat_scope.

Definition holdsR (t : thr) : bool :=
  match t with TR RFastLocked | TR RFastAdd | TR RFastUnlockHit | TR RFastUnlockMiss => true | _ => false end.
Definition holdsW (t : thr) : bool :=
  match t with TR RSlowLocked | TR RSlowOpen | TR RSlowAdd | TR RSlowUnlock | TG GLocked | TG GClose | TG GUnlock => true | _ => false end.
Definition counted (t : thr) : bool :=
  match t with TR RFastUnlockHit | TR RSlowUnlock | TR RUsing | TR RRelease => true | _ => false end.
Definition needsmap (t : thr) : bool :=
  counted t || match t with TR RFastAdd | TR RSlowAdd => true | _ => false end.

Definition cnt (f : thr -> bool) (l : list thr) : nat := length (filter f l).
Definition b2n (b : bool) : nat := if b then 1 else 0.

Lemma cnt_set_nth f : forall l i old x, nth_error l i = Some old -> cnt f (set_nth i l x) + b2n (f old) = cnt f l + b2n (f x).
Proof.
  unfold cnt. induction l as [|a l IH]; intros [|i] old x Hn; cbn in Hn; try discriminate.
  - injection Hn as ->. cbn [set_nth filter]. destruct (f old), (f x); cbn [length b2n]; lia.
  - cbn [set_nth filter]. specialize (IH i old x Hn). destruct (f a); cbn [length]; lia.
Qed.

Lemma cnt_zero f : forall l j t, cnt f l = O -> nth_error l j = Some t -> f t = false.
Proof.
  unfold cnt. induction l as [|a l IH]; intros [|j] t Hc Hn; cbn in Hn; try discriminate; cbn [filter] in Hc.
  - injection Hn as ->. destruct (f t); [discriminate|reflexivity].
  - destruct (f a); [discriminate|]. eapply IH; eauto.
Qed.

Lemma cnt_one_other f : forall l i j p q, cnt f l = 1%nat -> nth_error l i = Some p -> f p = true -> j <> i ->
  nth_error l j = Some q -> f q = false.
Proof.
  unfold cnt. induction l as [|a l IH]; intros [|i] [|j] p q Hc Hi Hp Hne Hj; cbn in Hi, Hj; try discriminate; try congruence; cbn [filter] in Hc.
  - injection Hi as ->. rewrite Hp in Hc. cbn [length] in Hc. apply (cnt_zero f l j q); [unfold cnt; lia|exact Hj].
  - injection Hj as ->. destruct (f q) eqn:E; [|reflexivity]. cbn [length] in Hc.
    assert (Hz : cnt f l = O) by (unfold cnt; lia). rewrite (cnt_zero f l i p Hz Hi) in Hp. discriminate.
  - destruct (f a); cbn [length] in Hc.
    + assert (Hz : cnt f l = O) by (unfold cnt; lia). apply (cnt_zero f l j q Hz Hj).
    + apply (IH i j p q); auto.
Qed.

Record ginv (s : gstate) : Prop := mkGinv {
  gi_r : rlocks s = cnt holdsR (thrs s);
  gi_w : cnt holdsW (thrs s) = b2n (wlock s);
  gi_x : wlock s = true -> rlocks s = O;
  gi_u : inuse s = cnt counted (thrs s);
  gi_m : forall j t, nth_error (thrs s) j = Some t -> needsmap t = true -> mapped s = true;
  gi_c : forall j, nth_error (thrs s) j = Some (TG GClose) -> inuse s = O /\ mapped s = true;
  gi_b : bad s = false
}.

Definition gentry (t : thr) : bool := match t with TR RStart | TG GStart => true | _ => false end.

Lemma cnt_entry f ts : (forall t, gentry t = true -> f t = false) -> forallb gentry ts = true -> cnt f ts = O.
Proof.
  intros Hf. unfold cnt. induction ts as [|a l IH]; intros Ha; [reflexivity|]. cbn [forallb] in Ha. apply andb_prop in Ha.
  destruct Ha as [H1 H2]. cbn [filter]. rewrite (Hf a H1). now apply IH.
Qed.

Lemma ginit_inv m ts : forallb gentry ts = true -> ginv (ginit m ts).
Proof.
  intros Ha. assert (He : forall j t, nth_error ts j = Some t -> gentry t = true).
  { intros j t Hn. rewrite forallb_forall in Ha. apply Ha. eapply nth_error_In; eauto. }
  constructor; cbn [ginit rlocks wlock inuse thrs mapped bad b2n].
  - symmetry. apply cnt_entry; [|exact Ha]. intros [[]|[]]; cbn; congruence.
  - apply cnt_entry; [|exact Ha]. intros [[]|[]]; cbn; congruence.
  - discriminate.
  - symmetry. apply cnt_entry; [|exact Ha]. intros [[]|[]]; cbn; congruence.
  - intros j t Hn Hm. specialize (He j t Hn). destruct t as [[]|[]]; cbn in *; congruence.
  - intros j Hn. specialize (He j _ Hn). discriminate.
  - reflexivity.
Qed.

(* the facts every case of the step uses *)
Ltac counts s i old new Hn :=
  pose proof (cnt_set_nth holdsR (thrs s) i old new Hn) as HcR;
  pose proof (cnt_set_nth holdsW (thrs s) i old new Hn) as HcW;
  pose proof (cnt_set_nth counted (thrs s) i old new Hn) as HcU;
  cbn [holdsR holdsW counted b2n] in HcR, HcW, HcU.

(* the two quantified parts of the invariant after thread i moved: the thread itself, then any other thread *)
Ltac m_goal tac_self tac_other :=
  match goal with
  | |- forall (j : nat) (t : thr), nth_error (set_nth ?i ?l ?x) j = Some t -> needsmap t = true -> _ =>
    let j := fresh "j" in let t := fresh "t" in let Hj := fresh "Hj" in let Ht := fresh "Ht" in let Hne := fresh "Hne" in
    intros j t Hj Ht; destruct (Nat.eq_dec j i) as [->|Hne];
    [match goal with Hsame : forall x, nth_error (set_nth i l x) i = Some x |- _ => rewrite Hsame in Hj end;
     injection Hj as <-; tac_self
    |rewrite nth_set_nth_neq in Hj by (intro; apply Hne; congruence); tac_other j t Hj Hne]
  | _ => idtac
  end.

Ltac c_goal tac_other :=
  match goal with
  | |- forall j : nat, nth_error (set_nth ?i ?l ?x) j = Some (TG GClose) -> _ =>
    let j := fresh "j" in let Hj := fresh "Hj" in let Hne := fresh "Hne" in
    intros j Hj; destruct (Nat.eq_dec j i) as [->|Hne];
    [match goal with Hsame : forall x, nth_error (set_nth i l x) i = Some x |- _ => rewrite Hsame in Hj end; discriminate
    |rewrite nth_set_nth_neq in Hj by (intro; apply Hne; congruence); tac_other j Hj Hne]
  | _ => idtac
  end.

Ltac by_old := first [assumption | congruence | solve [eauto]].
Ltac self_std := first [discriminate | assumption | congruence].

Theorem gstep_inv s i s' : ginv s -> gstep s i = Some s' -> ginv s'.
Proof.
  intros [Hr Hw Hx Hu Hm Hc Hb] Hs. unfold gstep in Hs.
  destruct (nth_error (thrs s) i) as [old|] eqn:Hn; [|discriminate].
  assert (Hlt : (i < length (thrs s))%nat) by (eapply nth_error_lt; eauto).
  assert (Hsame : forall x, nth_error (set_nth i (thrs s) x) i = Some x) by (intros x; now apply nth_set_nth_eq).
  (* a thread that holds the write lock is the only one that does *)
  assert (HW1 : holdsW old = true -> cnt holdsW (thrs s) = 1%nat /\ wlock s = true).
  { intros Ho. destruct (wlock s); cbn [b2n] in Hw; [split; [exact Hw|reflexivity]|].
    pose proof (cnt_zero holdsW (thrs s) i _ Hw Hn). congruence. }
  assert (Hexcl : holdsW old = true -> forall j q, j <> i -> nth_error (thrs s) j = Some q -> holdsW q = false).
  { intros Ho j q Hne Hj. destruct (HW1 Ho) as [H1 _]. exact (cnt_one_other holdsW (thrs s) i j old q H1 Hn Ho Hne Hj). }
  (* a thread that holds the read lock excludes every writer *)
  assert (HnoW : holdsR old = true -> forall j q, nth_error (thrs s) j = Some q -> holdsW q = false).
  { intros Ho j q Hj. destruct (wlock s) eqn:Ew.
    - specialize (Hx eq_refl). rewrite Hx in Hr. pose proof (cnt_zero holdsR (thrs s) i _ (eq_sym Hr) Hn). congruence.
    - cbn [b2n] in Hw. exact (cnt_zero holdsW (thrs s) j q Hw Hj). }
  (* a thread that is counted keeps the counter positive *)
  assert (Hpos : counted old = true -> (0 < inuse s)%nat).
  { intros Ho. rewrite Hu. destruct (cnt counted (thrs s)) eqn:E; [|lia]. pose proof (cnt_zero counted (thrs s) i _ E Hn). congruence. }
  destruct old as [p|p]; destruct p; cbn [holdsW holdsR counted] in HW1, Hexcl, HnoW, Hpos.
  - (* RStart *)
    destruct (wlock s) eqn:Ew; [discriminate|]. injection Hs as <-. counts s i (TR RStart) (TR RFastLocked) Hn.
    constructor; cbn [upd rlocks wlock inuse thrs mapped bad b2n] in *; try lia; try congruence.
    all: m_goal self_std ltac:(fun j t Hj Hne => by_old).
    all: c_goal ltac:(fun j Hj Hne => by_old).
  - (* RFastLocked *)
    injection Hs as <-. destruct (mapped s) eqn:Em.
    + counts s i (TR RFastLocked) (TR RFastAdd) Hn.
      constructor; cbn [upd rlocks wlock inuse thrs mapped bad b2n] in *; try lia; try congruence.
      all: m_goal self_std ltac:(fun j t Hj Hne => by_old).
      all: c_goal ltac:(fun j Hj Hne => by_old).
    + counts s i (TR RFastLocked) (TR RFastUnlockMiss) Hn.
      constructor; cbn [upd rlocks wlock inuse thrs mapped bad b2n] in *; try lia; try congruence.
      all: m_goal self_std ltac:(fun j t Hj Hne => by_old).
      all: c_goal ltac:(fun j Hj Hne => by_old).
  - (* RFastAdd: the counter grows under the read lock - no GC holds the write lock *)
    injection Hs as <-. counts s i (TR RFastAdd) (TR RFastUnlockHit) Hn.
    assert (Hmap : mapped s = true) by (apply (Hm i _ Hn); reflexivity).
    constructor; cbn [upd rlocks wlock inuse thrs mapped bad b2n] in *; try lia; try congruence.
    all: m_goal self_std ltac:(fun j t Hj Hne => by_old).
    all: c_goal ltac:(fun j Hj Hne => exfalso; pose proof (HnoW eq_refl j _ Hj); discriminate).
  - (* RFastUnlockHit *)
    injection Hs as <-. counts s i (TR RFastUnlockHit) (TR RUsing) Hn.
    assert (Hmap : mapped s = true) by (apply (Hm i _ Hn); reflexivity).
    constructor; cbn [upd rlocks wlock inuse thrs mapped bad b2n] in *; try lia; try congruence.
    all: try (intros Ew; specialize (Hx Ew); lia).
    all: m_goal self_std ltac:(fun j t Hj Hne => by_old).
    all: c_goal ltac:(fun j Hj Hne => by_old).
  - (* RFastUnlockMiss *)
    injection Hs as <-. counts s i (TR RFastUnlockMiss) (TR RSlowWait) Hn.
    constructor; cbn [upd rlocks wlock inuse thrs mapped bad b2n] in *; try lia; try congruence.
    all: try (intros Ew; specialize (Hx Ew); lia).
    all: m_goal self_std ltac:(fun j t Hj Hne => by_old).
    all: c_goal ltac:(fun j Hj Hne => by_old).
  - (* RSlowWait *)
    destruct (wlock s) eqn:Ew; [discriminate|]. destruct (Nat.eqb (rlocks s) 0) eqn:Er; [|discriminate].
    cbn [orb negb] in Hs. injection Hs as <-. counts s i (TR RSlowWait) (TR RSlowLocked) Hn.
    constructor; cbn [upd rlocks wlock inuse thrs mapped bad b2n] in *; try lia; try congruence.
    all: m_goal self_std ltac:(fun j t Hj Hne => by_old).
    all: c_goal ltac:(fun j Hj Hne => by_old).
  - (* RSlowLocked *)
    injection Hs as <-. destruct (mapped s) eqn:Em.
    + counts s i (TR RSlowLocked) (TR RSlowAdd) Hn.
      constructor; cbn [upd rlocks wlock inuse thrs mapped bad b2n] in *; try lia; try congruence.
      all: m_goal self_std ltac:(fun j t Hj Hne => by_old).
      all: c_goal ltac:(fun j Hj Hne => by_old).
    + counts s i (TR RSlowLocked) (TR RSlowOpen) Hn.
      constructor; cbn [upd rlocks wlock inuse thrs mapped bad b2n] in *; try lia; try congruence.
      all: m_goal self_std ltac:(fun j t Hj Hne => by_old).
      all: c_goal ltac:(fun j Hj Hne => by_old).
  - (* RSlowOpen: holds the write lock, so no GC stands between its test and its close *)
    injection Hs as <-. counts s i (TR RSlowOpen) (TR RSlowAdd) Hn.
    constructor; cbn [upd rlocks wlock inuse thrs mapped bad b2n] in *; try lia; try congruence.
    all: m_goal self_std ltac:(fun j t Hj Hne => reflexivity).
    all: c_goal ltac:(fun j Hj Hne => exfalso; pose proof (Hexcl eq_refl j _ Hne Hj); discriminate).
  - (* RSlowAdd *)
    injection Hs as <-. counts s i (TR RSlowAdd) (TR RSlowUnlock) Hn.
    assert (Hmap : mapped s = true) by (apply (Hm i _ Hn); reflexivity).
    constructor; cbn [upd rlocks wlock inuse thrs mapped bad b2n] in *; try lia; try congruence.
    all: m_goal self_std ltac:(fun j t Hj Hne => by_old).
    all: c_goal ltac:(fun j Hj Hne => exfalso; pose proof (Hexcl eq_refl j _ Hne Hj); discriminate).
  - (* RSlowUnlock *)
    injection Hs as <-. counts s i (TR RSlowUnlock) (TR RUsing) Hn.
    assert (Hmap : mapped s = true) by (apply (Hm i _ Hn); reflexivity).
    destruct (HW1 eq_refl) as [Hw1 Hwt].
    constructor; cbn [upd rlocks wlock inuse thrs mapped bad b2n] in *; try lia; try congruence.
    all: m_goal self_std ltac:(fun j t Hj Hne => by_old).
    all: c_goal ltac:(fun j Hj Hne => exfalso; pose proof (Hexcl eq_refl j _ Hne Hj); discriminate).
  - (* RUsing: the read itself - the mapping is there *)
    injection Hs as <-. counts s i (TR RUsing) (TR RRelease) Hn.
    assert (Hmap : mapped s = true) by (apply (Hm i _ Hn); reflexivity).
    constructor; cbn [upd rlocks wlock inuse thrs mapped bad b2n] in *; try lia; try congruence.
    all: try (rewrite Hb, Hmap; reflexivity).
    all: m_goal self_std ltac:(fun j t Hj Hne => by_old).
    all: c_goal ltac:(fun j Hj Hne => by_old).
  - (* RRelease: a counted call exists, so no GC is between test and close *)
    injection Hs as <-. counts s i (TR RRelease) (TR RDone) Hn. specialize (Hpos eq_refl).
    constructor; cbn [upd rlocks wlock inuse thrs mapped bad b2n] in *; try lia; try congruence.
    all: m_goal self_std ltac:(fun j t Hj Hne => by_old).
    all: c_goal ltac:(fun j Hj Hne => exfalso; destruct (Hc j Hj); lia).
  - (* RDone *) discriminate.
  - (* GStart *)
    destruct (wlock s) eqn:Ew; [discriminate|]. destruct (Nat.eqb (rlocks s) 0) eqn:Er; [|discriminate].
    cbn [orb negb] in Hs. injection Hs as <-. counts s i (TG GStart) (TG GLocked) Hn.
    constructor; cbn [upd rlocks wlock inuse thrs mapped bad b2n] in *; try lia; try congruence.
    all: m_goal self_std ltac:(fun j t Hj Hne => by_old).
    all: c_goal ltac:(fun j Hj Hne => by_old).
  - (* GLocked: the test *)
    injection Hs as <-. destruct (mapped s && Nat.eqb (inuse s) 0) eqn:Et.
    + apply andb_prop in Et. destruct Et as [Em Eu]. counts s i (TG GLocked) (TG GClose) Hn.
      constructor; cbn [upd rlocks wlock inuse thrs mapped bad b2n] in *; try lia; try congruence.
      all: m_goal self_std ltac:(fun j t Hj Hne => by_old).
      all: try (intros j Hj; split; [lia|exact Em]).
    + counts s i (TG GLocked) (TG GUnlock) Hn.
      constructor; cbn [upd rlocks wlock inuse thrs mapped bad b2n] in *; try lia; try congruence.
      all: m_goal self_std ltac:(fun j t Hj Hne => by_old).
      all: c_goal ltac:(fun j Hj Hne => by_old).
  - (* GClose: nobody holds a reference, nobody is about to take one *)
    injection Hs as <-. counts s i (TG GClose) (TG GUnlock) Hn.
    destruct (Hc i Hn) as [Hz Hmap]. destruct (HW1 eq_refl) as [Hw1 Hwt].
    assert (Hr0 : cnt holdsR (thrs s) = O) by (rewrite <- Hr; auto).
    assert (Hu0 : cnt counted (thrs s) = O) by lia.
    constructor; cbn [upd rlocks wlock inuse thrs mapped bad b2n] in *; try lia; try congruence.
    all: try (rewrite Hb, Hz; reflexivity).
    all: m_goal self_std ltac:(fun j t Hj Hne => exfalso;
           pose proof (cnt_zero holdsR (thrs s) j t Hr0 Hj) as N1; pose proof (cnt_zero counted (thrs s) j t Hu0 Hj) as N2;
           pose proof (Hexcl eq_refl j t Hne Hj) as N3;
           match goal with Ht : needsmap t = true |- _ => destruct t as [[]|[]]; cbn in Ht, N1, N2, N3; congruence end).
    all: c_goal ltac:(fun j Hj Hne => exfalso; pose proof (Hexcl eq_refl j _ Hne Hj); discriminate).
  - (* GUnlock *)
    injection Hs as <-. counts s i (TG GUnlock) (TG GDone) Hn.
    constructor; cbn [upd rlocks wlock inuse thrs mapped bad b2n] in *; try lia; try congruence.
    all: m_goal self_std ltac:(fun j t Hj Hne => by_old).
    all: c_goal ltac:(fun j Hj Hne => exfalso; pose proof (Hexcl eq_refl j _ Hne Hj); discriminate).
  - (* GDone *) discriminate.
Qed.

(* every schedule, any number of threads *)
Theorem grun_inv : forall sched s, ginv s -> ginv (grun s sched).
Proof.
  induction sched as [|i r IH]; intros s Hi; [exact Hi|]. cbn [grun fold_left].
  destruct (gstep s i) as [s'|] eqn:E; [apply IH; eapply gstep_inv; eauto|apply IH; exact Hi].
Qed.

(* no call ever reads through a closed mapping, GC never closes a mapping that is counted as in use *)
Theorem reads_never_see_a_closed_mapping m ts sched :
  forallb gentry ts = true -> bad (grun (ginit m ts) sched) = false.
Proof. intros Ha. apply gi_b. apply grun_inv. now apply ginit_inv. Qed.

(* and at every moment a call that is reading has the file loaded, the counter counts exactly the calls holding it *)
Theorem reading_means_loaded m ts sched j :
  forallb gentry ts = true ->
  let s := grun (ginit m ts) sched in
  nth_error (thrs s) j = Some (TR RUsing) -> mapped s = true /\ (0 < inuse s)%nat.
Proof.
  intros Ha s Hj. pose proof (grun_inv sched (ginit m ts) (ginit_inv m ts Ha)) as [Hr Hw Hx Hu Hm Hc Hb]. fold s in Hr, Hw, Hx, Hu, Hm, Hc, Hb.
  split; [apply (Hm j _ Hj); reflexivity|]. rewrite Hu. destruct (cnt counted (thrs s)) eqn:E; [|lia].
  pose proof (cnt_zero counted (thrs s) j _ E Hj). discriminate.
Qed.

(* the lock is a lock: a writer excludes readers and other writers *)
Theorem writer_excludes m ts sched :
  forallb gentry ts = true ->
  let s := grun (ginit m ts) sched in
  wlock s = true -> cnt holdsR (thrs s) = O /\ cnt holdsW (thrs s) = 1%nat.
Proof.
  intros Ha s Hw1. pose proof (grun_inv sched (ginit m ts) (ginit_inv m ts Ha)) as [Hr Hw Hx Hu Hm Hc Hb]. fold s in Hr, Hw, Hx.
  rewrite Hw1 in Hw. split; [rewrite <- Hr; auto|exact Hw].
Qed.
