(* DurableDelete.v — C06: the fsync protocol of Delete.  The complete sequence of file-system steps of one Delete on the
   file table of Durable.v: writer.Sync when the target is the writing segment (log.go delete), Segment.Rewrite (the
   survivors copied into <base>.log.rewrite.X, fsynced; their index written and fsynced), writer.Sync again
   (log_writer.go writer.Delete), and then the swap of CrashDir.delete_prog (renames, removals, the new empty writing
   segment).  Decided from the L1 state exactly as Model.log_delete and CrashDir.delete_prog decide.
   Executable; proofs in DurableDeleteProofs.v. *)
From KV Require Import Base Model CrashDir Durable.

Inductive xop :=
| XD (o : dop)
| XRename (a b : fname)             (* os.Rename: replaces b *)
| XRemove (f : fname).

Definition x_exec (t : ftable) (o : xop) : ftable :=
  match o with
  | XD o => d_exec t o
  | XRename a b => map (fun x => if fname_eqb (fnm x) a then mkF b (flen x) (fsyn x) else x)
                       (filter (fun x => negb (fname_eqb (fnm x) b)) t)
  | XRemove f => filter (fun x => negb (fname_eqb (fnm x) f)) t
  end.

Definition x_run (t : ftable) (prog : list xop) : ftable := fold_left x_exec prog t.

(* Segment.Rewrite: the log copy, then index.Write (through its own temporary file, which the tap reports under the
   name of the file it becomes) *)
Definition rewrite_ops (v : ver) (p : params) (survive : list msg) : list xop :=
  (XD (DCreate FTLog (hdr_size v)) :: map (fun m => XD (DWrite FTLog (rec_size v m))) survive ++ [XD (DFsync FTLog)])
  ++ (XD (DCreate FTIdx (hdr_size v)) :: map (fun _ : msg => XD (DWrite FTIdx (item_size p))) survive ++ [XD (DFsync FTIdx)]).

(* the swap steps of CrashDir on the file table; v = the version of a newly created writing segment *)
Definition tr (v : ver) (o : fsop) : list xop :=
  match o with
  | RemoveIndex b => [XRemove (FIdx b)]
  | RemoveLog b => [XRemove (FLog b)]
  | RenameTmpLog b => [XRename FTLog (FLog b)]
  | RenameTmpIndex b => [XRename FTIdx (FIdx b)]
  | RemoveTmp => [XRemove FTIdx; XRemove FTLog]
  | CreateLog b v' => [XD (DCreate (FLog b) (hdr_size v'))]
  | CreateIdx b => [XD (DCreate (FIdx b) (hdr_size v))]
  end.

Definition delete_full (st : lstate) (offs : list Z) : list xop :=
  match opened st with
  | None => []
  | Some c =>
    if cro c then []
    else match offs with
    | [] => []
    | _ =>
      let lowest := zmin_list offs in
      if lowest <? 0 then []
      else match seg_get (bases (segs st)) lowest with
      | Err _ => []
      | Ok i =>
        match znth (segs st) i with
        | None => []
        | Some src =>
          let mv := if ckeeprw c then sver src else cnewver c in
          let deleted := filter (fun m => zmem (moff m) offs) (srecs src) in
          let survive := filter (fun m => negb (zmem (moff m) offs)) (srecs src) in
          let sync := if is_last st i then map XD (sync_ops (sbase src)) else [] in
          sync ++ rewrite_ops mv (cparams c) survive
            ++ (match deleted with [] => [] | _ :: _ => sync end)
            ++ flat_map (tr (cnewver c)) (delete_prog st offs)
        end
      end
    end
  end.

(* NextOffset as the writing segment's index has it: the base of a writing segment created by the Delete *)
Definition next_of (st : lstate) : Z :=
  match last_opt (segs st) with Some hd => idx_next hd (head_items hd) | None => 0 end.
