(* Spec.v — L0: the abstract log and, for every property, a boolean checker
   that decides whether an observed result is allowed by the property in a
   given abstract state.  The same checkers are (a) what the theorems about the
   model are stated with and (b) what the violation search evaluates on the
   implementation's output.  No proofs here. *)
From KV Require Import Base.

Record alog := mkAlog { live : list msg; anext : Z }.

Definition empty_log : alog := mkAlog [] 0.

Inductive obs (A : Type) := OOk (a : A) | OErr (c : eclass).
Arguments OOk {A} a.
Arguments OErr {A} c.

Definition eclass_eqb (a b : eclass) : bool :=
  match a, b with
  | CNotFound, CNotFound | CInvalidOffset, CInvalidOffset | CNoIndex, CNoIndex
  | CReadonly, CReadonly | CLogCorrupted, CLogCorrupted | CIndexCorrupted, CIndexCorrupted
  | CNotExist, CNotExist | CTooBig, CTooBig | CLocked, CLocked | COther, COther
  | CPanic, CPanic | COutOfFuel, COutOfFuel | CClosed, CClosed => true
  | _, _ => false
  end.

Definition is_err {A} (o : obs A) (c : eclass) : bool :=
  match o with OErr c' => eclass_eqb c c' | OOk _ => false end.

(* ---------- helpers on the live sequence *)

Fixpoint is_prefix (a b : list msg) : bool :=
  match a, b with
  | [], _ => true
  | x :: a', y :: b' => msg_eqb x y && is_prefix a' b'
  | _ :: _, [] => false
  end.

Definition find_off (l : list msg) (off : Z) : option msg :=
  find (fun m => moff m =? off) l.

Definition from_off (l : list msg) (off : Z) : list msg :=
  if off <? 0 then l else filter (fun m => off <=? moff m) l.

Definition has_key (k : bytes) (m : msg) : bool := bytes_eqb k (mkey m).

Definition mem_msg (m : msg) (l : list msg) : bool := existsb (msg_eqb m) l.

Fixpoint nodup_offs (l : list msg) : bool :=
  match l with
  | [] => true
  | m :: r => negb (existsb (fun x => moff x =? moff m) r) && nodup_offs r
  end.

Fixpoint seq_from (z : Z) (n : nat) : list Z :=
  match n with O => [] | S n' => z :: seq_from (z + 1) n' end.

Definition zlist_eqb (a b : list Z) : bool := list_eqb Z.eqb a b.

Definition remove_msgs (l del : list msg) : list msg :=
  filter (fun m => negb (existsb (fun d => moff d =? moff m) del)) l.

(* times never decrease with offset *)
Fixpoint mono_times_from (t : Z) (l : list msg) : bool :=
  match l with
  | [] => true
  | m :: r => (t <=? mtime m) && mono_times_from (mtime m) r
  end.
Definition mono_times (l : list msg) : bool :=
  match l with [] => true | m :: r => mono_times_from (mtime m) r end.

(* ---------- C02: publish *)

Definition spec_publish (a : alog) (ms : list msg) : alog :=
  let n := length ms in
  let offs := seq_from (anext a) n in
  mkAlog (live a ++ map (fun om => mkMsg (fst om) (mtime (snd om)) (mkey (snd om)) (mval (snd om)))
                        (combine offs ms))
         (anext a + Z.of_nat n).

Definition check_publish (a : alog) (ms : list msg) (o : obs (Z * list Z)) : bool :=
  match o with
  | OOk (ret, offs) =>
    (ret =? anext a + zlen ms) && zlist_eqb offs (seq_from (anext a) (length ms))
  | OErr _ => false
  end.

Definition check_next (a : alog) (o : obs Z) : bool :=
  match o with OOk n => n =? anext a | OErr _ => false end.

(* ---------- C03: consume *)

Definition check_consume (a : alog) (off max : Z) (o : obs (Z * list msg)) : bool :=
  if anext a <? off then is_err o CInvalidOffset
  else if off =? OffsetNewest then
    match o with OOk (n, []) => n =? anext a | _ => false end
  else
    let from := from_off (live a) off in
    match o with
    | OErr _ => false
    | OOk (n, []) =>
      (* nothing returned: no live message is stepped over, progress, caught up => NextOffset *)
      (n <=? anext a)
      && negb (existsb (fun m => moff m <? n) from)
      && (match from with [] => n =? anext a | _ :: _ => off <? n end)
    | OOk (n, ms) =>
      is_prefix ms from && (zlen ms <=? max)
      && (match last_opt ms with Some m => n =? moff m + 1 | None => false end)
    end.

(* ---------- C04: get *)

Definition check_get (a : alog) (off : Z) (o : obs msg) : bool :=
  if 0 <=? off then
    match find_off (live a) off with
    | Some m => match o with OOk m' => msg_eqb m m' | OErr _ => false end
    | None => if off <? anext a then is_err o CNotFound else is_err o CInvalidOffset
    end
  else if off =? OffsetOldest then
    match live a with
    | [] => is_err o CInvalidOffset
    | m :: _ => match o with OOk m' => msg_eqb m m' | OErr _ => false end
    end
  else if off =? OffsetNewest then
    match last_opt (live a) with
    | None => is_err o CInvalidOffset
    | Some m => match o with OOk m' => msg_eqb m m' | OErr _ => false end
    end
  else true.

(* Get agrees with Consume(off,1) *)
Definition check_get_consume_agree (off : Z) (g : obs msg) (c : obs (Z * list msg)) : bool :=
  if off <? 0 then true
  else match g, c with
       | OOk m, OOk (_, [m']) => msg_eqb m m' || negb (moff m' =? off)
       | OOk _, _ => false
       | OErr _, OOk (_, [m']) => negb (moff m' =? off)
       | OErr _, _ => true
       end.

(* ---------- C09: key lookups *)

Definition check_get_by_key (a : alog) (keys : bool) (k : bytes) (o : obs msg) : bool :=
  if negb keys then is_err o CNoIndex
  else match last_opt (filter (has_key k) (live a)) with
       | Some m => match o with OOk m' => msg_eqb m m' | OErr _ => false end
       | None => is_err o CNotFound
       end.

Definition check_consume_by_key (a : alog) (keys : bool) (k : bytes) (off max : Z)
           (o : obs (Z * list msg)) : bool :=
  if negb keys then is_err o CNoIndex
  else if anext a <? off then true
  else if off =? OffsetNewest then
    match o with OOk (n, []) => n =? anext a | _ => false end
  else
    let from := filter (has_key k) (from_off (live a) off) in
    match o with
    | OErr _ => false
    | OOk (n, []) =>
      (n <=? anext a)
      && negb (existsb (fun m => moff m <? n) from)
      && (match from with [] => true | _ :: _ => off <? n end)
      && ((off <? n) || (n =? anext a))
    | OOk (n, ms) =>
      is_prefix ms from && (zlen ms <=? Z.max max 1)
      && (match last_opt ms with Some m => n =? moff m + 1 | None => false end)
    end.

(* ---------- C10: time lookups (caller guarantees mono_times) *)

Definition check_get_by_time (a : alog) (times : bool) (t : Z) (o : obs msg) : bool :=
  if negb times then is_err o CNoIndex
  else match find (fun m => t <=? mtime m) (live a) with
       | Some m => match o with OOk m' => msg_eqb m m' | OErr _ => false end
       | None => match live a with
                 | [] => is_err o CNotFound || is_err o CInvalidOffset
                 | _ => is_err o CNotFound
                 end
       end.

(* ---------- C12: delete *)

Definition overhead (v : ver) : Z := match v with V1 => 28 | V2 => 36 end.

(* storage size of the deleted messages: record size in the format of the segment that held
   each one (vs, reported by the harness from the file headers) plus one index item each *)
Fixpoint sum_sizes (isz : Z) (ms : list msg) (vs : list ver) : option Z :=
  match ms, vs with
  | [], [] => Some 0
  | m :: r, v :: vr =>
    match sum_sizes isz r vr with
    | Some acc => Some (overhead v + zlen (mkey m) + zlen (mval m) + isz + acc)
    | None => None
    end
  | _, _ => None
  end.

Definition check_delete (a : alog) (isz : Z) (offs : list Z)
           (o : obs (Z * list ver * list msg)) : bool :=
  match offs with
  | [] => match o with OOk (sz, _, []) => sz =? 0 | _ => false end
  | _ =>
    if zmin_list offs <? 0 then is_err o CInvalidOffset
    else match o with
         | OErr c => eclass_eqb c CNotFound || eclass_eqb c CInvalidOffset
         | OOk (sz, vs, ms) =>
           forallb (fun m => mem_msg m (live a) && zmem (moff m) offs) ms
           && nodup_offs ms
           && (match sum_sizes isz ms vs with Some want => sz =? want | None => false end)
         end
  end.

Definition spec_delete (a : alog) (deleted : list msg) : alog :=
  mkAlog (remove_msgs (live a) deleted) (anext a).

(* DeleteMulti over a set of live offsets removes all of them *)
Definition check_delete_multi (a : alog) (isz : Z) (offs : list Z)
           (o : obs (Z * list ver * list msg)) : bool :=
  match offs with
  | [] => match o with OOk (sz, _, []) => sz =? 0 | _ => false end
  | _ =>
    if zmin_list offs <? 0 then is_err o CInvalidOffset
    else
      let all_live := forallb (fun x => existsb (fun m => moff m =? x) (live a)) offs in
      match o with
      | OErr c => negb all_live
      | OOk (sz, vs, ms) =>
        check_delete a isz offs o
        && (negb all_live || forallb (fun x => existsb (fun m => moff m =? x) ms) offs)
      end
  end.

(* ---------- C13: stat *)
Definition check_stat_count (a : alog) (cnt : Z) : bool := cnt =? zlen (live a).

(* ---------- C15: trim helpers (results are offset sets, printed sorted) *)

Definition offs_of (l : list msg) : list Z := map moff l.

Fixpoint take_while {A} (f : A -> bool) (l : list A) : list A :=
  match l with [] => [] | x :: r => if f x then x :: take_while f r else [] end.

Definition is_prefix_offs (sel : list Z) (l : list msg) : bool :=
  zlist_eqb sel (firstn (length sel) (offs_of l)).

Definition check_find_by_offset (a : alog) (b : Z) (sel : list Z) : bool :=
  let want := if b =? OffsetOldest then []
              else if b =? OffsetNewest then offs_of (live a)
              else offs_of (filter (fun m => moff m <? b) (live a)) in
  zlist_eqb sel want.

Definition check_find_by_count (a : alog) (n : Z) (sel : list Z) : bool :=
  let k := Z.max 0 (zlen (live a) - n) in
  zlist_eqb sel (firstn (Z.to_nat k) (offs_of (live a))).

(* shortest prefix whose removal brings total below sz; msz = Log.Size of a message *)
Fixpoint size_prefix (msz : msg -> Z) (total sz : Z) (l : list msg) : list Z :=
  match l with
  | [] => []
  | m :: r => if total <? sz then [] else moff m :: size_prefix msz (total - msz m) sz r
  end.
Definition check_find_by_size (a : alog) (msz : msg -> Z) (total sz : Z) (sel : list Z) : bool :=
  zlist_eqb sel (size_prefix msz total sz (live a)).

Definition check_find_by_age (a : alog) (t : Z) (sel : list Z) : bool :=
  is_prefix_offs sel (live a)
  && forallb (fun m => negb (zmem (moff m) sel) || (mtime m <=? t)) (live a)
  && (negb (mono_times (live a))
      || forallb (fun m => negb (mtime m <? t) || zmem (moff m) sel) (live a)).

(* ---------- C16: compaction *)

Definition later_same_key (m : msg) (l : list msg) : bool :=
  existsb (fun x => has_key (mkey m) x) l.

Fixpoint check_updates_sel (t : Z) (sel : list Z) (l : list msg) : bool :=
  match l with
  | [] => true
  | m :: r =>
    (negb (zmem (moff m) sel) || ((mtime m <=? t) && later_same_key m r))
    && check_updates_sel t sel r
  end.

Fixpoint count_key (k : bytes) (l : list msg) : nat :=
  match l with [] => O | m :: r => ((if has_key k m then 1 else 0) + count_key k r)%nat end.

Definition check_find_updates (a : alog) (t : Z) (sel : list Z) : bool :=
  forallb (fun o => existsb (fun m => moff m =? o) (live a)) sel
  && check_updates_sel t sel (live a)
  && (negb (mono_times (live a))
      || (let rest := filter (fun m => negb (zmem (moff m) sel) && (mtime m <=? t)) (live a) in
          forallb (fun m => Nat.leb (count_key (mkey m) rest) 1) rest)).

Fixpoint check_deletes_sel (t : Z) (sel : list Z) (seen : list msg) (l : list msg) : bool :=
  match l with
  | [] => true
  | m :: r =>
    (negb (zmem (moff m) sel)
     || ((mtime m <=? t) && (match mval m with [] => true | _ => false end)
         && negb (existsb (has_key (mkey m)) seen)))
    && check_deletes_sel t sel (seen ++ [m]) r
  end.

Definition check_find_deletes (a : alog) (t : Z) (sel : list Z) : bool :=
  forallb (fun o => existsb (fun m => moff m =? o) (live a)) sel
  && check_deletes_sel t sel [] (live a).

(* latest value of a key; an empty value means "absent" *)
Definition latest (l : list msg) (k : bytes) : bytes :=
  match last_opt (filter (has_key k) l) with Some m => mval m | None => [] end.

Definition check_latest_preserved (before after : list msg) : bool :=
  forallb (fun m => bytes_eqb (latest before (mkey m)) (latest after (mkey m))) before.

(* ---------- C01: the scan yields exactly the live sequence *)
Definition check_scan (a : alog) (scanned : list msg) (final : Z) : bool :=
  list_eqb msg_eqb scanned (live a) && (final =? anext a).
