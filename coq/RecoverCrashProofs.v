(* RecoverCrashProofs.v — C05: Recover can be interrupted anywhere and simply run again.
   For every head segment (any bytes in the log file, any or no index file, stale temporary files of an earlier
   interrupted attempt included) and every image a crash leaves after k steps of Recover's program and j bytes of an
   append in flight: running Recover on the image ends with the same log file as the uninterrupted Recover and an index
   file that is the same or absent (then rebuilt on open), and that segment passes Check.  And the program run to its end
   leaves exactly what Codec.recover_bytes computes (the function the C07 theorems are about). *)
From KV Require Import Base Hash Model Codec ListAux CodecProofs RecoverProofs RecoverCrash.
From Coq Require Import Lia.

(* ---------- steps that touch only some files *)

Definition only_on (F : rfile -> bool) (s : rstep) : bool :=
  match s with
  | RRemove f | RCreate f _ | RWrite f _ => F f
  | RFsync _ => true
  | RRename a b => F a && F b
  end.

Lemma rexec_keeps F s st g : only_on F s = true -> F g = false -> rget (rexec st s) g = rget st g.
Proof.
  intros Ho Hg. destruct s as [f|f hdr|f bs|f|a b]; cbn [only_on] in Ho.
  - destruct f, g; cbn in *; try reflexivity; congruence.
  - destruct f, g; cbn in *; try reflexivity; congruence.
  - cbn [rexec]. destruct (rget st f) as [c|] eqn:Ec; [|reflexivity]. destruct f, g; cbn in *; try reflexivity; congruence.
  - reflexivity.
  - apply andb_prop in Ho. destruct Ho as [Ha Hb]. cbn [rexec]. destruct (rget st a) as [c|] eqn:Ec; [|reflexivity].
    destruct a, b, g; cbn in *; try reflexivity; congruence.
Qed.

Lemma rrun_keeps F l : forall st g, forallb (only_on F) l = true -> F g = false -> rget (rrun st l) g = rget st g.
Proof.
  induction l as [|s l IH]; intros st g Hl Hg; [reflexivity|]. cbn [forallb] in Hl. apply andb_prop in Hl. destruct Hl as [Hs Hl].
  unfold rrun. cbn [fold_left]. fold (rrun (rexec st s) l). rewrite (IH _ _ Hl Hg). now apply (rexec_keeps F).
Qed.

Lemma forallb_firstn {A} (f : A -> bool) l : forall k, forallb f l = true -> forallb f (firstn k l) = true.
Proof.
  induction l as [|x l IH]; intros k Hl; [destruct k; reflexivity|]. destruct k; [reflexivity|]. cbn [firstn forallb] in *.
  apply andb_prop in Hl. destruct Hl as [Hx Hl]. rewrite Hx. cbn. now apply IH.
Qed.

Lemma rrun_app st a b : rrun st (a ++ b) = rrun (rrun st a) b.
Proof. unfold rrun. apply fold_left_app. Qed.

Lemma rrun_cons st s l : rrun st (s :: l) = rrun (rexec st s) l.
Proof. reflexivity. Qed.

Definition is_rtmp (f : rfile) : bool := match f with RfRtmp => true | _ => false end.
Definition is_itmp (f : rfile) : bool := match f with RfItmp => true | _ => false end.
Definition is_index (f : rfile) : bool := match f with RfIdx | RfItmp => true | _ => false end.

Lemma rlog_of_rget a b : rget a RfLog = rget b RfLog -> rlog a = rlog b.
Proof. cbn. congruence. Qed.

(* a run of appends to one file *)
Lemma appends_rtmp {A} (enc : A -> bytes) : forall (xs : list A) st c,
  rrtmp st = Some c ->
  rrtmp (rrun st (map (fun x => RWrite RfRtmp (enc x)) xs)) = Some (c ++ concat (map enc xs)).
Proof.
  induction xs as [|x xs IH]; intros st c Hc; cbn [map concat]; [now rewrite app_nil_r|].
  unfold rrun. cbn [fold_left]. fold (rrun (rexec st (RWrite RfRtmp (enc x))) (map (fun x => RWrite RfRtmp (enc x)) xs)).
  rewrite (IH _ (c ++ enc x)); [now rewrite app_assoc|]. cbn [rexec rget]. rewrite Hc. reflexivity.
Qed.

Lemma appends_itmp {A} (enc : A -> bytes) : forall (xs : list A) st c,
  ritmp st = Some c ->
  ritmp (rrun st (map (fun x => RWrite RfItmp (enc x)) xs)) = Some (c ++ concat (map enc xs)).
Proof.
  induction xs as [|x xs IH]; intros st c Hc; cbn [map concat]; [now rewrite app_nil_r|].
  unfold rrun. cbn [fold_left]. fold (rrun (rexec st (RWrite RfItmp (enc x))) (map (fun x => RWrite RfItmp (enc x)) xs)).
  rewrite (IH _ (c ++ enc x)); [now rewrite app_assoc|]. cbn [rexec rget]. rewrite Hc. reflexivity.
Qed.

Lemma forallb_map_const {A B} (f : B -> bool) (g : A -> B) l : (forall x, f (g x) = true) -> forallb f (map g l) = true.
Proof. intros Hf. induction l as [|x l IH]; [reflexivity|]. cbn. now rewrite Hf, IH. Qed.

(* ---------- the copy into <log>.recover *)

Lemma copy_only crc v ms : forallb (only_on is_rtmp) (copy_part crc v ms) = true.
Proof.
  unfold copy_part. rewrite !forallb_app. cbn [forallb only_on is_rtmp andb].
  rewrite forallb_map_const; [reflexivity|]. intros x. reflexivity.
Qed.

Lemma copy_result crc v ms st :
  rrtmp (rrun st (copy_part crc v ms)) = Some (enc_log crc v ms) /\
  rlog (rrun st (copy_part crc v ms)) = rlog st /\ ridx (rrun st (copy_part crc v ms)) = ridx st /\
  ritmp (rrun st (copy_part crc v ms)) = ritmp st.
Proof.
  split.
  - unfold copy_part. rewrite !rrun_app.
    set (st1 := rrun st [RRemove RfRtmp; RCreate RfRtmp (enc_log_header v)]).
    assert (H1 : rrtmp st1 = Some (enc_log_header v)) by reflexivity.
    pose proof (appends_rtmp (enc_rec crc v) ms st1 _ H1) as H2.
    unfold rrun at 1. cbn [fold_left rexec]. exact H2.
  - pose proof (copy_only crc v ms) as Ho.
    pose proof (rrun_keeps is_rtmp _ st RfLog Ho eq_refl) as HL. pose proof (rrun_keeps is_rtmp _ st RfIdx Ho eq_refl) as HI.
    pose proof (rrun_keeps is_rtmp _ st RfItmp Ho eq_refl) as HT. cbn [rget] in *. split; [congruence|]. split; assumption.
Qed.

Lemma copy_prefix_vis crc v ms st k :
  rlog (rrun st (firstn k (copy_part crc v ms))) = rlog st /\ ridx (rrun st (firstn k (copy_part crc v ms))) = ridx st.
Proof.
  pose proof (forallb_firstn _ _ k (copy_only crc v ms)) as Ho.
  pose proof (rrun_keeps is_rtmp _ st RfLog Ho eq_refl) as HL. pose proof (rrun_keeps is_rtmp _ st RfIdx Ho eq_refl) as HI.
  cbn [rget] in *. split; congruence.
Qed.

(* ---------- the index part *)

Lemma index_write_only p iv items : forallb (only_on is_itmp) (removelast (index_write_prog p iv items)) = true.
Proof.
  unfold index_write_prog. rewrite app_assoc. rewrite removelast_app by discriminate. cbn [removelast].
  rewrite !forallb_app. cbn [forallb only_on is_itmp andb]. rewrite forallb_map_const; [reflexivity|]. intros x. reflexivity.
Qed.

Lemma index_write_all_index p iv items : forallb (only_on is_index) (index_write_prog p iv items) = true.
Proof.
  unfold index_write_prog. rewrite !forallb_app. cbn [forallb only_on is_index andb].
  rewrite forallb_map_const; [reflexivity|]. intros x. reflexivity.
Qed.

Lemma index_write_result p iv items st :
  ridx (rrun st (index_write_prog p iv items)) = Some (enc_index iv p items) /\
  ritmp (rrun st (index_write_prog p iv items)) = None.
Proof.
  unfold index_write_prog. rewrite !rrun_app.
  set (st1 := rrun st [RRemove RfItmp; RCreate RfItmp (enc_idx_header iv p)]).
  assert (H1 : ritmp st1 = Some (enc_idx_header iv p)) by reflexivity.
  pose proof (appends_itmp (enc_item p) items st1 _ H1) as H2.
  set (st2 := rrun st1 _) in *. unfold rrun. cbn [fold_left rexec rget]. rewrite H2. cbn. split; reflexivity.
Qed.

Lemma firstn_removelast {A} (l : list A) k : (k < length l)%nat -> firstn k l = firstn k (removelast l).
Proof.
  revert k. induction l as [|x l IH]; intros k Hk; [cbn in Hk; lia|]. destruct k; [reflexivity|].
  destruct l as [|y l]; [cbn in Hk; lia|]. cbn [removelast firstn]. f_equal. apply IH. cbn in *. lia.
Qed.

(* the index file after any prefix of the index part: the old one, none, or the new one; the log is not touched *)
Lemma index_part_prefix p base idx items st k :
  ridx st = idx ->
  rlog (rrun st (firstn k (index_part p base idx items))) = rlog st /\
  (ridx (rrun st (firstn k (index_part p base idx items))) = idx \/
   ridx (rrun st (firstn k (index_part p base idx items))) = None \/
   ridx (rrun st (firstn k (index_part p base idx items))) = idx_after p base idx items).
Proof.
  intros Hi.
  assert (Hall : forallb (only_on is_index) (index_part p base idx items) = true).
  { unfold index_part. destruct idx as [ib|]; [|reflexivity]. destruct (index_read p base ib) as [[iv have]|]; [|reflexivity].
    destruct (list_eqb item_eqb have items); [reflexivity|]. cbn [forallb only_on is_index andb]. apply index_write_all_index. }
  split.
  { apply rlog_of_rget. apply (rrun_keeps is_index); [now apply forallb_firstn|reflexivity]. }
  unfold index_part, idx_after in *. destruct idx as [ib|]; [|destruct k; left; exact Hi].
  destruct (index_read p base ib) as [[iv have]|].
  2:{ destruct k as [|k]; [left; exact Hi|]. right; left. cbn [firstn]. destruct k; reflexivity. }
  destruct (list_eqb item_eqb have items); [destruct k; left; exact Hi|].
  destruct k as [|k]; [left; exact Hi|]. cbn [firstn]. unfold rrun. cbn [fold_left]. fold (rrun (rexec st (RRemove RfIdx)) (firstn k (index_write_prog p iv items))).
  set (st1 := rexec st (RRemove RfIdx)). assert (H1 : ridx st1 = None) by reflexivity.
  destruct (Nat.lt_ge_cases k (length (index_write_prog p iv items))) as [Hlt|Hge].
  - right; left. rewrite (firstn_removelast _ _ Hlt).
    pose proof (rrun_keeps is_itmp _ st1 RfIdx (forallb_firstn _ _ k (index_write_only p iv items)) eq_refl) as Hk. cbn [rget] in Hk. congruence.
  - right; right. rewrite firstn_all2 by exact Hge. apply index_write_result.
Qed.

Lemma index_part_result p base idx items st :
  ridx st = idx -> ridx (rrun st (index_part p base idx items)) = idx_after p base idx items.
Proof.
  intros Hi. unfold index_part, idx_after. destruct idx as [ib|]; [|exact Hi].
  destruct (index_read p base ib) as [[iv have]|]; [|reflexivity].
  destruct (list_eqb item_eqb have items); [exact Hi|].
  unfold rrun. cbn [fold_left]. fold (rrun (rexec st (RRemove RfIdx)) (index_write_prog p iv items)). apply index_write_result.
Qed.

(* ---------- torn appends never touch the log or the index file *)

Definition writes_tmp_only (s : rstep) : bool :=
  match s with RWrite f _ => is_rtmp f || is_itmp f | _ => true end.

Lemma rimage_vis st prog k j :
  forallb writes_tmp_only prog = true ->
  rlog (rimage st prog k j) = rlog (rrun st (firstn k prog)) /\ ridx (rimage st prog k j) = ridx (rrun st (firstn k prog)).
Proof.
  intros Hw. unfold rimage. destruct (nth_error prog k) as [s|] eqn:En; [|split; reflexivity].
  destruct s as [f|f hdr|f bs|f|a b]; try (split; reflexivity).
  assert (Hs : writes_tmp_only (RWrite f bs) = true).
  { rewrite forallb_forall in Hw. apply Hw. eapply nth_error_In; eassumption. }
  cbn [writes_tmp_only] in Hs. set (s0 := rrun st (firstn k prog)).
  destruct f; cbn in Hs; try discriminate.
  - pose proof (rexec_keeps is_rtmp (RWrite RfRtmp (firstn j bs)) s0 RfLog eq_refl eq_refl) as HL.
    pose proof (rexec_keeps is_rtmp (RWrite RfRtmp (firstn j bs)) s0 RfIdx eq_refl eq_refl) as HI. cbn [rget] in *. split; congruence.
  - pose proof (rexec_keeps is_itmp (RWrite RfItmp (firstn j bs)) s0 RfLog eq_refl eq_refl) as HL.
    pose proof (rexec_keeps is_itmp (RWrite RfItmp (firstn j bs)) s0 RfIdx eq_refl eq_refl) as HI. cbn [rget] in *. split; congruence.
Qed.

Lemma recover_prog_writes crc v ms swap p base idx items :
  writes_tmp_only swap = true ->
  forallb writes_tmp_only (copy_part crc v ms ++ [swap] ++ index_part p base idx items) = true.
Proof.
  intros Hs. rewrite !forallb_app. cbn [forallb]. rewrite Hs. cbn [andb].
  assert (H1 : forallb writes_tmp_only (copy_part crc v ms) = true).
  { unfold copy_part. rewrite !forallb_app. cbn. rewrite forallb_map_const; [reflexivity|]. intros x; reflexivity. }
  assert (H2 : forallb writes_tmp_only (index_part p base idx items) = true).
  { unfold index_part. destruct idx as [ib|]; [|reflexivity]. destruct (index_read p base ib) as [[iv have]|]; [|reflexivity].
    destruct (list_eqb item_eqb have items); [reflexivity|]. cbn [forallb writes_tmp_only andb]. unfold index_write_prog.
    rewrite !forallb_app. cbn. rewrite forallb_map_const; [reflexivity|]. intros x; reflexivity. }
  now rewrite H1, H2.
Qed.

(* ---------- the whole program: every prefix *)

Section Prefixes.
Variables (crc : bytes -> Z) (p : params) (base : Z) (v : ver) (ms : list msg) (items : list item).
Variables (b newlog : bytes) (idx : option bytes) (swap : rstep).
(* the swap installs the copy (when the scan met a corrupt tail) or drops it (then the log is already what it should be) *)
Hypothesis Hswap : (swap = RRename RfRtmp RfLog /\ newlog = enc_log crc v ms) \/ (swap = RRemove RfRtmp /\ newlog = b).

Let prog := copy_part crc v ms ++ [swap] ++ index_part p base idx items.

Lemma after_swap st : rlog st = b -> ridx st = idx ->
  let st2 := rexec (rrun st (copy_part crc v ms)) swap in rlog st2 = newlog /\ ridx st2 = idx /\ rrtmp st2 = None.
Proof.
  intros HL HI. destruct (copy_result crc v ms st) as (Ht & Hl & Hi & _). cbv zeta.
  destruct Hswap as [[-> ->]|[-> ->]]; cbn [rexec rget].
  - rewrite Ht. cbn [rset rlog ridx rrtmp ritmp]. split; [reflexivity|]. split; [congruence|reflexivity].
  - cbn [rset rlog ridx rrtmp ritmp]. split; [congruence|]. split; [congruence|reflexivity].
Qed.

Lemma prefix_vis st k : rlog st = b -> ridx st = idx ->
  (rlog (rrun st (firstn k prog)) = b \/ rlog (rrun st (firstn k prog)) = newlog) /\
  (ridx (rrun st (firstn k prog)) = idx \/ ridx (rrun st (firstn k prog)) = None \/
   ridx (rrun st (firstn k prog)) = idx_after p base idx items).
Proof.
  intros HL HI. unfold prog. rewrite firstn_app.
  destruct (Nat.le_gt_cases k (length (copy_part crc v ms))) as [Hle|Hgt].
  - replace (k - length (copy_part crc v ms))%nat with O by lia. cbn [firstn]. rewrite app_nil_r.
    destruct (copy_prefix_vis crc v ms st k) as [Hl Hi]. split; [left; congruence|left; congruence].
  - rewrite firstn_all2 by lia. remember (k - length (copy_part crc v ms))%nat as k1. destruct k1 as [|k1]; [lia|].
    cbn [app firstn]. rewrite rrun_app, rrun_cons.
    destruct (after_swap st HL HI) as (Hl2 & Hi2 & _). cbv zeta in *.
    destruct (index_part_prefix p base idx items _ k1 Hi2) as [Hl3 Hi3]. split; [right; congruence|exact Hi3].
Qed.

Lemma full_run st : rlog st = b -> ridx st = idx ->
  rlog (rrun st prog) = newlog /\ ridx (rrun st prog) = idx_after p base idx items /\ rrtmp (rrun st prog) = None.
Proof.
  intros HL HI. unfold prog. rewrite rrun_app. cbn [app]. rewrite rrun_cons.
  destruct (after_swap st HL HI) as (Hl2 & Hi2 & Ht2). cbv zeta in *.
  destruct (index_part_prefix p base idx items _ (length (index_part p base idx items)) Hi2) as [Hl3 _].
  rewrite firstn_all in Hl3. split; [congruence|]. split; [now apply index_part_result|].
  assert (Hall : forallb (only_on is_index) (index_part p base idx items) = true).
  { unfold index_part. destruct idx as [ib|]; [|reflexivity]. destruct (index_read p base ib) as [[iv have]|]; [|reflexivity].
    destruct (list_eqb item_eqb have items); [reflexivity|]. cbn [forallb only_on is_index andb]. apply index_write_all_index. }
  pose proof (rrun_keeps is_index _ (rexec (rrun st (copy_part crc v ms)) swap) RfRtmp Hall eq_refl) as Hk. cbn [rget] in Hk. congruence.
Qed.

End Prefixes.

(* ---------- Recover after a crash inside Recover *)

Section Restart.
Variables crc H : bytes -> Z.
Hypothesis Hcrc : crc_range crc.
Hypothesis Hhash : forall k, 0 <= H k < two64z.

Lemma Ok_inj {A} (a b : A) : @Ok A a = Ok b -> a = b.
Proof. intros E. now injection E. Qed.

Definition swap_of (fin : scan_end) : rstep := match fin with ScanCorrupt => RRename RfRtmp RfLog | _ => RRemove RfRtmp end.

Lemma recover_unfold p base b idx newlog idx' :
  recover_bytes crc H p base b idx = Ok (newlog, idx') ->
  exists v recs e fin,
    log_version b base = Ok v /\ scan_log crc (scan_fuel_of b) v b (hdr_size v) = (recs, e, fin) /\
    ((fin = ScanCorrupt /\ newlog = enc_log crc v (map snd recs)) \/ (fin = ScanEOF /\ newlog = b)) /\
    (forall i, recover_bytes crc H p base b i = Ok (newlog, idx_after p base i (scan_items H p recs))) /\
    recover_prog crc H p base b idx =
      Ok (copy_part crc v (map snd recs) ++ [swap_of fin] ++ index_part p base idx (scan_items H p recs)).
Proof.
  intros E. unfold recover_bytes in E. destruct (log_version b base) as [v|] eqn:Ev; [|discriminate]. cbn [bind] in E.
  destruct (scan_log crc (scan_fuel_of b) v b (hdr_size v)) as [[recs e] fin] eqn:Es.
  exists v, recs, e, fin. split; [reflexivity|]. split; [exact Es|].
  assert (Hnf : fin <> ScanFuel) by (intros ->; discriminate).
  set (newl := match fin with ScanCorrupt => enc_log crc v (map snd recs) | _ => b end) in *.
  assert (Hn : newlog = newl).
  { destruct fin; try congruence;
      (destruct idx as [ib|]; [destruct (index_read p base ib) as [[iv have]|];
         [destruct (list_eqb item_eqb have (scan_items H p recs))|]|]; injection E as <- _; reflexivity). }
  split; [destruct fin; [right|left|congruence]; (split; [reflexivity|exact Hn])|].
  split.
  - intros i. unfold recover_bytes. rewrite Ev. cbn [bind]. rewrite Es. fold newl. rewrite Hn. unfold idx_after.
    destruct fin; try congruence;
      (destruct i as [ib|]; [destruct (index_read p base ib) as [[iv have]|];
         [destruct (list_eqb item_eqb have (scan_items H p recs))|]|]; reflexivity).
  - unfold recover_prog. rewrite Ev. cbn [bind]. rewrite Es. destruct fin; try congruence; reflexivity.
Qed.

(* Recover on a clean log, whatever the index file holds *)
Lemma recover_clean_any p base v ms i :
  Forall msg_ok ms -> log_version (enc_log crc v ms) base = Ok v ->
  recover_bytes crc H p base (enc_log crc v ms) i =
    Ok (enc_log crc v ms, idx_after p base i (scan_items H p (placed v (hdr_size v) ms))).
Proof.
  intros Hall Hv. unfold recover_bytes. rewrite Hv. cbn [bind]. rewrite (scan_encoded_log crc v ms Hcrc Hall). unfold idx_after.
  destruct i as [ib|]; [|reflexivity]. destruct (index_read p base ib) as [[iv have]|]; [|reflexivity].
  destruct (list_eqb item_eqb have _); reflexivity.
Qed.

Section OneSegment.
Variables (p : params) (base : Z) (b : bytes) (idx : option bytes) (newlog : bytes) (idx' : option bytes).
Hypothesis Hok : bytes_ok b.
Hypothesis Hlen : zlen b < two63.
Hypothesis Hbase : 0 <= base < two63.
(* the segment file is named after its first record *)
Hypothesis Hnamed : forall v m nxt, log_version b base = Ok v -> read_rec crc v b (hdr_size v) = Ok (m, nxt) -> moff m = base.
Hypothesis Hrec : recover_bytes crc H p base b idx = Ok (newlog, idx').

Lemma restart_facts :
  exists v ms items swap,
    recover_prog crc H p base b idx = Ok (copy_part crc v ms ++ [swap] ++ index_part p base idx items) /\
    ((swap = RRename RfRtmp RfLog /\ newlog = enc_log crc v ms) \/ (swap = RRemove RfRtmp /\ newlog = b)) /\
    idx' = idx_after p base idx items /\
    (forall i, recover_bytes crc H p base b i = Ok (newlog, idx_after p base i items)) /\
    (forall i, recover_bytes crc H p base newlog i = Ok (newlog, idx_after p base i items)).
Proof.
  destruct (recover_unfold p base b idx newlog idx' Hrec) as (v & recs & e & fin & Ev & Es & Hfin & Hany & Hprog).
  destruct (scan_file crc v b base _ _ _ _ Hok Ev Es) as (Hr & Hall & He & Hele & Hsub & Hend).
  set (ms := map snd recs) in *.
  assert (Hnl : newlog = enc_log crc v ms).
  { destruct Hfin as [[_ Hn]|[Hf Hn]]; [exact Hn|]. subst fin. rewrite Hn. rewrite <- Hsub.
    assert (0 <= e <= zlen b) by (pose proof (recs_size_nonneg_codec v ms); unfold log_size in He; destruct v; cbn [hdr_size] in He; lia).
    pose proof (split2 b e ltac:(lia)) as Hsp. replace (zlen b - e) with 0 in Hsp by lia. rewrite sub_zero, app_nil_r in Hsp. exact Hsp. }
  assert (Hbpre : exists rest, b = newlog ++ rest).
  { exists (sub b e (zlen b - e)). rewrite Hnl, <- Hsub. apply split2.
    pose proof (recs_size_nonneg_codec v ms). unfold log_size in He. destruct v; cbn [hdr_size] in He; lia. }
  assert (Hfirst : match ms with [] => True | m :: _ => moff m = base end).
  { destruct ms as [|m r] eqn:Ems; [exact I|]. apply Forall_cons_iff in Hall. destruct Hall as [Hm _].
    apply (Hnamed v m (hdr_size v + rec_size v m) Ev). destruct Hbpre as (rest & Hb).
    rewrite Hb, Hnl. unfold enc_log. cbn [map concat]. rewrite <- !app_assoc.
    rewrite <- (enc_log_header_length v). apply read_rec_roundtrip; assumption. }
  assert (Hv' : log_version newlog base = Ok v).
  { rewrite Hnl. destruct v; [apply log_version_enc_v1|apply log_version_enc_v2].
    destruct ms as [|m r]; [exact I|]. split; [exact Hfirst|exact Hbase]. }
  exists v, ms, (scan_items H p recs), (swap_of fin).
  split; [exact Hprog|]. split.
  { destruct Hfin as [[-> Hn]|[-> Hn]]; [left|right]; (split; [reflexivity|assumption]). }
  split.
  { pose proof (Hany idx) as E. rewrite Hrec in E. now injection E. }
  split; [exact Hany|].
  intros i. rewrite Hnl. rewrite (recover_clean_any p base v ms i Hall ltac:(rewrite <- Hnl; exact Hv')). now rewrite <- Hr.
Qed.

(* THE THEOREM: k whole steps of Recover, j bytes of an append in flight, stale temporary files of earlier attempts *)
Theorem recover_restartable prog rt it k j :
  recover_prog crc H p base b idx = Ok prog ->
  let img := rimage (mkRf b rt idx it) prog k j in
  exists i'',
    recover_bytes crc H p base (rlog img) (ridx img) = Ok (newlog, i'') /\ (i'' = idx' \/ i'' = None) /\
    check_bytes crc H p base newlog i'' = Ok tt.
Proof.
  intros Hp. destruct restart_facts as (v & ms & items & swap & Hprog & Hswap & Hi' & Hb & Hn).
  rewrite Hprog in Hp. apply Ok_inj in Hp. subst prog. cbv zeta.
  set (st0 := mkRf b rt idx it).
  assert (Hw : forallb writes_tmp_only (copy_part crc v ms ++ [swap] ++ index_part p base idx items) = true).
  { apply recover_prog_writes. destruct Hswap as [[-> _]|[-> _]]; reflexivity. }
  destruct (rimage_vis st0 _ k j Hw) as [EL EI]. rewrite EL, EI.
  destruct (prefix_vis crc p base v ms items b newlog idx swap Hswap st0 k eq_refl eq_refl) as [HL HI].
  (* the uninterrupted Recover and a Recover without index file both end in a segment that passes Check and on which
     recovering again changes nothing *)
  destruct (recover_then_check crc H Hcrc Hhash p base b idx newlog idx' Hok Hlen Hbase Hnamed Hrec) as [Hchk Hidem].
  pose proof (Hb None) as HbN. cbn [idx_after] in HbN.
  destruct (recover_then_check crc H Hcrc Hhash p base b None newlog None Hok Hlen Hbase Hnamed HbN) as [HchkN _].
  assert (Hfix : idx_after p base idx' items = idx').
  { pose proof (Hn idx') as E. rewrite Hidem in E. now injection E. }
  assert (Hres : recover_bytes crc H p base (rlog (rrun st0 (firstn k (copy_part crc v ms ++ [swap] ++ index_part p base idx items))))
                   (ridx (rrun st0 (firstn k (copy_part crc v ms ++ [swap] ++ index_part p base idx items))))
                 = Ok (newlog, idx_after p base (ridx (rrun st0 (firstn k (copy_part crc v ms ++ [swap] ++ index_part p base idx items)))) items)).
  { destruct HL as [-> | ->]; [apply Hb|apply Hn]. }
  rewrite Hres. destruct HI as [-> | [-> | ->]].
  - exists idx'. split; [now rewrite <- Hi'|]. split; [now left|exact Hchk].
  - exists None. split; [reflexivity|]. split; [now right|exact HchkN].
  - rewrite <- Hi'. exists idx'. split; [now rewrite Hfix|]. split; [now left|exact Hchk].
Qed.

(* the program run to its end leaves what recover_bytes computes, and no temporary copy of the log *)
Theorem recover_prog_computes prog rt it :
  recover_prog crc H p base b idx = Ok prog ->
  rlog (rrun (mkRf b rt idx it) prog) = newlog /\ ridx (rrun (mkRf b rt idx it) prog) = idx' /\
  rrtmp (rrun (mkRf b rt idx it) prog) = None.
Proof.
  intros Hp. destruct restart_facts as (v & ms & items & swap & Hprog & Hswap & Hi' & _ & _).
  rewrite Hprog in Hp. apply Ok_inj in Hp. subst prog. rewrite Hi'.
  exact (full_run crc p base v ms items b newlog idx swap Hswap (mkRf b rt idx it) eq_refl eq_refl).
Qed.

End OneSegment.
End Restart.

(* ---------- the premises are satisfiable: a concrete head with a torn tail and an index that lags one item behind.
   Recover renames the copy over the log and rewrites the index (13 steps); every crash image - all k, all j up to the
   longest append - recovers to the same log and an index that is the new one or absent.  Evaluated by the kernel. *)
Definition ex_p : params := mkParams true true.
Definition ex_m0 : msg := mkMsg 0 5 [97%N] [98%N; 98%N].
Definition ex_m1 : msg := mkMsg 1 6 [98%N] [99%N].
Definition ex_log : bytes := enc_log crc32c V2 [ex_m0; ex_m1] ++ [1%N; 2%N; 3%N].
Definition ex_idx : option bytes := Some (enc_index V2 ex_p (scan_items fnv64a ex_p [(8, ex_m0)])).

Definition opt_bytes_eqb (a b : option bytes) : bool :=
  match a, b with Some x, Some y => bytes_eqb x y | None, None => true | _, _ => false end.

Definition ex_ok : bool :=
  match recover_bytes crc32c fnv64a ex_p 0 ex_log ex_idx, recover_prog crc32c fnv64a ex_p 0 ex_log ex_idx with
  | Ok (newlog, idx'), Ok prog =>
    (13 =? Z.of_nat (length prog)) && bytes_eqb newlog (enc_log crc32c V2 [ex_m0; ex_m1]) &&
    negb (opt_bytes_eqb idx' ex_idx) && negb (opt_bytes_eqb idx' None) &&
    forallb (fun k => forallb (fun j =>
        let img := rimage (mkRf ex_log (Some [7%N]) ex_idx None) prog k j in
        match recover_bytes crc32c fnv64a ex_p 0 (rlog img) (ridx img) with
        | Ok (l2, i2) => bytes_eqb l2 newlog && (opt_bytes_eqb i2 idx' || opt_bytes_eqb i2 None)
        | Err _ => false
        end) (seq 0 41)) (seq 0 15)
  | _, _ => false
  end.

Example recover_restartable_example : ex_ok = true.
Proof. vm_compute. reflexivity. Qed.

(* ---------- Migrate of one segment: at every crash point the segment is clean and holds the same messages *)

Lemma placed_at_placed v : forall ms pos, placed_at v pos ms = placed v pos ms.
Proof. induction ms as [|m r IH]; intros pos; [reflexivity|]. cbn [placed_at placed]. now rewrite IH. Qed.

Lemma map_snd_placed v : forall ms pos, map snd (placed v pos ms) = ms.
Proof. induction ms as [|m r IH]; intros pos; [reflexivity|]. cbn [placed map snd]. now rewrite IH. Qed.

Section Migrate.
Variables crc H : bytes -> Z.
Hypothesis Hcrc : crc_range crc.
Hypothesis Hhash : forall k, 0 <= H k < two64z.

Lemma check_clean p base v ms idx :
  Forall msg_ok ms -> log_version (enc_log crc v ms) base = Ok v ->
  index_is p base idx (scan_items H p (placed v (hdr_size v) ms)) ->
  check_bytes crc H p base (enc_log crc v ms) idx = Ok tt.
Proof.
  intros Hall Hv Hidx. unfold check_bytes. rewrite Hv. cbn [bind]. rewrite (scan_encoded_log crc v ms Hcrc Hall).
  destruct idx as [ib|]; [|reflexivity]. destruct Hidx as (iv & Hir). rewrite Hir. cbn [bind snd].
  replace (list_eqb item_eqb _ _) with true by (symmetry; apply items_eqb_eq; reflexivity). reflexivity.
Qed.

Variables (p : params) (base : Z) (v mv iv : ver) (ms : list msg) (idx0 : option bytes).
Hypothesis Hall : Forall msg_ok ms.
Hypothesis Hbase : 0 <= base < two63.
Hypothesis Hfirst : match ms with [] => True | m :: _ => moff m = base end.   (* the file is named after its first record *)
Hypothesis Hdiff : ver_eqb v mv = false.
Hypothesis Hsize : hdr_size mv + recs_size mv ms < two63.
(* the segment is clean before: its index file is absent or the one derived from its log *)
Hypothesis Hidx0 : index_is p base idx0 (scan_items H p (placed v (hdr_size v) ms)).

Let oldlog := enc_log crc v ms.
Let newlog := enc_log crc mv ms.
Let items' := scan_items H p (placed mv (hdr_size mv) ms).

Lemma version_of_enc w : log_version (enc_log crc w ms) base = Ok w.
Proof.
  destruct w; [apply log_version_enc_v1|apply log_version_enc_v2].
  destruct ms as [|m r]; [exact I|]. split; [exact Hfirst|exact Hbase].
Qed.

Lemma migrate_prog_eq :
  migrate_prog crc H p base mv iv oldlog =
    Ok ([RRemove RfIdx] ++ copy_part crc mv ms ++ [RRename RfRtmp RfLog] ++ index_write_prog p iv items').
Proof.
  unfold migrate_prog, oldlog. rewrite (version_of_enc v). cbn [bind]. rewrite Hdiff.
  rewrite (scan_encoded_log crc v ms Hcrc Hall). rewrite map_snd_placed. unfold items'. now rewrite placed_at_placed.
Qed.

Lemma new_index_is : index_is p base (Some (enc_index iv p items')) items'.
Proof.
  exists iv. apply index_read_enc.
  - unfold items'. apply (scan_items_ok H Hhash); [exact Hall|destruct mv; cbn; lia|exact Hsize].
  - intros ->. unfold items', scan_items. destruct ms as [|m r]; [exact I|]. cbn [placed]. cbn [ioff new_item].
    split; [exact Hfirst|lia].
Qed.

(* the four directories a crash can leave, all clean, all holding ms *)
Definition migrate_good (st : rfiles) : Prop :=
  (rlog st = oldlog /\ (ridx st = idx0 \/ ridx st = None)) \/
  (rlog st = newlog /\ (ridx st = None \/ ridx st = Some (enc_index iv p items'))).

Lemma migrate_good_checks st : migrate_good st ->
  check_bytes crc H p base (rlog st) (ridx st) = Ok tt /\ exists w, (w = v \/ w = mv) /\ rlog st = enc_log crc w ms.
Proof.
  intros [[-> Hi]|[-> Hi]].
  - split; [|exists v; split; [now left|reflexivity]]. apply check_clean; [exact Hall|apply version_of_enc|].
    destruct Hi as [-> | ->]; [exact Hidx0|exact I].
  - split; [|exists mv; split; [now right|reflexivity]]. apply check_clean; [exact Hall|apply version_of_enc|].
    destruct Hi as [-> | ->]; [exact I|exact new_index_is].
Qed.

Lemma migrate_prefix rt it k :
  migrate_good (rrun (mkRf oldlog rt idx0 it)
     (firstn k ([RRemove RfIdx] ++ copy_part crc mv ms ++ [RRename RfRtmp RfLog] ++ index_write_prog p iv items'))).
Proof.
  set (st0 := mkRf oldlog rt idx0 it). destruct k as [|k]; [left; split; [reflexivity|now left]|].
  cbn [app firstn]. rewrite rrun_cons. set (st1 := rexec st0 (RRemove RfIdx)).
  assert (L1 : rlog st1 = oldlog) by reflexivity. assert (I1 : ridx st1 = None) by reflexivity.
  rewrite firstn_app. destruct (Nat.le_gt_cases k (length (copy_part crc mv ms))) as [Hle|Hgt].
  - replace (k - length (copy_part crc mv ms))%nat with O by lia. cbn [firstn]. rewrite app_nil_r.
    destruct (copy_prefix_vis crc mv ms st1 k) as [Hl Hi]. left. split; [congruence|right; congruence].
  - rewrite firstn_all2 by lia. remember (k - length (copy_part crc mv ms))%nat as k1. destruct k1 as [|k1]; [lia|].
    cbn [app firstn]. rewrite rrun_app, rrun_cons.
    destruct (copy_result crc mv ms st1) as (Ht & Hl & Hi & _).
    set (st2 := rexec (rrun st1 (copy_part crc mv ms)) (RRename RfRtmp RfLog)).
    assert (L2 : rlog st2 = newlog /\ ridx st2 = None).
    { unfold st2. cbn [rexec rget]. rewrite Ht. cbn [rset rlog ridx rrtmp ritmp]. split; [reflexivity|congruence]. }
    destruct L2 as [L2 I2]. right.
    assert (Hlog : rlog (rrun st2 (firstn k1 (index_write_prog p iv items'))) = newlog).
    { rewrite <- L2. apply rlog_of_rget. apply (rrun_keeps is_index); [apply forallb_firstn, index_write_all_index|reflexivity]. }
    split; [exact Hlog|].
    destruct (Nat.lt_ge_cases k1 (length (index_write_prog p iv items'))) as [Hlt|Hge].
    + left. rewrite (firstn_removelast _ _ Hlt).
      pose proof (rrun_keeps is_itmp _ st2 RfIdx (forallb_firstn _ _ k1 (index_write_only p iv items')) eq_refl) as Hk.
      cbn [rget] in Hk. congruence.
    + right. rewrite firstn_all2 by exact Hge. apply index_write_result.
Qed.

(* THE THEOREM: k whole steps, j bytes of an append in flight, any stale temporary files *)
Theorem migrate_crash_safe prog rt it k j :
  migrate_prog crc H p base mv iv oldlog = Ok prog ->
  let img := rimage (mkRf oldlog rt idx0 it) prog k j in
  check_bytes crc H p base (rlog img) (ridx img) = Ok tt /\ exists w, (w = v \/ w = mv) /\ rlog img = enc_log crc w ms.
Proof.
  intros Hp. rewrite migrate_prog_eq in Hp. apply Ok_inj in Hp. subst prog. cbv zeta.
  set (prog := [RRemove RfIdx] ++ copy_part crc mv ms ++ [RRename RfRtmp RfLog] ++ index_write_prog p iv items').
  assert (Hw : forallb writes_tmp_only prog = true).
  { unfold prog. rewrite !forallb_app. cbn [forallb writes_tmp_only andb].
    assert (H1 : forallb writes_tmp_only (copy_part crc mv ms) = true).
    { unfold copy_part. rewrite !forallb_app. cbn. rewrite forallb_map_const; [reflexivity|]. intros x; reflexivity. }
    assert (H2 : forallb writes_tmp_only (index_write_prog p iv items') = true).
    { unfold index_write_prog. rewrite !forallb_app. cbn. rewrite forallb_map_const; [reflexivity|]. intros x; reflexivity. }
    now rewrite H1, H2. }
  destruct (rimage_vis (mkRf oldlog rt idx0 it) prog k j Hw) as [EL EI].
  pose proof (migrate_prefix rt it k) as G. fold prog in G.
  destruct (migrate_good_checks _ G) as [Hc (w & Hw' & Hl)]. rewrite EL, EI. split; [exact Hc|]. exists w. split; [exact Hw'|exact Hl].
Qed.

(* run to its end: the log in the target version, the index derived from it, no temporary copy *)
Theorem migrate_prog_result prog rt it :
  migrate_prog crc H p base mv iv oldlog = Ok prog ->
  rlog (rrun (mkRf oldlog rt idx0 it) prog) = enc_log crc mv ms /\
  ridx (rrun (mkRf oldlog rt idx0 it) prog) = Some (enc_index iv p (scan_items H p (placed mv (hdr_size mv) ms))).
Proof.
  intros Hp. rewrite migrate_prog_eq in Hp. apply Ok_inj in Hp. subst prog.
  cbn [app]. rewrite rrun_cons, rrun_app, rrun_cons.
  set (st1 := rexec (mkRf oldlog rt idx0 it) (RRemove RfIdx)).
  destruct (copy_result crc mv ms st1) as (Ht & _ & _ & _).
  set (st2 := rexec (rrun st1 (copy_part crc mv ms)) (RRename RfRtmp RfLog)).
  assert (L2 : rlog st2 = newlog) by (unfold st2; cbn [rexec rget]; rewrite Ht; reflexivity).
  split; [|apply index_write_result].
  change (enc_log crc mv ms) with newlog. rewrite <- L2. apply rlog_of_rget. apply (rrun_keeps is_index); [apply index_write_all_index|reflexivity].
Qed.

End Migrate.

(* ---------- C06: during Recover, Migrate and index.Write the segment's log and index files are durable at every step:
   both only ever write to temporary files, fsync them, and rename them into place - a power loss at any point cuts
   nothing from the files klevdb will read *)

Lemma ld_app s a : forall b, live_durable s (a ++ b) <-> live_durable s a /\ live_durable (srun s a) b.
Proof.
  revert s. induction a as [|x a IH]; intros s b; cbn [app live_durable srun fold_left]; [tauto|].
  fold (srun (sexec s x) a). rewrite IH. tauto.
Qed.

Lemma srun_app s a b : srun s (a ++ b) = srun (srun s a) b.
Proof. unfold srun. apply fold_left_app. Qed.

Lemma writes_rtmp_flags {A} (enc : A -> bytes) : forall xs l r i t,
  l = true -> i = true ->
  live_durable (mkS l r i t) (map (fun x => RWrite RfRtmp (enc x)) xs) /\
  exists r', srun (mkS l r i t) (map (fun x => RWrite RfRtmp (enc x)) xs) = mkS l r' i t.
Proof.
  induction xs as [|x xs IH]; intros l r i t Hl Hi; cbn [map live_durable srun fold_left]; [split; [exact I|eexists; reflexivity]|].
  cbn [sexec sset s_log s_idx s_rtmp s_itmp]. destruct (IH l false i t Hl Hi) as [H1 (r' & H2)].
  split; [split; [exact Hl|split; [exact Hi|exact H1]]|]. exists r'. exact H2.
Qed.

Lemma writes_itmp_flags {A} (enc : A -> bytes) : forall xs l r i t,
  l = true -> i = true ->
  live_durable (mkS l r i t) (map (fun x => RWrite RfItmp (enc x)) xs) /\
  exists t', srun (mkS l r i t) (map (fun x => RWrite RfItmp (enc x)) xs) = mkS l r i t'.
Proof.
  induction xs as [|x xs IH]; intros l r i t Hl Hi; cbn [map live_durable srun fold_left]; [split; [exact I|eexists; reflexivity]|].
  cbn [sexec sset s_log s_idx s_rtmp s_itmp]. destruct (IH l r i false Hl Hi) as [H1 (t' & H2)].
  split; [split; [exact Hl|split; [exact Hi|exact H1]]|]. exists t'. exact H2.
Qed.

(* the copy into the temporary log: live files untouched, the copy durable at the end *)
Lemma copy_part_durable crc v ms r t :
  live_durable (mkS true r true t) (copy_part crc v ms) /\ srun (mkS true r true t) (copy_part crc v ms) = mkS true true true t.
Proof.
  unfold copy_part. rewrite !ld_app, !srun_app. cbn [live_durable srun fold_left sexec sset s_log s_idx s_rtmp s_itmp].
  destruct (writes_rtmp_flags (enc_rec crc v) ms true true true t eq_refl eq_refl) as [H1 (r' & H2)].
  rewrite H2. cbn [live_durable fold_left sexec sset s_log s_idx s_rtmp s_itmp].
  split; [|reflexivity]. split; [repeat split|]. split; [exact H1|]. repeat split.
Qed.

Lemma index_write_durable p iv items r t :
  live_durable (mkS true r true t) (index_write_prog p iv items) /\
  srun (mkS true r true t) (index_write_prog p iv items) = mkS true r true true.
Proof.
  unfold index_write_prog. rewrite !ld_app, !srun_app. cbn [live_durable srun fold_left sexec sset s_log s_idx s_rtmp s_itmp].
  destruct (writes_itmp_flags (enc_item p) items true r true true eq_refl eq_refl) as [H1 (t' & H2)].
  rewrite H2. cbn [live_durable fold_left sexec sset sget s_log s_idx s_rtmp s_itmp].
  split; [|reflexivity]. split; [repeat split|]. split; [exact H1|]. repeat split.
Qed.

Theorem recover_prog_live_files_durable crc H p base b idx prog r t :
  recover_prog crc H p base b idx = Ok prog -> live_durable (mkS true r true t) prog.
Proof.
  unfold recover_prog. destruct (log_version b base) as [v|]; [|discriminate]. cbn [bind].
  destruct (scan_log crc (scan_fuel_of b) v b (hdr_size v)) as [[recs e] fin].
  assert (Hgen : forall swap, (swap = RRename RfRtmp RfLog \/ swap = RRemove RfRtmp) ->
            live_durable (mkS true r true t) (copy_part crc v (map snd recs) ++ [swap] ++ index_part p base idx (scan_items H p recs))).
  { intros swap Hs. rewrite ld_app. destruct (copy_part_durable crc v (map snd recs) r t) as [H1 H2]. split; [exact H1|].
    rewrite H2. cbn [app live_durable].
    assert (Hsw : sexec (mkS true true true t) swap = mkS true true true t) by (destruct Hs as [-> | ->]; reflexivity).
    rewrite Hsw. split; [reflexivity|]. split; [reflexivity|].
    unfold index_part. destruct idx as [ib|]; [|exact I]. destruct (index_read p base ib) as [[iv have]|]; [|repeat split].
    destruct (list_eqb item_eqb have (scan_items H p recs)); [exact I|]. cbn [live_durable sexec sset s_log s_idx s_rtmp s_itmp].
    split; [reflexivity|]. split; [reflexivity|]. apply index_write_durable. }
  destruct fin; intros E; try discriminate; apply Ok_inj in E; subst prog; apply Hgen; [now right|now left].
Qed.

Theorem migrate_prog_live_files_durable crc H p base mv iv b prog r t :
  migrate_prog crc H p base mv iv b = Ok prog -> live_durable (mkS true r true t) prog.
Proof.
  unfold migrate_prog. destruct (log_version b base) as [v|]; [|discriminate]. cbn [bind].
  destruct (ver_eqb v mv); [intros E; apply Ok_inj in E; subst prog; exact I|].
  destruct (scan_log crc (scan_fuel_of b) v b (hdr_size v)) as [[recs e] fin]. destruct fin; try discriminate.
  intros E. apply Ok_inj in E. subst prog. cbn [app live_durable sexec sset s_log s_idx s_rtmp s_itmp].
  split; [reflexivity|]. split; [reflexivity|]. rewrite ld_app.
  destruct (copy_part_durable crc mv (map snd recs) r t) as [H1 H2]. split; [exact H1|]. rewrite H2.
  cbn [app live_durable sexec sset sget s_log s_idx s_rtmp s_itmp]. split; [reflexivity|]. split; [reflexivity|].
  apply index_write_durable.
Qed.
