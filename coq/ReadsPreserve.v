(* ReadsPreserve.v — every read operation (Get, GetByKey, ConsumeByKey, GetByTime, NextOffset, Stat)
   leaves the invariant and the abstract log unchanged: reads only (re)build index files. *)
From KV Require Import Base Model ListAux SearchProofs SegProofs ReaderProofs Spec LogInv ConsumeProofs.

Section ReadsPreserve.
Variable H : bytes -> Z.

Definition keeps (c : cfg) (st st1 : lstate) : Prop :=
  Inv st1 /\ abs st1 = abs st /\ opened st1 = Some c /\ zlen (segs st1) = zlen (segs st).

Lemma keeps_refl c st : Inv st -> opened st = Some c -> keeps c st st.
Proof. intros HI Hc. split; [assumption|]. split; [reflexivity|]. split; [assumption|reflexivity]. Qed.

Lemma keeps_trans c a b d : keeps c a b -> keeps c b d -> keeps c a d.
Proof. intros (I1 & A1 & O1 & L1) (I2 & A2 & O2 & L2). split; [assumption|]. split; [congruence|]. split; [assumption|congruence]. Qed.

Lemma with_index_keeps c st i st1 s items :
  Inv st -> opened st = Some c -> with_index H c st i = Ok (st1, s, items) -> keeps c st st1.
Proof. intros HI Hc Hw. exact (with_index_preserves H c st i st1 s items HI Hc Hw). Qed.

(* the same relation without hypotheses, also covering the virtual handle of an empty read-only directory,
   on which reads change nothing at all *)
Definition R (c : cfg) (st st1 : lstate) : Prop :=
  (Inv st -> opened st = Some c -> keeps c st st1) /\ (lvirt st = true -> st1 = st).

Lemma R_refl c st : R c st st.
Proof. split; [apply keeps_refl|reflexivity]. Qed.

Lemma R_trans c a b d : R c a b -> R c b d -> R c a d.
Proof.
  intros [K1 V1] [K2 V2]. split.
  - intros HI Hc. pose proof (K1 HI Hc) as Hk. pose proof Hk as (I1 & _ & O1 & _). exact (keeps_trans _ _ _ _ Hk (K2 I1 O1)).
  - intros Hv. pose proof (V1 Hv) as ->. exact (V2 Hv).
Qed.

Lemma with_index_R c st i st1 s items : with_index H c st i = Ok (st1, s, items) -> R c st st1.
Proof.
  intros Hw. split; [intros HI Hc; eapply with_index_keeps; eassumption|].
  intros Hv. unfold with_index in Hw. destruct (znth (segs st) i); [|discriminate]. rewrite Hv in Hw. now injection Hw as <- _ _.
Qed.

Lemma R_result c st st1 :
  R c st st1 -> Inv st -> opened st = Some c -> Inv st1 /\ abs st1 = abs st /\ opened st1 = opened st.
Proof. intros [K _] HI Hc. destruct (K HI Hc) as (I1 & A1 & O1 & _). split; [assumption|]. split; [assumption|congruence]. Qed.

Section Generic.
Variable Rel : cfg -> lstate -> lstate -> Prop.
Hypothesis Rel_refl : forall c st, Rel c st st.
Hypothesis Rel_trans : forall c a b d, Rel c a b -> Rel c b d -> Rel c a d.
Hypothesis Rel_wi : forall c st i st1 s items, with_index H c st i = Ok (st1, s, items) -> Rel c st st1.

Ltac wi_step E Hk :=
  match type of E with
  | context [with_index H ?c ?st ?i] =>
    let Hw := fresh "Hw" in
    destruct (with_index H c st i) as [[[?sa ?s] ?items]|] eqn:Hw; [|discriminate];
    cbn [bind] in E; pose proof (Rel_wi _ _ _ _ _ _ Hw) as Hk
  end.

Lemma get_newest_back_G c n : forall st i st1 m,
  get_newest_back H c st n i = Ok (st1, m) -> Rel c st st1.
Proof using Rel_refl Rel_trans Rel_wi.
  induction n as [|n IH]; intros st i st1 m E; cbn [get_newest_back] in E; wi_step E Hk.
  - destruct (reader_get s items (is_last st i) OffsetNewest) as [m0|e]; [injection E as <- <-; exact Hk|].
    destruct e; discriminate.
  - destruct (reader_get s items (is_last st i) OffsetNewest) as [m0|e]; [injection E as <- <-; exact Hk|].
    destruct e; try discriminate. destruct (0 <? i); [|discriminate].
    eapply Rel_trans; [exact Hk|]. eapply IH; eassumption.
Qed.

Lemma log_get_G st off st1 m c : opened st = Some c -> log_get H st off = Ok (st1, m) -> Rel c st st1.
Proof using Rel_refl Rel_trans Rel_wi.
  intros Hc. unfold log_get, get_cfg. rewrite Hc. cbn [bind].
  destruct (seg_get (bases (segs st)) off) as [i|]; [|discriminate]. cbn [bind].
  destruct (off =? OffsetNewest).
  - apply get_newest_back_G.
  - intros E. wi_step E Hk. destruct (reader_get s items (is_last st i) off) as [m0|e].
    + injection E as <- <-. exact Hk.
    + destruct e; try discriminate. destruct (i <? zlen (segs st) - 1); discriminate.
Qed.

Lemma get_by_key_back_G c k n : forall st i st1 m,
  get_by_key_back H c st k n i = Ok (st1, m) -> Rel c st st1.
Proof using Rel_refl Rel_trans Rel_wi.
  induction n as [|n IH]; intros st i st1 m E; cbn [get_by_key_back] in E; [discriminate|]. wi_step E Hk.
  destruct (reader_get_by_key H s items k) as [m0|e]; [injection E as <- <-; exact Hk|].
  destruct e; try discriminate. eapply Rel_trans; [exact Hk|]. eapply IH; eassumption.
Qed.

Lemma log_get_by_key_G st k st1 m c : opened st = Some c -> log_get_by_key H st k = Ok (st1, m) -> Rel c st st1.
Proof using Rel_refl Rel_trans Rel_wi.
  intros Hc. unfold log_get_by_key, get_cfg. rewrite Hc. cbn [bind].
  destruct (negb (ckeys c)); [discriminate|]. apply get_by_key_back_G.
Qed.

Lemma consume_by_key_fwd_G c k n : forall st i off max st1 o,
  consume_by_key_fwd H c st k n i off max = Ok (st1, o) -> Rel c st st1.
Proof using Rel_refl Rel_trans Rel_wi.
  induction n as [|n IH]; intros st i off max st1 o E; cbn [consume_by_key_fwd] in E; [discriminate|]. wi_step E Hk.
  destruct (reader_consume_by_key H s items k off max) as [[nx ms]|e]; [|discriminate]. cbn [bind] in E.
  destruct ms as [|m0 mr]; [|injection E as <- <-; exact Hk].
  destruct (zlen (segs st) - 1 <=? i); [injection E as <- <-; exact Hk|].
  eapply Rel_trans; [exact Hk|]. eapply IH; eassumption.
Qed.

Lemma log_consume_by_key_G st k off max st1 o c :
  opened st = Some c -> log_consume_by_key H st k off max = Ok (st1, o) -> Rel c st st1.
Proof using Rel_refl Rel_trans Rel_wi.
  intros Hc. unfold log_consume_by_key, get_cfg. rewrite Hc. cbn [bind].
  destruct (negb (ckeys c)); [discriminate|]. destruct (seg_consume (bases (segs st)) off) as [i|]; [|discriminate]. cbn [bind].
  apply consume_by_key_fwd_G.
Qed.

Lemma get_by_time_back_G c ts n : forall st i cand st1 cand1,
  get_by_time_back H c st ts n i cand = Ok (st1, cand1) -> Rel c st st1.
Proof using Rel_refl Rel_trans Rel_wi.
  induction n as [|n IH]; intros st i cand st1 cand1 E; cbn [get_by_time_back] in E.
  - injection E as <- <-. apply Rel_refl.
  - wi_step E Hk.
    destruct (reader_get_by_time s items ts) as [m0|e].
    + eapply Rel_trans; [exact Hk|]. eapply IH; eassumption.
    + destruct e; try discriminate; try (eapply Rel_trans; [exact Hk|]; eapply IH; eassumption).
      injection E as <- <-. exact Hk.
Qed.

Lemma log_get_by_time_G st ts st1 m c : opened st = Some c -> log_get_by_time H st ts = Ok (st1, m) -> Rel c st st1.
Proof using Rel_refl Rel_trans Rel_wi.
  intros Hc. unfold log_get_by_time, get_cfg. rewrite Hc. cbn [bind].
  destruct (negb (ctimes c)); [discriminate|].
  destruct (get_by_time_back H c st ts (length (segs st)) (zlen (segs st) - 1) TEmpty) as [[sa cand]|] eqn:Eb; [|discriminate].
  cbn [bind]. pose proof (get_by_time_back_G c ts _ _ _ _ _ _ Eb) as Hk.
  destruct cand; try discriminate.
  - intros E. injection E as <- <-. exact Hk.
  - intros E. wi_step E Hk2. destruct (reader_get s items (is_last st i) OffsetOldest); [|discriminate]. cbn [bind] in E.
    injection E as <- <-. exact (Rel_trans _ _ _ _ Hk Hk2).
Qed.

Lemma log_next_G st st1 n c : opened st = Some c -> log_next H st = Ok (st1, n) -> Rel c st st1.
Proof using Rel_refl Rel_trans Rel_wi.
  intros Hc. unfold log_next, get_cfg. rewrite Hc. cbn [bind]. intros E. wi_step E Hk. injection E as <- <-. exact Hk.
Qed.

Lemma stat_loop_G c n : forall st i acc st1 r, stat_loop H c st n i acc = Ok (st1, r) -> Rel c st st1.
Proof using Rel_refl Rel_trans Rel_wi.
  induction n as [|n IH]; intros st i acc st1 r E; cbn [stat_loop] in E.
  - injection E as <- <-. apply Rel_refl.
  - wi_step E Hk. destruct acc as [[sg cnt] sz]. eapply Rel_trans; [exact Hk|]. eapply IH; eassumption.
Qed.

Lemma log_stat_G st st1 r c : opened st = Some c -> log_stat H st = Ok (st1, r) -> Rel c st st1.
Proof using Rel_refl Rel_trans Rel_wi.
  intros Hc. unfold log_stat, get_cfg. rewrite Hc. cbn [bind]. destruct (lvirt st).
  - intros E. injection E as <- <-. apply Rel_refl.
  - apply stat_loop_G.
Qed.

Lemma log_consume_G st off max st1 o c : opened st = Some c -> log_consume H st off max = Ok (st1, o) -> Rel c st st1.
Proof using Rel_refl Rel_trans Rel_wi.
  intros Hc. unfold log_consume, get_cfg. rewrite Hc. cbn [bind].
  destruct (seg_consume (bases (segs st)) off) as [i|]; [|discriminate]. cbn [bind]. intros E. wi_step E Hk.
  destruct (reader_consume s items (is_last st i) off max) as [o1|e]; [injection E as <- <-; exact Hk|].
  destruct e; try discriminate. destruct (i <? zlen (segs st) - 1); [|discriminate].
  wi_step E Hk2. destruct (reader_consume s0 items0 (is_last st (i + 1)) OffsetOldest max); [|discriminate]. cbn [bind] in E.
  injection E as <- <-. exact (Rel_trans _ _ _ _ Hk Hk2).
Qed.

End Generic.

Definition log_get_R := log_get_G R R_refl R_trans with_index_R.
Definition log_get_by_key_R := log_get_by_key_G R R_refl R_trans with_index_R.
Definition log_consume_by_key_R := log_consume_by_key_G R R_refl R_trans with_index_R.
Definition log_get_by_time_R := log_get_by_time_G R R_refl R_trans with_index_R.
Definition log_next_R := log_next_G R R_refl R_trans with_index_R.
Definition log_stat_R := log_stat_G R R_refl R_trans with_index_R.
Definition log_consume_R := log_consume_G R R_refl R_trans with_index_R.

(* the statements used elsewhere *)
Theorem log_get_preserves st off st1 m :
  Inv st -> log_get H st off = Ok (st1, m) -> Inv st1 /\ abs st1 = abs st /\ opened st1 = opened st.
Proof. intros HI E. pose proof HI as (_ & _ & _ & _ & c & Hc & _). exact (R_result c _ _ (log_get_R _ _ _ _ c Hc E) HI Hc). Qed.

Theorem log_get_by_key_preserves st k st1 m :
  Inv st -> log_get_by_key H st k = Ok (st1, m) -> Inv st1 /\ abs st1 = abs st /\ opened st1 = opened st.
Proof. intros HI E. pose proof HI as (_ & _ & _ & _ & c & Hc & _). exact (R_result c _ _ (log_get_by_key_R _ _ _ _ c Hc E) HI Hc). Qed.

Theorem log_consume_by_key_preserves st k off max st1 o :
  Inv st -> log_consume_by_key H st k off max = Ok (st1, o) -> Inv st1 /\ abs st1 = abs st /\ opened st1 = opened st.
Proof. intros HI E. pose proof HI as (_ & _ & _ & _ & c & Hc & _). exact (R_result c _ _ (log_consume_by_key_R _ _ _ _ _ _ c Hc E) HI Hc). Qed.

Theorem log_get_by_time_preserves st ts st1 m :
  Inv st -> log_get_by_time H st ts = Ok (st1, m) -> Inv st1 /\ abs st1 = abs st /\ opened st1 = opened st.
Proof. intros HI E. pose proof HI as (_ & _ & _ & _ & c & Hc & _). exact (R_result c _ _ (log_get_by_time_R _ _ _ _ c Hc E) HI Hc). Qed.

Theorem log_next_preserves st st1 n :
  Inv st -> log_next H st = Ok (st1, n) -> Inv st1 /\ abs st1 = abs st /\ opened st1 = opened st.
Proof. intros HI E. pose proof HI as (_ & _ & _ & _ & c & Hc & _). exact (R_result c _ _ (log_next_R _ _ _ c Hc E) HI Hc). Qed.

Theorem log_stat_preserves st st1 r :
  Inv st -> log_stat H st = Ok (st1, r) -> Inv st1 /\ abs st1 = abs st /\ opened st1 = opened st.
Proof. intros HI E. pose proof HI as (_ & _ & _ & _ & c & Hc & _). exact (R_result c _ _ (log_stat_R _ _ _ c Hc E) HI Hc). Qed.

End ReadsPreserve.
