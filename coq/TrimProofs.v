(* TrimProofs.v — C15: what FindByOffset / FindByCount / FindBySize / FindByAge select, for every state and
   every way Consume cuts the log into batches. *)
From KV Require Import Base Model Helpers ListAux SearchProofs SegProofs ReaderProofs Spec SpecFacts LogInv
     ConsumeProofs GetProofs AbsFacts ReadsPreserve ScanProofs.
From Coq Require Import ZifyBool ZifyNat.

Section TrimProofs.
Variable H : bytes -> Z.

Lemma live_facts st : Inv st ->
  inc (live (abs st)) /\ (forall x, In x (live (abs st)) -> 0 <= moff x < anext (abs st)).
Proof.
  intros HI. split.
  - destruct HI as (_ & HF & Hch & _). now apply all_recs_inc.
  - intros x Hx. split; [|now apply abs_offsets_below_next].
    unfold abs in Hx. cbn [live] in Hx. destruct (in_all_recs _ _ Hx) as (s & Hs & Hxs).
    destruct HI as (_ & HF & _). rewrite Forall_forall in HF. destruct (HF s Hs) as (_ & Hn & _). now apply Hn.
Qed.

Lemma log_next_ok st : Inv st ->
  exists st1, log_next H st = Ok (st1, anext (abs st)) /\ Inv st1 /\ abs st1 = abs st /\ opened st1 = opened st.
Proof.
  intros HI. pose proof HI as (Hne & HF & Hch & Hv & c & Hc & Hhead).
  destruct (last_opt (segs st)) as [hd|] eqn:Ehd; [|apply last_opt_none in Ehd; congruence].
  assert (Hlast_znth : znth (segs st) (zlen (segs st) - 1) = Some hd) by (now rewrite <- last_opt_znth).
  destruct (with_index_ok H c st _ hd HI Hc Hlast_znth) as (st1 & s' & items & Hw & Hok & Hsh & Hst & HI1 & _).
  unfold log_next, get_cfg. rewrite Hc. cbn [bind]. rewrite Hw. cbn [bind].
  exists st1. rewrite (idx_next_recs s' items Hok), (same_shape_recs_next _ _ Hsh).
  assert (Hanext : anext (abs st) = recs_next hd) by (unfold abs, wnext; cbn; now rewrite Ehd).
  rewrite Hanext. split; [reflexivity|]. split; [exact HI1|]. split; [now apply st_shape_abs|]. destruct Hst as (_ & Ho & _). congruence.
Qed.

Lemma recs_next_nonneg_abs st : Inv st -> 0 <= anext (abs st).
Proof.
  intros (Hne & HF & _). unfold abs, wnext. cbn [anext]. destruct (last_opt (segs st)) as [hd|] eqn:E; [|lia].
  apply recs_next_nonneg. rewrite Forall_forall in HF. apply HF. now apply last_opt_in.
Qed.

Lemma live_count_len st : live_count st = length (live (abs st)).
Proof.
  unfold live_count, abs, all_recs. cbn [live]. induction (segs st) as [|s l IH]; [reflexivity|].
  cbn [fold_right map concat]. rewrite app_length, IH. reflexivity.
Qed.

(* ---------- FindByOffset *)

Definition fbo_step (before' : Z) (acc : list Z) (m : msg) : list Z * brk :=
  if before' <=? moff m then (acc, BreakInner) else (acc ++ [moff m], Continue).

Lemma fbo_inner before' : forall chunk acc,
  (exists pre m tl, chunk = pre ++ m :: tl /\ (forall x, In x pre -> moff x < before') /\ before' <= moff m /\
                    inner (fbo_step before') acc chunk = (acc ++ map moff pre, BreakInner)) \/
  ((forall x, In x chunk -> moff x < before') /\ inner (fbo_step before') acc chunk = (acc ++ map moff chunk, Continue)).
Proof.
  induction chunk as [|m r IH]; intros acc.
  - right. split; [intros x []|]. cbn. now rewrite app_nil_r.
  - assert (Hstep : inner (fbo_step before') acc (m :: r) =
                    if before' <=? moff m then (acc, BreakInner) else inner (fbo_step before') (acc ++ [moff m]) r).
    { cbn [inner]. unfold fbo_step at 1. destruct (before' <=? moff m); reflexivity. }
    rewrite Hstep. destruct (before' <=? moff m) eqn:E.
    + left. exists [], m, r. split; [reflexivity|]. split; [intros x []|]. split; [lia|]. cbn. now rewrite app_nil_r.
    + destruct (IH (acc ++ [moff m])) as [(pre & m2 & tl & -> & Hpre & Hm2 & Hin)|(Hall & Hin)].
      * left. exists (m :: pre), m2, tl. split; [reflexivity|]. split; [intros x [->|Hx]; [lia|now apply Hpre]|]. split; [exact Hm2|].
        rewrite Hin. cbn [map]. now rewrite <- app_assoc.
      * right. split; [intros x [->|Hx]; [lia|now apply Hall]|]. rewrite Hin. cbn [map]. now rewrite <- app_assoc.
Qed.

Lemma filter_lt_split L before' done rest :
  L = done ++ rest -> (forall x, In x done -> moff x < before') -> (forall x, In x rest -> before' <= moff x) ->
  filter (fun m => moff m <? before') L = done.
Proof.
  intros -> Hd Hr. rewrite filter_app. rewrite (filter_all_true _ done) by (intros x Hx; specialize (Hd x Hx); lia).
  rewrite (filter_all_false _ rest) by (intros x Hx; specialize (Hr x Hx); lia). apply app_nil_r.
Qed.

Theorem find_by_offset_spec st before :
  Inv st ->
  exists st1, find_by_offset H st before =
    Ok (st1, if before =? OffsetOldest then []
             else if before =? OffsetNewest then map moff (live (abs st))
             else map moff (filter (fun m => moff m <? before) (live (abs st)))) /\
    Inv st1 /\ abs st1 = abs st.
Proof.
  intros HI. unfold find_by_offset. destruct (before =? OffsetOldest) eqn:Eo; [exists st; split; [reflexivity|split; [assumption|reflexivity]]|].
  destruct (log_next_ok st HI) as (st1 & En & HI1 & HA1 & _). rewrite En. cbn [bind].
  set (nxt := anext (abs st)) in *.
  set (before' := if before =? OffsetNewest then nxt else before).
  set (maxoff := if before =? OffsetNewest then nxt else Z.min nxt before).
  set (L := live (abs st)).
  destruct (live_facts st HI) as (Hinc & Hrange). fold L in Hinc, Hrange. fold nxt in Hrange.
  pose (Inv' := fun (acc : list Z) (done : list msg) => acc = map moff done /\ forall x, In x done -> moff x < before').
  pose (Post := fun (acc : list Z) => acc = map moff (filter (fun m => moff m <? before') L)).
  assert (Hrule := scan_rule_aux H Inv' Post (fun _ => true) (fbo_step before') maxoff L).
  assert (Hchunk : forall acc done chunk rest, Inv' acc done -> L = done ++ chunk ++ rest -> chunk <> [] -> true = true ->
     match inner (fbo_step before') acc chunk with
     | (a, Continue) => Inv' a (done ++ chunk)
     | (a, BreakInner) => Post a /\ (true = false \/ forall x, last_opt chunk = Some x -> maxoff <= moff x + 1)
     | (a, BreakOuter) => Post a
     end).
  { intros acc done chunk rest [Hacc Hdone] HL Hne _.
    destruct (fbo_inner before' chunk acc) as [(pre & m & tl & Hch & Hpre & Hm & Hin)|(Hall & Hin)]; rewrite Hin.
    - rewrite Hch in HL. rewrite HL in Hinc.
      destruct (inc_app_inv _ _ Hinc) as (_ & Hi2 & _). rewrite <- app_assoc in Hi2. destruct (inc_app_inv _ _ Hi2) as (_ & Hi3 & _).
      cbn [app] in Hi3. destruct Hi3 as [Hm_lt _].
      split.
      + unfold Post. rewrite Hacc, <- map_app. f_equal. symmetry.
        apply (filter_lt_split L before' (done ++ pre) (m :: tl ++ rest)).
        * rewrite HL. rewrite <- !app_assoc. reflexivity.
        * intros x Hx. apply in_app_or in Hx. destruct Hx; auto.
        * intros x [->|Hx]; [lia|]. specialize (Hm_lt x Hx). lia.
      + right. intros x Hx. rewrite Hch in Hx.
        assert (Hxin : In x (m :: tl)) by (rewrite last_opt_app2 in Hx by discriminate; now apply last_opt_in).
        assert (moff m <= moff x).
        { destruct Hxin as [->|Hxt]; [lia|]. specialize (Hm_lt x ltac:(apply in_or_app; now left)). lia. }
        unfold maxoff, before' in *. destruct (before =? OffsetNewest); lia.
    - split; [rewrite Hacc, map_app; reflexivity|]. intros x Hx. apply in_app_or in Hx. destruct Hx; auto. }
  assert (Hexit : forall acc done rest, Inv' acc done -> L = done ++ rest ->
     (true = false \/ forall m, In m rest -> maxoff <= moff m) -> Post acc).
  { intros acc done rest [Hacc Hdone] HL [Hc|Hrest]; [discriminate|]. unfold Post. rewrite Hacc. f_equal. symmetry.
    apply (filter_lt_split L before' done rest HL Hdone). intros x Hx. specialize (Hrest x Hx).
    pose proof (Hrange x ltac:(rewrite HL; apply in_or_app; now right)).
    unfold maxoff, before' in *. destruct (before =? OffsetNewest); lia. }
  destruct (Hrule Hchunk Hexit (scan_fuel st1) st1 OffsetOldest [] [] L HI1 ltac:(unfold L; congruence) eq_refl)
    as (st2 & a & Es & Hpost & HI2 & HA2).
  - unfold from_off, OffsetOldest. reflexivity.
  - rewrite HA1. pose proof (recs_next_nonneg_abs st HI). unfold OffsetOldest. lia.
  - unfold OffsetOldest, OffsetNewest. lia.
  - rewrite HA1. unfold maxoff. fold nxt. destruct (before =? OffsetNewest); lia.
  - unfold scan_fuel. rewrite (live_count_len st1), HA1. fold L. lia.
  - split; [reflexivity|intros x []].
  - unfold fbo_step in Es. rewrite Es. cbn [bind]. exists st2. split; [|split; [exact HI2|congruence]].
    f_equal. f_equal. rewrite Hpost. unfold before'. destruct (before =? OffsetNewest) eqn:En2; [|reflexivity].
    f_equal. apply filter_all_true. intros x Hx. specialize (Hrange x Hx). lia.
Qed.


(* ---------- loops that collect until a message satisfies a stop predicate (FindByAge, FindUpdates, FindDeletes) *)

Section StopScan.
Context {A : Type}.
Variables (stop : msg -> bool) (g : A -> msg -> A).

Definition stop_step (acc : A) (m : msg) : A * brk :=
  if stop m then (acc, BreakOuter) else (g acc m, Continue).

Definition go_on (m : msg) : bool := negb (stop m).

Lemma stop_inner : forall chunk acc,
  inner stop_step acc chunk =
  (fold_left g (take_while go_on chunk) acc, if forallb go_on chunk then Continue else BreakOuter).
Proof.
  induction chunk as [|m r IH]; intros acc; [reflexivity|]. cbn [inner take_while forallb]. unfold stop_step at 1, go_on at 1 3.
  destruct (stop m); cbn [negb andb fold_left]; [reflexivity|]. apply IH.
Qed.

Lemma take_while_app_all {B} (f : B -> bool) a b : forallb f a = true -> take_while f (a ++ b) = a ++ take_while f b.
Proof. induction a as [|x a IH]; intros Hf; [reflexivity|]. cbn in *. apply andb_prop in Hf. destruct Hf as [-> Hf]. now rewrite IH. Qed.

Lemma take_while_app_stop {B} (f : B -> bool) a b : forallb f a = false -> take_while f (a ++ b) = take_while f a.
Proof.
  induction a as [|x a IH]; intros Hf; [discriminate|]. cbn in *. destruct (f x); [|reflexivity]. cbn in Hf. now rewrite IH.
Qed.

Lemma take_while_all {B} (f : B -> bool) a : forallb f a = true -> take_while f a = a.
Proof. intros Hf. rewrite <- (app_nil_r a) at 1. rewrite take_while_app_all by assumption. cbn. apply app_nil_r. Qed.

(* the selection is a prefix D of the live messages none of which satisfies stop; the scan ends at the first
   message that does, or at a batch boundary at or beyond maxoff, or at the end of the log *)
Definition stop_post (L : list msg) (maxoff : Z) (acc0 : A) (a : A) : Prop :=
  exists D rest, L = D ++ rest /\ a = fold_left g D acc0 /\ forallb go_on D = true /\
    match rest with [] => True | m :: _ => stop m = true \/ maxoff <= moff m end.

Theorem scan_stop st maxoff acc0 :
  Inv st -> maxoff <= anext (abs st) ->
  exists st' a, scan_loop H (scan_fuel st) st OffsetOldest maxoff acc0 (fun _ => true) stop_step = Ok (st', a) /\
    stop_post (live (abs st)) maxoff acc0 a /\ Inv st' /\ abs st' = abs st.
Proof.
  intros HI Hmax. set (L := live (abs st)).
  destruct (live_facts st HI) as (Hinc & Hrange). fold L in Hinc, Hrange.
  pose (Inv' := fun (acc : A) (done : list msg) => acc = fold_left g done acc0 /\ forallb go_on done = true).
  assert (Hrule := scan_rule_aux H Inv' (stop_post L maxoff acc0) (fun _ => true) stop_step maxoff L).
  assert (Hchunk : forall acc done chunk rest, Inv' acc done -> L = done ++ chunk ++ rest -> chunk <> [] -> true = true ->
     match inner stop_step acc chunk with
     | (a, Continue) => Inv' a (done ++ chunk)
     | (a, BreakInner) => stop_post L maxoff acc0 a /\ (true = false \/ forall x, last_opt chunk = Some x -> maxoff <= moff x + 1)
     | (a, BreakOuter) => stop_post L maxoff acc0 a
     end).
  { intros acc done chunk rest [Hacc Hdone] HL Hne _. rewrite stop_inner. destruct (forallb go_on chunk) eqn:Ef.
    - rewrite (take_while_all _ _ Ef). split; [rewrite fold_left_app, Hacc; reflexivity|]. rewrite forallb_app, Hdone, Ef. reflexivity.
    - (* the first stopping message lies in this batch *)
      assert (Hsplit : exists pre m tl, chunk = pre ++ m :: tl /\ forallb go_on pre = true /\ stop m = true /\ take_while go_on chunk = pre).
      { clear -Ef. induction chunk as [|x r IH]; [discriminate|]. cbn in Ef. destruct (go_on x) eqn:Ex.
        - cbn in Ef. destruct (IH Ef) as (pre & m & tl & -> & Hp & Hm & Ht). exists (x :: pre), m, tl. cbn. rewrite Ex, Hp, Ht. repeat split; assumption.
        - exists [], x, r. cbn. rewrite Ex. unfold go_on in Ex. destruct (stop x); [repeat split|discriminate]. }
      destruct Hsplit as (pre & m & tl & Hch & Hp & Hm & Ht). rewrite Ht.
      exists (done ++ pre), (m :: tl ++ rest). split; [rewrite HL, Hch, <- !app_assoc; reflexivity|].
      split; [rewrite fold_left_app, Hacc; reflexivity|]. split; [rewrite forallb_app, Hdone, Hp; reflexivity|]. left. exact Hm. }
  assert (Hexit : forall acc done rest, Inv' acc done -> L = done ++ rest ->
     (true = false \/ forall m, In m rest -> maxoff <= moff m) -> stop_post L maxoff acc0 acc).
  { intros acc done rest [Hacc Hdone] HL [Hc|Hrest]; [discriminate|]. exists done, rest. split; [exact HL|]. split; [exact Hacc|].
    split; [exact Hdone|]. destruct rest as [|m r]; [exact I|]. right. apply Hrest. now left. }
  destruct (Hrule Hchunk Hexit (scan_fuel st) st OffsetOldest acc0 [] L HI eq_refl eq_refl) as (st2 & a & Es & Hpost & HI2 & HA2).
  - reflexivity.
  - pose proof (recs_next_nonneg_abs st HI). unfold OffsetOldest. lia.
  - unfold OffsetOldest, OffsetNewest. lia.
  - exact Hmax.
  - unfold scan_fuel. rewrite live_count_len. fold L. lia.
  - split; reflexivity.
  - exists st2, a. split; [exact Es|]. split; [exact Hpost|]. split; assumption.
Qed.

(* with maxoff = NextOffset the selection is exactly the longest prefix without a stopping message *)
Corollary scan_stop_full st acc0 :
  Inv st ->
  exists st', scan_loop H (scan_fuel st) st OffsetOldest (anext (abs st)) acc0 (fun _ => true) stop_step =
              Ok (st', fold_left g (take_while go_on (live (abs st))) acc0) /\ Inv st' /\ abs st' = abs st.
Proof.
  intros HI. destruct (scan_stop st (anext (abs st)) acc0 HI ltac:(lia)) as (st' & a & Es & (D & rest & HL & Ha & HD & Hrest) & HI' & HA').
  exists st'. split; [|split; assumption]. rewrite Es. f_equal. f_equal. rewrite Ha. f_equal.
  rewrite HL. destruct rest as [|m r]; [rewrite app_nil_r; symmetry; now apply take_while_all|].
  rewrite take_while_app_all by assumption. cbn [take_while].
  destruct Hrest as [Hs|Hm].
  - unfold go_on at 1. rewrite Hs. cbn. now rewrite app_nil_r.
  - destruct (live_facts st HI) as (_ & Hrange). pose proof (Hrange m ltac:(rewrite HL; apply in_or_app; right; now left)). lia.
Qed.

End StopScan.

End TrimProofs.

(* ---------- loops that spend a budget (FindByCount, FindBySize) *)

Section Budget.
Variable H : bytes -> Z.
Variables (ok : Z -> bool) (w : msg -> Z).

Definition bud_step (a : list Z * Z) (m : msg) : (list Z * Z) * brk :=
  let a' := (fst a ++ [moff m], snd a - w m) in
  if ok (snd a') then (a', Continue) else (a', BreakInner).

(* take messages while the remaining budget is still ok; the message that exhausts it is taken too *)
Fixpoint fbud (b : Z) (l : list msg) : list Z :=
  match l with
  | [] => []
  | m :: r => let b' := b - w m in if ok b' then moff m :: fbud b' r else [moff m]
  end.

Lemma bud_inner : forall chunk offs b rest,
  match inner bud_step (offs, b) chunk with
  | (a, Continue) => ok (snd a) = true \/ chunk = []
  | (a, BreakInner) => ok (snd a) = false
  | (a, BreakOuter) => False
  end /\
  match inner bud_step (offs, b) chunk with
  | (a, Continue) => offs ++ fbud b (chunk ++ rest) = fst a ++ fbud (snd a) rest
  | (a, _) => offs ++ fbud b (chunk ++ rest) = fst a
  end.
Proof.
  induction chunk as [|m r IH]; intros offs b rest.
  - cbn. split; [now right|reflexivity].
  - cbn [inner app fbud]. unfold bud_step at 1 3. cbn [fst snd]. destruct (ok (b - w m)) eqn:E.
    + specialize (IH (offs ++ [moff m]) (b - w m) rest). destruct (inner bud_step (offs ++ [moff m], b - w m) r) as [a [ | | ]] eqn:Ein.
      * destruct IH as [H1 H2]. split.
        -- destruct H1 as [H1| ->]; [now left|]. left. cbn [inner] in Ein. injection Ein as <-. exact E.
        -- rewrite <- H2. rewrite <- app_assoc. reflexivity.
      * destruct IH as [H1 H2]. split; [exact H1|]. rewrite <- H2, <- app_assoc. reflexivity.
      * destruct IH as [[] _].
    + cbn [fst snd]. split; [exact E|reflexivity].
Qed.

Theorem scan_budget st b0 :
  Inv st ->
  exists st' a, scan_loop H (scan_fuel st) st OffsetOldest (anext (abs st)) ([], b0) (fun a => ok (snd a)) bud_step = Ok (st', a) /\
    fst a = (if ok b0 then fbud b0 (live (abs st)) else []) /\ Inv st' /\ abs st' = abs st.
Proof.
  intros HI. set (L := live (abs st)).
  destruct (live_facts st HI) as (Hinc & Hrange). fold L in Hinc, Hrange.
  destruct (ok b0) eqn:Eok0.
  2:{ (* the loop is not entered *)
    exists st, ([], b0). split; [|split; [reflexivity|split; [assumption|reflexivity]]].
    unfold scan_fuel. cbn [scan_loop snd]. rewrite Eok0, andb_false_r. reflexivity. }
  pose (Inv' := fun (a : list Z * Z) (done : list msg) => ok (snd a) = true /\ forall rest, fbud b0 (done ++ rest) = fst a ++ fbud (snd a) rest).
  pose (Post := fun (a : list Z * Z) => fst a = fbud b0 L).
  assert (Hrule := scan_rule_aux H Inv' Post (fun a => ok (snd a)) bud_step (anext (abs st)) L).
  assert (Hchunk : forall acc done chunk rest, Inv' acc done -> L = done ++ chunk ++ rest -> chunk <> [] -> ok (snd acc) = true ->
     match inner bud_step acc chunk with
     | (a, Continue) => Inv' a (done ++ chunk)
     | (a, BreakInner) => Post a /\ (ok (snd a) = false \/ forall x, last_opt chunk = Some x -> anext (abs st) <= moff x + 1)
     | (a, BreakOuter) => Post a
     end).
  { intros [offs b] done chunk rest [Hok Hf] HL Hne _.
    pose proof (bud_inner chunk offs b) as Hb.
    destruct (inner bud_step (offs, b) chunk) as [a [ | | ]] eqn:Ein.
    - split.
      + destruct (Hb []) as [[H1| ->] _]; [exact H1|congruence].
      + intros rest'. rewrite <- app_assoc, Hf. cbn [fst snd]. destruct (Hb rest') as [_ H2]. exact H2.
    - destruct (Hb rest) as [H1 H2]. split; [|left; exact H1]. unfold Post. rewrite HL, Hf. cbn [fst snd]. symmetry. exact H2.
    - destruct (Hb []) as [[] _]. }
  assert (Hexit : forall acc done rest, Inv' acc done -> L = done ++ rest ->
     (ok (snd acc) = false \/ forall m, In m rest -> anext (abs st) <= moff m) -> Post acc).
  { intros acc done rest [Hok Hf] HL [Hc|Hrest]; [congruence|].
    assert (rest = []) by (destruct rest as [|m r]; [reflexivity|]; pose proof (Hrest m (or_introl eq_refl)); pose proof (Hrange m ltac:(rewrite HL; apply in_or_app; right; now left)); lia).
    subst rest. unfold Post. rewrite HL, Hf. cbn [fbud]. now rewrite app_nil_r. }
  destruct (Hrule Hchunk Hexit (scan_fuel st) st OffsetOldest ([], b0) [] L HI eq_refl eq_refl) as (st2 & a & Es & Hpost & HI2 & HA2).
  - reflexivity.
  - pose proof (recs_next_nonneg_abs st HI). unfold OffsetOldest. lia.
  - unfold OffsetOldest, OffsetNewest. lia.
  - lia.
  - unfold scan_fuel. rewrite live_count_len. fold L. lia.
  - split; [exact Eok0|]. intros rest. reflexivity.
  - exists st2, a. split; [exact Es|]. split; [exact Hpost|]. split; assumption.
Qed.

End Budget.

(* counting: a budget of k >= 1 messages selects the first k *)
Lemma fbud_count : forall l k, 1 <= k -> fbud (fun b => 0 <? b) (fun _ => 1) k l = firstn (Z.to_nat k) (map moff l).
Proof.
  induction l as [|m r IH]; intros k Hk; cbn [fbud map]; [now rewrite firstn_nil|].
  replace (Z.to_nat k) with (S (Z.to_nat (k - 1))) by lia. cbn [firstn].
  destruct (0 <? k - 1) eqn:E; [f_equal; apply IH; lia|].
  replace (Z.to_nat (k - 1)) with O by lia. reflexivity.
Qed.

Lemma Forall2_skipn {A B} (R : A -> B -> Prop) n : forall l l', Forall2 R l l' -> Forall2 R (skipn n l) (skipn n l').
Proof. induction n as [|n IH]; intros l l' HF; [exact HF|]. destruct HF; cbn [skipn]; [constructor|auto]. Qed.

Section TrimProofs2.
Variable H : bytes -> Z.

(* Stat counts exactly the live messages *)
Lemma stat_loop_count c : forall n st i sg cnt sz,
  Inv st -> opened st = Some c -> 0 <= i -> (Z.to_nat i + n <= length (segs st))%nat ->
  exists st' sg' sz', stat_loop H c st n i (sg, cnt, sz) = Ok (st', (sg', cnt + zlen (all_recs (firstn n (skipn (Z.to_nat i) (segs st)))), sz')) /\
                      Inv st' /\ abs st' = abs st /\ opened st' = Some c.
Proof.
  induction n as [|n IH]; intros st i sg cnt sz HI Hc Hi Hn.
  - exists st, sg, sz. cbn [stat_loop firstn]. unfold all_recs. cbn. rewrite Z.add_0_r. split; [reflexivity|]. split; [exact HI|]. split; [reflexivity|exact Hc].
  - cbn [stat_loop].
    destruct (znth_in_range (segs st) i ltac:(unfold zlen; lia)) as [s Hs].
    destruct (with_index_ok H c st i s HI Hc Hs) as (st1 & s' & items & Hw & Hok & Hsh & Hst & HI1 & Hs1).
    rewrite Hw. cbn [bind].
    pose proof Hst as (HF2 & Ho1 & _). assert (Hc1 : opened st1 = Some c) by congruence.
    assert (Hcnt : match sidx s' with Some ix => zlen (snd ix) | None => 0 end = zlen (srecs s)).
    { pose proof HI1 as (_ & HF1 & _ & _ & c1 & Hc1' & Hhead1). pose proof (Forall_znth _ _ _ _ HF1 Hs1) as Hsi'.
      destruct Hsh as (Hr & _). rewrite <- Hr.
      (* the index returned is the one recorded in the segment, or the segment is the writer's *)
      unfold with_index in Hw. rewrite Hs in Hw. destruct HI as (_ & _ & _ & Hv & _ & _ & _). rewrite Hv in Hw.
      destruct ((i =? zlen (segs st) - 1) && negb (cro c)) eqn:Ehd.
      - injection Hw as <- <- <-. unfold head_items in Hok. destruct (sidx s) as [[iv its0]|]; cbn [snd].
        + destruct Hok as ((Ho & _) & _). unfold zlen. rewrite <- (map_length ioff its0), Ho, map_length. reflexivity.
        + destruct Hok as ((Ho & _) & _). destruct (srecs s); [reflexivity|discriminate].
      - destruct (ensure_index H (cparams c) (cnewver c) s) as [[s2 it2]|] eqn:Ee; [|discriminate]. cbn [bind] in Hw. injection Hw as <- <- <-.
        destruct Hok as ((Ho & _) & _).
        assert (Hix : sidx s2 = Some (match sidx s2 with Some (iv, _) => iv | None => V1 end, it2)).
        { unfold ensure_index in Ee. destruct (needs_reindex s).
          - unfold reindex in Ee. destruct (open_log_reader s); [|discriminate]. cbn [bind] in Ee. injection Ee as <- <-. reflexivity.
          - destruct (sidx s) as [[iv its0]|] eqn:Esi; [|discriminate]. destruct (open_idx_reader s (iv, its0)) eqn:Eo; [|discriminate].
            cbn [bind] in Ee. injection Ee as <- <-. rewrite Esi. f_equal. f_equal.
            unfold open_idx_reader in Eo. destruct iv; [destruct its0; [injection Eo as <-; reflexivity|destruct (ioff i0 =? sbase s); [injection Eo as <-; reflexivity|discriminate]]|injection Eo as <-; reflexivity]. }
        rewrite Hix. cbn [snd]. unfold zlen. rewrite <- (map_length ioff it2), Ho, map_length. reflexivity. }
    rewrite Hcnt.
    destruct (IH st1 (i + 1) (sg + 1) (cnt + zlen (srecs s)) (sz + seg_log_size s' + match sidx s' with Some ix => idx_size (cparams c) ix | None => 0 end) HI1 Hc1 ltac:(lia))
      as (st2 & sg2 & sz2 & E2 & HI2 & HA2 & Hc2).
    { rewrite <- (Forall2_len _ _ _ HF2). lia. }
    rewrite E2. exists st2, sg2, sz2. split.
    + f_equal. f_equal. f_equal. f_equal.
      rewrite (KeyConsume.skipn_znth _ _ _ Hs). cbn [firstn]. rewrite all_recs_cons, zlen_app.
      replace (Z.to_nat (i + 1)) with (Z.to_nat (i + 1)) by reflexivity.
      assert (Hsame : all_recs (firstn n (skipn (Z.to_nat (i + 1)) (segs st1))) = all_recs (firstn n (skipn (Z.to_nat (i + 1)) (segs st)))).
      { apply all_recs_shape. apply KeyProofs.Forall2_firstn. apply Forall2_skipn. exact HF2. }
      rewrite Hsame. lia.
    + split; [exact HI2|]. split; [rewrite HA2; now apply st_shape_abs|exact Hc2].
Qed.


Theorem log_stat_count st :
  Inv st ->
  exists st' sg sz, log_stat H st = Ok (st', (sg, zlen (live (abs st)), sz)) /\ Inv st' /\ abs st' = abs st.
Proof.
  intros HI. pose proof HI as (_ & _ & _ & Hv & c & Hc & _). unfold log_stat, get_cfg. rewrite Hc, Hv. cbn [bind].
  destruct (stat_loop_count c (length (segs st)) st 0 0 0 0 HI Hc ltac:(lia) ltac:(cbn; lia)) as (st' & sg' & sz' & E & HI' & HA' & _).
  rewrite E. exists st', sg', sz'. split; [|split; assumption]. f_equal. f_equal. f_equal. f_equal.
  cbn [Z.to_nat skipn]. rewrite firstn_all. reflexivity.
Qed.

(* FindByCount: nothing when the log has at most max messages, otherwise the first (count - max) offsets *)
Theorem find_by_count_spec st max :
  Inv st ->
  exists st', find_by_count H st max =
    Ok (st', let cnt := zlen (live (abs st)) in
             if cnt <=? max then [] else firstn (Z.to_nat (cnt - max)) (map moff (live (abs st)))) /\
    Inv st' /\ abs st' = abs st.
Proof.
  intros HI. unfold find_by_count. destruct (log_stat_count st HI) as (st1 & sg & sz & Es & HI1 & HA1). rewrite Es. cbn [bind]. cbv zeta.
  set (cnt := zlen (live (abs st))). destruct (cnt <=? max) eqn:Ec; [exists st1; split; [reflexivity|split; assumption]|].
  destruct (log_next_ok H st1 HI1) as (st2 & En & HI2 & HA2 & _). rewrite En. cbn [bind].
  destruct (scan_budget H (fun b => 0 <? b) (fun _ => 1) st2 (cnt - max) HI2) as (st3 & a & Esc & Ha & HI3 & HA3).
  rewrite (scan_loop_ext H _ (bud_step (fun b => 0 <? b) (fun _ => 1)) (fun a => 0 <? snd a)).
  - rewrite <- HA2. rewrite Esc. cbn [bind]. exists st3. split; [|split; [exact HI3|congruence]].
    f_equal. f_equal. rewrite Ha. replace (0 <? cnt - max) with true by lia. rewrite HA2, HA1. apply fbud_count. lia.
  - intros [offs b] m. unfold bud_step. cbn [fst snd]. destruct (b - 1 <=? 0) eqn:E1; destruct (0 <? b - 1) eqn:E2; try lia; reflexivity.
Qed.

(* FindBySize: nothing when the total size is below the target, otherwise the shortest prefix whose removal
   brings the estimate (total minus Size of each removed message) below the target - or everything *)
Theorem find_by_size_spec st sz c :
  Inv st -> opened st = Some c ->
  exists st' total, find_by_size H st sz =
    Ok (st', if total <? sz then [] else fbud (fun b => sz <=? b) (log_msg_size c) total (live (abs st))) /\
    (exists st1 sg cnt, log_stat H st = Ok (st1, (sg, cnt, total))) /\
    Inv st' /\ abs st' = abs st.
Proof.
  intros HI Hc. unfold find_by_size, get_cfg. rewrite Hc. cbn [bind].
  destruct (log_stat_count st HI) as (st1 & sg & total & Es & HI1 & HA1). rewrite Es. cbn [bind].
  destruct (total <? sz) eqn:Et.
  - exists st1, total. rewrite Et. split; [reflexivity|]. split; [eauto|]. split; assumption.
  - destruct (log_next_ok H st1 HI1) as (st2 & En & HI2 & HA2 & _). rewrite En. cbn [bind].
    destruct (scan_budget H (fun b => sz <=? b) (log_msg_size c) st2 total HI2) as (st3 & a & Esc & Ha & HI3 & HA3).
    rewrite (scan_loop_ext H _ (bud_step (fun b => sz <=? b) (log_msg_size c)) (fun a => sz <=? snd a)).
    + rewrite <- HA2. rewrite Esc. cbn [bind]. exists st3, total. rewrite Et. split; [|split; [eauto|split; [exact HI3|congruence]]].
      f_equal. f_equal. rewrite Ha. replace (sz <=? total) with true by lia. rewrite HA2, HA1. reflexivity.
    + intros [offs b] m. unfold bud_step. cbn [fst snd].
      destruct (b - log_msg_size c m <? sz) eqn:E1; destruct (sz <=? b - log_msg_size c m) eqn:E2; try lia; reflexivity.
Qed.

End TrimProofs2.
