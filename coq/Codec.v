(* Codec.v — L2: the byte layouts.  Encoders state the documented layout of
   pkg/message/format.go and pkg/index/format.go; decoders are transcriptions
   of readV1/readV2, headerParse, index.Read.  Executable; no proofs here. *)
From KV Require Import Base Model.

(* ---------- CRC-32C (Castagnoli), as hash/crc32 computes it *)

Definition crc_poly : N := 2197175160%N.          (* 0x82F63B78, reflected *)
Definition crc_mask : N := 4294967295%N.          (* 0xFFFFFFFF *)

Definition crc_step (c : N) : N :=
  if N.odd c then N.lxor (N.shiftr c 1) crc_poly else N.shiftr c 1.

Definition crc_byte (c b : N) : N :=
  let c := N.lxor c b in
  crc_step (crc_step (crc_step (crc_step (crc_step (crc_step (crc_step (crc_step c))))))).

Definition crc32c (data : bytes) : Z :=
  Z.of_N (N.lxor (fold_left crc_byte data crc_mask) crc_mask).

(* ---------- big-endian integers *)

Fixpoint be_aux (n : nat) (z : Z) (acc : bytes) : bytes :=
  match n with
  | O => acc
  | S k => be_aux k (z / 256) (Z.to_N (z mod 256) :: acc)
  end.
Definition be (n : nat) (z : Z) : bytes := be_aux n z [].

Definition debe (l : bytes) : Z := fold_left (fun a b => a * 256 + Z.of_N b) l 0.

Definition two63 : Z := 9223372036854775808.
Definition two64z : Z := 18446744073709551616.
Definition two31 : Z := 2147483648.
Definition two32 : Z := 4294967296.
Definition i64 (u : Z) : Z := if two63 <=? u then u - two64z else u.
Definition i32 (u : Z) : Z := if two31 <=? u then u - two32 else u.

(* len is clamped to the list length first: a hostile length field must not become a huge unary nat *)
Definition sub (b : bytes) (pos len : Z) : bytes :=
  if (pos <? 0) || (len <? 0) then []
  else firstn (Z.to_nat (Z.min len (zlen b))) (skipn (Z.to_nat (Z.min pos (zlen b))) b).

(* ---------- records *)

Definition trailer : bytes := [222; 173; 190; 239; 254; 237; 250; 206]%N.   (* DE AD BE EF FE ED FA CE *)
Definition log_magic : bytes := [255; 107; 108; 101; 118; 115]%N.           (* FF k l e v s *)
Definition idx_magic : bytes := [255; 107; 108; 101; 118; 105]%N.           (* FF k l e v i *)

Definition enc_rec (crc : bytes -> Z) (v : ver) (m : msg) : bytes :=
  match v with
  | V2 =>
    let body := be 8 (moff m) ++ be 8 (mtime m) ++ be 4 (zlen (mkey m)) ++ be 4 (zlen (mval m))
                ++ mkey m ++ mval m ++ trailer in
    be 4 (crc body) ++ body
  | V1 =>
    be 8 (moff m) ++ be 8 (mtime m) ++ be 4 (zlen (mkey m)) ++ be 4 (zlen (mval m))
    ++ be 4 (crc (mkey m ++ mval m)) ++ mkey m ++ mval m
  end.

Definition enc_log_header (v : ver) : bytes :=
  match v with V1 => [] | V2 => log_magic ++ [1; 0]%N end.

Definition enc_log (crc : bytes -> Z) (v : ver) (ms : list msg) : bytes :=
  enc_log_header v ++ concat (map (enc_rec crc v) ms).

(* readV2 / readV1; a short header (0 < n < 28) is corruption, n = 0 is the clean end *)
Definition read_rec (crc : bytes -> Z) (v : ver) (b : bytes) (pos : Z) : res (msg * Z) :=
  let hdr := sub b pos 28 in
  if zlen hdr =? 0 then Err EEOF
  else if zlen hdr <? 28 then Err ELogCorrupted
  else
    match v with
    | V2 =>
      let c := debe (sub hdr 0 4) in
      let off := i64 (debe (sub hdr 4 8)) in
      let tm := i64 (debe (sub hdr 12 8)) in
      let kl := i32 (debe (sub hdr 20 4)) in
      let vl := i32 (debe (sub hdr 24 4)) in
      if (kl <? 0) || (vl <? 0) then Err ELogCorrupted
      else if max_body <? kl + vl then Err ELogCorrupted
      else
        let payload := sub b (pos + 28) (kl + vl + 8) in
        if zlen payload <? kl + vl + 8 then Err ELogCorrupted
        else if negb (crc (sub hdr 4 24 ++ payload) =? c) then Err ELogCorrupted
        else if negb (bytes_eqb (sub payload (kl + vl) 8) trailer) then Err ELogCorrupted
        else Ok (mkMsg off tm (sub payload 0 kl) (sub payload kl vl), pos + 28 + kl + vl + 8)
    | V1 =>
      let off := i64 (debe (sub hdr 0 8)) in
      let tm := i64 (debe (sub hdr 8 8)) in
      let kl := i32 (debe (sub hdr 16 4)) in
      let vl := i32 (debe (sub hdr 20 4)) in
      let c := debe (sub hdr 24 4) in
      if (kl <? 0) || (vl <? 0) then Err ELogCorrupted
      else if max_body <? kl + vl then Err ELogCorrupted
      else
        let payload := sub b (pos + 28) (kl + vl) in
        if zlen payload <? kl + vl then Err ELogCorrupted
        else if negb (crc payload =? c) then Err ELogCorrupted
        else Ok (mkMsg off tm (sub payload 0 kl) (sub payload kl vl), pos + 28 + kl + vl)
    end.

(* message.OpenReader: version of a log file named after `base` *)
Definition log_version (b : bytes) (base : Z) : res ver :=
  if zlen b =? 0 then Ok V1
  else if zlen b <? 8 then Err ELogCorrupted
  else
    let h := sub b 0 8 in
    if bytes_eqb (sub h 0 6) log_magic then
      match sub h 6 2 with
      | [vb; rb] => if (1 <? vb)%N then Err ELogCorrupted
                    else if negb (rb =? 0)%N then Err ELogCorrupted
                    else if (vb =? 1)%N then Ok V2 else Err ELogCorrupted
      | _ => Err ELogCorrupted
      end
    else if i64 (debe h) =? base then Ok V1 else Err ELogCorrupted.

(* how a sequential scan of a log file ends *)
Inductive scan_end := ScanEOF | ScanCorrupt | ScanFuel.

(* read records from pos until the end or the first bad record *)
Fixpoint scan_log (crc : bytes -> Z) (fuel : nat) (v : ver) (b : bytes) (pos : Z)
  : list (Z * msg) * Z * scan_end :=
  match fuel with
  | O => ([], pos, ScanFuel)
  | S f =>
    match read_rec crc v b pos with
    | Ok (m, nxt) => let '(l, p, e) := scan_log crc f v b nxt in ((pos, m) :: l, p, e)
    | Err EEOF => ([], pos, ScanEOF)
    | Err _ => ([], pos, ScanCorrupt)
    end
  end.

Definition scan_fuel_of (b : bytes) : nat := S (length b).

(* ---------- index files *)

Definition idx_flags (p : params) : N :=
  ((if ptimes p then 1 else 0) + (if pkeys p then 2 else 0))%N.

Definition enc_idx_header (v : ver) (p : params) : bytes :=
  match v with V1 => [] | V2 => idx_magic ++ [1%N; idx_flags p] end.

Definition enc_item (p : params) (it : item) : bytes :=
  be 8 (ioff it) ++ be 8 (ipos it)
  ++ (if ptimes p then be 8 (its it) else [])
  ++ (if pkeys p then be 8 (ihash it) else []).

Definition enc_index (v : ver) (p : params) (items : list item) : bytes :=
  enc_idx_header v p ++ concat (map (enc_item p) items).

(* index headerParse *)
Definition idx_version (b : bytes) (base : Z) (p : params) : res ver :=
  if zlen b =? 0 then Ok V1
  else if zlen b <? 8 then Err EIndexCorrupted
  else
    let h := sub b 0 8 in
    if bytes_eqb (sub h 0 6) idx_magic then
      match sub h 6 2 with
      | [vb; fb] =>
        if (1 <? vb)%N then Err EIndexCorrupted
        else if negb (Bool.eqb (ptimes p) (N.testbit fb 0)) then Err EIndexCorrupted
        else if negb (Bool.eqb (pkeys p) (N.testbit fb 1)) then Err EIndexCorrupted
        else if negb (N.shiftr fb 2 =? 0)%N then Err EIndexCorrupted
        else if (vb =? 1)%N then Ok V2 else Err EIndexCorrupted
      | _ => Err EIndexCorrupted
      end
    else if i64 (debe h) =? base then Ok V1 else Err EIndexCorrupted.

Fixpoint dec_items (p : params) (fuel : nat) (b : bytes) : list item :=
  match fuel with
  | O => []
  | S f =>
    match b with
    | [] => []
    | _ =>
      let isz := item_size p in
      let chunk := sub b 0 isz in
      let off := i64 (debe (sub chunk 0 8)) in
      let pos := i64 (debe (sub chunk 8 8)) in
      let ts := if ptimes p then i64 (debe (sub chunk 16 8)) else 0 in
      let h := if pkeys p then debe (sub chunk (if ptimes p then 24 else 16) 8) else 0 in
      mkItem off pos ts h :: dec_items p f (skipn (Z.to_nat isz) b)
    end
  end.

(* index.Read *)
Definition index_read (p : params) (base : Z) (b : bytes) : res (ver * list item) :=
  if zlen b =? 0 then Ok (V1, [])
  else
    do v <- idx_version b base p;
    let data := match v with V1 => b | V2 => skipn 8 b end in
    if negb (zlen data mod item_size p =? 0) then Err EIndexCorrupted
    else Ok (v, dec_items p (length data) data).

(* ---------- segment.Check / segment.Recover on bytes *)

Definition scan_items (H : bytes -> Z) (p : params) (recs : list (Z * msg)) : list item :=
  (fix go (l : list (Z * msg)) (ts : Z) : list item :=
     match l with
     | [] => []
     | (pos, m) :: r => let it := new_item H p m pos ts in it :: go r (its it)
     end) recs 0.

Definition check_bytes (crc H : bytes -> Z) (p : params) (base : Z) (logb : bytes) (idxb : option bytes)
  : res unit :=
  do v <- log_version logb base;
  let '(recs, _, e) := scan_log crc (scan_fuel_of logb) v logb (hdr_size v) in
  match e with
  | ScanCorrupt => Err ELogCorrupted
  | ScanFuel => Err EOutOfFuel
  | ScanEOF =>
    match idxb with
    | None => Ok tt
    | Some ib =>
      do r <- index_read p base ib;
      if list_eqb item_eqb (scan_items H p recs) (snd r) then Ok tt else Err EIndexCorrupted
    end
  end.

(* result: new log bytes, new index bytes (None = no file) *)
Definition recover_bytes (crc H : bytes -> Z) (p : params) (base : Z) (logb : bytes) (idxb : option bytes)
  : res (bytes * option bytes) :=
  do v <- log_version logb base;
  let '(recs, _, e) := scan_log crc (scan_fuel_of logb) v logb (hdr_size v) in
  match e with
  | ScanFuel => Err EOutOfFuel
  | _ =>
    let newlog := match e with
                  | ScanCorrupt => enc_log crc v (map snd recs)
                  | _ => logb end in
    (* positions in the restored file equal the positions read (records are copied back to back) *)
    let items := scan_items H p recs in
    match idxb with
    | None => Ok (newlog, None)
    | Some ib =>
      match index_read p base ib with
      | Err _ => Ok (newlog, None)
      | Ok (iv, have) =>
        if list_eqb item_eqb have items then Ok (newlog, Some ib)
        else Ok (newlog, Some (enc_index iv p items))
      end
    end
  end.
