(* TimeInv.v — C10: in histories whose publish times never decrease (and are not negative), the index timestamps
   of every index file equal the message times (TS) in every reachable state: the hypothesis of
   log_get_by_time_correct is met.  T is a ghost bound: the largest time published so far. *)
From KV Require Import Base Model ListAux SearchProofs SegProofs ReaderProofs Spec SpecFacts LogInv
     ConsumeProofs GetProofs AbsFacts PublishProofs DeleteProofs OpenProofs ReadsPreserve History KeyProofs KeyInv TimeProofs.
From Coq Require Import ZifyBool ZifyNat.

Section TimeInv.
Variable H : bytes -> Z.
Notation KInv := (KInv H).
Notation KGood := (KGood H).

(* ---------- per-segment constructions *)

Lemma tf_none s : ts_faithful_seg (set_idx s None).
Proof. intros iv items E. discriminate. Qed.

Lemma tf_empty s v : ts_faithful_seg (set_idx s (Some (v, []))).
Proof. intros iv items E. cbn in E. injection E as <- <-. now left. Qed.

Lemma tf_derive p s iv v : ptimes p = true -> tmono 0 (srecs s) ->
  ts_faithful_seg (set_idx s (Some (iv, derive H p v (srecs s)))).
Proof.
  intros Hp Hm iv' items E. cbn in E. injection E as <- <-. right. unfold faithful, derive. cbn [srecs set_idx].
  now apply derive_faithful.
Qed.

Lemma tf_new_head c base : ts_faithful_seg (new_head c base).
Proof. intros iv items E. cbn in E. injection E as <- <-. now left. Qed.

Lemma tf_rewritten p mv iv survive : ptimes p = true -> tmono 0 survive -> ts_faithful_seg (rewritten H p mv iv survive).
Proof.
  intros Hp Hm iv' items E. cbn in E. injection E as <- <-. right. unfold faithful, derive. cbn [srecs rewritten].
  now apply derive_faithful.
Qed.

Lemma tmono_filter f : forall l lo, tmono lo l -> tmono lo (filter f l).
Proof.
  induction l as [|m r IH]; intros lo Hm; [exact I|]. destruct Hm as [H1 H2]. cbn [filter]. destruct (f m).
  - split; [exact H1|now apply IH].
  - apply IH. eapply tmono_weaken; [|exact H2]. exact H1.
Qed.

Lemma tmono_snoc_app lo a b T :
  tmono lo a -> (forall x, In x a -> mtime x <= T) -> lo <= T -> tmono T b -> tmono lo (a ++ b).
Proof.
  revert lo. induction a as [|m r IH]; intros lo Ha Hb Hlo Hm; cbn [app].
  - eapply tmono_weaken; [|exact Hm]. exact Hlo.
  - destruct Ha as [H1 H2]. split; [exact H1|]. apply IH; [exact H2|intros x Hx; apply Hb; now right| |exact Hm].
    apply Hb. now left.
Qed.

Lemma assign_times next : forall ms, map mtime (assign_offsets next ms) = map mtime ms.
Proof. intros ms. revert next. induction ms as [|m r IH]; intros next; [reflexivity|]. cbn [assign_offsets map mtime]. now rewrite IH. Qed.

Lemma tmono_times lo a b : map mtime a = map mtime b -> tmono lo a -> tmono lo b.
Proof.
  revert lo b. induction a as [|x a IH]; intros lo [|y b] E Hm; try discriminate; [exact I|].
  cbn [map] in E. injection E as E1 E2. destruct Hm as [H1 H2]. cbn [tmono]. split; [rewrite <- E1; exact H1|]. rewrite <- E1. now apply IH.
Qed.

Definition last_time (T : Z) (ms : list msg) : Z := match last_opt ms with Some m => mtime m | None => T end.

Lemma tmono_last_bound T ms : tmono T ms -> T <= last_time T ms /\ forall x, In x ms -> mtime x <= last_time T ms.
Proof.
  unfold last_time. revert T. induction ms as [|m r IH]; intros T Hm; [split; [cbn; lia|intros x []]|].
  destruct Hm as [H1 H2]. destruct r as [|m2 r'].
  - cbn. split; [exact H1|intros x [->|[]]; lia].
  - rewrite last_opt_cons_cons. destruct (IH (mtime m) H2) as [A B].
    destruct (last_opt (m2 :: r')) as [lm|] eqn:El; [|apply last_opt_none in El; discriminate].
    split; [lia|]. intros x [->|Hx]; [exact A|now apply B].
Qed.

(* ---------- the invariant *)

Definition TSp (p : params) (st : lstate) : Prop := ptimes p = true -> TS st.

Definition TGood (p : params) (T : Z) (st : lstate) : Prop :=
  KGood p st /\ TSp p st /\ tmono 0 (all_recs (segs st)) /\
  (forall m, In m (all_recs (segs st)) -> mtime m <= T) /\ wcarry st <= T /\ 0 <= T.

Lemma tgood_init p : TGood p 0 init_state.
Proof.
  split; [apply kgood_init|]. split; [intros _; constructor|]. split; [exact I|]. split; [intros m []|]. cbn. lia.
Qed.

(* ---------- Publish *)

Lemma head_faithful hd : head_inv hd -> ts_faithful_seg hd -> faithful hd (head_items hd).
Proof.
  intros (iv & its0 & Hsi & Hm) Hf. unfold head_items. rewrite Hsi. destruct (Hf iv its0 Hsi) as [->|Hx]; [|exact Hx].
  unfold faithful. destruct Hm as [Ho _]. destruct (srecs hd); [reflexivity|discriminate].
Qed.

Lemma last_its_time hd items m : faithful hd items -> last_opt (srecs hd) = Some m ->
  match last_opt items with Some it => its it = mtime m | None => False end.
Proof.
  unfold faithful. intros Hf Hl.
  assert (E : option_map its (last_opt items) = option_map mtime (last_opt (srecs hd))) by (rewrite <- !last_opt_map, Hf; reflexivity).
  rewrite Hl in E. destruct (last_opt items); cbn in E; [now injection E|discriminate].
Qed.

Theorem log_publish_ts c st ms st2 n T :
  KInv (cparams c) st -> TS st -> opened st = Some c -> ctimes c = true ->
  tmono 0 (all_recs (segs st)) -> (forall m, In m (all_recs (segs st)) -> mtime m <= T) -> wcarry st <= T -> 0 <= T ->
  tmono T ms -> log_publish H st ms = Ok (st2, n) ->
  TS st2 /\ wcarry st2 <= last_time T ms.
Proof.
  intros HK HT Hc Hpt Hm Hb Hw HT0 Hms E. pose proof HK as (HI & HX & Hp). set (p := cparams c) in *.
  destruct (tmono_last_bound T ms Hms) as [HTle _].
  assert (Hro : cro c = false).
  { unfold log_publish, get_cfg in E. rewrite Hc in E. cbn [bind] in E. destruct (cro c); [discriminate|reflexivity]. }
  pose proof HI as (Hne & HF & Hch & Hv & c' & Hc' & Hhead). rewrite Hc in Hc'. injection Hc' as <-. specialize (Hhead Hro).
  unfold log_publish, get_cfg in E. rewrite Hc in E. cbn [bind] in E. rewrite Hro in E.
  unfold head_seg in E. destruct (last_opt (segs st)) as [hd|] eqn:Ehd; [|contradiction]. cbn [bind] in E.
  assert (Hhd_in : In hd (segs st)) by now apply last_opt_in.
  assert (Hhdf : ts_faithful_seg hd) by (unfold TS in HT; rewrite Forall_forall in HT; now apply HT).
  pose proof (head_faithful hd Hhead Hhdf) as Hfa.
  (* the carried time: the time of the last message of the head, or wcarry *)
  assert (Hnt : next_time st hd <= T).
  { unfold next_time. destruct (last_opt (head_items hd)) as [it|] eqn:El; [|exact Hw].
    destruct (last_opt (srecs hd)) as [m|] eqn:Elr.
    - pose proof (last_its_time hd _ m Hfa Elr) as Hl. rewrite El in Hl. rewrite Hl. apply Hb.
      eapply all_recs_in_seg; [exact Hhd_in|now apply last_opt_in].
    - apply last_opt_none in Elr. unfold faithful in Hfa. rewrite Elr in Hfa. destruct (head_items hd); [discriminate|discriminate]. }
  assert (Hnew : forall nxt, tmono T (assign_offsets nxt ms)) by (intros nxt; eapply tmono_times; [symmetry; apply assign_times|exact Hms]).
  destruct (needs_rollover c hd) eqn:Eroll; destruct (existsb msg_too_big ms); try discriminate; injection E as <- _.
  - (* rollover *)
    split; [|cbn [wcarry set_segs]; lia].
    unfold TS. cbn [segs set_segs]. apply Forall_replace_nth.
    + apply Forall_app. split; [exact HT|]. constructor; [apply tf_new_head|constructor].
    + intros iv items Eix. cbn [sidx] in Eix. injection Eix as _ <-. right. unfold faithful. cbn [srecs new_head head_items sidx app].
      unfold next_time at 1. cbn [head_items new_head sidx last_opt wcarry]. apply derive_faithful; [exact Hpt|].
      eapply tmono_weaken; [exact Hnt|]. apply Hnew.
  - (* same head *)
    split; [|cbn [wcarry set_segs]; lia].
    unfold TS. cbn [segs set_segs]. apply Forall_replace_nth; [exact HT|].
    intros iv items Eix. cbn [sidx] in Eix. injection Eix as _ <-. right. unfold faithful. cbn [srecs]. rewrite !map_app. f_equal; [exact Hfa|].
    apply derive_faithful; [exact Hpt|]. eapply tmono_weaken; [exact Hnt|]. apply Hnew.
Qed.


(* ---------- Delete *)

Lemma tmono_seg_recs st s : tmono 0 (all_recs (segs st)) -> In s (segs st) -> tmono 0 (srecs s).
Proof. intros Hm Hs. now apply (tmono_seg 0 (segs st)). Qed.

Theorem log_delete_ts c st offs st2 r T :
  KInv (cparams c) st -> TS st -> opened st = Some c -> ctimes c = true ->
  tmono 0 (all_recs (segs st)) -> (forall m, In m (all_recs (segs st)) -> mtime m <= T) -> wcarry st <= T ->
  log_delete H st offs = Ok (st2, r) -> TS st2 /\ wcarry st2 <= T.
Proof.
  intros HK HT Hc Hpt Hm Hb Hw E. pose proof HK as (HI & HX & Hp). set (p := cparams c) in *. destruct r as [deleted size].
  pose proof HI as (Hne & HF & Hch & Hv & c' & Hc' & Hhead). rewrite Hc in Hc'. injection Hc' as <-.
  unfold log_delete, get_cfg in E. rewrite Hc in E. cbn [bind] in E.
  destruct (cro c) eqn:Hro; [discriminate|]. specialize (Hhead eq_refl).
  destruct offs as [|o0 orest]; [injection E as <- _; split; assumption|].
  destruct (zmin_list (o0 :: orest) <? 0); [discriminate|].
  destruct (seg_get (bases (segs st)) (zmin_list (o0 :: orest))) as [i|]; [|discriminate]. cbn [bind] in E.
  destruct (znth (segs st) i) as [src|] eqn:Esrc; [|discriminate].
  destruct (open_log_reader src) as [srcv|]; [|discriminate]. cbn [bind] in E.
  assert (Hsrc_in : In src (segs st)) by (eapply znth_in; eauto).
  pose proof (tmono_seg_recs st src Hm Hsrc_in) as Hms.
  destruct (filter (fun m => zmem (moff m) (o0 :: orest)) (srecs src)) as [|d0 dr]; [injection E as <- _; split; assumption|].
  pose proof (Forall_firstn' (ts_faithful_seg) (Z.to_nat i) _ HT) as HTf.
  pose proof (Forall_skipn' (ts_faithful_seg) (S (Z.to_nat i)) _ HT) as HTs.
  set (survive := filter (fun m => negb (zmem (moff m) (o0 :: orest))) (srecs src)) in *.
  assert (Hsm : tmono 0 survive) by (apply tmono_filter; exact Hms).
  assert (Hrw : forall mv iv, ts_faithful_seg (rewritten H p mv iv survive)) by (intros; apply tf_rewritten; assumption).
  (* the carried time of the source segment is the time of a live message, or the old carry *)
  assert (Hnt : is_last st i = true -> next_time st src <= T).
  { intros Hil. unfold next_time. destruct (last_opt (head_items src)) as [it|] eqn:El; [|exact Hw].
    assert (Hsrc_hd : last_opt (segs st) = Some src).
    { rewrite last_opt_znth. unfold is_last in Hil. replace (zlen (segs st) - 1) with i by lia. exact Esrc. }
    rewrite Hsrc_hd in Hhead.
    assert (Hsf : ts_faithful_seg src) by (unfold TS in HT; rewrite Forall_forall in HT; now apply HT).
    pose proof (head_faithful src Hhead Hsf) as Hfa.
    destruct (last_opt (srecs src)) as [m|] eqn:Elr.
    - pose proof (last_its_time src _ m Hfa Elr) as Hl. rewrite El in Hl. rewrite Hl. apply Hb.
      eapply all_recs_in_seg; [exact Hsrc_in|now apply last_opt_in].
    - apply last_opt_none in Elr. unfold faithful in Hfa. rewrite Elr in Hfa. destruct (head_items src); discriminate. }
  destruct (is_last st i) eqn:Elast.
  - specialize (Hnt eq_refl). destruct survive as [|s0 sr] eqn:Esv.
    + injection E as <- _. cbn [segs wcarry]. split; [|exact Hnt]. unfold TS. apply Forall_app. split; [exact HTf|]. constructor; [apply tf_new_head|constructor].
    + match type of E with context [if ?b then _ else _] => destruct b end; injection E as <- _; cbn [segs wcarry]; (split; [|exact Hnt]);
        unfold TS; apply Forall_app; (split; [exact HTf|]).
      * constructor; [apply Hrw|]. constructor; [apply tf_new_head|constructor].
      * constructor; [apply Hrw|constructor].
  - destruct survive as [|s0 sr] eqn:Esv; injection E as <- _; cbn [segs set_segs wcarry]; (split; [|exact Hw]); unfold TS.
    + apply Forall_app. split; assumption.
    + apply Forall_replace_nth; [exact HT|apply Hrw].
Qed.

(* ---------- reads *)

Definition TRel (c : cfg) (st st1 : lstate) : Prop :=
  KInv (cparams c) st -> TS st -> opened st = Some c -> ctimes c = true -> tmono 0 (all_recs (segs st)) ->
  KInv (cparams c) st1 /\ TS st1 /\ opened st1 = Some c /\ all_recs (segs st1) = all_recs (segs st).

Lemma TRel_refl c st : TRel c st st.
Proof. intros HK HT Hc Hp Hm. split; [exact HK|]. split; [exact HT|]. split; [exact Hc|reflexivity]. Qed.

Lemma TRel_trans c a b d : TRel c a b -> TRel c b d -> TRel c a d.
Proof.
  intros H1 H2 HK HT Hc Hp Hm. destruct (H1 HK HT Hc Hp Hm) as (K1 & T1 & O1 & A1).
  destruct (H2 K1 T1 O1 Hp ltac:(rewrite A1; exact Hm)) as (K2 & T2 & O2 & A2). split; [exact K2|]. split; [exact T2|]. split; [exact O2|congruence].
Qed.

Lemma TRel_wi c st i st1 s items : with_index H c st i = Ok (st1, s, items) -> TRel c st st1.
Proof.
  intros Hw HK HT Hc Hp Hm. destruct (with_index_exact H c st i st1 s items HK Hc Hw) as [_ K1].
  destruct (with_index_ts H c st i st1 s items HK HT Hc Hp Hm Hw) as [_ T1].
  destruct HK as (HI & _). destruct (with_index_preserves H c st i st1 s items HI Hc Hw) as (_ & A1 & O1 & _).
  split; [exact K1|]. split; [exact T1|]. split; [exact O1|]. unfold abs in A1. now injection A1.
Qed.

Definition WRel (c : cfg) (st st1 : lstate) : Prop := wcarry st1 = wcarry st.

Lemma WRel_wi c st i st1 s items : with_index H c st i = Ok (st1, s, items) -> WRel c st st1.
Proof.
  unfold with_index, WRel. destruct (znth (segs st) i); [|discriminate]. destruct (lvirt st); [intros E; now injection E as <- _ _|].
  destruct ((i =? zlen (segs st) - 1) && negb (cro c)); [intros E; now injection E as <- _ _|].
  destruct (ensure_index H (cparams c) (cnewver c) s0) as [[s2 it2]|]; [|discriminate]. cbn [bind]. intros E. now injection E as <- _ _.
Qed.

Lemma WRel_refl c st : WRel c st st. Proof. reflexivity. Qed.
Lemma WRel_trans c a b d : WRel c a b -> WRel c b d -> WRel c a d. Proof. unfold WRel. congruence. Qed.

End TimeInv.
